#include "register_type.h"
#include <Python.h>
PyObject *TypeHandle::get_python_type() const {
  TypeRegistry *r = TypeRegistry::ptr();
  if (_index <= 0 || _index > (int)r->_recs.size()) return nullptr;
  return (PyObject *)r->_recs[_index-1].cls;
}
PyObject *TypeHandle::wrap_python(void *ptr, PyTypeObject *cast_from) const {
  TypeRegistry *r = TypeRegistry::ptr();
  if (_index <= 0 || _index > (int)r->_recs.size() || !r->_recs[_index-1].func) return nullptr;
  return r->_recs[_index-1].func(ptr, cast_from);
}
std::string TypeHandle::get_name() const {
  TypeRegistry *r = TypeRegistry::ptr();
  if (_index <= 0 || _index > (int)r->_recs.size()) return "none";
  return r->_recs[_index-1].name;
}
TypeHandle TypeRegistry::register_dynamic_type(const std::string &name) {
  for (size_t i = 0; i < _recs.size(); ++i) if (_recs[i].name == name) return TypeHandle::from_index(i+1);
  _recs.push_back(Rec{name, nullptr, nullptr});
  return TypeHandle::from_index(_recs.size());
}
void TypeRegistry::record_python_type(TypeHandle type, PyTypeObject *cls, PythonWrapFunc *func) {
  if (type._index > 0 && type._index <= (int)_recs.size()) { _recs[type._index-1].cls = cls; _recs[type._index-1].func = func; }
}
