#ifndef SHIM_PNOTIFY_H
#define SHIM_PNOTIFY_H
#include "dtoolbase.h"
#include <iostream>
#include <string>
#include <assert.h>
#define nout (std::cerr)
class Notify {
public:
  static Notify *ptr() { static Notify n; return &n; }
  bool has_assert_failed() const { return _failed; }
  const std::string &get_assert_error_message() const { return _msg; }
  void clear_assert_failed() { _failed = false; }
  static std::ostream &out() { return std::cerr; }
  bool _failed = false;
  std::string _msg;
};
#define nassertr(c, r) { if (!(c)) { return r; } }
#define nassertv(c) { if (!(c)) { return; } }
#define nassertd(c) if (!(c))
#define nassertr_always(c, r) { if (!(c)) { return r; } }
#define nassertv_always(c) { if (!(c)) { return; } }
#define nassert_raise(m) do { Notify::ptr()->_failed = true; Notify::ptr()->_msg = (m); } while (0)
#define nassert_static(c) static_assert(c, #c)
#endif
