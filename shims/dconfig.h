#pragma once
