#pragma once
#include "register_type.h"
