#ifndef SHIM_REGISTER_TYPE_H
#define SHIM_REGISTER_TYPE_H
#include "dtoolbase.h"
#include <string>
#include <vector>
struct _object; typedef _object PyObject;
struct _typeobject; typedef _typeobject PyTypeObject;
class TypeHandle {
public:
  TypeHandle() : _index(0) {}
  static TypeHandle none() { return TypeHandle(); }
  static TypeHandle from_index(int i) { TypeHandle h; h._index = i; return h; }
  int get_index() const { return _index; }
  bool operator == (const TypeHandle &o) const { return _index == o._index; }
  bool operator != (const TypeHandle &o) const { return _index != o._index; }
  PyObject *get_python_type() const;
  PyObject *wrap_python(void *ptr, PyTypeObject *cast_from) const;
  std::string get_name() const;
  int _index;
};
class TypeRegistry {
public:
  typedef PyObject *PythonWrapFunc(void *ptr, PyTypeObject *cast_from);
  static TypeRegistry *ptr() { static TypeRegistry r; return &r; }
  TypeHandle register_dynamic_type(const std::string &name);
  void record_python_type(TypeHandle type, PyTypeObject *cls, PythonWrapFunc *func);
  void record_derivation(TypeHandle child, TypeHandle parent) {}
  struct Rec { std::string name; PyTypeObject *cls; PythonWrapFunc *func; };
  std::vector<Rec> _recs;
};
#define get_type_handle(T) (T::get_class_type())
#endif
