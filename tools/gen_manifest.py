#!/usr/bin/env python3
"""Regenerate MANIFEST.json from the table below and validate it against the schema."""
import json, os, subprocess, sys

VERIF = os.path.dirname(os.path.dirname(os.path.abspath(__file__)))
ALL = ["C%02d" % i for i in range(1, 21)]

# claimed checks: id -> (technique, level text, level note, design ref)
CLAIMED = {
    "C09": (
        "TLA+ spec CondIncl (reference conditional stack vs. the code's stack-less skip machine), TLC exhaustive "
        "refinement check; every closed program replayed through parse_file -E (and gcc -E for spec sanity); "
        "H-dir hook traces of replay runs, shipped tests and stub headers validated against CondInclTrace; spec Preproc "
        "(the COMPOSED preprocessor: one logical line per step over main + two headers; macro table x conditional "
        "stacks per file x include stack x once-only set x __LINE__/__FILE__/computed includes x physical-line shapes) "
        "with every complete behaviour replayed through parse_file -E and gcc -E",
        "TLC proves, for every well-nested directive sequence within the bound, that the modelled skip machine "
        "keeps/evaluates/acts on exactly what a conforming preprocessor does; conformance of the code to that "
        "machine is shown in both directions (exhaustive replay of the enumerated programs; trace validation of "
        "every observed directive step).",
        "Trusted: TLC, gcc -E as the reference that validates the spec on every replayed program, the 60-line "
        "renderer/projection in vf/checks/c09.py. Controlling expressions are spelled from a fixed table of "
        "integer expressions (expression evaluation itself is C07).",
        "DESIGN.md §C09"),
    "C10": (
        "TLA+ spec Traits (C++ special-member / abstract / polymorphic rules as recursive operators over class "
        "hierarchies built step by step), TLC enumeration with rule-sanity invariants; every hierarchy rendered to C++ "
        "and judged three ways: g++ SFINAE probes (spec sanity, disagreement = exit 2), interrogate via parse_file -p "
        "and via the constructor/destructor lists of the -od database",
        "TLC enumerates every two-class hierarchy and a fixed stratified cut of three-class hierarchies over the "
        "feature alphabet {ctor forms, =default, =delete, access, const/reference/class-type members, "
        "virtual/pure/override, virtual bases}; the spec's verdict is validated against g++ on every class, then "
        "interrogate's judgement and its exported implicit members are compared with it.",
        "Trusted: TLC, g++ 12 as the authority validating the transcribed rules on every generated class, the "
        "renderer. Classes whose own destructor is unusable are compared on abstract/polymorphic/destructible only "
        "(the property's two sentences disagree there); final-overrider subtleties through virtual bases are "
        "outside the enumerated domain (WFClass).",
        "DESIGN.md §C10"),
    "C06": (
        "TLA+ spec TypeTerm (declarator grammar: type terms built inside-out one constructor per step, Render = "
        "declarator text with both cv placements, Struct = the same type in type-trait combinators), TLC enumeration "
        "with well-formedness invariants; every term declared as variable / typedef / parameter and replayed: g++ "
        "confirms Render = Struct (spec sanity), parse_file must accept it, and the text parse_file prints back and "
        "the prototype recorded in the database are compiled next to the original under static_assert(is_same); "
        "specs NameLookup (namespaces, using-declarations/-directives, aliases, class scopes), TemplInst (class-template "
        "instantiation: member typedefs of stratified templates, default arguments, alias templates, traits idiom, "
        "injected class name; Norm vs the implementation-shaped NormE) and TemplNonType (non-type parameters, array "
        "bounds, expression arguments, named constants, default chains) enumerated / simulated by TLC and replayed the "
        "same way (g++ is the authority on every case; parse_file -p and database prototypes are the observations)",
        "Every well-formed type term up to the depth bound over pointer / reference / rvalue reference / array / "
        "function / pointer-to-member / const constructors is enumerated by TLC; acceptance and type identity of "
        "everything interrogate prints for it are decided by g++ on every case; shipped stub headers that g++ accepts "
        "must parse with zero errors.",
        "Trusted: TLC, g++ 12 (is_same decides type identity; it also validates the spec's Render against Struct on "
        "every term), the renderers of declaration forms / namespace programs / template programs. Specialisations, "
        "member templates and class-scope lookup beyond nested classes are covered only by fixed probes or the "
        "stub-header corpus.",
        "DESIGN.md §C06"),
    "C16": (
        "TLA+ spec ModuleInit (write_python_table_native's ready-set loop and find_dependency_cycle transcribed "
        "statement by statement), TLC exhaustive over all library digraphs incl. liveness <>Done; replay of generated "
        "multi-library modules in every .in order with exact order equality; H-mod hook traces validated against "
        "ModuleInitTrace; failure-path enumeration over damaged .in files",
        "TLC shows for every dependency digraph within the bound that the modelled algorithm places each library once, "
        "bases first modulo reported-and-broken cycle edges, and terminates; the code is bound to the model by "
        "comparing the generated registration order with the model's for every digraph and command-line order and by "
        "validating the hook trace of every interrogate_module run.",
        "Trusted: TLC, the renderer that realises a digraph as cross-library inheritance/typedefs, the Python 3.11 "
        "import of a sample of acyclic modules against the shims in /verif/shims.",
        "DESIGN.md §C16"),
    "C17": (
        "TLA+ specs IncludeSearch (stated lookup rule vs. find_include's probes, once-only inclusion over path "
        "spellings) and PathNorm (Filename::standardize/make_absolute/make_canonical over a small file-system model "
        "with a symlink), TLC exhaustive; replay on real directory trees through interrogate/parse_file and a linked "
        "path_tool harness (inode identity by stat); H-inc hook traces validated against IncludeTrace",
        "TLC checks that the modelled probes refine the stated rule for every presence subset, -I/-S order, include "
        "form and option set, and that path normalisation is idempotent and denotation preserving on every path of "
        "the model; every case is materialised and the tool's choice, ownership class and once-only behaviour are "
        "compared with the spec; every include event of every run is validated against the spec's actions.",
        "Trusted: TLC, os.stat for file identity (spec != stat is a machinery error), the directory-tree renderer. "
        "'Skipped with a warning' is observed at verbosity >= 2; '//' inside #include text is exercised in -I "
        "directories and command-line spellings instead (undefined in C).",
        "DESIGN.md §C17"),
    "C07": (
        "TLA+ specs ConstExpr/ConstExprGen (integer constant expressions built token by token, C++ int evaluation with "
        "Defined-ness, precedence-driven minimal rendering), NumLex (literal spellings) and ConstExprEnv (enumerators, "
        "const/constexpr variables, macros, arrays); TLC exhaustive + simulation; every expression replayed as "
        "enumerator, #define, array bound and #if through interrogate and read back from the database; g++ validates "
        "the spec's value on every constant",
        "TLC enumerates all expressions up to the depth bound over 22 operators, 3 casts and ?: with boundary leaves, "
        "checks evaluation laws on the model, and the recorded values are compared with Eval for every one; what "
        "interrogate cannot evaluate must be reported unevaluated, never a wrong number.",
        "Trusted: TLC, g++ -std=c++20 as the authority for every constant (spec != g++ is exit 2), vf/constexpr.py "
        "(Python mirror of the spec, compared with TLC on every dumped record). Unsigned-suffix literals only stand "
        "alone; out-of-range narrowing casts are outside the domain.",
        "DESIGN.md §C07"),
    "C11": (
        "TLA+ spec IdbDB/Idb (records, index space, remap_indices as a bijection commuting with every reference, "
        "Closed / WrappersFirst / LinksConsistent / UniqueNames invariants), TLC exhaustive; every real database "
        "produced by interrogate over a header x back-end x naming-option matrix dumped by raw index and evaluated "
        "against the same invariants by TLC (IdbState); extern-C redeclarations synthesised from the database alone "
        "compiled in one TU with the generated -c code; builder side: TLA+ spec IdbBuild (every mutation of the "
        "database under construction is an action: NextIndex / Add* / Update* / RemoveType / Remap / Done; promised "
        "indices, closure at Done, five deliberately broken protocols must violate), H-idbbuild hook traces of every "
        "interrogate run validated by IdbBuildTrace and cross-checked index by index against the file written",
        "The invariants are preserved by every modelled action for all small databases, and hold on each of the 558 "
        "real databases of the quick tier; the code/database agreement is decided by g++ (a signature mismatch is a "
        "compile error) and nm.",
        "Trusted: TLC, g++ (-fpermissive for the extern/static mismatch that belongs to C03), the raw-index dumper "
        "harness/idbm_tool.cxx. Builder-side actions are not modelled; the real producer is covered by the database "
        "sweep.",
        "DESIGN.md §C11"),
    "C13": (
        "TLA+ spec Idb (request_module, lazy load_latest, read_new, remap_indices, merge_from/merge_with, lookup "
        "caches with _lookups_fresh; reference Union), TLC exhaustive over library contents, load orders and "
        "request/query interleavings; Apalache inductive invariant for index-range allocation (IdbAlloc); complete "
        "behaviours replayed step by step through libinterrogatedb in fresh processes; H-idb hook traces validated "
        "against IdbTrace; real multi-library sets loaded in every permutation",
        "For every interleaving and order within the bound the projected database equals the disjoint union modulo "
        "true names, ranges are disjoint and caches coherent (TLC); the library follows the model at every step of "
        "4 800 replayed behaviours and on every observed load/merge event.",
        "Trusted: TLC, Apalache (IdbAlloc only), the text-format writer in vf/checks/_idbm.py, harness/idbm_tool.cxx "
        "(built with -fno-access-control to read raw state).",
        "DESIGN.md §C13"),
    "C08": (
        "TLA+ spec MacroRef (Prosser's macro-replacement algorithm with hide sets, #, ##, __VA_ARGS__, __VA_OPT__, "
        "GNU , ## __VA_ARGS__; actions Define/Undef/PushMacro/PopMacro/Text), TLC enumeration over seven program "
        "families with the NoResidual invariant; every (program, text line) replayed through parse_file -E and "
        "compared token by token; gcc -E validates the spec on every case; H-macro hook traces validated against "
        "MacroTrace",
        "TLC enumerates all macro programs of the families within the bound and carries the conforming expansion; on "
        "the claimed domain (cases raising no finding-class event of the reference run) parse_file must produce "
        "exactly that token sequence; finding classes are sampled one by one so crashes cannot mask other cases.",
        "Trusted: TLC, gcc -E -P -x c++ -std=gnu++20 as the authority for every case (spec != gcc is exit 2), the "
        "Python tokenizer of vf/checks/c08.py. Unspecified behaviour (invalid pastes, DR 268 rescanning, "
        "unterminated invocations) is marked by the spec and dropped.",
        "DESIGN.md §C08"),
    "C01": (
        "TLA+ specs CppLibCalls/WrapC (signatures over argument kinds with a defined meaning Sem shared by the spec and "
        "the generated C++ bodies; wrapper variants per omitted default; object heap), TLC exhaustive single-call "
        "behaviours + simulated call sequences; replay through compiled -c and -python wrappers driven only by the "
        "database (ctypes prototypes from recorded types), compared step by step with the spec and with a native run; "
        "spec WrapCScope adds namespaces / nested classes and enums / same-named classes in two namespaces, 4-6 "
        "parameters with 0-3 trailing defaults of every spelling, and up/downcasts under multiple and virtual inheritance",
        "Every signature of the alphabet with boundary argument tuples, and call sequences in which every wrapper "
        "variant is called at least twice on different objects, are executed through the real generated wrappers in "
        "12 option sets; return values, object states and the log of the instrumented bodies must equal Sem after "
        "every step.",
        "Trusted: TLC, g++, the renderer vf/wraplib.py and the ctypes driver; spec != native run is exit 2. Floats are "
        "exact dyadic values (transport, not arithmetic); 64-bit values are (hi, lo) word pairs. -python -true-names, "
        "destructor wrappers (none are generated) and several language features are not covered (DESIGN.md 14).",
        "DESIGN.md §C01"),
    "C02": (
        "TLA+ specs PyDispatch (overload sets built one overload per step; reference = C++ overload resolution on "
        "corresponding argument categories; mechanism = map_sets / collapse_default_remaps / RemapCompareLess order / "
        "per-parameter checks transcribed as a step machine) and PyObjects (ownership and constness of wrapped "
        "instances) and PySeqItem (Python's index rule for o[i] / o[i] = v against CPython's normalisation + the generated "
        "bounds test; histories replayed on size()/operator[] and MAKE_SEQ_PROPERTY classes with guard cells); TLC "
        "refinement invariant over all call tuples; replay on imported -python-native extension "
        "modules built against shims (vf/pymod.py), every call judged on overload log, values, exception, refcounts, "
        "ownership bits; g++ validates the reference",
        "TLC checks, for every overload set and call tuple within the bound, that the transcribed dispatch mechanism "
        "is order-insensitive under sort ties and equals C++ overload resolution outside the recorded deviation "
        "classes, and the ownership invariants over all histories; the built modules must behave as the mechanism "
        "model predicts on every replayed call and history.",
        "Trusted: TLC, g++ (native calls validate CppSelect; mismatch is exit 2), CPython 3.11, the shims in "
        "/verif/shims. Overload sets not distinguishable by Python type category are outside the domain. Coercion "
        "constructors, keyword dispatch, item assignment, reference-counted classes are not covered.",
        "DESIGN.md §C02"),
    "C03": (
        "TLA+ specs HashNames (hash_function_signature collision handling over abstract two-valued hash functions: "
        "tombstone, owner extension, suffix loop, frozen names) and OptLattice (pairwise covering set of option x "
        "construct-feature rows computed by TLC); each row replayed: interrogate (+ interrogate_module) -> g++ "
        "-fsyntax-only, compile, link with -z defs, nm uniqueness, Python import; collision libraries constructed "
        "with a ported hash; H-hash traces validated against HashNamesTrace",
        "Emitted wrapper and unique names are distinct and never change for every insertion order and hash pair "
        "(TLC); every row of the covering array and the collision libraries must produce code that compiles, links "
        "and (python back-ends) imports, with every database wrapper defined exactly once.",
        "Trusted: TLC, g++/ld/nm, CPython 3.11, the shims (option sets that depend on the Panda3D runtime are "
        "compiled against them). A 3-way covering array was too slow in TLC; thorough uses many pairwise variants.",
        "DESIGN.md §C03"),
    "C14": (
        "TLA+ spec Repro (a run as a step machine whose nondeterministic choices are the hidden inputs: allocation "
        "order feeding the RemapCompareLess sort, unordered iteration, clock / SOURCE_DATE_EPOCH, locale, "
        "environment), TLC: OutputPure and 'sort is allocation-independent iff the comparator is total'; replay of "
        "the dumped overload sets under a seeded allocator shuffle (LD_PRELOAD), locales, TZ, environment padding, "
        "setarch -R and time; sha256 equality; H-sort traces validated against ReproTrace",
        "TLC enumerates overload sets and reports exactly those with comparator ties; all of them plus controls are "
        "built into libraries and run repeatedly under differing hidden inputs; outputs must be byte-identical with "
        "a fixed epoch and differ only in the file identifier without.",
        "Trusted: TLC, harness/shufmalloc.c (the check fails as machinery error when fewer than half of the sets "
        "were observed in two or more heap orders). No comma-decimal locale is installed in the sandbox.",
        "DESIGN.md §C14"),
    "C15": (
        "TLA+ specs ToolRun (process life cycle and exit protocol) and LexModes (51 scanner modes x 24 symbols; TLC "
        "emits one input per mode path and the check verifies every reachable (mode, symbol/EOF) transition is "
        "covered); each generated input plus hand-written directive/literal edge cases fed as source, include, .N "
        "file and -D value to parse_file and interrogate; spec ExprEdge (every operator of the constant evaluator x 20 "
        "operand classes, rendered into ten evaluating contexts); all run records and H-run hook events validated "
        "against ToolRunTrace; thorough tier under ASan+UBSan",
        "Bounded-exhaustive enumeration over the lexer-mode model instead of random fuzzing: every mode transition "
        "reachable within the length bound is exercised; each run must terminate in bounded time without signal, and "
        "a run that reported a parse error exits non-zero and writes no output.",
        "Trusted: TLC, the mode model's fidelity to the scanner (derived by reading), time limits (re-run before a "
        "hang is reported). Random byte-level mutation is not done (not a model-based technique).",
        "DESIGN.md §C15"),
    "C19": (
        "TLA+ spec ToolRun (per channel open / writes / flush / close / check, at most one fault per channel, sticky "
        "fail bit, exit status), TLC exhaustive over fault schedules with a vacuity guard (the unfixed protocol must "
        "violate C19_FaultReported); every schedule replayed with an LD_PRELOAD fault injector at every write index "
        "of the measured fault-free run plus static conditions (missing directory, directory target, immutable "
        "file, full device via mknod); merged hook + injector traces validated against ToolRunTrace",
        "Every single-fault schedule on every requested output of interrogate and interrogate_module, at every "
        "write(2)/close index, must end in a non-zero exit status; fault-free runs must exit 0 with complete files.",
        "Trusted: TLC, harness/faultio.c reaching libstdc++ streams (a fault-free run must log at least one write per "
        "output, else exit 2).",
        "DESIGN.md §C19"),
    "C04": (
        "TLA+ specs CppLib/Export (libraries built declaration by declaration: files with source classes, access "
        "sections, member kinds, publish regions, min_vis, .N commands; the export RULE as predicates + closure next "
        "to the MECHANISM: build() scan plus on-demand get_type worklist), TLC safety invariants in every worklist "
        "state and Complete (mechanism = rule) at the fix-point; every complete library rendered to a header tree and "
        "replayed through interrogate, database read back with the query interface, generated code scanned for "
        "marker names of non-exported entities",
        "For every enumerated library and option set the set of exported types, callables and destructors must equal "
        "the rule's, and no wrapper may mention a non-exported entity; the modelled mechanism is shown to refine the "
        "rule by TLC, the code to follow it by exhaustive replay (28 810 libraries in the quick tier).",
        "Trusted: TLC, g++ -fsyntax-only (the generated headers are valid C++), the renderer vf/cpplib.py. Where the "
        "property sentence is coarser than the documented behaviour only what both agree on is demanded (DESIGN.md 14).",
        "DESIGN.md §C04"),
    "C05": (
        "TLA+ specs CppLib/ExportDesc (the generator's ground-truth description of every entity: names, kinds, bases "
        "and cast availability, nesting, roles, per-variant parameters/optional/this/return/caller-owns) and "
        "CommentAttach (comment-block attachment as a line machine: reference vs. the code's lookup, Refines / "
        "NoSharing / Adjacent); TLC enumeration; entity-by-entity comparison of the database dump with the model; "
        "comment sweeps over all line sequences of length <= 5",
        "Every fact the model holds about every exported entity of every enumerated library is compared with what the "
        "query interface reports (34 327 facts in the quick tier); every comment/declaration line sequence within the "
        "bound is replayed and each declaration's recorded comment compared with the reference attachment.",
        "Trusted: TLC, the renderer vf/cpplib.py (it writes the header from the same record the facts are read from). "
        "MAKE_PROPERTY / MAKE_SEQ descriptions are exercised under C11, not here; trailing comments are claimed only "
        "in enumerator lists.",
        "DESIGN.md §C05"),
    "C12": (
        "TLA+ specs IdbFileFormat/IdbFile (the text format as a byte stream: writers per minor version 3.0-3.3, istream "
        "primitives with the fail bit, every record reader, the reader as a step machine, 'temporary database then "
        "merge'), TLC: round trip, byte identity, version defaults, every content-removing prefix rejected whole; the "
        "spec's Write output IS the file replayed into libinterrogatedb (fresh process per case), every interface "
        "function compared with the spec's database, InterrogateDatabase::write compared byte for byte; real databases "
        "and all their prefixes likewise",
        "TLC proves the round-trip and never-half-merged properties for every database of the bounded family with "
        "adversarial strings in each minor format and every proper prefix; the library must agree with the spec's "
        "reader and writer on each of those files and on real interrogate output.",
        "Trusted: TLC, the ctypes driver harness/idb_driver.py and harness/idb_write.cxx. An identifier mismatch sets "
        "the error flag while the file may still be merged completely (accepted: fully merged or not at all).",
        "DESIGN.md §C12"),
    "C20": (
        "TLA+ spec IdbQuery (every interface function as a total operator; get_wrapper_by_unique_name = hash prefix + "
        "binary_search_wrapper_hash and get_fptr / binary_search_module as STEP MACHINES with NoAbort, StepBound, "
        "exactness invariants and <>Returned under weak fairness), TLC over all sorted tables of size 0..6 x every key "
        "position and all module-range layouts x every index; every enumerated query executed against "
        "libinterrogatedb in forked processes with CPU-time limits",
        "Termination and exactness of the searches are model checked for every table and key position; totality and "
        "lookup soundness are checked by executing every interface function with every index in [-2, next+2] and "
        "extreme ints and every position in [-1, count+1] on generated and real databases (172 760 calls in the "
        "quick tier), each compared with the spec's neutral or exact value.",
        "Trusted: TLC, the ctypes driver (prototypes parsed from interrogate_interface.h). The neutral value of "
        "interrogate_type_array_size is 1 (what a default record answers), accepted as defined-neutral.",
        "DESIGN.md §C20"),
}

NOT_APPLICABLE = {
    "C18": "bit-exact floating-point conversion cannot be expressed in TLA+/TLC (no floating point, 32-bit "
           "integers); a spec could only delegate to an external oracle, which would be a different technique "
           "(DESIGN.md §C18)",
}
NOT_YET = "check not built yet in this session (machinery for it is planned in DESIGN.md); nothing is claimed"


def main():
    hooks_commits = subprocess.run(
        ["git", "-C", "/repo", "log", "--format=%H %s", "--grep=^verif:"],
        stdout=subprocess.PIPE, text=True).stdout.strip().split("\n")
    checks = []
    for pid in ALL:
        if pid not in CLAIMED:
            continue
        tech, text, note, ref = CLAIMED[pid]
        checks.append(dict(
            property_id=pid,
            quick_cmd="./check %s --tier quick" % pid,
            thorough_cmd="./check %s --tier thorough" % pid,
            evidence_file="/verif/evidence/%s.json" % pid,
            replay_cmd_template="./check %s --replay {path}" % pid,
            engine="tlc",
            level_claimed=dict(category="model_checking", text=text, design_ref=ref),
            level_note=note,
            technique=tech))
    na = []
    for pid in ALL:
        if pid in CLAIMED:
            continue
        na.append(dict(property_id=pid, reason=NOT_APPLICABLE.get(pid, NOT_YET)))
    m = dict(
        version=1,
        setup_cmd="./setup.sh",
        hooks=dict(
            guard="INTERROGATE_VERIF_TRACE",
            enable="cmake -DCMAKE_CXX_FLAGS='-Wno-error -DINTERROGATE_VERIF_TRACE' (vf/build.py kind 'hooked'); "
                   "hooks are inert unless $INTERROGATE_VERIF_TRACE names a trace file",
            baseline_off_cmd="./tools/baseline_off.sh",
            source_commits=[c.split()[0] for c in hooks_commits if c],
            add_only=True),
        engines=[dict(name="tlc", path="/opt/veriftools/tla/tla2tools.jar",
                      serves_properties=sorted(CLAIMED),
                      kind_free_text="TLC model checker on the TLA+ specifications in /verif/specs; "
                                     "behaviours are replayed into the built tools and hook traces are validated "
                                     "against *Trace specs (vf/)")],
        checks=checks,
        not_applicable=na,
        notes="All checks: ./check <ID> --tier quick|thorough; exit 0 held / 1 VIOLATION / 2 machinery failure. "
              "known_findings.json lists recorded findings and fixed defects.")
    out = os.path.join(VERIF, "MANIFEST.json")
    json.dump(m, open(out, "w"), indent=1)
    open(out, "a").write("\n")
    try:
        import jsonschema
        jsonschema.validate(m, json.load(open("/root/.vp/MANIFEST.schema.json")))
        print("MANIFEST.json valid;", len(checks), "checks,", len(na), "not claimed")
    except ImportError:
        print("jsonschema not importable here; written without validation")


if __name__ == "__main__":
    main()
