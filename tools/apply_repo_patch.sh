#!/bin/bash
# tools/apply_repo_patch.sh <patch.diff> "<commit message>"  — apply to /repo and commit (one commit per patch)
set -e
P=$(realpath "$1"); git -C /repo apply --3way "$P" 2>/dev/null || git -C /repo apply "$P"
git -C /repo add -A -- src cmake tests parser-inc 2>/dev/null || true
git -C /repo commit -q -m "$2"
git -C /repo log --oneline -1
