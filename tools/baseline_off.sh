#!/bin/bash
# MANIFEST.hooks.baseline_off_cmd: build with the guard OFF and run the repository's own suite.
set -e
cd "$(dirname "$0")/.."
python3 -m vf.build off
ctest --test-dir .build/off -j8 --timeout 900
