#!/bin/bash
# Development aid (not registered): run a check against a mutated scratch copy of /repo.
#   tools/mutant.sh <patch.diff | -e 'sed-expr' file> <ID> [tier]
# The scratch worktree (/tmp/vmut/repo) and its build (/tmp/vmut/build) are reused between
# mutants (incremental rebuild) and can be removed with:  tools/mutant.sh --clean
set -u
W=${VMUT:-/tmp/vmut}
if [ "${1:-}" = "--clean" ]; then
  git -C /repo worktree remove --force $W/repo 2>/dev/null; rm -rf $W; git -C /repo worktree prune; exit 0
fi
mkdir -p $W
if [ ! -d $W/repo ]; then git -C /repo worktree add --detach $W/repo HEAD >/dev/null 2>&1 || exit 3; fi
git -C $W/repo checkout -q -f --detach $(git -C /repo rev-parse HEAD); git -C $W/repo clean -fdq
if [ -n "${VMUT_BASEPATCH:-}" ]; then git -C $W/repo apply "$VMUT_BASEPATCH" || exit 3; fi
if [ "$1" = "-e" ]; then
  sed -i "$2" $W/repo/$3 || exit 3; shift 3
  git -C $W/repo diff --stat | tail -1
else
  P=$(realpath "$1"); git -C $W/repo apply "$P" || exit 3; shift
fi
ID=$1; TIER=${2:-quick}
cd /verif && VERIF_REPO=$W/repo VERIF_BUILD=$W/build VERIF_OUT=$W/out ./check $ID --tier $TIER
rc=$?
echo "mutant exit=$rc"
exit $rc
