#!/usr/bin/env python3
"""tools/add_fixed.py <property> <finding-id> "<substring of fix commit subject>" "<what failed>" — record a fixed defect."""
import json, subprocess, sys
prop, fid, subj, what = sys.argv[1:5]
log = subprocess.run(["git", "-C", "/repo", "log", "--format=%h %s"], stdout=subprocess.PIPE, text=True).stdout.split("\n")
sha = [l.split()[0] for l in log if l[8:].startswith("fix:") and subj in l]
assert len(sha) == 1, (subj, sha)
kf = json.load(open("/verif/known_findings.json"))
kf["findings"] = [f for f in kf["findings"] if f["id"] != fid]
kf["findings"].append(dict(id=fid, property=prop, status="fixed", commit=sha[0], what=what,
                           line="fixed: property=%s %s %s" % (prop, sha[0], what)))
json.dump(kf, open("/verif/known_findings.json", "w"), indent=1)
print("fixed:", prop, sha[0], fid)
