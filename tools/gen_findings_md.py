#!/usr/bin/env python3
"""Regenerate FINDINGS.md (human-readable view of known_findings.json)."""
import json, os
V = os.path.dirname(os.path.dirname(os.path.abspath(__file__)))
kf = json.load(open(os.path.join(V, "known_findings.json")))["findings"]
out = ["# Known findings and repaired defects of panda3d/interrogate", "",
       "Generated from `known_findings.json` by `tools/gen_findings_md.py`.  *finding* = genuine defect recorded, not",
       "repaired (each check prints a `KNOWN-FINDING:` line when it reproduces it and still reports any other violation);",
       "*fixed* = repaired by the `fix:` commit named (suppresses nothing).", ""]
for status, title in (("finding", "Open findings"), ("fixed", "Repaired defects")):
    rows = sorted((f for f in kf if f.get("status", "finding") == status), key=lambda f: (f["property"], f["id"]))
    out += ["## %s (%d)" % (title, len(rows)), ""]
    if status == "finding":
        out += ["| property | id | what fails | input predicate |", "|---|---|---|---|"]
        for f in rows:
            out.append("| %s | `%s` | %s | %s |" % (f["property"], f["id"], f["what"].replace("|", "\\|").replace("\n", " "),
                                                  (f.get("predicate") or "").replace("|", "\\|").replace("\n", " ")))
    else:
        out += ["| property | commit | id | what failed |", "|---|---|---|---|"]
        for f in rows:
            out.append("| %s | `%s` | `%s` | %s |" % (f["property"], f.get("commit", "?"), f["id"], f["what"].replace("|", "\\|").replace("\n", " ")))
    out.append("")
open(os.path.join(V, "FINDINGS.md"), "w").write("\n".join(out))
print("FINDINGS.md:", sum(1 for f in kf if f.get("status", "finding") == "finding"), "open,", sum(1 for f in kf if f.get("status") == "fixed"), "fixed")
