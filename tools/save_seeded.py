#!/usr/bin/env python3
"""tools/save_seeded.py <adv-out-dir> <i> <PROP> <n> "<detected_by>" ["<history>"] — copy an adversary change into seeded/."""
import json, os, shutil, sys
src, i, prop, n, how = sys.argv[1:6]
hist = sys.argv[6] if len(sys.argv) > 6 else None
d = "/verif/seeded/%s-%s" % (prop, n)
os.makedirs(d, exist_ok=True)
for f in ("patch.diff", "demo.sh"):
    shutil.copy(os.path.join(src, i, f), d)
m = json.load(open(os.path.join(src, i, "meta.json")))
m.update(dict(property=prop, origin="independent sub-agent given only the property text and a scratch worktree",
              confirmed="patch applies to /repo HEAD of that time, builds, ctest 10/10, demo.sh exits 1 with the patch and 0 "
                        "without (sub-agent); re-applied and rebuilt by tools/mutant.sh",
              detected_by=how))
if hist:
    m["history"] = hist
json.dump(m, open(os.path.join(d, "meta.json"), "w"), indent=1)
print(d)
