#!/bin/bash
# development aid: run every thorough check once, sequentially, and summarise
cd "$(dirname "$0")/.."
for id in C01 C02 C03 C04 C05 C06 C07 C08 C10 C11 C12 C13 C14 C16 C17 C19 C20 C15; do
  s=$(date +%s); out=$(./check $id --tier thorough 2>&1 | tail -3 | cut -c1-300); rc=$?
  echo "== $id rc=$? $(( $(date +%s) - s ))s :: $(echo "$out" | tail -1)"
done
