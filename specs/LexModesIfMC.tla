---------------------------- MODULE LexModesIfMC ----------------------------
(* Model-checking wrapper of LexModesIf: every state TLC keeps (one per VIEW value) is dumped as a
   directive text (symbols + the modes gone through); vf/checks/c15.py renders it into #if / #elif /
   computed #include / #define contexts.  Dumped from an INVARIANT for the reason given in LexModesMC. *)
EXTENDS LexModesIf, Json, CSV, IOUtils

DumpFile == IF "VERIF_DUMP" \in DOMAIN IOEnv THEN IOEnv.VERIF_DUMP ELSE ""

DumpConstraint ==
  IF DumpFile # "" /\ Len(inp) >= 1
    THEN CSVWrite("%1$s", <<ToJson([i |-> inp, p |-> path])>>, DumpFile)
    ELSE TRUE
=============================================================================
