--------------------------- MODULE PyDispatchEval ---------------------------
(* Evaluates PyDispatch on the overload sets selected for replay (read from $VERIF_SETS, the
   records dumped by PyDispatchMC) and dumps, for every call of every set, the reference result,
   the C++ argument types and the deviation classes.  The invariants are checked again. *)
EXTENDS PyDispatch, Json, CSV, IOUtils

Sel == JsonDeserialize(IOEnv.VERIF_SETS)
DumpFile == IF "VERIF_DUMP" \in DOMAIN IOEnv THEN IOEnv.VERIF_DUMP ELSE ""

AllIntVals == 1..27
FewIntVals == {2, 7, 9, 10, 14, 15, 21, 23, 25, 27}
AllArgKinds == OtherArgs
Cats1 == CatSet
\* fixes present in the tree under test (the check looks for them in the source and tells TLC)
SameNames == {"same"}
AltNames == {"alt"}
BothNames == {"same", "alt"}
NoFix == (IF "VERIF_FIX_INTERR" \in DOMAIN IOEnv THEN {"int-error-ignored"} ELSE {})
         \cup (IF "VERIF_FIX_EXTRA" \in DOMAIN IOEnv THEN {"extra-args"} ELSE {})

EvalInit == \E i \in 1..Len(Sel) : S = Sel[i].ov /\ kind = Sel[i].kind /\ nm = Sel[i].nm /\ done = TRUE
EvalNext == UNCHANGED vars
EvalSpec == EvalInit /\ [][EvalNext]_vars

SetToSeq(A) == LET RECURSIVE F(_) F(X) == IF X = {} THEN <<>> ELSE LET x == CHOOSE y \in X : TRUE IN <<x>> \o F(X \ {x}) IN F(A)

CallRec(call, cx) ==
  LET e == Expected(S, call) IN
  [a |-> call.a, kw |-> call.kw, self |-> call.self, e |-> e.k, j |-> e.j,
   \* the call normalised to positions (what the selected overload must receive), its status
   pa |-> Norm(S, call).a, st |-> Norm(S, call).st,
   \* per position: the parameter type of the converting constructor C++ uses for the selected
   \* overload ("" where the argument is passed as it is)
   co |-> IF e.k # "run" THEN <<>> ELSE
          [i \in 1..Len(Norm(S, call).a) |->
             IF S[e.j].p[i] \in CoCats /\ InstOf(Norm(S, call).a[i]) = ""
               THEN CppCtor(CoClass(S[e.j].p[i]), ArgStd(Norm(S, call).a[i])) ELSE ""],
   ct |-> IF HasKw(call) THEN <<>> ELSE [i \in 1..N(call) |-> ArgType(S, Norm(S, call), i)],
   cpp |-> IF HasKw(call) THEN 0 ELSE CppSelect(S, Norm(S, call)),
   dev |-> DevC(S, call, cx),
   m |-> PyResultsC(S, call, cx),
   \* the mechanism model (a function of the input only) does not give the reference result
   dis |-> e.k # "none" /\ \E r \in PyResultsC(S, call, cx) : ~Agree(r, e)]

SetId == CHOOSE i \in 1..Len(Sel) : Sel[i].ov = S /\ Sel[i].kind = kind /\ Sel[i].nm = nm
\* one short line per call (lines longer than the writer's buffer would interleave between workers)
EvalConstraint ==
  IF DumpFile # ""
    THEN LET sid == SetId
             cx == SetCtx(S) IN
         \A c \in Calls(S, kind) : CSVWrite("%1$s", <<ToJson([s |-> sid] @@ CallRec(c, cx))>>, DumpFile)
    ELSE TRUE
=============================================================================
