SPECIFICATION Spec
CONSTANTS
  MaxN = 0
  MaxKey = 0
  MaxMods = 0
  FixShort = TRUE
  FixMid = TRUE
  Tasks = {}
  DbInputs <- MCDbInputs
  StageInputs <- MCStageInputs
  FirstInputs <- MCFirstInputs
CHECK_DEADLOCK FALSE
