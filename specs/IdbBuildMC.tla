----------------------------- MODULE IdbBuildMC -----------------------------
(***************************************************************************)
(* Bounded model of IdbBuild: every interleaving of allocate / add shell / *)
(* add / complete / grow / remove / link / remap / done over at most       *)
(* MaxIdx indices, UNDER THE INTENDED PROTOCOL of the builder:             *)
(*   - an index is allocated for a purpose (`intent`: the kind it will     *)
(*     get; "x" = allocated and never used, like the next_index the module *)
(*     definition burns);                                                  *)
(*   - a record may refer to 0, to a record that is there with the right   *)
(*     kind, or to an allocated index whose intent is that kind;           *)
(*   - a type is added as a shell (not fully defined, no references) and   *)
(*     completed in place; a shell may be removed while nothing refers to  *)
(*     it; a removed index is never referred to again;                     *)
(*   - a wrapper is added for a function that is there, then listed by it; *)
(*   - remap and done happen when nothing is in flight.                    *)
(* TLC shows the invariants of IdbBuild inductive under this protocol.     *)
(* Broken # "none" drops one rule; the corresponding invariant must fail   *)
(* (vacuity guard, cfgs IdbBuild_broken_*.cfg).                            *)
(***************************************************************************)
EXTENDS IdbBuild

CONSTANTS MaxIdx, MCKinds, Broken

VARIABLES intent, unlinked
mvars == <<vars, intent, unlinked>>

Idx == 1..MaxIdx
Live(i) == i \in DOMAIN intent /\ i \notin removed
Targets(k) == {0} \cup {i \in Present : db[i].k = k} \cup {i \in Pending : intent[i] = k}
                  \cup (IF Broken = "dangling" THEN {next} ELSE {})

Shell == [k |-> "t", fd |-> FALSE, gl |-> FALSE, r |-> [wrapped |-> <<0>>, methods |-> <<>>]]
TypeRecs(self) == {[k |-> "t", fd |-> TRUE, gl |-> FALSE, r |-> [wrapped |-> <<j>>, methods |-> <<>>]] : j \in Targets("t") \ {self}}
FuncRecs == {[k |-> "f", fd |-> TRUE, gl |-> FALSE, r |-> [cls |-> <<j>>, cw |-> <<>>]] : j \in Targets("t")}
WrapRecs == {[k |-> "w", fd |-> TRUE, gl |-> FALSE, r |-> [fn |-> <<f>>, ret |-> <<j>>]] : f \in OfKind("f"), j \in Targets("t")}
ElemRecs == {[k |-> "e", fd |-> TRUE, gl |-> FALSE, r |-> [type |-> <<j>>, getter |-> <<f>>]] : j \in Targets("t"), f \in Targets("f")}

MInit == Init /\ intent = <<>> /\ unlinked = {}

Building == phase = "build" /\ ~remapped

MNext ==
  /\ Building /\ next <= MaxIdx
  /\ \E k \in MCKinds \cup {"x"} :
       /\ NextIndex(next)
       /\ intent' = (next :> k) @@ intent
  /\ UNCHANGED unlinked

\* broken allocator: hands out an index that remove_type freed
MReuse ==
  /\ Broken = "reuse-index" /\ Building
  /\ \E i \in removed : NextIndex(i) /\ intent' = (i :> "t") @@ intent
  /\ UNCHANGED unlinked

MAddShell ==
  /\ Building
  /\ \E i \in Pending : intent[i] = "t" /\ Add(i, Shell)
  /\ UNCHANGED <<intent, unlinked>>

MAddType ==            \* a type added complete (get_atomic_string_type)
  /\ Building
  /\ \E i \in Pending : intent[i] = "t" /\ \E rec \in TypeRecs(i) : Add(i, rec)
  /\ UNCHANGED <<intent, unlinked>>

MAddFunction ==
  /\ Building
  /\ \E i \in Pending : intent[i] = "f" /\ \E rec \in FuncRecs : Add(i, rec)
  /\ UNCHANGED <<intent, unlinked>>

MAddWrapper ==
  /\ Building
  /\ \E i \in Pending : intent[i] = "w" /\ \E rec \in WrapRecs : Add(i, rec) /\ unlinked' = unlinked \cup {i}
  /\ UNCHANGED intent

MAddElement ==
  /\ Building
  /\ \E i \in Pending : intent[i] = "e" /\ \E rec \in ElemRecs : Add(i, rec)
  /\ UNCHANGED <<intent, unlinked>>

MComplete ==
  /\ Building
  /\ \E i \in OfKind("t") : /\ ~db[i].fd
                            /\ \E rec \in TypeRecs(i) : Update(i, rec)
  /\ UNCHANGED <<intent, unlinked>>

\* broken: a completed type is written back as a shell
MDegrade ==
  /\ Broken = "degrade" /\ Building
  /\ \E i \in OfKind("t") : db[i].fd /\ Update(i, [db[i] EXCEPT !.fd = FALSE])
  /\ UNCHANGED <<intent, unlinked>>

MGrow ==               \* a method is appended to a type that is there
  /\ Building
  /\ \E i \in OfKind("t"), f \in Targets("f") \ {0} :
        /\ db[i].fd /\ db[i].r.methods = <<>>
        /\ Update(i, [db[i] EXCEPT !.r.methods = <<f>>])
  /\ UNCHANGED <<intent, unlinked>>

MRemove ==
  /\ Building
  /\ \E i \in OfKind("t") : /\ ~db[i].fd
                            /\ Broken = "remove-referenced" \/ i \notin Referenced
                            /\ Remove(i)
  /\ UNCHANGED <<intent, unlinked>>

MLink ==
  /\ Building
  /\ \E w \in unlinked : LET f == db[w].r.fn[1] IN
        /\ Update(f, [db[f] EXCEPT !.r.cw = Append(@, w)])
        /\ unlinked' = unlinked \ {w}
  /\ UNCHANGED intent

InFlight == unlinked # {} \/ \E i \in Pending : intent[i] # "x"

MRemap ==
  /\ Building /\ ~InFlight
  /\ Remap(1)
  /\ intent' = [n \in DOMAIN db' |-> db'[n].k]
  /\ UNCHANGED unlinked

\* the index the module definition burns after the remap
MBurn ==
  /\ phase = "build" /\ remapped /\ next <= MaxIdx + 1 /\ Pending = {}
  /\ NextIndex(next) /\ intent' = (next :> "x") @@ intent
  /\ UNCHANGED unlinked

MDone ==
  /\ phase = "build" /\ ~InFlight
  /\ Done
  /\ UNCHANGED <<intent, unlinked>>

MNextStep == MNext \/ MReuse \/ MAddShell \/ MAddType \/ MAddFunction \/ MAddWrapper \/ MAddElement
             \/ MComplete \/ MDegrade \/ MGrow \/ MRemove \/ MLink \/ MRemap \/ MBurn \/ MDone

MSpec == MInit /\ [][MNextStep]_mvars

\* the protocol keeps its own bookkeeping consistent
IntentOK == /\ DOMAIN intent = alloc
            /\ \A i \in Present : intent[i] = db[i].k
            /\ unlinked \subseteq OfKind("w")

\* not vacuous: complete, non-trivial databases are reached (checked by a cfg that must violate this)
NeverInteresting == ~ (phase = "done" /\ removed # {} /\ OfKind("w") # {} /\ Promised = {})
=============================================================================
