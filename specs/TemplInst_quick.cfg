SPECIFICATION Spec
CONSTANTS
  MaxDefs = 2
  MinDefs = 1
  Size = "S"
  BodyTerms <- MCBodyTerms
  DfltTerms <- MCDfltTerms
  AliasTerms <- MCAliasTerms
  QueryTerms <- MCQueryTerms
INVARIANT ResultGround
CONSTRAINT DumpConstraint
CHECK_DEADLOCK FALSE
