---------------------------- MODULE CondInclMC ----------------------------
(* Model-checking wrapper: bounds, and the dump of every closed program with
   the reference result the spec carries (replayed into parse_file by vf). *)
EXTENDS CondIncl, Json, CSV, IOUtils

Code(l) == IF l.k \in CondKinds THEN l.k \o ":" \o l.c ELSE l.k

DumpFile == IF "VERIF_DUMP" \in DOMAIN IOEnv THEN IOEnv.VERIF_DUMP ELSE ""

\* A complete behaviour = a closed program.  Only programs that contain at least one
\* conditional and one observable line are worth replaying.
Interesting == depth = 0 /\ Len(prog) >= 2 /\ \E i \in 1..Len(prog) : prog[i].k = "endif"

DumpConstraint ==
  IF DumpFile # "" /\ Interesting
    THEN CSVWrite("%1$s", <<ToJson([p |-> [i \in 1..Len(prog) |-> Code(prog[i])],
                                     o |-> rout, d |-> rdef, ev |-> rev])>>, DumpFile)
    ELSE TRUE
=============================================================================
