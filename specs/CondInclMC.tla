---------------------------- MODULE CondInclMC ----------------------------
(* Model-checking wrapper: bounds, and the dump of every complete program with
   the reference result the spec carries (replayed into parse_file by vf). *)
EXTENDS CondIncl, Json, CSV, IOUtils

CONSTANT MinDump     \* dump closed programs of at least this length (= MaxLen for exhaustive runs:
                     \* every shorter closed program is a prefix of a dumped one)

Code(l) == IF l.k \in CondKinds THEN l.k \o ":" \o l.c ELSE l.k

DumpFile == IF "VERIF_DUMP" \in DOMAIN IOEnv THEN IOEnv.VERIF_DUMP ELSE ""

Interesting == depth = 0 /\ Len(prog) >= MinDump /\ \E i \in 1..Len(prog) : prog[i].k = "endif"

DumpConstraint ==
  IF DumpFile # "" /\ Interesting
    THEN CSVWrite("%1$s", <<ToJson([p |-> [i \in 1..Len(prog) |-> Code(prog[i])],
                                     o |-> rout, d |-> rdef, ev |-> rev])>>, DumpFile)
    ELSE TRUE
=============================================================================
