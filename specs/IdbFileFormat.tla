--------------------------- MODULE IdbFileFormat ---------------------------
(***************************************************************************)
(* The interrogate database text format (properties C12, C20) as a BYTE    *)
(* STREAM, constant level only (no variables): the record shapes, the      *)
(* writer `WriteDb` (= InterrogateDatabase::write and the output() methods *)
(* of every record class, field by field, separator by separator), the     *)
(* istream primitives the reader is made of (operator>>(int&), get(),      *)
(* idf_input_string, idf_input_vector) threaded with the stream's fail     *)
(* bit, the input() method of every record class, and remap_indices.       *)
(* A string is a sequence of byte values 1..255; a file is a sequence of   *)
(* byte values.  LENGTH CLASSES: a stream element 1000 + n stands for a    *)
(* RUN of n bytes 'x' (n up to 100 000), so that strings of 255, 256,      *)
(* 65 535, 65 536 and 100 000 bytes stay one element long for TLC; the     *)
(* writer counts their real length (BLen), the reader takes whole          *)
(* elements that add up to the stored length, the renderer expands them.   *)
(*  Module IdbFile turns the reader into the step machine of  *)
(* load_latest/read/read_new; module IdbQuery puts the query interface on  *)
(* top of the record shapes.                                               *)
(*                                                                         *)
(* Shapes (every record also has idx = its index number):                  *)
(*  function [name, alts, flags, cls, scoped, cw, pw, comment, proto]      *)
(*  wrapper  [name, alts, flags, fn, ret, rdtor, unique, comment,          *)
(*            params : Seq([name, flags, type])]                           *)
(*  type     [name, alts, flags, scoped, true, outer, atomic, wrapped,     *)
(*            asize, ctors, dtor, elems, methods, mseqs, casts,            *)
(*            derivs : Seq([flags, base, up, down]),                       *)
(*            enums : Seq([name, scoped, comment, value]), nested, comment]*)
(*  manifest [name, alts, flags, ival, type, getter, def]                  *)
(*  element  [name, alts, flags, type, getter, setter, has, clear, del,    *)
(*            length, insert, getkey, scoped, comment]                     *)
(*  makeseq  [name, alts, lenget, elemget, scoped, comment]                *)
(*  database [id, lib, hash, mod, f, w, t, m, e, s]  (f..s: sequences in   *)
(*            ascending idx order, the iteration order of the std::maps)   *)
(***************************************************************************)
EXTENDS Integers, Sequences, FiniteSets, TLC

SP == 32
NL == 10
IsSpace(c) == c \in {9, 10, 11, 12, 13, 32}
IsDigit(c) == c \in 48..57

\* flag bits the format or the reader depends on
TF_array == 4194304          \* InterrogateType::F_array   0x400000
FF_constructor == 256        \* InterrogateFunction::F_constructor
FF_destructor == 512         \* InterrogateFunction::F_destructor
HasBit(flags, bit) == (flags \div bit) % 2 = 1
SetBit(flags, bit) == IF HasBit(flags, bit) THEN flags ELSE flags + bit

CurrentMajor == 3
CurrentMinor == 3

RECURSIVE Cat(_)
Cat(ss) == IF ss = <<>> THEN <<>> ELSE Head(ss) \o Cat(Tail(ss))

---------------------------------------------------------------------------
(* Writer *)
RECURSIVE Dec(_)
Dec(n) == IF n < 10 THEN <<48 + n>> ELSE Append(Dec(n \div 10), 48 + (n % 10))
WInt(n) == IF n < 0 THEN <<45>> \o Dec(0 - n) ELSE Dec(n)
WIntSp(n) == Append(WInt(n), SP)

\* real length of a string / stream element (a run token 1000 + n is n bytes long)
RunBase == 1000
ElemLen(e) == IF e >= RunBase THEN e - RunBase ELSE 1
RECURSIVE RunLen(_, _)
RunLen(s, js) == IF js = {} THEN 0 ELSE LET j == CHOOSE j \in js : TRUE IN ElemLen(s[j]) - 1 + RunLen(s, js \ {j})
BLen(s) == Len(s) + RunLen(s, {j \in 1..Len(s) : s[j] >= RunBase})    \* (recursion only over the run tokens)

\* idf_output_string(out, str, whitespace)
WStrW(s, ws) == WInt(BLen(s)) \o <<ws>> \o (IF s = <<>> THEN <<>> ELSE Append(s, ws))
WStr(s) == WStrW(s, SP)

\* idf_output_vector: size, then every element followed by a blank
WVecInt(v) == WIntSp(Len(v)) \o Cat([i \in 1..Len(v) |-> WIntSp(v[i])])

\* InterrogateComponent::output
WComp(c) == WStr(c.name) \o WIntSp(Len(c.alts)) \o Cat([i \in 1..Len(c.alts) |-> WStr(c.alts[i])])

WFunction(f) ==
  WComp(f) \o WIntSp(f.flags) \o WIntSp(f.cls) \o WStr(f.scoped) \o WVecInt(f.cw) \o WVecInt(f.pw)
  \o WStrW(f.comment, NL) \o WStrW(f.proto, NL)

WParam(p) == WStr(p.name) \o WIntSp(p.flags) \o WIntSp(p.type)
WWrapper(w) ==
  WComp(w) \o WIntSp(w.flags) \o WIntSp(w.fn) \o WIntSp(w.ret) \o WIntSp(w.rdtor)
  \o WStr(w.unique) \o WStr(w.comment)
  \o WIntSp(Len(w.params)) \o Cat([i \in 1..Len(w.params) |-> Append(WParam(w.params[i]), SP)])

WDeriv(d) == WIntSp(d.flags) \o WIntSp(d.base) \o WIntSp(d.up) \o WInt(d.down)
WEnum(e) == WStr(e.name) \o WStr(e.scoped) \o WStrW(e.comment, NL) \o WInt(e.value)
WType(t) ==
  WComp(t) \o WIntSp(t.flags) \o WStr(t.scoped) \o WStr(t.true)
  \o WIntSp(t.outer) \o WIntSp(t.atomic) \o WIntSp(t.wrapped)
  \o (IF HasBit(t.flags, TF_array) THEN WIntSp(t.asize) ELSE <<>>)
  \o WVecInt(t.ctors) \o WIntSp(t.dtor)
  \o WVecInt(t.elems) \o WVecInt(t.methods) \o WVecInt(t.mseqs) \o WVecInt(t.casts)
  \o WIntSp(Len(t.derivs)) \o Cat([i \in 1..Len(t.derivs) |-> Append(WDeriv(t.derivs[i]), SP)])
  \o WIntSp(Len(t.enums)) \o Cat([i \in 1..Len(t.enums) |-> Append(WEnum(t.enums[i]), SP)])
  \o WVecInt(t.nested) \o WStrW(t.comment, NL)

WManifest(m) ==
  WComp(m) \o WIntSp(m.flags) \o WIntSp(m.ival) \o WIntSp(m.type) \o WIntSp(m.getter) \o WStr(m.def)

\* The element record is the only one whose layout depends on the minor version:
\* has/clear from 3.1, del/length from 3.2, insert/getkey from 3.3.
WElement(e, minor) ==
  WComp(e) \o WIntSp(e.flags) \o WIntSp(e.type) \o WIntSp(e.getter) \o WIntSp(e.setter)
  \o (IF minor >= 1 THEN WIntSp(e.has) \o WIntSp(e.clear) ELSE <<>>)
  \o (IF minor >= 2 THEN WIntSp(e.del) \o WIntSp(e.length) ELSE <<>>)
  \o (IF minor >= 3 THEN WIntSp(e.insert) \o WIntSp(e.getkey) ELSE <<>>)
  \o WStr(e.scoped) \o WStrW(e.comment, NL)

WMakeSeq(s) == WComp(s) \o WIntSp(s.lenget) \o WIntSp(s.elemget) \o WStr(s.scoped) \o WStrW(s.comment, NL)

WLine(idx, body) == WIntSp(idx) \o Append(body, NL)

\* InterrogateDatabase::write, with the header and the element layout of format major.minor
WriteDbAs(db, major, minor) ==
  Append(WInt(db.id), NL) \o WIntSp(major) \o Append(WInt(minor), NL)
  \o WStr(db.lib) \o WStr(db.hash) \o WStr(db.mod) \o <<NL>>
  \o Append(WInt(Len(db.f)), NL) \o Cat([i \in 1..Len(db.f) |-> WLine(db.f[i].idx, WFunction(db.f[i]))])
  \o Append(WInt(Len(db.w)), NL) \o Cat([i \in 1..Len(db.w) |-> WLine(db.w[i].idx, WWrapper(db.w[i]))])
  \o Append(WInt(Len(db.t)), NL) \o Cat([i \in 1..Len(db.t) |-> WLine(db.t[i].idx, WType(db.t[i]))])
  \o Append(WInt(Len(db.m)), NL) \o Cat([i \in 1..Len(db.m) |-> WLine(db.m[i].idx, WManifest(db.m[i]))])
  \o Append(WInt(Len(db.e)), NL) \o Cat([i \in 1..Len(db.e) |-> WLine(db.e[i].idx, WElement(db.e[i], minor))])
  \o Append(WInt(Len(db.s)), NL) \o Cat([i \in 1..Len(db.s) |-> WLine(db.s[i].idx, WMakeSeq(db.s[i]))])

WriteDb(db, minor) == WriteDbAs(db, CurrentMajor, minor)

---------------------------------------------------------------------------
(* Reader primitives.  A stream position is st = [p |-> next unread byte (1-based), ok |-> ~fail()].
   Every primitive is a no-op on a failed stream (the sentry fails), returns
   [st |-> new position, v |-> value]; `old` is what the target variable held before. *)
StartPos == [p |-> 1, ok |-> TRUE]
Failed(p) == [p |-> p, ok |-> FALSE]

RECURSIVE SkipWs(_, _)
SkipWs(s, p) == IF p <= Len(s) /\ IsSpace(s[p]) THEN SkipWs(s, p + 1) ELSE p

RECURSIVE Digs(_, _, _)
Digs(s, p, acc) == IF p <= Len(s) /\ IsDigit(s[p]) THEN Digs(s, p + 1, acc * 10 + (s[p] - 48))
                   ELSE [p |-> p, v |-> acc]

\* std::istream::operator>>(int&)
RInt(s, st, old) ==
  IF ~st.ok THEN [st |-> st, v |-> old]
  ELSE LET p1 == SkipWs(s, st.p) IN
    IF p1 > Len(s) THEN [st |-> Failed(p1), v |-> old]           \* end of file while skipping blanks: variable untouched
    ELSE LET p2 == IF s[p1] \in {43, 45} THEN p1 + 1 ELSE p1
             d == Digs(s, p2, 0) IN
      IF d.p = p2 THEN [st |-> Failed(p2), v |-> 0]               \* no digit: failbit, 0 stored
      ELSE [st |-> [p |-> d.p, ok |-> TRUE], v |-> IF s[p1] = 45 THEN 0 - d.v ELSE d.v]

\* std::istream::get()
RGet(s, st) ==
  IF st.ok /\ st.p <= Len(s) THEN [st |-> [p |-> st.p + 1, ok |-> TRUE], v |-> s[st.p]]
  ELSE [st |-> Failed(st.p), v |-> 255]

\* the `length` bytes after the separator; running off the end sets failbit.
\* Take: how many stream elements from position p make up exactly n bytes (-1: they do not)
RECURSIVE Take(_, _, _)
Take(s, p, n) ==
  IF n = 0 THEN 0
  ELSE IF p > Len(s) \/ ElemLen(s[p]) > n THEN 0 - 1
  ELSE LET r == Take(s, p + 1, n - ElemLen(s[p])) IN IF r = 0 - 1 THEN r ELSE r + 1
RBytes(s, st, n) ==
  IF n <= 0 THEN [st |-> st, v |-> <<>>]
  ELSE IF st.ok /\ st.p + n - 1 <= Len(s) /\ \A i \in st.p..(st.p + n - 1) : s[i] < RunBase      \* plain bytes
    THEN [st |-> [p |-> st.p + n, ok |-> TRUE], v |-> SubSeq(s, st.p, st.p + n - 1)]
  ELSE LET k == IF st.ok THEN Take(s, st.p, n) ELSE 0 - 1 IN
    IF k # 0 - 1 THEN [st |-> [p |-> st.p + k, ok |-> TRUE], v |-> SubSeq(s, st.p, st.p + k - 1)]
    ELSE [st |-> Failed(Len(s) + 1), v |-> <<>>]

\* idf_input_string(istream&, std::string&)
RStr(s, st, old) ==
  LET n == RInt(s, st, 0) IN
  IF ~n.st.ok THEN [st |-> n.st, v |-> old]
  ELSE RBytes(s, RGet(s, n.st).st, n.v)

\* idf_input_string(istream&, const char *&): a zero length leaves the pointer alone (and skips nothing)
RCStr(s, st, old) ==
  LET n == RInt(s, st, 0) IN
  IF ~n.st.ok \/ n.v = 0 THEN [st |-> n.st, v |-> old]
  ELSE RBytes(s, RGet(s, n.st).st, n.v)

RECURSIVE RInts(_, _, _, _)
RInts(s, st, n, acc) ==
  IF n <= 0 THEN [st |-> st, v |-> acc]
  ELSE LET x == RInt(s, st, 0) IN RInts(s, x.st, n - 1, Append(acc, x.v))

\* idf_input_vector<int>
RVecInt(s, st, old) ==
  LET n == RInt(s, st, 0) IN
  IF ~n.st.ok THEN [st |-> n.st, v |-> old] ELSE RInts(s, n.st, n.v, <<>>)

RECURSIVE RStrs(_, _, _, _)
RStrs(s, st, n, acc) ==
  IF n <= 0 THEN [st |-> st, v |-> acc]
  ELSE LET x == RStr(s, st, <<>>) IN RStrs(s, x.st, n - 1, Append(acc, x.v))

\* InterrogateComponent::input  (INTENDED: a count that could not be read is 0 -- see C12 fix 1)
RComp(s, st) ==
  LET nm == RStr(s, st, <<>>)
      na == RInt(s, nm.st, 0)
      al == RStrs(s, na.st, na.v, <<>>)
  IN [st |-> al.st, name |-> nm.v, alts |-> al.v]

RFunction(s, st0) ==
  LET c == RComp(s, st0)
      fl == RInt(s, c.st, 0)
      cl == RInt(s, fl.st, 0)
      sc == RStr(s, cl.st, <<>>)
      cw == RVecInt(s, sc.st, <<>>)
      pw == RVecInt(s, cw.st, <<>>)
      co == RStr(s, pw.st, <<>>)
      pr == RStr(s, co.st, <<>>)
  IN [st |-> pr.st,
      v |-> [name |-> c.name, alts |-> c.alts, flags |-> fl.v, cls |-> cl.v, scoped |-> sc.v,
             cw |-> cw.v, pw |-> pw.v, comment |-> co.v, proto |-> pr.v]]

RParam(s, st0) ==
  LET nm == RStr(s, st0, <<>>)
      fl == RInt(s, nm.st, 0)
      ty == RInt(s, fl.st, 0)
  IN [st |-> ty.st, v |-> [name |-> nm.v, flags |-> fl.v, type |-> ty.v]]
RECURSIVE RParams(_, _, _, _)
RParams(s, st, n, acc) ==
  IF n <= 0 THEN [st |-> st, v |-> acc]
  ELSE LET x == RParam(s, st) IN RParams(s, x.st, n - 1, Append(acc, x.v))

RWrapper(s, st0) ==
  LET c == RComp(s, st0)
      fl == RInt(s, c.st, 0)
      fn == RInt(s, fl.st, 0)
      rt == RInt(s, fn.st, 0)
      rd == RInt(s, rt.st, 0)
      un == RStr(s, rd.st, <<>>)
      co == RStr(s, un.st, <<>>)
      np == RInt(s, co.st, 0)
      ps == IF np.st.ok THEN RParams(s, np.st, np.v, <<>>) ELSE [st |-> np.st, v |-> <<>>]
  IN [st |-> ps.st,
      v |-> [name |-> c.name, alts |-> c.alts, flags |-> fl.v, fn |-> fn.v, ret |-> rt.v, rdtor |-> rd.v,
             unique |-> un.v, comment |-> co.v, params |-> ps.v]]

RDeriv(s, st0) ==
  LET fl == RInt(s, st0, 0)
      ba == RInt(s, fl.st, 0)
      up == RInt(s, ba.st, 0)
      dn == RInt(s, up.st, 0)
  IN [st |-> dn.st, v |-> [flags |-> fl.v, base |-> ba.v, up |-> up.v, down |-> dn.v]]
RECURSIVE RDerivs(_, _, _, _)
RDerivs(s, st, n, acc) ==
  IF n <= 0 THEN [st |-> st, v |-> acc]
  ELSE LET x == RDeriv(s, st) IN RDerivs(s, x.st, n - 1, Append(acc, x.v))

REnum(s, st0) ==
  LET nm == RStr(s, st0, <<>>)
      sc == RStr(s, nm.st, <<>>)
      co == RStr(s, sc.st, <<>>)
      va == RInt(s, co.st, 0)
  IN [st |-> va.st, v |-> [name |-> nm.v, scoped |-> sc.v, comment |-> co.v, value |-> va.v]]
RECURSIVE REnums(_, _, _, _)
REnums(s, st, n, acc) ==
  IF n <= 0 THEN [st |-> st, v |-> acc]
  ELSE LET x == REnum(s, st) IN REnums(s, x.st, n - 1, Append(acc, x.v))

RType(s, st0) ==
  LET c == RComp(s, st0)
      fl == RInt(s, c.st, 0)
      sc == RStr(s, fl.st, <<>>)
      tn == RStr(s, sc.st, <<>>)
      ou == RInt(s, tn.st, 0)
      at == RInt(s, ou.st, 0)
      wr == RInt(s, at.st, 0)
      az == IF HasBit(fl.v, TF_array) THEN RInt(s, wr.st, 1) ELSE [st |-> wr.st, v |-> 1]
      ct == RVecInt(s, az.st, <<>>)
      dt == RInt(s, ct.st, 0)
      el == RVecInt(s, dt.st, <<>>)
      me == RVecInt(s, el.st, <<>>)
      ms == RVecInt(s, me.st, <<>>)
      ca == RVecInt(s, ms.st, <<>>)
      nd == RInt(s, ca.st, 0)
      de == IF nd.st.ok THEN RDerivs(s, nd.st, nd.v, <<>>) ELSE [st |-> nd.st, v |-> <<>>]
      ne == RInt(s, de.st, 0)
      en == IF ne.st.ok THEN REnums(s, ne.st, ne.v, <<>>) ELSE [st |-> ne.st, v |-> <<>>]
      nt == RVecInt(s, en.st, <<>>)
      co == RStr(s, nt.st, <<>>)
  IN [st |-> co.st,
      v |-> [name |-> c.name, alts |-> c.alts, flags |-> fl.v, scoped |-> sc.v, true |-> tn.v,
             outer |-> ou.v, atomic |-> at.v, wrapped |-> wr.v, asize |-> az.v,
             ctors |-> ct.v, dtor |-> dt.v, elems |-> el.v, methods |-> me.v, mseqs |-> ms.v,
             casts |-> ca.v, derivs |-> de.v, enums |-> en.v, nested |-> nt.v, comment |-> co.v]]

RManifest(s, st0) ==
  LET c == RComp(s, st0)
      fl == RInt(s, c.st, 0)
      iv == RInt(s, fl.st, 0)
      ty == RInt(s, iv.st, 0)
      ge == RInt(s, ty.st, 0)
      df == RStr(s, ge.st, <<>>)
  IN [st |-> df.st,
      v |-> [name |-> c.name, alts |-> c.alts, flags |-> fl.v, ival |-> iv.v, type |-> ty.v,
             getter |-> ge.v, def |-> df.v]]

\* InterrogateElement::input with its get_file_minor_version() gates
RElement(s, st0, minor) ==
  LET c == RComp(s, st0)
      fl == RInt(s, c.st, 0)
      ty == RInt(s, fl.st, 0)
      ge == RInt(s, ty.st, 0)
      se == RInt(s, ge.st, 0)
      ha == IF minor >= 1 THEN RInt(s, se.st, 0) ELSE [st |-> se.st, v |-> 0]
      cl == IF minor >= 1 THEN RInt(s, ha.st, 0) ELSE [st |-> ha.st, v |-> 0]
      de == IF minor >= 2 THEN RInt(s, cl.st, 0) ELSE [st |-> cl.st, v |-> 0]
      le == IF minor >= 2 THEN RInt(s, de.st, 0) ELSE [st |-> de.st, v |-> 0]
      ins == IF minor >= 3 THEN RInt(s, le.st, 0) ELSE [st |-> le.st, v |-> 0]
      gk == IF minor >= 3 THEN RInt(s, ins.st, 0) ELSE [st |-> ins.st, v |-> 0]
      sc == RStr(s, gk.st, <<>>)
      co == RStr(s, sc.st, <<>>)
  IN [st |-> co.st,
      v |-> [name |-> c.name, alts |-> c.alts, flags |-> fl.v, type |-> ty.v, getter |-> ge.v,
             setter |-> se.v, has |-> ha.v, clear |-> cl.v, del |-> de.v, length |-> le.v,
             insert |-> ins.v, getkey |-> gk.v, scoped |-> sc.v, comment |-> co.v]]

RMakeSeq(s, st0) ==
  LET c == RComp(s, st0)
      lg == RInt(s, c.st, 0)
      eg == RInt(s, lg.st, 0)
      sc == RStr(s, eg.st, <<>>)
      co == RStr(s, sc.st, <<>>)
  IN [st |-> co.st,
      v |-> [name |-> c.name, alts |-> c.alts, lenget |-> lg.v, elemget |-> eg.v,
             scoped |-> sc.v, comment |-> co.v]]

\* `in >> index >> record` of section number k (1 functions, 2 wrappers, 3 types, 4 manifests,
\* 5 elements, 6 make_seqs)
SecKey == <<"f", "w", "t", "m", "e", "s">>
RRecord(s, st0, k, minor) ==
  LET ix == RInt(s, st0, 0)
      r == CASE k = 1 -> RFunction(s, ix.st)
             [] k = 2 -> RWrapper(s, ix.st)
             [] k = 3 -> RType(s, ix.st)
             [] k = 4 -> RManifest(s, ix.st)
             [] k = 5 -> RElement(s, ix.st, minor)
             [] k = 6 -> RMakeSeq(s, ix.st)
  IN [st |-> r.st, v |-> [idx |-> ix.v] @@ r.v]

---------------------------------------------------------------------------
(* Database-level operators *)
EmptyTables == [f |-> <<>>, w |-> <<>>, t |-> <<>>, m |-> <<>>, e |-> <<>>, s |-> <<>>]
Tables(db) == [k \in {"f", "w", "t", "m", "e", "s"} |-> db[k]]

Idxs(recs) == {recs[i].idx : i \in 1..Len(recs)}
AllIdxs(db) == Idxs(db.f) \cup Idxs(db.w) \cup Idxs(db.t) \cup Idxs(db.m) \cup Idxs(db.e) \cup Idxs(db.s)
NumRecs(db) == Len(db.f) + Len(db.w) + Len(db.t) + Len(db.m) + Len(db.e) + Len(db.s)

\* std::map::insert: keeps ascending idx order; an existing key wins
InsertRec(recs, r) ==
  IF r.idx \in Idxs(recs) THEN recs
  ELSE LET k == Cardinality({i \in 1..Len(recs) : recs[i].idx < r.idx})
       IN SubSeq(recs, 1, k) \o <<r>> \o SubSeq(recs, k + 1, Len(recs))

Range(q) == {q[i] : i \in 1..Len(q)}

\* read_new after every type: "Older versions of interrogate were not setting these flags."
ForceFlagsFor(fs, t) ==
  [i \in 1..Len(fs) |->
     LET a == IF t.dtor # 0 /\ fs[i].idx = t.dtor THEN [fs[i] EXCEPT !.flags = SetBit(@, FF_destructor)] ELSE fs[i]
     IN IF a.idx \in Range(t.ctors) THEN [a EXCEPT !.flags = SetBit(@, FF_constructor)] ELSE a]
RECURSIVE ForceFlagsAll(_, _)
ForceFlagsAll(fs, ts) == IF ts = <<>> THEN fs ELSE ForceFlagsAll(ForceFlagsFor(fs, Head(ts)), Tail(ts))
ForceFlags(db) == [db EXCEPT !.f = ForceFlagsAll(db.f, db.t)]

\* documented defaults of the fields a 3.<minor> file lacks
ElemDefaults(e, minor) ==
  [e EXCEPT !.has = IF minor >= 1 THEN @ ELSE 0, !.clear = IF minor >= 1 THEN @ ELSE 0,
            !.del = IF minor >= 2 THEN @ ELSE 0, !.length = IF minor >= 2 THEN @ ELSE 0,
            !.insert = IF minor >= 3 THEN @ ELSE 0, !.getkey = IF minor >= 3 THEN @ ELSE 0]
Defaults(db, minor) == [db EXCEPT !.e = [i \in 1..Len(db.e) |-> ElemDefaults(db.e[i], minor)]]

\* The domain of the format: what the reader may assume of a file.
Sorted(recs) == \A i, j \in 1..Len(recs) : i < j => recs[i].idx < recs[j].idx
WellFormed(db) ==
  /\ Sorted(db.f) /\ Sorted(db.w) /\ Sorted(db.t) /\ Sorted(db.m) /\ Sorted(db.e) /\ Sorted(db.s)
  /\ Cardinality(AllIdxs(db)) = NumRecs(db)                  \* one index space
  /\ 0 \notin AllIdxs(db)
  /\ \A i \in 1..Len(db.t) :
       /\ db.t[i].dtor = 0 \/ db.t[i].dtor \in Idxs(db.f)    \* read_new dereferences them
       /\ Range(db.t[i].ctors) \subseteq Idxs(db.f)
       /\ HasBit(db.t[i].flags, TF_array) \/ db.t[i].asize = 1
FlagsClosed(db) == ForceFlags(db) = db

\* add_function / add_wrapper / add_type (+ the flag fix-up of read_new) / ... on the tables tp
AddRecord(tp, k, r) ==
  LET key == SecKey[k]
      t1 == [tp EXCEPT ![key] = InsertRec(@, r)]
  IN IF k = 3 THEN [t1 EXCEPT !.f = ForceFlagsFor(@, r)] ELSE t1

---------------------------------------------------------------------------
(* read_new as ONE function of the stream (module IdbFile runs the same thing step by step and
   checks that both agree; module IdbQuery uses it to know what a database file contains). *)
RECURSIVE RRecs(_, _, _, _, _, _)
RRecs(s, st, k, minor, n, tp) ==
  IF n <= 0 \/ ~st.ok THEN [st |-> st, v |-> tp]
  ELSE LET r == RRecord(s, st, k, minor) IN
       IF ~r.st.ok THEN [st |-> r.st, v |-> tp] ELSE RRecs(s, r.st, k, minor, n - 1, AddRecord(tp, k, r.v))

RECURSIVE RSections(_, _, _, _, _)
RSections(s, st, k, minor, tp) ==
  IF k > 6 THEN [st |-> st, v |-> tp]
  ELSE LET n == RInt(s, st, 0) IN
       IF ~n.st.ok THEN [st |-> n.st, v |-> tp]
       ELSE LET r == RRecs(s, n.st, k, minor, n.v, tp) IN
            IF ~r.st.ok THEN r ELSE RSections(s, r.st, k + 1, minor, r.v)

\* a whole file read by a process that has read nothing before: [ok, major, minor, db]
ReadFile(s) ==
  LET i == RInt(s, StartPos, 0)
      a == RInt(s, i.st, 0)
      b == RInt(s, a.st, 0)
      l == RCStr(s, b.st, <<>>)
      h == RCStr(s, l.st, <<>>)
      m == RCStr(s, h.st, <<>>)
      good == a.v = CurrentMajor /\ b.v <= CurrentMinor
      r == IF good THEN RSections(s, m.st, 1, b.v, EmptyTables) ELSE [st |-> m.st, v |-> EmptyTables]
  IN [ok |-> good /\ r.st.ok, major |-> a.v, minor |-> b.v,
      db |-> [id |-> i.v, lib |-> l.v, hash |-> h.v, mod |-> m.v] @@ r.v]

---------------------------------------------------------------------------
(* remap_indices(first): wrappers first, then functions, types, manifests, elements, make_seqs;
   every internal reference goes through IndexRemapper::map_from (identity on unknown numbers). *)
IdxSeq(recs) == [i \in 1..Len(recs) |-> recs[i].idx]
RemapOrder(db) == IdxSeq(db.w) \o IdxSeq(db.f) \o IdxSeq(db.t) \o IdxSeq(db.m) \o IdxSeq(db.e) \o IdxSeq(db.s)
RemapFn(db, first) ==
  LET ord == RemapOrder(db)
  IN [x \in Range(ord) |-> first - 1 + CHOOSE i \in 1..Len(ord) : ord[i] = x]
MapIdx(mp, x) == IF x \in DOMAIN mp THEN mp[x] ELSE x
MapSeq(mp, q) == [i \in 1..Len(q) |-> MapIdx(mp, q[i])]

RemapF(mp, f) == [f EXCEPT !.idx = MapIdx(mp, @), !.cls = MapIdx(mp, @), !.cw = MapSeq(mp, @), !.pw = MapSeq(mp, @)]
MapParams(mp, ps) == [i \in 1..Len(ps) |-> [ps[i] EXCEPT !.type = MapIdx(mp, @)]]
MapDerivs(mp, ds) == [i \in 1..Len(ds) |-> [ds[i] EXCEPT !.base = MapIdx(mp, @), !.up = MapIdx(mp, @), !.down = MapIdx(mp, @)]]
RemapW(mp, w) == [w EXCEPT !.idx = MapIdx(mp, @), !.fn = MapIdx(mp, @), !.rdtor = MapIdx(mp, @), !.ret = MapIdx(mp, @),
                           !.params = MapParams(mp, @)]
RemapT(mp, t) == [t EXCEPT !.idx = MapIdx(mp, @), !.outer = MapIdx(mp, @), !.wrapped = MapIdx(mp, @),
                           !.ctors = MapSeq(mp, @), !.dtor = MapIdx(mp, @), !.elems = MapSeq(mp, @),
                           !.methods = MapSeq(mp, @), !.casts = MapSeq(mp, @), !.mseqs = MapSeq(mp, @),
                           !.derivs = MapDerivs(mp, @),
                           !.nested = MapSeq(mp, @)]
RemapM(mp, m) == [m EXCEPT !.idx = MapIdx(mp, @), !.type = MapIdx(mp, @), !.getter = MapIdx(mp, @)]
RemapE(mp, e) == [e EXCEPT !.idx = MapIdx(mp, @), !.type = MapIdx(mp, @), !.getter = MapIdx(mp, @), !.setter = MapIdx(mp, @),
                           !.has = MapIdx(mp, @), !.clear = MapIdx(mp, @), !.del = MapIdx(mp, @),
                           !.insert = MapIdx(mp, @), !.getkey = MapIdx(mp, @), !.length = MapIdx(mp, @)]
RemapS(mp, q) == [q EXCEPT !.idx = MapIdx(mp, @), !.lenget = MapIdx(mp, @), !.elemget = MapIdx(mp, @)]

Remap(db, first) ==
  LET mp == RemapFn(db, first) IN
  [db EXCEPT !.f = [i \in 1..Len(db.f) |-> RemapF(mp, db.f[i])], !.w = [i \in 1..Len(db.w) |-> RemapW(mp, db.w[i])],
             !.t = [i \in 1..Len(db.t) |-> RemapT(mp, db.t[i])], !.m = [i \in 1..Len(db.m) |-> RemapM(mp, db.m[i])],
             !.e = [i \in 1..Len(db.e) |-> RemapE(mp, db.e[i])], !.s = [i \in 1..Len(db.s) |-> RemapS(mp, db.s[i])]]

\* what a 3.<minor> file of db looks like once loaded at index `first`
Loaded(db, minor, first) == Remap(ForceFlags(Defaults(db, minor)), first)

---------------------------------------------------------------------------
(* Adversarial strings (bytes).  1..8 are the ones named by the property. *)
Str(i) ==
  CASE i = 1 -> <<>>                       \* ""
    [] i = 2 -> <<32>>                     \* " "
    [] i = 3 -> <<10>>                     \* "\n"
    [] i = 4 -> <<97, 32, 98>>             \* "a b"
    [] i = 5 -> <<34>>                     \* "\""
    [] i = 6 -> <<55>>                     \* "7"
    [] i = 7 -> <<255>>                    \* "\xff"
    [] i = 8 -> <<195, 169>>               \* "é" (UTF-8)
    [] i = 9 -> <<49, 50, 32, 51, 10>>     \* "12 3\n"  looks like what follows a string
    [] i = 10 -> <<13, 10, 9, 45, 49>>     \* "\r\n\t-1"
    \* length classes (runs of 'x'): 255, 256, 65535, 65536, 100000 bytes
    [] i = 11 -> <<RunBase + 255>>
    [] i = 12 -> <<RunBase + 256>>
    [] i = 13 -> <<RunBase + 65535>>
    [] i = 14 -> <<34, RunBase + 65535>>   \* a quote and 65535 more: 65536 bytes
    [] i = 15 -> <<RunBase + 100000>>
NStr == 10                                 \* slot B cycles through the content strings 1..10

\* index numbers: the j-th record gets 3j+5 (8, 11, 14, ...): gaps, two digits, no kind order
IdxOf(j) == 3 * j + 5
R1 == IdxOf(1)
R2 == IdxOf(2)
RX == 99            \* refers to nothing in the file

\* Fs: the functions generated so far, the only thing a constructor list may refer to
Tmpl(k, v, idx, A, B, Fs) ==
  CASE k = "f" ->
         (CASE v = 0 -> [idx |-> idx, name |-> <<>>, alts |-> <<>>, flags |-> 0, cls |-> 0, scoped |-> <<>>,
                         cw |-> <<>>, pw |-> <<>>, comment |-> <<>>, proto |-> <<>>]
            [] v = 1 -> [idx |-> idx, name |-> A, alts |-> <<>>, flags |-> 5, cls |-> R1, scoped |-> B,
                         cw |-> <<R1>>, pw |-> <<>>, comment |-> B, proto |-> A]
            [] v = 2 -> [idx |-> idx, name |-> <<102>>, alts |-> <<A>>, flags |-> 770, cls |-> R2, scoped |-> A,
                         cw |-> <<R1, R2>>, pw |-> <<RX>>, comment |-> A, proto |-> B]
            [] v = 3 -> [idx |-> idx, name |-> B, alts |-> <<<<>>, B>>, flags |-> 1088, cls |-> RX, scoped |-> <<>>,
                         cw |-> <<>>, pw |-> <<R2, R1>>, comment |-> <<>>, proto |-> A])
    [] k = "w" ->
         (CASE v = 0 -> [idx |-> idx, name |-> <<>>, alts |-> <<>>, flags |-> 0, fn |-> 0, ret |-> 0, rdtor |-> 0,
                         unique |-> <<>>, comment |-> <<>>, params |-> <<>>]
            [] v = 1 -> [idx |-> idx, name |-> A, alts |-> <<>>, flags |-> 7, fn |-> R1, ret |-> R2, rdtor |-> 0,
                         unique |-> <<113, 120, 54, 104, 95, 49>>, comment |-> B,
                         params |-> <<[name |-> A, flags |-> 1, type |-> R1]>>]
            [] v = 2 -> [idx |-> idx, name |-> <<>>, alts |-> <<A>>, flags |-> 120, fn |-> R2, ret |-> RX, rdtor |-> R1,
                         unique |-> B, comment |-> A,
                         params |-> <<[name |-> <<>>, flags |-> 2, type |-> R2], [name |-> B, flags |-> 5, type |-> RX]>>]
            [] v = 3 -> [idx |-> idx, name |-> B, alts |-> <<>>, flags |-> 1, fn |-> 0, ret |-> 0, rdtor |-> R2,
                         unique |-> <<>>, comment |-> <<>>,
                         params |-> <<[name |-> A, flags |-> 0, type |-> 0]>>])
    [] k = "t" ->
         (CASE v = 0 -> [idx |-> idx, name |-> <<>>, alts |-> <<>>, flags |-> 0, scoped |-> <<>>, true |-> <<>>,
                         outer |-> 0, atomic |-> 0, wrapped |-> 0, asize |-> 1, ctors |-> <<>>, dtor |-> 0,
                         elems |-> <<>>, methods |-> <<>>, mseqs |-> <<>>, casts |-> <<>>, derivs |-> <<>>,
                         enums |-> <<>>, nested |-> <<>>, comment |-> <<>>]
            [] v = 1 -> [idx |-> idx, name |-> A, alts |-> <<>>, flags |-> 10241, scoped |-> B, true |-> A,
                         outer |-> 0, atomic |-> 0, wrapped |-> 0, asize |-> 1, ctors |-> Fs,
                         dtor |-> IF Fs = <<>> THEN 0 ELSE Fs[1],
                         elems |-> <<R1>>, methods |-> <<R2>>, mseqs |-> <<>>, casts |-> <<RX>>,
                         derivs |-> <<[flags |-> 3, base |-> R1, up |-> R2, down |-> 0]>>,
                         enums |-> <<>>, nested |-> <<>>, comment |-> B]
            [] v = 2 -> [idx |-> idx, name |-> <<84>>, alts |-> <<B>>, flags |-> TF_array + 524288 + 128,
                         scoped |-> A, true |-> B,
                         outer |-> R2, atomic |-> 1, wrapped |-> R1, asize |-> 12, ctors |-> <<>>,
                         dtor |-> IF Fs = <<>> THEN 0 ELSE Fs[Len(Fs)],
                         elems |-> <<>>, methods |-> <<>>, mseqs |-> <<>>, casts |-> <<>>, derivs |-> <<>>,
                         enums |-> <<[name |-> A, scoped |-> B, comment |-> A, value |-> 0 - 5],
                                     [name |-> B, scoped |-> <<>>, comment |-> <<>>, value |-> 300]>>,
                         nested |-> <<R2, R1>>, comment |-> A]
            [] v = 3 -> [idx |-> idx, name |-> <<>>, alts |-> <<>>, flags |-> 1024 + 262144 + 16777216, scoped |-> A, true |-> <<>>,
                         outer |-> RX, atomic |-> 9, wrapped |-> 0, asize |-> 1, ctors |-> <<>>, dtor |-> 0,
                         elems |-> <<RX, R1>>, methods |-> <<>>, mseqs |-> <<R1>>, casts |-> <<R2>>,
                         derivs |-> <<[flags |-> 4, base |-> RX, up |-> 0, down |-> R1],
                                      [flags |-> 2, base |-> R2, up |-> R1, down |-> R2]>>,
                         enums |-> <<[name |-> <<>>, scoped |-> <<>>, comment |-> B, value |-> 0]>>,
                         nested |-> <<>>, comment |-> A])
    [] k = "m" ->
         (CASE v = 0 -> [idx |-> idx, name |-> <<>>, alts |-> <<>>, flags |-> 0, ival |-> 0, type |-> 0, getter |-> 0, def |-> <<>>]
            [] v = 1 -> [idx |-> idx, name |-> A, alts |-> <<>>, flags |-> 5, ival |-> 42, type |-> R1, getter |-> 0, def |-> B]
            [] v = 2 -> [idx |-> idx, name |-> <<77>>, alts |-> <<A>>, flags |-> 7, ival |-> 0 - 2147483647, type |-> RX,
                         getter |-> R2, def |-> A]
            [] v = 3 -> [idx |-> idx, name |-> B, alts |-> <<>>, flags |-> 0, ival |-> 0, type |-> 0, getter |-> R1, def |-> <<>>])
    [] k = "e" ->
         (CASE v = 0 -> [idx |-> idx, name |-> <<>>, alts |-> <<>>, flags |-> 0, type |-> 0, getter |-> 0, setter |-> 0,
                         has |-> 0, clear |-> 0, del |-> 0, length |-> 0, insert |-> 0, getkey |-> 0,
                         scoped |-> <<>>, comment |-> <<>>]
            [] v = 1 -> [idx |-> idx, name |-> A, alts |-> <<>>, flags |-> 1023, type |-> R1, getter |-> R1, setter |-> R2,
                         has |-> R1, clear |-> R2, del |-> RX, length |-> R1, insert |-> R2, getkey |-> RX,
                         scoped |-> B, comment |-> A]
            [] v = 2 -> [idx |-> idx, name |-> <<101>>, alts |-> <<B>>, flags |-> 65, type |-> R2, getter |-> 0, setter |-> 0,
                         has |-> 0, clear |-> 0, del |-> 0, length |-> R2, insert |-> 0, getkey |-> R1,
                         scoped |-> A, comment |-> B]
            [] v = 3 -> [idx |-> idx, name |-> B, alts |-> <<>>, flags |-> 130, type |-> RX, getter |-> R2, setter |-> RX,
                         has |-> 21, clear |-> 22, del |-> 23, length |-> 24, insert |-> 25, getkey |-> 26,
                         scoped |-> <<>>, comment |-> <<>>])
    [] k = "s" ->
         (CASE v = 0 -> [idx |-> idx, name |-> <<>>, alts |-> <<>>, lenget |-> 0, elemget |-> 0, scoped |-> <<>>, comment |-> <<>>]
            [] v = 1 -> [idx |-> idx, name |-> A, alts |-> <<>>, lenget |-> R1, elemget |-> R2, scoped |-> B, comment |-> A]
            [] v = 2 -> [idx |-> idx, name |-> <<115>>, alts |-> <<A, B>>, lenget |-> RX, elemget |-> 0, scoped |-> A, comment |-> <<>>]
            [] v = 3 -> [idx |-> idx, name |-> B, alts |-> <<>>, lenget |-> 0, elemget |-> R1, scoped |-> <<>>, comment |-> B])

Kinds == {"f", "w", "t", "m", "e", "s"}
FileId == 1700000000

\* A database that is already loaded when pre = "base": indices 1..3, next index 4.
BaseDb ==
  [id |-> 7, lib |-> <<98>>, hash |-> <<98, 97, 115, 101>>, mod |-> <<>>,
   f |-> <<[idx |-> 2, name |-> <<98, 102>>, alts |-> <<>>, flags |-> 1, cls |-> 0, scoped |-> <<98, 102>>,
            cw |-> <<1>>, pw |-> <<>>, comment |-> <<>>, proto |-> <<118>>]>>,
   w |-> <<[idx |-> 1, name |-> <<>>, alts |-> <<>>, flags |-> 2, fn |-> 2, ret |-> 3, rdtor |-> 0,
            unique |-> <<>>, comment |-> <<>>, params |-> <<>>]>>,
   t |-> <<[idx |-> 3, name |-> <<98, 116>>, alts |-> <<>>, flags |-> 8195, scoped |-> <<98, 116>>,
            true |-> <<98, 97, 115, 101, 95, 116>>, outer |-> 0, atomic |-> 1, wrapped |-> 0, asize |-> 1,
            ctors |-> <<>>, dtor |-> 0, elems |-> <<>>, methods |-> <<>>, mseqs |-> <<>>, casts |-> <<>>,
            derivs |-> <<>>, enums |-> <<>>, nested |-> <<>>, comment |-> <<>>]>>,
   m |-> <<>>, e |-> <<>>, s |-> <<>>]
=============================================================================
