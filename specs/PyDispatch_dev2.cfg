SPECIFICATION Spec
CONSTANTS
  MaxOverloads = 2
  MaxParams = 2
  ParamCats <- Cats2
  IntVals <- EdgeIntVals
  IntVals2 <- FewIntVals
  ArgKinds <- AllArgKinds
  Kinds = {"method", "static"}
  ConstMethods = TRUE
  Fixed <- NoFix
INVARIANT TiesHarmless
CONSTRAINT DisConstraint
CHECK_DEADLOCK FALSE
