SPECIFICATION MSpec
CONSTANTS
  MaxIdx = 4
  MCKinds = {"t", "f", "w"}
  Broken = "remove-referenced"
INVARIANT RemovedUnreferenced
CHECK_DEADLOCK FALSE
