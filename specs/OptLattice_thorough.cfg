SPECIFICATION Spec
CONSTANTS
  T = 2
  MaxRows = 60
  Variants = {0, 1, 2, 3, 4, 5, 6, 7, 8, 9, 10, 11, 12, 13, 14, 15, 16, 17, 18, 19}
INVARIANT RowValid
INVARIANT BoundNotReached
PROPERTY Progress
CONSTRAINT DumpConstraint
CHECK_DEADLOCK FALSE
