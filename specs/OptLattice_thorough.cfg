SPECIFICATION Spec
CONSTANTS
  T = 3
  MaxRows = 400
INVARIANT RowValid
INVARIANT BoundNotReached
PROPERTY Progress
CONSTRAINT DumpConstraint
CHECK_DEADLOCK FALSE
