SPECIFICATION Spec
CONSTANTS
  MaxLen = 6
  ViewTail = 1
INVARIANT TypeOK
INVARIANT Total
INVARIANT PathOK
INVARIANT DumpConstraint
VIEW View
CHECK_DEADLOCK FALSE
