SPECIFICATION Spec
CONSTANTS
  MaxLen = 5
  ViewTail = 2
INVARIANT TypeOK
INVARIANT Total
INVARIANT PathOK
INVARIANT DumpConstraint
VIEW View
CHECK_DEADLOCK FALSE
