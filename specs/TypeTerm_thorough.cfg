SPECIFICATION Spec
CONSTANTS
  MaxDepth = 4
  Bases = {"int", "char", "signed char", "unsigned char", "S", "unsigned long", "long double", "int long", "char unsigned", "Pair<ns::K, ns::V>", "Pair<int, Pair<ns::V, ns::K> >"}
  Kinds = {"const", "ptr", "ref", "rref", "arr2", "arr3", "fn0", "fn1", "fn2", "cfn0", "cfn1", "mptr"}
INVARIANT WellFormed
INVARIANT DepthOK
CONSTRAINT DumpConstraint
CHECK_DEADLOCK FALSE
