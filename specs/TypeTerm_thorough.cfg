SPECIFICATION Spec
CONSTANTS
  MaxDepth = 4
  Bases = {"int", "char", "S", "unsigned long"}
  Kinds = {"const", "ptr", "ref", "rref", "arr2", "arr3", "fn0", "fn1", "fn2", "mptr"}
INVARIANT WellFormed
INVARIANT DepthOK
CONSTRAINT DumpConstraint
CHECK_DEADLOCK FALSE
