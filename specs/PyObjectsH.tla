----------------------------- MODULE PyObjectsH -----------------------------
(***************************************************************************)
(* C02, object part, extended with the HELPER OBJECTS the runtime creates  *)
(* on the fly (py_wrappers.cxx) and the references they hold:              *)
(*   o.vals    MAKE_SEQ_PROPERTY 3 arguments   "seq"    read-only sequence  *)
(*   o.mvals   MAKE_SEQ_PROPERTY 4 arguments   "mseq"   with a setter       *)
(*   o.copies  MAKE_SEQ_PROPERTY, by-value items "copies"                   *)
(*   o.named   MAKE_MAP_PROPERTY has/get        "map"    + MAKE_MAP_KEYS_SEQ *)
(*   o.mnamed  MAKE_MAP_PROPERTY has/get/set    "mmap"                      *)
(*   h.keys()  view created from a mapping helper "keys"                    *)
(*   o.get_val the bound method                 "bound"                     *)
(*   iter(h)   CPython sequence iterator over a helper "iter" (refers to    *)
(*             the helper, releases it when exhausted)                      *)
(*   iter(m)   iterator over a mapping helper   "mapiter" (holds a private  *)
(*             key view, i.e. one reference to the owner)                   *)
(* (MAKE_SEQ getters return a tuple and hold nothing: checked as a probe.)  *)
(*                                                                         *)
(* A Python wrapper object lives as long as the user variable holds it or  *)
(* a helper refers to it; a helper lives as long as its variable holds it  *)
(* or a live iterator refers to it.  rc is the reference count kept        *)
(* incrementally by the actions (one reference taken per helper created,   *)
(* one released per helper deallocated); the invariants tie it to the      *)
(* helpers that exist and tie the destruction of the C++ instance to the   *)
(* moment the last of {user reference, helpers} is gone.                   *)
(* Everything without effect on this state (len, item reads, in / index /  *)
(* count, keys / values / items, MAKE_SEQ tuple) is not an action: the     *)
(* replay performs these probes on every usable helper after EVERY step    *)
(* and checks their values, the reference count of every owner and the     *)
(* construction / destruction counters around them.                        *)
(***************************************************************************)
EXTENDS Integers, Sequences, FiniteSets, TLC

CONSTANTS MaxInst, MaxWrappers, MaxHelpers, MaxDepth,
          Kinds      \* helper kinds created by EvalProperty, subset of PropKinds

PropKinds == {"seq", "mseq", "copies", "map", "mmap", "bound"}
SeqLike == {"seq", "mseq", "copies", "keys"}
MapLike == {"map", "mmap"}
DirectKinds == PropKinds \cup {"keys", "mapiter"}      \* helpers that hold a reference to the owner itself

VARIABLES inst, wr, hp, hist
vars == <<inst, wr, hp, hist>>

NoW == [ptr |-> 0, mem |-> FALSE, const |-> FALSE, held |-> FALSE, rc |-> 0]
NoH == [kind |-> "none", on |-> 0, via |-> 0, held |-> FALSE, pos |-> 0]
Slots == 1..MaxWrappers
HSlots == 1..MaxHelpers
NewInst(o, par) == [alive |-> TRUE, owner |-> o, parent |-> par, child |-> 0, destroyed |-> 0, cell |-> 0]

Exists(w) == wr[w].ptr # 0
UsableW(w) == Exists(w) /\ wr[w].held /\ inst[wr[w].ptr].alive
FreeW == {w \in Slots : ~Exists(w)}
NewW == CHOOSE w \in FreeW : \A v \in FreeW : w <= v
HExists(h) == hp[h].kind # "none"
FreeH == {h \in HSlots : ~HExists(h)}
NewH == CHOOSE h \in FreeH : \A v \in FreeH : h <= v
\* the wrapper a helper works on (an iterator works on its helper's owner)
OwnerOf(H, h) == IF H[h].kind = "iter" THEN (IF H[h].via = 0 THEN 0 ELSE H[H[h].via].on) ELSE H[h].on
UsableH(h) == /\ HExists(h) /\ hp[h].held
              /\ OwnerOf(hp, h) # 0 => (Exists(OwnerOf(hp, h)) /\ inst[wr[OwnerOf(hp, h)].ptr].alive)
CanCreate == Len(inst) < MaxInst

Init == inst = <<>> /\ wr = [w \in Slots |-> NoW] /\ hp = [h \in HSlots |-> NoH] /\ hist = <<>>

RECURSIVE Parts(_, _)
Parts(I, i) == IF I[i].child = 0 THEN {i} ELSE {i} \cup Parts(I, I[i].child)

\* deallocation: helpers nobody holds go first and release their owner reference, then wrapper
\* objects whose reference count reached zero go and, if they own it, destroy their instance
Settle(W, H, I) ==
  LET liveH(h) == H[h].kind # "none" /\ (H[h].held \/ \E it \in HSlots : H[it].kind = "iter" /\ H[it].held /\ H[it].via = h)
      H2 == [h \in HSlots |-> IF liveH(h) THEN H[h] ELSE NoH]
      released(w) == Cardinality({h \in HSlots : H[h].kind \in DirectKinds /\ H[h].on = w /\ ~liveH(h)})
      W2 == [w \in Slots |-> IF W[w].ptr = 0 THEN W[w] ELSE [W[w] EXCEPT !.rc = @ - released(w)]]
      gone == {w \in Slots : W2[w].ptr # 0 /\ W2[w].rc = 0}
      K == UNION {Parts(I, W2[w].ptr) : w \in {v \in gone : W2[v].mem}}
  IN [wr |-> [w \in Slots |-> IF w \in gone THEN NoW ELSE W2[w]],
      hp |-> H2,
      inst |-> [i \in 1..Len(I) |-> IF i \in K THEN [I[i] EXCEPT !.alive = FALSE, !.destroyed = @ + 1] ELSE I[i]]]

Snap(op, a, b, exc, val, W, H, I) ==
  [op |-> op, a |-> a, b |-> b, exc |-> exc, val |-> val, wr |-> W, hp |-> H,
   made |-> Len(I), died |-> Cardinality({i \in 1..Len(I) : I[i].destroyed > 0}),
   cell |-> [i \in 1..Len(I) |-> I[i].cell], alive |-> [i \in 1..Len(I) |-> I[i].alive]]
Step(op, a, b, exc, val, W, H, I) ==
  /\ wr' = W /\ hp' = H /\ inst' = I
  /\ hist' = Append(hist, Snap(op, a, b, exc, val, W, H, I))
StepSettled(op, a, b, exc, val, W, H, I) ==
  LET s == Settle(W, H, I) IN Step(op, a, b, exc, val, s.wr, s.hp, s.inst)

PyConstruct ==
  /\ FreeW # {} /\ CanCreate
  /\ Step("PyConstruct", NewW, 0, "", 0,
          [wr EXCEPT ![NewW] = [ptr |-> Len(inst) + 1, mem |-> TRUE, const |-> FALSE, held |-> TRUE, rc |-> 1]],
          hp, Append(inst, NewInst("py", 0)))

PartIx(i) == IF inst[i].child # 0 THEN inst[i].child ELSE Len(inst) + 1
WithPart(i) == IF inst[i].child # 0 THEN inst ELSE Append([inst EXCEPT ![i].child = Len(inst) + 1], NewInst("cpp", i))
ReturnPart(src, const) ==
  /\ UsableW(src) /\ (const \/ ~wr[src].const) /\ FreeW # {}
  /\ (inst[wr[src].ptr].child # 0 \/ CanCreate)
  /\ Step(IF const THEN "ReturnConstRef" ELSE "ReturnBorrowed", NewW, src, "", 0,
          [wr EXCEPT ![NewW] = [ptr |-> PartIx(wr[src].ptr), mem |-> FALSE, const |-> const, held |-> TRUE, rc |-> 1]],
          hp, WithPart(wr[src].ptr))

\* the user variable lets go of the wrapper object: it survives if a helper still refers to it
DropWrapper(w) ==
  /\ Exists(w) /\ wr[w].held
  /\ StepSettled("DropWrapper", w, 0, "", 0, [wr EXCEPT ![w].held = FALSE, ![w].rc = @ - 1], hp, inst)

\* evaluating the property (or taking the bound method) creates a helper holding one reference
EvalProperty(w, k) ==
  /\ UsableW(w) /\ FreeH # {}
  /\ Step("EvalProperty", NewH, w, "", 0, [wr EXCEPT ![w].rc = @ + 1],
          [hp EXCEPT ![NewH] = [kind |-> k, on |-> w, via |-> 0, held |-> TRUE, pos |-> 0]], inst)

EvalKeys(h) ==
  /\ UsableH(h) /\ hp[h].kind \in MapLike /\ FreeH # {}
  /\ Step("EvalKeys", NewH, h, "", 0, [wr EXCEPT ![hp[h].on].rc = @ + 1],
          [hp EXCEPT ![NewH] = [kind |-> "keys", on |-> hp[h].on, via |-> 0, held |-> TRUE, pos |-> 0]], inst)

Iter(h) ==
  /\ UsableH(h) /\ FreeH # {}
  /\ \/ /\ hp[h].kind \in SeqLike
        /\ Step("Iter", NewH, h, "", 0, wr,
                [hp EXCEPT ![NewH] = [kind |-> "iter", on |-> 0, via |-> h, held |-> TRUE, pos |-> 0]], inst)
     \/ /\ hp[h].kind \in MapLike
        /\ Step("Iter", NewH, h, "", 0, [wr EXCEPT ![hp[h].on].rc = @ + 1],
                [hp EXCEPT ![NewH] = [kind |-> "mapiter", on |-> hp[h].on, via |-> 0, held |-> TRUE, pos |-> 0]], inst)

\* val: position of the element delivered (1..3), 0 = StopIteration; an exhausted iterator lets go of
\* what it iterated over
IterNext(it) ==
  /\ UsableH(it) /\ hp[it].kind \in {"iter", "mapiter"} /\ OwnerOf(hp, it) # 0
  /\ IF hp[it].pos < 3
       THEN Step("IterNext", it, 0, "", hp[it].pos + 1, wr, [hp EXCEPT ![it].pos = @ + 1], inst)
       ELSE IF hp[it].kind = "iter"
         THEN StepSettled("IterNext", it, 0, "StopIteration", 0, wr, [hp EXCEPT ![it].via = 0], inst)
         ELSE StepSettled("IterNext", it, 0, "StopIteration", 0,
                          [wr EXCEPT ![hp[it].on].rc = @ - 1], [hp EXCEPT ![it].on = 0], inst)

\* h[0] = v / h["a"] = v: only the helpers made with a setter accept it, and only on a non-const owner
SetItem(h) ==
  /\ UsableH(h) /\ hp[h].kind \in SeqLike \cup MapLike
  /\ IF hp[h].kind \in {"mseq", "mmap"} /\ ~wr[hp[h].on].const
       THEN Step("SetItem", h, 0, "", inst[wr[hp[h].on].ptr].cell + 1, wr, hp,
                 [inst EXCEPT ![wr[hp[h].on].ptr].cell = @ + 1])
       ELSE Step("SetItem", h, 0, "TypeError", 0, wr, hp, inst)

DropHelper(h) ==
  /\ HExists(h) /\ hp[h].held
  /\ StepSettled("DropHelper", h, 0, "", 0, wr, [hp EXCEPT ![h].held = FALSE], inst)

Next == /\ Len(hist) < MaxDepth
        /\ \/ PyConstruct
           \/ \E s \in Slots : ReturnPart(s, FALSE) \/ ReturnPart(s, TRUE) \/ DropWrapper(s)
                                \/ \E k \in Kinds : EvalProperty(s, k)
           \/ \E h \in HSlots : EvalKeys(h) \/ Iter(h) \/ IterNext(h) \/ SetItem(h) \/ DropHelper(h)
Spec == Init /\ [][Next]_vars

---------------------------------------------------------------------------
(* Invariants *)
DirectOn(w) == {h \in HSlots : hp[h].kind \in DirectKinds /\ hp[h].on = w}
\* reference accounting: the count kept by the actions is the user reference plus one per helper
RcAccounting == \A w \in Slots : Exists(w) => wr[w].rc = (IF wr[w].held THEN 1 ELSE 0) + Cardinality(DirectOn(w))
\* a wrapper object exists exactly as long as somebody refers to it
ExistsIffReferenced == \A w \in Slots : Exists(w) <=> (wr[w].held \/ DirectOn(w) # {})
\* no helper outlives the wrapper object it refers to; no iterator outlives its helper
NoDanglingHelper == \A h \in HSlots :
   /\ (hp[h].kind \in DirectKinds /\ hp[h].on # 0 => Exists(hp[h].on))
   /\ (hp[h].kind = "iter" /\ hp[h].via # 0 => HExists(hp[h].via))
\* an owned instance lives exactly as long as its owning wrapper object exists: it is destroyed
\* when the last of {user reference, helpers} is gone, not before and not later
OwnedAliveIffWrapper == \A i \in 1..Len(inst) :
   inst[i].owner = "py" => (inst[i].alive <=> \E w \in Slots : Exists(w) /\ wr[w].mem /\ wr[w].ptr = i)
AtMostOnce == \A i \in 1..Len(inst) : inst[i].destroyed <= 1
PartsFollowParent == \A i \in 1..Len(inst) : inst[i].owner = "cpp" => inst[i].alive = inst[inst[i].parent].alive
AllDropped == (\A w \in Slots : ~Exists(w)) /\ (\A h \in HSlots : ~HExists(h))
FinalAccounting == AllDropped => \A i \in 1..Len(inst) : inst[i].destroyed = 1
=============================================================================
