--------------------------- MODULE CondInclTrace ---------------------------
(***************************************************************************)
(* Trace validation for C09: the events recorded by the H-dir hooks of the *)
(* real preprocessor (Dir / Eval / SkipEnter / SkipDir / SkipEOF) are      *)
(* consumed by the actions of CondIncl.  Logged condition values are bound *)
(* to the abstract conditions "T"/"F", so errors in expression evaluation  *)
(* (C07) do not leak in; what is checked on every observed execution is    *)
(* that the implementation is in the mode, nesting level and               *)
(* consider_elifs state the mechanism predicts, evaluates exactly the      *)
(* conditions the reference evaluates, and that Refines holds after every  *)
(* directive.  A trace that cannot be consumed to its end deadlocks: TLC   *)
(* prints the last matched state, which is the diagnosis.                  *)
(***************************************************************************)
EXTENDS CondIncl, Json, IOUtils

Tr == ndJsonDeserialize(IOEnv.VERIF_TRACE)
N == Len(Tr)

VARIABLE l
tvars == <<vars, l>>

IsE(i, e) == i <= N /\ Tr[i].e = e
B(x) == IF x THEN 1 ELSE 0
CondOf(v) == IF v = 1 THEN "T" ELSE "F"

\* the Eval (+ SkipEnter when false) events that must follow an evaluated directive at i
EvalAt(i, kind) == IsE(i, "Eval") /\ Tr[i].k = kind
Consumed(i) == IF Tr[i].val = 0 THEN 2 ELSE 1
EvalOK(i, kind) ==
  /\ EvalAt(i, kind)
  /\ Tr[i].val = 0 => IsE(i + 1, "SkipEnter") /\ Tr[i + 1].celifs = 1

EvKind(cmd) == CASE cmd \in {"if", "elif"} -> "if"
                 [] cmd \in {"ifdef", "elifdef"} -> "ifdef"
                 [] cmd \in {"ifndef", "elifndef"} -> "ifndef"

TInit == Init /\ l = 1

\* a new case begins (#ident at top level): histories are dropped, nothing else changes
TMark ==
  /\ IsE(l, "Dir") /\ Tr[l].cmd = "ident" /\ mode = "N" /\ depth = 0
  /\ prog' = <<>> /\ rout' = <<>> /\ rev' = <<>> /\ mout' = <<>> /\ mev' = <<>>
  /\ UNCHANGED <<depth, sawElse, rstack, rdef, mode, level, celifs, mdef, rpush, ronce, mpush, monce>>
  /\ l' = l + 1

TReset ==
  /\ IsE(l, "Reset")
  /\ prog' = <<>> /\ depth' = 0 /\ sawElse' = <<>>
  /\ rstack' = <<>> /\ rdef' = -1 /\ rout' = <<>> /\ rev' = <<>>
  /\ mode' = "N" /\ level' = 0 /\ celifs' = FALSE /\ mdef' = -1 /\ mout' = <<>> /\ mev' = <<>>
  /\ rpush' = <<>> /\ ronce' = FALSE /\ mpush' = <<>> /\ monce' = FALSE
  /\ l' = l + 1

\* process_directive
TDirOpen ==
  /\ IsE(l, "Dir") /\ mode = "N" /\ Tr[l].cmd \in OpenKinds
  /\ EvalOK(l + 1, EvKind(Tr[l].cmd))
  /\ Step([k |-> "if", c |-> CondOf(Tr[l + 1].val)])
  /\ l' = l + 1 + Consumed(l + 1)

TDirElse ==
  /\ IsE(l, "Dir") /\ mode = "N" /\ Tr[l].cmd \in ElifKinds \cup {"else"}
  /\ IsE(l + 1, "SkipEnter") /\ Tr[l + 1].celifs = 0
  /\ Step(IF Tr[l].cmd = "else" THEN [k |-> "else"] ELSE [k |-> "elif", c |-> "F"])
  /\ l' = l + 2

TDirEndif ==
  /\ IsE(l, "Dir") /\ mode = "N" /\ Tr[l].cmd = "endif"
  /\ Step([k |-> "endif"])
  /\ l' = l + 1

TDirOther ==
  /\ IsE(l, "Dir") /\ mode = "N"
  /\ Tr[l].cmd \notin OpenKinds \cup ElifKinds \cup {"else", "endif", "ident"}
  /\ UNCHANGED vars /\ l' = l + 1

\* skip_false_if_block: the logged loop state must be the mechanism's
SkipState == Tr[l].level = level /\ Tr[l].celifs = B(celifs)

TSkipOpen ==
  /\ IsE(l, "SkipDir") /\ mode = "S" /\ SkipState /\ Tr[l].cmd \in OpenKinds
  /\ Step([k |-> "if", c |-> "F"])
  /\ l' = l + 1

TSkipElse ==
  /\ IsE(l, "SkipDir") /\ mode = "S" /\ SkipState /\ Tr[l].cmd = "else"
  /\ Step([k |-> "else"])
  /\ l' = l + 1

TSkipElifEval ==
  /\ IsE(l, "SkipDir") /\ mode = "S" /\ SkipState /\ Tr[l].cmd \in ElifKinds
  /\ level = 0 /\ celifs
  /\ EvalOK(l + 1, EvKind(Tr[l].cmd))
  /\ Step([k |-> "elif", c |-> CondOf(Tr[l + 1].val)])
  /\ l' = l + 1 + Consumed(l + 1)

TSkipElifSkip ==
  /\ IsE(l, "SkipDir") /\ mode = "S" /\ SkipState /\ Tr[l].cmd \in ElifKinds
  /\ ~(level = 0 /\ celifs)
  /\ Step([k |-> "elif", c |-> "F"])
  /\ l' = l + 1

TSkipEndif ==
  /\ IsE(l, "SkipDir") /\ mode = "S" /\ SkipState /\ Tr[l].cmd = "endif"
  /\ Step([k |-> "endif"])
  /\ l' = l + 1

TSkipOther ==
  /\ IsE(l, "SkipDir") /\ mode = "S" /\ SkipState
  /\ Tr[l].cmd \notin OpenKinds \cup ElifKinds \cup {"else", "endif"}
  /\ UNCHANGED vars /\ l' = l + 1

\* events of other hook families recorded in the same file are not ours
TForeign ==
  /\ l <= N /\ Tr[l].e \notin {"Dir", "Eval", "SkipEnter", "SkipDir", "SkipEOF", "Reset", "Died"}
  /\ UNCHANGED vars /\ l' = l + 1

TDone == l = N + 1 /\ UNCHANGED tvars

TNext == TMark \/ TReset \/ TDirOpen \/ TDirElse \/ TDirEndif \/ TDirOther
         \/ TSkipOpen \/ TSkipElse \/ TSkipElifEval \/ TSkipElifSkip \/ TSkipEndif \/ TSkipOther
         \/ TForeign \/ TDone

TSpec == TInit /\ [][TNext]_tvars
=============================================================================
