SPECIFICATION Spec
CONSTANTS
  Lits <- Lits2
  Ops = {"+", "*"}
  Forms = {"ref", "rl"}
  OpenKinds = {"open", "openC"}
  Kinds = {"enumE", "enumI", "const", "constexpr", "macroP", "array"}
  TTypes = {"bool", "char", "schar", "uchar", "short", "ushort", "int"}
  TInits <- TInitsAll
  MaxT = 1
  MaxDecls = 3
  MaxEnums = 1
INVARIANT ImplicitOK
INVARIANT PrimaryOK
INVARIANT SpliceOK
INVARIANT NestingOK
INVARIANT MuOK
INVARIANT RangeOK
INVARIANT TConstOK
CONSTRAINT DumpConstraint
CHECK_DEADLOCK FALSE
