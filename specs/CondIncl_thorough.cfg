SPECIFICATION Spec
CONSTANTS
  MaxLen = 6
  MaxDepth = 3
  Conds = {"T", "F", "V", "N", "R"}
  Kinds = {"if", "elif", "ifdef", "ifndef", "elifdef", "elifndef", "else", "endif", "text", "def0", "def1", "undef", "warn", "err", "inc", "inc2", "push", "pop", "noise"}
  MinDump = 6
INVARIANT Refines
INVARIANT ClosedNormal
INVARIANT AtMostOneGroup
INVARIANT LevelBound
CONSTRAINT DumpConstraint
CHECK_DEADLOCK FALSE
