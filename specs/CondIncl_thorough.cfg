SPECIFICATION Spec
CONSTANTS
  MaxLen = 6
  MaxDepth = 3
  Conds = {"T", "F", "D"}
  Kinds = {"if", "elif", "ifdef", "elifndef", "else", "endif", "text", "def1", "undef", "inc2", "noise"}
  MinDump = 6
INVARIANT Refines
INVARIANT ClosedNormal
INVARIANT AtMostOneGroup
INVARIANT LevelBound
CONSTRAINT DumpConstraint
CHECK_DEADLOCK FALSE
