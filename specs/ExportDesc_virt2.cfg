SPECIFICATION Spec
CONSTANTS
  ElemIgnore = TRUE
  Shape <- Virt2Shape
  MinVisSet <- PubOnly
  File2Srcs <- None
  ClassHeads <- VirtHeads
  NestedKeys <- None
  MemberAlpha <- Virt2Members
  MaxMembers <- M20
  MaxClasses = 3
  BaseAlpha <- VirtBases
  MaxBases = 1
  ClassComments <- NoComment
  TopAlpha <- None
  MaxTops = 0
  AliasAlpha <- None
  MaxAliases = 0
  NestedLike = FALSE
  CmdKinds <- None
INVARIANT OneOwner
INVARIANT RefsBackward
INVARIANT VisIsFunction
INVARIANT DescFunctional
INVARIANT Sound
INVARIANT Complete
CONSTRAINT DumpConstraint
CHECK_DEADLOCK FALSE
