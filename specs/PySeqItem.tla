----------------------------- MODULE PySeqItem -----------------------------
(***************************************************************************)
(* C02, item access: "MAKE_SEQ ... item assignment" in the property's      *)
(* quantifier; "calls ... an argument no overload can accept raise ...     *)
(* and leave all objects unchanged".                                       *)
(*                                                                         *)
(* A published class with size() and operator[] (sq_item; sq_ass_item when *)
(* operator[] returns a non-const reference) or a MAKE_SEQ_PROPERTY with a *)
(* setter behaves as a Python sequence of length n over the C++ cells.     *)
(* The input is the behaviour: each step is one o[i] or o[i] = v; the      *)
(* state carries the cells and, per step, the result Python semantics      *)
(* demand.                                                                 *)
(* REFERENCE (Python data model): an index i denotes cell i if 0 <= i < n, *)
(* cell n + i if -n <= i < 0, anything else raises IndexError and changes  *)
(* nothing.                                                                *)
(* MECHANISM (CPython abstract.c + the generated wrapper): the interpreter *)
(* adds the length ONCE to a negative index when the type has sq_length,   *)
(* and hands the sum to the slot; the wrapper must then reject every index *)
(* outside 0 .. n-1, in particular one that is still negative.             *)
(* LowerBoundChecked = FALSE is the deviation "the interpreter has already *)
(* normalised negative indices" (no lower bound in the wrapper): the       *)
(* refinement invariant fails for i < -n, and the cell written is OUTSIDE  *)
(* the object's items (cells -1, -2 ... are the guard cells of the replay).*)
(***************************************************************************)
EXTENDS Integers, Sequences

CONSTANTS MaxLen,             \* lengths 0 .. MaxLen
          MaxOps,             \* operations per history
          LowerBoundChecked,  \* TRUE: the wrapper as it must be
          WithDel             \* TRUE: histories may delete items (replayed on the MAKE_SEQ_PROPERTY style only)

Lens == 0..MaxLen
Idx(n) == (-(2 * n) - 2)..(2 * n + 1)      \* every class of index around both ends
Vals == {70, 71}                             \* values written (distinct from the initial contents)
Guard == 3                                   \* guard cells below and above the items

VARIABLES n, cells, mcells, hist
vars == <<n, cells, mcells, hist>>

\* cells: index -Guard .. n+Guard-1; items are cells 0 .. n-1 (initially 10 + k), guard cells hold -1
InitCells(len) == [k \in (-Guard)..(len + Guard - 1) |-> IF k >= 0 /\ k < len THEN 10 + k ELSE -1]

Init == /\ n \in Lens /\ cells = InitCells(n) /\ mcells = cells /\ hist = <<>>

\* ---- reference ----
RefIn(i) == i >= -n /\ i < n
RefCell(i) == IF i < 0 THEN n + i ELSE i

\* ---- mechanism ----
Normalised(i) == IF i < 0 THEN i + n ELSE i                  \* abstract.c: once
MechIn(i) == LET j == Normalised(i) IN (LowerBoundChecked => j >= 0) /\ j < n
MechCell(i) == Normalised(i)
\* a cell the deviation can reach stays within the guard band of the model (bounded indices)
Reach(j) == IF j < -Guard THEN -Guard ELSE j
ItemsOf(c) == [k \in 1..n |-> c[k - 1]]      \* the items as a sequence: what the replay reads back after every step

Get(i) ==
  /\ hist' = Append(hist, [op |-> "get", i |-> i, v |-> 0,
                           r |-> IF RefIn(i) THEN cells[RefCell(i)] ELSE -99,      \* -99 = IndexError
                           m |-> IF MechIn(i) THEN mcells[Reach(MechCell(i))] ELSE -99, a |-> ItemsOf(cells)])
  /\ UNCHANGED <<n, cells, mcells>>

Set(i, v) ==
  /\ cells' = IF RefIn(i) THEN [cells EXCEPT ![RefCell(i)] = v] ELSE cells
  /\ mcells' = IF MechIn(i) THEN [mcells EXCEPT ![Reach(MechCell(i))] = v] ELSE mcells
  /\ hist' = Append(hist, [op |-> "set", i |-> i, v |-> v,
                           r |-> IF RefIn(i) THEN 0 ELSE -99, m |-> IF MechIn(i) THEN 0 ELSE -99, a |-> ItemsOf(cells')])
  /\ UNCHANGED n

\* del o[i] (MAKE_SEQ_PROPERTY with a remover): the items after cell i move down, the length shrinks by one; an index
\* out of range raises IndexError and changes nothing.  (Modelled for the reference and the checked mechanism alike: the
\* deviation without a lower bound is exhibited by Set.)
Shift(c, j) == [k \in DOMAIN c |-> IF k >= j /\ k < n - 1 THEN c[k + 1] ELSE IF k = n - 1 THEN -1 ELSE c[k]]
Del(i) ==
  /\ WithDel
  /\ IF RefIn(i) THEN cells' = Shift(cells, RefCell(i)) /\ mcells' = Shift(mcells, RefCell(i)) /\ n' = n - 1
                 ELSE UNCHANGED <<cells, mcells, n>>
  /\ hist' = Append(hist, [op |-> "del", i |-> i, v |-> 0, r |-> IF RefIn(i) THEN 0 ELSE -99, m |-> IF RefIn(i) THEN 0 ELSE -99,
                           a |-> IF RefIn(i) THEN [k \in 1..(n - 1) |-> Shift(cells, RefCell(i))[k - 1]] ELSE ItemsOf(cells)])

Next == /\ Len(hist) < MaxOps
        /\ \E i \in Idx(n) : Get(i) \/ Del(i) \/ \E v \in Vals : Set(i, v)

Spec == Init /\ [][Next]_vars

\* ---- properties ----
TypeOK == n \in Lens /\ Len(hist) <= MaxOps
\* the mechanism refines the reference: same answers, same cells
Refines == mcells = cells /\ \A k \in 1..Len(hist) : hist[k].r = hist[k].m
\* nothing outside the items is ever written
GuardIntact == \A k \in DOMAIN cells : (k < 0 \/ k >= n) => cells[k] = -1 /\ mcells[k] = -1
\* an operation that raises leaves the object unchanged (action property)
ErrorChangesNothing == [][(hist' # hist /\ hist'[Len(hist')].r = -99) => cells' = cells]_vars
LengthFixed == [][n' = n \/ (n' = n - 1 /\ hist'[Len(hist')].op = "del" /\ hist'[Len(hist')].r = 0)]_vars
=============================================================================
