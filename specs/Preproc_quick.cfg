SPECIFICATION Spec
CONSTANTS
  MaxLines = 5
  MaxHdr = 3
  MaxCond = 1
  Hdrs = {"h1"}
  Names = {"M"}
  Kinds = {"text", "def", "undef", "ifdef", "ifndef", "else", "endif", "inc", "once"}
  Payloads = {"M", "__LINE__"}
  DefVals = {"1", "__LINE__"}
  Conds = {"V"}
  Shapes = {"p", "b"}
  LineK = 3
  MinDump = 4
INVARIANT TypeOK
INVARIANT IncludeDepth
INVARIANT CondClosedAtEOF
INVARIANT AtMostOneGroup
INVARIANT SuspendedFramesActive
INVARIANT OnceContributesOnce
INVARIANT OutSound
PROPERTY SkippedNoEffect
PROPERTY LineNumbersIncrease
CONSTRAINT DumpConstraint
CHECK_DEADLOCK FALSE
