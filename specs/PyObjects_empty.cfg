SPECIFICATION Spec
CONSTANTS
  MaxInst = 2
  MaxWrappers = 2
  MaxDepth = 7
  MaxMarks = 0
  EnableEmpty = TRUE
INVARIANT AtMostOnce
INVARIANT OnlyViaOwner
INVARIANT OneOwner
INVARIANT OwnerIsPy
INVARIANT EmptyOwnsNothing
INVARIANT NoLeak
INVARIANT FinalAccounting
INVARIANT ConstRaises
VIEW View
CONSTRAINT EmptyDumpConstraint
CHECK_DEADLOCK FALSE
