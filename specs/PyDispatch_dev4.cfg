SPECIFICATION Spec
CONSTANTS
  MaxOverloads = 2
  MaxParams = 2
  ParamCats <- Cats8
  IntVals <- EdgeIntVals
  IntVals2 <- TinyIntVals
  ArgKinds <- PairArgKinds
  Kinds = {"static"}
  ConstMethods = FALSE
  Fixed <- NoFix
INVARIANT TiesHarmless
CONSTRAINT DisConstraint
CHECK_DEADLOCK FALSE
