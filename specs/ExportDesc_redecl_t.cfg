SPECIFICATION Spec
CONSTANTS
  ElemIgnore = TRUE
  Shape <- RedeclShape
  MinVisSet <- PubOnly
  File2Srcs <- None
  ClassHeads <- RoleHeads
  NestedKeys <- None
  MemberAlpha <- RedeclMembers
  MaxMembers <- M10
  MaxClasses = 1
  BaseAlpha <- None
  MaxBases = 1
  ClassComments <- NoComment
  TopAlpha <- RedeclTops
  MaxTops = 1
  AliasAlpha <- None
  MaxAliases = 0
  NestedLike = FALSE
  CmdKinds <- None
INVARIANT OneOwner
INVARIANT RefsBackward
INVARIANT VisIsFunction
INVARIANT DescFunctional
INVARIANT Sound
INVARIANT Complete
CONSTRAINT DumpConstraint
CHECK_DEADLOCK FALSE
