------------------------------ MODULE LexModes ------------------------------
(***************************************************************************)
(* The scanner of CPPPreprocessor as a transition system over MODES        *)
(* (property C15): which hand-written scanning loop is consuming the       *)
(* input, and what it does with the next character class or with end of    *)
(* file.  Derived by reading cppPreprocessor.cxx:                          *)
(*   internal_get_next_token / skip_whitespace / skip_comment /            *)
(*   skip_c_comment / skip_cpp_comment            code slash block line    *)
(*   check_digraph / check_trigraph               lt gt eq pct star dot    *)
(*   get_identifier                               ident identR identA      *)
(*   get_number / skip_digit_separator            num numSep real          *)
(*   scan_quoted / scan_escape_sequence           str strEsc strOct        *)
(*   scan_raw                                     rawDelim rawBody rawClose*)
(*   get_literal                                  afterLit suffix          *)
(*   process_directive / get_preprocessor_command / get_preprocessor_args  *)
(*                                                hash dirName dirSp dirArgs dirBs *)
(*   CPPManifest::CPPManifest / parse_parameters  (dirArgs of define: defName defParams) *)
(*   skip_false_if_block                          skip skipHash ...        *)
(*   extract_manifest_args                        macroSp macroArgs maStr maEsc maBs *)
(*   nested_parse_template_instantiation          (field nest)             *)
(*                                                                         *)
(* The INPUT is the behaviour: each step appends one symbol of the trigger *)
(* alphabet; every state is also a complete input (end of file arrives in  *)
(* that mode).  The spec is an input-space model, not an oracle: what the  *)
(* tool must do with each input is the run protocol of ToolRun (exit with  *)
(* an ordinary status, no signal, bounded time, no output after a parse    *)
(* error).  Where the scanner's next mode depends on a value the model     *)
(* does not carry (#if condition, raw-string delimiter match) both         *)
(* successors are generated.                                               *)
(*                                                                         *)
(* A VIEW on (previous mode, state, last symbols, length) keeps one        *)
(* representative input per mode path, so that BFS to length MaxLen is     *)
(* small while every (mode, symbol) and (mode, EOF) transition of every    *)
(* reachable mode is on some dumped path.                                  *)
(***************************************************************************)
EXTENDS Naturals, Sequences, FiniteSets, TLC

CONSTANTS MaxLen,      \* length of the generated inputs
          Macs,        \* subset of {"none", "obj", "fn", "tmpl"}: what the identifier `a` is (prelude)
          ViewTail     \* how many trailing symbols the VIEW distinguishes (1, 2 or 3)

\* the trigger alphabet: single characters and five directive names
Alpha == {"a", "R", "define", "if", "else", "endif", "include"}
Kw == {"define", "if", "else", "endif", "include"}
Digit == {"0"}
Sym == Alpha \cup Digit \cup {"dq", "sq", "bs", "nl", "hash", "sl", "st", "lp", "rp", "lt", "gt",
                             "sp", "cm", "dt", "eq", "pc"}
Space == {"sp", "nl"}

VARIABLES inp, path, s, mac

vars == <<inp, path, s, mac>>

\* s: the scanner state
\*   m    mode
\*   sol  _start_of_line
\*   nest 0 not in template arguments; 1 S_nested with _paren_nesting <= 0; 2 with nesting > 0
\*   k    directive name being processed ("-" outside directives)
\*   o    mode a comment returns to
\*   d    parenthesis depth in macro arguments (1..3), 0 outside
\*   lvl  nesting level in skip_false_if_block (saturating at 1), cel = consider_elifs
\*   q    quote character of the string being scanned ("d", "s", "-")
St(m, sol, nest, k, o, d, lvl, cel, q) ==
  [m |-> m, sol |-> sol, nest |-> nest, k |-> k, o |-> o, d |-> d, lvl |-> lvl, cel |-> cel, q |-> q]
Code(sol, nest) == St("code", sol, nest, "-", "-", 0, 0, FALSE, "-")
With(t, m) == [t EXCEPT !.m = m]

DirKind(c) == IF c \in Kw THEN c ELSE "other"
Min(a, b) == IF a < b THEN a ELSE b

---------------------------------------------------------------------------
(* internal_get_next_token, after whitespace: the first character of a token *)
CodeStep(t, c) ==
  LET nest == t.nest
      tok == {Code(FALSE, nest)}                     \* a one-character token
  IN
  CASE c = "sp" -> {Code(t.sol, nest)}
    [] c = "nl" -> {Code(TRUE, nest)}
    [] c = "hash" -> IF t.sol THEN {St("hash", TRUE, nest, "-", "-", 0, 0, FALSE, "-")} ELSE tok
    [] c = "sl" -> {St("slash", t.sol, nest, "-", "code", 0, 0, FALSE, "-")}
    [] c = "bs" -> {St("backslash", t.sol, nest, "-", "-", 0, 0, FALSE, "-")}
    [] c = "dq" -> {St("str", FALSE, nest, "-", "-", 0, 0, FALSE, "d")}
    [] c = "sq" -> {St("str", FALSE, nest, "-", "-", 0, 0, FALSE, "s")}
    [] c = "R" -> {St("identR", FALSE, nest, "-", "-", 0, 0, FALSE, "-")}
    [] c = "a" -> {St(IF mac = "none" THEN "ident" ELSE "identA", FALSE, nest, "-", "-", 0, 0, FALSE, "-")}
    [] c \in Kw -> {St("ident", FALSE, nest, "-", "-", 0, 0, FALSE, "-")}
    [] c = "0" -> {St("num", FALSE, nest, "-", "-", 0, 0, FALSE, "-")}
    [] c = "dt" -> {St("dot", FALSE, nest, "-", "-", 0, 0, FALSE, "-")}
    [] c = "lt" -> {St("lt", FALSE, nest, "-", "-", 0, 0, FALSE, "-")}
    [] c = "gt" -> IF nest = 1 THEN {Code(FALSE, 0)}       \* closes the template argument list
                   ELSE {St("gt", FALSE, nest, "-", "-", 0, 0, FALSE, "-")}
    [] c = "eq" -> {St("eq", FALSE, nest, "-", "-", 0, 0, FALSE, "-")}
    [] c = "pc" -> {St("pct", FALSE, nest, "-", "-", 0, 0, FALSE, "-")}
    [] c = "st" -> {St("star", FALSE, nest, "-", "-", 0, 0, FALSE, "-")}
    [] c = "lp" -> {Code(FALSE, IF nest = 0 THEN 0 ELSE 2)}
    [] c = "rp" -> {Code(FALSE, IF nest = 0 THEN 0 ELSE 1)}
    [] c = "cm" -> tok

\* the character that ended a token is looked at again by internal_get_next_token
Again(t, c) == CodeStep(Code(t.sol, t.nest), c)

\* skip_false_if_block outside a directive
SkipStep(t, c) ==
  CASE c = "nl" -> {[t EXCEPT !.m = "skip", !.sol = TRUE]}
    [] c = "sp" -> {[t EXCEPT !.m = "skip"]}
    [] c = "hash" -> IF t.sol THEN {[t EXCEPT !.m = "skipHash"]} ELSE {[t EXCEPT !.m = "skip"]}
    [] c = "sl" -> {[t EXCEPT !.m = "slash", !.o = "skip"]}
    [] OTHER -> {[t EXCEPT !.m = "skip", !.sol = FALSE]}

\* end of a directive line: process_directive dispatches on the command
DirDone(t) ==
  CASE t.k = "if" -> {Code(TRUE, t.nest), St("skip", TRUE, t.nest, "-", "-", 0, 0, TRUE, "-")}
    [] t.k = "else" -> {St("skip", TRUE, t.nest, "-", "-", 0, 0, FALSE, "-")}
    [] OTHER -> {Code(TRUE, t.nest)}

\* end of a directive line inside skip_false_if_block
SkipDirDone(t) ==
  LET back == St("skip", TRUE, t.nest, "-", "-", 0, t.lvl, t.cel, "-") IN
  CASE t.k = "if" -> {[back EXCEPT !.lvl = 1]}
    [] t.k = "else" -> IF t.lvl = 0 /\ t.cel THEN {Code(TRUE, t.nest)} ELSE {back}
    [] t.k = "endif" -> IF t.lvl = 0 THEN {Code(TRUE, t.nest)} ELSE {[back EXCEPT !.lvl = 0], back}
    [] OTHER -> {back}

Done(t) == IF t.o = "skipdir" THEN SkipDirDone(t) ELSE DirDone(t)

\* get_preprocessor_args (the same loop serves process_directive and skip_false_if_block; the
\* field o tells which).  For #define the sub-mode follows CPPManifest's constructor.
ArgsMode(t) == IF t.k = "define" /\ t.o # "skipdir" THEN "defName" ELSE "dirArgs"
ArgsStep(t, c) ==
  CASE c = "nl" -> Done(t)
    [] c = "bs" -> {With(t, "dirBs")}
    [] c = "sl" -> {[t EXCEPT !.q = t.m, !.m = "dirSlash"]}
    [] OTHER ->
       CASE t.m = "defName" -> IF c = "lp" THEN {With(t, "defParams")}
                               ELSE IF c \in Space THEN {With(t, "dirArgs")} ELSE {t}
         [] t.m = "defParams" -> IF c = "rp" THEN {With(t, "dirArgs")} ELSE {t}
         [] OTHER -> {With(t, "dirArgs")}

\* extract_manifest_args
MaStep(t, c) ==
  CASE c \in Space -> {With(t, "maSp")}
    [] c \in {"dq", "sq"} -> {[t EXCEPT !.m = "maStr", !.q = IF c = "dq" THEN "d" ELSE "s"]}
    [] c = "lp" -> {[t EXCEPT !.m = "macroArgs", !.d = Min(3, t.d + 1)]}
    [] c = "rp" -> IF t.d = 1 THEN {Code(FALSE, t.nest)} ELSE {[t EXCEPT !.m = "macroArgs", !.d = t.d - 1]}
    [] c = "bs" -> {With(t, "maBs")}
    [] OTHER -> {With(t, "macroArgs")}

---------------------------------------------------------------------------
RECURSIVE Step(_, _)
Step(t, c) ==
  CASE t.m = "code" -> CodeStep(t, c)

    \* skip_whitespace: a backslash is whitespace only before a newline
    [] t.m = "backslash" -> IF c = "nl" THEN {Code(TRUE, t.nest)} ELSE Again(t, c)

    \* skip_comment has seen '/'
    [] t.m = "slash" ->
         CASE c = "st" -> {With(t, "block")}
           [] c = "sl" -> {With(t, "line")}
           [] OTHER ->
              CASE t.o = "code" -> IF c = "eq" THEN {Code(FALSE, t.nest)} ELSE Again(t, c)
                [] t.o = "hash" -> Step([t EXCEPT !.m = "hash"], c)
                [] t.o = "skip" -> SkipStep(t, c)
                [] t.o = "ma" -> MaStep(t, c)
                [] OTHER -> Again(t, c)
    [] t.m = "block" -> IF c = "st" THEN {With(t, "blockStar")} ELSE {t}
    [] t.m = "blockStar" ->
         CASE c = "sl" ->
                CASE t.o = "code" -> {Code(t.sol, t.nest)}
                  [] t.o = "hash" -> {With(t, "hash")}
                  [] t.o = "skip" -> {With(t, "skip")}
                  [] t.o = "ma" -> {With(t, "maSp")}
                  [] OTHER -> {Code(t.sol, t.nest)}
           [] c = "st" -> {t}
           [] OTHER -> {With(t, "block")}
    [] t.m = "line" ->
         IF c = "nl"
           THEN CASE t.o = "code" -> {Code(TRUE, t.nest)}
                  [] t.o = "hash" -> {[t EXCEPT !.m = "hash"]}
                  [] t.o = "skip" -> {[t EXCEPT !.m = "skip", !.sol = TRUE]}
                  [] t.o = "ma" -> {With(t, "maSp")}
                  [] OTHER -> {Code(TRUE, t.nest)}
           ELSE {t}

    \* check_digraph / check_trigraph
    [] t.m = "lt" -> CASE c = "lt" -> {With(t, "ltlt")}
                       [] c = "eq" -> {With(t, "lteq")}
                       [] c = "pc" -> {Code(FALSE, t.nest)}
                       [] OTHER -> Again(t, c)
    [] t.m = "ltlt" -> IF c = "eq" THEN {Code(FALSE, t.nest)} ELSE Again(t, c)
    [] t.m = "lteq" -> IF c = "gt" THEN {Code(FALSE, t.nest)} ELSE Again(t, c)
    [] t.m = "gt" -> CASE c = "gt" -> {With(t, "gtgt")}
                       [] c = "eq" -> {Code(FALSE, t.nest)}
                       [] OTHER -> Again(t, c)
    [] t.m = "gtgt" -> IF c = "eq" THEN {Code(FALSE, t.nest)} ELSE Again(t, c)
    [] t.m \in {"eq", "star"} -> IF c = "eq" THEN {Code(FALSE, t.nest)} ELSE Again(t, c)
    [] t.m = "pct" -> IF c \in {"eq", "gt"} THEN {Code(FALSE, t.nest)} ELSE Again(t, c)
    [] t.m = "dot" -> CASE c = "0" -> {With(t, "real")}
                        [] c = "dt" -> {With(t, "dotdot")}
                        [] c = "st" -> {Code(FALSE, t.nest)}
                        [] OTHER -> Again(t, c)
    [] t.m = "dotdot" -> IF c = "dt" THEN {Code(FALSE, t.nest)} ELSE Again(t, c)

    \* get_identifier
    [] t.m = "ident" -> IF c \in Alpha \cup Digit THEN {t} ELSE Again(t, c)
    [] t.m = "identR" ->
         CASE c \in Alpha \cup Digit -> {With(t, "ident")}
           [] c \in {"dq", "sq"} -> {[t EXCEPT !.m = "rawDelim", !.q = IF c = "dq" THEN "d" ELSE "s"]}
           [] OTHER -> Again(t, c)
    [] t.m = "identA" ->
         CASE c \in Alpha \cup Digit -> {With(t, "ident")}
           [] mac = "obj" -> Again(t, c)                   \* expanded, the text after it goes on
           [] mac = "fn" -> CASE c \in Space -> {With(t, "macroSp")}
                              [] c = "lp" -> {[t EXCEPT !.m = "macroArgs", !.d = 1]}
                              [] OTHER -> Again(t, c)
           [] mac = "tmpl" -> CASE c \in Space -> {With(t, "tmplWait")}
                                [] c = "lt" -> {Code(FALSE, 1)}
                                [] OTHER -> Again(t, c)
           [] OTHER -> Again(t, c)
    [] t.m = "macroSp" -> CASE c \in Space -> {t}
                            [] c = "lp" -> {[t EXCEPT !.m = "macroArgs", !.d = 1]}
                            [] OTHER -> Again(t, c)
    [] t.m = "tmplWait" -> CASE c \in Space -> {t}
                             [] c = "lt" -> {Code(FALSE, 1)}
                             [] OTHER -> Again(t, c)

    \* extract_manifest_args
    [] t.m = "macroArgs" -> MaStep(t, c)
    [] t.m = "maSp" -> IF c = "sl" THEN {[t EXCEPT !.m = "slash", !.o = "ma"]} ELSE MaStep(t, c)
    [] t.m = "maStr" ->
         CASE (c = "dq" /\ t.q = "d") \/ (c = "sq" /\ t.q = "s") \/ c = "nl" -> {[t EXCEPT !.m = "macroArgs", !.q = "-"]}
           [] c = "bs" -> {With(t, "maEsc")}
           [] OTHER -> {t}
    [] t.m = "maEsc" -> {With(t, "maStr")}
    [] t.m = "maBs" -> IF c = "nl" THEN {With(t, "maSp")} ELSE MaStep(t, c)

    \* get_number / skip_digit_separator / get_literal
    [] t.m = "num" -> CASE c = "0" -> {t}
                        [] c = "sq" -> {With(t, "numSep")}
                        [] c = "dt" -> {With(t, "real")}
                        [] c \in Alpha -> {With(t, "suffix")}
                        [] OTHER -> Again(t, c)
    [] t.m = "numSep" -> CASE c = "0" -> {With(t, "num")}
                           [] c = "sq" -> {t}
                           [] c \in Alpha -> {With(t, "suffix")}
                           [] OTHER -> Again(t, c)
    [] t.m = "real" -> CASE c = "0" -> {t}
                         [] c \in Alpha -> {With(t, "suffix")}
                         [] OTHER -> Again(t, c)
    [] t.m = "afterLit" -> IF c \in Alpha THEN {With(t, "suffix")} ELSE Again(t, c)
    [] t.m = "suffix" -> IF c \in Alpha \cup Digit THEN {t} ELSE Again(t, c)

    \* scan_quoted / scan_escape_sequence
    [] t.m = "str" ->
         CASE (c = "dq" /\ t.q = "d") \/ (c = "sq" /\ t.q = "s") -> {[t EXCEPT !.m = "afterLit", !.q = "-"]}
           [] c = "nl" -> {Code(TRUE, t.nest)}
           [] c = "bs" -> {With(t, "strEsc")}
           [] OTHER -> {t}
    [] t.m = "strEsc" -> IF c = "0" THEN {With(t, "strOct")} ELSE {With(t, "str")}
    [] t.m = "strOct" -> IF c = "0" THEN {t} ELSE Step(With(t, "str"), c)

    \* scan_raw
    [] t.m = "rawDelim" -> IF c = "lp" THEN {With(t, "rawBody")} ELSE {t}
    [] t.m = "rawBody" -> IF c = "rp" THEN {With(t, "rawClose")}
                          ELSE IF (c = "dq" /\ t.q = "d") \/ (c = "sq" /\ t.q = "s")
                                 THEN {t, [t EXCEPT !.m = "afterLit", !.q = "-"]}
                                 ELSE {t}
    [] t.m = "rawClose" ->
         CASE (c = "dq" /\ t.q = "d") \/ (c = "sq" /\ t.q = "s") ->
                {[t EXCEPT !.m = "afterLit", !.q = "-"], With(t, "rawBody")}
           [] c = "rp" -> {t}
           [] OTHER -> {With(t, "rawBody")}

    \* process_directive: '#' seen at the start of a line
    [] t.m = "hash" ->
         CASE c \in Space -> {t}
           [] c = "sl" -> {[t EXCEPT !.m = "slash", !.o = "hash"]}
           [] c = "bs" -> {With(t, "hashBs")}
           [] c \in Alpha \cup Digit -> {[t EXCEPT !.m = "dirName", !.k = DirKind(c), !.o = "dir"]}
           [] OTHER -> ArgsStep([t EXCEPT !.m = "dirArgs", !.k = "other", !.o = "dir"], c)
    [] t.m = "hashBs" -> IF c = "nl" THEN {With(t, "hash")}
                         ELSE ArgsStep([t EXCEPT !.m = "dirArgs", !.k = "other", !.o = "dir"], c)
    [] t.m = "dirName" ->
         CASE c \in Alpha \cup Digit -> {[t EXCEPT !.k = "other"]}
           [] c = "sp" -> {With(t, "dirSp")}
           [] c = "nl" -> Done(t)
           [] OTHER -> ArgsStep(With(t, ArgsMode(t)), c)
    [] t.m = "dirSp" -> CASE c = "sp" -> {t}
                          [] c = "nl" -> Done(t)
                          [] OTHER -> ArgsStep(With(t, ArgsMode(t)), c)
    [] t.m \in {"dirArgs", "defName", "defParams"} -> ArgsStep(t, c)
    [] t.m = "dirBs" -> {With(t, "dirArgs")}
    [] t.m = "dirSlash" ->
         CASE c = "st" -> {With(t, "dirBlock")}
           [] c = "sl" -> {With(t, "dirLine")}
           [] OTHER -> ArgsStep([t EXCEPT !.m = t.q, !.q = "-"], c)
    [] t.m = "dirBlock" -> IF c = "st" THEN {With(t, "dirBlockStar")} ELSE {t}
    [] t.m = "dirBlockStar" -> CASE c = "sl" -> {[t EXCEPT !.m = t.q, !.q = "-"]}
                                 [] c = "st" -> {t}
                                 [] OTHER -> {With(t, "dirBlock")}
    [] t.m = "dirLine" -> IF c = "nl" THEN Done(t) ELSE {t}

    \* skip_false_if_block
    [] t.m = "skip" -> SkipStep(t, c)
    [] t.m = "skipHash" ->
         CASE c \in Space -> {t}
           [] c \in Alpha \cup Digit -> {[t EXCEPT !.m = "dirName", !.k = DirKind(c), !.o = "skipdir"]}
           [] OTHER -> ArgsStep([t EXCEPT !.m = "dirArgs", !.k = "other", !.o = "skipdir"], c)

Next ==
  /\ Len(inp) < MaxLen
  /\ \E c \in Sym : \E t \in Step(s, c) :
       /\ s' = t
       /\ inp' = Append(inp, c)
       /\ path' = Append(path, t.m)
  /\ UNCHANGED mac

Init ==
  /\ mac \in Macs
  /\ inp = <<>>
  /\ s = Code(TRUE, 0)
  /\ path = <<"code">>

Spec == Init /\ [][Next]_vars

---------------------------------------------------------------------------
Modes == {"code", "backslash", "slash", "block", "blockStar", "line", "lt", "ltlt", "lteq", "gt", "gtgt",
          "eq", "star", "pct", "dot", "dotdot", "ident", "identR", "identA", "macroSp", "tmplWait",
          "macroArgs", "maSp", "maStr", "maEsc", "maBs", "num", "numSep", "real", "afterLit", "suffix",
          "str", "strEsc", "strOct", "rawDelim", "rawBody", "rawClose", "hash", "hashBs", "dirName",
          "dirSp", "dirArgs", "defName", "defParams", "dirBs", "dirSlash", "dirBlock", "dirBlockStar",
          "dirLine", "skip", "skipHash"}

\* the transition function is total: every mode has a successor for every symbol
TypeOK == s.m \in Modes /\ s.nest \in 0..2 /\ s.d \in 0..3 /\ s.lvl \in 0..1
Total == \A c \in Sym : Step(s, c) # {}
PathOK == Len(path) = Len(inp) + 1 /\ path[Len(path)] = s.m

LastSyms(n) == IF Len(inp) <= n THEN inp ELSE SubSeq(inp, Len(inp) - n + 1, Len(inp))
PrevMode == IF Len(path) >= 2 THEN path[Len(path) - 1] ELSE "-"
View == <<mac, PrevMode, s, LastSyms(ViewTail), Len(inp)>>
=============================================================================
