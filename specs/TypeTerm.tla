------------------------------ MODULE TypeTerm ------------------------------
(***************************************************************************)
(* C06: the declarator grammar.  A type term is built from the inside out, *)
(* one type constructor per step (the behaviour is the derivation):        *)
(*   T ::= base | const T | T* | T& | T&& | T[n] | T(params) | T S::*      *)
(* Render(t, name) is the C++ declarator text by the inside-out rule with   *)
(* both cv placements; Struct(t) is the same type written with type-trait  *)
(* combinators (no declarator syntax at all), so that g++ can confirm that *)
(* Render denotes the term (spec sanity), and interrogate's printed text   *)
(* can be compared with the original by std::is_same.                      *)
(***************************************************************************)
EXTENDS Naturals, Sequences, TLC

CONSTANTS MaxDepth,     \* number of type constructors applied to the base
          Bases,        \* e.g. {"int", "char", "S", "unsigned long"}
          Kinds         \* subset of {"const","ptr","ref","rref","arr2","arr3","fn0","fn1","fn2","mptr"}

VARIABLES t, depth, east
vars == <<t, depth, east>>

Base(b) == [k |-> "base", b |-> b]
Wrap(kind, u) == [k |-> kind, t |-> u]

IsRef(u) == u.k \in {"ref", "rref"}
IsFn(u) == u.k \in {"fn0", "fn1", "fn2", "cfn0", "cfn1"}
IsCFn(u) == u.k \in {"cfn0", "cfn1"}      \* const-qualified function types: only below a pointer to member
IsArr(u) == u.k \in {"arr2", "arr3"}
IsVoid(u) == u.k = "base" /\ u.b = "void"

\* C++ well-formedness of applying a constructor to u  ([dcl.ptr], [dcl.ref], [dcl.array], [dcl.fct])
Allowed(kind, u) ==
  CASE IsCFn(u) -> kind = "mptr"
    [] kind = "const" -> u.k \notin {"const", "ref", "rref"} /\ ~IsFn(u) /\ ~IsArr(u) /\ ~IsVoid(u)
    [] kind = "ptr" -> ~IsRef(u)
    [] kind \in {"ref", "rref"} -> ~IsRef(u) /\ ~IsVoid(u)
    [] kind \in {"arr2", "arr3"} -> ~IsRef(u) /\ ~IsFn(u) /\ ~IsVoid(u)
    [] kind \in {"fn0", "fn1", "fn2", "cfn0", "cfn1"} -> ~IsFn(u) /\ ~IsArr(u) /\ u.k # "const"   \* as return type
    [] kind = "mptr" -> ~IsRef(u) /\ ~IsVoid(u)

Init == t \in {Base(b) : b \in Bases} /\ depth = 0 /\ east \in BOOLEAN
Step == /\ depth < MaxDepth
        /\ \E kind \in Kinds : Allowed(kind, t) /\ t' = Wrap(kind, t)
        /\ depth' = depth + 1 /\ UNCHANGED east
Spec == Init /\ [][Step]_vars

---------------------------------------------------------------------------
(* Rendering *)
Sp(a, b) == IF a = "" THEN b ELSE IF b = "" THEN a ELSE a \o " " \o b

\* parameter lists of the three function constructors (fixed, simple)
ParamText(kind) == CASE kind \in {"fn0", "cfn0"} -> "" [] kind \in {"fn1", "cfn1"} -> "int" [] kind = "fn2" -> "const char *, S &"
FnSuffix(kind) == IF kind \in {"cfn0", "cfn1"} THEN " const" ELSE ""
ArrText(kind) == IF kind = "arr2" THEN "[2]" ELSE "[3]"

RECURSIVE Decl(_, _, _)
\* Decl(u, d, e): declaration text of an entity with declarator-so-far d whose type is u
Decl(u, d, e) ==
  CASE u.k = "base" -> Sp(u.b, d)
    [] u.k = "const" ->
         IF u.t.k = "base"
           THEN (IF e THEN Sp(u.t.b \o " const", d) ELSE Sp("const " \o u.t.b, d))
           ELSE \* const pointer / const pointer-to-member
             LET star == IF u.t.k = "ptr" THEN "*" ELSE "S::*"
                 d2 == Sp(star \o " const", d)
                 in == u.t.t
             IN IF IsFn(in) \/ IsArr(in) THEN Decl(in, "(" \o d2 \o ")", e) ELSE Decl(in, d2, e)
    [] u.k \in {"ptr", "ref", "rref", "mptr"} ->
         LET sym == CASE u.k = "ptr" -> "*" [] u.k = "ref" -> "&" [] u.k = "rref" -> "&&" [] u.k = "mptr" -> "S::*"
             d2 == sym \o d
         IN IF IsFn(u.t) \/ IsArr(u.t) THEN Decl(u.t, "(" \o d2 \o ")", e) ELSE Decl(u.t, d2, e)
    [] IsArr(u) -> Decl(u.t, d \o ArrText(u.k), e)
    [] IsFn(u) -> Decl(u.t, d \o "(" \o ParamText(u.k) \o ")" \o FnSuffix(u.k), e)

Render(name) == Decl(t, name, east)

RECURSIVE Struct(_)
Struct(u) ==
  CASE u.k = "base" -> u.b
    [] u.k = "const" -> "C<" \o Struct(u.t) \o ">"
    [] u.k = "ptr" -> "P<" \o Struct(u.t) \o ">"
    [] u.k = "ref" -> "L<" \o Struct(u.t) \o ">"
    [] u.k = "rref" -> "R<" \o Struct(u.t) \o ">"
    [] u.k = "mptr" -> "M<" \o Struct(u.t) \o ">"
    [] u.k = "arr2" -> "A<" \o Struct(u.t) \o ",2>"
    [] u.k = "arr3" -> "A<" \o Struct(u.t) \o ",3>"
    [] u.k = "fn0" -> "F<" \o Struct(u.t) \o ">"
    [] u.k = "fn1" -> "F<" \o Struct(u.t) \o ",int>"
    [] u.k = "fn2" -> "F<" \o Struct(u.t) \o ",P<C<char>>,L<S>>"
    [] u.k = "cfn0" -> "CF<" \o Struct(u.t) \o ">"
    [] u.k = "cfn1" -> "CF<" \o Struct(u.t) \o ",int>"

RECURSIVE Shape(_)
Shape(u) == IF u.k = "base" THEN <<u.b>> ELSE <<u.k>> \o Shape(u.t)

---------------------------------------------------------------------------
(* Sanity: the constructors never stack what C++ forbids *)
RECURSIVE NoRefInside(_)
NoRefInside(u) == IF u.k = "base" THEN TRUE ELSE (~IsRef(u.t) \/ IsFn(u)) /\ NoRefInside(u.t)
WellFormed == NoRefInside(t)
DepthOK == depth <= MaxDepth
=============================================================================
