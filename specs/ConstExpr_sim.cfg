SPECIFICATION Spec
CONSTANTS
  Leaves <- LvAll
  UnOps = {"+", "-", "~", "!"}
  Casts = {"int", "bool", "char", "short"}
  BinOps = {"*", "/", "%", "+", "-", "<<", ">>", "<", ">", "<=", ">=", "==", "!=", "&", "^", "|", "&&", "||"}
  UseCond = TRUE
  MaxTok = 9
  MaxDepth = 4
INVARIANT EvalTotal
INVARIANT DivModLaw
INVARIANT ShiftLaw
INVARIANT BitLaw
INVARIANT BoolLaw
INVARIANT AddLaw
INVARIANT RenderLaw
CONSTRAINT DumpConstraint
CHECK_DEADLOCK FALSE
