SPECIFICATION Spec
CONSTANTS
  MaxLen = 6
  EmptyBecomesDot = TRUE
INVARIANT Idempotent
INVARIANT SameDenotation
INVARIANT AbsSame
INVARIANT CanonSame
INVARIANT CanonIdem
INVARIANT CanonNoLink
CONSTRAINT DumpConstraint
CHECK_DEADLOCK FALSE
