--------------------------- MODULE HashNamesTrace ---------------------------
(***************************************************************************)
(* Trace validation for C03 (hook H-hash in                                *)
(* InterfaceMaker::hash_function_signature).  Events of one execution:     *)
(*   {"e":"HashExtend","sig":o,"hash":H,"inserted":b}  the previous owner  *)
(*        o of the colliding h5 was extended to H (always followed by the  *)
(*        Hash event of the call that caused it)                           *)
(*   {"e":"Hash","sig":s,"h5":a,"h11":b,"assigned":H}  the call returned   *)
(*        with remap->_hash = H                                            *)
(* Executions are separated by {"e":"Reset"}.  The logged h5 / h11 STRINGS *)
(* are the chunks of the spec's hash strings; every event must be the      *)
(* Insert step of HashNames with exactly the assigned string, and the      *)
(* invariants of HashNames are checked on every observed state.            *)
(***************************************************************************)
EXTENDS HashNames, Json, IOUtils

Tr == ndJsonDeserialize(IOEnv.VERIF_TRACE)
NT == Len(Tr)

TraceLetters == <<"a", "b", "c", "d", "e", "f", "g", "h", "i", "j", "k", "l", "m",
                  "n", "o", "p", "q", "r", "s", "t", "u", "v", "w", "x", "y", "z">>

VARIABLE l
tvars == <<hvars, l>>

IsE(i, e) == i <= NT /\ Tr[i].e = e

RECURSIVE Flat(_)
Flat(q) == IF q = <<>> THEN "" ELSE Head(q) \o Flat(Tail(q))

TInit == HInit /\ l = 1

TReset == /\ IsE(l, "Reset")
          /\ byHash' = <<>> /\ hashOf' = <<>> /\ nameOf' = <<>> /\ h11Of' = <<>>
          /\ failed' = FALSE /\ extClash' = FALSE
          /\ l' = l + 1

\* a call that did not touch any other remap
THash ==
  /\ IsE(l, "Hash")
  /\ Insert(Tr[l].sig, Tr[l].h5, Tr[l].h11)
  /\ Flat(nameOf'[Tr[l].sig]) = Tr[l].assigned
  /\ Flat(hashOf'[Tr[l].sig]) = Tr[l].assigned
  /\ \A o \in DOMAIN hashOf : hashOf'[o] = hashOf[o]
  /\ l' = l + 1

\* a call that extended the previous owner of its h5
THashExtend ==
  /\ IsE(l, "HashExtend") /\ IsE(l + 1, "Hash")
  /\ Tr[l].sig \in DOMAIN hashOf
  /\ Insert(Tr[l + 1].sig, Tr[l + 1].h5, Tr[l + 1].h11)
  /\ Flat(nameOf'[Tr[l + 1].sig]) = Tr[l + 1].assigned
  /\ hashOf'[Tr[l].sig] # hashOf[Tr[l].sig]
  /\ Flat(hashOf'[Tr[l].sig]) = Tr[l].hash
  /\ Tr[l].inserted = 1
  /\ \A o \in DOMAIN hashOf : o # Tr[l].sig => hashOf'[o] = hashOf[o]
  /\ l' = l + 2

TForeign == /\ l <= NT /\ Tr[l].e \notin {"Hash", "HashExtend", "Reset"}
            /\ UNCHANGED hvars /\ l' = l + 1

TDone == l = NT + 1 /\ UNCHANGED tvars

TNext == TReset \/ THash \/ THashExtend \/ TForeign \/ TDone
TSpec == TInit /\ [][TNext]_tvars

TFrozen == [][(~IsE(l, "Reset")) => \A s \in DOMAIN nameOf : nameOf'[s] = nameOf[s]]_tvars
=============================================================================
