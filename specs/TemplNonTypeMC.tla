-------------------------- MODULE TemplNonTypeMC ----------------------------
EXTENDS TemplNonType, Json, CSV, IOUtils, Randomization
CONSTANT Size                 \* "S" (quick), "M" (thorough), "L" (simulation)

Bs(n) == <<"b", n>>
Pm(i) == <<"p", i>>
K(v) == <<"k", v>>
C(c) == <<"cst", c>>
Small3 == Size = "S"

IntP == [S |-> {1}, W |-> {2, 3}, U |-> {1}]         \* positions of the non-type parameters
ClsP == [S |-> {2}, W |-> {1}, U |-> {}]             \* positions of the type parameters

\* expressions of the i-th parameter:  N   N + 1   N * 2   N - 1   -N
ExprsOf(i) == {Pm(i), <<"add", Pm(i), K(1)>>, <<"mul", Pm(i), K(2)>>}
              \cup (IF Small3 THEN {} ELSE {<<"sub", Pm(i), K(1)>>, <<"neg", Pm(i)>>})
Exprs(T) == UNION {ExprsOf(i) : i \in IntP[T]}
TArgs(T) == {Pm(j) : j \in ClsP[T]} \cup (IF ClsP[T] = {} \/ ~Small3 THEN {Bs("char")} ELSE {})

\* arrays whose bound depends on a parameter; the element type depends on one (T [N]) or does not (char [N])
Elems(T) == {Bs("char")} \cup {Pm(j) : j \in ClsP[T]}
Bounds(T) == UNION {{Pm(i), <<"add", Pm(i), K(1)>>} : i \in IntP[T]}
            \cup (IF Size = "L" THEN UNION {{<<"mul", Pm(i), K(2)>>, <<"sub", Pm(i), K(1)>>} : i \in IntP[T]} ELSE {})
Arrays(T) ==
  {<<"arr", el, e>> : el \in Elems(T), e \in Bounds(T)}
  \cup {<<"arr", <<"arr", Bs("unsigned char"), K(2)>>, Pm(i)>> : i \in IntP[T]}             \* unsigned char [N][2]
  \cup {<<"arr", Bs("const char *"), <<"add", Pm(i), K(1)>>>> : i \in IntP[T]}               \* const char *[N + 1]
  \cup {<<k, <<"arr", Bs("char"), Pm(i)>>>> : k \in {"ref", "ptr"}, i \in IntP[T]}           \* char (&)[N]  char (*)[N]
  \cup {<<"ptr", <<"fn", Bs("int"), <<"ref", <<"arr", Bs("char"), Pm(i)>>>>>>>> : i \in IntP[T]}   \* int (*)(char (&)[N])

Thirds(T) == {K(3)} \cup (IF Small3 THEN {} ELSE Exprs(T))
Tids(T) ==
  {<<"t", "S", <<e, ty>>>> : e \in Exprs(T), ty \in TArgs(T)} \cup {<<"t", "S", <<e>>>> : e \in Exprs(T)}
  \cup {<<"t", "W", <<ty, e>>>> : ty \in TArgs(T), e \in Exprs(T)} \cup {<<"t", "W", <<ty>>>> : ty \in TArgs(T)}
  \cup {<<"t", "W", <<ty, e, f>>>> : ty \in TArgs(T), e \in Exprs(T), f \in Thirds(T)}
  \cup {<<"t", "U", <<e>>>> : e \in Exprs(T)}
Projs(T) == {<<"m", t, s>> : t \in {x \in Tids(T) : Level[x[2]] < Level[T]}, s \in Slots}
Owns == {<<"own", "m1">>, <<"ptr", <<"own", "m1">>>>}
MCBodyTerms == [T \in Tmpl |-> Arrays(T) \cup Tids(T) \cup Projs(T) \cup Owns
                               \cup {Pm(j) : j \in ClsP[T]}
                               \cup (IF Small3 THEN {} ELSE {<<"ptr", p>> : p \in Projs(T)})]

\* default arguments:  S's T;  W's N and M (M may refer to N, which may itself be defaulted)
DS == {NONE, Bs("int")} \cup (IF Small3 THEN {} ELSE {Bs("char")})
DW == {<<NONE, NONE>>, <<NONE, K(3)>>, <<K(4), <<"mul", Pm(2), K(2)>>>>, <<C("lw"), <<"add", Pm(2), K(1)>>>>}
      \cup (IF Small3 THEN {} ELSE {<<K(4), Pm(2)>>, <<C("rw"), K(1)>>, <<K(2), <<"sub", Pm(2), K(1)>>>>})
MCDfltProfiles == {[S |-> <<NONE, s>>, W |-> <<NONE, w[1], w[2]>>, U |-> <<NONE>>] : s \in DS, w \in DW} \ {NoDefaults}

\* closed arguments of the query: literals, named constants (same simple name in two namespaces; the name of
\* the template's own parameter; enumerators; sizeof)
Vals == {K(2), K(-1), C("lw"), C("rw"), C("cn")}
        \cup (IF Small3 THEN {} ELSE {K(1), K(3), K(5), C("ld"), C("rd"), C("sz")})
QTys == IF Small3 THEN {Bs("char")} ELSE {Bs("char"), Bs("int")}
Vals3 == IF Small3 THEN {K(1)} ELSE {K(1), C("lw"), C("rd")}
Roots == {<<"t", "S", <<v>>>> : v \in Vals} \cup {<<"t", "S", <<v, ty>>>> : v \in Vals, ty \in QTys}
         \cup {<<"t", "W", <<ty>>>> : ty \in QTys} \cup {<<"t", "W", <<ty, v>>>> : ty \in QTys, v \in Vals}
         \cup {<<"t", "W", <<ty, v, w>>>> : ty \in QTys, v \in Vals, w \in Vals3}
         \cup {<<"t", "U", <<v>>>> : v \in Vals}
GRoots == {<<"g", i>> : i \in 1..MaxUses}
Q1 == {<<"m", t, s>> : t \in Roots \cup GRoots, s \in Slots}
MCUseTerms == Roots
MCQueryTerms == Q1

\* simulation over the large alphabets: draw a few candidates per step instead of enumerating every successor
SimNext == \/ \E d \in RandomSubset(3, MCDfltProfiles) : SetDefaults(d)
           \/ \E T \in Tmpl, s \in Slots : \E b \in RandomSubset(25, MCBodyTerms[T]) : AddMember(T, s, b)
           \/ \E t \in RandomSubset(6, MCUseTerms) : AddUse(t)
           \/ \E q \in RandomSubset(200, Q1) : Ask(q)
           \/ \E s \in Slots : Extend(s)
SimSpec == Init /\ [][SimNext]_vars

DumpFile == IF "VERIF_DUMP" \in DOMAIN IOEnv THEN IOEnv.VERIF_DUMP ELSE ""
DumpConstraint ==
  IF DumpFile # "" /\ query # NONE
    THEN CSVWrite("%1$s", <<ToJson([dflt |-> dflt, defs |-> defs, uses |-> uses, q |-> query, r |-> Result])>>, DumpFile)
    ELSE TRUE
=============================================================================
