SPECIFICATION Spec
CONSTANTS
  LibSize = 1
  Rounds = 4
  MaxHeap = 13
  Stride = 3
  SigChoices <- SingleChoices
INVARIANT HeaderWellFormed
INVARIANT ResultsInRange
INVARIANT DefaultsAreDeclared
INVARIANT ArgsAreOfTheirClass
CONSTRAINT DumpConstraint
CHECK_DEADLOCK FALSE
