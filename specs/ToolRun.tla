------------------------------ MODULE ToolRun ------------------------------
(***************************************************************************)
(* Process life cycle of interrogate, interrogate_module and parse_file    *)
(* (properties C15 and C19).                                               *)
(*                                                                         *)
(* One behaviour = one run of one tool: the command (tool, requested       *)
(* output channels, number of source files) is chosen in Init, every later *)
(* step is either a step of the program (main() of interrogate.cxx,        *)
(* interrogate_module.cxx, parse_file.cxx, in the order the code has it)   *)
(* or an answer of the environment: the outcome of parsing a file, of      *)
(* open(2), of the k-th write(2), of the flush and the close(2) issued when *)
(* the stream is closed.  The environment may fail at most one of these    *)
(* per channel (a "fault"); a write fault is either transient (only this   *)
(* call fails, EIO) or persistent (this and every later write fails,       *)
(* ENOSPC).                                                                 *)
(*                                                                         *)
(* What the program sees of a fault is the stream's sticky fail bit        *)
(* (std::ofstream: a failed overflow sets badbit, further insertions are   *)
(* dropped without reaching the kernel; the put area is kept and retried    *)
(* by the flush in close()).  The program looks at the bit at Check.        *)
(*                                                                         *)
(* The spec states the INTENDED protocol (CheckAfterWriter = TRUE): every  *)
(* requested stream is closed explicitly after its writer returns and the  *)
(* fail bit is tested after that close, in both tools.  With               *)
(* CheckAfterWriter = FALSE the spec describes the code as it was read      *)
(* before the C19 fixes (the bit is only looked at right after open, the    *)
(* flush and the close happen in the destructor, interrogate_module never  *)
(* changes its status); that configuration exists only to show that TLC    *)
(* finds the C19 counterexample, it is never the registered one.            *)
(***************************************************************************)
EXTENDS Naturals, Integers, Sequences, FiniteSets, TLC

CONSTANTS
  Tools,             \* subset of {"interrogate", "interrogate_module", "parse_file"}
  MaxFiles,          \* a run names 1..MaxFiles source files
  MaxWrites,         \* writes per channel: < MaxWrites in the writer + the flush ("first/middle/last")
  FaultOps,          \* subset of {"open", "write", "writefrom", "close"}
  CheckAfterWriter   \* TRUE = intended protocol (registered); FALSE = code before the fixes

AllCh == {"oc", "od", "oh"}
ChanSeq(t) == CASE t = "interrogate" -> <<"oc", "od", "oh">>
                [] t = "interrogate_module" -> <<"oc">>
                [] OTHER -> <<>>
ChanSet(t) == {ChanSeq(t)[i] : i \in 1..Len(ChanSeq(t))}
NoFault == [op |-> "none", k |-> 0, at |-> "-"]

VARIABLES
  tool, req, nfiles,       \* the command
  pc,                      \* Parse Commands Build Open Write Flush CloseFd Check Abandon LoadCheck
                           \* Exit Exited (Judged: trace validation only, after the monitor record)
  fi,                      \* files handed to parse_file / interrogate_request_database so far
  errors, lastOk, unread,  \* parser error count, result of the last parse_file(), "could not be read"
  parsed,                  \* history: outcome of every parse ("ok" | "err" | "unread")
  ci, wk,                  \* index of the current channel in ChanSeq(tool); write(2) calls issued on it
  opened, failbit,         \* per channel: stream open; sticky fail bit as the program can see it
  produced, onDisk,        \* per channel: bytes the writer produced / bytes the kernel accepted
  exists,                  \* per channel: the output file exists (created or truncated by open)
  sched,                   \* per channel: the fault the environment injected (history; at most one)
  openedBeforeParseEnd,    \* history: some output was opened while pc was still Parse
  loadErr,                 \* interrogate_module: a database could not be read (history)
  status, exit, signal, diags

vars == <<tool, req, nfiles, pc, fi, errors, lastOk, unread, parsed, ci, wk, opened, failbit,
          produced, onDisk, exists, sched, openedBeforeParseEnd, loadErr, status, exit, signal, diags>>

Cur == ChanSeq(tool)[ci]
NCh == Len(ChanSeq(tool))
Hit(c) == sched[c].op # "none"
Persist(c) == sched[c].op = "writefrom"
ExitCode(s) == IF s < 0 THEN 256 + s ELSE s
\* interrogate reports an output failure with status -1 (exit code 255), interrogate_module
\* with 1 like its other error exits
FailStatus == IF tool = "interrogate" THEN -1 ELSE 1

\* first requested channel at index >= i, or NCh + 1
NextReq(i) == IF \E j \in i..NCh : ChanSeq(tool)[j] \in req
                THEN CHOOSE j \in i..NCh : ChanSeq(tool)[j] \in req
                                          /\ \A h \in i..(j - 1) : ChanSeq(tool)[h] \notin req
                ELSE NCh + 1

AfterChannels == IF tool = "interrogate_module" THEN "LoadCheck" ELSE "Exit"
GotoChan(i) == /\ ci' = NextReq(i)
               /\ pc' = IF NextReq(i) <= NCh THEN "Open" ELSE AfterChannels
               /\ wk' = 0

Init ==
  /\ tool \in Tools
  /\ req \in SUBSET ChanSet(tool)
  /\ nfiles \in 1..MaxFiles
  /\ pc = "Parse" /\ fi = 0 /\ errors = 0 /\ lastOk = TRUE /\ unread = FALSE /\ parsed = <<>>
  /\ ci = 0 /\ wk = 0
  /\ opened = [c \in AllCh |-> FALSE] /\ failbit = [c \in AllCh |-> FALSE]
  /\ produced = [c \in AllCh |-> 0] /\ onDisk = [c \in AllCh |-> 0]
  /\ exists = [c \in AllCh |-> FALSE]
  /\ sched = [c \in AllCh |-> NoFault]
  /\ openedBeforeParseEnd = FALSE /\ loadErr = FALSE
  /\ status = 0 /\ exit = -1 /\ signal = "none" /\ diags = 0

ChanVars == <<ci, wk, opened, failbit, produced, onDisk, exists, sched, openedBeforeParseEnd, loadErr>>
ParseVars == <<fi, errors, lastOk, unread, parsed>>
CmdVars == <<tool, req, nfiles>>

---------------------------------------------------------------------------
(* Front end.  interrogate.cxx:525-532, parse_file.cxx:350-362: the files are parsed in
   order; the first parse_file() that returns false ends the run with status 1 before any
   output is opened.  parse_file() returns get_error_count() == 0 (cppParser.cxx:67), or
   false without an error when the file cannot be read.  interrogate_module only registers
   its .in files here (they are read lazily while the table is written). *)
Parse(outcome) ==
  /\ pc = "Parse" /\ fi < nfiles
  /\ tool = "interrogate_module" => outcome = "ok"
  /\ fi' = fi + 1
  /\ parsed' = Append(parsed, outcome)
  /\ errors' = IF outcome = "err" THEN errors + 1 ELSE errors
  /\ unread' = (outcome = "unread")
  /\ lastOk' = (outcome = "ok")
  /\ IF outcome = "ok"
       THEN /\ UNCHANGED <<status, diags>>
            /\ IF fi' < nfiles THEN pc' = "Parse" /\ UNCHANGED <<ci, wk>>
               ELSE CASE tool = "interrogate" -> pc' = "Commands" /\ UNCHANGED <<ci, wk>>
                      [] tool = "interrogate_module" -> GotoChan(1)
                      [] OTHER -> pc' = "Exit" /\ UNCHANGED <<ci, wk>>
       ELSE /\ status' = 1 /\ diags' = diags + 1 /\ pc' = "Exit" /\ UNCHANGED <<ci, wk>>
  /\ UNCHANGED <<CmdVars, opened, failbit, produced, onDisk, exists, sched, openedBeforeParseEnd, loadErr,
                 exit, signal>>

\* interrogate.cxx:543-552: the .N command file next to every source file is read if it exists
Commands ==
  /\ pc = "Commands" /\ pc' = "Build"
  /\ UNCHANGED <<CmdVars, ParseVars, ChanVars, status, exit, signal, diags>>

\* interrogate.cxx:554-575: builder.build(), make_module_def()
Build ==
  /\ pc = "Build" /\ GotoChan(1)
  /\ UNCHANGED <<CmdVars, ParseVars, opened, failbit, produced, onDisk, exists, sched,
                 openedBeforeParseEnd, loadErr, status, exit, signal, diags>>

---------------------------------------------------------------------------
(* One output channel: Open -> Write^n -> (writer returns) Flush -> CloseFd -> Check. *)

\* Filename::open_write succeeded: the file exists and is empty
OpenOK ==
  /\ pc = "Open"
  /\ opened' = [opened EXCEPT ![Cur] = TRUE]
  /\ exists' = [exists EXCEPT ![Cur] = TRUE]
  /\ onDisk' = [onDisk EXCEPT ![Cur] = 0]
  /\ pc' = "Write"
  /\ UNCHANGED <<CmdVars, ParseVars, ci, wk, failbit, produced, sched, openedBeforeParseEnd, loadErr,
                 status, exit, signal, diags>>

\* open(2) fails (missing directory, read-only target, target is a directory, ...): both tools
\* print "Unable to write to"; interrogate sets status = -1 and goes on with the next channel
\* (interrogate.cxx:642-644, 659-661, 671-673); interrogate_module must do the same.
OpenFail ==
  /\ pc = "Open" /\ "open" \in FaultOps /\ ~Hit(Cur)
  /\ sched' = [sched EXCEPT ![Cur] = [op |-> "open", k |-> 0, at |-> "o"]]
  /\ failbit' = [failbit EXCEPT ![Cur] = TRUE]
  /\ diags' = diags + 1
  /\ status' = IF CheckAfterWriter \/ tool = "interrogate" THEN FailStatus ELSE status
  /\ GotoChan(ci + 1)
  /\ UNCHANGED <<CmdVars, ParseVars, opened, produced, onDisk, exists, openedBeforeParseEnd, loadErr,
                 exit, signal>>

\* the writer produces n more bytes and the stream buffer overflows: one write(2) of n bytes,
\* unless the fail bit is already set (then the insertion is dropped: no system call at all)
WriteDropped(n) ==
  /\ pc = "Write" /\ wk < MaxWrites - 1 /\ failbit[Cur]
  /\ produced' = [produced EXCEPT ![Cur] = @ + n]
  /\ wk' = wk + 1
  /\ UNCHANGED <<CmdVars, ParseVars, ci, pc, opened, failbit, onDisk, exists, sched,
                 openedBeforeParseEnd, loadErr, status, exit, signal, diags>>

WriteOK(n) ==
  /\ pc = "Write" /\ wk < MaxWrites - 1 /\ ~failbit[Cur]
  /\ produced' = [produced EXCEPT ![Cur] = @ + n]
  /\ onDisk' = [onDisk EXCEPT ![Cur] = @ + n]
  /\ wk' = wk + 1
  /\ UNCHANGED <<CmdVars, ParseVars, ci, pc, opened, failbit, exists, sched,
                 openedBeforeParseEnd, loadErr, status, exit, signal, diags>>

WriteFail(n, op) ==
  /\ pc = "Write" /\ wk < MaxWrites - 1 /\ ~failbit[Cur] /\ ~Hit(Cur)
  /\ op \in {"write", "writefrom"} \cap FaultOps
  /\ produced' = [produced EXCEPT ![Cur] = @ + n]
  /\ failbit' = [failbit EXCEPT ![Cur] = TRUE]
  /\ sched' = [sched EXCEPT ![Cur] = [op |-> op, k |-> wk + 1, at |-> "w"]]
  /\ wk' = wk + 1
  /\ UNCHANGED <<CmdVars, ParseVars, ci, pc, opened, onDisk, exists, openedBeforeParseEnd, loadErr,
                 status, exit, signal, diags>>

\* the writer function returns (write_code / InterrogateDatabase::write / write_text /
\* write_python_table*); what it produced last is still in the stream buffer
WriterReturn ==
  /\ pc = "Write" /\ pc' = "Flush"
  /\ UNCHANGED <<CmdVars, ParseVars, ChanVars, status, exit, signal, diags>>

\* close() of the stream flushes the put area: the last write(2).  basic_filebuf retries the
\* buffer a failed overflow left behind, so a transient fault leaves a hole, not a short file.
FlushOK(n) ==
  /\ pc = "Flush" /\ ~Persist(Cur)
  /\ produced' = [produced EXCEPT ![Cur] = @ + (IF failbit[Cur] THEN 0 ELSE n)]
  /\ onDisk' = [onDisk EXCEPT ![Cur] = @ + n]
  /\ wk' = wk + 1
  /\ pc' = "CloseFd"
  /\ UNCHANGED <<CmdVars, ParseVars, ci, opened, failbit, exists, sched, openedBeforeParseEnd, loadErr,
                 status, exit, signal, diags>>

FlushFail(n, op) ==
  /\ pc = "Flush"
  /\ \/ Persist(Cur) /\ op = "writefrom"
     \/ ~Hit(Cur) /\ op \in {"write", "writefrom"} \cap FaultOps
  /\ produced' = [produced EXCEPT ![Cur] = @ + (IF failbit[Cur] THEN 0 ELSE n)]
  /\ failbit' = [failbit EXCEPT ![Cur] = TRUE]
  /\ sched' = IF Hit(Cur) THEN sched ELSE [sched EXCEPT ![Cur] = [op |-> op, k |-> wk + 1, at |-> "f"]]
  /\ wk' = wk + 1
  /\ pc' = "CloseFd"
  /\ UNCHANGED <<CmdVars, ParseVars, ci, opened, onDisk, exists, openedBeforeParseEnd, loadErr,
                 status, exit, signal, diags>>

\* nothing is buffered (everything was written, or dropped because the bit was set)
FlushNone ==
  /\ pc = "Flush" /\ pc' = "CloseFd"
  /\ UNCHANGED <<CmdVars, ParseVars, ChanVars, status, exit, signal, diags>>

CloseOK ==
  /\ pc = "CloseFd"
  /\ opened' = [opened EXCEPT ![Cur] = FALSE]
  /\ pc' = "Check"
  /\ UNCHANGED <<CmdVars, ParseVars, ci, wk, failbit, produced, onDisk, exists, sched,
                 openedBeforeParseEnd, loadErr, status, exit, signal, diags>>

\* close(2) reports an error (EIO, ENOSPC on delayed allocation, EDQUOT): the descriptor is gone,
\* the data may not be; the stream's close() sets the fail bit
CloseFail ==
  /\ pc = "CloseFd" /\ "close" \in FaultOps /\ ~Hit(Cur)
  /\ opened' = [opened EXCEPT ![Cur] = FALSE]
  /\ failbit' = [failbit EXCEPT ![Cur] = TRUE]
  /\ sched' = [sched EXCEPT ![Cur] = [op |-> "close", k |-> 0, at |-> "c"]]
  /\ pc' = "Check"
  /\ UNCHANGED <<CmdVars, ParseVars, ci, wk, produced, onDisk, exists, openedBeforeParseEnd, loadErr,
                 status, exit, signal, diags>>

\* the point where the program looks at the stream
Check ==
  /\ pc = "Check"
  /\ IF CheckAfterWriter /\ failbit[Cur]
       THEN status' = FailStatus /\ diags' = diags + 1
       ELSE UNCHANGED <<status, diags>>
  /\ GotoChan(ci + 1)
  /\ UNCHANGED <<CmdVars, ParseVars, opened, failbit, produced, onDisk, exists, sched,
                 openedBeforeParseEnd, loadErr, exit, signal>>

\* The program may notice a set fail bit while the writer phase is still going on and give the
\* channel up (interrogate.cxx:642: the test after the preamble of -oc has been inserted):
\* the failure is reported at once; the stream is then closed by its destructor, whose flush
\* and close(2) results no longer matter.
EarlyCheck ==
  /\ pc = "Write" /\ failbit[Cur]
  /\ status' = FailStatus /\ diags' = diags + 1
  /\ pc' = "Abandon"
  /\ UNCHANGED <<CmdVars, ParseVars, ChanVars, exit, signal>>

AbandonFlush(n, ok) ==
  /\ pc = "Abandon" /\ opened[Cur] /\ wk < MaxWrites
  /\ Persist(Cur) => ~ok
  /\ onDisk' = [onDisk EXCEPT ![Cur] = @ + (IF ok THEN n ELSE 0)]
  /\ wk' = MaxWrites
  /\ UNCHANGED <<CmdVars, ParseVars, ci, pc, opened, failbit, produced, exists, sched,
                 openedBeforeParseEnd, loadErr, status, exit, signal, diags>>

AbandonClose ==
  /\ pc = "Abandon"
  /\ opened' = [opened EXCEPT ![Cur] = FALSE]
  /\ GotoChan(ci + 1)
  /\ UNCHANGED <<CmdVars, ParseVars, failbit, produced, onDisk, exists, sched,
                 openedBeforeParseEnd, loadErr, status, exit, signal, diags>>

---------------------------------------------------------------------------
\* interrogate_module.cxx:659-663: a database that could not be read while the table was
\* written (they are loaded lazily by the first query) removes the output and ends the run with
\* status 1
LoadCheck(le) ==
  /\ pc = "LoadCheck" /\ pc' = "Exit"
  /\ le => exists["oc"]        \* the databases are only read while the table is being written
  /\ loadErr' = le
  /\ IF le
       THEN /\ status' = 1 /\ diags' = diags + 1
            /\ exists' = [exists EXCEPT !["oc"] = FALSE]
       ELSE UNCHANGED <<status, diags, exists>>
  /\ UNCHANGED <<CmdVars, ParseVars, ci, wk, opened, failbit, produced, onDisk, sched,
                 openedBeforeParseEnd, exit, signal>>

Exit ==
  /\ pc = "Exit"
  /\ exit' = ExitCode(status)
  /\ pc' = "Exited"
  /\ UNCHANGED <<CmdVars, ParseVars, ChanVars, status, signal, diags>>

Outcomes == {"ok", "err", "unread"}
Ops == {"write", "writefrom"}

Next ==
  \/ \E o \in Outcomes : Parse(o)
  \/ Commands \/ Build
  \/ OpenOK \/ OpenFail
  \/ WriteOK(1) \/ WriteDropped(1) \/ \E op \in Ops : WriteFail(1, op)
  \/ WriterReturn
  \/ FlushOK(1) \/ \E op \in Ops : FlushFail(1, op)
  \/ CloseOK \/ CloseFail
  \/ Check
  \/ EarlyCheck \/ (\E b \in BOOLEAN : AbandonFlush(1, b)) \/ AbandonClose
  \/ \E b \in BOOLEAN : LoadCheck(b)
  \/ Exit

Spec == Init /\ [][Next]_vars /\ WF_vars(Next)

---------------------------------------------------------------------------
(* Properties *)
Exited == pc \in {"Exited", "Judged"}
Outputs == {c \in AllCh : exists[c]}
Incomplete(c) == Hit(c) \/ onDisk[c] < produced[c]

\* C19: a requested output that was hit by a fault or is shorter than what was produced is
\* reported by the exit status
C19_FaultReported == Exited => \A c \in req : Incomplete(c) => exit # 0

\* no false alarm in the model: a run without parse error, load error and fault exits 0 with
\* every requested output complete
C19_CleanRunSucceeds ==
  (Exited /\ errors = 0 /\ ~unread /\ ~loadErr /\ \A c \in AllCh : ~Hit(c))
     => exit = 0 /\ \A c \in req : exists[c] /\ onDisk[c] = produced[c]

\* C15 (run protocol)
C15_NoSignal == signal = "none"
C15_ErrorMeansFailure ==
  Exited /\ (errors > 0 \/ unread) => exit # 0 /\ Outputs = {} /\ diags > 0
C15_OkIffNoErrors == (fi > 0 /\ tool # "interrogate_module") => (lastOk <=> (errors = 0 /\ ~unread))
C15_NoOutputBeforeParseEnd == ~openedBeforeParseEnd /\ (pc = "Parse" => Outputs = {})
C15_ExitStatusOrdinary == Exited => exit \in {0, 1, 255}
C15_StatusIsExit == Exited => (exit = 0 <=> status = 0)

\* no descriptor is left open and nothing is written after exit
ClosedAtExit == Exited => \A c \in AllCh : ~opened[c]

TypeOK ==
  /\ pc \in {"Parse", "Commands", "Build", "Open", "Write", "Flush", "CloseFd", "Check",
             "Abandon", "LoadCheck", "Exit", "Exited", "Judged"}
  /\ status \in {-1, 0, 1}
  /\ \A c \in AllCh : onDisk[c] <= produced[c]

\* termination (C15): every run exits
Terminates == <>Exited
=============================================================================
