SPECIFICATION Spec
CONSTANTS
  Cats1 = {8, 12, 13}
  MaxOver1 = 2
  Cats2 = {12}
  MaxOver2 = 1
  Time = {1, 2}
  Locales = {"C"}
  EnvSizes = {0}
  PwdValues = {"real", "link"}
  CwdVia = {"real", "link"}
  OcNames = {"rel"}
  CwdSource = "getcwd"
  EpochEnvs = {"unset", "0", "normal"}
  ZeroMeansUnset = TRUE
  PrevFiles = {"none", "longer"}
  Truncates = TRUE
  InputVariants = {"plain"}
  TZs = {"UTC0"}
  AslrBases = {1}
  DateMacros = "undefined"
  PrintsPointer = FALSE
  TieBreak = "signature"
INVARIANT OutputPure
CHECK_DEADLOCK FALSE
