SPECIFICATION Spec
CONSTANTS
  MaxLen = 5
  Macs = {"none", "obj", "fn", "tmpl"}
  ViewTail = 1
INVARIANT TypeOK
INVARIANT Total
INVARIANT PathOK
VIEW View
INVARIANT DumpConstraint
CHECK_DEADLOCK FALSE
