------------------------------ MODULE IdbHash ------------------------------
(***************************************************************************)
(* Wrapper / unique names (C11: "unique names are pairwise distinct").     *)
(* InterfaceMaker::hash_function_signature, transcribed over abstract hash *)
(* values: a signature has a first hash h1 (hash_string(sig, 5)) and a     *)
(* second hash h2 (hash_string(sig, 11)); a name is <<h1>>, <<h1, h2>> or   *)
(* <<h1, h2, letter>>.  The behaviour is the sequence of signatures of one  *)
(* library, in the order the wrappers are made.                            *)
(*   table   _wrappers_by_hash: name -> owning signature, 0 = tombstone     *)
(*   hashOf  FunctionRemap::_hash of every signature (the first owner of a  *)
(*           short hash is extended when the first collision arrives)       *)
(*   nameOf  the name the wrapper was given when it was made (wrapper and   *)
(*           unique name are built from _hash right after                   *)
(*           hash_function_signature returns and never change)              *)
(* Distinct signatures only (a repeated signature aborts the tool).  More   *)
(* than 26 + 1 signatures colliding in both hashes take the "Too many      *)
(* conflicts" path and are outside the domain (MaxSigs <= 27).             *)
(***************************************************************************)
EXTENDS Naturals, Sequences, FiniteSets, TLC

CONSTANTS MaxSigs, H1, H2

VARIABLES sigs, table, hashOf, nameOf
vars == <<sigs, table, hashOf, nameOf>>

Init == sigs = <<>> /\ table = <<>> /\ hashOf = <<>> /\ nameOf = <<>>

FirstFree(tb, h8) == CHOOSE k \in 1..26 : Append(h8, k) \notin DOMAIN tb /\ \A j \in 1..(k - 1) : Append(h8, j) \in DOMAIN tb

Add(a, b) ==
  LET i == Len(sigs) + 1
      short == <<a>> IN
  /\ sigs' = Append(sigs, [h1 |-> a, h2 |-> b])
  /\ IF short \notin DOMAIN table
       THEN \* no other name: we're in the clear
            /\ table' = table @@ (short :> i)
            /\ hashOf' = Append(hashOf, short)
            /\ nameOf' = Append(nameOf, short)
       ELSE LET o == table[short]
                \* a live owner is extended by its second hash and the short entry becomes a tombstone
                ext == IF o # 0 THEN <<sigs[o].h1, sigs[o].h2>> ELSE <<>>
                t1 == IF o # 0 THEN [table EXCEPT ![short] = 0] ELSE table
                t2 == IF o # 0 /\ ext \notin DOMAIN t1 THEN t1 @@ (ext :> o) ELSE t1
                h8 == <<a, b>>
                final == IF h8 \notin DOMAIN t2 THEN h8 ELSE Append(h8, FirstFree(t2, h8))
            IN /\ table' = t2 @@ (final :> i)
               /\ hashOf' = Append(IF o # 0 THEN [hashOf EXCEPT ![o] = ext] ELSE hashOf, final)
               /\ nameOf' = Append(nameOf, final)

Next == Len(sigs) < MaxSigs /\ \E a \in H1, b \in H2 : Add(a, b)
Spec == Init /\ [][Next]_vars

NamesDistinct == \A i, j \in DOMAIN nameOf : nameOf[i] = nameOf[j] => i = j
HashesDistinct == \A i, j \in DOMAIN hashOf : hashOf[i] = hashOf[j] => i = j
TableOwns == \A nm \in DOMAIN table : table[nm] # 0 => hashOf[table[nm]] = nm
EveryoneListed == \A i \in DOMAIN hashOf : hashOf[i] \in DOMAIN table /\ table[hashOf[i]] = i
=============================================================================
