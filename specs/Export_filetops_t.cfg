SPECIFICATION Spec
CONSTANTS
  ElemIgnore = TRUE
  Shape <- NoShape
  MinVisSet <- Both
  File2Srcs <- FileSrcs
  ClassHeads <- FTHeads
  NestedKeys <- None
  MemberAlpha <- FTMembersT
  MaxMembers <- M10
  MaxClasses = 1
  BaseAlpha <- None
  MaxBases = 1
  ClassComments <- NoComment
  TopAlpha <- FTTopsT
  MaxTops = 1
  AliasAlpha <- None
  MaxAliases = 0
  NestedLike = FALSE
  CmdKinds <- FTCmdsT
INVARIANT SafeVis
INVARIANT SafeAccess
INVARIANT SafeKind
INVARIANT SafeFile
INVARIANT SafeSig
INVARIANT SafeOwner
INVARIANT SafeForeign
INVARIANT Consistent
INVARIANT Sound
INVARIANT Complete
INVARIANT Bounded
INVARIANT OneOwner
INVARIANT RefsBackward
INVARIANT VisIsFunction
CONSTRAINT DumpConstraint
CHECK_DEADLOCK FALSE
