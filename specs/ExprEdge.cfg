SPECIFICATION Spec
INVARIANT TypeOK
INVARIANT HazardFreeIsWellFormed
CONSTRAINT DumpConstraint
CHECK_DEADLOCK FALSE
