SPECIFICATION Spec
CONSTANTS
  MaxOverloads = 2
  MaxParams = 1
  ParamCats <- Cats1
  IntVals <- EdgeIntVals
  IntVals2 <- TinyIntVals
  ArgKinds <- AllArgKinds
  Kinds = {"method"}
  NameModes <- AltNames
  ConstMethods = TRUE
  Fixed <- NoFix
INVARIANT RefinesAndTies
CONSTRAINT DumpConstraint
CHECK_DEADLOCK FALSE
