SPECIFICATION Spec
CONSTANTS
  MaxOverloads = 3
  MaxParams = 1
  ParamCats <- Cats1
  IntVals <- EdgeIntVals
  IntVals2 <- FewIntVals
  ArgKinds <- AllArgKinds
  Kinds = {"method"}
  ConstMethods = TRUE
  Fixed <- NoFix
INVARIANT Refines
INVARIANT TiesHarmless
CONSTRAINT DumpConstraint
CHECK_DEADLOCK FALSE
