------------------------------ MODULE TraitsMC ------------------------------
EXTENDS Traits, Json, CSV, IOUtils

AllRels == Rels
\* two-class programs: every relation
Rel2 == <<{}, <<AllRels>>>>
\* three-class programs: chains, two bases, member-of-derived
Rel3 == <<{}, <<{"none", "base_pub", "base_prot", "base_vpub", "member", "arrmember"}>>,
          <<{"none", "base_pub", "base_vpub", "staticmember"}, {"none", "base_pub", "base_priv", "member", "arrmember"}>>>>

\* later classes are mostly implicit: what they inherit is the point
\* (an explicitly defaulted destructor is deleted when a base or member cannot be destroyed)
LaterSmall == {<<d, c, t, v>> : d \in {D0, <<"default", "pub">>}, c \in {D0, <<"default", "pub">>},
                                 t \in {T0, <<"default", "pub", FALSE>>}, v \in {"none", "over", "overc"}}
LaterBig == {<<d, c, t, v>> : d \in {D0, <<"default", "pub">>, <<"user", "pub">>},
                              c \in {D0, <<"default", "pub">>},
                              t \in {T0, <<"user", "pub", FALSE>>, <<"default", "pub", FALSE>>},
                              v \in {"none", "over", "overc", "pure"}}
Rel3q == <<{}, <<{"base_pub", "base_vpub", "member"}>>,
           <<{"none", "base_pub"}, {"none", "base_pub", "member"}>>>>

DumpFile == IF "VERIF_DUMP" \in DOMAIN IOEnv THEN IOEnv.VERIF_DUMP ELSE ""

Related == \A i \in 2..N : \E j \in 1..(i - 1) : cls[i].rel[j] # "none"

DumpConstraint ==
  /\ WF
  /\ IF done /\ DumpFile # "" /\ Related
       THEN CSVWrite("%1$s", <<ToJson([c |-> cls, v |-> [i \in 1..N |-> Verdict(i)]])>>, DumpFile)
       ELSE TRUE
=============================================================================
