SPECIFICATION Spec
CONSTANTS
  MaxOverloads = 2
  MaxParams = 2
  ParamCats <- CatsCo2
  IntVals <- TinyIntVals
  IntVals2 <- TinyIntVals
  ArgKinds <- CoArgKinds
  Kinds = {"static"}
  NameModes <- AltNames
  ConstMethods = FALSE
  Fixed <- NoFix
INVARIANT RefinesAndTies
CONSTRAINT DumpConstraint
CHECK_DEADLOCK FALSE
