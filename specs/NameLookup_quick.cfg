SPECIFICATION Spec
CONSTANTS
  MaxDecls = 2
  MaxUsings = 1
INVARIANT ResultIsDecl
INVARIANT InnermostWins
CONSTRAINT DumpConstraint
CHECK_DEADLOCK FALSE
