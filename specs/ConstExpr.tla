------------------------------ MODULE ConstExpr ------------------------------
(***************************************************************************)
(* Integer constant expressions (properties C07, C09).                     *)
(*                                                                         *)
(* Part 1 — the RULE: C++ evaluation of a constant-expression tree in      *)
(* `int`.  Ev(t) is a record [d, v]: d = "ok" and v the value, or d =      *)
(* "div0" (a zero divisor is evaluated: the expression has no value, a     *)
(* tool must report it as unevaluated), or d = "ub" (an evaluated          *)
(* intermediate leaves the int range, INT_MIN / -1, a shift count outside  *)
(* 0..31, a negative left operand of <<, a left shift that overflows, a    *)
(* cast to char / short of a value that type cannot represent: outside the *)
(* property's domain).  && || ?: evaluate only what C++ evaluates.  All    *)
(* arithmetic is guarded with comparisons / division so    *)
(* that TLC's 32-bit integers never overflow; / and % truncate toward zero *)
(* (TLA+ \div and % floor).  Bit operations are defined on the two's       *)
(* complement representation bit by bit.                                   *)
(*                                                                         *)
(* Part 2 — the precedence / associativity table and the token sequence    *)
(* with MINIMAL parentheses (Toks) and with full parentheses (FullToks).   *)
(*                                                                         *)
(* The enumerations live in ConstExprGen (all trees, postfix machine) and  *)
(* ConstExprEnv (declaration sequences with references and implicit        *)
(* enumerator increment); this module has no state.                        *)
(***************************************************************************)
EXTENDS Integers, Sequences, FiniteSets, TLC

INT_MAX == 2147483647
INT_MIN == -2147483647 - 1

AllBinOps == {"*", "/", "%", "+", "-", "<<", ">>", "<", ">", "<=", ">=", "==", "!=",
              "&", "^", "|", "&&", "||"}

---------------------------------------------------------------------------
(* Part 1: evaluation *)

Ok(x) == [d |-> "ok", v |-> x]
UB    == [d |-> "ub", v |-> 0]
Div0  == [d |-> "div0", v |-> 0]
B2I(b) == IF b THEN 1 ELSE 0

Abs(a) == IF a < 0 THEN -a ELSE a            \* a # INT_MIN

Add(a, b) == IF (b > 0 /\ a > INT_MAX - b) \/ (b < 0 /\ a < INT_MIN - b) THEN UB ELSE Ok(a + b)
Sub(a, b) == IF (b > 0 /\ a < INT_MIN + b) \/ (b < 0 /\ a > INT_MAX + b) THEN UB ELSE Ok(a - b)
Neg(a) == IF a = INT_MIN THEN UB ELSE Ok(-a)

Mul(a, b) ==
  IF a = 0 \/ b = 0 THEN Ok(0)
  ELSE IF a = INT_MIN THEN (IF b = 1 THEN Ok(a) ELSE UB)
  ELSE IF b = INT_MIN THEN (IF a = 1 THEN Ok(b) ELSE UB)
  ELSE LET ma == Abs(a)  mb == Abs(b)  same == (a < 0) = (b < 0) IN
       IF ma <= INT_MAX \div mb THEN Ok(IF same THEN ma * mb ELSE -(ma * mb))
       \* the only other representable product is -2^31
       ELSE IF ~same /\ ma = (INT_MAX \div mb) + 1 /\ INT_MAX % mb = mb - 1 THEN Ok(INT_MIN)
       ELSE UB

\* 2^31 \div b for b > 1, without writing 2^31
P31Div(b) == (INT_MAX \div b) + B2I(INT_MAX % b = b - 1)

\* quotient truncated toward zero; b # 0 and not (a = INT_MIN /\ b = -1)
Quot(a, b) ==
  IF b = INT_MIN THEN B2I(a = INT_MIN)
  ELSE IF a = INT_MIN THEN (IF b = 1 THEN a ELSE IF b > 0 THEN -P31Div(b) ELSE P31Div(-b))
  ELSE LET q == Abs(a) \div Abs(b) IN IF (a < 0) = (b < 0) THEN q ELSE -q

Div(a, b) == IF b = 0 THEN Div0 ELSE IF a = INT_MIN /\ b = -1 THEN UB ELSE Ok(Quot(a, b))
Mod(a, b) == IF b = 0 THEN Div0 ELSE IF a = INT_MIN /\ b = -1 THEN UB ELSE Ok(a - Quot(a, b) * b)

RECURSIVE Pow2(_)
Pow2(n) == IF n = 0 THEN 1 ELSE 2 * Pow2(n - 1)          \* n <= 30

Shl(a, n) ==
  IF n < 0 \/ n > 31 \/ a < 0 THEN UB
  ELSE IF a = 0 THEN Ok(0)
  ELSE IF n = 31 THEN UB
  ELSE IF a <= INT_MAX \div Pow2(n) THEN Ok(a * Pow2(n)) ELSE UB

\* arithmetic right shift = floor division (C++20; what every two's complement compiler does)
Shr(a, n) ==
  IF n < 0 \/ n > 31 THEN UB
  ELSE IF n = 31 THEN Ok(IF a < 0 THEN -1 ELSE 0)
  ELSE Ok(a \div Pow2(n))

\* two's complement: sign bit and the low 31 bits as a natural number
Low(a) == IF a < 0 THEN (a + INT_MAX) + 1 ELSE a
FromBits(neg, low) == IF neg THEN (low - INT_MAX) - 1 ELSE low

RECURSIVE Bits(_, _, _)
\* f is a 2x2 truth table indexed [x][y] with values in {0,1}
Bits(f, x, y) == IF x = 0 /\ y = 0 THEN 0
                 ELSE f[x % 2][y % 2] + 2 * Bits(f, x \div 2, y \div 2)

TAnd == [i \in {0, 1} |-> [j \in {0, 1} |-> IF i = 1 /\ j = 1 THEN 1 ELSE 0]]
TOr  == [i \in {0, 1} |-> [j \in {0, 1} |-> IF i = 1 \/ j = 1 THEN 1 ELSE 0]]
TXor == [i \in {0, 1} |-> [j \in {0, 1} |-> IF i # j THEN 1 ELSE 0]]

BitOp(f, a, b) == FromBits(f[B2I(a < 0)][B2I(b < 0)] = 1, Bits(f, Low(a), Low(b)))
And(a, b) == BitOp(TAnd, a, b)
Or(a, b)  == BitOp(TOr, a, b)
Xor(a, b) == BitOp(TXor, a, b)
Not(a) == IF a >= 0 THEN -a - 1 ELSE -(a + 1)

\* binary operators other than && and || (both operands are evaluated)
Bin(op, a, b) ==
  CASE op = "+"  -> Add(a, b)
    [] op = "-"  -> Sub(a, b)
    [] op = "*"  -> Mul(a, b)
    [] op = "/"  -> Div(a, b)
    [] op = "%"  -> Mod(a, b)
    [] op = "<<" -> Shl(a, b)
    [] op = ">>" -> Shr(a, b)
    [] op = "&"  -> Ok(And(a, b))
    [] op = "|"  -> Ok(Or(a, b))
    [] op = "^"  -> Ok(Xor(a, b))
    [] op = "<"  -> Ok(B2I(a < b))
    [] op = ">"  -> Ok(B2I(a > b))
    [] op = "<=" -> Ok(B2I(a <= b))
    [] op = ">=" -> Ok(B2I(a >= b))
    [] op = "==" -> Ok(B2I(a = b))
    [] op = "!=" -> Ok(B2I(a # b))

Un(op, a) ==
  CASE op = "+" -> Ok(a)
    [] op = "-" -> Neg(a)
    [] op = "~" -> Ok(Not(a))
    [] op = "!" -> Ok(B2I(a = 0))

\* (char) is a signed 8-bit and (short) a 16-bit type on the platform of the oracle compiler.  A value the
\* target type cannot represent is converted in an implementation-defined way before C++20 (and g++ rejects
\* some such conversions in constant expressions): outside the domain, like an int overflow.
Cast(ty, a) ==
  CASE ty = "int"  -> Ok(a)
    [] ty = "bool" -> Ok(B2I(a # 0))
    [] ty = "char" -> IF a >= -128 /\ a <= 127 THEN Ok(a) ELSE UB
    [] ty = "short" -> IF a >= -32768 /\ a <= 32767 THEN Ok(a) ELSE UB

\* combination of already evaluated operands: the first that is not "ok" in C++
\* evaluation order decides, "ub" winning over "div0" (the expression is outside the domain)
Worst(x, y) == IF x.d = "ub" \/ y.d = "ub" THEN UB ELSE IF x.d = "div0" \/ y.d = "div0" THEN Div0 ELSE x

BinR(op, x, y) ==      \* x, y result records
  CASE op = "&&" -> IF x.d # "ok" THEN x ELSE IF x.v = 0 THEN Ok(0)
                    ELSE IF y.d # "ok" THEN y ELSE Ok(B2I(y.v # 0))
    [] op = "||" -> IF x.d # "ok" THEN x ELSE IF x.v # 0 THEN Ok(1)
                    ELSE IF y.d # "ok" THEN y ELSE Ok(B2I(y.v # 0))
    [] OTHER -> IF x.d = "ok" /\ y.d = "ok" THEN Bin(op, x.v, y.v) ELSE Worst(x, y)

UnR(op, x) == IF x.d = "ok" THEN Un(op, x.v) ELSE x
CastR(ty, x) == IF x.d = "ok" THEN Cast(ty, x.v) ELSE x
CondR(c, x, y) == IF c.d # "ok" THEN c ELSE IF c.v # 0 THEN x ELSE y

(* Trees:  <<"lit", v>>  <<"un", op, t>>  <<"cast", ty, t>>  <<"bin", op, l, r>>  <<"cond", c, a, b>> *)
RECURSIVE Ev(_)
Ev(t) ==
  CASE t[1] = "lit"  -> Ok(t[2])
    [] t[1] = "un"   -> UnR(t[2], Ev(t[3]))
    [] t[1] = "cast" -> CastR(t[2], Ev(t[3]))
    [] t[1] = "bin"  -> BinR(t[2], Ev(t[3]), Ev(t[4]))
    [] t[1] = "cond" -> CondR(Ev(t[2]), Ev(t[3]), Ev(t[4]))

Defined(t) == Ev(t).d = "ok"
Eval(t) == Ev(t).v

---------------------------------------------------------------------------
(* Part 2: tokens are strings, a literal leaf is the decimal spelling of its value (the
   renderer in vf substitutes other spellings of the same value, see NumLex).
   C++ precedence (larger binds tighter), all binary operators associate to the
   left, ?: and the unary operators to the right. *)
Prec(op) ==
  CASE op \in {"*", "/", "%"} -> 13
    [] op \in {"+", "-"} -> 12
    [] op \in {"<<", ">>"} -> 11
    [] op \in {"<", ">", "<=", ">="} -> 9
    [] op \in {"==", "!="} -> 8
    [] op = "&" -> 7
    [] op = "^" -> 6
    [] op = "|" -> 5
    [] op = "&&" -> 4
    [] op = "||" -> 3
PCond == 2
PUnary == 15
PPrimary == 17

\* precedence of the root of a tree; a negative literal is spelled as unary minus
TPrec(t) ==
  CASE t[1] = "lit"  -> IF t[2] < 0 THEN PUnary ELSE PPrimary
    [] t[1] = "un"   -> PUnary
    [] t[1] = "cast" -> PUnary
    [] t[1] = "bin"  -> Prec(t[2])
    [] t[1] = "cond" -> PCond

Par(s) == <<"(">> \o s \o <<")">>

RECURSIVE Toks(_)
\* token sequence with the fewest parentheses that still parses back to t
Toks(t) ==
  LET Opd(c, min) == IF TPrec(c) < min THEN Par(Toks(c)) ELSE Toks(c) IN
  CASE t[1] = "lit"  -> <<ToString(t[2])>>
    [] t[1] = "un"   -> <<t[2]>> \o Opd(t[3], PUnary)
    [] t[1] = "cast" -> <<"(", t[2], ")">> \o Opd(t[3], PUnary)
    [] t[1] = "bin"  -> Opd(t[3], Prec(t[2])) \o <<t[2]>> \o Opd(t[4], Prec(t[2]) + 1)
    \* logical-or-expression ? expression : assignment-expression
    [] t[1] = "cond" -> Opd(t[2], PCond + 1) \o <<"?">> \o Toks(t[3]) \o <<":">> \o Opd(t[4], PCond)

RECURSIVE FullToks(_)
FullToks(t) ==
  CASE t[1] = "lit"  -> IF t[2] < 0 THEN Par(<<ToString(t[2])>>) ELSE <<ToString(t[2])>>
    [] t[1] = "un"   -> Par(<<t[2]>> \o FullToks(t[3]))
    [] t[1] = "cast" -> Par(<<"(", t[2], ")">> \o FullToks(t[3]))
    [] t[1] = "bin"  -> Par(FullToks(t[3]) \o <<t[2]>> \o FullToks(t[4]))
    [] t[1] = "cond" -> Par(FullToks(t[2]) \o <<"?">> \o FullToks(t[3]) \o <<":">> \o FullToks(t[4]))

=============================================================================
