------------------------------ MODULE ConstExpr ------------------------------
(***************************************************************************)
(* Integer constant expressions (properties C07, C09).                     *)
(*                                                                         *)
(* Part 1 — the RULE: C++ evaluation of a constant-expression tree in      *)
(* `int`.  Ev(t) is a record [d, v]: d = "ok" and v the value, or d =      *)
(* "div0" / "ovf" (a zero divisor is evaluated, + - * / % leave the int     *)
(* range: the expression has no value, a tool must report it as            *)
(* unevaluated), "uns" / "big" (unsigned arithmetic or a literal >= 2^31   *)
(* is involved and the value is not an int: unevaluated or the compiler's  *)
(* value), or "ub" (a shift count outside 0..31, a negative left operand   *)
(* of <<, a left shift that overflows, a cast to char / short of a value   *)
(* that type cannot represent: no claim).  && || ?: evaluate only what C++ evaluates.  All    *)
(* arithmetic is guarded with comparisons / division so    *)
(* that TLC's 32-bit integers never overflow; / and % truncate toward zero *)
(* (TLA+ \div and % floor).  Bit operations are defined on the two's       *)
(* complement representation bit by bit.                                   *)
(*                                                                         *)
(* Part 2 — the precedence / associativity table and the token sequence    *)
(* with MINIMAL parentheses (Toks) and with full parentheses (FullToks).   *)
(*                                                                         *)
(* The enumerations live in ConstExprGen (all trees, postfix machine) and  *)
(* ConstExprEnv (declaration sequences with references and implicit        *)
(* enumerator increment); this module has no state.                        *)
(***************************************************************************)
EXTENDS Integers, Sequences, FiniteSets, TLC

INT_MAX == 2147483647
INT_MIN == -2147483647 - 1

AllBinOps == {"*", "/", "%", "+", "-", "<<", ">>", "<", ">", "<=", ">=", "==", "!=",
              "&", "^", "|", "&&", "||"}

---------------------------------------------------------------------------
(* Part 1: evaluation *)

Ok(x) == [d |-> "ok", v |-> x]
UB    == [d |-> "ub", v |-> 0]
Div0  == [d |-> "div0", v |-> 0]
B2I(b) == IF b THEN 1 ELSE 0

Abs(a) == IF a < 0 THEN -a ELSE a            \* a # INT_MIN

Add(a, b) == IF (b > 0 /\ a > INT_MAX - b) \/ (b < 0 /\ a < INT_MIN - b) THEN UB ELSE Ok(a + b)
Sub(a, b) == IF (b > 0 /\ a < INT_MIN + b) \/ (b < 0 /\ a > INT_MAX + b) THEN UB ELSE Ok(a - b)
Neg(a) == IF a = INT_MIN THEN UB ELSE Ok(-a)

Mul(a, b) ==
  IF a = 0 \/ b = 0 THEN Ok(0)
  ELSE IF a = INT_MIN THEN (IF b = 1 THEN Ok(a) ELSE UB)
  ELSE IF b = INT_MIN THEN (IF a = 1 THEN Ok(b) ELSE UB)
  ELSE LET ma == Abs(a)  mb == Abs(b)  same == (a < 0) = (b < 0) IN
       IF ma <= INT_MAX \div mb THEN Ok(IF same THEN ma * mb ELSE -(ma * mb))
       \* the only other representable product is -2^31
       ELSE IF ~same /\ ma = (INT_MAX \div mb) + 1 /\ INT_MAX % mb = mb - 1 THEN Ok(INT_MIN)
       ELSE UB

\* 2^31 \div b for b > 1, without writing 2^31
P31Div(b) == (INT_MAX \div b) + B2I(INT_MAX % b = b - 1)

\* quotient truncated toward zero; b # 0 and not (a = INT_MIN /\ b = -1)
Quot(a, b) ==
  IF b = INT_MIN THEN B2I(a = INT_MIN)
  ELSE IF a = INT_MIN THEN (IF b = 1 THEN a ELSE IF b > 0 THEN -P31Div(b) ELSE P31Div(-b))
  ELSE LET q == Abs(a) \div Abs(b) IN IF (a < 0) = (b < 0) THEN q ELSE -q

Div(a, b) == IF b = 0 THEN Div0 ELSE IF a = INT_MIN /\ b = -1 THEN UB ELSE Ok(Quot(a, b))
Mod(a, b) == IF b = 0 THEN Div0 ELSE IF a = INT_MIN /\ b = -1 THEN UB ELSE Ok(a - Quot(a, b) * b)

RECURSIVE Pow2(_)
Pow2(n) == IF n = 0 THEN 1 ELSE 2 * Pow2(n - 1)          \* n <= 30

Shl(a, n) ==
  IF n < 0 \/ n > 31 \/ a < 0 THEN UB
  ELSE IF a = 0 THEN Ok(0)
  ELSE IF n = 31 THEN UB
  ELSE IF a <= INT_MAX \div Pow2(n) THEN Ok(a * Pow2(n)) ELSE UB

\* arithmetic right shift = floor division (C++20; what every two's complement compiler does)
Shr(a, n) ==
  IF n < 0 \/ n > 31 THEN UB
  ELSE IF n = 31 THEN Ok(IF a < 0 THEN -1 ELSE 0)
  ELSE Ok(a \div Pow2(n))

\* two's complement: sign bit and the low 31 bits as a natural number
Low(a) == IF a < 0 THEN (a + INT_MAX) + 1 ELSE a
FromBits(neg, low) == IF neg THEN (low - INT_MAX) - 1 ELSE low

RECURSIVE Bits(_, _, _)
\* f is a 2x2 truth table indexed [x][y] with values in {0,1}
Bits(f, x, y) == IF x = 0 /\ y = 0 THEN 0
                 ELSE f[x % 2][y % 2] + 2 * Bits(f, x \div 2, y \div 2)

TAnd == [i \in {0, 1} |-> [j \in {0, 1} |-> IF i = 1 /\ j = 1 THEN 1 ELSE 0]]
TOr  == [i \in {0, 1} |-> [j \in {0, 1} |-> IF i = 1 \/ j = 1 THEN 1 ELSE 0]]
TXor == [i \in {0, 1} |-> [j \in {0, 1} |-> IF i # j THEN 1 ELSE 0]]

BitOp(f, a, b) == FromBits(f[B2I(a < 0)][B2I(b < 0)] = 1, Bits(f, Low(a), Low(b)))
And(a, b) == BitOp(TAnd, a, b)
Or(a, b)  == BitOp(TOr, a, b)
Xor(a, b) == BitOp(TXor, a, b)
Not(a) == IF a >= 0 THEN -a - 1 ELSE -(a + 1)

\* binary operators other than && and || (both operands are evaluated)
Bin(op, a, b) ==
  CASE op = "+"  -> Add(a, b)
    [] op = "-"  -> Sub(a, b)
    [] op = "*"  -> Mul(a, b)
    [] op = "/"  -> Div(a, b)
    [] op = "%"  -> Mod(a, b)
    [] op = "<<" -> Shl(a, b)
    [] op = ">>" -> Shr(a, b)
    [] op = "&"  -> Ok(And(a, b))
    [] op = "|"  -> Ok(Or(a, b))
    [] op = "^"  -> Ok(Xor(a, b))
    [] op = "<"  -> Ok(B2I(a < b))
    [] op = ">"  -> Ok(B2I(a > b))
    [] op = "<=" -> Ok(B2I(a <= b))
    [] op = ">=" -> Ok(B2I(a >= b))
    [] op = "==" -> Ok(B2I(a = b))
    [] op = "!=" -> Ok(B2I(a # b))

Un(op, a) ==
  CASE op = "+" -> Ok(a)
    [] op = "-" -> Neg(a)
    [] op = "~" -> Ok(Not(a))
    [] op = "!" -> Ok(B2I(a = 0))

\* (char) is a signed 8-bit and (short) a 16-bit type on the platform of the oracle compiler.  A value the
\* target type cannot represent is converted in an implementation-defined way before C++20 (and g++ rejects
\* some such conversions in constant expressions): outside the domain, like an int overflow.
Cast(ty, a) ==
  CASE ty = "int"  -> Ok(a)
    [] ty = "bool" -> Ok(B2I(a # 0))
    [] ty = "char" -> IF a >= -128 /\ a <= 127 THEN Ok(a) ELSE UB
    [] ty = "short" -> IF a >= -32768 /\ a <= 32767 THEN Ok(a) ELSE UB

(* Classes of results besides "ok" (a value in int, computed in int):
     "div0"  a zero divisor is evaluated                      } the expression has NO value: a tool
     "ovf"   + - * unary- / % leave the int range             } must report it as unevaluated
     "uns"   an operand or the result of an operation done in UNSIGNED arithmetic (usual arithmetic
             conversions: one operand has an unsigned type) is negative / does not fit in int
     "big"   a literal that does not fit in int is evaluated
             } the compiler computes a value in a wider or unsigned type; outside the value claim, a
             } tool must report "unevaluated" or exactly the compiler's value
     "ub"    shifts by a bad count / of a negative value / overflowing, narrowing casts: no claim *)
Ovf == [d |-> "ovf", v |-> 0]
Uns == [d |-> "uns", v |-> 0]
Big == [d |-> "big", v |-> 0]
Rank(d) == CASE d = "ub" -> 5 [] d = "div0" -> 4 [] d = "ovf" -> 3 [] d = "big" -> 2 [] d = "uns" -> 1 [] OTHER -> 0
\* combination of evaluated operands that are not both "ok": no claim beats no value beats other type
Worst(x, y) == IF Rank(x.d) >= Rank(y.d) THEN [d |-> x.d, v |-> 0] ELSE [d |-> y.d, v |-> 0]

(* Trees:  <<"lit", v>>  <<"ulit", v>> (unsigned-suffixed literal, 0 <= v <= INT_MAX)
           <<"big", text>> (literal >= 2^31, spelled `text`)
           <<"un", op, t>>  <<"cast", ty, t>>  <<"bin", op, l, r>>  <<"cond", c, a, b>> *)
\* big literals of unsigned type (the others have type long): u/U suffix, or hex/octal/binary fitting 32 bits
BigUnsigned == {"2147483648u", "4294967295u", "0x80000000", "0xffffffff", "4294967295U", "020000000000"}

RECURSIVE Typ(_)
\* static type of an expression after the integral promotions: TRUE = unsigned int, FALSE = int (or long)
Typ(t) ==
  CASE t[1] = "lit"  -> FALSE
    [] t[1] = "ulit" -> TRUE
    [] t[1] = "big"  -> t[2] \in BigUnsigned
    [] t[1] = "un"   -> IF t[2] = "!" THEN FALSE ELSE Typ(t[3])
    [] t[1] = "cast" -> FALSE
    [] t[1] = "bin"  -> IF t[2] \in {"<", ">", "<=", ">=", "==", "!=", "&&", "||"} THEN FALSE
                        ELSE IF t[2] \in {"<<", ">>"} THEN Typ(t[3])
                        ELSE Typ(t[3]) \/ Typ(t[4])
    [] t[1] = "cond" -> Typ(t[3]) \/ Typ(t[4])

\* int arithmetic: the overflow of + - * / % is "ovf", everything else undefined stays "ub"
IntBin(op, a, b) ==
  LET r == Bin(op, a, b) IN
  IF r.d = "ub" /\ op \in {"+", "-", "*", "/", "%"} THEN Ovf ELSE r

\* unsigned arithmetic on operands converted to unsigned: exact while everything stays in 0..INT_MAX
UnsBin(op, a, b) ==
  IF op \in {"<<", ">>"} THEN
     \* only the left operand is unsigned-typed; a is >= 0
     IF b < 0 \/ b > 31 THEN UB
     ELSE IF op = ">>" THEN Shr(a, b)
     ELSE IF Shl(a, b).d = "ok" THEN Shl(a, b) ELSE Uns       \* modular, but not an int
  ELSE IF a < 0 \/ b < 0 THEN Uns
  ELSE LET r == Bin(op, a, b) IN
       IF r.d = "ub" THEN Uns                                  \* e.g. 2147483647u + 1
       ELSE IF r.d = "ok" /\ r.v < 0 THEN Uns                  \* e.g. 1u - 2
       ELSE r

\* x, y result records; ux, uy the static types of the operand expressions
BinR(op, x, y, ux, uy) ==
  CASE op = "&&" -> IF x.d # "ok" THEN x ELSE IF x.v = 0 THEN Ok(0)
                    ELSE IF y.d # "ok" THEN y ELSE Ok(B2I(y.v # 0))
    [] op = "||" -> IF x.d # "ok" THEN x ELSE IF x.v # 0 THEN Ok(1)
                    ELSE IF y.d # "ok" THEN y ELSE Ok(B2I(y.v # 0))
    [] OTHER -> \* a shift count that is not a value in 0..31: no claim, whatever the left operand is
                IF op \in {"<<", ">>"} /\ (y.d # "ok" \/ y.v < 0 \/ y.v > 31) THEN UB
                \* a zero divisor: no value, whatever the dividend is
                ELSE IF op \in {"/", "%"} /\ y.d = "ok" /\ y.v = 0 THEN (IF x.d = "ub" THEN UB ELSE Div0)
                ELSE IF x.d # "ok" \/ y.d # "ok" THEN Worst(x, y)
                ELSE IF (IF op \in {"<<", ">>"} THEN ux ELSE ux \/ uy)
                       THEN UnsBin(op, x.v, y.v) ELSE IntBin(op, x.v, y.v)

UnR(op, x, ux) ==
  IF x.d # "ok" THEN x
  ELSE IF ux /\ op \in {"-", "~"} THEN (IF op = "-" /\ x.v = 0 THEN x ELSE Uns)   \* 2^32 - x, 2^32 - 1 - x
  ELSE IF op = "-" /\ Neg(x.v).d = "ub" THEN Ovf
  ELSE Un(op, x.v)
CastR(ty, x) == IF x.d = "ok" THEN Cast(ty, x.v) ELSE x
\* the type of ?: is the common type of BOTH branches: a negative value selected next to an unsigned branch
CondR(c, x, y, ux, uy) ==
  IF c.d # "ok" THEN c
  ELSE LET r == IF c.v # 0 THEN x ELSE y IN
       IF r.d = "ok" /\ (ux \/ uy) /\ r.v < 0 THEN Uns ELSE r

RECURSIVE Ev(_)
Ev(t) ==
  CASE t[1] = "lit"  -> Ok(t[2])
    [] t[1] = "ulit" -> Ok(t[2])
    [] t[1] = "big"  -> Big
    [] t[1] = "un"   -> UnR(t[2], Ev(t[3]), Typ(t[3]))
    [] t[1] = "cast" -> CastR(t[2], Ev(t[3]))
    [] t[1] = "bin"  -> BinR(t[2], Ev(t[3]), Ev(t[4]), Typ(t[3]), Typ(t[4]))
    [] t[1] = "cond" -> CondR(Ev(t[2]), Ev(t[3]), Ev(t[4]), Typ(t[3]), Typ(t[4]))

Defined(t) == Ev(t).d = "ok"
Eval(t) == Ev(t).v

---------------------------------------------------------------------------
(* Part 2: tokens are strings, a literal leaf is the decimal spelling of its value (the
   renderer in vf substitutes other spellings of the same value, see NumLex).
   C++ precedence (larger binds tighter), all binary operators associate to the
   left, ?: and the unary operators to the right. *)
Prec(op) ==
  CASE op \in {"*", "/", "%"} -> 13
    [] op \in {"+", "-"} -> 12
    [] op \in {"<<", ">>"} -> 11
    [] op \in {"<", ">", "<=", ">="} -> 9
    [] op \in {"==", "!="} -> 8
    [] op = "&" -> 7
    [] op = "^" -> 6
    [] op = "|" -> 5
    [] op = "&&" -> 4
    [] op = "||" -> 3
PCond == 2
PUnary == 15
PPrimary == 17

\* precedence of the root of a tree; a negative literal is spelled as unary minus
TPrec(t) ==
  CASE t[1] = "lit"  -> IF t[2] < 0 THEN PUnary ELSE PPrimary
    [] t[1] \in {"ulit", "big"} -> PPrimary
    [] t[1] = "un"   -> PUnary
    [] t[1] = "cast" -> PUnary
    [] t[1] = "bin"  -> Prec(t[2])
    [] t[1] = "cond" -> PCond

Par(s) == <<"(">> \o s \o <<")">>

RECURSIVE Toks(_)
\* token sequence with the fewest parentheses that still parses back to t
Toks(t) ==
  LET Opd(c, min) == IF TPrec(c) < min THEN Par(Toks(c)) ELSE Toks(c) IN
  CASE t[1] = "lit"  -> <<ToString(t[2])>>
    [] t[1] = "ulit" -> <<ToString(t[2]) \o "u">>
    [] t[1] = "big"  -> <<t[2]>>
    [] t[1] = "un"   -> <<t[2]>> \o Opd(t[3], PUnary)
    [] t[1] = "cast" -> <<"(", t[2], ")">> \o Opd(t[3], PUnary)
    [] t[1] = "bin"  -> Opd(t[3], Prec(t[2])) \o <<t[2]>> \o Opd(t[4], Prec(t[2]) + 1)
    \* logical-or-expression ? expression : assignment-expression
    [] t[1] = "cond" -> Opd(t[2], PCond + 1) \o <<"?">> \o Toks(t[3]) \o <<":">> \o Opd(t[4], PCond)

RECURSIVE FullToks(_)
FullToks(t) ==
  CASE t[1] = "lit"  -> IF t[2] < 0 THEN Par(<<ToString(t[2])>>) ELSE <<ToString(t[2])>>
    [] t[1] = "ulit" -> <<ToString(t[2]) \o "u">>
    [] t[1] = "big"  -> <<t[2]>>
    [] t[1] = "un"   -> Par(<<t[2]>> \o FullToks(t[3]))
    [] t[1] = "cast" -> Par(<<"(", t[2], ")">> \o FullToks(t[3]))
    [] t[1] = "bin"  -> Par(FullToks(t[3]) \o <<t[2]>> \o FullToks(t[4]))
    [] t[1] = "cond" -> Par(FullToks(t[2]) \o <<"?">> \o FullToks(t[3]) \o <<":">> \o FullToks(t[4]))

=============================================================================
