SPECIFICATION TSpec
CONSTANTS
  Cats1 = {}
  MaxOver1 = 0
  Cats2 = {}
  MaxOver2 = 0
  Time = {1}
  Locales = {"C"}
  EnvSizes = {0}
  PwdValues = {"real", "link"}
  CwdVia = {"real", "link"}
  OcNames = {"rel"}
  CwdSource = "getcwd"
  EpochEnvs = {"unset", "0", "normal"}
  ZeroMeansUnset = FALSE
  PrevFiles = {"none", "longer"}
  Truncates = TRUE
  InputVariants = {"plain"}
  TZs = {"UTC0"}
  AslrBases = {1}
  DateMacros = "undefined"
  PrintsPointer = FALSE
  TieBreak = "signature"
INVARIANT OneOrderPerContent
CHECK_DEADLOCK TRUE
