SPECIFICATION TSpec
CONSTANTS
  Cats1 = {}
  MaxOver1 = 0
  Cats2 = {}
  MaxOver2 = 0
  Time = {1}
  Locales = {"C"}
  EnvSizes = {0}
  TieBreak = "signature"
INVARIANT OneOrderPerContent
CHECK_DEADLOCK TRUE
