--------------------------- MODULE CommentAttachMC ---------------------------
EXTENDS CommentAttach, Json, CSV, IOUtils
AllKinds == {"cpp", "c", "blank", "decl", "cdecl"}
EnumKinds == {"cpp", "c", "blank", "decl", "cdecl", "declt"}
DumpFile == IF "VERIF_DUMP" \in DOMAIN IOEnv THEN IOEnv.VERIF_DUMP ELSE ""
DumpConstraint ==
  IF done /\ DumpFile # "" /\ DeclLines # {}
    THEN CSVWrite("%1$s", <<ToJson([lines |-> lines, attach |-> [i \in 1..N |-> IF IsDecl(lines[i]) THEN RefAttach(i) ELSE {}]])>>, DumpFile)
    ELSE TRUE
=============================================================================
