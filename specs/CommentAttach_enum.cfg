SPECIFICATION Spec
CONSTANTS
  MaxLen = 4
  Kinds <- EnumKinds
  SameLineConsumes = TRUE
INVARIANT RefNoSharing
CONSTRAINT DumpConstraint
CHECK_DEADLOCK FALSE
