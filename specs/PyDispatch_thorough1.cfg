SPECIFICATION Spec
CONSTANTS
  MaxOverloads = 3
  MaxParams = 1
  ParamCats <- Cats1
  IntVals <- AllIntVals
  IntVals2 <- FewIntVals
  ArgKinds <- AllArgKinds
  Kinds = {"method"}
  NameModes <- AltNames
  ConstMethods = TRUE
  Fixed <- NoFix
INVARIANT RefinesAndTies
CONSTRAINT DumpConstraint
CHECK_DEADLOCK FALSE
