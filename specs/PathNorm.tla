------------------------------ MODULE PathNorm ------------------------------
(***************************************************************************)
(* Path normalisation (property C17: "path normalisation is idempotent and *)
(* never changes which file a path denotes").                              *)
(*                                                                         *)
(* A path is [abs, comps]: `comps` a sequence of 1..MaxLen components from *)
(* {"a", "b", ".", "..", ""}; its text is ("/" if abs) + comps joined by   *)
(* "/", so "" components give repeated and trailing slashes.               *)
(*                                                                         *)
(* MECHANISM.  Std = Filename::standardize() transcribed from filename.cxx *)
(* (skip slashes; drop "." except as the very first character of a         *)
(* relative path; ".." pops the previous component unless there is none or *)
(* it is ".."; ".." after a leading "." replaces it).  MakeAbs =           *)
(* Filename::make_absolute() = standardize(cwd + "/" + path).              *)
(* The constant EmptyBecomesDot documents a deviation that is being        *)
(* repaired (c17-fix-1): in the code before the fix a relative path whose  *)
(* components all cancel ("a/..") standardizes to the EMPTY string, which  *)
(* names nothing; the registered configuration (TRUE) is the intended "."  *)
(*                                                                         *)
(* REFERENCE.  A small file system: directories R (the root), R/a, R/a/a,  *)
(* R/a/b and one symbolic link R/b -> a/b; the working directory is R/a.   *)
(* Resolve walks a path the way the kernel does (".." is the physical      *)
(* parent, a symbolic link is followed).  Canon = what realpath() returns  *)
(* = the physical path of the node, which is the contract of               *)
(* Filename::make_canonical().                                             *)
(*                                                                         *)
(* PROPERTIES (for every path within the bound)                            *)
(*   Idempotent      Std(Std(p)) = Std(p), and the result is a name        *)
(*   SameDenotation  p denotes a node and its walk crosses no symbolic     *)
(*                   link  =>  Std(p) denotes the same node  (the lexical  *)
(*                   ".." collapse is only claimed on symlink-free paths)  *)
(*   AbsSame         the same for MakeAbs, whose result is absolute        *)
(*   CanonSame       p denotes a node => Canon(p) denotes the same node    *)
(*                   (all paths, symbolic links included)                  *)
(*   CanonIdem       Canon(Canon(p)) = Canon(p)                            *)
(*   CanonNoLink     the canonical name crosses no symbolic link           *)
(*   (that two paths denoting one node have ONE canonical name - what      *)
(*   once-only inclusion relies on - holds by construction here, Canon     *)
(*   being a function of the node; on the real class it is checked by the  *)
(*   binding: equal inode => equal make_canonical() string)                *)
(***************************************************************************)
EXTENDS Naturals, Sequences, TLC

CONSTANTS MaxLen, EmptyBecomesDot

Alphabet == {"a", "b", ".", "..", ""}

VARIABLES abs, comps
vars == <<abs, comps>>

RECURSIVE SeqsUpTo(_)
SeqsUpTo(n) == IF n = 0 THEN {<<>>} ELSE LET S == SeqsUpTo(n - 1) IN S \cup {Append(s, c) : s \in S, c \in Alphabet}

\* a relative path whose text would begin with "/" is the absolute path of the same text; "" is not a path
WellFormed(a, cs) == cs # <<>> /\ (a \/ cs[1] # "")

RECURSIVE Join(_)
Join(cs) == IF cs = <<>> THEN "" ELSE IF Len(cs) = 1 THEN cs[1] ELSE cs[1] \o "/" \o Join(Tail(cs))
Text(a, cs) == (IF a THEN "/" ELSE "") \o Join(cs)

Front(s) == SubSeq(s, 1, Len(s) - 1)
Last(s) == s[Len(s)]

---------------------------------------------------------------------------
(* Filename::standardize().  `first` = the component starts at string index 0 (p == 0). *)
RECURSIVE StdFold(_, _, _)
StdFold(acc, cs, first) ==
  IF cs = <<>> THEN acc
  ELSE LET c == cs[1] IN
    IF c = "" THEN StdFold(acc, Tail(cs), first)                       \* slashes are skipped
    ELSE IF c = "." /\ ~first THEN StdFold(acc, Tail(cs), FALSE)       \* "Ignore ."
    ELSE IF c = ".." /\ acc # <<>> /\ Last(acc) # ".."
      THEN IF Last(acc) = "."
             THEN StdFold(Append(Front(acc), ".."), Tail(cs), FALSE)   \* back up over a leading .
             ELSE StdFold(Front(acc), Tail(cs), FALSE)                 \* back up normally
    ELSE StdFold(Append(acc, c), Tail(cs), FALSE)

StdComps(a, cs) ==
  LET r == StdFold(<<>>, cs, ~a) IN
    IF r = <<>> /\ ~a /\ EmptyBecomesDot THEN <<".">> ELSE r
\* the result as a path; its text may be "" (names nothing) when EmptyBecomesDot = FALSE
StdText(a, cs) == Text(a, StdComps(a, cs))

CwdComps == <<"a">>                       \* the working directory is /a
MakeAbsComps(a, cs) == IF a THEN StdComps(TRUE, cs) ELSE StdComps(TRUE, CwdComps \o cs)

---------------------------------------------------------------------------
(* The file system.  Nodes are named by their physical path. *)
Nodes == {"/", "/a", "/a/a", "/a/b"}
Parent(n) == CASE n = "/" -> "OUT" [] n = "/a" -> "/" [] n = "/a/a" -> "/a" [] n = "/a/b" -> "/a"
\* directory entries; the entry "b" of the root is the symbolic link -> a/b
Child(n, c) ==
  CASE n = "/" /\ c = "a" -> "/a"
    [] n = "/" /\ c = "b" -> "/a/b"
    [] n = "/a" /\ c = "a" -> "/a/a"
    [] n = "/a" /\ c = "b" -> "/a/b"
    [] OTHER -> "NONE"
IsLink(n, c) == n = "/" /\ c = "b"

\* walk: <<node, crossed a symbolic link>>; "NONE" (no such file) and "OUT" (above the modelled root) absorb
RECURSIVE Walk(_, _, _)
Walk(n, cs, link) ==
  IF cs = <<>> \/ n \in {"NONE", "OUT"} THEN <<n, link>>
  ELSE LET c == cs[1] IN
    IF c \in {"", "."} THEN Walk(n, Tail(cs), link)
    ELSE IF c = ".." THEN Walk(Parent(n), Tail(cs), link)
    ELSE Walk(Child(n, c), Tail(cs), link \/ IsLink(n, c))

Start(a) == IF a THEN "/" ELSE "/a"
Resolve(a, cs) == IF cs = <<>> THEN "NONE" ELSE Walk(Start(a), cs, FALSE)[1]     \* the empty text names nothing
CrossesLink(a, cs) == Walk(Start(a), cs, FALSE)[2]
Denotes(a, cs) == Resolve(a, cs) \in Nodes

\* realpath(): the physical path of the node, as components
CanonComps(n) == CASE n = "/" -> <<"">> [] n = "/a" -> <<"a">> [] n = "/a/a" -> <<"a", "a">> [] n = "/a/b" -> <<"a", "b">>
Canon(a, cs) == Resolve(a, cs)            \* node names ARE physical paths

---------------------------------------------------------------------------
Init == /\ abs \in BOOLEAN
        /\ comps \in SeqsUpTo(MaxLen)
        /\ WellFormed(abs, comps)
Next == UNCHANGED vars
Spec == Init /\ [][Next]_vars

S == StdComps(abs, comps)
Idempotent ==
  /\ S # <<>> \/ abs                                    \* the result is a name, not the empty string
  /\ S # <<>> => StdComps(abs, S) = S
  /\ abs => (S = <<>> \/ S[1] # "")                     \* stays absolute, no doubled slash
  /\ \A i \in 1..Len(S) : S[i] # ""

SameDenotation ==
  (Denotes(abs, comps) /\ ~CrossesLink(abs, comps)) =>
     Resolve(abs, IF abs /\ S = <<>> THEN <<"">> ELSE S) = Resolve(abs, comps)

A == MakeAbsComps(abs, comps)
AbsSame ==
  /\ (Denotes(abs, comps) /\ ~CrossesLink(abs, comps)) =>
       Resolve(TRUE, IF A = <<>> THEN <<"">> ELSE A) = Resolve(abs, comps)
  /\ StdComps(TRUE, A) = A

CanonSame == Denotes(abs, comps) => Resolve(TRUE, CanonComps(Canon(abs, comps))) = Resolve(abs, comps)
CanonIdem == Denotes(abs, comps) => Canon(TRUE, CanonComps(Canon(abs, comps))) = Canon(abs, comps)
CanonNoLink == Denotes(abs, comps) => ~CrossesLink(TRUE, CanonComps(Canon(abs, comps)))
=============================================================================
