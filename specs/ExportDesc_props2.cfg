SPECIFICATION Spec
CONSTANTS
  ElemIgnore = TRUE
  Shape <- PropShape
  MinVisSet <- PubOnly
  File2Srcs <- None
  ClassHeads <- RoleHeads
  NestedKeys <- None
  MemberAlpha <- Prop2Members
  MaxMembers <- M20
  MaxClasses = 2
  BaseAlpha <- None
  MaxBases = 1
  ClassComments <- NoComment
  TopAlpha <- None
  MaxTops = 0
  AliasAlpha <- None
  MaxAliases = 0
  NestedLike = FALSE
  CmdKinds <- None
INVARIANT OneOwner
INVARIANT RefsBackward
INVARIANT VisIsFunction
INVARIANT DescFunctional
INVARIANT Sound
INVARIANT Complete
CONSTRAINT DumpConstraint
CHECK_DEADLOCK FALSE
