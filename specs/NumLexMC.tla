----------------------------- MODULE NumLexMC -----------------------------
(* Model-checking wrapper of NumLex: every complete literal leaves TLC as
   [cs = character codes, v = value, k = "int" | "chr", b = base, s = suffix]. *)
EXTENDS NumLex, Json, CSV, IOUtils

DumpFile == IF "VERIF_DUMP" \in DOMAIN IOEnv THEN IOEnv.VERIF_DUMP ELSE ""

DumpConstraint ==
  IF DumpFile # "" /\ Accepting
    THEN CSVWrite("%1$s", <<ToJson([cs |-> [i \in 1..Len(text) |-> Code[text[i]]], v |-> val,
                                     k |-> IF mode = "cdone" THEN "chr" ELSE "int",
                                     b |-> base, s |-> suf])>>, DumpFile)
    ELSE TRUE
=============================================================================
