----------------------------- MODULE NumLexMC -----------------------------
(* Model-checking wrapper of NumLex: every complete literal leaves TLC as
   [cs = character codes, v = value, k = "int" | "chr", b = base, s = suffix, p = encoding prefix]. *)
EXTENDS NumLex, Json, CSV, IOUtils

\* alphabets (defined here: a cfg file does not read "\\" as one backslash)
CharsQuick == {"0", "1", "3", "7", "9", "a", "F", "x", "b", "'", "\\", "u", "U", "8", "l", "L", "n"}
CharsThorough == {"0", "1", "2", "3", "7", "8", "9", "a", "f", "A", "F", "x", "X", "b", "B", "'", "\\", "u", "U", "l", "L",
                  "n", "t", "?", " "}

DumpFile == IF "VERIF_DUMP" \in DOMAIN IOEnv THEN IOEnv.VERIF_DUMP ELSE ""

DumpConstraint ==
  IF DumpFile # "" /\ Accepting
    THEN CSVWrite("%1$s", <<ToJson([cs |-> [i \in 1..Len(text) |-> Code[text[i]]], v |-> val,
                                     k |-> IF mode = "cdone" THEN "chr" ELSE "int",
                                     b |-> base, s |-> suf, p |-> pfx])>>, DumpFile)
    ELSE TRUE
=============================================================================
