----------------------------- MODULE IdbHashMC -----------------------------
(* Bounds and the dump replayed by vf/checks/c11.py: every sequence of signature classes with the
   names the mechanism assigns; the check realises the classes with concrete signatures that collide
   in exactly these hashes and compares with the names interrogate gives its wrappers. *)
EXTENDS IdbHash, Json, CSV, IOUtils
DumpFile == IF "VERIF_DUMP" \in DOMAIN IOEnv THEN IOEnv.VERIF_DUMP ELSE ""
\* hash values are interchangeable labels: the first signature is (first H1, first H2)
Canon == sigs = <<>> \/ (sigs[1].h1 = 0 /\ sigs[1].h2 = 0)
DumpConstraint ==
  /\ Canon
  /\ IF DumpFile # "" /\ Len(sigs) >= 2
       THEN CSVWrite("%1$s", <<ToJson([cls |-> [i \in DOMAIN sigs |-> <<sigs[i].h1, sigs[i].h2>>], names |-> nameOf])>>, DumpFile)
       ELSE TRUE
=============================================================================
