SPECIFICATION Spec
CONSTANTS
  Tools = {"interrogate", "interrogate_module", "parse_file"}
  MaxFiles = 3
  MaxWrites = 3
  FaultOps = {}
  CheckAfterWriter = TRUE
INVARIANT TypeOK
INVARIANT C19_FaultReported
INVARIANT C19_CleanRunSucceeds
INVARIANT C15_NoSignal
INVARIANT C15_ErrorMeansFailure
INVARIANT C15_OkIffNoErrors
INVARIANT C15_NoOutputBeforeParseEnd
INVARIANT C15_ExitStatusOrdinary
INVARIANT C15_StatusIsExit
INVARIANT ClosedAtExit
PROPERTY Terminates
CHECK_DEADLOCK FALSE
