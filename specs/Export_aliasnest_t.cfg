SPECIFICATION Spec
CONSTANTS
  ElemIgnore = TRUE
  Shape <- AliasNestShape
  MinVisSet <- Both
  File2Srcs <- None
  ClassHeads <- AliasHeads
  NestedKeys <- NestCS
  MemberAlpha <- ANMembers
  MaxMembers <- M31
  MaxClasses = 2
  BaseAlpha <- None
  MaxBases = 1
  ClassComments <- NoComment
  TopAlpha <- AliasTops
  MaxTops = 0
  AliasAlpha <- AliasForms
  MaxAliases = 1
  NestedLike = FALSE
  CmdKinds <- IgnInv
INVARIANT SafeVis
INVARIANT SafeAccess
INVARIANT SafeKind
INVARIANT SafeFile
INVARIANT SafeSig
INVARIANT SafeOwner
INVARIANT SafeForeign
INVARIANT Consistent
INVARIANT Sound
INVARIANT Complete
INVARIANT Bounded
INVARIANT OneOwner
INVARIANT RefsBackward
INVARIANT VisIsFunction
CONSTRAINT DumpConstraint
CHECK_DEADLOCK FALSE
