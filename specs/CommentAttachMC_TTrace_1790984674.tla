---- MODULE CommentAttachMC_TTrace_1790984674 ----
EXTENDS Sequences, TLCExt, Toolbox, Naturals, TLC, CommentAttachMC

_expression ==
    LET CommentAttachMC_TEExpression == INSTANCE CommentAttachMC_TEExpression
    IN CommentAttachMC_TEExpression!expression
----

_trace ==
    LET CommentAttachMC_TETrace == INSTANCE CommentAttachMC_TETrace
    IN CommentAttachMC_TETrace!trace
----

_inv ==
    ~(
        TLCGet("level") = Len(_TETrace)
        /\
        att = (<<1, 1>>)
        /\
        blocks = (<<[last |-> 1, first |-> 1, cpp |-> FALSE, code |-> TRUE]>>)
        /\
        lines = (<<"cdecl", "decl">>)
        /\
        lastcpp = (FALSE)
        /\
        done = (FALSE)
    )
----

_init ==
    /\ done = _TETrace[1].done
    /\ att = _TETrace[1].att
    /\ lines = _TETrace[1].lines
    /\ lastcpp = _TETrace[1].lastcpp
    /\ blocks = _TETrace[1].blocks
----

_next ==
    /\ \E i,j \in DOMAIN _TETrace:
        /\ \/ /\ j = i + 1
              /\ i = TLCGet("level")
        /\ done  = _TETrace[i].done
        /\ done' = _TETrace[j].done
        /\ att  = _TETrace[i].att
        /\ att' = _TETrace[j].att
        /\ lines  = _TETrace[i].lines
        /\ lines' = _TETrace[j].lines
        /\ lastcpp  = _TETrace[i].lastcpp
        /\ lastcpp' = _TETrace[j].lastcpp
        /\ blocks  = _TETrace[i].blocks
        /\ blocks' = _TETrace[j].blocks

\* Uncomment the ASSUME below to write the states of the error trace
\* to the given file in Json format. Note that you can pass any tuple
\* to `JsonSerialize`. For example, a sub-sequence of _TETrace.
    \* ASSUME
    \*     LET J == INSTANCE Json
    \*         IN J!JsonSerialize("CommentAttachMC_TTrace_1790984674.json", _TETrace)

=============================================================================

 Note that you can extract this module `CommentAttachMC_TEExpression`
  to a dedicated file to reuse `expression` (the module in the 
  dedicated `CommentAttachMC_TEExpression.tla` file takes precedence 
  over the module `CommentAttachMC_TEExpression` below).

---- MODULE CommentAttachMC_TEExpression ----
EXTENDS Sequences, TLCExt, Toolbox, Naturals, TLC, CommentAttachMC

expression == 
    [
        \* To hide variables of the `CommentAttachMC` spec from the error trace,
        \* remove the variables below.  The trace will be written in the order
        \* of the fields of this record.
        done |-> done
        ,att |-> att
        ,lines |-> lines
        ,lastcpp |-> lastcpp
        ,blocks |-> blocks
        
        \* Put additional constant-, state-, and action-level expressions here:
        \* ,_stateNumber |-> _TEPosition
        \* ,_doneUnchanged |-> done = done'
        
        \* Format the `done` variable as Json value.
        \* ,_doneJson |->
        \*     LET J == INSTANCE Json
        \*     IN J!ToJson(done)
        
        \* Lastly, you may build expressions over arbitrary sets of states by
        \* leveraging the _TETrace operator.  For example, this is how to
        \* count the number of times a spec variable changed up to the current
        \* state in the trace.
        \* ,_doneModCount |->
        \*     LET F[s \in DOMAIN _TETrace] ==
        \*         IF s = 1 THEN 0
        \*         ELSE IF _TETrace[s].done # _TETrace[s-1].done
        \*             THEN 1 + F[s-1] ELSE F[s-1]
        \*     IN F[_TEPosition - 1]
    ]

=============================================================================



Parsing and semantic processing can take forever if the trace below is long.
 In this case, it is advised to uncomment the module below to deserialize the
 trace from a generated binary file.

\*
\*---- MODULE CommentAttachMC_TETrace ----
\*EXTENDS IOUtils, TLC, CommentAttachMC
\*
\*trace == IODeserialize("CommentAttachMC_TTrace_1790984674.bin", TRUE)
\*
\*=============================================================================
\*

---- MODULE CommentAttachMC_TETrace ----
EXTENDS TLC, CommentAttachMC

trace == 
    <<
    ([att |-> <<>>,blocks |-> <<>>,lines |-> <<>>,lastcpp |-> FALSE,done |-> FALSE]),
    ([att |-> <<1>>,blocks |-> <<[last |-> 1, first |-> 1, cpp |-> FALSE, code |-> TRUE]>>,lines |-> <<"cdecl">>,lastcpp |-> FALSE,done |-> FALSE]),
    ([att |-> <<1, 1>>,blocks |-> <<[last |-> 1, first |-> 1, cpp |-> FALSE, code |-> TRUE]>>,lines |-> <<"cdecl", "decl">>,lastcpp |-> FALSE,done |-> FALSE])
    >>
----


=============================================================================

---- CONFIG CommentAttachMC_TTrace_1790984674 ----
CONSTANTS
    MaxLen = 5
    Kinds <- AllKinds
    SameLineConsumes = FALSE

INVARIANT
    _inv

CHECK_DEADLOCK
    \* CHECK_DEADLOCK off because of PROPERTY or INVARIANT above.
    FALSE

INIT
    _init

NEXT
    _next

CONSTANT
    _TETrace <- _trace

ALIAS
    _expression
=============================================================================
\* Generated on Fri Oct 02 23:44:35 UTC 2026