---------------------------- MODULE IdbBuildTrace ----------------------------
(***************************************************************************)
(* Trace validation of the builder side of the database: the events the    *)
(* H-idbbuild hooks record in a real `interrogate` run (NextIndex, AddType, *)
(* AddFunction, AddWrapper, AddManifest, AddElement, AddMakeSeq,            *)
(* UpdateType, UpdateFunction, UpdateElement, Implicit, RemoveType, Remap,  *)
(* BuildDone) drive the actions of IdbBuild; its invariants and action      *)
(* properties are checked after every observed step.  Every Add/Update      *)
(* event carries the index-valued fields of the record as they are in the   *)
(* database at that moment.  The driver concatenates executions with        *)
(* {"e":"Reset"} and appends, after each execution, a Dump record: the      *)
(* database file interrogate wrote, loaded by libinterrogatedb and dumped   *)
(* BY RAW INDEX.  At a Dump the spec's state (after its own Remap) must be  *)
(* that database, index by index and field by field (DumpAgrees): a hook    *)
(* that lies, a mutation without a hook and a remap_indices that forgets a  *)
(* field are all caught there.                                              *)
(* A trace that cannot be consumed deadlocks (the hooks disagree with the   *)
(* model about what is in the database: the `ins` flag of an Add, the       *)
(* `next` of a Remap).                                                      *)
(***************************************************************************)
EXTENDS IdbBuild, Json, IOUtils

Tr == ndJsonDeserialize(IOEnv.VERIF_TRACE)
N == Len(Tr)

VARIABLES l, diff
tvars == <<vars, l, diff>>

IsE(i, e) == i <= N /\ Tr[i].e = e

AddKind == [AddType |-> "t", AddFunction |-> "f", AddWrapper |-> "w", AddManifest |-> "m",
            AddElement |-> "e", AddMakeSeq |-> "s"]
UpdKind == [UpdateType |-> "t", UpdateFunction |-> "f", UpdateElement |-> "e"]
Mine == DOMAIN AddKind \cup DOMAIN UpdKind \cup {"NextIndex", "Implicit", "RemoveType", "Remap", "BuildDone", "Reset", "Dump"}

RecOf(k, ev) == [k |-> k, fd |-> ev.fd = 1, gl |-> ev.gl = 1, r |-> ev.r]

TInit == Init /\ l = 1 /\ diff = {}

TReset ==
  /\ IsE(l, "Reset")
  /\ db' = EmptyDB /\ next' = 1 /\ alloc' = {} /\ removed' = {} /\ everfd' = {} /\ implicit' = {}
  /\ phase' = "build" /\ remapped' = FALSE /\ act' = "Reset" /\ arg' = 0
  /\ diff' = {} /\ l' = l + 1

TNextIndex ==
  /\ IsE(l, "NextIndex")
  /\ NextIndex(Tr[l].i)
  /\ UNCHANGED diff /\ l' = l + 1

TAdd ==
  /\ l <= N /\ Tr[l].e \in DOMAIN AddKind
  /\ Tr[l].ins = (IF Tr[l].i \in Present THEN 0 ELSE 1)        \* the implementation's map agrees
  /\ Add(Tr[l].i, RecOf(AddKind[Tr[l].e], Tr[l]))
  /\ UNCHANGED diff /\ l' = l + 1

TUpdate ==
  /\ l <= N /\ Tr[l].e \in DOMAIN UpdKind
  /\ Update(Tr[l].i, RecOf(UpdKind[Tr[l].e], Tr[l]))
  /\ UNCHANGED diff /\ l' = l + 1

TImplicit ==
  /\ IsE(l, "Implicit")
  /\ Tr[l].i \notin Present                                       \* the implementation's map agrees
  /\ Implicit(Tr[l].k, Tr[l].i)
  /\ UNCHANGED diff /\ l' = l + 1

TRemove ==
  /\ IsE(l, "RemoveType")
  /\ Remove(Tr[l].i)
  /\ UNCHANGED diff /\ l' = l + 1

TRemap ==
  /\ IsE(l, "Remap")
  /\ Remap(1)
  /\ Tr[l].next = next' /\ Tr[l].nw = Cardinality(OfKind("w"))
  /\ Tr[l].wfirst = (IF OfKind("w") = {} THEN 0 ELSE 1)
  /\ UNCHANGED diff /\ l' = l + 1

TDone ==
  /\ IsE(l, "BuildDone")
  /\ Done
  /\ UNCHANGED diff /\ l' = l + 1

\* the written database, by raw index
\* (libinterrogatedb renumbers a file on load with the same remap_indices(1); on a database that went
\* through Remap this is the identity)
Row(d, i) == [i |-> i, k |-> d[i].k, fd |-> d[i].fd, gl |-> d[i].gl, r |-> d[i].r]
RowOfJson(x) == [i |-> x.i, k |-> x.k, fd |-> x.fd = 1, gl |-> x.gl = 1, r |-> x.r]
TDump ==
  /\ IsE(l, "Dump") /\ phase = "done"
  /\ LET d == RemapDB(1)
         mine == {Row(d, i) : i \in DOMAIN d}
         file == {RowOfJson(Tr[l].recs[n]) : n \in DOMAIN Tr[l].recs} IN
     diff' = (mine \ file) \cup (file \ mine)
  /\ UNCHANGED vars /\ l' = l + 1

TForeign ==
  /\ l <= N /\ Tr[l].e \notin Mine
  /\ UNCHANGED <<vars, diff>> /\ l' = l + 1

TEnd == l = N + 1 /\ UNCHANGED tvars

TNext == TReset \/ TNextIndex \/ TAdd \/ TUpdate \/ TImplicit \/ TRemove \/ TRemap \/ TDone \/ TDump
         \/ TForeign \/ TEnd

TSpec == TInit /\ [][TNext]_tvars

\* the database interrogate wrote is the database the events describe
DumpAgrees == diff = {}
=============================================================================
