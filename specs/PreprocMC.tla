----------------------------- MODULE PreprocMC -----------------------------
(* Model-checking wrapper of Preproc: the dump of every complete behaviour (program + the reference
   result the spec carries), replayed into parse_file and gcc by vf/checks/_preproc.py; a simulation
   specification for programs beyond the exhaustive bounds. *)
EXTENDS Preproc, Json, CSV, IOUtils, Randomization

CONSTANT MinDump     \* dump complete programs with at least this many logical lines

Code(l) == l.k \o ":" \o l.x \o ":" \o l.v \o ":" \o l.sh
DumpFile == IF "VERIF_DUMP" \in DOMAIN IOEnv THEN IOEnv.VERIF_DUMP ELSE ""

FileCode(f) == [i \in 1..Len(files[f]) |-> Code(files[f][i])]

DumpConstraint ==
  IF DumpFile # "" /\ done /\ Total >= MinDump /\ (exists # {} \/ hits # {})
    THEN CSVWrite("%1$s", <<ToJson([main |-> FileCode("main"),
                                     h1 |-> IF "h1" \in exists THEN FileCode("h1") ELSE <<>>,
                                     h2 |-> IF "h2" \in exists THEN FileCode("h2") ELSE <<>>,
                                     ex |-> exists, o |-> out, d |-> defs, once |-> once,
                                     hits |-> hits, k |-> LineK])>>, DumpFile)
    ELSE TRUE

\* random walks over the whole alphabet; a file being written ends early with probability 1/8 per line
\* (otherwise an EOF is one successor in a hundred and every file would be filled to its bound)
CanEOF == ~done /\ Top.wr /\ Len(Top.cs) = 0
SimNext == IF CanEOF /\ RandomElement(1..8) = 1
             THEN EOF
             ELSE (\E l \in Lines : Write(l)) \/ Replay \/ EOF
SimSpec == Init /\ [][SimNext]_vars
=============================================================================
