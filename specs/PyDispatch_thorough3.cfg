SPECIFICATION Spec
CONSTANTS
  MaxOverloads = 3
  MaxParams = 2
  ParamCats <- Cats6
  IntVals <- FewIntVals
  IntVals2 <- TinyIntVals
  ArgKinds <- PairArgKinds
  Kinds = {"static"}
  NameModes <- AltNames
  ConstMethods = FALSE
  Fixed <- NoFix
INVARIANT RefinesAndTies
CONSTRAINT DumpConstraint
CHECK_DEADLOCK FALSE
