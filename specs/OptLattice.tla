----------------------------- MODULE OptLattice -----------------------------
(***************************************************************************)
(* The configuration lattice of property C03 and a covering set of it.     *)
(*                                                                         *)
(* A (cfg, features) point assigns a value to every FACTOR:                *)
(*   options of interrogate   back-end {-c, -python, -python-native},      *)
(*                            naming {-fnames, -fptrs, none}, -string,     *)
(*                            -true-names, -unique-names, -nodb,           *)
(*                            -do-module, -promiscuous, -nomangle,         *)
(*                            -assert, one or two libraries per module     *)
(*   construct features of    keywords of other languages as names,        *)
(*   the generated library    operator functions, string/char defaults     *)
(*                            with quotes and backslashes, macro           *)
(*                            constants, nested/qualified types, enum      *)
(*                            defaults, std::string parameters, conversion *)
(*                            operators to / values of namespaced, nested, *)
(*                            typedef'd, enum and pointer types (types     *)
(*                            printed inside wrapper BODIES: casts,        *)
(*                            temporaries, return-value wrapping, new T)   *)
(*                            class hierarchies (virtual base in first /   *)
(*                            second position, diamond, protected and      *)
(*                            private bases: up- and downcast functions)   *)
(* Valid(row) is the tool's own exclusion (interrogate.cxx refuses -fnames *)
(* with -true-names), the documented one (-do-module "prohibits grouping   *)
(* several libraries together into a single module") and the one           *)
(* combination that needs a class from outside the inputs.                 *)
(*                                                                         *)
(* The product has 3*3*3*3*2^17 = 10 616 832 points.  The behaviour of this    *)
(* spec is a COVERING ARRAY of strength T (2 = pairwise): every step adds  *)
(* one valid row that covers at least one still uncovered T-tuple of       *)
(* (factor, value) pairs (seeded with such a tuple, the other factors      *)
(* chosen greedily by the number of uncovered tuples they complete), until *)
(* no valid T-tuple is uncovered.  Each reachable state carries one row;   *)
(* the rows are dumped and vf/checks/c03.py builds, compiles, links and    *)
(* imports one generated library set per row.                              *)
(***************************************************************************)
EXTENDS Naturals, Sequences, FiniteSets, FiniteSetsExt, TLC

CONSTANTS T,         \* strength of the covering array
          MaxRows,   \* safety bound (never reached: termination is proved by running)
          Variants   \* one covering array is built per variant (they differ in how ties are broken)

Factors == << [n |-> "backend",      v |-> 3],   \* 1 -c, 2 -python, 3 -python-native
              [n |-> "naming",       v |-> 3],   \* 1 -fnames, 2 -fptrs, 3 neither
              [n |-> "string",       v |-> 2],   \* 1 off, 2 on (all two-valued factors)
              [n |-> "true_names",   v |-> 2],
              [n |-> "unique_names", v |-> 2],
              [n |-> "nodb",         v |-> 2],
              [n |-> "do_module",    v |-> 2],
              [n |-> "promiscuous",  v |-> 2],
              [n |-> "nomangle",     v |-> 2],
              [n |-> "assert",       v |-> 2],
              [n |-> "libraries",    v |-> 3],   \* 1, 2 or 3 libraries in the module
              [n |-> "f_keywords",   v |-> 2],
              [n |-> "f_operators",  v |-> 2],
              [n |-> "f_strdefault", v |-> 2],
              [n |-> "f_macros",     v |-> 2],
              [n |-> "f_nested",     v |-> 2],
              [n |-> "f_enumdefault", v |-> 2],
              [n |-> "f_stdstring",  v |-> 2],
              [n |-> "f_conversions", v |-> 2],
              [n |-> "f_hierarchy",  v |-> 2],
              \* an inheritance chain that crosses the library boundary (XPuppy : XDog in library B, XDog :
              \* XAnimal both in library A; with three libraries XPup3 : XPuppy in library C): 1 none,
              \* 2 nothing else in B names the grand-parent, 3 B also names the grand-parent
              [n |-> "f_xinherit",   v |-> 3],
              \* published data members of every shape that decides whether a getter / setter is synthesised:
              \* arrays (plain, of const elements, through a typedef, two-dimensional), const, reference,
              \* static const, mutable, bit-field, pointer and enum members
              [n |-> "f_datamembers", v |-> 2] >>
NF == Len(Factors)
FV == {<<f, v>> : f \in 1..NF, v \in 1..3} \cap {p \in (1..NF) \X (1..3) : p[2] <= Factors[p[1]].v}

\* excluded combinations of (factor, value)
Excluded == { {<<2, 1>>, <<4, 2>>},      \* -fnames with -true-names: rejected by interrogate
              {<<7, 2>>, <<11, 2>>},     \* -do-module with several libraries per module
              {<<7, 2>>, <<11, 3>>},
              {<<11, 1>>, <<21, 2>>},    \* a chain across libraries needs a second library
              {<<11, 1>>, <<21, 3>>},
              \* -python-native without -string wraps std::string as a CLASS that some other module
              \* must provide (it is imported at module initialisation): such a module cannot
              \* initialise on its own -- it depends on a runtime that is not part of the inputs
              {<<1, 3>>, <<3, 1>>, <<18, 2>>} }
NoExcluded(S) == \A e \in Excluded : ~(e \subseteq S)

\* A partial assignment can be completed to a valid row iff it contains no excluded combination and
\* the factors that occur in SEVERAL exclusions can be completed (-do-module forces one library, a chain
\* across libraries forces two: the two exclusions interact through `libraries`).  A factor that occurs
\* in one exclusion only can always take a value outside it.
CF == {p[1] : p \in UNION Excluded}
Chained == {f \in CF : Cardinality({e \in Excluded : \E p \in e : p[1] = f}) >= 2}
ChainedExcl == {e \in Excluded : \E p \in e : p[1] \in Chained}
CFC == {p[1] : p \in UNION ChainedExcl}
ValidCore == {a \in [CFC -> 1..3] : /\ \A g \in CFC : a[g] <= Factors[g].v
                                     /\ \A e \in ChainedExcl : ~(e \subseteq {<<h, a[h]>> : h \in CFC})}
Extendable(S) == /\ NoExcluded(S)
                 /\ \E a \in ValidCore : \A p \in S : p[1] \in CFC => a[p[1]] = p[2]

\* the valid T-tuples: T (factor, value) pairs on distinct factors that occur together in some valid row
Tuples == {ts \in kSubset(T, FV) : /\ \A p, q \in ts : p # q => p[1] # q[1]
                                   /\ Extendable(ts)}

RowSet(row) == {<<f, row[f]>> : f \in DOMAIN row}
Valid(row) == DOMAIN row = 1..NF /\ (\A f \in 1..NF : row[f] \in 1..Factors[f].v) /\ NoExcluded(RowSet(row))

VARIABLES variant,  \* which array this behaviour builds
          rows,     \* number of rows so far
          row,      \* the row added by the last step (<<>> initially)
          unc       \* T-tuples not yet covered

vars == <<variant, rows, row, unc>>

\* tuples of U that (f, v) would complete, given the partial row r
Gain(r, f, v, U) ==
  Cardinality({ts \in U : /\ <<f, v>> \in ts
                          /\ \A p \in ts : p[1] = f \/ (p[1] \in DOMAIN r /\ r[p[1]] = p[2])})

RECURSIVE Fill(_, _, _, _)
Fill(r, f, U, n) ==
  IF f > NF THEN r
  ELSE IF f \in DOMAIN r THEN Fill(r, f + 1, U, n)
  ELSE LET cand == {v \in 1..Factors[f].v : Extendable(RowSet(r) \cup {<<f, v>>})}
           g == [v \in cand |-> Gain(r, f, v, U)]
           \* ties are broken by a preference that rotates with the row number n (= rows + variant),
           \* so that rows -- and the arrays of different variants -- differ
           pref == [v \in cand |-> (v + n) % Factors[f].v]
           best == CHOOSE v \in cand : \A w \in cand :
                     \/ g[v] > g[w]
                     \/ g[v] = g[w] /\ (pref[v] < pref[w] \/ (pref[v] = pref[w] /\ v <= w))
       IN Fill(r @@ (f :> best), f + 1, U, n)

\* the uncovered tuple a row is seeded with: a variant-dependent but fixed choice
Score(ts, k) == FoldSet(LAMBDA p, acc : acc + ((p[1] * 7 + p[2] * 3 + k * (p[1] + 5)) % 11), 0, ts)
Seed(U, k) == LET m == Max({Score(ts, k) : ts \in U}) IN CHOOSE ts \in U : Score(ts, k) = m
SeedRow(ts) == [f \in {p[1] : p \in ts} |-> (CHOOSE p \in ts : p[1] = f)[2]]

Covered(r) == {ts \in unc : ts \subseteq RowSet(r)}

Init == variant \in Variants /\ rows = 0 /\ row = <<>> /\ unc = Tuples

AddRow == /\ unc # {} /\ rows < MaxRows
          /\ row' = Fill(SeedRow(Seed(unc, variant)), 1, unc, rows + variant)
          /\ unc' = unc \ Covered(row')
          /\ rows' = rows + 1
          /\ UNCHANGED variant

Next == AddRow
Spec == Init /\ [][Next]_vars

-----------------------------------------------------------------------------
RowValid == rows > 0 => Valid(row)
\* every row covers something new, so the construction terminates with unc = {}
Progress == [][Cardinality(unc') < Cardinality(unc)]_vars
BoundNotReached == rows = MaxRows => unc = {}
=============================================================================
