SPECIFICATION Spec
CONSTANTS
  MaxSigs = 5
  H1 = {0, 1}
  H2 = {0, 1}
INVARIANT NamesDistinct
INVARIANT HashesDistinct
INVARIANT TableOwns
INVARIANT EveryoneListed
CONSTRAINT DumpConstraint
CHECK_DEADLOCK FALSE
