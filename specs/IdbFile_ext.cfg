SPECIFICATION ExtSpec
CONSTANTS
  MaxRecs = 0
  Strs = {1}
  HdrStrs = {}
  CutStrs = {}
  CutRecs = 0
  PreKinds = {"none"}
  Layouts = {"gaps"}
  LongStrs = {11, 12, 13, 14, 15}
  MultiPre = {"none"}
  MultiLayouts = {"gaps"}
  MultiStrs = {3, 4, 7}
INVARIANT ExtReadable
INVARIANT ReaderBounded
CONSTRAINT DumpConstraint
CHECK_DEADLOCK FALSE
