SPECIFICATION Spec
CONSTANTS
  MaxDefs = 2
  MaxDepth = 3
  Connected = FALSE
  MinDefs = 1
  MaxUses = 1
  Size = "S"
  BodyTerms <- MCBodyTerms
  DfltProfiles <- MCDfltProfiles
  UseTerms <- MCUseTerms
  QueryTerms <- MCQueryTerms
INVARIANT ResultGround
INVARIANT Idempotent
INVARIANT Confluent
INVARIANT ValueOnly
INVARIANT SubstLemma
INVARIANT Small
CONSTRAINT DumpConstraint
CHECK_DEADLOCK FALSE
