SPECIFICATION Spec
CONSTANTS
  MaxLines = 5
  MaxHdr = 3
  MaxCond = 1
  Hdrs = {"h1"}
  Names = {"M"}
  Kinds = {"text", "def", "if", "endif", "inc", "blank"}
  Payloads = {"__LINE__", "M"}
  DefVals = {"__LINE__"}
  Conds = {"L", "V"}
  Shapes = {"p", "c", "b", "m"}
  LineK = 3
  MinDump = 3
INVARIANT TypeOK
INVARIANT IncludeDepth
INVARIANT CondClosedAtEOF
INVARIANT AtMostOneGroup
INVARIANT SuspendedFramesActive
INVARIANT OnceContributesOnce
INVARIANT OutSound
PROPERTY SkippedNoEffect
PROPERTY LineNumbersIncrease
CONSTRAINT DumpConstraint
CHECK_DEADLOCK FALSE
