SPECIFICATION Spec
CONSTANTS
  Leaves <- LvTyped
  ULeaves = {0, 1, 2, 2147483647}
  Bigs = {"2147483648", "4294967295u", "0x80000000", "0xffffffff", "2147483648u"}
  UnOps = {"-", "~", "!"}
  Casts = {"int"}
  BinOps = {"*", "/", "%", "+", "-", "<<", ">>", "<", ">", "<=", ">=", "==", "!=", "&", "^", "|", "&&", "||"}
  UseCond = TRUE
  MaxTok = 4
  MaxDepth = 2
INVARIANT EvalTotal
INVARIANT DivModLaw
INVARIANT ShiftLaw
INVARIANT BitLaw
INVARIANT BoolLaw
INVARIANT AddLaw
INVARIANT TypeLaw
INVARIANT RenderLaw
CONSTRAINT DumpConstraint
CHECK_DEADLOCK FALSE
