----------------------------- MODULE ModuleInit -----------------------------
(***************************************************************************)
(* Module initialisation order (property C16).                             *)
(*                                                                         *)
(* INPUT   = the libraries 1..n whose databases are given, each of a KIND  *)
(*             "both"  publishes classes (with their methods),             *)
(*             "funcs" publishes only free functions (no type at all),     *)
(*             "types" publishes only types without any function (enums),  *)
(*             "empty" publishes nothing,                                  *)
(*             "foreign" publishes classes, but was built for ANOTHER      *)
(*                     module (interrogate -module other),                 *)
(*           and a digraph `orig` over them (edge a -> b: a class of       *)
(*           library a derives from, or is a typedef of, a class of        *)
(*           library b; so edges only join libraries of kind "both").      *)
(*           Numeric order = std::string order of the library names, which *)
(*           is the iteration order of the std::map / std::set the code    *)
(*           uses.  A library CONTRIBUTES to the module iff its kind is    *)
(*           neither "empty" nor "foreign": a library of another module    *)
(*           does not contribute to this one (referencing it would pull    *)
(*           Dtool_<lib>_RegisterTypes / <lib>_moddef of a library that is *)
(*           not part of the extension into PyInit_<module>); the property *)
(*           speaks about exactly the contributing ones.                   *)
(* KEYS    = the keys of `dependencies` as the two loops at the top of     *)
(*           write_python_table_native collect them:                       *)
(*             for every function: if it has a library name -> a key       *)
(*               of THIS module (FunctionLoopFiltersModule; FALSE = the    *)
(*               code before c16-fix-3, where the filter is commented out  *)
(*               and libraries of other modules become keys too)           *)
(*             for every global type of THIS module with a library name    *)
(*               -> a key, plus its cross-library base/typedef edges       *)
(*           KeysAreContributors says the two loops find every             *)
(*           contributing library - in particular a function-only one,     *)
(*           which no type ever mentions - and nothing else.               *)
(* MECHANISM = write_python_table_native() in interrogate_module.cxx,      *)
(*           transcribed statement by statement as a step machine:         *)
(*                                                                         *)
(*   while (libraries.size() < dependencies.size()) {          pc="start"  *)
(*     bool added_any = false;                                 StartPass   *)
(*     for (it = dependencies.begin(); ...) {                  pc="visit"  *)
(*       deps = dependencies[it->first];                                   *)
(*       if (!deps.empty()) for (li : libraries) deps.erase(li);   Visit   *)
(*       if (deps.empty() &&                                               *)
(*           find(libraries, name) == end) {                               *)
(*         libraries.push_back(name); added_any = true; }                  *)
(*     }                                                                   *)
(*     if (!added_any) {                                       EndPass     *)
(*       cerr << "Circular dependency between libraries detected:\n";      *)
(*       for (it = dependencies.begin(); ...) {                pc="break"  *)
(*         if (deps.empty()) continue;                         Break       *)
(*         cycle = {name};                                                 *)
(*         if (!find_dependency_cycle(cycle, dependencies)) continue;      *)
(*         ... print cycle ...                                             *)
(*         dependencies[cycle[0]].erase(cycle[1]);                         *)
(*       }                                                                 *)
(*     }                                                       EndBreak    *)
(*   }                                                                     *)
(*   ... emit Dtool_<lib>_RegisterTypes() etc. in `libraries` order        *)
(*                                                                         *)
(* find_dependency_cycle is the path-based depth-first search DFS below    *)
(* (no visited set; successors in set order; on meeting a node already on  *)
(* the path the prefix before it is chopped off and the node appended).    *)
(*                                                                         *)
(* DOMAIN.  Every edge target is itself a key of `dependencies` (a library *)
(* of the same module owns at least one function or global type).  The     *)
(* `dependencies[x]` insertion that find_dependency_cycle would perform    *)
(* for an unknown x only arises across modules and is outside the          *)
(* property's quantifier.                                                  *)
(***************************************************************************)
EXTENDS Naturals, Sequences, FiniteSets, TLC

CONSTANT FunctionLoopFiltersModule

VARIABLES
  kind,       \* the input: [1..n -> {"both", "funcs", "types", "empty"}]
  orig,       \* the input digraph: [1..n -> SUBSET 1..n]
  deps,       \* `dependencies` (edges still present)
  placed,     \* `libraries`
  pc, idx,    \* control: "start" | "visit" | "break", map iterator position
  addedAny,   \* `added_any`
  broken,     \* history: edges erased by the cycle breaker
  cycles,     \* history: the cycles printed, in order
  nreports    \* history: how often "Circular dependency ..." was printed

vars == <<kind, orig, deps, placed, pc, idx, addedAny, broken, cycles, nreports>>

Kinds == {"both", "funcs", "types", "empty", "foreign"}
AllLibs == DOMAIN kind
HasFunctions(l) == kind[l] \in {"both", "funcs", "foreign"}
HasTypes(l) == kind[l] \in {"both", "types", "foreign"}
ThisModule(l) == kind[l] # "foreign"
Contributing == {l \in AllLibs : kind[l] \notin {"empty", "foreign"}}
\* the two loops that fill `dependencies`
FunctionLoopKeys == {l \in AllLibs : HasFunctions(l) /\ (ThisModule(l) \/ ~FunctionLoopFiltersModule)}
TypeLoopKeys == {l \in AllLibs : HasTypes(l) /\ ThisModule(l)}
Libs == FunctionLoopKeys \cup TypeLoopKeys          \* the keys of `dependencies`
N == Cardinality(Libs)

Range(s) == {s[i] : i \in 1..Len(s)}
Pos(s, x) == CHOOSE i \in 1..Len(s) : s[i] = x
Min(S) == CHOOSE x \in S : \A y \in S : x <= y

\* the keys in map order; Lib(i) = the key the map iterator stands on in its i-th step
RECURSIVE Sorted(_)
Sorted(S) == IF S = {} THEN <<>> ELSE <<Min(S)>> \o Sorted(S \ {Min(S)})
Lib(i) == Sorted(Libs)[i]

Graphs(n) == {g \in [1..n -> SUBSET (1..n)] : \A l \in 1..n : l \notin g[l]}
\* edges need a class at both ends
WellFormed(k, g) == \A a \in DOMAIN g : \A b \in g[a] : k[a] = "both" /\ k[b] = "both"

InitWith(k, g) ==
  /\ kind = k /\ orig = g /\ deps = g /\ placed = <<>> /\ pc = "start" /\ idx = 1
  /\ addedAny = FALSE /\ broken = {} /\ cycles = <<>> /\ nreports = 0

---------------------------------------------------------------------------
(* find_dependency_cycle(cycle = path, dependencies = d): `todo` = the part
   of d[path.back()] the for loop has not tried yet; <<>> = return false. *)
RECURSIVE DFS(_, _, _)
DFS(d, path, todo) ==
  IF todo = {} THEN <<>>
  ELSE LET x == Min(todo) IN
    IF x \in Range(path)
      THEN SubSeq(path, Pos(path, x), Len(path)) \o <<x>>
      ELSE LET r == DFS(d, Append(path, x), d[x]) IN
           IF r # <<>> THEN r ELSE DFS(d, path, todo \ {x})

StartPass ==
  /\ pc = "start" /\ Len(placed) < N
  /\ pc' = "visit" /\ idx' = 1 /\ addedAny' = FALSE
  /\ UNCHANGED <<kind, orig, deps, placed, broken, cycles, nreports>>

Visit ==
  /\ pc = "visit" /\ idx <= N
  /\ LET lib == Lib(idx)
         d == deps[lib] \ Range(placed) IN
       /\ deps' = [deps EXCEPT ![lib] = d]
       /\ IF d = {} /\ lib \notin Range(placed)
            THEN placed' = Append(placed, lib) /\ addedAny' = TRUE
            ELSE UNCHANGED <<placed, addedAny>>
  /\ idx' = idx + 1
  /\ UNCHANGED <<kind, orig, pc, broken, cycles, nreports>>

EndPass ==
  /\ pc = "visit" /\ idx > N
  /\ IF addedAny
       THEN pc' = "start" /\ UNCHANGED <<idx, nreports>>
       ELSE pc' = "break" /\ idx' = 1 /\ nreports' = nreports + 1
  /\ UNCHANGED <<kind, orig, deps, placed, addedAny, broken, cycles>>

Break ==
  /\ pc = "break" /\ idx <= N
  /\ LET lib == Lib(idx)
         c == IF deps[lib] = {} THEN <<>> ELSE DFS(deps, <<lib>>, deps[lib]) IN
       IF c = <<>>
         THEN UNCHANGED <<deps, broken, cycles>>
         ELSE /\ deps' = [deps EXCEPT ![c[1]] = @ \ {c[2]}]
              /\ broken' = broken \cup {<<c[1], c[2]>>}
              /\ cycles' = Append(cycles, c)
  /\ idx' = idx + 1
  /\ UNCHANGED <<kind, orig, placed, pc, addedAny, nreports>>

EndBreak ==
  /\ pc = "break" /\ idx > N
  /\ pc' = "start"
  /\ UNCHANGED <<kind, orig, deps, placed, idx, addedAny, broken, cycles, nreports>>

Done == pc = "start" /\ Len(placed) = N

Step == StartPass \/ Visit \/ EndPass \/ Break \/ EndBreak

---------------------------------------------------------------------------
(* Reference notions and the property *)
RECURSIVE Reach(_, _, _)
Reach(g, frontier, seen) ==
  IF frontier = {} THEN seen
  ELSE LET nxt == UNION {g[x] : x \in frontier} \ seen IN Reach(g, nxt, seen \cup nxt)
Cyclic(g) == \E l \in DOMAIN g : l \in Reach(g, {l}, {})

\* the map's keys are exactly the libraries that contribute to the module (function-only ones included)
KeysAreContributors == Libs = Contributing

\* each contributing library at most once and nothing else; when finished, every contributing library
Once ==
  /\ \A i, j \in 1..Len(placed) : placed[i] = placed[j] => i = j
  /\ Range(placed) \subseteq Contributing
  /\ Done => Range(placed) = Contributing

\* bases first: for every edge the cycle breaker did not remove, the target precedes the source
BasesFirst ==
  Done => \A a \in Contributing : \A b \in orig[a] :
            <<a, b>> \notin broken => Pos(placed, b) < Pos(placed, a)

ReportIffCyclic == Done => ((nreports > 0) <=> Cyclic(orig))
NoBreakIfAcyclic == ~Cyclic(orig) => broken = {} /\ nreports = 0
\* only edges that lie on a cycle of the input are ever broken
BrokenAreOnCycles == \A e \in broken : e[2] \in orig[e[1]] /\ e[1] \in Reach(orig, {e[2]}, {e[2]})
\* every printed cycle is a cycle of the (remaining) graph: closed, consecutive edges of orig
CyclesAreCycles ==
  \A k \in 1..Len(cycles) :
    LET c == cycles[k] IN
      /\ Len(c) >= 2 /\ c[1] = c[Len(c)]
      /\ \A i \in 1..Len(c) - 1 : c[i + 1] \in orig[c[i]]
\* progress measure: the loop cannot run for ever
Bounded == nreports <= N * N + 1 /\ Cardinality(broken) <= N * N

Terminates == <>Done
=============================================================================
