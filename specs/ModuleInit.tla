----------------------------- MODULE ModuleInit -----------------------------
(***************************************************************************)
(* Module initialisation order (property C16).                             *)
(*                                                                         *)
(* INPUT   = a digraph `orig` over the libraries 1..n of one module        *)
(*           (edge a -> b: a class of library a derives from, or is a      *)
(*           typedef of, a class of library b).  Numeric order of the      *)
(*           nodes = std::string order of the library names, which is the  *)
(*           iteration order of the std::map / std::set the code uses.     *)
(* MECHANISM = write_python_table_native() in interrogate_module.cxx,      *)
(*           transcribed statement by statement as a step machine:         *)
(*                                                                         *)
(*   while (libraries.size() < dependencies.size()) {          pc="start"  *)
(*     bool added_any = false;                                 StartPass   *)
(*     for (it = dependencies.begin(); ...) {                  pc="visit"  *)
(*       deps = dependencies[it->first];                                   *)
(*       if (!deps.empty()) for (li : libraries) deps.erase(li);   Visit   *)
(*       if (deps.empty() &&                                               *)
(*           find(libraries, name) == end) {                               *)
(*         libraries.push_back(name); added_any = true; }                  *)
(*     }                                                                   *)
(*     if (!added_any) {                                       EndPass     *)
(*       cerr << "Circular dependency between libraries detected:\n";      *)
(*       for (it = dependencies.begin(); ...) {                pc="break"  *)
(*         if (deps.empty()) continue;                         Break       *)
(*         cycle = {name};                                                 *)
(*         if (!find_dependency_cycle(cycle, dependencies)) continue;      *)
(*         ... print cycle ...                                             *)
(*         dependencies[cycle[0]].erase(cycle[1]);                         *)
(*       }                                                                 *)
(*     }                                                       EndBreak    *)
(*   }                                                                     *)
(*   ... emit Dtool_<lib>_RegisterTypes() etc. in `libraries` order        *)
(*                                                                         *)
(* find_dependency_cycle is the path-based depth-first search DFS below    *)
(* (no visited set; successors in set order; on meeting a node already on  *)
(* the path the prefix before it is chopped off and the node appended).    *)
(*                                                                         *)
(* DOMAIN.  Every edge target is itself a key of `dependencies` (a library *)
(* of the same module owns at least one function or global type).  The     *)
(* `dependencies[x]` insertion that find_dependency_cycle would perform    *)
(* for an unknown x only arises across modules and is outside the          *)
(* property's quantifier.                                                  *)
(***************************************************************************)
EXTENDS Naturals, Sequences, FiniteSets, TLC

VARIABLES
  orig,       \* the input digraph: [1..n -> SUBSET 1..n]
  deps,       \* `dependencies` (edges still present)
  placed,     \* `libraries`
  pc, idx,    \* control: "start" | "visit" | "break", map iterator position
  addedAny,   \* `added_any`
  broken,     \* history: edges erased by the cycle breaker
  cycles,     \* history: the cycles printed, in order
  nreports    \* history: how often "Circular dependency ..." was printed

vars == <<orig, deps, placed, pc, idx, addedAny, broken, cycles, nreports>>

Libs == DOMAIN orig
N == Cardinality(Libs)

Range(s) == {s[i] : i \in 1..Len(s)}
Pos(s, x) == CHOOSE i \in 1..Len(s) : s[i] = x
Min(S) == CHOOSE x \in S : \A y \in S : x <= y

Graphs(n) == {g \in [1..n -> SUBSET (1..n)] : \A l \in 1..n : l \notin g[l]}

InitWith(g) ==
  /\ orig = g /\ deps = g /\ placed = <<>> /\ pc = "start" /\ idx = 1
  /\ addedAny = FALSE /\ broken = {} /\ cycles = <<>> /\ nreports = 0

---------------------------------------------------------------------------
(* find_dependency_cycle(cycle = path, dependencies = d): `todo` = the part
   of d[path.back()] the for loop has not tried yet; <<>> = return false. *)
RECURSIVE DFS(_, _, _)
DFS(d, path, todo) ==
  IF todo = {} THEN <<>>
  ELSE LET x == Min(todo) IN
    IF x \in Range(path)
      THEN SubSeq(path, Pos(path, x), Len(path)) \o <<x>>
      ELSE LET r == DFS(d, Append(path, x), d[x]) IN
           IF r # <<>> THEN r ELSE DFS(d, path, todo \ {x})

StartPass ==
  /\ pc = "start" /\ Len(placed) < N
  /\ pc' = "visit" /\ idx' = 1 /\ addedAny' = FALSE
  /\ UNCHANGED <<orig, deps, placed, broken, cycles, nreports>>

Visit ==
  /\ pc = "visit" /\ idx <= N
  /\ LET d == deps[idx] \ Range(placed) IN
       /\ deps' = [deps EXCEPT ![idx] = d]
       /\ IF d = {} /\ idx \notin Range(placed)
            THEN placed' = Append(placed, idx) /\ addedAny' = TRUE
            ELSE UNCHANGED <<placed, addedAny>>
  /\ idx' = idx + 1
  /\ UNCHANGED <<orig, pc, broken, cycles, nreports>>

EndPass ==
  /\ pc = "visit" /\ idx > N
  /\ IF addedAny
       THEN pc' = "start" /\ UNCHANGED <<idx, nreports>>
       ELSE pc' = "break" /\ idx' = 1 /\ nreports' = nreports + 1
  /\ UNCHANGED <<orig, deps, placed, addedAny, broken, cycles>>

Break ==
  /\ pc = "break" /\ idx <= N
  /\ LET c == IF deps[idx] = {} THEN <<>> ELSE DFS(deps, <<idx>>, deps[idx]) IN
       IF c = <<>>
         THEN UNCHANGED <<deps, broken, cycles>>
         ELSE /\ deps' = [deps EXCEPT ![c[1]] = @ \ {c[2]}]
              /\ broken' = broken \cup {<<c[1], c[2]>>}
              /\ cycles' = Append(cycles, c)
  /\ idx' = idx + 1
  /\ UNCHANGED <<orig, placed, pc, addedAny, nreports>>

EndBreak ==
  /\ pc = "break" /\ idx > N
  /\ pc' = "start"
  /\ UNCHANGED <<orig, deps, placed, idx, addedAny, broken, cycles, nreports>>

Done == pc = "start" /\ Len(placed) = N

Step == StartPass \/ Visit \/ EndPass \/ Break \/ EndBreak

---------------------------------------------------------------------------
(* Reference notions and the property *)
RECURSIVE Reach(_, _, _)
Reach(g, frontier, seen) ==
  IF frontier = {} THEN seen
  ELSE LET nxt == UNION {g[x] : x \in frontier} \ seen IN Reach(g, nxt, seen \cup nxt)
Cyclic(g) == \E l \in DOMAIN g : l \in Reach(g, {l}, {})

\* each library at most once, and (when finished) every library
Once ==
  /\ \A i, j \in 1..Len(placed) : placed[i] = placed[j] => i = j
  /\ Range(placed) \subseteq Libs
  /\ Done => Range(placed) = Libs

\* bases first: for every edge the cycle breaker did not remove, the target precedes the source
BasesFirst ==
  Done => \A a \in Libs : \A b \in orig[a] :
            <<a, b>> \notin broken => Pos(placed, b) < Pos(placed, a)

ReportIffCyclic == Done => ((nreports > 0) <=> Cyclic(orig))
NoBreakIfAcyclic == ~Cyclic(orig) => broken = {} /\ nreports = 0
\* only edges that lie on a cycle of the input are ever broken
BrokenAreOnCycles == \A e \in broken : e[2] \in orig[e[1]] /\ e[1] \in Reach(orig, {e[2]}, {e[2]})
\* every printed cycle is a cycle of the (remaining) graph: closed, consecutive edges of orig
CyclesAreCycles ==
  \A k \in 1..Len(cycles) :
    LET c == cycles[k] IN
      /\ Len(c) >= 2 /\ c[1] = c[Len(c)]
      /\ \A i \in 1..Len(c) - 1 : c[i + 1] \in orig[c[i]]
\* progress measure: the loop cannot run for ever
Bounded == nreports <= N * N /\ Cardinality(broken) <= N * N

Terminates == <>Done
=============================================================================
