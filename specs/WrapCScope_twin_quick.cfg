SPECIFICATION Spec
CONSTANTS
  LibSize = 2
  Rounds = 4
  MaxHeap = 13
  Stride = 3
  SigChoices <- TwinChoices
INVARIANT HeaderWellFormed
INVARIANT ResultsInRange
INVARIANT DefaultsAreDeclared
INVARIANT ArgsAreOfTheirClass
CONSTRAINT DumpConstraint
CHECK_DEADLOCK FALSE
