---------------------------- MODULE ExportDescMC ----------------------------
(* C05: libraries whose entities carry the facts the database must describe (signatures with
   default arguments, roles, operators, data members, base lists, documentation comments), and the dump
   of every complete library together with the description the ground-truth model demands. *)
EXTENDS Export, Json, CSV, IOUtils

CONSTANT Shape(_)   \* prefix-closed restriction of the library's shape for the cfg (NoShape = none); argument unused
NoShape(x) == TRUE

None == {}
NoComment == {""}
Styles == {"", "//", "/*"}
PubOnly == {"published"}
NoMembers == <<{}, {}>>
M10 == <<1, 0>>
M20 == <<2, 0>>
M30 == <<3, 0>>

\* ---- signatures: one class, one member function; class types are the class itself ----------------
PT == {AtomT("int"), AtomT("double"), ClsT(1, "ptr"), ClsT(1, "cref"), ClsT(1, "val")}
PTT == PT \cup {AtomT("bool"), ClsT(1, "cptr"), ClsT(1, "ref")}
Defaultable(t) == t.b # "cls" \/ t.m \in {"ptr", "cptr"}
Pars(T) == {Par(t, TRUE, d) : t \in T, d \in BOOLEAN} \cup {Par(AtomT("int"), FALSE, d) : d \in BOOLEAN}
P1(T) == {p \in Pars(T) : p.d => Defaultable(p.t)}
ParSeqs(T, n) ==
  {<<>>} \cup {<<p>> : p \in P1(T)}
  \cup {s \in {<<p, q>> : p \in P1(T), q \in P1(T)} : DefaultsTrail(s)}
  \cup (IF n >= 3 THEN {s \in {<<p, q, r>> : p \in P1(T), q \in P1(T), r \in P1(T)} : DefaultsTrail(s)} ELSE {})
RT == {AtomT("void"), AtomT("int"), ClsT(1, "ptr"), ClsT(1, "cref"), ClsT(1, "ref"), ClsT(1, "val")}
SigMem(role, ret, ps) == [Mem("sig", "published") EXCEPT !.sig = [role |-> role, ret |-> ret, ps |-> ps]]
\* constructors: any parameter list that does not start with the class by value (ill-formed as a sole parameter), plus
\* those whose first parameter is a (const / non-const / rvalue) reference to the class itself followed by nothing, by a
\* mandatory parameter, or by a defaulted one ([class.copy.ctor]: all further parameters defaulted = copy / move
\* constructor), plus a constructor template
ByValueFirst(ps) == ps # <<>> /\ ps[1].t.b = "cls" /\ ps[1].t.m = "val"
SelfRefSeqs == {<<Par(ClsT(1, m), TRUE, FALSE)>> : m \in {"ref", "rref"}}
               \cup {<<Par(ClsT(1, m), TRUE, FALSE), Par(AtomT("int"), TRUE, d)>> : m \in {"ref", "rref"}, d \in BOOLEAN}
SigSet(T, n) ==
  {SigMem(r, rt, ps) : r \in {"meth", "const", "static", "virt"}, rt \in RT, ps \in ParSeqs(T, n)}
  \cup {SigMem("ctor", AtomT("void"), ps) : ps \in {x \in ParSeqs(T, n) : ~ByValueFirst(x)} \cup SelfRefSeqs}
  \cup {Mem("tctor", "published")}
SigMembers == <<SigSet(PT, 2), {}>>
SigMembersT == <<SigSet(PTT, 2), {}>>
SigHeads == {<<"class", FALSE, FALSE>>}

\* ---- roles: fixed-shape members (operators, typecast, data members, destructors, enums), with comments
RoleKinds == {"meth", "smeth", "vmeth", "opeq", "opneg", "cast", "data", "cdata", "sdata", "dtor", "vdtor", "enum"}
\* the other ways to write an enum (scoped, on one line, with a comment in the list, with an unevaluated initialiser)
EnumMembers == <<{[Mem(k, "published") EXCEPT !.cm = cm] : k \in {"senum", "enum1", "enumc", "enumz"}, cm \in Styles}
                 \cup {Mem("meth", "published")}, {}>>
RoleMembers == <<{[Mem(k, "published") EXCEPT !.cm = cm] : k \in RoleKinds, cm \in Styles}, {}>>
RoleHeads == {<<"class", TRUE, FALSE>>}
TwoStyles == {"", "//"}
RoleHeadsT == {<<"class", TRUE, FALSE>>, <<"struct", TRUE, FALSE>>}

\* ---- operators: every operator that has a unary and a binary form, unary-only (prefix / postfix), binary-only,
\* typecast operators, operator() and operator[], and a plain overloaded name - in both declaration orders
OpMem(nm, role, ret, ps) == [Mem("sig", "published") EXCEPT !.nm = nm, !.sig = [role |-> role, ret |-> ret, ps |-> ps]]
Self(m) == ClsT(1, m)
Other == <<Par(Self("cref"), TRUE, FALSE)>>
TwoFormOps == {"operator +", "operator -", "operator *", "operator &"}
TypecastNames == {"operator typecast int", "operator typecast double"}
OpSet ==
  {OpMem(n, "const", Self("val"), <<>>) : n \in TwoFormOps} \cup {OpMem(n, "const", Self("val"), Other) : n \in TwoFormOps}
  \cup {OpMem("operator !", "const", AtomT("bool"), <<>>), OpMem("operator ~", "const", Self("val"), <<>>)}
  \cup {OpMem(n, "meth", Self("ref"), <<>>) : n \in {"operator ++", "operator --"}}                               \* prefix
  \cup {OpMem(n, "meth", Self("val"), <<Par(AtomT("int"), FALSE, FALSE)>>) : n \in {"operator ++", "operator --"}}  \* postfix
  \cup {OpMem("operator ==", "const", AtomT("bool"), Other), OpMem("operator /", "const", Self("val"), <<Par(AtomT("int"), TRUE, FALSE)>>)}
  \cup {OpMem("operator typecast int", "const", AtomT("int"), <<>>), OpMem("operator typecast double", "const", AtomT("double"), <<>>)}
  \cup {OpMem("operator ()", "const", AtomT("int"), <<Par(AtomT("int"), TRUE, FALSE)>>),
        OpMem("operator []", "const", AtomT("int"), <<Par(AtomT("int"), TRUE, FALSE)>>)}
  \* an overload set, each overload virtual or not
  \cup {OpMem("ov", r, AtomT("void"), ps) : r \in {"meth", "virt"},
                                          ps \in {<<>>, <<Par(AtomT("int"), TRUE, FALSE)>>, <<Par(AtomT("double"), TRUE, FALSE)>>}}
OpMembers == <<OpSet, {}>>

\* ---- bases: up to three classes in a publish region, every base list of length <= 2
BaseMembers == <<{Mem("meth", "published"), Mem("vmeth", "published")}, {}>>
BaseMembersT == <<{Mem("meth", "published"), Mem("vmeth", "published"), Mem("vdtor", "published")}, {}>>
BaseHeads == {<<"class", TRUE, FALSE>>}
BaseKinds == {<<"public", FALSE>>, <<"public", TRUE>>, <<"protected", FALSE>>}
\* ---- defbase: a base named without an access specifier, for every combination of class keys
\* (`class D : virtual B` without an access specifier is rejected by the parser: C06's domain, not enumerated here)
BaseKindsD == {<<"default", FALSE>>, <<"public", FALSE>>, <<"private", FALSE>>}
BaseHeadsKS == {<<"class", TRUE, FALSE>>, <<"struct", TRUE, FALSE>>}

\* ---- nesting and typedefs: a class with a nested class / enum, a namespace-scope typedef naming a class
NestHeads == {<<"class", TRUE, FALSE>>}
NestKeys == {"class", "struct"}
NestMembers == <<{Mem("meth", "published"), Mem("enum", "published"), Mem("enum", "same")},
                 {Mem("meth", "published"), Mem("enum", "published")}>>
M22 == <<2, 2>>
NestTops == {Top("tdefc", FALSE, FALSE)}

\* ---- virt: one function name along an inheritance chain 1 <- 2 <- 3 (optionally with a second base M of the last
\* class); every class of the chain may declare it with `virtual`, with `override`, or with nothing
VfMem(role, l) == [Mem("sig", l) EXCEPT !.nm = "vf", !.sig = [role |-> role, ret |-> AtomT("void"), ps |-> <<>>]]
VirtMembers == <<{VfMem(r, l) : r \in {"virt", "meth", "over"}, l \in {"published", "public"}} \cup {Mem("meth", "published")}, {}>>
VirtHeads == {<<"class", FALSE, FALSE>>}
VirtBases == {<<"public", FALSE>>}
IsChain(c) == \A i \in 1..NM(c) : Mbr(c, i).nm = "vf"
IsMixin(c) == Cls(c).bases = <<>> /\ \A i \in 1..NM(c) : Mbr(c, i).k = "meth"
VirtShape(x) ==
  /\ NC >= 1 => (Cls(1).bases = <<>> /\ IsChain(1))
  /\ NC >= 2 => (Len(Cls(2).bases) = 1 /\ Cls(2).bases[1].c = 1 /\ IsChain(2))
  /\ NC >= 3 => ((Len(Cls(3).bases) = 1 /\ Cls(3).bases[1].c = 2 /\ IsChain(3)) \/ IsMixin(3))
  /\ NC >= 4 => (IsMixin(3) /\ Len(Cls(4).bases) = 2 /\ Cls(4).bases[1].c = 2 /\ Cls(4).bases[2].c = 3 /\ IsChain(4))
  /\ done => (NC >= 3 /\ (Cls(3).bases = <<>> => NC = 4))

\* ---- virt2: the chain 1 <- 2 <- 3 of virt where the ROOT may also declare a virtual destructor, before or after vf (the
\* order in which the parser learns that a class is polymorphic must not decide whether an override is marked virtual), and
\* the middle class may declare nothing
Virt2Members == <<{VfMem(r, "published") : r \in {"virt", "meth", "over"}} \cup {Mem("vdtor", "published")}, {}>>
IsChain2(c) == \A i \in 1..NM(c) : Mbr(c, i).nm = "vf" \/ (c = 1 /\ Mbr(c, i).k = "vdtor")
Virt2Shape(x) ==
  /\ NC >= 1 => (Cls(1).bases = <<>> /\ IsChain2(1))
  /\ NC >= 2 => (Len(Cls(2).bases) = 1 /\ Cls(2).bases[1].c = 1 /\ IsChain2(2))
  /\ NC >= 3 => (Len(Cls(3).bases) = 1 /\ Cls(3).bases[1].c = 2 /\ IsChain2(3))
  /\ \A c \in 1..NC : Cardinality({i \in 1..NM(c) : Mbr(c, i).nm = "vf"}) <= 1
  /\ done => NC = 3

\* ---- copy: a nested class that has the simple name of a namespace-scope class, with constructors taking the one or the other
CopyHeads == {<<"class", TRUE, FALSE>>}
CopyMembers == <<{Mem("meth", "published")}, {Mem("ctorof", "published"), Mem("cctor", "published"), Mem("ctorof", "same"), Mem("cctor", "same")}>>
CopyShape(x) ==
  /\ NC >= 3 => (Cls(3).outer = 2 /\ Cls(3).like = 1)
  /\ \A c \in 1..NC : (Cls(c).outer # 0 => (c = 3 /\ NM(2) = 1 /\ Mbr(2, 1).lab = "published"))
  /\ \A c \in 1..NC : (Cls(c).outer = 0 => NM(c) <= 1)
  /\ \A c \in 1..NC : \A i \in 1..NM(c) : (Mbr(c, i).k = "ctorof" => Mbr(c, i).rc = Cls(c).like)
  /\ done => (NC = 3 /\ NM(3) >= 1)
M12 == <<1, 2>>
NestCS == {"class"}

\* ---- redecl: one function declared two or three times - at namespace scope, or as a member with its out-of-class
\* definition; the first declaration names its parameters or not and may give a default, every declaration may carry a
\* comment, later ones name their parameters or not
IntP(n, d) == Par(AtomT("int"), n, d)
RedeclPs == {<<IntP(TRUE, FALSE)>>, <<IntP(FALSE, FALSE)>>, <<IntP(TRUE, FALSE), IntP(TRUE, TRUE)>>,
             <<IntP(FALSE, FALSE), IntP(FALSE, FALSE)>>, <<IntP(TRUE, FALSE), IntP(FALSE, TRUE)>>}
Redecl1 == {<<[n |-> n, cm |-> cm]>> : n \in BOOLEAN, cm \in TwoStyles}
Redecl2 == {<<[n |-> n1, cm |-> c1], [n |-> n2, cm |-> c2]>> : n1 \in BOOLEAN, n2 \in BOOLEAN, c1 \in TwoStyles, c2 \in TwoStyles}
RedeclTops == {[Top("sig", TRUE, FALSE) EXCEPT !.sig = [role |-> "static", ret |-> AtomT("void"), ps |-> ps], !.cm = cm, !.re = re] :
                 ps \in RedeclPs, cm \in {"", "/*"}, re \in Redecl1 \cup Redecl2}
RedeclMembers == <<{[Mem("sig", "published") EXCEPT !.sig = [role |-> r, ret |-> AtomT("void"), ps |-> ps], !.cm = cm, !.re = re] :
                      r \in {"meth", "const"}, ps \in RedeclPs, cm \in {"", "/*"}, re \in Redecl1}, {}>>
RedeclShape(x) == (NC >= 1 => NT = 0) /\ (NT >= 1 => NC = 0)

\* ---- props: accessors (documented or not, suitable or not) and the properties / sequences that name them
PropMembers == <<{[Mem(k, "published") EXCEPT !.cm = cm] : k \in {"getter", "getter2", "seqget", "seqbad", "mprop", "mseq"}, cm \in TwoStyles}, {}>>
PropShape(x) == \A c \in 1..NC : \A i \in 1..NM(c) : (Mbr(c, i).k \in {"getter", "getter2", "seqget", "seqbad"} => i = 1)

\* ---- props2: TWO classes whose accessors, properties and sequences carry the SAME simple names (the renderer names
\* the members of these libraries by their position only: k<i>m<j> in both classes), so that every property / sequence
\* record has to be kept apart by its scope and must name the accessors of its own class
Prop2Members == <<{Mem(k, "published") : k \in {"getter", "seqget", "mprop", "mseq"}}, {}>>

\* ---- namespace-scope entities with comments
DescTops == {[Top(k, TRUE, FALSE) EXCEPT !.cm = cm] : k \in {"func", "var", "macro"}, cm \in Styles}

DumpFile == IF "VERIF_DUMP" \in DOMAIN IOEnv THEN IOEnv.VERIF_DUMP ELSE ""

WF ==
  /\ \A c \in 1..NC : \A k \in {"gct", "ctor"} : Cardinality({i \in 1..NM(c) : Mbr(c, i).k = k}) <= 1
  /\ \A c \in 1..NC : Cardinality({i \in 1..NM(c) : Mbr(c, i).k \in {"dtor", "vdtor"}}) <= 1
  /\ \A c \in 1..NC : Cardinality({i \in 1..NM(c) : Mbr(c, i).k = "opeq"}) <= 1
  /\ \A c \in 1..NC : Cardinality({i \in 1..NM(c) : Mbr(c, i).k = "opneg"}) <= 1
  /\ \A c \in 1..NC : Cardinality({i \in 1..NM(c) : Mbr(c, i).k = "cast"}) <= 1
  \* no two members with the same name and parameter list
  /\ \A c \in 1..NC : \A i, j \in 1..NM(c) : (i # j /\ Mbr(c, i).nm # "") =>
        (Mbr(c, i).nm # Mbr(c, j).nm \/ Mbr(c, i).sig.ps # Mbr(c, j).sig.ps)
  \* `override` needs a virtual function to override
  /\ \A c \in 1..NC : \A i \in 1..NM(c) : (Mbr(c, i).sig.role = "over" => InheritedVirtual(c, i))
  /\ \A c \in 1..NC : \A k \in {"ctorof", "cctor"} : Cardinality({i \in 1..NM(c) : Mbr(c, i).k = k}) <= 1
  \* a class appears at most once in a class's inheritance graph (no ambiguous bases)
  /\ \A c \in 1..NC : \A b1, b2 \in 1..Len(Cls(c).bases) :
       b1 # b2 => /\ Cls(c).bases[b1].c # Cls(c).bases[b2].c
                  /\ \A x \in 1..Len(Cls(Cls(c).bases[b1].c).bases) : Cls(Cls(c).bases[b1].c).bases[x].c # Cls(c).bases[b2].c
                  /\ \A x \in 1..Len(Cls(Cls(c).bases[b1].c).bases) : \A y \in 1..Len(Cls(Cls(c).bases[b2].c).bases) :
                        Cls(Cls(c).bases[b1].c).bases[x].c # Cls(Cls(c).bases[b2].c).bases[y].c
  \* the first member of a class carries an explicit label in these families
  /\ \A c \in 1..NC : NM(c) >= 1 => Mbr(c, 1).lab # "same"
  \* a typedef names a namespace-scope class or an accessible nested one
  /\ \A t \in 1..NT : (NeedsRef(lib.tops[t].k) /\ Cls(lib.tops[t].rc).outer # 0) => Rank(ClassVis(lib.tops[t].rc)) <= 1

\* the member function a fixed-shape kind stands for
ShapeSig(c, k) ==
  CASE k = "meth"  -> [role |-> "meth", ret |-> AtomT("void"), ps |-> <<>>]
    [] k = "smeth" -> [role |-> "static", ret |-> AtomT("void"), ps |-> <<>>]
    [] k = "vmeth" -> [role |-> "virt", ret |-> AtomT("void"), ps |-> <<>>]
    [] k = "opeq"  -> [role |-> "const", ret |-> AtomT("bool"), ps |-> <<Par(ClsT(c, "cref"), TRUE, FALSE)>>]
    [] k = "opneg" -> [role |-> "const", ret |-> ClsT(c, "val"), ps |-> <<>>]
    [] k = "cast"  -> [role |-> "const", ret |-> AtomT("int"), ps |-> <<>>]
    [] k = "getter" -> [role |-> "const", ret |-> AtomT("int"), ps |-> <<>>]
    [] k = "getter2" -> [role |-> "const", ret |-> AtomT("int"), ps |-> <<Par(AtomT("int"), FALSE, FALSE), Par(AtomT("int"), FALSE, FALSE)>>]
    [] OTHER -> NoSig
\* the signature the database must show: the declarations of the function merged
SigOf(c, i) == IF Mbr(c, i).k = "sig" THEN MergedSig(Mbr(c, i)) ELSE ShapeSig(c, Mbr(c, i).k)
IsFn(k) == k \in {"sig", "meth", "smeth", "vmeth", "opeq", "opneg", "cast", "getter", "getter2"}

\* an operator declared without an explicit parameter is a unary operator function; it is a function of its own, not an
\* overload of the binary operator of the same name
IsOperatorName(n) == n \in TwoFormOps \cup {"operator !", "operator ~", "operator ++", "operator --", "operator ==", "operator /"}
UnaryFn(c, i) == Mbr(c, i).k = "opneg" \/ (Mbr(c, i).k = "sig" /\ IsOperatorName(Mbr(c, i).nm) /\ Mbr(c, i).sig.ps = <<>>)
TypecastFn(c, i) == Mbr(c, i).k = "cast" \/ Mbr(c, i).nm \in TypecastNames
\* function identity: members of one class declared under the same name with the same unary-ness are ONE function
FnId(c, i) == [name |-> Mbr(c, i).nm, unary |-> UnaryFn(c, i), anon |-> IF Mbr(c, i).nm = "" THEN i ELSE 0]
FnDesc(c, i) == LET s == SigOf(c, i) k == Mbr(c, i).k IN
  [c |-> c, i |-> i, variants |-> Variants(c, s), ret |-> RetFacts(c, s), fid |-> FnId(c, i),
   flags |-> [method |-> TRUE, virtual |-> IsVirtualFn(c, i), ctor |-> s.role = "ctor",
              unary |-> UnaryFn(c, i), typecast |-> TypecastFn(c, i)],
   cm |-> Mbr(c, i).cm, cms |-> DeclComments(Mbr(c, i))]
TopFnDesc(t) == LET d == lib.tops[t] IN
  [t |-> t, variants |-> Variants(0, MergedSig(d)), ret |-> RetFacts(0, d.sig), cms |-> DeclComments(d)]
FnMembers(c) == {i \in 1..NM(c) : [t |-> "m", c |-> c, i |-> i] \in RCallable /\ IsFn(Mbr(c, i).k)}
NMethods(c) == Cardinality({FnId(c, i) : i \in {j \in FnMembers(c) : ~TypecastFn(c, j) /\ SigOf(c, j).role # "ctor"}})
               + 2 * Cardinality({j \in 1..NM(c) : [t |-> "m", c |-> c, i |-> j] \in RCallable /\ Mbr(c, j).k \in {"seqget", "seqbad"}})
NCasts(c) == Cardinality({FnId(c, i) : i \in {j \in FnMembers(c) : TypecastFn(c, j)}})
\* a data member: element + synthesized accessor functions
DataDesc(c, i) == LET k == Mbr(c, i).k IN
  [c |-> c, i |-> i, setter |-> k # "cdata", static |-> k = "sdata", cm |-> Mbr(c, i).cm]
\* (the virtual role is claimed when the recorded destructor function is a declared one; whether an implicit
\* destructor overriding a virtual one is flagged virtual is not part of the claim)
\* constructors of the copy family
CtorSig(c, i) == [role |-> "ctor", ret |-> AtomT("void"),
                  ps |-> <<Par(ClsT(IF Mbr(c, i).k = "cctor" THEN c ELSE Mbr(c, i).rc, "cref"), TRUE, FALSE)>>]
\* [class.copy.ctor]: a non-template constructor whose first parameter is X& / const X& (X&&) and whose other parameters
\* all have default arguments is a copy (move) constructor; the implicit copy constructor exists unless the class
\* declares a copy constructor, a move constructor or a move assignment operator; the implicit default constructor unless
\* it declares any constructor
IsCtor(c, i) == Mbr(c, i).k \in {"ctorof", "cctor", "tctor"} \/ (Mbr(c, i).k = "sig" /\ Mbr(c, i).sig.role = "ctor")
CtorSigOf(c, i) == IF Mbr(c, i).k = "sig" THEN Mbr(c, i).sig ELSE CtorSig(c, i)
SelfRefFirst(c, s, modes) ==
  /\ s.ps # <<>> /\ s.ps[1].t.b = "cls" /\ s.ps[1].t.c = c /\ s.ps[1].t.m \in modes
  /\ \A q \in 2..Len(s.ps) : s.ps[q].d
IsCopyCtor(c, i) == IsCtor(c, i) /\ Mbr(c, i).k # "tctor" /\ SelfRefFirst(c, CtorSigOf(c, i), {"cref", "ref"})
IsMoveCtor(c, i) == IsCtor(c, i) /\ Mbr(c, i).k # "tctor" /\ SelfRefFirst(c, CtorSigOf(c, i), {"rref"})
ImplicitCopy(c) == \A i \in 1..NM(c) : ~IsCopyCtor(c, i) /\ ~IsMoveCtor(c, i)
ImplicitDefault(c) == \A i \in 1..NM(c) : ~IsCtor(c, i)
\* (constructibility of classes with bases, const members ... is C10's subject: no claim there)
CtorClaim(c) == Cls(c).bases = <<>> /\ \A i \in 1..NM(c) : Mbr(c, i).k \notin {"cdata", "ctor"}
CtorsDesc(c) ==
  [c |-> c, implicitCopy |-> ImplicitCopy(c), implicitDefault |-> ImplicitDefault(c),
   declared |-> {[i |-> i, variants |-> Variants(c, CtorSigOf(c, i)), copy |-> IsCopyCtor(c, i)] :
                   i \in {j \in 1..NM(c) : IsCtor(c, j) /\ [t |-> "m", c |-> c, i |-> j] \in RCallable}}]
\* a property / sequence: its own comment, else the comment of the accessor it names
PropDesc(c, i) == [c |-> c, i |-> i, seq |-> Mbr(c, i).k = "mseq", g |-> Mbr(c, i).gi,
                   cm |-> Mbr(c, i).cm, gcm |-> Mbr(c, Mbr(c, i).gi).cm]
DtorDesc(c, i) == [c |-> c, i |-> i, virtual |-> VirtualDtor(c), vclaim |-> DeclaresDtor(DtorOwner(c)),
                   inherited |-> InheritsDtor(c), owner |-> DtorOwner(c)]

Describe ==
  [fns |-> {FnDesc(e.c, e.i) : e \in {x \in RCallable : x.t = "m" /\ IsFn(Mbr(x.c, x.i).k) /\ ~IsCtor(x.c, x.i)}},
   topfns |-> {TopFnDesc(e.i) : e \in {x \in RCallable : x.t = "t" /\ lib.tops[x.i].k = "sig"}},
   props |-> {PropDesc(e.c, e.i) : e \in {x \in RCallable : x.t = "m" /\ Mbr(x.c, x.i).k \in PropKinds}},
   nprops |-> {[c |-> x.c, elements |-> Cardinality({i \in 1..NM(x.c) : [t |-> "m", c |-> x.c, i |-> i] \in RCallable
                                                                          /\ Mbr(x.c, i).k \in (DataKinds \cup {"mprop"})}),
                seqs |-> Cardinality({i \in 1..NM(x.c) : [t |-> "m", c |-> x.c, i |-> i] \in RCallable /\ Mbr(x.c, i).k = "mseq"})] :
                 x \in {y \in RDefined : IsClassT(y)}},
   data |-> {DataDesc(e.c, e.i) : e \in {x \in RCallable : x.t = "m" /\ Mbr(x.c, x.i).k \in {"data", "cdata", "sdata"}}},
   ctors |-> {CtorsDesc(x.c) : x \in {y \in RDefined : IsClassT(y) /\ CtorClaim(y.c)}},
   dtors |-> {DtorDesc(e.c, e.i) : e \in {x \in RCallable : x.t = "m" /\ Mbr(x.c, x.i).k \in {"dtor", "vdtor"}}},
   classes |-> {[c |-> x.c, derivations |-> Derivations(x.c), cm |-> Cls(x.c).cm, poly |-> Poly(x.c),
                 nmethods |-> NMethods(x.c), ncasts |-> NCasts(x.c),
                 nested |-> Cls(x.c).outer # 0, outer |-> Cls(x.c).outer] : x \in {y \in RDefined : IsClassT(y)}},
   enums |-> {[c |-> x.c, i |-> x.i, cm |-> Mbr(x.c, x.i).cm, k |-> Mbr(x.c, x.i).k] : x \in {y \in RDefined : ~IsClassT(y)}},
   tops |-> {[t |-> e.i, cm |-> lib.tops[e.i].cm] : e \in {x \in RCallable : x.t = "t" /\ lib.tops[x.i].k # "sig"}},
   typedefs |-> {[t |-> t, target |-> lib.tops[t].rc] : t \in {x \in 1..NT : TypedefGate(x)}}]

\* model invariants: the description is a function of the entity
DescFunctional ==
  done => /\ \A d1, d2 \in Describe.fns : (d1.c = d2.c /\ d1.i = d2.i) => d1 = d2
          /\ \A d \in Describe.fns : \A v \in d.variants : \A q \in 1..Len(v) : v[q].this <=> (q = 1 /\ HasThis(SigOf(d.c, d.i).role))
          /\ \A d \in Describe.fns : \A v1, v2 \in d.variants : Len(v1) = Len(v2) => v1 = v2
          /\ \A d \in Describe.classes : \A x \in d.derivations : ~(x.down /\ x.impossible) /\ (x.down => x.up)

DumpConstraint ==
  /\ WF
  /\ Shape(0)
  /\ IF done /\ phase = "build" /\ DumpFile # ""
       THEN CSVWrite("%1$s", <<ToJson([lib |-> lib, desc |-> Describe])>>, DumpFile)
       ELSE TRUE
=============================================================================
