----------------------------- MODULE IdbFileHist -----------------------------
(***************************************************************************)
(* HISTORIES of database files (property C12 quantifies over histories):   *)
(* several files of DIFFERENT 3.x minor formats, each holding the one      *)
(* record kind with version-gated fields (elements: has/clear from 3.1,    *)
(* del/length from 3.2, insert/getkey from 3.3 -- the only callers of      *)
(* get_file_minor_version()), loaded into ONE process one after the other. *)
(* The reader of module IdbFile is re-used unchanged for every file; its   *)
(* per-file version state fmaj/fmin is the explicit variable that every    *)
(* header step overwrites.  `queue` holds the files still to come, `past`  *)
(* what has been read; NextFile hands the next file to the reader.         *)
(* MIXED histories add files that must be rejected or flagged (truncated,  *)
(* newer major, newer minor, identifier mismatch) before, between and      *)
(* after good ones: the error flag, once raised, stays raised -- the C     *)
(* interface documents interrogate_error_flag() as "set true if there was  *)
(* some problem importing the database" and offers nothing to reset it --  *)
(* and a good file after a bad one is still merged completely.             *)
(***************************************************************************)
EXTENDS IdbFile

CONSTANTS HistStrs,      \* which adversarial strings (slot A) the history databases use
          HistPre,       \* subset of {"none", "base"}
          HistLens       \* subset of {2, 3}: number of files of a history

VARIABLES queue,   \* Seq([db, minor, kind]) files not yet read
          past     \* Seq([db, minor, first, kind, merged]) files read so far

BadKinds == {"cut", "major4", "minor4", "idmismatch"}
FileKinds == {"ok"} \cup BadKinds

hvars == <<vars, queue, past>>

\* the databases of a history: elements in every field pattern, alone and among other records
\* (no types: two files must not share a type name here, C13 covers that)
HistDb(n) ==
  LET E(v, j) == Tmpl("e", v, IdxOf(j), A, B, <<>>)
      F(v, j) == Tmpl("f", v, IdxOf(j), A, B, <<>>)
      M(v, j) == Tmpl("m", v, IdxOf(j), A, B, <<>>)
  IN CASE n = 1 -> [EmptyDb EXCEPT !.e = <<E(1, 1)>>]
       [] n = 2 -> [EmptyDb EXCEPT !.e = <<E(2, 1), E(3, 2)>>]
       [] n = 3 -> [EmptyDb EXCEPT !.f = <<F(1, 1)>>, !.e = <<E(1, 2), E(3, 4)>>, !.m = <<M(2, 3)>>]
HistDbs == 1..3

HistHdr(f) ==
  [NoHdr EXCEPT !.kind = f.kind,
                !.major = IF f.kind = "major4" THEN 4 ELSE CurrentMajor,
                !.minor = IF f.kind = "minor4" THEN 4 ELSE f.minor,
                !.defid = IF f.kind = "idmismatch" THEN FileId + 1 ELSE 0]
HistStream(f) ==
  LET h == HistHdr(f)
      file == WriteDbAs(f.db, h.major, h.minor)
  IN IF f.kind = "cut" THEN SubSeq(file, 1, Len(file) \div 2) ELSE file

StartFile(f) ==
  /\ db' = f.db
  /\ hdr' = HistHdr(f)
  /\ cut' = -1 /\ stream' = HistStream(f)
  /\ pc' = "header" /\ sec' = 0 /\ left' = 0 /\ st' = StartPos
  /\ temp' = EmptyTemp

File(d, m, k) == [db |-> HistDb(d), minor |-> m, kind |-> k]
Begin(files) ==
  /\ queue = Tail(files)
  /\ db = files[1].db /\ hdr = HistHdr(files[1]) /\ stream = HistStream(files[1])

HInit ==
  /\ par \in [a : HistStrs, pre : HistPre, layout : {"gaps"}]
  /\ \E n \in HistLens :
       \* (a) good files of different formats
       \/ \E ms \in [1..n -> 0..3], ds \in [1..n -> HistDbs] :
            /\ \E i, j \in 1..n : ms[i] # ms[j]                     \* at least two different formats
            /\ n = 3 => ds = <<1, 2, 3>>                            \* (three files: one choice of contents)
            /\ Begin([i \in 1..n |-> File(ds[i], ms[i], "ok")])
       \* (b) good and bad files mixed, in every order
       \/ \E ks \in [1..n -> FileKinds] :
            /\ \E i, j \in 1..n : ks[i] = "ok" /\ ks[j] # "ok"
            /\ Begin([i \in 1..n |-> File(i, 3, ks[i])])
  /\ past = <<>> /\ cut = -1
  /\ pc = "header" /\ sec = 0 /\ left = 0 /\ st = StartPos
  /\ fmaj = (IF par.pre = "base" THEN 3 ELSE 0) /\ fmin = (IF par.pre = "base" THEN 3 ELSE 0)
  /\ temp = EmptyTemp /\ glob = BaseGlob(par.pre) /\ err = FALSE

Merged(ps) == SelectSeq(ps, LAMBDA p : p.merged)
FirstOfCurrent == LET ms == Merged(past) IN
                  IF ms = <<>> THEN BaseGlob(par.pre).next ELSE ms[Len(ms)].first + NumRecs(ms[Len(ms)].db)

HRead == ReadNext /\ UNCHANGED <<queue, past>>

\* the file just read, as an entry of `past` (every history database has records, so "merged" shows in the tables)
Current(m) == [db |-> db, minor |-> hdr.minor, first |-> FirstOfCurrent, kind |-> hdr.kind, merged |-> m]

\* the next interrogate_request_database + load_latest in the same process; the error flag is never lowered
NextFile ==
  /\ pc = "done" /\ queue # <<>>
  /\ StartFile(Head(queue))
  /\ queue' = Tail(queue)
  /\ past' = Append(past, Current(glob.next # FirstOfCurrent))
  /\ UNCHANGED <<par, fmaj, fmin, glob, err>>                  \* the statics keep the previous file's version

HNext == HRead \/ NextFile
HSpec == HInit /\ [][HNext]_hvars

---------------------------------------------------------------------------
RECURSIVE PastTables(_)
PastTables(ps) ==
  IF ps = <<>> THEN Tables(BaseGlob(par.pre))
  ELSE LET before == PastTables(SubSeq(ps, 1, Len(ps) - 1))
           p == ps[Len(ps)]
           ld == Loaded(p.db, p.minor, p.first)
       IN IF p.merged THEN [k \in DOMAIN before |-> before[k] \o ld[k]] ELSE before
WithCurrent == PastTables(Append(past, Current(TRUE)))
MustMerge == hdr.kind \in {"ok", "idmismatch"}

\* every good file of the history is read with ITS OWN format and merged completely, whatever came before;
\* a rejected file leaves nothing
HistLoaded == pc = "done" => Tables(glob) = IF MustMerge THEN WithCurrent ELSE PastTables(past)
\* ... and at every step the global database holds whole files only
HistNeverHalf == Tables(glob) = PastTables(past) \/ (MustMerge /\ Tables(glob) = WithCurrent)
\* the error flag says whether ANY file so far was rejected or out of sync: raised by each kind, never lowered
HistFlagExact == pc = "done" => (err <=> (hdr.kind \in BadKinds \/ \E i \in 1..Len(past) : past[i].kind \in BadKinds))
FlagNeverLowered == [][err => err']_hvars
\* the version state the element reader consults is the one of the file being read
VersionFollowsHeader == pc \notin {"header", "done"} => fmaj = hdr.major /\ fmin = hdr.minor
HistReadInverts == pc = "remap" => Tables(temp) = Tables(ForceFlags(Defaults(db, hdr.minor)))

\* [first, next, lib, mod] of every loaded file
HistDefs ==
  LET all == Merged(Append(past, Current(pc = "done" /\ glob.next # FirstOfCurrent)))
  IN [i \in 1..Len(all) |-> [first |-> all[i].first, next |-> all[i].first + NumRecs(all[i].db),
                             lib |-> all[i].db.lib, mod |-> all[i].db.mod]]
\* the error flag the interface must show after each file of the history
RECURSIVE FlagsAfter(_)
FlagsAfter(ks) == IF ks = <<>> THEN <<>>
                  ELSE LET b == FlagsAfter(SubSeq(ks, 1, Len(ks) - 1))
                       IN Append(b, ks[Len(ks)] \in BadKinds \/ (b # <<>> /\ b[Len(b)]))
=============================================================================
