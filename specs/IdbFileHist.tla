----------------------------- MODULE IdbFileHist -----------------------------
(***************************************************************************)
(* HISTORIES of database files (property C12 quantifies over histories):   *)
(* several files of DIFFERENT 3.x minor formats, each holding the one      *)
(* record kind with version-gated fields (elements: has/clear from 3.1,    *)
(* del/length from 3.2, insert/getkey from 3.3 -- the only callers of      *)
(* get_file_minor_version()), loaded into ONE process one after the other. *)
(* The reader of module IdbFile is re-used unchanged for every file; its   *)
(* per-file version state fmaj/fmin is the explicit variable that every    *)
(* header step overwrites.  `queue` holds the files still to come, `past`  *)
(* what has been merged; NextFile hands the next file to the reader.       *)
(***************************************************************************)
EXTENDS IdbFile

CONSTANTS HistStrs,      \* which adversarial strings (slot A) the history databases use
          HistPre,       \* subset of {"none", "base"}
          HistLens       \* subset of {2, 3}: number of files of a history

VARIABLES queue,   \* Seq([db, minor]) files not yet read
          past     \* Seq([db, minor, first]) files merged so far

hvars == <<vars, queue, past>>

\* the databases of a history: elements in every field pattern, alone and among other records
\* (no types: two files must not share a type name here, C13 covers that)
HistDb(n) ==
  LET E(v, j) == Tmpl("e", v, IdxOf(j), A, B, <<>>)
      F(v, j) == Tmpl("f", v, IdxOf(j), A, B, <<>>)
      M(v, j) == Tmpl("m", v, IdxOf(j), A, B, <<>>)
  IN CASE n = 1 -> [EmptyDb EXCEPT !.e = <<E(1, 1)>>]
       [] n = 2 -> [EmptyDb EXCEPT !.e = <<E(2, 1), E(3, 2)>>]
       [] n = 3 -> [EmptyDb EXCEPT !.f = <<F(1, 1)>>, !.e = <<E(1, 2), E(3, 4)>>, !.m = <<M(2, 3)>>]
HistDbs == 1..3

StartFile(f) ==
  /\ db' = f.db
  /\ hdr' = [NoHdr EXCEPT !.major = CurrentMajor, !.minor = f.minor]
  /\ cut' = -1 /\ stream' = WriteDb(f.db, f.minor)
  /\ pc' = "header" /\ sec' = 0 /\ left' = 0 /\ st' = StartPos
  /\ temp' = EmptyTemp

HInit ==
  /\ par \in [a : HistStrs, pre : HistPre, layout : {"gaps"}]
  /\ \E n \in HistLens : \E ms \in [1..n -> 0..3], ds \in [1..n -> HistDbs] :
       /\ \E i, j \in 1..n : ms[i] # ms[j]                     \* at least two different formats
       /\ n = 3 => ds = <<1, 2, 3>>                            \* (three files: one choice of contents)
       /\ queue = [i \in 1..(n - 1) |-> [db |-> HistDb(ds[i + 1]), minor |-> ms[i + 1]]]
       /\ db = HistDb(ds[1])
       /\ hdr = [NoHdr EXCEPT !.major = CurrentMajor, !.minor = ms[1]]
       /\ stream = WriteDb(HistDb(ds[1]), ms[1])
  /\ past = <<>> /\ cut = -1
  /\ pc = "header" /\ sec = 0 /\ left = 0 /\ st = StartPos
  /\ fmaj = (IF par.pre = "base" THEN 3 ELSE 0) /\ fmin = (IF par.pre = "base" THEN 3 ELSE 0)
  /\ temp = EmptyTemp /\ glob = BaseGlob(par.pre) /\ err = FALSE

FirstOfCurrent == IF past = <<>> THEN BaseGlob(par.pre).next
                  ELSE past[Len(past)].first + NumRecs(past[Len(past)].db)

HRead == ReadNext /\ UNCHANGED <<queue, past>>

\* the next interrogate_request_database + load_latest in the same process
NextFile ==
  /\ pc = "done" /\ ~err /\ queue # <<>>
  /\ StartFile(Head(queue))
  /\ queue' = Tail(queue)
  /\ past' = Append(past, [db |-> db, minor |-> hdr.minor, first |-> FirstOfCurrent])
  /\ UNCHANGED <<par, fmaj, fmin, glob, err>>                  \* the statics keep the previous file's version

HNext == HRead \/ NextFile
HSpec == HInit /\ [][HNext]_hvars

---------------------------------------------------------------------------
RECURSIVE PastTables(_)
PastTables(ps) ==
  IF ps = <<>> THEN Tables(BaseGlob(par.pre))
  ELSE LET before == PastTables(SubSeq(ps, 1, Len(ps) - 1))
           p == ps[Len(ps)]
           ld == Loaded(p.db, p.minor, p.first)
       IN [k \in DOMAIN before |-> before[k] \o ld[k]]
WithCurrent == PastTables(Append(past, [db |-> db, minor |-> hdr.minor, first |-> FirstOfCurrent]))

\* every file of the history is read with ITS OWN format and merged completely
HistLoaded == pc = "done" => ~err /\ Tables(glob) = WithCurrent
\* ... and at every step the global database holds whole files only
HistNeverHalf == Tables(glob) = PastTables(past) \/ Tables(glob) = WithCurrent
\* the version state the element reader consults is the one of the file being read
VersionFollowsHeader == pc \notin {"header", "done"} => fmaj = hdr.major /\ fmin = hdr.minor
HistReadInverts == pc = "remap" => Tables(temp) = Tables(ForceFlags(Defaults(db, hdr.minor)))

\* [first, next, lib, mod] of every loaded file
HistDefs ==
  LET all == Append(past, [db |-> db, minor |-> hdr.minor, first |-> FirstOfCurrent])
  IN [i \in 1..Len(all) |-> [first |-> all[i].first, next |-> all[i].first + NumRecs(all[i].db),
                             lib |-> all[i].db.lib, mod |-> all[i].db.mod]]
=============================================================================
