SPECIFICATION Spec
CONSTANTS
  MaxDefs = 2
  MaxDepth = 3
  Connected = TRUE
  MinDefs = 1
  MaxUses = 1
  Size = "S"
  BodyTerms <- MCBodyTerms
  DfltProfiles <- MCDfltProfiles
  UseTerms <- MCUseTerms
  QueryTerms <- MCQueryTerms
INVARIANT ResultGround
INVARIANT Confluent
CONSTRAINT DumpConstraint
CHECK_DEADLOCK FALSE
