---------------------------- MODULE ConstExprMC ----------------------------
(* Model-checking wrapper of ConstExprGen: every complete expression whose value is defined
   (or that evaluates a zero divisor and therefore has no value) leaves TLC with the value
   the rule demands and with both token sequences; vf/checks/c07.py replays them. *)
EXTENDS ConstExprGen, Json, CSV, IOUtils

\* leaf alphabets (a cfg file cannot spell a negative number)
LvAll   == {0, 1, -1, 2, 3, 7, 8, 31, 255, 256, 1073741824, 2147483647, -2147483647}
LvQuick == {0, -1, 2, 7}
LvTyped == {-1, -2, 2}
LvThorough == {0, 1, -1, 2, 7, 31, 2147483647}

DumpFile == IF "VERIF_DUMP" \in DOMAIN IOEnv THEN IOEnv.VERIF_DUMP ELSE ""

DumpConstraint ==
  IF DumpFile # "" /\ Complete /\ stk[1].d # "ub"
    THEN CSVWrite("%1$s", <<ToJson([t |-> stk[1].t, d |-> stk[1].d, v |-> stk[1].v,
                                     m |-> Toks(stk[1].t), f |-> FullToks(stk[1].t)])>>, DumpFile)
    ELSE TRUE
=============================================================================
