---------------------------- MODULE PyObjectsHMC ----------------------------
(* Bounded wrapper of PyObjectsH: breadth-first over (instances, wrappers, helpers); every complete
   history (everything dropped again) reached by a shortest path is dumped.  In simulation mode the
   dump is tied to a unique end-marker step (the constraint is evaluated on every candidate). *)
EXTENDS PyObjectsH, Json, CSV, IOUtils

DumpFile == IF "VERIF_DUMP" \in DOMAIN IOEnv THEN IOEnv.VERIF_DUMP ELSE ""
View == <<inst, wr, hp>>
AllKinds == PropKinds
QuickKinds == {"seq", "mseq", "map", "mmap"}

DumpConstraint ==
  IF DumpFile # "" /\ AllDropped /\ Len(hist) >= 4 /\ \E n \in 1..Len(hist) : hist[n].op = "EvalProperty"
    THEN CSVWrite("%1$s", <<ToJson([steps |-> hist])>>, DumpFile)
    ELSE TRUE

EndMark == /\ Len(hist) = MaxDepth - 1
           /\ hist' = Append(hist, Snap("End", 0, 0, "", 0, wr, hp, inst))
           /\ UNCHANGED <<inst, wr, hp>>
SimNext == IF Len(hist) = MaxDepth - 1 THEN EndMark ELSE Next
SimSpec == Init /\ [][SimNext]_vars
SimConstraint ==
  IF DumpFile # "" /\ Len(hist) = MaxDepth
    THEN CSVWrite("%1$s", <<ToJson([steps |-> hist])>>, DumpFile)
    ELSE TRUE
=============================================================================
