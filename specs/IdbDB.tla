------------------------------- MODULE IdbDB -------------------------------
(***************************************************************************)
(* The interrogate database as a value, and the functions of               *)
(* src/interrogatedb that transform it.  No state: this module is shared   *)
(* by                                                                      *)
(*   Idb      (C13/C11: the lazy-load state machine, model-checked),       *)
(*   IdbTrace (hook traces of real runs consumed by Idb's actions),        *)
(*   IdbState (the invariants evaluated on raw-index dumps of real         *)
(*             databases).                                                 *)
(*                                                                         *)
(* A database is a record                                                  *)
(*   w,f,t,m,e,s : index -> record   (the six std::map members)            *)
(*   allT,globT,allF,globF,globM,globE : sequences of indices (vectors)    *)
(*   next : _next_index                                                    *)
(* with one index space shared by all six kinds.  Index-valued fields:     *)
(*   wrapper  fn rvd : function;  ret, ps[k] : type                        *)
(*   function cls : type;  cw[k], pw[k] : wrapper                          *)
(*   type     outer wrapped nested[k] derivs[k].base : type;               *)
(*            ctors[k] dtor methods[k] casts[k] derivs[k].up/.down : fn;   *)
(*            elems[k] : element;  mseqs[k] : make_seq                     *)
(*   manifest type : type; getter : function                               *)
(*   element  type : type; getter setter has clear del ins getkey len : fn *)
(*   make_seq lenf elemf : function                                        *)
(* 0 is "none".                                                            *)
(***************************************************************************)
EXTENDS Naturals, Integers, Sequences, FiniteSets, TLC, SequencesExt

SeqRange(q) == {q[k] : k \in DOMAIN q}
MaxOf(S) == CHOOSE x \in S : \A y \in S : x >= y
Asc(S) == SetToSortSeq(S, <)                      \* std::map iteration order
MapSeq(q, R(_)) == [k \in DOMAIN q |-> R(q[k])]
NoDup(q) == \A a, b \in DOMAIN q : q[a] = q[b] => a = b

EmptyDB == [w |-> <<>>, f |-> <<>>, t |-> <<>>, m |-> <<>>, e |-> <<>>, s |-> <<>>,
            allT |-> <<>>, globT |-> <<>>, allF |-> <<>>, globF |-> <<>>, globM |-> <<>>, globE |-> <<>>,
            next |-> 1]

Indices(db) == DOMAIN db.w \cup DOMAIN db.f \cup DOMAIN db.t \cup DOMAIN db.m \cup DOMAIN db.e \cup DOMAIN db.s
Count(db) == Cardinality(DOMAIN db.w) + Cardinality(DOMAIN db.f) + Cardinality(DOMAIN db.t)
             + Cardinality(DOMAIN db.m) + Cardinality(DOMAIN db.e) + Cardinality(DOMAIN db.s)

---------------------------------------------------------------------------
(* X::remap_indices(const IndexRemapper &): one operator per record class, *)
(* every index field and every vector, as in the six .cxx files.           *)
RemapW(r, R(_)) == [r EXCEPT !.fn = R(@), !.rvd = R(@), !.ret = R(@), !.ps = MapSeq(@, R)]
RemapF(r, R(_)) == [r EXCEPT !.cls = R(@), !.cw = MapSeq(@, R), !.pw = MapSeq(@, R)]
RemapD(d, R(_)) == [d EXCEPT !.base = R(@), !.up = R(@), !.down = R(@)]
RemapT(r, R(_)) == [r EXCEPT !.outer = R(@), !.wrapped = R(@), !.ctors = MapSeq(@, R), !.dtor = R(@),
                             !.elems = MapSeq(@, R), !.methods = MapSeq(@, R), !.casts = MapSeq(@, R),
                             !.mseqs = MapSeq(@, R),
                             !.derivs = [k \in DOMAIN @ |-> RemapD(@[k], R)],
                             !.nested = MapSeq(@, R)]
RemapM(r, R(_)) == [r EXCEPT !.type = R(@), !.getter = R(@)]
RemapE(r, R(_)) == [r EXCEPT !.type = R(@), !.getter = R(@), !.setter = R(@), !.has = R(@), !.clear = R(@),
                             !.del = R(@), !.ins = R(@), !.getkey = R(@), !.len = R(@)]
RemapS(r, R(_)) == [r EXCEPT !.lenf = R(@), !.elemf = R(@)]

(* InterrogateDatabase::remap_indices(first_index, IndexRemapper &):       *)
(* wrappers first and consecutive, then functions, types, manifests,       *)
(* elements, make_seqs; then every record and every enumeration vector is  *)
(* rewritten through the remapper; _next_index = one past the last.        *)
RemapOrder(db) == Asc(DOMAIN db.w) \o Asc(DOMAIN db.f) \o Asc(DOMAIN db.t)
                  \o Asc(DOMAIN db.m) \o Asc(DOMAIN db.e) \o Asc(DOMAIN db.s)

RemapDB(db, first) ==
  LET order == RemapOrder(db)
      \* add_mapping overwrites: the LAST position of an old index wins
      NewOf(i) == first - 1 + MaxOf({k \in DOMAIN order : order[k] = i})
      Mapped == SeqRange(order)
      R(i) == IF i \in Mapped THEN NewOf(i) ELSE i
      nw == Cardinality(DOMAIN db.w)  nf == Cardinality(DOMAIN db.f)  nt == Cardinality(DOMAIN db.t)
      nm == Cardinality(DOMAIN db.m)  ne == Cardinality(DOMAIN db.e)  ns == Cardinality(DOMAIN db.s)
      ow == Asc(DOMAIN db.w)  of == Asc(DOMAIN db.f)  ot == Asc(DOMAIN db.t)
      om == Asc(DOMAIN db.m)  oe == Asc(DOMAIN db.e)  os == Asc(DOMAIN db.s)
      bw == first  bf == bw + nw  bt == bf + nf  bm == bt + nt  be == bm + nm  bs == be + ne
  IN [w |-> [j \in bw..(bw + nw - 1) |-> RemapW(db.w[ow[j - bw + 1]], R)],
      f |-> [j \in bf..(bf + nf - 1) |-> RemapF(db.f[of[j - bf + 1]], R)],
      t |-> [j \in bt..(bt + nt - 1) |-> RemapT(db.t[ot[j - bt + 1]], R)],
      m |-> [j \in bm..(bm + nm - 1) |-> RemapM(db.m[om[j - bm + 1]], R)],
      e |-> [j \in be..(be + ne - 1) |-> RemapE(db.e[oe[j - be + 1]], R)],
      s |-> [j \in bs..(bs + ns - 1) |-> RemapS(db.s[os[j - bs + 1]], R)],
      allT |-> MapSeq(db.allT, R), globT |-> MapSeq(db.globT, R),
      allF |-> MapSeq(db.allF, R), globF |-> MapSeq(db.globF, R),
      globM |-> MapSeq(db.globM, R), globE |-> MapSeq(db.globE, R),
      next |-> bs + ns]

---------------------------------------------------------------------------
(* read_new: the records of a file (maps only) are added one by one with   *)
(* add_function / add_wrapper / add_type / add_manifest / add_element /    *)
(* add_make_seq in file (= ascending index) order; this builds the         *)
(* enumeration vectors.                                                    *)
ReadNewDB(file) ==
  [w |-> file.w, f |-> file.f, t |-> file.t, m |-> file.m, e |-> file.e, s |-> file.s,
   allF |-> Asc(DOMAIN file.f),
   globF |-> Asc({i \in DOMAIN file.f : file.f[i].gl}),
   allT |-> Asc(DOMAIN file.t),
   globT |-> Asc({i \in DOMAIN file.t : file.t[i].gl}),
   globM |-> Asc(DOMAIN file.m),
   globE |-> Asc({i \in DOMAIN file.e : file.e[i].gl}),
   next |-> 1]

---------------------------------------------------------------------------
(* InterrogateType::merge_with                                             *)
MergeWith(this, other) ==
  IF this.fd /\ (~other.fd \/ ~other.gl)
    THEN [this EXCEPT !.gl = this.gl \/ other.gl]                  \* we win
    ELSE [other EXCEPT !.gl = other.gl \/ this.gl]                 \* they win

(* InterrogateDatabase::merge_from(other).  `this` keeps its _next_index.  *)
SharedTypes(this, other) ==
  LET mine == {this.t[i].tn : i \in DOMAIN this.t} \ {""}          \* has_true_name()
  IN {i \in DOMAIN other.t : other.t[i].n # "" /\ other.t[i].tn \in mine}   \* has_name(), find(true name)

MergeRemap(this, other) ==
  [i \in SharedTypes(this, other) |->
     MaxOf({j \in DOMAIN this.t : this.t[j].tn = other.t[i].tn})]   \* map insertion in index order: last wins

MergeDB(this, other) ==
  LET remap == MergeRemap(this, other)
      R(i) == IF i \in DOMAIN remap THEN remap[i] ELSE i
      \* the type loop, in ascending index order of other._type_map
      TStep(acc, i) ==
        LET ot == other.t[i] IN
        IF i \notin DOMAIN remap
          THEN \* add_type(i, ot); update_type(i).remap_indices(remap)
               LET placed == IF i \in DOMAIN acc.t THEN MergeWith(acc.t[i], ot) ELSE ot IN
               [t |-> [j \in DOMAIN acc.t \cup {i} |-> IF j = i THEN RemapT(placed, R) ELSE acc.t[j]],
                allT |-> Append(acc.allT, i),
                globT |-> IF ot.gl THEN Append(acc.globT, i) ELSE acc.globT]
          ELSE LET j == remap[i]
                   tt == acc.t[j] IN
               [t |-> [acc.t EXCEPT ![j] = MergeWith(tt, RemapT(ot, R))],
                allT |-> acc.allT,
                globT |-> IF ~tt.gl /\ ot.gl THEN Append(acc.globT, j) ELSE acc.globT]
      ty == FoldLeft(TStep, [t |-> this.t, allT |-> this.allT, globT |-> this.globT], Asc(DOMAIN other.t))
      Ext(mine, theirs, RR(_, _)) ==
        [j \in DOMAIN mine \cup DOMAIN theirs |-> IF j \in DOMAIN theirs THEN RR(theirs[j], j) ELSE mine[j]]
      RF(r, j) == RemapF(r, R)  RW(r, j) == RemapW(r, R)  RM(r, j) == RemapM(r, R)
      RE(r, j) == RemapE(r, R)  RS(r, j) == RemapS(r, R)
  IN [w |-> Ext(this.w, other.w, RW),
      f |-> Ext(this.f, other.f, RF),
      t |-> ty.t,
      m |-> Ext(this.m, other.m, RM),
      e |-> Ext(this.e, other.e, RE),
      s |-> Ext(this.s, other.s, RS),
      allT |-> ty.allT, globT |-> ty.globT,
      allF |-> this.allF \o Asc(DOMAIN other.f),
      globF |-> this.globF \o Asc({i \in DOMAIN other.f : other.f[i].gl}),
      globM |-> this.globM \o Asc(DOMAIN other.m),
      globE |-> this.globE \o Asc({i \in DOMAIN other.e : other.e[i].gl}),
      next |-> this.next]

MergedCount(this, other) == Cardinality(SharedTypes(this, other))

---------------------------------------------------------------------------
(* freshen_*: the by-name tables.  Later (higher) indices overwrite.       *)
CacheKinds == {"tn", "tsn", "ttn", "mn", "en", "esn"}
TableOf(db, kind) ==
  LET src == CASE kind \in {"tn", "tsn", "ttn"} -> db.t [] kind = "mn" -> db.m [] OTHER -> db.e
      Key(r) == CASE kind = "tn" -> r.n [] kind = "tsn" -> r.sn [] kind = "ttn" -> r.tn
                  [] kind = "mn" -> r.n [] kind = "en" -> r.n [] kind = "esn" -> r.sn
      keys == {Key(src[i]) : i \in DOMAIN src}
  IN [x \in keys |-> MaxOf({i \in DOMAIN src : Key(src[i]) = x})]
LookupIn(tbl, x) == IF x \in DOMAIN tbl THEN tbl[x] ELSE 0

---------------------------------------------------------------------------
(* C11 invariants, over a database value.                                  *)
TIx(db) == DOMAIN db.t   FIx(db) == DOMAIN db.f   WIx(db) == DOMAIN db.w
MIx(db) == DOMAIN db.m   EIx(db) == DOMAIN db.e   SIx(db) == DOMAIN db.s

OneIndexSpace(db) ==
  Count(db) = Cardinality(Indices(db))

Opt(S) == S \cup {0}
ClosedW(db, r) == /\ r.fn \in FIx(db) /\ r.rvd \in Opt(FIx(db)) /\ r.ret \in Opt(TIx(db))
                  /\ SeqRange(r.ps) \subseteq TIx(db)
ClosedF(db, r) == /\ r.cls \in Opt(TIx(db)) /\ SeqRange(r.cw) \subseteq WIx(db) /\ SeqRange(r.pw) \subseteq WIx(db)
ClosedT(db, r) == /\ r.outer \in Opt(TIx(db)) /\ r.wrapped \in Opt(TIx(db))
                  /\ SeqRange(r.ctors) \subseteq FIx(db) /\ r.dtor \in Opt(FIx(db))
                  /\ SeqRange(r.elems) \subseteq EIx(db) /\ SeqRange(r.methods) \subseteq FIx(db)
                  /\ SeqRange(r.casts) \subseteq FIx(db) /\ SeqRange(r.mseqs) \subseteq SIx(db)
                  /\ SeqRange(r.nested) \subseteq TIx(db)
                  /\ \A k \in DOMAIN r.derivs :
                        /\ r.derivs[k].base \in TIx(db)
                        /\ r.derivs[k].up \in Opt(FIx(db)) /\ r.derivs[k].down \in Opt(FIx(db))
ClosedM(db, r) == r.type \in Opt(TIx(db)) /\ r.getter \in Opt(FIx(db))
ClosedE(db, r) == /\ r.type \in Opt(TIx(db))
                  /\ {r.getter, r.setter, r.has, r.clear, r.del, r.ins, r.getkey, r.len} \subseteq Opt(FIx(db))
ClosedS(db, r) == {r.lenf, r.elemf} \subseteq Opt(FIx(db))
ClosedVectors(db) ==
  /\ SeqRange(db.allT) \subseteq TIx(db) /\ SeqRange(db.globT) \subseteq TIx(db)
  /\ SeqRange(db.allF) \subseteq FIx(db) /\ SeqRange(db.globF) \subseteq FIx(db)
  /\ SeqRange(db.globM) \subseteq MIx(db) /\ SeqRange(db.globE) \subseteq EIx(db)

\* the sets of offending indices (empty = closed); used as witnesses by IdbState
OpenW(db) == {i \in WIx(db) : ~ClosedW(db, db.w[i])}
OpenF(db) == {i \in FIx(db) : ~ClosedF(db, db.f[i])}
OpenT(db) == {i \in TIx(db) : ~ClosedT(db, db.t[i])}
OpenM(db) == {i \in MIx(db) : ~ClosedM(db, db.m[i])}
OpenE(db) == {i \in EIx(db) : ~ClosedE(db, db.e[i])}
OpenS(db) == {i \in SIx(db) : ~ClosedS(db, db.s[i])}
Open(db) == OpenW(db) \cup OpenF(db) \cup OpenT(db) \cup OpenM(db) \cup OpenE(db) \cup OpenS(db)

ClosedDB(db) == Open(db) = {} /\ ClosedVectors(db) /\ OneIndexSpace(db)
                /\ \A i \in Indices(db) : i >= 1 /\ i < db.next

\* wrappers occupy first .. first+#w-1 (remap_indices: "wrappers first, and consecutive")
WrappersFirstDB(db, first) == WIx(db) = first..(first + Cardinality(WIx(db)) - 1)

\* links that every database keeps (container -> member)
LinkWF(db) ==   \* wrapper -> function -> wrapper
  {i \in WIx(db) : db.w[i].fn \in FIx(db) =>
                     i \notin SeqRange(db.f[db.w[i].fn].cw) \cup SeqRange(db.f[db.w[i].fn].pw)}
LinkFW(db) ==   \* function -> wrapper -> function
  {i \in FIx(db) : \E w \in SeqRange(db.f[i].cw) \cup SeqRange(db.f[i].pw) : w \in WIx(db) /\ db.w[w].fn # i}
LinkNested(db) ==   \* type -> nested -> outer
  {i \in TIx(db) : \E n \in SeqRange(db.t[i].nested) : n \in TIx(db) /\ db.t[n].outer # i}
LinkOuter(db) ==    \* nested type -> outer class -> nested list
  {i \in TIx(db) : db.t[i].outer \in TIx(db) /\ db.t[db.t[i].outer].fd /\ i \notin SeqRange(db.t[db.t[i].outer].nested)}
LinkMethods(db) ==  \* type -> method/ctor/cast -> class
  {i \in TIx(db) : \E m \in SeqRange(db.t[i].methods) \cup SeqRange(db.t[i].ctors) \cup SeqRange(db.t[i].casts) :
                      m \in FIx(db) /\ db.f[m].cls # i}
LinkNoDup(db) == {i \in TIx(db) : ~(NoDup(db.t[i].methods) /\ NoDup(db.t[i].ctors) /\ NoDup(db.t[i].elems)
                                     /\ NoDup(db.t[i].nested) /\ NoDup(db.t[i].mseqs) /\ NoDup(db.t[i].casts))}
                 \cup {i \in FIx(db) : ~NoDup(db.f[i].cw \o db.f[i].pw)}
LinksDB(db) == LinkWF(db) \cup LinkFW(db) \cup LinkNested(db) \cup LinkMethods(db) \cup LinkNoDup(db)
LinksConsistentDB(db) == LinksDB(db) = {}

\* links that hold in the database of ONE library (member -> container); after a merge a
\* function of a library whose definition of a shared class lost stays behind as an orphan.
ElemFns(db, e) == IF e \in EIx(db) THEN LET r == db.e[e] IN {r.getter, r.setter, r.has, r.clear, r.del, r.ins, r.getkey, r.len} ELSE {}
BackMethods(db) ==   \* a member function is reachable from its class: as method / constructor / destructor / cast,
                     \* as up- or downcast of a derivation, or as accessor of one of the class's elements
  {i \in FIx(db) : db.f[i].cls \in TIx(db) /\ db.t[db.f[i].cls].fd /\ db.f[i].method /\
       LET ci == db.f[i].cls
           c == db.t[ci] IN
       i \notin SeqRange(c.methods) \cup SeqRange(c.ctors) \cup SeqRange(c.casts) \cup {c.dtor}
                \cup {c.derivs[k].up : k \in DOMAIN c.derivs}
                \cup UNION {{db.t[t].derivs[k].down : k \in {q \in DOMAIN db.t[t].derivs : db.t[t].derivs[q].base = ci}} : t \in TIx(db)}
                \cup UNION {ElemFns(db, c.elems[k]) : k \in DOMAIN c.elems}}
BackLinksDB(db) == BackMethods(db) \cup LinkOuter(db)

VectorsExactDB(db) ==
  /\ NoDup(db.allT) /\ NoDup(db.globT) /\ NoDup(db.allF) /\ NoDup(db.globF) /\ NoDup(db.globM) /\ NoDup(db.globE)
  /\ SeqRange(db.allT) = TIx(db) /\ SeqRange(db.allF) = FIx(db) /\ SeqRange(db.globM) = MIx(db)
  /\ SeqRange(db.globT) = {i \in TIx(db) : db.t[i].gl}
  /\ SeqRange(db.globF) = {i \in FIx(db) : db.f[i].gl}
  /\ SeqRange(db.globE) = {i \in EIx(db) : db.e[i].gl}

DupTrueNames(db) == {i \in TIx(db) : db.t[i].tn # "" /\ \E j \in TIx(db) : j # i /\ db.t[j].tn = db.t[i].tn}
DupUnique(db) == {i \in WIx(db) : db.w[i].un # "" /\ \E j \in WIx(db) : j # i /\ db.w[j].un = db.w[i].un}
DupWName(db) == {i \in WIx(db) : db.w[i].n # "" /\ \E j \in WIx(db) : j # i /\ db.w[j].n = db.w[i].n}
UniqueNamesDB(db) == DupTrueNames(db) = {} /\ DupUnique(db) = {} /\ DupWName(db) = {}

---------------------------------------------------------------------------
(* The index-free projection: names only.  Equality of projections (plus   *)
(* unique keys) is isomorphism of databases.                               *)
TKey(db, i) == IF i = 0 THEN ""
               ELSE IF i \in TIx(db)
                      THEN (IF db.t[i].tn # "" THEN db.t[i].tn ELSE "#" \o db.t[i].lib \o "#" \o db.t[i].n)
                      ELSE "?t" \o ToString(i)
FKey(db, i) == IF i = 0 THEN "" ELSE IF i \in FIx(db) THEN db.f[i].lib \o "|" \o db.f[i].sn ELSE "?f" \o ToString(i)
EKey(db, i) == IF i = 0 THEN "" ELSE IF i \in EIx(db) THEN db.e[i].lib \o "|" \o db.e[i].sn ELSE "?e" \o ToString(i)
SKey(db, i) == IF i = 0 THEN "" ELSE IF i \in SIx(db) THEN db.s[i].lib \o "|" \o db.s[i].sn ELSE "?s" \o ToString(i)
MKey(db, i) == IF i = 0 THEN "" ELSE IF i \in MIx(db) THEN db.m[i].lib \o "|" \o db.m[i].n ELSE "?m" \o ToString(i)

PW(db, i) == IF i \notin WIx(db) THEN [bad |-> "?w" \o ToString(i)] ELSE
  LET r == db.w[i] IN
  [n |-> r.n, lib |-> r.lib, fn |-> FKey(db, r.fn), ret |-> TKey(db, r.ret), rvd |-> FKey(db, r.rvd),
   ps |-> [k \in DOMAIN r.ps |-> TKey(db, r.ps[k])]]
PT(db, i) == LET r == db.t[i] IN
  [tn |-> TKey(db, i), n |-> r.n, sn |-> r.sn, lib |-> r.lib, fd |-> r.fd, gl |-> r.gl,
   outer |-> TKey(db, r.outer), wrapped |-> TKey(db, r.wrapped),
   ctors |-> [k \in DOMAIN r.ctors |-> FKey(db, r.ctors[k])], dtor |-> FKey(db, r.dtor),
   elems |-> [k \in DOMAIN r.elems |-> EKey(db, r.elems[k])],
   methods |-> [k \in DOMAIN r.methods |-> FKey(db, r.methods[k])],
   mseqs |-> [k \in DOMAIN r.mseqs |-> SKey(db, r.mseqs[k])],
   casts |-> [k \in DOMAIN r.casts |-> FKey(db, r.casts[k])],
   derivs |-> [k \in DOMAIN r.derivs |-> <<TKey(db, r.derivs[k].base), FKey(db, r.derivs[k].up), FKey(db, r.derivs[k].down)>>],
   nested |-> [k \in DOMAIN r.nested |-> TKey(db, r.nested[k])]]
PF(db, i) == LET r == db.f[i] IN
  [lib |-> r.lib, sn |-> r.sn, cls |-> TKey(db, r.cls),
   cw |-> [k \in DOMAIN r.cw |-> PW(db, r.cw[k])], pw |-> [k \in DOMAIN r.pw |-> PW(db, r.pw[k])]]
PE(db, i) == LET r == db.e[i] IN
  [lib |-> r.lib, sn |-> r.sn, gl |-> r.gl, type |-> TKey(db, r.type), getter |-> FKey(db, r.getter),
   setter |-> FKey(db, r.setter), has |-> FKey(db, r.has), clear |-> FKey(db, r.clear), del |-> FKey(db, r.del),
   ins |-> FKey(db, r.ins), getkey |-> FKey(db, r.getkey), len |-> FKey(db, r.len)]
PM(db, i) == LET r == db.m[i] IN [lib |-> r.lib, n |-> r.n, type |-> TKey(db, r.type), getter |-> FKey(db, r.getter)]
PS(db, i) == LET r == db.s[i] IN [lib |-> r.lib, sn |-> r.sn, lenf |-> FKey(db, r.lenf), elemf |-> FKey(db, r.elemf)]

Project(db) ==
  [T |-> {PT(db, i) : i \in TIx(db)}, F |-> {PF(db, i) : i \in FIx(db)}, E |-> {PE(db, i) : i \in EIx(db)},
   M |-> {PM(db, i) : i \in MIx(db)}, S |-> {PS(db, i) : i \in SIx(db)},
   allT |-> [k \in DOMAIN db.allT |-> TKey(db, db.allT[k])], globT |-> [k \in DOMAIN db.globT |-> TKey(db, db.globT[k])],
   allF |-> [k \in DOMAIN db.allF |-> FKey(db, db.allF[k])], globF |-> [k \in DOMAIN db.globF |-> FKey(db, db.globF[k])],
   globM |-> [k \in DOMAIN db.globM |-> MKey(db, db.globM[k])], globE |-> [k \in DOMAIN db.globE |-> EKey(db, db.globE[k])],
   nw |-> Cardinality(WIx(db)), nt |-> Cardinality(TIx(db)), nf |-> Cardinality(FIx(db)),
   ne |-> Cardinality(EIx(db)), nm |-> Cardinality(MIx(db)), ns |-> Cardinality(SIx(db))]

---------------------------------------------------------------------------
(* The reference: Union of the single-library projections Ps.              *)
(* Types with equal true name are identified; a fully defined definition   *)
(* wins over a forward one, a global fully-defined one over a non-global   *)
(* one; global-ness is the union.  Where several candidates of the winning *)
(* class exist (the same class fully defined by two libraries, or only     *)
(* forward declarations) the rule leaves the attribution open.             *)
Cands(Ps, name) == {r \in UNION {p.T : p \in Ps} : r.tn = name}
Winners(C) == LET FD == {r \in C : r.fd}  G == {r \in FD : r.gl}
              IN IF FD = {} THEN C ELSE IF G # {} THEN G ELSE FD
AllowedT(Ps, name) == LET C == Cands(Ps, name)  g == \E r \in C : r.gl
                      IN {[r EXCEPT !.gl = g] : r \in Winners(C)}
UNames(Ps) == {r.tn : r \in UNION {p.T : p \in Ps}}
IsBagOf(q, S) == NoDup(q) /\ SeqRange(q) = S
SumOver(Ps, Fld(_)) == FoldLeft(LAMBDA a, p : a + Fld(p), 0, SetToSeq(Ps))

UnionTypesOK(P, Ps) ==
  /\ {r.tn : r \in P.T} = UNames(Ps)
  /\ Cardinality(P.T) = Cardinality(UNames(Ps)) /\ P.nt = Cardinality(UNames(Ps))   \* one record per name
  /\ \A r \in P.T : r \in AllowedT(Ps, r.tn)
UnionRestOK(P, Ps) ==
  /\ P.F = UNION {p.F : p \in Ps} /\ P.E = UNION {p.E : p \in Ps}
  /\ P.M = UNION {p.M : p \in Ps} /\ P.S = UNION {p.S : p \in Ps}
  /\ P.nw = SumOver(Ps, LAMBDA p : p.nw) /\ P.nf = SumOver(Ps, LAMBDA p : p.nf)
  /\ P.ne = SumOver(Ps, LAMBDA p : p.ne) /\ P.nm = SumOver(Ps, LAMBDA p : p.nm)
  /\ P.ns = SumOver(Ps, LAMBDA p : p.ns)
UnionVectorsOK(P, Ps) ==
  /\ IsBagOf(P.allT, UNames(Ps))
  /\ IsBagOf(P.globT, {n \in UNames(Ps) : \E r \in Cands(Ps, n) : r.gl})
  /\ Len(P.allF) = P.nf /\ SeqRange(P.allF) = UNION {SeqRange(p.allF) : p \in Ps}
  /\ SeqRange(P.globF) = UNION {SeqRange(p.globF) : p \in Ps}
  /\ Len(P.globF) = SumOver(Ps, LAMBDA p : Len(p.globF))
  /\ SeqRange(P.globM) = UNION {SeqRange(p.globM) : p \in Ps} /\ Len(P.globM) = P.nm
  /\ SeqRange(P.globE) = UNION {SeqRange(p.globE) : p \in Ps}
  /\ Len(P.globE) = SumOver(Ps, LAMBDA p : Len(p.globE))
UnionOKP(P, Ps) == UnionTypesOK(P, Ps) /\ UnionRestOK(P, Ps) /\ UnionVectorsOK(P, Ps)

---------------------------------------------------------------------------
(* Links checked BY NAME.  An index that is stale but happens to land on a *)
(* live record of the right kind passes ClosedDB; these rules compare the  *)
(* names at both ends of a link.                                           *)
(*  - owner rules (hold in every database): the accessors of an element    *)
(*    listed by class C, the getters of a make_seq of C, the constructors, *)
(*    methods and casts of C are functions of class C.                     *)
(*  - builder naming (databases written by interrogate): a member function *)
(*    is scoped by its class, a constructor is named like its class (cn:   *)
(*    the class name without template arguments), a                        *)
(*    destructor ~class, a synthesised getter/setter get_/set_<element>,   *)
(*    an upcast Derived::upcast_to_Base, a downcast                        *)
(*    Base::downcast_to_Derived, members and nested types are scoped by    *)
(*    their class, a pointer / const type is named after the type it       *)
(*    wraps (so a stale wrapped_type that lands on another live type is    *)
(*    caught; a pointer to a type the builder removed again, e.g. a        *)
(*    function type, wraps 0).                                             *)
ElemFields(r) == <<r.getter, r.setter, r.has, r.clear, r.del, r.ins, r.getkey, r.len>>
OwnerViol(db) ==
  UNION {{<<"element", t, e>> : e \in {x \in SeqRange(db.t[t].elems) \cap EIx(db) :
              \E f \in SeqRange(ElemFields(db.e[x])) : f \in FIx(db) /\ db.f[f].cls # t}} : t \in TIx(db)}
  \cup UNION {{<<"make_seq", t, q>> : q \in {x \in SeqRange(db.t[t].mseqs) \cap SIx(db) :
              \E f \in {db.s[x].lenf, db.s[x].elemf} : f \in FIx(db) /\ db.f[f].cls # t}} : t \in TIx(db)}
  \cup {<<"global element", 0, e>> : e \in {x \in SeqRange(db.globE) \cap EIx(db) :
              \E f \in SeqRange(ElemFields(db.e[x])) : f \in FIx(db) /\ db.f[f].cls # 0}}

BuilderNameViol(db) ==
  {<<"member function scope", i>> : i \in {f \in FIx(db) : db.f[f].cls \in TIx(db) /\
        db.f[f].sn # db.t[db.f[f].cls].sn \o "::" \o db.f[f].n}}
  \cup {<<"constructor name", t>> : t \in {x \in TIx(db) :
        \E c \in SeqRange(db.t[x].ctors) \cap FIx(db) : db.f[c].n # db.t[x].cn}}
  \cup {<<"destructor name", t>> : t \in {x \in TIx(db) : db.t[x].dtor \in FIx(db) /\
        LET d == db.f[db.t[x].dtor] IN d.cls \in TIx(db) /\ d.n # "~" \o db.t[d.cls].cn}}
  \cup {<<"getter name", e>> : e \in {x \in EIx(db) : db.e[x].getter \in FIx(db) /\
        db.f[db.e[x].getter].isget /\ db.f[db.e[x].getter].n # "get_" \o db.e[x].n}}
  \cup {<<"manifest getter name", m>> : m \in {x \in MIx(db) : db.m[x].getter \in FIx(db) /\
        db.f[db.m[x].getter].isget /\ db.f[db.m[x].getter].n # "get_" \o db.m[x].n}}
  \cup {<<"setter name", e>> : e \in {x \in EIx(db) : db.e[x].setter \in FIx(db) /\
        db.f[db.e[x].setter].isset /\ db.f[db.e[x].setter].n # "set_" \o db.e[x].n}}
  \cup {<<"upcast name", t>> : t \in {x \in TIx(db) : \E k \in DOMAIN db.t[x].derivs :
        LET d == db.t[x].derivs[k] IN
        d.up \in FIx(db) /\ d.base \in TIx(db) /\
        (db.f[d.up].cls # x \/ db.f[d.up].n # "upcast_to_" \o db.t[d.base].n)}}
  \cup {<<"downcast name", t>> : t \in {x \in TIx(db) : \E k \in DOMAIN db.t[x].derivs :
        LET d == db.t[x].derivs[k] IN
        d.down \in FIx(db) /\ d.base \in TIx(db) /\
        (db.f[d.down].cls # d.base \/ db.f[d.down].n # "downcast_to_" \o db.t[x].n)}}
  \cup {<<"pointer type name", t>> : t \in {x \in TIx(db) : db.t[x].ptr /\ db.t[x].wrapped \in TIx(db) /\
        db.t[db.t[x].wrapped].tn # "" /\ db.t[x].tn # db.t[db.t[x].wrapped].tn \o " *"}}
  \cup {<<"const type name", t>> : t \in {x \in TIx(db) : db.t[x].cst /\ db.t[x].wrapped \in TIx(db) /\
        db.t[db.t[x].wrapped].tn # "" /\ db.t[x].tn # db.t[db.t[x].wrapped].tn \o " const"}}
  \cup {<<"element scope", t>> : t \in {x \in TIx(db) : \E e \in SeqRange(db.t[x].elems) \cap EIx(db) :
        db.e[e].sn # db.t[x].sn \o "::" \o db.e[e].n}}
  \cup {<<"make_seq scope", t>> : t \in {x \in TIx(db) : \E q \in SeqRange(db.t[x].mseqs) \cap SIx(db) :
        db.s[q].sn # db.t[x].sn \o "::" \o db.s[q].n}}
  \cup {<<"nested scope", t>> : t \in {x \in TIx(db) : \E q \in SeqRange(db.t[x].nested) \cap TIx(db) :
        db.t[q].sn # db.t[x].sn \o "::" \o db.t[q].n}}

(* Signatures BY INDEX (databases written by interrogate): the `this`      *)
(* parameter of a wrapper is a (pointer to a possibly const) object of the  *)
(* class of the function the wrapper belongs to; for derivation k of class  *)
(* D with base B: every wrapper of the upcast function takes D and returns  *)
(* B, every wrapper of the downcast function takes B and returns D; a       *)
(* derivation whose downcast is impossible (virtual base) has none.         *)
RECURSIVE StripPC(_, _, _)
StripPC(db, i, k) == IF k = 0 \/ i \notin TIx(db) THEN i
                     ELSE IF (db.t[i].ptr \/ db.t[i].cst) /\ db.t[i].wrapped # 0
                            THEN StripPC(db, db.t[i].wrapped, k - 1) ELSE i
Target(db, i) == StripPC(db, i, 6)
WrappersOf(db, f) == (SeqRange(db.f[f].cw) \cup SeqRange(db.f[f].pw)) \cap WIx(db)
CastBad(db, f, from, to) ==
  \E w \in WrappersOf(db, f) : Len(db.w[w].ps) = 0 \/ Target(db, db.w[w].ps[1]) # from \/ Target(db, db.w[w].ret) # to
SigViol(db) ==
  {<<"this parameter", w>> : w \in {x \in WIx(db) : db.w[x].this /\ db.w[x].fn \in FIx(db) /\
        (Len(db.w[x].ps) = 0 \/ Target(db, db.w[x].ps[1]) # db.f[db.w[x].fn].cls)}}
  \cup {<<"upcast signature", t>> : t \in {x \in TIx(db) : \E k \in DOMAIN db.t[x].derivs :
        LET d == db.t[x].derivs[k] IN d.up \in FIx(db) /\ CastBad(db, d.up, x, d.base)}}
  \cup {<<"downcast signature", t>> : t \in {x \in TIx(db) : \E k \in DOMAIN db.t[x].derivs :
        LET d == db.t[x].derivs[k] IN d.down \in FIx(db) /\ CastBad(db, d.down, d.base, x)}}
  \cup {<<"downcast of a virtual base", t>> : t \in {x \in TIx(db) : \E k \in DOMAIN db.t[x].derivs :
        db.t[x].derivs[k].nodown /\ db.t[x].derivs[k].down # 0}}

(* Ground truth of the input header: truth is a sequence of                 *)
(*   [k |-> "e", sn |-> element, f |-> field, fn |-> scoped function name or ""]  *)
(*   [k |-> "s", sn |-> make_seq, f |-> "lenf"/"elemf", fn |-> ...]          *)
(* derived from the MAKE_* declarations of the header: where the named record *)
(* exists (a declaration the builder rejects, e.g. an unsuitable getter,      *)
(* leaves none; the check counts the matched entries) the field must link the *)
(* function of exactly that name.                                             *)
FieldOf(r, f) == CASE f = "getter" -> r.getter [] f = "setter" -> r.setter [] f = "has" -> r.has
                   [] f = "clear" -> r.clear [] f = "del" -> r.del [] f = "ins" -> r.ins
                   [] f = "getkey" -> r.getkey [] f = "len" -> r.len [] f = "lenf" -> r.lenf [] f = "elemf" -> r.elemf
FnName(db, i) == IF i = 0 THEN "" ELSE IF i \in FIx(db) THEN db.f[i].sn ELSE "?"
(*   [k |-> "b", sn |-> class, idx |-> i, base |-> name of its i-th base, virt |-> 0/1]  *)
(* the class must list that base at that position; a virtual base has no downcast. *)
TruthViol(db, truth) ==
  {k \in DOMAIN truth :
     LET x == truth[k] IN
     IF x.k = "b"
       THEN LET hits == {i \in TIx(db) : db.t[i].sn = x.sn /\ db.t[i].fd} IN
            \E i \in hits :
               \/ x.idx \notin DOMAIN db.t[i].derivs
               \/ LET d == db.t[i].derivs[x.idx] IN
                  d.base \notin TIx(db) \/ db.t[d.base].sn # x.base \/ (x.virt = 1 /\ d.down # 0)
       ELSE LET src == IF x.k = "e" THEN db.e ELSE db.s
                hits == {i \in DOMAIN src : src[i].sn = x.sn}
            IN \E i \in hits : FnName(db, FieldOf(src[i], x.f)) # x.fn}

---------------------------------------------------------------------------
(* A database given as JSON (dumps of real databases, files carried by a   *)
(* trace): {"w":[{"i":index,"r":record},...],...,"allT":[...],...}.        *)
MapOfJson(q) == [i \in {q[k].i : k \in DOMAIN q} |-> (CHOOSE x \in SeqRange(q) : x.i = i).r]
FileOfJson(j) == [w |-> MapOfJson(j.w), f |-> MapOfJson(j.f), t |-> MapOfJson(j.t),
                  m |-> MapOfJson(j.m), e |-> MapOfJson(j.e), s |-> MapOfJson(j.s)]
DBOfJson(j) == [w |-> MapOfJson(j.w), f |-> MapOfJson(j.f), t |-> MapOfJson(j.t),
                m |-> MapOfJson(j.m), e |-> MapOfJson(j.e), s |-> MapOfJson(j.s),
                allT |-> j.allT, globT |-> j.globT, allF |-> j.allF, globF |-> j.globF,
                globM |-> j.globM, globE |-> j.globE, next |-> j.next]

=============================================================================
