SPECIFICATION Spec
CONSTANTS
  ElemIgnore = TRUE
  Shape <- VirtShape
  MinVisSet <- PubOnly
  File2Srcs <- None
  ClassHeads <- VirtHeads
  NestedKeys <- None
  MemberAlpha <- VirtMembers
  MaxMembers <- M10
  MaxClasses = 4
  BaseAlpha <- VirtBases
  MaxBases = 2
  ClassComments <- NoComment
  TopAlpha <- None
  MaxTops = 0
  AliasAlpha <- None
  MaxAliases = 0
  NestedLike = FALSE
  CmdKinds <- None
INVARIANT OneOwner
INVARIANT RefsBackward
INVARIANT VisIsFunction
INVARIANT DescFunctional
INVARIANT Sound
INVARIANT Complete
CONSTRAINT DumpConstraint
CHECK_DEADLOCK FALSE
