SPECIFICATION Spec
CONSTANTS
  T = 2
  MaxRows = 60
  Variants = {0, 1, 2}
INVARIANT RowValid
INVARIANT BoundNotReached
PROPERTY Progress
CONSTRAINT DumpConstraint
CHECK_DEADLOCK FALSE
