SPECIFICATION Spec
CONSTANTS
  ElemIgnore = TRUE
  Shape <- AliasShape
  MinVisSet <- PubOnly
  File2Srcs <- FileSrcs
  ClassHeads <- AliasHeads
  NestedKeys <- None
  MemberAlpha <- AliasMembers
  MaxMembers <- M20
  MaxClasses = 2
  BaseAlpha <- None
  MaxBases = 1
  ClassComments <- NoComment
  TopAlpha <- AliasTops
  MaxTops = 1
  AliasAlpha <- AliasForms
  MaxAliases = 1
  NestedLike = FALSE
  CmdKinds <- None
INVARIANT SafeVis
INVARIANT SafeAccess
INVARIANT SafeKind
INVARIANT SafeFile
INVARIANT SafeSig
INVARIANT SafeOwner
INVARIANT SafeForeign
INVARIANT Consistent
INVARIANT Sound
INVARIANT Complete
INVARIANT Bounded
INVARIANT OneOwner
INVARIANT RefsBackward
INVARIANT VisIsFunction
CONSTRAINT DumpConstraint
CHECK_DEADLOCK FALSE
