------------------------------ MODULE IdbAlloc ------------------------------
(***************************************************************************)
(* Index-range allocation of InterrogateDatabase only (request_module /    *)
(* read), over unbounded integers: the inductive invariant checked with    *)
(* Apalache (apalache-mc check --init=IndInit --inv=IndInv --length=1      *)
(* and --init=Init --inv=IndInv --length=0).                                *)
(*   RequestMod(n)  a module def with n > 0 indices takes [next, next+n)   *)
(*                  at request time                                         *)
(*   RequestDb      a bare database request takes nothing yet               *)
(*   LoadDb(n)      ... and [next, next+n) when its file (n >= 0 records)   *)
(*                  is read                                                 *)
(* Ranges: non-empty ones are pairwise disjoint, lie in [1, next).          *)
(***************************************************************************)
EXTENDS Integers, Apalache

VARIABLES
  \* @type: Int;
  next,
  \* @type: Set({first: Int, next: Int});
  ranges,
  \* @type: Int;
  pending

Init == next = 1 /\ ranges = {} /\ pending = 0

RequestMod ==
  \E n \in Int :
    /\ n > 0
    /\ ranges' = ranges \cup {[first |-> next, next |-> next + n]}
    /\ next' = next + n
    /\ UNCHANGED pending

RequestDb == pending' = pending + 1 /\ UNCHANGED <<next, ranges>>

LoadDb ==
  \E n \in Int :
    /\ n >= 0 /\ pending > 0
    /\ ranges' = ranges \cup {[first |-> next, next |-> next + n]}
    /\ next' = next + n
    /\ pending' = pending - 1

Next == RequestMod \/ RequestDb \/ LoadDb

IndInv ==
  /\ next >= 1 /\ pending >= 0
  /\ \A r \in ranges : 1 <= r.first /\ r.first <= r.next /\ r.next <= next
  /\ \A r, q \in ranges : r = q \/ r.next <= q.first \/ q.next <= r.first \/ r.first = r.next \/ q.first = q.next

\* an arbitrary state satisfying the invariant, with up to 6 ranges over unbounded integers
IndInit == next \in Int /\ pending \in Int /\ ranges = Gen(6) /\ IndInv
=============================================================================
