------------------------------ MODULE PyObjects ------------------------------
(***************************************************************************)
(* C02, object part: ownership and const-ness of wrapped C++ instances.    *)
(*                                                                         *)
(* The behaviour is a call history over one published class Node:          *)
(*   Node()                      PyConstruct     new instance, owned by py *)
(*   Node make() const           ReturnByValue   a copy, owned by py       *)
(*   Node *child()               ReturnBorrowed  pointer to a part of this *)
(*   const Node &cchild() const  ReturnConstRef  the same part, const      *)
(*   Node &me()                  ReturnThis      this itself, borrowed     *)
(*   static Node *global_ptr()   ReturnStatic    a static instance         *)
(*   void look(const Node *p)    PassToCpp       C++ reads, keeps nothing  *)
(*   void touch()                CallNonConst    raises on a const wrapper *)
(*   del wrapper                 DropWrapper                               *)
(* C++ instances are [alive, owner in {py, cpp}, parent]; Python wrappers  *)
(* are [ptr, mem (memory_rules), const (is_const)].  The state after every *)
(* step is what the imported module must show (this_ownership, this_const, *)
(* identity of the wrapped instance, construction / destruction counters). *)
(* A history never uses a wrapper whose instance is dead (undefined in C++ *)
(* as well); dropping such a wrapper is allowed and must be harmless.      *)
(***************************************************************************)
EXTENDS Integers, Sequences, FiniteSets, TLC

CONSTANTS MaxInst,      \* instances created by a history (the static one not counted)
          MaxWrappers,  \* wrapper slots
          MaxDepth,     \* steps per history
          MaxMarks,     \* kinds of steps without effect on the heap that a history may contain
          EnableEmpty   \* BOOLEAN: wrappers without a C++ object (Cls.__new__(Cls), a Python subclass
                        \* whose __init__ does not chain up) and __init__ called explicitly

\* marks: the kinds of effect-free steps taken so far (part of the state, so that breadth-first
\* search keeps histories containing them although they reach no new heap)
VARIABLES inst, wr, hist, marks
vars == <<inst, wr, hist, marks>>

NoW == [ptr |-> 0, mem |-> FALSE, const |-> FALSE]
Slots == 1..MaxWrappers
\* ptr = 0: free slot; ptr = -1: a wrapper WITHOUT a C++ object; ptr > 0: the wrapped instance
Live(w) == wr[w].ptr # 0
Empty(w) == wr[w].ptr = -1
Usable(w) == wr[w].ptr > 0 /\ inst[wr[w].ptr].alive
Free == {w \in Slots : ~Live(w)}
NewSlot == CHOOSE w \in Free : \A v \in Free : w <= v

\* instance 1 is the static instance behind global_ptr()
\* origin (how the instance came to be) keeps by-value returns apart from constructor calls in the
\* breadth-first search, so that histories with either are kept
Static == [alive |-> TRUE, owner |-> "cpp", parent |-> 0, child |-> 0, destroyed |-> 0, touched |-> 0, killer |-> "none", origin |-> "static"]
NewInstO(o, par, org) == [alive |-> TRUE, owner |-> o, parent |-> par, child |-> 0, destroyed |-> 0, touched |-> 0, killer |-> "none", origin |-> org]
NewInst(o, par) == NewInstO(o, par, IF o = "py" THEN "ctor" ELSE "part")
Made == Len(inst) - 1
Died == Cardinality({i \in 1..Len(inst) : inst[i].destroyed > 0})
CanCreate == Made < MaxInst

Init == inst = <<Static>> /\ wr = [w \in Slots |-> NoW] /\ hist = <<>> /\ marks = {}
Mark(m) == (m \in marks \/ Cardinality(marks) < MaxMarks) /\ marks' = marks \cup {m}

Snap(op, w, src, exc, wr2, inst2) ==
  [op |-> op, w |-> w, src |-> src, exc |-> exc, wr |-> wr2,
   made |-> Len(inst2) - 1,
   died |-> Cardinality({i \in 1..Len(inst2) : inst2[i].destroyed > 0}),
   touched |-> [i \in 1..Len(inst2) |-> inst2[i].touched],
   alive |-> [i \in 1..Len(inst2) |-> inst2[i].alive]]

Record(op, w, src, exc) == hist' = Append(hist, Snap(op, w, src, exc, wr', inst'))

PyConstruct ==
  /\ Free # {} /\ CanCreate
  /\ inst' = Append(inst, NewInst("py", 0))
  /\ wr' = [wr EXCEPT ![NewSlot] = [ptr |-> Len(inst) + 1, mem |-> TRUE, const |-> FALSE]]
  /\ UNCHANGED marks
  /\ Record("PyConstruct", NewSlot, 0, "")

\* make() is const: allowed on const wrappers too; the copy is a fresh py-owned instance without parts
ReturnByValue(src) ==
  /\ Usable(src) /\ Free # {} /\ CanCreate
  /\ inst' = Append(inst, NewInstO("py", 0, "copy"))
  /\ wr' = [wr EXCEPT ![NewSlot] = [ptr |-> Len(inst) + 1, mem |-> TRUE, const |-> FALSE]]
  /\ UNCHANGED marks
  /\ Record("ReturnByValue", NewSlot, src, "")

\* the part of an instance is created by C++ on first use and dies with its parent
PartOf(i) == inst[i].child
WithPart(i) == IF PartOf(i) # 0 THEN inst
               ELSE Append([inst EXCEPT ![i].child = Len(inst) + 1], NewInst("cpp", i))
PartIx(i) == IF PartOf(i) # 0 THEN PartOf(i) ELSE Len(inst) + 1

ReturnBorrowed(src) ==
  /\ Usable(src) /\ ~wr[src].const /\ Free # {}
  /\ (PartOf(wr[src].ptr) # 0 \/ CanCreate)
  /\ inst' = WithPart(wr[src].ptr)
  /\ wr' = [wr EXCEPT ![NewSlot] = [ptr |-> PartIx(wr[src].ptr), mem |-> FALSE, const |-> FALSE]]
  /\ UNCHANGED marks
  /\ Record("ReturnBorrowed", NewSlot, src, "")

ReturnConstRef(src) ==
  /\ Usable(src) /\ Free # {}
  /\ (PartOf(wr[src].ptr) # 0 \/ CanCreate)
  /\ inst' = WithPart(wr[src].ptr)
  /\ wr' = [wr EXCEPT ![NewSlot] = [ptr |-> PartIx(wr[src].ptr), mem |-> FALSE, const |-> TRUE]]
  /\ UNCHANGED marks
  /\ Record("ReturnConstRef", NewSlot, src, "")

ReturnThis(src) ==
  /\ Usable(src) /\ ~wr[src].const /\ Free # {}
  /\ inst' = inst
  /\ wr' = [wr EXCEPT ![NewSlot] = [ptr |-> wr[src].ptr, mem |-> FALSE, const |-> FALSE]]
  /\ UNCHANGED marks
  /\ Record("ReturnThis", NewSlot, src, "")

ReturnStatic ==
  /\ Free # {}
  /\ inst' = inst
  /\ wr' = [wr EXCEPT ![NewSlot] = [ptr |-> 1, mem |-> FALSE, const |-> FALSE]]
  /\ UNCHANGED marks
  /\ Record("ReturnStatic", NewSlot, 0, "")

\* look() is a non-const method taking a const pointer: a const argument is fine, a const self raises
PassToCpp(w, arg) ==
  /\ Usable(w) /\ Usable(arg)
  /\ UNCHANGED <<inst, wr>>
  /\ Mark(IF wr[w].const THEN "pass-on-const" ELSE IF wr[arg].const THEN "pass-const-arg" ELSE "pass")
  /\ Record("PassToCpp", w, arg, IF wr[w].const THEN "TypeError" ELSE "")

\* a non-const method: runs on a non-const wrapper, raises TypeError and changes nothing on a const one
CallNonConst(w) ==
  /\ Usable(w)
  /\ inst' = IF wr[w].const THEN inst ELSE [inst EXCEPT ![wr[w].ptr].touched = @ + 1]
  /\ wr' = wr
  /\ (IF wr[w].const THEN Mark("touch-on-const") ELSE marks' = marks)
  /\ Record("CallNonConst", w, 0, IF wr[w].const THEN "TypeError" ELSE "")

RECURSIVE Parts(_, _)
Parts(I, i) == IF I[i].child = 0 THEN {i} ELSE {i} \cup Parts(I, I[i].child)
Destroy(I, K, root) == [i \in 1..Len(I) |->
                         IF i \in K THEN [I[i] EXCEPT !.alive = FALSE, !.destroyed = @ + 1,
                                                      !.killer = IF i = root THEN "owner-wrapper" ELSE "parent"]
                         ELSE I[i]]

\* a wrapper object exists but no constructor ran: every use of it (methods const and non-const,
\* properties, operators, sequence access, passing it on) must raise an ordinary exception and change
\* nothing -- checked by the replay as probes on every such wrapper after every step; only a static
\* function called through it works
NewEmpty ==
  /\ EnableEmpty /\ Free # {}
  /\ inst' = inst
  /\ wr' = [wr EXCEPT ![NewSlot] = [ptr |-> -1, mem |-> FALSE, const |-> FALSE]]
  /\ UNCHANGED marks
  /\ Record("NewEmpty", NewSlot, 0, "")

\* w.__init__() on a wrapper without object: now it is an ordinary owned instance
InitEmpty(w) ==
  /\ EnableEmpty /\ Empty(w) /\ CanCreate
  /\ inst' = Append(inst, NewInstO("py", 0, "init"))
  /\ wr' = [wr EXCEPT ![w] = [ptr |-> Len(inst) + 1, mem |-> TRUE, const |-> FALSE]]
  /\ UNCHANGED marks
  /\ Record("Init", w, 0, "")

\* w.__init__() again on a constructed, non-const wrapper: the wrapper gets a new owned object and
\* the object it owned before is destroyed (nothing may leak); an object it only borrowed stays
ReInit(w) ==
  /\ EnableEmpty /\ Usable(w) /\ ~wr[w].const /\ CanCreate
  /\ inst' = Append(IF wr[w].mem THEN Destroy(inst, Parts(inst, wr[w].ptr), wr[w].ptr) ELSE inst,
                    NewInstO("py", 0, "reinit"))
  /\ wr' = [wr EXCEPT ![w] = [ptr |-> Len(inst) + 1, mem |-> TRUE, const |-> FALSE]]
  /\ UNCHANGED marks
  /\ Record("ReInit", w, 0, "")

DropWrapper(w) ==
  /\ Live(w)
  /\ inst' = IF wr[w].mem
               THEN LET K == Parts(inst, wr[w].ptr) IN
                    [i \in 1..Len(inst) |->
                       IF i \in K THEN [inst[i] EXCEPT !.alive = FALSE, !.destroyed = @ + 1,
                                                       !.killer = IF i = wr[w].ptr THEN "owner-wrapper" ELSE "parent"]
                       ELSE inst[i]]
               ELSE inst
  /\ wr' = [wr EXCEPT ![w] = NoW]
  /\ UNCHANGED marks
  /\ Record("DropWrapper", w, 0, "")

Next == /\ Len(hist) < MaxDepth
        /\ \/ PyConstruct \/ ReturnStatic
           \/ NewEmpty
           \/ \E s \in Slots : ReturnByValue(s) \/ ReturnBorrowed(s) \/ ReturnConstRef(s) \/ ReturnThis(s)
                                \/ CallNonConst(s) \/ DropWrapper(s) \/ InitEmpty(s) \/ ReInit(s)
           \/ \E s, t \in Slots : PassToCpp(s, t)
Spec == Init /\ [][Next]_vars

---------------------------------------------------------------------------
(* Invariants: the property *)
\* an instance is destroyed at most once ...
AtMostOnce == \A i \in 1..Len(inst) : inst[i].destroyed <= 1
\* ... and only through a wrapper that has memory_rules (or as a part of such an instance)
OnlyViaOwner == \A i \in 1..Len(inst) :
   inst[i].destroyed > 0 =>
      \/ inst[i].killer = "owner-wrapper" /\ inst[i].owner = "py"
      \/ inst[i].killer = "parent" /\ inst[i].owner = "cpp" /\ inst[inst[i].parent].destroyed > 0
\* never two owning wrappers for one instance (that would be a double free), and only py-owned
\* instances have an owning wrapper
OneOwner == \A w, v \in Slots : (Live(w) /\ Live(v) /\ wr[w].mem /\ wr[v].mem /\ wr[w].ptr = wr[v].ptr) => w = v
OwnerIsPy == \A w \in Slots : Live(w) /\ wr[w].mem => (wr[w].ptr > 0 /\ inst[wr[w].ptr].owner = "py")
\* a wrapper without object owns nothing and is not const
EmptyOwnsNothing == \A w \in Slots : Empty(w) => ~wr[w].mem /\ ~wr[w].const
\* a living py-owned instance still has its owning wrapper (nothing leaks)
NoLeak == \A i \in 1..Len(inst) : inst[i].owner = "py" /\ inst[i].alive => \E w \in Slots : Live(w) /\ wr[w].mem /\ wr[w].ptr = i
\* when every wrapper is dropped: every py-owned instance destroyed exactly once, the static one never,
\* parts exactly when their parent was
AllDropped == \A w \in Slots : ~Live(w)
FinalAccounting == AllDropped =>
   \A i \in 1..Len(inst) :
      /\ (inst[i].owner = "py" => inst[i].destroyed = 1)
      /\ (inst[i].owner = "cpp" /\ inst[i].parent = 0 => inst[i].destroyed = 0)
      /\ (inst[i].owner = "cpp" /\ inst[i].parent # 0 => inst[i].destroyed = inst[inst[i].parent].destroyed)
\* a non-const call on a const wrapper raised and changed nothing (stated on the recorded step)
ConstRaises == \A n \in 1..Len(hist) :
   hist[n].exc = "TypeError" =>
      /\ hist[n].made = (IF n = 1 THEN 0 ELSE hist[n - 1].made)
      /\ hist[n].died = (IF n = 1 THEN 0 ELSE hist[n - 1].died)
      /\ (n > 1 => \A i \in 1..Len(hist[n - 1].touched) : hist[n].touched[i] = hist[n - 1].touched[i])
=============================================================================
