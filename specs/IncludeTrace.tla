---------------------------- MODULE IncludeTrace ----------------------------
(***************************************************************************)
(* Trace validation for C17: the Include / IncludeOnce / PragmaOnce /      *)
(* TopFile events of the H-inc hooks, projected by vf/checks/c17.py        *)
(*   - lookup runs:  {"e":"Case", ...the layout and options...} followed   *)
(*     by {"e":"Include","dir":<directory id of the hit | "none">,         *)
(*     "src":"local"|"alternate"|"system"|"none"} for the include of the   *)
(*     probed header;                                                      *)
(*   - once-only runs: {"e":"OnceCase","guard":g} followed by one          *)
(*     {"e":"Inc","sp":<spelling>,"skipped":0|1,"pragma":0|1} per          *)
(*     inclusion / command-line parse of the file (skipped = the           *)
(*     implementation did not open it again; pragma = it recorded          *)
(*     #pragma once for the file while parsing it).                        *)
(*   - ownership runs: {"e":"OwnCase","cmdSpell":..,"reach":..,"order":..,  *)
(*     "cwdHas":0|1,"guard":g} followed by {"e":"OwnInc","src":<source     *)
(*     class logged for the #include that reaches the command-line file>}. *)
(*   - chain runs: {"e":"ChainCase","ways":[..],"cmd":[..],"leafAt":[..]}  *)
(*     followed by one {"e":"ChainInc","dir":..,"src":..} per #include of  *)
(*     the chain, in order ("R" = the one place the intermediate file is). *)
(* are consumed by the actions of IncludeSearch; Refines / OnceOnly are    *)
(* evaluated on every observed execution.                                  *)
(***************************************************************************)
EXTENDS IncludeSearch, Json, IOUtils

Tr == ndJsonDeserialize(IOEnv.VERIF_TRACE)
NTr == Len(Tr)

VARIABLE l
tvars == <<vars, l>>

IsE(i, e) == i <= NTr /\ Tr[i].e = e
Ours == {"Case", "Include", "OnceCase", "Inc", "OwnCase", "OwnInc", "ChainCase", "ChainInc", "Reset"}
SeqSet(s) == {s[i] : i \in 1..Len(s)}
B(x) == IF x THEN 1 ELSE 0

BlankRest ==
  /\ spelled' = <<>> /\ parsed' = {} /\ pragma' = {} /\ defined' = FALSE
  /\ mcount' = 0 /\ rcount' = 0 /\ rres' = NotFound /\ mres' = NotFound
Blank == guard' = "none" /\ BlankRest /\ own' = NoOwn /\ chain' = NoChain

TInit ==
  /\ present = {} /\ cmd = <<>> /\ form = "quote" /\ noangles = FALSE /\ incIsCwd = FALSE
  /\ explicit = "none" /\ explicitViaLink = FALSE
  /\ phase = "idle" /\ rres = NotFound /\ mres = NotFound
  /\ guard = "none" /\ spelled = <<>> /\ parsed = {} /\ pragma = {} /\ defined = FALSE
  /\ mcount = 0 /\ rcount = 0 /\ own = NoOwn /\ chain = NoChain
  /\ l = 1

TReset ==
  /\ IsE(l, "Reset") /\ phase \notin {"case", "own"}     \* a lookup / ownership case must have been resolved
  /\ (phase = "chain" => chain.level = ChainDepth + 1)    \* a chain must have been followed to its end
  /\ phase' = "idle" /\ Blank
  /\ UNCHANGED <<present, cmd, form, noangles, incIsCwd, explicit, explicitViaLink>>
  /\ l' = l + 1

TCase ==
  /\ IsE(l, "Case") /\ phase = "idle"
  /\ present' = SeqSet(Tr[l].present) /\ cmd' = Tr[l].cmd /\ form' = Tr[l].form
  /\ noangles' = (Tr[l].noangles = 1) /\ incIsCwd' = (Tr[l].incIsCwd = 1)
  /\ explicit' = Tr[l].explicit /\ explicitViaLink' = (Tr[l].viaLink = 1)
  /\ phase' = "case" /\ Blank
  /\ l' = l + 1

\* the include of the probed header: the logged hit directory and source class are the reference's
TInclude ==
  /\ IsE(l, "Include") /\ Resolve
  /\ Tr[l].dir = rres'.dir /\ Tr[l].src = rres'.src
  /\ l' = l + 1

TOnceCase ==
  /\ IsE(l, "OnceCase") /\ phase = "idle"
  /\ phase' = "once" /\ BlankRest /\ guard' = Tr[l].guard /\ own' = NoOwn /\ chain' = NoChain
  /\ UNCHANGED <<present, cmd, form, noangles, incIsCwd, explicit, explicitViaLink>>
  /\ l' = l + 1

Skips(s) == KeyOf(s) \in parsed /\ KeyOf(s) \in pragma
TInc ==
  /\ IsE(l, "Inc") /\ phase = "once"
  /\ Tr[l].skipped = B(Skips(Tr[l].sp))
  /\ IncludeSpelled(Tr[l].sp)
  /\ Tr[l].pragma = B(pragma' # pragma)
  /\ l' = l + 1

TOwnCase ==
  /\ IsE(l, "OwnCase") /\ phase = "idle"
  /\ phase' = "own" /\ BlankRest /\ guard' = Tr[l].guard
  /\ own' = [cmdSpell |-> Tr[l].cmdSpell, reach |-> Tr[l].reach, order |-> Tr[l].order, cwdHas |-> (Tr[l].cwdHas = 1)]
  /\ chain' = NoChain
  /\ UNCHANGED <<present, cmd, form, noangles, incIsCwd, explicit, explicitViaLink>>
  /\ l' = l + 1

\* the #include that reaches the command-line file: the logged source class is the reference's
TOwnInc ==
  /\ IsE(l, "OwnInc") /\ ResolveOwn
  /\ Tr[l].src = rres'.src
  /\ l' = l + 1

TChainCase ==
  /\ IsE(l, "ChainCase") /\ phase = "idle"
  /\ phase' = "chain" /\ BlankRest /\ guard' = "none" /\ own' = NoOwn
  /\ chain' = [ways |-> Tr[l].ways, cmd |-> Tr[l].cmd, leafAt |-> SeqSet(Tr[l].leafAt), level |-> 1]
  /\ UNCHANGED <<present, cmd, form, noangles, incIsCwd, explicit, explicitViaLink>>
  /\ l' = l + 1

\* one #include of the chain: the logged hit and source class are the reference's
TChainInc ==
  /\ IsE(l, "ChainInc") /\ ChainStep
  /\ Tr[l].dir = rres'.dir /\ Tr[l].src = rres'.src
  /\ l' = l + 1

TForeign ==
  /\ l <= NTr /\ Tr[l].e \notin Ours
  /\ UNCHANGED vars /\ l' = l + 1

TDone == l = NTr + 1 /\ phase \notin {"case", "own"} /\ (phase = "chain" => chain.level = ChainDepth + 1) /\ UNCHANGED tvars

TNext == TReset \/ TCase \/ TInclude \/ TOnceCase \/ TInc \/ TOwnCase \/ TOwnInc \/ TChainCase \/ TChainInc \/ TForeign \/ TDone
TSpec == TInit /\ [][TNext]_tvars
=============================================================================
