------------------------------ MODULE MacroMC ------------------------------
(***************************************************************************)
(* Bounded enumeration of macro programs for C08 and the dump of every     *)
(* complete program together with the reference result carried by the      *)
(* state (replayed into parse_file -E and gcc -E by vf/checks/c08.py).     *)
(*                                                                         *)
(* A FAMILY fixes, for every line position, the set of lines that may be   *)
(* written there (alphabets are products of small sets of body ITEMS).     *)
(* Static families: one #define per macro slot, then the family's call-    *)
(* site Text lines (they have no effect on the macro table, so they are    *)
(* appended in one step, TextBlock, and one behaviour carries the verdict  *)
(* for |texts| programs).  Dynamic families: DynLen / CdLen free lines     *)
(* over a small alphabet with #undef, redefinition and #pragma push_macro  *)
(* / pop_macro between uses, then the family's Text lines; family cd       *)
(* starts from command-line (-D) macro tables.                             *)
(***************************************************************************)
EXTENDS MacroRef, Json, CSV, IOUtils

CONSTANTS Families,    \* family ids to enumerate
          DynLen,      \* number of free lines of the dynamic family
          CdLen,       \* number of free lines of the command-line family
          SizeFo, SizeVa, SizeCh, SizeNe,  \* body lengths (items) in the static families fo, va, ch, ne
          SizeSt                           \* 1: smaller item sets in st / ne (quick), 2: all

VARIABLES fam, d0, prog
vars == <<fam, d0, prog, defs, pushStack, out>>

NoExt == <<>>      \* the enumeration uses only the spellings MacroRef knows
OneSpace == " "

\* ---- building bodies from items ---------------------------------------------
RECURSIVE Flat(_)
Flat(ss) == IF ss = <<>> THEN <<>> ELSE Head(ss) \o Flat(Tail(ss))
SeqsUpTo(S, n) == UNION {[1..k -> S] : k \in 0..n}
One(S) == {<<s>> : s \in S}

\* what a compiler accepts as a replacement list
WFBody(fn, params, va, b) ==
  /\ (b # <<>> => b[1] # "##" /\ b[Len(b)] # "##")
  /\ \A i \in 1..Len(b) :
       /\ b[i] = "#" => (~fn \/ (i < Len(b) /\ (b[i + 1] = "__VA_ARGS__" \/ \E j \in 1..Len(params) : params[j] = b[i + 1])))
       /\ b[i] \in {"__VA_ARGS__", "__VA_OPT__"} => va
       \* unspecified order of evaluation: # next to ## (chains of ## are given a value only where
       \* every order yields the same tokens, see PasteClass)
       /\ (b[i] = "##" /\ i > 2) => b[i - 2] # "#"
       /\ (b[i] = "##" /\ i < Len(b)) => b[i + 1] \notin {"#", "##"}

Bodies(fn, params, va, Items, n) ==
  {b \in {Flat(f) : f \in SeqsUpTo(Items, n)} : WFBody(fn, params, va, b)}

DefLine(m, fn, params, va, body) == [k |-> "def", m |-> m, fn |-> fn, params |-> params, va |-> va, body |-> body]
DefLines(m, fn, params, va, Items, n) == {DefLine(m, fn, params, va, b) : b \in Bodies(fn, params, va, Items, n)}
TextLine(toks) == [k |-> "text", toks |-> toks]
Line(k, m) == [k |-> k, m |-> m]

\* ---- families --------------------------------------------------------------------
Obj(m, Items, n)          == DefLines(m, FALSE, <<>>, FALSE, Items, n)
Fn(m, params, Items, n)   == DefLines(m, TRUE, params, FALSE, Items, n)
Va(m, params, Items, n)   == DefLines(m, TRUE, params, TRUE, Items, n)
NoCmd == [tab |-> <<>>, bare |-> {}]      \* no -D option
Static(slots, texts) == [slots |-> slots, texts |-> texts, free |-> {}, d0 |-> {NoCmd}]
Dyn(lines, texts, inits) == [slots |-> <<>>, texts |-> texts, free |-> lines, d0 |-> inits]

\* fo: F(x) and O over the raw token alphabet (everything interacts with everything, including
\*     unbalanced parentheses and self reference)
FoTexts == << <<"F","(","a",")">>, <<"F","(","O",")">>, <<"F","(","F","(","a",")",")">>, <<"O">>,
              <<"F","(","F",")","(","a",")">>, <<"F","(",")">>, <<"F","(","(","a",",","a",")",")">>,
              <<"O","(","a",")">>, <<"F","(","\"O,F\"",")">>, <<"F","(","'F'",")","F","a">> >>
FoFam == Static(<< Fn("F", <<"x">>, One({"a", "x", "O", "F", "(", ")", "#", "##", ","}), 3),
                   Obj("O", One({"a", "O", "F", "(", ")", "##", ","}), SizeFo) >>, FoTexts)

\* st: # and ## on two parameters, arguments empty / parenthesised / literals / nested calls
StTexts == << <<"F","(","a",",","b",")">>, <<"F","(","O",",","O",")">>, <<"F","(",",",")">>,
              <<"F","(","a",",",")">>, <<"F","(",",","2",")">>, <<"F","(","(","a",",","b",")",",","1",")">>,
              <<"F","(","\"O,F\"",",","'F'",")">>, <<"F","(","F","(","a",",","b",")",",","O",")">>,
              <<"F","(","1",",","2",")">>, <<"F","(","a","+","O",",","\"a\\n\"",")">>,
              <<"F","(","F","(",",",")",",","1",")">>, <<"F","(","'\"'","\"a\\n\"",",","'\"'",")">> >>
StFam == Static(<< Obj("O", IF SizeSt > 1 THEN {<<>>, <<"a">>, <<"1">>, <<"a", "+", "1">>, <<"O">>, <<"(", "1", ",", "2", ")">>}
                                         ELSE {<<>>, <<"1">>, <<"O">>, <<"(", "1", ",", "2", ")">>}, 1),
                   Fn("F", <<"x", "y">>, {<<"x">>, <<"y">>, <<"#", "x">>, <<"#", "y">>, <<"x", "##", "y">>, <<"a", "##", "x">>,
                                          <<"y", "##", "1">>, <<"a">>, <<"O">>, <<",">>, <<"+">>}, 3) >>, StTexts)

\* va: variadic macros: __VA_ARGS__, # __VA_ARGS__, `, ## __VA_ARGS__`, __VA_OPT__
VaTexts == << <<"H","(","a",")">>, <<"H","(","a",",",")">>, <<"H","(","a",",","b",")">>,
              <<"H","(","a",",","b",",","1",")">>, <<"H","(","(","a",",","b",")",",","O",")">>, <<"H","(",")">>,
              <<"H","(",",",")">>, <<"H","(","O",",","O",",","\"O,F\"",")">>, <<"H","(","a",",","(",")",")">>,
              <<"G","(",")">>, <<"G","(","a",")">>, <<"G","(","a",",","O",")">>, <<"G","(","H","(","a",",","b",")",")">>,
              <<"H","(","G","(",")",",","G","(","1",")",")">> >>
VaFam == Static(<< Obj("O", IF SizeVa > 2 THEN {<<>>, <<"1">>, <<"a", ",", "b">>} ELSE {<<"1">>, <<"a", ",", "b">>}, 1),
                   Va("G", <<>>, {<<"__VA_ARGS__">>, <<"#", "__VA_ARGS__">>, <<"__VA_OPT__", "(", "a", ")">>, <<"a">>,
                                  <<"[", "__VA_ARGS__", "]">>}, 2),
                   Va("H", <<"x">>, {<<"x">>, <<"__VA_ARGS__">>, <<"#", "__VA_ARGS__">>, <<",", "##", "__VA_ARGS__">>,
                                     <<"__VA_OPT__", "(", ",", ")">>, <<"__VA_OPT__", "(", "x", ")">>, <<"a">>, <<"#", "x">>,
                                     <<"G", "(", "__VA_ARGS__", ")">>}, SizeVa) >>, VaTexts)

\* ch: chains of object-like macros through a function-like one
ChTexts == << <<"O">>, <<"P">>, <<"G","(","O",")">>, <<"G","(","G","(","a",")",")">>, <<"G","(","P",")","+","O">>,
              <<"O","P","O">>, <<"G","(",")">>, <<"G">>, <<"G","(","\"G(1)\"",")">>, <<"P","(","1",")">> >>
ChFam == Static(<< Obj("O", {<<"a">>, <<"1">>, <<"+">>, <<"O">>, <<"P">>, <<"G", "(", "a", ")">>, <<"G", "(", "O", ")">>, <<"G", "(", "P", ")">>, <<"G">>}, 2),
                   Obj("P", {<<"a">>, <<"O">>, <<"P">>, <<"+">>, <<"G", "(", "O", ")">>, <<"G">>}, SizeCh),
                   Fn("G", <<"x">>, {<<"x">>, <<"P">>, <<"(", "x", ")">>, <<"#", "x">>, <<"G", "(", "x", ")">>, <<"O", "x">>, <<"x", "+">>}, 1) >>, ChTexts)

\* ne: nested calls between F(x) and G(x, y)
NeTexts == << <<"F","(","a",")">>, <<"G","(","a",",","b",")">>, <<"F","(","G","(","a",",","b",")",")">>,
              <<"G","(","F","(","a",")",",","F","(","b",")",")">>, <<"F","(","F","(","F","(","a",")",")",")">>,
              <<"G","(","(","a",",","b",")",",","F",")">>, <<"F","(","G",")","(","a",",","b",")">>,
              <<"G","(",",",")">>, <<"F","(",")">>, <<"F","(","G","(","F","(","1",")",",","2",")",")">> >>
NeFam == Static(<< Fn("F", <<"x">>, {<<"x">>, <<"a">>, <<"(", "x", ")">>, <<"G", "(", "x", ",", "a", ")">>,
                                     <<"G", "(", "a", ",", "x", ")">>, <<"F", "(", "x", ")">>, <<"G">>}, 2),
                   Fn("G", <<"x", "y">>, {<<"x">>, <<"y">>, <<",">>, <<"F", "(", "x", ")">>, <<"F", "(", "y", ")">>,
                                          <<"G", "(", "y", ",", "x", ")">>, <<"F">>, <<"[", "x", "]">>}
                                         \cup (IF SizeSt > 1 THEN {<<"+">>} ELSE {}), SizeNe) >>, NeTexts)

\* li: string / character literal arguments with escapes (escaped backslash before the closing
\*     quote, quotes, commas and parentheses inside literals) in every argument position, next to
\*     commas and closing parentheses, in nested invocations; the renderer also writes them
\*     without white space and over several lines
LiLits == << "\"a\\\\\"", "'\\\\'", "\"\\\"\"", "\"a,b\"", "\"a)b\"", "\"(\"", "'x'", "'\\''", "\"a\\\\\\\"b\"" >>
LiTextsOf(L, M) == << <<"F","(",L,",","1",")">>, <<"F","(","1",",",L,")">>, <<"G","(",L,")">>,
                      <<"F","(","G","(",L,")",",",M,")">>, <<"G","(","F","(",L,",","2",")",")","a">>,
                      <<"F","(",L,",",M,")">> >>
LiTexts(lo, hi) == Flat([i \in 1..(hi - lo + 1) |-> LiTextsOf(LiLits[lo + i - 1], LiLits[((lo + i - 1) % Len(LiLits)) + 1])])
\* (three families: one dumped record must stay below the 8 kB a TLC worker writes atomically)
LiFam(lo, hi) == Static(<< Fn("F", <<"x", "y">>, {<<"x">>, <<"y">>, <<"#", "x">>, <<"#", "y">>, <<"|">>, <<"'x'">>}, 2),
                           Fn("G", <<"x">>, {<<"x">>, <<"#", "x">>, <<"(", "x", ")">>, <<"\"x\"">>, <<"\"O,F\"">>}, 1) >>, LiTexts(lo, hi))

\* p3 / pv: chains of two ## (three operands: parameters, fixed tokens, __VA_ARGS__, __VA_OPT__),
\*     every operand empty in turn at the call sites
Chains(Ops, Pre, Post) == {p \o o1 \o <<"##">> \o o2 \o <<"##">> \o o3 \o q :
                             o1 \in Ops, o2 \in Ops, o3 \in Ops, p \in Pre, q \in Post}
P3Texts == << <<"F","(","a",",","b",",","c",")">>, <<"F","(",",","b",",","c",")">>, <<"F","(","a",",",",","c",")">>,
              <<"F","(","a",",","b",",",")">>, <<"F","(",",",",","c",")">>, <<"F","(","a",",",",",")">>,
              <<"F","(",",","b",",",")">>, <<"F","(",",",",",")">>, <<"F","(","1",",",",","2",")">>,
              <<"F","(","1",",","2",",","3",")">>, <<"F","(","O",",",",","O",")">> >>
P3Fam == Static(<< Obj("O", {<<"1">>}, 1),
                   Fn("F", <<"x", "y", "z">>, Chains({<<"x">>, <<"y">>, <<"z">>, <<"a">>}, {<<>>, <<"b">>}, {<<>>, <<"c">>}), 1) >>,
                P3Texts)
PvTexts == << <<"H","(","a",")">>, <<"H","(","a",",",")">>, <<"H","(","a",",","b",")">>, <<"H","(",",","b",")">>,
              <<"H","(",",",")">>, <<"H","(",")">>, <<"H","(","a",",","b",",","c",")">>, <<"H","(","a",",","O",")">> >>
PvFam == Static(<< Obj("O", {<<>>, <<"1">>}, 1),
                   Va("H", <<"x">>, Chains({<<"x">>, <<"__VA_ARGS__">>, <<"a">>, <<"__VA_OPT__", "(", "v", ")">>},
                                           {<<>>, <<"b">>}, {<<>>, <<"c">>}), 1) >>, PvTexts)

\* op: operators next to parameters and arguments that begin / end with an operator character:
\*     the tokens must stay apart (- -1 is not --1, a - > b is not a -> b, & & is not &&)
OpBody == {"-", "+", "&", "|", "<", ">", "!", "~", "*", "[", "{", "="}
OpArg  == <<"-", "+", "&", "|", "<", ">", "=", "!">>
OpTextsOf(o) == << <<"F","(",o,"1",")">>, <<"F","(","a",o,")">>, <<"G","(","a",o,",",o,"b",")">>,
                   <<"F","(","F","(",o,"a",")",")","O">> >>
OpTexts == Flat([i \in 1..Len(OpArg) |-> OpTextsOf(OpArg[i])])
OpFam == Static(<< Obj("O", {<<"#", "a">>, <<"a", "#">>, <<"-", "1">>}, 1),
                   Fn("F", <<"x">>, {<<o, "x">> : o \in OpBody} \cup {<<"x", o>> : o \in OpBody} \cup {<<o, "x", o>> : o \in OpBody}, 1),
                   Fn("G", <<"x", "y">>, {<<"x", o, "y">> : o \in OpBody}, 1) >>, OpTexts)

\* br: commas inside braces, brackets and angle brackets separate arguments (only parentheses
\*     protect a comma); digit separators in arguments
BrTexts == << <<"G","(","{","1",",","2","}",")">>, <<"G","(","[","1",",","2","]",")">>, <<"G","(","<","1",",","2",">",")">>,
              <<"G","(","{","a",",","(","b",",","c",")","}",")">>, <<"G","(","(","{","1",",","2","}",")",",","3",")">>,
              <<"H","(","{","1",",","2","}",")">>, <<"H","(","[","a","]",",","{","b","}",")">>, <<"H","(","{","}",")">>,
              <<"G","(","1'000",",","2'000",")">>, <<"H","(","1'000",")">>, <<"G","(","{","1",",","2",",","3","}",")">> >>
BrFam == Static(<< Fn("G", <<"x", "y">>, {<<"x">>, <<"y">>, <<"#", "y">>, <<"|">>}, 2),
                   Va("H", <<"x">>, {<<"x">>, <<"__VA_ARGS__">>, <<"#", "x">>, <<"[", "__VA_ARGS__", "]">>}, 2) >>, BrTexts)

\* dy: #undef, redefinition, push_macro / pop_macro between uses
DyLines == {DefLine("O", FALSE, <<>>, FALSE, b) : b \in {<<"1">>, <<"2">>, <<"O", "+", "1">>}}
           \cup {DefLine("F", TRUE, <<"x">>, FALSE, <<"x", "O">>)}
           \cup {Line(k, m) : k \in {"undef", "push", "pop"}, m \in {"O", "F"}}
           \cup {TextLine(<<"O">>), TextLine(<<"F", "(", "O", ")">>)}
DyTexts == << <<"O">>, <<"F", "(", "O", ")">>, <<"F">> >>
DyFam == Dyn(DyLines, DyTexts, {NoCmd})

\* cd: command-line definitions (-D) as the initial macro table: object-like and function-like,
\*     values containing = == >= , white space, parentheses, quotes; -DNAME without a value
\*     (defines NAME as 1: POSIX c99 / every compiler driver, whose options interrogate takes)
ObjD(b) == [fn |-> FALSE, params |-> <<>>, va |-> FALSE, body |-> b]
FnD(b)  == [fn |-> TRUE, params |-> <<"x">>, va |-> FALSE, body |-> b]
Cmd(o, f) == [tab |-> [O |-> ObjD(o), F |-> FnD(f)], bare |-> {}]
CmdO(o)   == [tab |-> [O |-> ObjD(o)], bare |-> {}]
CdTabs == { Cmd(<<"1">>, <<"x", "+", "O">>), Cmd(<<"O", "+", "1">>, <<"#", "x">>), CmdO(<<"(", "2", ")">>),
            CmdO(<<"a", ">=", "b">>), CmdO(<<"a", "=", "b">>), CmdO(<<"\"a=b\"">>), CmdO(<<>>),
            Cmd(<<"2">>, <<"(", "(", "x", ")", "==", "(", "O", ")", ")">>),
            Cmd(<<"a", "=", "1">>, <<"x", "=", "O", ",", "'x'">>),
            [tab |-> [O |-> ObjD(<<"1">>)], bare |-> {"O"}],
            [tab |-> [O |-> ObjD(<<"1">>), F |-> FnD(<<"x", "==", "O">>)], bare |-> {"O"}] }
CdFam == Dyn(DyLines, DyTexts, CdTabs)

Fam == [ fo |-> FoFam, st |-> StFam, va |-> VaFam, ch |-> ChFam, ne |-> NeFam, li1 |-> LiFam(1, 3), li2 |-> LiFam(4, 6), li3 |-> LiFam(7, 9), p3 |-> P3Fam, pv |-> PvFam, op |-> OpFam, br |-> BrFam,
         dy |-> DyFam, cd |-> CdFam ]
FreeLen(f) == IF f = "cd" THEN CdLen ELSE DynLen

\* static family: one #define per slot, then all its Text lines in one step;
\* dynamic family: FreeLen free lines, then its Text lines in one step
NFree(f) == IF Fam[f].free # {} THEN FreeLen(f) ELSE Len(Fam[f].slots)
FamLen(f) == NFree(f) + Len(Fam[f].texts)
LinesAt(f, k) == IF Fam[f].free # {} THEN Fam[f].free ELSE Fam[f].slots[k]
TextLines(f) == [i \in 1..Len(Fam[f].texts) |-> TextLine(Fam[f].texts[i])]

\* ---- the behaviour = the program ---------------------------------------------
Step(l) ==
  CASE l.k = "def"   -> Define(l.m, l.fn, l.params, l.va, l.body)
    [] l.k = "undef" -> Undef(l.m)
    [] l.k = "push"  -> PushMacro(l.m)
    [] l.k = "pop"   -> PopMacro(l.m)
    [] l.k = "text"  -> Text(l.toks)

\* a definition may be repeated only identically (otherwise: #undef first)
Allowed(l) == l.k = "def" /\ l.m \in DOMAIN defs =>
                defs[l.m] = [fn |-> l.fn, params |-> l.params, va |-> l.va, body |-> l.body]

Init == /\ fam \in Families /\ prog = <<>>
        /\ d0 \in Fam[fam].d0 /\ MInit(d0.tab)

Next == \/ /\ Len(prog) < NFree(fam)
           /\ \E l \in LinesAt(fam, Len(prog) + 1) :
                Allowed(l) /\ Step(l) /\ prog' = Append(prog, l)
           /\ UNCHANGED <<fam, d0>>
        \/ /\ Len(prog) = NFree(fam)
           /\ TextBlock(Fam[fam].texts) /\ prog' = prog \o TextLines(fam)
           /\ UNCHANGED <<fam, d0>>

Spec == Init /\ [][Next]_vars

\* the program determines the rest of the state: fingerprint the program only
ProgView == <<fam, d0, prog>>

\* ---- dump ---------------------------------------------------------------------
DumpFile == IF "VERIF_DUMP" \in DOMAIN IOEnv THEN IOEnv.VERIF_DUMP ELSE ""
Complete == Len(prog) = FamLen(fam)

OutRec(line) == IF OutOfDomain(line) THEN [x |-> Last(line.ts).t]
                ELSE [t |-> Texts(line.ts), e |-> ClassEv(line.ev)]

DumpConstraint ==
  IF DumpFile # "" /\ Complete
    THEN CSVWrite("%1$s", <<ToJson([f |-> fam, d0 |-> d0, p |-> prog, o |-> [i \in 1..Len(out) |-> OutRec(out[i])]])>>, DumpFile)
    ELSE TRUE
=============================================================================
