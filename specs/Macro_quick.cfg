SPECIFICATION Spec
CONSTANTS
  Families = {"va"}
  DynLen = 3
  CdLen = 2
INVARIANT NoResidual
INVARIANT HideSetsAreNames
CONSTRAINT DumpConstraint
CHECK_DEADLOCK FALSE
