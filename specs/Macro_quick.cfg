SPECIFICATION Spec
CONSTANTS
  Families = {"fo", "st", "va", "ch", "ne", "li1", "li2", "li3", "p3", "pv", "op", "br", "dy", "cd"}
  DynLen = 4
  CdLen = 2
  SizeFo = 2
  SizeVa = 2
  SizeCh = 1
  SizeNe = 2
  SizeSt = 1
  ExtClass <- NoExt
  ExtEsc <- NoExt
  ExtSep <- OneSpace
INVARIANT NoResidual
CONSTRAINT DumpConstraint
VIEW ProgView
CHECK_DEADLOCK FALSE
