SPECIFICATION Spec
CONSTANTS
  Families = {"ne"}
  DynLen = 3
  CdLen = 2
INVARIANT NoResidual
INVARIANT HideSetsAreNames
CONSTRAINT DumpConstraint
CHECK_DEADLOCK FALSE
