SPECIFICATION Spec
CONSTANTS
  Families = {"fo", "st", "va", "ch", "ne", "dy", "cd"}
  DynLen = 3
  CdLen = 2
INVARIANT NoResidual
INVARIANT HideSetsAreNames
CONSTRAINT DumpConstraint
CHECK_DEADLOCK FALSE
