SPECIFICATION Spec
CONSTANTS
  Sigs = {1, 2, 3, 4, 5, 6}
  HRange = {0, 1}
  LetterSeq <- MCLetterSeq
  NLetters = 5
  NoSig = 0
INVARIANT NamesDistinct
INVARIANT ValidSuffix
INVARIANT MapConsistent
INVARIANT NamePrefixOfHash
INVARIANT ExtendNeverClashes
INVARIANT NoInternalError
PROPERTY Frozen
CONSTRAINT DumpConstraint
CHECK_DEADLOCK FALSE
