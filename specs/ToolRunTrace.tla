---------------------------- MODULE ToolRunTrace ----------------------------
(***************************************************************************)
(* Trace validation for C19 and C15: the events of real runs of            *)
(* interrogate / interrogate_module / parse_file are consumed by the       *)
(* actions of ToolRun.                                                     *)
(*                                                                         *)
(* One run in the trace file is                                            *)
(*   {"e":"Run","tool":..,"req":[..],"nfiles":n,"io":0|1,"role":..}  (vf, before the run;     *)
(*        role = where the text under test sits: command-line file, quote/angle include, ...)  *)
(*   H-run hook events of the process, in program order:                   *)
(*     ParseFile{ok,errors}  Built  OpenOutput{ch,ok}  WriterDone{ch,fail,status}  Exit{status} *)
(*   merged (same file, O_APPEND) with the injector's call log when io = 1:*)
(*     io{op:open|write|close, ch, n, ok}                                  *)
(*   {"e":"Observed","rc":..,"signal":..,"timeout":..,"present":[..],"disk":{ch:bytes},   *)
(*    "want":{ch:bytes},"ndiag":..,"nerr":..,"loaderr":0|1}  (vf: the monitor record)    *)
(*                                                                         *)
(* io = 1 (C19): the environment's answers are the injector's events; the  *)
(* hook events must arrive where the intended protocol has the program     *)
(* step (WriterDone = Check comes after the close of the channel).         *)
(* io = 0 (C15): only hook events; the environment steps between them are  *)
(* taken silently as the hook fields dictate.                              *)
(*                                                                         *)
(* Logged outcomes are bound into the state (exit, signal, files present,  *)
(* bytes on disk) so that a run that deviates from the protocol in its     *)
(* RESULT violates an invariant of ToolRun (C19_FaultReported,             *)
(* C15_NoSignal, C15_ErrorMeansFailure, C15_OkIffNoErrors, ...), while a   *)
(* run that deviates in the ORDER of its steps cannot be consumed: the     *)
(* trace spec deadlocks and TLC prints the last matched state.             *)
(***************************************************************************)
EXTENDS ToolRun, Json, IOUtils

Tr == ndJsonDeserialize(IOEnv.VERIF_TRACE)
N == Len(Tr)

VARIABLES l, io, run     \* next event; the run logs injector events; index of the run's Run event
tvars == <<vars, l, io, run>>

IsE(i, e) == i <= N /\ Tr[i].e = e
IsIO(i, op) == IsE(i, "io") /\ Tr[i].op = op
B(x) == IF x THEN 1 ELSE 0
Range(f) == {f[i] : i \in DOMAIN f}
Has(i, f) == f \in DOMAIN Tr[i]

TInit == Init /\ tool = "parse_file" /\ nfiles = 1 /\ l = 1 /\ io = FALSE /\ run = 0

\* a new run: everything is reset, the command comes from the event
TRun ==
  /\ IsE(l, "Run")
  /\ pc \in {"Parse", "Judged"} /\ (pc = "Parse" => fi = 0)
  /\ tool' = Tr[l].tool /\ req' = Range(Tr[l].req) /\ nfiles' = Tr[l].nfiles
  /\ io' = (Tr[l].io = 1) /\ run' = l
  /\ pc' = "Parse" /\ fi' = 0 /\ errors' = 0 /\ lastOk' = TRUE /\ unread' = FALSE /\ parsed' = <<>>
  /\ ci' = 0 /\ wk' = 0
  /\ opened' = [c \in AllCh |-> FALSE] /\ failbit' = [c \in AllCh |-> FALSE]
  /\ produced' = [c \in AllCh |-> 0] /\ onDisk' = [c \in AllCh |-> 0]
  /\ exists' = [c \in AllCh |-> FALSE]
  /\ sched' = [c \in AllCh |-> NoFault]
  /\ openedBeforeParseEnd' = FALSE /\ loadErr' = FALSE
  /\ status' = 0 /\ exit' = -1 /\ signal' = "none" /\ diags' = 0
  /\ l' = l + 1

\* the kind of write fault the injector was told to produce on channel c (a trace must be
\* consumable deterministically: every branch TLC explores has to reach the end)
FaultOp(c) == IF run > 0 /\ Has(run, "faults") /\ c \in DOMAIN Tr[run].faults
                THEN Tr[run].faults[c] ELSE "write"

Unreadable == run > 0 /\ Has(run, "unreadable") /\ Tr[run].unreadable = 1

---------------------------------------------------------------------------
(* front end *)
Outcome(i) == IF Tr[i].ok = 1 THEN "ok" ELSE IF Tr[i].errors > 0 THEN "err" ELSE "unread"

TParse ==
  /\ IsE(l, "ParseFile") /\ ~(Tr[l].ok = 1 /\ Tr[l].errors > 0)
  /\ Outcome(l) = "unread" => Unreadable
  /\ Parse(Outcome(l))
  /\ l' = l + 1 /\ UNCHANGED <<io, run>>

\* deviation: parse_file() answered true although the parser counted errors; the run goes on as
\* the program does, C15_OkIffNoErrors is false in the resulting state
TParseOkWithErrors ==
  /\ IsE(l, "ParseFile") /\ Tr[l].ok = 1 /\ Tr[l].errors > 0
  /\ pc = "Parse" /\ fi < nfiles
  /\ fi' = fi + 1 /\ parsed' = Append(parsed, "ok")
  /\ errors' = Tr[l].errors /\ lastOk' = TRUE /\ unread' = FALSE
  /\ IF fi' < nfiles THEN pc' = "Parse" /\ UNCHANGED <<ci, wk>>
     ELSE CASE tool = "interrogate" -> pc' = "Commands" /\ UNCHANGED <<ci, wk>>
            [] tool = "interrogate_module" -> GotoChan(1)
            [] OTHER -> pc' = "Exit" /\ UNCHANGED <<ci, wk>>
  /\ UNCHANGED <<CmdVars, opened, failbit, produced, onDisk, exists, sched, openedBeforeParseEnd,
                 loadErr, status, exit, signal, diags>>
  /\ l' = l + 1 /\ UNCHANGED <<io, run>>

\* deviation: parse_file() answered false for a readable file without counting an error
TParseFailNoError ==
  /\ IsE(l, "ParseFile") /\ Tr[l].ok = 0 /\ Tr[l].errors = 0 /\ ~Unreadable
  /\ pc = "Parse" /\ fi < nfiles
  /\ fi' = fi + 1 /\ parsed' = Append(parsed, "err")
  /\ errors' = 0 /\ lastOk' = FALSE /\ unread' = FALSE
  /\ status' = 1 /\ diags' = diags + 1 /\ pc' = "Exit"
  /\ UNCHANGED <<CmdVars, ChanVars, exit, signal>>
  /\ l' = l + 1 /\ UNCHANGED <<io, run>>

\* interrogate_module has no ParseFile events: its requests are taken silently
TRequest ==
  /\ tool = "interrogate_module" /\ pc = "Parse" /\ l <= N /\ Tr[l].e # "Run"
  /\ Parse("ok")
  /\ UNCHANGED <<l, io, run>>

\* parse_file / interrogate given fewer ParseFile events than files cannot happen; a run that
\* names a file twice with #pragma once is still one event per file

TCommands ==
  /\ pc = "Commands" /\ IsE(l, "Built")
  /\ Commands /\ UNCHANGED <<l, io, run>>

TBuild ==
  /\ pc = "Build" /\ IsE(l, "Built")
  /\ Build /\ l' = l + 1 /\ UNCHANGED <<io, run>>

\* deviation: an output is opened although the front end is not done (or has failed)
TOpenEarly ==
  /\ IsE(l, "OpenOutput") /\ pc \in {"Parse", "Commands", "Build", "Exit"} /\ tool = "interrogate"
  /\ openedBeforeParseEnd' = TRUE
  /\ UNCHANGED <<CmdVars, ParseVars, pc, ci, wk, opened, failbit, produced, onDisk, exists, sched,
                 loadErr, status, exit, signal, diags>>
  /\ l' = l + 1 /\ UNCHANGED <<io, run>>

---------------------------------------------------------------------------
(* output channels, io = 1: the injector's events are the environment *)
ChOf(i) == Tr[i].ch

TOpenOK ==
  /\ io /\ pc = "Open" /\ IsIO(l, "open") /\ ChOf(l) = Cur /\ Tr[l].ok = 1
  /\ IsE(l + 1, "OpenOutput") /\ ChOf(l + 1) = Cur /\ Tr[l + 1].ok = 1
  /\ OpenOK /\ l' = l + 2 /\ UNCHANGED <<io, run>>

TOpenFail ==
  /\ io /\ pc = "Open" /\ IsIO(l, "open") /\ ChOf(l) = Cur /\ Tr[l].ok = 0
  /\ IsE(l + 1, "OpenOutput") /\ ChOf(l + 1) = Cur /\ Tr[l + 1].ok = 0
  /\ OpenFail /\ l' = l + 2 /\ UNCHANGED <<io, run>>

\* interrogate emits WriterDone{fail:1} also for a channel whose open failed: nothing happens
TWriterDoneAfterOpenFail ==
  /\ IsE(l, "WriterDone") /\ sched[ChOf(l)].op = "open" /\ Tr[l].fail = 1
  /\ pc # "Check" /\ pc # "Write"
  /\ Has(l, "status") => ExitCode(Tr[l].status) = ExitCode(status)
  /\ UNCHANGED vars /\ l' = l + 1 /\ UNCHANGED <<io, run>>

\* a write(2) that is not the last one before the close of the channel: writer phase
TWriteOK ==
  /\ io /\ pc = "Write" /\ IsIO(l, "write") /\ ChOf(l) = Cur /\ Tr[l].ok = 1
  /\ ~IsIO(l + 1, "close")
  /\ WriteOK(Tr[l].n) /\ l' = l + 1 /\ UNCHANGED <<io, run>>

TWriteFail ==
  /\ io /\ pc = "Write" /\ IsIO(l, "write") /\ ChOf(l) = Cur /\ Tr[l].ok = 0
  /\ ~IsIO(l + 1, "close")
  /\ WriteFail(Tr[l].n, FaultOp(Cur))
  /\ l' = l + 1 /\ UNCHANGED <<io, run>>

\* the writer has returned when the next call on the channel is the flush + close or the close
TWriterReturn ==
  /\ io /\ pc = "Write"
  /\ \/ IsIO(l, "write") /\ ChOf(l) = Cur /\ IsIO(l + 1, "close")
     \/ IsIO(l, "close") /\ ChOf(l) = Cur
  /\ WriterReturn /\ UNCHANGED <<l, io, run>>

TFlushOK ==
  /\ io /\ pc = "Flush" /\ IsIO(l, "write") /\ ChOf(l) = Cur /\ Tr[l].ok = 1
  /\ FlushOK(Tr[l].n) /\ l' = l + 1 /\ UNCHANGED <<io, run>>

TFlushFail ==
  /\ io /\ pc = "Flush" /\ IsIO(l, "write") /\ ChOf(l) = Cur /\ Tr[l].ok = 0
  /\ FlushFail(Tr[l].n, FaultOp(Cur))
  /\ l' = l + 1 /\ UNCHANGED <<io, run>>

TFlushNone ==
  /\ io /\ pc = "Flush" /\ IsIO(l, "close") /\ ChOf(l) = Cur
  /\ FlushNone /\ UNCHANGED <<l, io, run>>

TCloseOK ==
  /\ io /\ pc = "CloseFd" /\ IsIO(l, "close") /\ ChOf(l) = Cur /\ Tr[l].ok = 1
  /\ CloseOK /\ l' = l + 1 /\ UNCHANGED <<io, run>>

TCloseFail ==
  /\ io /\ pc = "CloseFd" /\ IsIO(l, "close") /\ ChOf(l) = Cur /\ Tr[l].ok = 0
  /\ CloseFail /\ l' = l + 1 /\ UNCHANGED <<io, run>>

\* the program looks at the stream: the logged fail() must be the sticky bit the spec carries,
\* the logged status the status the protocol demands
TCheck ==
  /\ pc = "Check" /\ IsE(l, "WriterDone") /\ ChOf(l) = Cur
  /\ Tr[l].fail = B(failbit[Cur])
  /\ Check
  /\ Has(l, "status") => ExitCode(Tr[l].status) = ExitCode(status')
  /\ l' = l + 1 /\ UNCHANGED <<io, run>>

\* the program gave the channel up on a set fail bit before closing it
TEarlyCheck ==
  /\ pc = "Write" /\ IsE(l, "WriterDone") /\ ChOf(l) = Cur /\ failbit[Cur] /\ Tr[l].fail = 1
  /\ EarlyCheck
  /\ Has(l, "status") => ExitCode(Tr[l].status) = ExitCode(status')
  /\ l' = l + 1 /\ UNCHANGED <<io, run>>

TAbandonFlush ==
  /\ io /\ pc = "Abandon" /\ IsIO(l, "write") /\ ChOf(l) = Cur
  /\ AbandonFlush(Tr[l].n, Tr[l].ok = 1) /\ l' = l + 1 /\ UNCHANGED <<io, run>>

TAbandonClose ==
  /\ pc = "Abandon"
  /\ IF io THEN IsIO(l, "close") /\ ChOf(l) = Cur /\ l' = l + 1 ELSE l' = l
  /\ AbandonClose /\ UNCHANGED <<io, run>>

---------------------------------------------------------------------------
(* output channels, io = 0: only hook events; the environment answers silently *)
SOpenOK ==
  /\ ~io /\ pc = "Open" /\ IsE(l, "OpenOutput") /\ ChOf(l) = Cur /\ Tr[l].ok = 1
  /\ OpenOK /\ l' = l + 1 /\ UNCHANGED <<io, run>>

SOpenFail ==
  /\ ~io /\ pc = "Open" /\ IsE(l, "OpenOutput") /\ ChOf(l) = Cur /\ Tr[l].ok = 0
  /\ OpenFail /\ l' = l + 1 /\ UNCHANGED <<io, run>>

NextIsDone == IsE(l, "WriterDone") /\ ChOf(l) = Cur

\* the writer reports fail() although nothing failed so far: some write failed
SWriteFail ==
  /\ ~io /\ pc = "Write" /\ NextIsDone /\ Tr[l].fail = 1 /\ ~failbit[Cur]
  /\ WriteFail(1, "write") /\ UNCHANGED <<l, io, run>>

SWriterReturn ==
  /\ ~io /\ pc = "Write" /\ NextIsDone /\ Tr[l].fail = 0 /\ ~failbit[Cur]
  /\ WriterReturn /\ UNCHANGED <<l, io, run>>

SFlushNone == /\ ~io /\ pc = "Flush" /\ NextIsDone /\ FlushNone /\ UNCHANGED <<l, io, run>>
SCloseOK == /\ ~io /\ pc = "CloseFd" /\ NextIsDone /\ CloseOK /\ UNCHANGED <<l, io, run>>

---------------------------------------------------------------------------
(* end of the run *)
\* the record vf wrote after the process ended follows the Exit event
Obs(i) == IsE(i, "Observed")

TLoadCheck ==
  /\ pc = "LoadCheck" /\ IsE(l, "Exit") /\ Obs(l + 1)
  /\ LoadCheck(Tr[l + 1].loaderr = 1)
  /\ UNCHANGED <<l, io, run>>

\* exit status as the program computed it: bound, not compared (C15_StatusIsExit and
\* C19_FaultReported compare it with what the protocol demands)
TExit ==
  /\ pc = "Exit" /\ IsE(l, "Exit")
  /\ exit' = ExitCode(Tr[l].status)
  /\ pc' = "Exited"
  /\ UNCHANGED <<CmdVars, ParseVars, ChanVars, status, signal, diags>>
  /\ l' = l + 1 /\ UNCHANGED <<io, run>>

\* early exits of main() (usage, bad option): Exit without any front-end event
TExitEarly ==
  /\ pc = "Parse" /\ fi = 0 /\ IsE(l, "Exit") /\ Tr[l].status # 0 /\ tool # "interrogate_module"
  /\ exit' = ExitCode(Tr[l].status) /\ status' = 1 /\ diags' = 1
  /\ pc' = "Exited"
  /\ UNCHANGED <<CmdVars, ParseVars, ChanVars, signal>>
  /\ l' = l + 1 /\ UNCHANGED <<io, run>>

Sizes(i, f, old) == [c \in AllCh |-> IF Has(i, f) /\ c \in DOMAIN Tr[i][f] THEN Tr[i][f][c] ELSE old[c]]

\* the monitor record of a run that exited: what the caller of the tool can see
TObserved ==
  /\ pc = "Exited" /\ Obs(l) /\ Tr[l].signal = 0 /\ Tr[l].timeout = 0
  \* the injector's byte count is the file's size
  /\ io => \A c \in req : (Has(l, "disk") /\ c \in DOMAIN Tr[l].disk /\ Tr[l].disk[c] >= 0)
                              => Tr[l].disk[c] = onDisk[c]
  /\ exit' = Tr[l].rc
  /\ exists' = [c \in AllCh |-> c \in Range(Tr[l].present)]
  /\ onDisk' = Sizes(l, "disk", onDisk)
  /\ produced' = Sizes(l, "want", produced)
  /\ diags' = Tr[l].ndiag
  \* the errors the caller of the tool was TOLD about (" error: " diagnostics on stderr): when the
  \* program printed more of them than its own counter admits, the larger number is what the
  \* protocol is judged on (C15_OkIffNoErrors, C15_ErrorMeansFailure)
  /\ errors' = IF Has(l, "nerr") /\ Tr[l].nerr > errors THEN Tr[l].nerr ELSE errors
  /\ pc' = "Judged"
  /\ UNCHANGED <<CmdVars, fi, lastOk, unread, parsed, ci, wk, opened, failbit, sched,
                 openedBeforeParseEnd, loadErr, status, signal>>
  /\ l' = l + 1 /\ UNCHANGED <<io, run>>

\* the process died (signal, abort, uncaught exception, sanitizer report) or hung, wherever it was
TDied ==
  /\ Obs(l) /\ (Tr[l].signal # 0 \/ Tr[l].timeout # 0)
  /\ signal' = IF Tr[l].timeout # 0 THEN "timeout" ELSE "signal"
  /\ exit' = Tr[l].rc
  /\ pc' = "Judged"
  /\ UNCHANGED <<CmdVars, ParseVars, ChanVars, status, diags>>
  /\ l' = l + 1 /\ UNCHANGED <<io, run>>

\* events of other hook families recorded in the same file are not ours
Ours == {"Run", "ParseFile", "Built", "OpenOutput", "WriterDone", "Exit", "io", "Observed"}
TForeign ==
  /\ l <= N /\ Tr[l].e \notin Ours
  /\ UNCHANGED vars /\ l' = l + 1 /\ UNCHANGED <<io, run>>

TDone == l = N + 1 /\ pc \in {"Judged", "Parse"} /\ UNCHANGED tvars

TNext == TRun \/ TParse \/ TParseOkWithErrors \/ TParseFailNoError \/ TRequest \/ TCommands \/ TBuild \/ TOpenEarly
         \/ TOpenOK \/ TOpenFail \/ TWriterDoneAfterOpenFail
         \/ TWriteOK \/ TWriteFail \/ TWriterReturn \/ TFlushOK \/ TFlushFail \/ TFlushNone
         \/ TCloseOK \/ TCloseFail \/ TCheck \/ TEarlyCheck \/ TAbandonFlush \/ TAbandonClose
         \/ SOpenOK \/ SOpenFail \/ SWriteFail \/ SWriterReturn \/ SFlushNone \/ SCloseOK
         \/ TLoadCheck \/ TExit \/ TExitEarly \/ TObserved \/ TDied
         \/ TForeign \/ TDone

TSpec == TInit /\ [][TNext]_tvars
=============================================================================
