SPECIFICATION Spec
CONSTANTS
  Lits <- Lits2
  Ops = {"+", "*"}
  Forms = {"lit", "ref", "rl", "cc"}
  OpenKinds = {"open", "openC", "openU"}
  Kinds = {"enumE", "enumI", "const", "macroP", "macroB", "array"}
  MaxDecls = 3
  MaxEnums = 1
INVARIANT ImplicitOK
INVARIANT PrimaryOK
INVARIANT SpliceOK
INVARIANT NestingOK
INVARIANT MuOK
INVARIANT RangeOK
CONSTRAINT DumpConstraint
CHECK_DEADLOCK FALSE
