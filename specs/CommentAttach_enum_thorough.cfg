SPECIFICATION Spec
CONSTANTS
  MaxLen = 5
  Kinds <- EnumKinds
  SameLineConsumes = TRUE
INVARIANT RefNoSharing
CONSTRAINT DumpConstraint
CHECK_DEADLOCK FALSE
