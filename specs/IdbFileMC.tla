----------------------------- MODULE IdbFileMC -----------------------------
(* Model-checking wrapper of IdbFile: the dump of every finished behaviour (the file bytes TLC wrote,
   how it is requested, the error flag and the global database the spec demands, the bytes
   InterrogateDatabase::write must produce afterwards), replayed into libinterrogatedb by vf/checks/c12.py. *)
EXTENDS IdbFile, Json, CSV, IOUtils

DumpFile == IF "VERIF_DUMP" \in DOMAIN IOEnv THEN IOEnv.VERIF_DUMP ELSE ""

GlobAsDb == [id |-> temp.id, lib |-> temp.lib, hash |-> temp.hash, mod |-> temp.mod] @@ Tables(glob)

Rec ==
  [a |-> par.a, pre |-> par.pre, layout |-> par.layout, kind |-> hdr.kind, major |-> hdr.major, minor |-> hdr.minor,
   defid |-> hdr.defid, first |-> hdr.first, next |-> hdr.next, nrec |-> NumRecs(db),
   cut |-> cut, content |-> RemovesContent, file |-> stream,
   err |-> err, merged |-> (Tables(glob) # BaseTables \/ NumRecs(db) = 0),
   glob |-> Tables(glob), hdrs |-> [id |-> temp.id, lib |-> temp.lib, hash |-> temp.hash, mod |-> temp.mod],
   rw |-> IF err THEN <<>> ELSE WriteDb(GlobAsDb, 3)]

DumpConstraint ==
  IF DumpFile # "" /\ pc = "done" THEN CSVWrite("%1$s", <<ToJson(Rec)>>, DumpFile) ELSE TRUE

\* the base database file, written once
ASSUME DumpFile = "" \/ CSVWrite("%1$s", <<ToJson([base |-> WriteDb(BaseDb, 3), glob |-> Tables(BaseDb)])>>, DumpFile)
=============================================================================
