----------------------------- MODULE IdbFileMC -----------------------------
(* Model-checking wrapper of IdbFile: the dump of every finished behaviour (the file bytes TLC wrote,
   how it is requested, the error flag and the global database the spec demands, the bytes
   InterrogateDatabase::write must produce afterwards), replayed into libinterrogatedb by vf/checks/c12.py. *)
EXTENDS IdbFile, Json, CSV, IOUtils

DumpFile == IF "VERIF_DUMP" \in DOMAIN IOEnv THEN IOEnv.VERIF_DUMP ELSE ""
InputFile == IF "VERIF_INPUT" \in DOMAIN IOEnv THEN IOEnv.VERIF_INPUT ELSE ""

\* Real database files (written by interrogate -od) go through the same reader:
\* VERIF_INPUT is a JSON array [{"name": ..., "bytes": [...]}, ...]; cfg IdbFile_ext uses ExtSpec.
ExtInputs == IF InputFile = "" THEN <<>> ELSE JsonDeserialize(InputFile)
ExtInit ==
  \E j \in 1..Len(ExtInputs) :
    /\ par = [a |-> 1, pre |-> "none", layout |-> ExtInputs[j].name]
    /\ db = EmptyDb
    /\ hdr = [NoHdr EXCEPT !.kind = "ext"] /\ cut = -1 /\ stream = ExtInputs[j].bytes
    /\ pc = "header" /\ sec = 0 /\ left = 0 /\ st = StartPos
    /\ fmaj = 0 /\ fmin = 0 /\ temp = EmptyTemp /\ glob = BaseGlob("none") /\ err = FALSE
ExtSpec == ExtInit /\ [][ReadNext]_vars

\* what interrogate wrote is well-formed, is read completely, and the reader step machine agrees with the
\* one-shot reader function
ExtReadable ==
  /\ pc = "remap" => WellFormed(temp) /\ fmaj = CurrentMajor /\ fmin = CurrentMinor
                     /\ LET r == ReadFile(stream) IN r.ok /\ Tables(r.db) = Tables(temp)
  /\ pc = "done" => ~err

GlobAsDb == [id |-> temp.id, lib |-> temp.lib, hash |-> temp.hash, mod |-> temp.mod] @@ Tables(glob)

Rec ==
  [a |-> par.a, pre |-> par.pre, layout |-> par.layout, kind |-> hdr.kind, major |-> hdr.major, minor |-> hdr.minor,
   defid |-> hdr.defid, first |-> hdr.first, next |-> hdr.next, nrec |-> NumRecs(db),
   cut |-> cut, content |-> (hdr.kind # "ext" /\ RemovesContent), file |-> IF hdr.kind = "ext" THEN <<>> ELSE stream,
   err |-> err, gnext |-> glob.next,
   glob |-> Tables(glob), hdrs |-> [id |-> temp.id, lib |-> temp.lib, hash |-> temp.hash, mod |-> temp.mod],
   full |-> IF hdr.kind # "ext" /\ cut # -1 /\ ~RemovesContent THEN FileBytes ELSE <<>>,
   rw |-> IF err THEN <<>> ELSE WriteDb(GlobAsDb, 3)]

DumpConstraint ==
  IF DumpFile # "" /\ pc = "done" THEN CSVWrite("%1$s", <<ToJson(Rec)>>, DumpFile) ELSE TRUE

\* the base database file, written once
ASSUME DumpFile = "" \/ CSVWrite("%1$s", <<ToJson([base |-> WriteDb(BaseDb, 3), glob |-> Tables(BaseDb)])>>, DumpFile)
=============================================================================
