SPECIFICATION Spec
CONSTANTS
  MaxLines = 4
  MaxHdr = 2
  MaxCond = 1
  Hdrs = {"h1"}
  Names = {"M"}
  Kinds = {"text", "if", "endif", "inc", "blank"}
  Payloads = {"__LINE__"}
  DefVals = {"1"}
  Conds = {"L"}
  Shapes = {"p", "c", "b"}
  LineK = 2
  MinDump = 3
INVARIANT TypeOK
INVARIANT IncludeDepth
INVARIANT CondClosedAtEOF
INVARIANT AtMostOneGroup
INVARIANT SuspendedFramesActive
INVARIANT OnceContributesOnce
INVARIANT OutSound
PROPERTY SkippedNoEffect
PROPERTY LineNumbersIncrease
CONSTRAINT DumpConstraint
CHECK_DEADLOCK FALSE
