------------------------------ MODULE CondIncl ------------------------------
(***************************************************************************)
(* Conditional inclusion (property C09).                                   *)
(*                                                                         *)
(* The *program* is the behaviour: every step appends one source line.     *)
(* Two machines consume the line in lock-step:                             *)
(*   - the REFERENCE: the conditional stack of a conforming preprocessor   *)
(*     (C11 6.10.1 / C++ [cpp.cond]); a group is kept iff every enclosing  *)
(*     group is kept and it is the first of its chain whose condition is   *)
(*     true; conditions of skipped groups are not evaluated.               *)
(*   - the MECHANISM: interrogate's stack-less implementation,             *)
(*     CPPPreprocessor::process_directive (mode "N") and                   *)
(*     skip_false_if_block(consider_elifs) (mode "S" with a nesting        *)
(*     counter `level`), transcribed branch by branch.                     *)
(* Refines (invariant) says the mechanism keeps / evaluates / acts upon    *)
(* exactly what the reference does, after every line of every well-nested  *)
(* program within the bounds.                                              *)
(***************************************************************************)
EXTENDS Naturals, Integers, Sequences, TLC

CONSTANTS MaxLen,      \* number of lines
          MaxDepth,    \* nesting bound
          Conds,       \* subset of {"T","F","D","N","V","U"} usable in #if / #elif
          Kinds        \* subset of line kinds to enumerate

AllConds == {"T", "F", "D", "N", "V", "U", "R", "H", "J"}
\* T/F literal-valued expressions; D defined(M); N !defined(M); V value of M; U undefined identifier;
\* R an expression over self-referential macros that is true because the surviving name counts as 0;
\* H __has_include of an existing file (true); J __has_include of a missing file (false)
CondKinds == {"if", "elif"}
OpenKinds == {"if", "ifdef", "ifndef"}
ElifKinds == {"elif", "elifdef", "elifndef"}
PlainKinds == {"ifdef", "ifndef", "elifdef", "elifndef", "else", "endif",
               "text", "def0", "def1", "undef", "warn", "err", "inc", "inc2", "push", "pop", "noise"}
\* "noise": a line with no effect at all (comment in any shape, the null directive, a declaration-free
\*          line of literals); it exists to exercise the line scanner inside kept and skipped groups
\* "inc"  : #include of a file with one declaration
\* "inc2" : #include of a file that says  #ifdef M / #pragma once / #endif  before its declaration
\* "push"/"pop" : #pragma push_macro("M") / pop_macro("M")

Lines == [k : CondKinds \cap Kinds, c : Conds] \cup [k : PlainKinds \cap Kinds]

VARIABLES
  prog, depth, sawElse,            \* the program so far + well-nestedness bookkeeping
  rstack, rdef, rout, rev,         \* reference: stack, macro M (-1 undefined, else value), kept effects, evaluations
  rpush, ronce,                    \* reference: push_macro stack of M, "the inc2 file is marked once"
  mode, level, celifs, mdef, mout, mev,  \* mechanism
  mpush, monce

vars == <<prog, depth, sawElse, rstack, rdef, rout, rev, rpush, ronce,
          mode, level, celifs, mdef, mout, mev, mpush, monce>>

\* value of the controlling expression of line l when macro M has state d
Val(l, d) ==
  CASE l.k \in {"ifdef", "elifdef"}  -> d # -1
    [] l.k \in {"ifndef", "elifndef"} -> d = -1
    [] OTHER ->
       CASE l.c = "T" -> TRUE
         [] l.c = "F" -> FALSE
         [] l.c = "D" -> d # -1
         [] l.c = "N" -> d = -1
         [] l.c = "V" -> d = 1          \* M expands to its value; an undefined identifier counts as 0
         [] l.c = "U" -> FALSE          \* an identifier that is never defined: 0
         [] l.c = "R" -> TRUE
         [] l.c = "H" -> TRUE
         [] l.c = "J" -> FALSE

RActive == \A i \in 1..Len(rstack) : rstack[i].active
Pos == Len(prog) + 1

Init ==
  /\ prog = <<>> /\ depth = 0 /\ sawElse = <<>>
  /\ rstack = <<>> /\ rdef = -1 /\ rout = <<>> /\ rev = <<>> /\ rpush = <<>> /\ ronce = FALSE
  /\ mode = "N" /\ level = 0 /\ celifs = FALSE /\ mdef = -1 /\ mout = <<>> /\ mev = <<>>
  /\ mpush = <<>> /\ monce = FALSE

WellNested(l) ==
  CASE l.k \in OpenKinds -> depth < MaxDepth
    [] l.k \in ElifKinds \cup {"else"} -> depth > 0 /\ ~sawElse[depth]
    [] l.k = "endif" -> depth > 0
    [] OTHER -> TRUE

Effect(l) == l.k \in {"text", "warn", "err", "inc"}

---------------------------------------------------------------------------
(* Reference *)
RefStep(l) ==
  CASE l.k \in OpenKinds ->
         LET outer == RActive
             v == outer /\ Val(l, rdef) IN
         /\ rstack' = Append(rstack, [taken |-> v, active |-> v, outer |-> outer])
         /\ rev' = IF outer THEN Append(rev, <<Pos, Val(l, rdef)>>) ELSE rev
         /\ UNCHANGED <<rdef, rout, rpush, ronce>>
    [] l.k \in ElifKinds ->
         LET top == rstack[Len(rstack)]
             need == top.outer /\ ~top.taken
             v == need /\ Val(l, rdef) IN
         /\ rstack' = [rstack EXCEPT ![Len(rstack)] =
                          [taken |-> top.taken \/ v, active |-> v, outer |-> top.outer]]
         /\ rev' = IF need THEN Append(rev, <<Pos, Val(l, rdef)>>) ELSE rev
         /\ UNCHANGED <<rdef, rout, rpush, ronce>>
    [] l.k = "else" ->
         LET top == rstack[Len(rstack)]
             v == top.outer /\ ~top.taken IN
         /\ rstack' = [rstack EXCEPT ![Len(rstack)] =
                          [taken |-> TRUE, active |-> v, outer |-> top.outer]]
         /\ UNCHANGED <<rdef, rout, rev, rpush, ronce>>
    [] l.k = "endif" ->
         /\ rstack' = SubSeq(rstack, 1, Len(rstack) - 1)
         /\ UNCHANGED <<rdef, rout, rev, rpush, ronce>>
    [] Effect(l) ->
         /\ rout' = IF RActive THEN Append(rout, <<Pos, l.k>>) ELSE rout
         /\ UNCHANGED <<rstack, rdef, rev, rpush, ronce>>
    [] l.k = "def0" -> rdef' = (IF RActive THEN 0 ELSE rdef) /\ UNCHANGED <<rstack, rout, rev, rpush, ronce>>
    [] l.k = "def1" -> rdef' = (IF RActive THEN 1 ELSE rdef) /\ UNCHANGED <<rstack, rout, rev, rpush, ronce>>
    [] l.k = "undef" -> rdef' = (IF RActive THEN -1 ELSE rdef) /\ UNCHANGED <<rstack, rout, rev, rpush, ronce>>
    [] l.k = "inc2" ->
         \* the file is read unless it was marked once; it marks itself once when M is defined
         /\ rout' = IF RActive /\ ~ronce THEN Append(rout, <<Pos, "inc2">>) ELSE rout
         /\ ronce' = IF RActive /\ ~ronce THEN rdef # -1 ELSE ronce
         /\ UNCHANGED <<rstack, rdef, rev, rpush>>
    [] l.k = "noise" -> UNCHANGED <<rstack, rdef, rout, rev, rpush, ronce>>
    [] l.k = "push" ->
         /\ rpush' = IF RActive THEN Append(rpush, rdef) ELSE rpush
         /\ UNCHANGED <<rstack, rdef, rout, rev, ronce>>
    [] l.k = "pop" ->
         /\ rdef' = IF RActive /\ rpush # <<>> THEN rpush[Len(rpush)] ELSE rdef
         /\ rpush' = IF RActive /\ rpush # <<>> THEN SubSeq(rpush, 1, Len(rpush) - 1) ELSE rpush
         /\ UNCHANGED <<rstack, rout, rev, ronce>>

---------------------------------------------------------------------------
(* Mechanism.  handle_if_directive / handle_ifdef_directive / handle_ifndef_directive:
   evaluate; when false call skip_false_if_block(true). *)
HandleIf(l) ==
  /\ mev' = Append(mev, <<Pos, Val(l, mdef)>>)
  /\ IF Val(l, mdef)
       THEN mode' = "N" /\ UNCHANGED <<level, celifs>>
       ELSE mode' = "S" /\ level' = 0 /\ celifs' = TRUE

MechStep(l) ==
  IF mode = "N" THEN
    \* process_directive (and ordinary text) in normal mode
    CASE l.k \in OpenKinds -> HandleIf(l) /\ UNCHANGED <<mdef, mout, mpush, monce>>
      [] l.k \in ElifKinds \cup {"else"} ->
           \* "Presumably this follows some #if": skip to the matching #endif, elifs not considered
           mode' = "S" /\ level' = 0 /\ celifs' = FALSE /\ UNCHANGED <<mdef, mout, mev, mpush, monce>>
      [] l.k = "endif" -> UNCHANGED <<mode, level, celifs, mdef, mout, mev, mpush, monce>>
      [] Effect(l) -> mout' = Append(mout, <<Pos, l.k>>) /\ UNCHANGED <<mode, level, celifs, mdef, mev, mpush, monce>>
      [] l.k = "def0" -> mdef' = 0 /\ UNCHANGED <<mode, level, celifs, mout, mev, mpush, monce>>
      [] l.k = "def1" -> mdef' = 1 /\ UNCHANGED <<mode, level, celifs, mout, mev, mpush, monce>>
      [] l.k = "undef" -> mdef' = -1 /\ UNCHANGED <<mode, level, celifs, mout, mev, mpush, monce>>
      [] l.k = "inc2" ->
           \* handle_include_directive consults _parsed_files[..]._pragma_once; the included file's own
           \* #ifdef M / #pragma once / #endif is processed by this same machine (balanced, so the mode
           \* is N again afterwards) and reaches handle_pragma_directive only when M is defined
           /\ mout' = IF ~monce THEN Append(mout, <<Pos, "inc2">>) ELSE mout
           /\ monce' = IF ~monce THEN mdef # -1 ELSE monce
           /\ UNCHANGED <<mode, level, celifs, mdef, mev, mpush>>
      [] l.k = "noise" -> UNCHANGED <<mode, level, celifs, mdef, mout, mev, mpush, monce>>
      [] l.k = "push" -> mpush' = Append(mpush, mdef) /\ UNCHANGED <<mode, level, celifs, mdef, mout, mev, monce>>
      [] l.k = "pop" ->
           /\ mdef' = IF mpush # <<>> THEN mpush[Len(mpush)] ELSE mdef
           /\ mpush' = IF mpush # <<>> THEN SubSeq(mpush, 1, Len(mpush) - 1) ELSE mpush
           /\ UNCHANGED <<mode, level, celifs, mout, mev, monce>>
  ELSE
    \* skip_false_if_block: only directive names are looked at
    CASE l.k \in OpenKinds -> level' = level + 1 /\ UNCHANGED <<mode, celifs, mdef, mout, mev, mpush, monce>>
      [] l.k = "else" ->
           IF level = 0 /\ celifs
             THEN mode' = "N" /\ UNCHANGED <<level, celifs, mdef, mout, mev, mpush, monce>>
             ELSE UNCHANGED <<mode, level, celifs, mdef, mout, mev, mpush, monce>>
      [] l.k \in ElifKinds ->
           IF level = 0 /\ celifs
             THEN HandleIf(l) /\ UNCHANGED <<mdef, mout, mpush, monce>>
             ELSE UNCHANGED <<mode, level, celifs, mdef, mout, mev, mpush, monce>>
      [] l.k = "endif" ->
           IF level = 0
             THEN mode' = "N" /\ UNCHANGED <<level, celifs, mdef, mout, mev, mpush, monce>>
             ELSE level' = level - 1 /\ UNCHANGED <<mode, celifs, mdef, mout, mev, mpush, monce>>
      [] OTHER -> UNCHANGED <<mode, level, celifs, mdef, mout, mev, mpush, monce>>

---------------------------------------------------------------------------
Step(l) ==
  /\ WellNested(l)
  /\ RefStep(l) /\ MechStep(l)
  /\ prog' = Append(prog, l)
  /\ depth' = CASE l.k \in OpenKinds -> depth + 1 [] l.k = "endif" -> depth - 1 [] OTHER -> depth
  /\ sawElse' = CASE l.k \in OpenKinds -> Append(sawElse, FALSE)
                  [] l.k = "else" -> [sawElse EXCEPT ![depth] = TRUE]
                  [] l.k = "endif" -> SubSeq(sawElse, 1, depth - 1)
                  [] OTHER -> sawElse

Next == Len(prog) < MaxLen /\ \E l \in Lines : Step(l)

Spec == Init /\ [][Next]_vars

---------------------------------------------------------------------------
(* Properties *)
Refines ==
  /\ rout = mout              \* same text / diagnostics / includes survive
  /\ rdef = mdef              \* same macro state: skipped #define/#undef have no effect
  /\ rev = mev                \* the same conditions are evaluated, with the same value
  /\ rpush = mpush /\ ronce = monce   \* skipped #pragma push_macro / pop_macro / once have no effect
  /\ (mode = "N") <=> RActive

ClosedNormal == depth = 0 => mode = "N"

AtMostOneGroup ==   \* reference sanity: at most one group per conditional is kept
  \A i \in 1..Len(rstack) : rstack[i].active => rstack[i].taken

LevelBound == level <= MaxDepth

=============================================================================
