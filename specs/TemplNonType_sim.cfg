SPECIFICATION SimSpec
CONSTANTS
  MaxDefs = 5
  MaxDepth = 3
  Connected = FALSE
  MinDefs = 3
  MaxUses = 2
  Size = "L"
  BodyTerms <- MCBodyTerms
  DfltProfiles <- MCDfltProfiles
  UseTerms <- MCUseTerms
  QueryTerms <- MCQueryTerms
INVARIANT ResultGround
INVARIANT Idempotent
INVARIANT Confluent
INVARIANT ValueOnly
INVARIANT SubstLemma
INVARIANT Small
CONSTRAINT DumpConstraint
CHECK_DEADLOCK FALSE
