SPECIFICATION TSpec
CONSTANTS
  ExtClass <- TrClass
  ExtEsc <- TrEsc
  ExtSep <- NoSep
INVARIANT NoResidual
CHECK_DEADLOCK TRUE
