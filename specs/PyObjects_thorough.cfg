SPECIFICATION Spec
CONSTANTS
  MaxInst = 4
  MaxWrappers = 4
  MaxDepth = 10
INVARIANT AtMostOnce
INVARIANT OnlyViaOwner
INVARIANT OneOwner
INVARIANT OwnerIsPy
INVARIANT NoLeak
INVARIANT FinalAccounting
INVARIANT ConstRaises
VIEW View
CONSTRAINT DumpConstraint
CHECK_DEADLOCK FALSE
