SPECIFICATION Spec
CONSTANTS
  MaxInst = 3
  MaxWrappers = 4
  MaxDepth = 9
  MaxMarks = 1
  EnableEmpty = FALSE
INVARIANT AtMostOnce
INVARIANT OnlyViaOwner
INVARIANT OneOwner
INVARIANT OwnerIsPy
INVARIANT NoLeak
INVARIANT FinalAccounting
INVARIANT ConstRaises
VIEW View
CONSTRAINT DumpConstraint
CHECK_DEADLOCK FALSE
