SPECIFICATION Spec
CONSTANTS
  ElemIgnore = TRUE
  Shape <- AliasShape
  MinVisSet <- Both
  File2Srcs <- None
  ClassHeads <- AliasHeads
  NestedKeys <- None
  MemberAlpha <- AliasMembers
  MaxMembers <- M20
  MaxClasses = 2
  BaseAlpha <- None
  MaxBases = 1
  ClassComments <- NoComment
  TopAlpha <- AliasTops
  MaxTops = 1
  AliasAlpha <- AliasFormsT
  MaxAliases = 2
  NestedLike = FALSE
  CmdKinds <- IgnInv
INVARIANT SafeVis
INVARIANT SafeAccess
INVARIANT SafeKind
INVARIANT SafeFile
INVARIANT SafeSig
INVARIANT SafeOwner
INVARIANT SafeForeign
INVARIANT Consistent
INVARIANT Sound
INVARIANT Complete
INVARIANT Bounded
INVARIANT OneOwner
INVARIANT RefsBackward
INVARIANT VisIsFunction
CONSTRAINT DumpConstraint
CHECK_DEADLOCK FALSE
