------------------------------ MODULE Preproc ------------------------------
(***************************************************************************)
(* The COMPOSED preprocessor (properties C08, C09, C17).                   *)
(*                                                                         *)
(* MacroRef, CondIncl and IncludeSearch model macro replacement,           *)
(* conditional inclusion and include lookup in isolation.  This module is  *)
(* their composition at the granularity of one logical source line: a      *)
(* macro table, one conditional stack per open file, an include stack with *)
(* the position and PHYSICAL line number of every open file, the set of    *)
(* once-only files, and the sequence of emitted facts.                     *)
(*                                                                         *)
(* The program is the behaviour.  A program is a set of files (main and    *)
(* the headers of Hdrs), each a sequence of logical lines.  Writing and    *)
(* running go in lock-step: a step appends one line to the file on top of  *)
(* the include stack and processes it.  The first time an #include of a    *)
(* header is ACTED UPON the header starts empty and is written (and run)   *)
(* line by line until its EOF step; a later inclusion of a header that     *)
(* exists REPLAYS its lines, one per step, in the macro state of that      *)
(* moment.  A header includes only headers of higher rank (no recursion),  *)
(* every file is well-nested on its own (that is the domain), a computed   *)
(* include must name a header when it is acted upon.                       *)
(*                                                                         *)
(* Reference semantics: ISO C 6.10 / C++ [cpp] (checked against gcc -E on  *)
(* every dumped behaviour by vf/checks/_preproc.py).                       *)
(*  - __LINE__ = 1 + number of new-lines read up to the token (6.10.4p2):  *)
(*    the physical line of the token; continuation lines, multi-line       *)
(*    comments and blank lines move it; the count restarts at 1 in an      *)
(*    included file and resumes in the includer.                           *)
(*  - a macro whose replacement list is __LINE__ yields the line of USE.   *)
(*  - a skipped line has no effect whatsoever; an #include in a skipped    *)
(*    group does not even look for the file.                               *)
(*  - #pragma once takes effect when it is processed (kept group).         *)
(***************************************************************************)
EXTENDS Naturals, Integers, Sequences, FiniteSets, TLC

CONSTANTS
  MaxLines,   \* logical lines written, all files together
  MaxHdr,     \* logical lines per header
  MaxCond,    \* conditional nesting per file
  Hdrs,       \* subset of {"h1", "h2"}
  Names,      \* object-like macros that lines may define / test: subset of {"M", "N"}
  Kinds,      \* line kinds to enumerate
  Payloads,   \* what a text line mentions: subset of {"1", "M", "N", "__LINE__", "__FILE__"}
  DefVals,    \* replacement lists: subset of {"0", "1", "2", "M", "N", "__LINE__"}
  Conds,      \* #if / #elif condition classes: subset of {"D", "V", "E", "L"}
  Shapes,     \* physical shapes: subset of {"p", "c", "b", "m"}
  LineK       \* the k of  #if __LINE__ > k

Files == {"main"} \cup Hdrs
Rank(f) == CASE f = "main" -> 0 [] f = "h1" -> 1 [] f = "h2" -> 2 [] OTHER -> 99
AllNames == {"M", "N", "HN"}
Undef == "-"

\* A line is a record [k, x, v, sh]:  kind, macro / header operand, value / payload / condition, shape.
\*   shape "p": one physical line;  "c": two physical lines, the tokens on the first (backslash-newline
\*   or a comment running over the line end AFTER the tokens);  "b": two physical lines, the value token
\*   on the second (continuation / multi-line comment / blank line BEFORE it);  "m": three, token on the third
NPhys(l) == CASE l.sh = "p" -> 1 [] l.sh = "m" -> 3 [] OTHER -> 2
Off(l)   == CASE l.sh = "b" -> 1 [] l.sh = "m" -> 2 [] OTHER -> 0
DShapes  == Shapes \cap {"p", "c"}        \* directives keep their tokens on the first physical line

OpenKinds == {"if", "ifdef", "ifndef"}
ElifKinds == {"elif", "elifdef", "elifndef"}
CondDirs  == OpenKinds \cup ElifKinds \cup {"else", "endif"}

K(k) == IF k \in Kinds THEN {k} ELSE {}
Lines ==
       [k : K("text"), x : {"-"}, v : Payloads, sh : Shapes]
  \cup [k : K("def"), x : Names, v : DefVals, sh : DShapes]
  \cup [k : K("defhn"), x : {"HN"}, v : Hdrs, sh : {"p"}]
  \cup [k : K("undef"), x : Names, v : {"-"}, sh : {"p"}]
  \cup [k : K("undefhn"), x : {"HN"}, v : {"-"}, sh : {"p"}]
  \cup [k : K("ifdef") \cup K("ifndef") \cup K("elifdef") \cup K("elifndef"), x : Names, v : {"-"}, sh : {"p"}]
  \cup [k : K("if") \cup K("elif"), x : Names, v : Conds \ {"L"}, sh : DShapes]
  \cup [k : K("if") \cup K("elif"), x : {"-"}, v : Conds \cap {"L"}, sh : DShapes]
  \cup [k : K("else") \cup K("endif"), x : {"-"}, v : {"-"}, sh : {"p"}]
  \cup [k : K("inc"), x : Hdrs, v : {"-"}, sh : DShapes]
  \cup [k : K("incm"), x : {"HN"}, v : {"-"}, sh : {"p"}]
  \cup [k : K("once"), x : {"-"}, v : {"-"}, sh : {"p"}]
  \cup [k : K("blank"), x : {"-"}, v : {"-"}, sh : Shapes \cap {"p", "c"}]

VARIABLES
  files,     \* [Files -> Seq(Line)]   the program
  exists,    \* headers that exist as files (an #include of them was acted upon)
  stack,     \* include stack: Seq([f, pos, phys, cs, wr]); cs = conditional stack of THIS file
  defs,      \* macro table [AllNames -> replacement | Undef]
  dsrc,      \* file whose #define / #undef last changed the name (interaction bookkeeping)
  once,      \* once-only headers
  out,       \* emitted facts <<file, logical line, value>>
  nent,      \* [Hdrs -> number of times the header was entered]
  lastinc,   \* header reached by the last computed include that was acted upon
  hits,      \* interactions exercised by this behaviour
  last,      \* what the last step did (for the action properties)
  popOK,     \* every file closed so far had an empty conditional stack at its end
  done

vars == <<files, exists, stack, defs, dsrc, once, out, nent, lastinc, hits, last, popOK, done>>

Top == stack[Len(stack)]
Active(cs) == \A i \in 1..Len(cs) : cs[i].active
Total == LET RECURSIVE S(_)
             S(fs) == IF fs = {} THEN 0 ELSE LET f == CHOOSE g \in fs : TRUE IN Len(files[f]) + S(fs \ {f})
         IN S(Files)
OpenConds == LET RECURSIVE S(_)
                 S(i) == IF i = 0 THEN 0 ELSE (IF stack[i].wr THEN Len(stack[i].cs) ELSE 0) + S(i - 1)
             IN S(Len(stack))

---------------------------------------------------------------------------
(* Macro replacement of an object-like name: follow the chain, a name under replacement is not
   replaced again (6.10.3.4p2); the result is one token *)
RECURSIVE Res(_, _)
Res(n, seen) ==
  IF n \notin {"M", "N"} \/ defs[n] = Undef \/ n \in seen THEN n
  ELSE LET v == defs[n] IN IF v \in {"M", "N"} THEN Res(v, seen \cup {n}) ELSE v

Tok(p) == IF p \in {"M", "N"} THEN Res(p, {}) ELSE p

\* the token a text line shows for payload p when the token sits on physical line ln of file f
TokVal(p, ln, f) ==
  LET r == Tok(p) IN
  CASE r = "__LINE__" -> ToString(ln)
    [] r = "__FILE__" -> f
    [] OTHER -> r

\* value in a controlling expression: a surviving identifier counts as 0
IntVal(p, ln) ==
  LET r == Tok(p) IN
  CASE r = "0" -> 0 [] r = "1" -> 1 [] r = "2" -> 2 [] r = "__LINE__" -> ln [] OTHER -> 0

Val(l, ln) ==
  CASE l.k \in {"ifdef", "elifdef"} -> defs[l.x] # Undef
    [] l.k \in {"ifndef", "elifndef"} -> defs[l.x] = Undef
    [] l.v = "D" -> defs[l.x] # Undef         \* defined(X)
    [] l.v = "V" -> IntVal(l.x, ln) # 0        \* X
    [] l.v = "E" -> IntVal(l.x, ln) = 1        \* X == 1
    [] l.v = "L" -> ln > LineK                 \* __LINE__ > k

---------------------------------------------------------------------------
Init ==
  /\ files = [f \in Files |-> <<>>] /\ exists = {}
  /\ stack = <<[f |-> "main", pos |-> 1, phys |-> 1, cs |-> <<>>, wr |-> TRUE]>>
  /\ defs = [n \in AllNames |-> Undef] /\ dsrc = [n \in AllNames |-> "-"]
  /\ once = {} /\ out = <<>> /\ nent = [h \in Hdrs |-> 0] /\ lastinc = "-"
  /\ hits = {} /\ last = [k |-> "init", skipped |-> FALSE, f |-> "main", phys |-> 0, depth |-> 1]
  /\ popOK = TRUE /\ done = FALSE

\* header an include line reaches when it is acted upon ("-" if none)
Target(l) == IF l.k = "inc" THEN l.x ELSE defs["HN"]

\* well-formedness that depends on the state in which the line is PROCESSED (write time and replay time)
Dyn(l, t) ==
  /\ (l.k \in {"inc", "incm"} /\ Active(t.cs)) => (Target(l) \in Hdrs /\ Rank(Target(l)) > Rank(t.f))
\* well-formedness of a line appended to file t.f
Static(l, t) ==
  /\ CASE l.k \in OpenKinds -> Len(t.cs) < MaxCond
       [] l.k \in ElifKinds \cup {"else"} -> Len(t.cs) > 0 /\ ~t.cs[Len(t.cs)].else
       [] l.k = "endif" -> Len(t.cs) > 0
       [] OTHER -> TRUE
  /\ (l.k = "inc") => Rank(l.x) > Rank(t.f)
  /\ (l.k = "once") => t.f # "main"              \* (#pragma once in the main file is a gcc diagnostic)
  /\ (l.k = "incm") => Rank(t.f) < 2
  \* room: every open conditional of every file being written can still be closed within the bounds
  /\ (l.k # "endif") =>
        /\ Total + OpenConds + (IF l.k \in OpenKinds THEN 1 ELSE 0) < MaxLines
        /\ (t.f # "main") => Len(files[t.f]) + Len(t.cs) + (IF l.k \in OpenKinds THEN 1 ELSE 0) < MaxHdr

\* conditional stack after line l (reference, as in CondIncl)
CondStep(l, cs, ln) ==
  CASE l.k \in OpenKinds ->
         LET outer == Active(cs)
             v == outer /\ Val(l, ln) IN
         Append(cs, [taken |-> v, active |-> v, outer |-> outer, else |-> FALSE])
    [] l.k \in ElifKinds ->
         LET top == cs[Len(cs)]
             v == top.outer /\ ~top.taken /\ Val(l, ln) IN
         [cs EXCEPT ![Len(cs)] = [taken |-> top.taken \/ v, active |-> v, outer |-> top.outer, else |-> FALSE]]
    [] l.k = "else" ->
         LET top == cs[Len(cs)] IN
         [cs EXCEPT ![Len(cs)] = [taken |-> TRUE, active |-> top.outer /\ ~top.taken, outer |-> top.outer, else |-> TRUE]]
    [] l.k = "endif" -> SubSeq(cs, 1, Len(cs) - 1)
    [] OTHER -> cs

\* is the controlling expression of l evaluated?
Evaluated(l, cs) ==
  \/ l.k \in OpenKinds /\ Active(cs)
  \/ l.k \in ElifKinds /\ cs[Len(cs)].outer /\ ~cs[Len(cs)].taken

\* interactions exercised by processing line l in frame t (counted in the evidence)
Hits(l, t, ln) ==
  LET act == Active(t.cs)
      inHdr == t.f # "main"
      names == IF l.k \in OpenKinds \cup ElifKinds /\ l.x \in {"M", "N"} THEN {l.x} ELSE {}
      multi == t.phys # t.pos \/ Off(l) > 0       \* physical and logical line numbers have diverged
      resolvesLine == l.k = "text" /\ l.v \in {"M", "N"} /\ Tok(l.v) = "__LINE__"
  IN
     {"def-in-included-decides-if" : n \in {n \in names : Evaluated(l, t.cs) /\ dsrc[n] \in Hdrs /\ Rank(dsrc[n]) > Rank(t.f) /\ defs[n] # Undef}}
  \cup {"undef-in-included-decides-if" : n \in {n \in names : Evaluated(l, t.cs) /\ dsrc[n] \in Hdrs /\ Rank(dsrc[n]) > Rank(t.f) /\ defs[n] = Undef}}
  \cup (IF l.k \in {"def", "defhn", "undef", "undefhn"} /\ ~act /\ inHdr THEN {"def-in-skipped-group-of-included"} ELSE {})
  \cup (IF l.k \in {"inc", "incm"} /\ act /\ Len(t.cs) > 0 THEN {"include-in-kept-group"} ELSE {})
  \cup (IF l.k \in {"inc", "incm"} /\ ~act THEN {"include-in-skipped-group"} ELSE {})
  \cup (IF l.k \in {"inc", "incm"} /\ act /\ Target(l) \in once THEN {"once-file-not-reentered"} ELSE {})
  \cup (IF l.k \in {"inc", "incm"} /\ act /\ Target(l) \in Hdrs /\ Target(l) \notin once /\ nent[Target(l)] > 0
          THEN {"reinclude-without-once"} ELSE {})
  \cup (IF l.k = "incm" /\ act /\ lastinc # "-" /\ lastinc # Target(l) THEN {"computed-include-macro-redefined"} ELSE {})
  \cup (IF l.k = "incm" /\ act THEN {"computed-include"} ELSE {})
  \cup (IF l.k = "ifndef" /\ inHdr /\ t.pos = 1 /\ nent[t.f] > 1 /\ Evaluated(l, t.cs) /\ Val(l, ln) /\ dsrc[l.x] # t.f /\ dsrc[l.x] # "-"
          THEN {"guard-undefined-between-includes"} ELSE {})
  \cup (IF l.k = "ifndef" /\ inHdr /\ t.pos = 1 /\ nent[t.f] > 1 /\ Evaluated(l, t.cs) /\ ~Val(l, ln)
          THEN {"guard-skips-second-include"} ELSE {})
  \cup (IF l.k = "text" /\ act /\ l.v = "__LINE__" THEN {"line-in-text"} ELSE {})
  \cup (IF resolvesLine /\ act THEN {"line-in-macro-body"} ELSE {})
  \cup (IF l.k \in {"if", "elif"} /\ Evaluated(l, t.cs) /\ (l.v = "L" \/ (l.x \in {"M", "N"} /\ l.v # "D" /\ Tok(l.x) = "__LINE__"))
          THEN {"line-in-if"} ELSE {})
  \cup (IF l.k = "text" /\ act /\ (l.v = "__LINE__" \/ resolvesLine) /\ multi THEN {"line-after-multiline-shape"} ELSE {})
  \cup (IF l.k = "text" /\ act /\ (l.v = "__LINE__" \/ resolvesLine) /\ inHdr THEN {"line-in-included-file"} ELSE {})
  \cup (IF l.k = "text" /\ act /\ (l.v = "__LINE__" \/ resolvesLine) /\ last.depth > Len(stack) THEN {"line-right-after-include-returns"} ELSE {})
  \cup (IF l.k = "text" /\ act /\ l.v = "__FILE__" THEN {IF inHdr THEN "file-in-included" ELSE "file-in-includer"} ELSE {})
  \cup (IF l.k \in OpenKinds /\ inHdr /\ Len(stack) > 1 /\ Len(stack[Len(stack) - 1].cs) > 0 THEN {"conditional-inside-file-included-from-conditional"} ELSE {})
  \cup (IF l.k = "once" /\ ~act THEN {"pragma-once-in-skipped-group"} ELSE {})
  \cup (IF l.k = "text" /\ act /\ l.v \in {"M", "N"} /\ defs[l.v] \in {"M", "N"} /\ Tok(l.v) \in {"M", "N"} /\ defs[Tok(l.v)] # Undef
          THEN {"self-referential-chain-stops"} ELSE {})

\* process line l in the top frame (the one semantic step)
Process(l) ==
  LET t == Top
      ln == t.phys + Off(l)
      act == Active(t.cs)
      adv == [t EXCEPT !.pos = t.pos + 1, !.phys = t.phys + NPhys(l), !.cs = CondStep(l, t.cs, ln)]
      base == SubSeq(stack, 1, Len(stack) - 1)
      enter == l.k \in {"inc", "incm"} /\ act /\ Target(l) \notin once
      h == Target(l)
  IN
  /\ Dyn(l, t)
  /\ hits' = hits \cup Hits(l, t, ln)
  /\ last' = [k |-> l.k, skipped |-> ~act, f |-> t.f, phys |-> t.phys, depth |-> Len(stack)]
  /\ stack' = IF enter
                THEN base \o <<adv, [f |-> h, pos |-> 1, phys |-> 1, cs |-> <<>>, wr |-> h \notin exists]>>
                ELSE Append(base, adv)
  /\ exists' = IF enter THEN exists \cup {h} ELSE exists
  /\ nent' = IF enter THEN [nent EXCEPT ![h] = @ + 1] ELSE nent
  /\ lastinc' = IF l.k = "incm" /\ act THEN h ELSE lastinc
  /\ out' = IF l.k = "text" /\ act THEN Append(out, <<t.f, t.pos, TokVal(l.v, ln, t.f)>>) ELSE out
  /\ defs' = CASE l.k \in {"def", "defhn"} /\ act -> [defs EXCEPT ![l.x] = l.v]
               [] l.k \in {"undef", "undefhn"} /\ act -> [defs EXCEPT ![l.x] = Undef]
               [] OTHER -> defs
  /\ dsrc' = IF l.k \in {"def", "defhn", "undef", "undefhn"} /\ act THEN [dsrc EXCEPT ![l.x] = t.f] ELSE dsrc
  /\ once' = IF l.k = "once" /\ act THEN once \cup {t.f} ELSE once
  /\ UNCHANGED <<popOK, done>>

\* append a new line to the file on top of the stack and process it
Write(l) ==
  /\ ~done /\ Top.wr
  /\ Static(l, Top)
  /\ files' = [files EXCEPT ![Top.f] = Append(@, l)]
  /\ Process(l)

\* a header that exists is included again: its next line is processed in today's state
Replay ==
  /\ ~done /\ ~Top.wr /\ Top.pos <= Len(files[Top.f])
  /\ Process(files[Top.f][Top.pos])
  /\ UNCHANGED files

\* end of the file on top of the stack
EOF ==
  /\ ~done
  /\ IF Top.wr THEN Len(Top.cs) = 0 ELSE Top.pos > Len(files[Top.f])
  /\ popOK' = (popOK /\ Len(Top.cs) = 0)
  /\ last' = [k |-> "eof", skipped |-> FALSE, f |-> Top.f, phys |-> Top.phys, depth |-> Len(stack)]
  /\ IF Len(stack) = 1
       THEN done' = TRUE /\ UNCHANGED stack
       ELSE done' = FALSE /\ stack' = SubSeq(stack, 1, Len(stack) - 1)
  /\ UNCHANGED <<files, exists, defs, dsrc, once, out, nent, lastinc, hits>>

Next == (\E l \in Lines : Write(l)) \/ Replay \/ EOF

Spec == Init /\ [][Next]_vars

---------------------------------------------------------------------------
(* Properties *)
TypeOK ==
  /\ exists \subseteq Hdrs /\ once \subseteq exists
  /\ \A i \in 1..Len(stack) : stack[i].f \in Files /\ stack[i].pos >= 1 /\ stack[i].phys >= stack[i].pos

\* include depth is bounded by the rank order, and the frames are strictly ranked (no recursion)
IncludeDepth ==
  /\ Len(stack) <= 1 + Cardinality(Hdrs)
  /\ stack[1].f = "main"
  /\ \A i \in 2..Len(stack) : Rank(stack[i].f) > Rank(stack[i - 1].f)

\* conditional stacks are per file: every file that ended, ended at depth 0 (written or replayed)
CondClosedAtEOF == popOK /\ (done => Len(stack[1].cs) = 0)

\* at most one group per conditional; a group is active only inside an active group
AtMostOneGroup ==
  \A i \in 1..Len(stack) : \A j \in 1..Len(stack[i].cs) :
     LET g == stack[i].cs[j] IN (g.active => g.taken /\ g.outer)

\* a file below the top of the stack is suspended inside a KEPT group: an include in a skipped group is not entered
SuspendedFramesActive == \A i \in 1..(Len(stack) - 1) : Active(stack[i].cs)

\* a once-only header whose first line is an unconditional #pragma once contributes each of its lines once
OnceContributesOnce ==
  \A h \in once : (Len(files[h]) > 0 /\ files[h][1].k = "once") =>
     \A i, j \in 1..Len(out) : (out[i][1] = h /\ out[j][1] = h /\ out[i][2] = out[j][2]) => i = j

\* every emitted fact comes from a line that exists, in a file that exists
OutSound ==
  \A i \in 1..Len(out) :
     LET o == out[i] IN o[1] \in Files /\ o[2] <= Len(files[o[1]]) /\ files[o[1]][o[2]].k = "text"

\* a skipped line that is not a conditional directive changes nothing but the position
SkippedNoEffect ==
  [][ (last'.skipped /\ last'.k \notin CondDirs /\ last'.k # "eof")
        => (defs' = defs /\ once' = once /\ out' = out /\ exists' = exists /\ nent' = nent
            /\ Len(stack') = Len(stack) /\ stack'[Len(stack')].cs = Top.cs) ]_vars

\* physical line numbers strictly increase within a file (while it stays on top), and start at 1 in an entered file
LineNumbersIncrease ==
  [][ /\ (Len(stack') = Len(stack) /\ ~done') => (stack'[Len(stack')].phys > Top.phys /\ stack'[Len(stack')].pos = Top.pos + 1)
      /\ (Len(stack') > Len(stack)) => (stack'[Len(stack')].phys = 1 /\ stack'[Len(stack)].phys > Top.phys)
      /\ (Len(stack') < Len(stack)) => stack'[Len(stack')] = stack[Len(stack')]   \* the includer resumes where it was
    ]_vars

=============================================================================
