SPECIFICATION MSpec
CONSTANTS
  MaxIdx = 4
  MCKinds = {"t", "f", "w"}
  Broken = "remove-referenced"
INVARIANT AllocDense
INVARIANT AddedAllocated
INVARIANT RefsPromised
INVARIANT NoImplicit
INVARIANT NoDegrade
INVARIANT ClosedAtDone
INVARIANT RemovedUnreferenced
INVARIANT LinksAtDone
INVARIANT WrappersFirst
INVARIANT IntentOK
PROPERTY AddFresh
PROPERTY UpdateLive
PROPERTY RemoveLive
PROPERTY Frozen
CHECK_DEADLOCK FALSE
