SPECIFICATION Spec
CONSTANTS
  Cats1 = {8, 12, 13}
  MaxOver1 = 2
  Cats2 = {12}
  MaxOver2 = 1
  Time = {1, 2}
  Locales = {"C"}
  EnvSizes = {0}
  PwdValues = {"real", "link"}
  CwdVia = {"real", "link"}
  OcNames = {"rel"}
  CwdSource = "getcwd"
  EpochEnvs = {"unset", "0", "normal"}
  ZeroMeansUnset = FALSE
  PrevFiles = {"none", "longer"}
  Truncates = TRUE
  InputVariants = {"dated", "oddslot"}
  TZs = {"UTC0", "XXX-13:30"}
  AslrBases = {1, 2}
  DateMacros = "undefined"
  PrintsPointer = TRUE
  TieBreak = "signature"
INVARIANT OutputPure
CHECK_DEADLOCK FALSE
