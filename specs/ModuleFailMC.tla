---------------------------- MODULE ModuleFailMC ----------------------------
(* dumps every failure-path case (replayed by vf/checks/c16.py) *)
EXTENDS ModuleFail, Json, CSV, IOUtils
DumpFile == IF "VERIF_DUMP" \in DOMAIN IOEnv THEN IOEnv.VERIF_DUMP ELSE ""
DumpConstraint ==
  IF DumpFile # "" /\ pc = "done"
    THEN CSVWrite("%1$s", <<ToJson([backend |-> backend, nargs |-> nargs, pos |-> pos, kind |-> kind, oc |-> oc, stale |-> stale])>>, DumpFile)
    ELSE TRUE
=============================================================================
