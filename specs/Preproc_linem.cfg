SPECIFICATION Spec
CONSTANTS
  MaxLines = 5
  MaxHdr = 3
  MaxCond = 1
  Hdrs = {"h1"}
  Names = {"M"}
  Kinds = {"text", "def", "inc"}
  Payloads = {"__LINE__", "M"}
  DefVals = {"__LINE__", "1"}
  Conds = {"V"}
  Shapes = {"p", "b"}
  LineK = 3
  MinDump = 3
INVARIANT TypeOK
INVARIANT IncludeDepth
INVARIANT CondClosedAtEOF
INVARIANT AtMostOneGroup
INVARIANT SuspendedFramesActive
INVARIANT OnceContributesOnce
INVARIANT OutSound
PROPERTY SkippedNoEffect
PROPERTY LineNumbersIncrease
CONSTRAINT DumpConstraint
CHECK_DEADLOCK FALSE
