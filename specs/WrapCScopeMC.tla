---------------------------- MODULE WrapCScopeMC ----------------------------
(* Bounded instances of WrapCScope.  Alphabets are products of small sets, rotated against each other (covering
   designs): every (return kind x parameter kind) and every (class x parameter kind) of the SCOPE kinds, 4..6
   parameters of mixed kinds x 0..3 trailing defaults (ARITY), every (cast kind x cast kind x class of the
   inheritance diamond-less family L, R, D : L, R, V : virtual L) (CASTS), and TWIN libraries: two functions of
   the same simple name in na::P and nb::P / overloaded at global scope on na::P vs nb::P. *)
EXTENDS WrapCScope, Json, CSV, IOUtils

CONSTANTS Stride       \* thins the alphabets for the quick tier

FK4 == <<"method", "cmethod", "static", "free">>
FK5 == <<"method", "cmethod", "static", "free", "ctor">>
ClsFor(fk, x) == IF fk = "free" THEN "-" ELSE SClsSeq[(x % 9) + 1]
NdFor(ps, x) == LET t == STrailing(ps) IN IF t = 0 THEN 0 ELSE x % (IF t > 3 THEN 4 ELSE t + 1)
Mk(id, fk, cls, name, r, ps, x) == [id |-> id, fk |-> fk, cls |-> cls, name |-> name, ret |-> r, ps |-> ps, nd |-> NdFor(ps, x)]
WF(S) == {s \in S : SWellFormed(s)}

\* (1) SCOPES
SPK == <<OP("AP"), OR("BP"), OC("API"), OV("OI"), OP("O"), OR("API"), OC("AP"), OV("BP"), SE("eA"), SE("eB"), SE("eO"),
         SE("eL"), OP("OI"), OR("O"), OP("BP"), OR("AP"), OC("BP"), OV("AP"), OV("API"), OC("O"), OP("API"), OR("OI")>>
SRK == <<K("i32"), OP("AP"), OR("BP"), OV("API"), OC("OI"), SE("eA"), SE("eB"), SE("eO"), SE("eL"), OV("O"), OP("BP"),
         OR("AP"), K("void"), K("string"), OP("OI"), OV("BP"), OP("API"), OC("AP"), OR("O"), OV("AP"), K("f64"), OP("O")>>
SCL == <<"AP", "BP", "API", "O", "OI">>
SclsFor(fk, x) == IF fk = "free" THEN "-" ELSE SCL[(x % 5) + 1]
Scope1 == WF({Mk(1000 + 30 * x[1] + x[2], FK4[((x[1] + x[2]) % 4) + 1], SclsFor(FK4[((x[1] + x[2]) % 4) + 1], x[1] + 2 * x[2]), 0,
                 SRK[x[1]], <<SPK[x[2]]>>, x[1] + x[2])
                : x \in {y \in (1..22) \X (1..22) : (y[1] + 3 * y[2]) % Stride = 0}})
\* two scope parameters (a class of one namespace and an enumeration / class of another), and `this` candidates
Scope2 == WF({Mk(3000 + 30 * x[1] + x[2], FK4[((x[2] + x[1]) % 4) + 1], SclsFor(FK4[((x[2] + x[1]) % 4) + 1], x[1] + x[2]), 0,
                 SRK[((x[1] * 7 + x[2] * 3) % 22) + 1], <<SPK[x[1]], SPK[x[2]]>>, x[1] + x[2])
                : x \in {y \in (1..22) \X (1..22) : (y[1] + 5 * y[2]) % (4 * Stride) = 0}})
\* methods returning their own class / nested class (this is the candidate)
Scope0 == WF({Mk(5000 + 30 * r + c, FK4[((r + c) % 2) + 1], SCL[c], 0, SRK[r], <<>>, 0) : r \in 1..22, c \in 1..5})

\* (2) ARITY: 4..6 parameters; the first from the lead kinds (also kinds that take no default), the others defaultable
LeadK == <<OR("AP"), K("i32"), OV("BP"), OC("OI"), K("string"), OP("API"), OR("D"), K("f32"), OC("R"), K("u64")>>
DefK == <<K("i32"), K("string"), K("f64"), SE("eA"), K("u8"), K("bool"), K("i64"), K("cstr"), K("enum"), OP("AP"), K("u16"), K("f32"),
          SE("eO"), K("i8"), K("u32"), OP("R"), K("u64"), K("i16"), SE("eL"), K("long"), K("ulong"), SE("eB"), OP("OI"), K("i32")>>
ARet == <<K("i32"), K("string"), K("u64"), K("f64"), K("void"), SE("eB"), OV("O"), K("i8"), K("cstr"), K("bool")>>
APs(n, x) == [j \in 1..n |-> IF j = 1 THEN LeadK[(x % 10) + 1] ELSE DefK[((x * 5 + j * 7 + n) % 24) + 1]]
ArityN == IF Stride > 1 THEN 12 ELSE 48
Arity == WF({[id |-> 10000 + 100 * n + x, fk |-> FK5[((x + n) % 5) + 1], cls |-> ClsFor(FK5[((x + n) % 5) + 1], x + 2 * n), name |-> 0,
              ret |-> IF FK5[((x + n) % 5) + 1] = "ctor" THEN K("void") ELSE ARet[((x + n) % 10) + 1],
              ps |-> APs(n, x), nd |-> x % 4] : n \in 4..6, x \in 1..ArityN})

\* (3) CASTS
CPK == <<OP("R"), OR("R"), OC("R"), OP("L"), OR("L"), OP("D"), OR("D"), OC("V"), OP("V"), K("i32"), OC("D"), OR("V")>>
CRK == <<K("i32"), OP("R"), OP("L"), OR("R"), OC("L"), OP("D"), K("void"), OC("R"), OR("L")>>
CCL == <<"L", "R", "D", "V">>
CclsFor(fk, x) == IF fk = "free" THEN "-" ELSE CCL[(x % 4) + 1]
Cast1 == WF({Mk(20000 + 200 * x[1] + 10 * x[2] + x[3], FK4[((x[1] + x[2] + x[3]) % 4) + 1],
                CclsFor(FK4[((x[1] + x[2] + x[3]) % 4) + 1], x[3]), 0, CRK[x[1]], <<CPK[x[2]]>>, x[1] + x[2])
               : x \in {y \in (1..9) \X (1..12) \X (1..4) : (y[1] + y[2] + y[3]) % Stride = 0}})
Cast0 == WF({Mk(24000 + 10 * r + c, FK4[((r + c) % 2) + 1], CCL[c], 0, CRK[r], <<>>, 0) : r \in 1..9, c \in 1..4})

SingleChoices(l) == Scope0 \cup Scope1 \cup Scope2 \cup Arity \cup Cast0 \cup Cast1

\* TWINS: the same simple name, the same parameter list up to the namespace (na -> nb), declared in na::P and nb::P
\* (members) or both at global scope (an overload pair told apart by the namespace of a class / enumeration only)
TwinCls(c) == IF c = "AP" THEN "BP" ELSE c
TwinKind(kd) == IF kd.k = "senum" /\ kd.c = "eA" THEN SE("eB") ELSE IF IsObj(kd) THEN [kd EXCEPT !.c = TwinCls(@)] ELSE kd
TwinOf(a) == [a EXCEPT !.id = @ + 500000, !.cls = TwinCls(@), !.ret = TwinKind(@), !.ps = [i \in 1..Len(a.ps) |-> TwinKind(a.ps[i])]]
TPK == <<OR("AP"), OP("AP"), OC("AP"), OV("AP"), SE("eA")>>
TRK == <<K("i32"), OP("AP"), SE("eA"), OV("AP"), K("string"), OR("AP")>>
TwinA == WF({Mk(30000 + 100 * x[1] + 10 * x[2] + x[3], FK4[x[1]], IF FK4[x[1]] = "free" THEN "-" ELSE "AP", 1 + ((x[2] + x[3]) % 3),
                TRK[x[2]], <<TPK[x[3]], K("i32")>>, x[2] + x[3])
               : x \in {y \in (1..4) \X (1..6) \X (1..5) : (y[1] + y[2] + y[3]) % Stride = 0}}
            \cup {Mk(34000 + 10 * f + r, FK4[f], "AP", 1 + (r % 3), TRK[r], <<K("u16")>>, r) : f \in 1..3, r \in 1..6})
TwinChoices(l) == IF l = {} THEN TwinA ELSE {TwinOf(a) : a \in l}

DumpFile == IF "VERIF_DUMP" \in DOMAIN IOEnv THEN IOEnv.VERIF_DUMP ELSE ""
DumpConstraint ==
  IF phase = "done" /\ DumpFile # ""
    THEN CSVWrite("%1$s", <<ToJson([lib |-> SetToSortSeq(lib, LAMBDA a, b : a.id < b.id), req |-> SRequired, script |-> script])>>, DumpFile)
    ELSE TRUE
=============================================================================
