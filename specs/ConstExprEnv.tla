---------------------------- MODULE ConstExprEnv ----------------------------
(***************************************************************************)
(* Declarations that carry a constant (C07): the translation unit is the   *)
(* behaviour.  Every step appends one declaration                          *)
(*     enum {            (open)        const int D = e;        (const)     *)
(*       D = e,          (enumE)       constexpr int D = e;    (constexpr) *)
(*       D,              (enumI)       #define D (e)           (macroP)    *)
(*     };                (close)       #define D e             (macroB)    *)
(*                                     extern char D[e];       (array)     *)
(*     const T D = init;  (tconst)  T a narrow type, init possibly outside *)
(*                                  T's range or a floating literal        *)
(* whose initialiser is written over literals and REFERENCES to earlier    *)
(* declarations; the state carries, for every declaration, the value a C++ *)
(* compiler gives it.  An enumerator without initialiser is 0 when first   *)
(* and the previous enumerator + 1 otherwise.  A reference to an           *)
(* enumerator, const or constexpr variable or a parenthesised macro is a   *)
(* primary expression with that declaration's value.  A macro with a bare  *)
(* body `x op y` is replaced TEXTUALLY, so its operands re-associate with  *)
(* the operators around the reference (Splice, by the precedence table of  *)
(* ConstExpr).  Only well-formed units are generated: every initialiser is *)
(* Defined, array bounds are positive, enumerators fit the underlying type.*)
(* A constant of a narrow type HAS THE VALUE OF ITS INITIALISER CONVERTED   *)
(* TO ITS TYPE (const unsigned short US = -1 is 65535, const bool B = 5 is *)
(* 1, const int I = 3.5 is 3); that value is what every reference sees.    *)
(* Enums are plain, scoped (`enum class`), with a fixed underlying type    *)
(* (`: unsigned char`) or both (`enum class : short`); a reference to an   *)
(* enumerator from outside its enum is spelled qualified / converted by    *)
(* the renderer, its value is the enumerator's.  An initialiser `(char)v`  *)
(* (form "cc") has the value v but MAY be reported as unevaluated by a     *)
(* tool that does not know that cast, and so may every declaration whose   *)
(* value depends on it (flag mu); all the others must be present and right *)
(* — in particular the enumerators that FOLLOW an unevaluated one.         *)
(***************************************************************************)
EXTENDS ConstExpr

CONSTANTS Lits,        \* literal operands
          Ops,         \* binary operators used in initialisers
          Forms,       \* subset of {"lit", "ref", "neg", "rl", "lr", "rr", "cc"}: initialiser shapes
          OpenKinds,   \* subset of {"open", "openC", "openU", "openCS"}: enum / enum class / : unsigned char / class : short
          Kinds,       \* subset of {"enumE","enumI","const","constexpr","macroP","macroB","array"}
          TTypes,      \* subset of AllTTypes: declared types of "tconst" constants
          TInits,      \* initialisers of "tconst" constants: <<v, frac>> = the literal v (frac FALSE) or v.5
          MaxT,        \* bound on the number of "tconst" declarations
          MaxDecls,    \* bound on the number of value-carrying declarations
          MaxEnums     \* bound on the number of enums

VARIABLES decls,       \* sequence of [k, e, v, bb, mu]
          inEnum,      \* an enum body is open
          nEnum
vars == <<decls, inEnum, nEnum>>

ValueKinds == {"enumE", "enumI", "const", "constexpr", "macroP", "macroB", "tconst"}
AllTTypes == {"bool", "char", "schar", "uchar", "short", "ushort", "int"}
NT == Cardinality({i \in 1..Len(decls) : decls[i].k = "tconst"})

\* conversion of an integer to a narrow type: modulo 2^N (C++20; what two's complement compilers do)
WrapS(v, m) == ((v + m \div 2) % m) - m \div 2
Conv(ty, v) ==
  CASE ty = "bool"  -> B2I(v # 0)
    [] ty \in {"char", "schar"} -> WrapS(v, 256)
    [] ty = "uchar"  -> v % 256
    [] ty = "short"  -> WrapS(v, 65536)
    [] ty = "ushort" -> v % 65536
    [] ty = "int"    -> v
\* a floating initialiser v.5 (v >= 0 small) is truncated toward zero, and is true for bool
ConvInit(ty, i) == IF i[2] /\ ty = "bool" THEN 1 ELSE Conv(ty, i[1])
NVal == Cardinality({i \in 1..Len(decls) : decls[i].k \in ValueKinds \cup {"array"}})
Refable == {i \in 1..Len(decls) : decls[i].k \in ValueKinds}
\* a macro whose body is a bare binary expression: references to it are textual
BareBin(i) == decls[i].k = "macroB" /\ decls[i].bb # <<>>

(* Initialiser expressions:
   <<"lit", v>>  <<"ref", i>>  <<"neg", i>>  <<"rl", op, i, v>> (ref op lit)  <<"lr", op, v, i>> (lit op ref)
   <<"rr", op, i, j>> (ref op ref)  <<"cc", v>> ((char)lit) *)
AllExprs ==
  {<<"lit", v>> : v \in Lits} \cup {<<"ref", i>> : i \in Refable} \cup {<<"neg", i>> : i \in Refable}
  \cup {<<"rl", op, i, v>> : op \in Ops, i \in Refable, v \in Lits}
  \cup {<<"lr", op, v, i>> : op \in Ops, v \in Lits, i \in Refable}
  \cup {<<"rr", op, i, j>> : op \in Ops, i \in Refable, j \in Refable}
  \cup {<<"cc", v>> : v \in Lits}
Exprs == {e \in AllExprs : e[1] \in Forms}

Lit(v) == <<"lit", v>>
V(i) == Lit(decls[i].v)
BinT(op, l, r) == <<"bin", op, l, r>>

\* The tree a conforming compiler sees after macro replacement
Tree(e) ==
  CASE e[1] = "lit" -> Lit(e[2])
    [] e[1] = "cc"  -> <<"cast", "char", Lit(e[2])>>
    [] e[1] = "ref" -> IF BareBin(e[2]) THEN BinT(decls[e[2]].bb[1], Lit(decls[e[2]].bb[2]), Lit(decls[e[2]].bb[3]))
                       ELSE V(e[2])
    [] e[1] = "neg" -> IF BareBin(e[2])
                         \* - x op y  =  (-x) op y
                         THEN BinT(decls[e[2]].bb[1], <<"un", "-", Lit(decls[e[2]].bb[2])>>, Lit(decls[e[2]].bb[3]))
                         ELSE <<"un", "-", V(e[2])>>
    [] e[1] = "rl" ->  LET b == decls[e[3]].bb IN
                       IF BareBin(e[3])
                         THEN IF Prec(e[2]) > Prec(b[1])
                                \* x op1 y op2 z  =  x op1 (y op2 z)
                                THEN BinT(b[1], Lit(b[2]), BinT(e[2], Lit(b[3]), Lit(e[4])))
                                ELSE BinT(e[2], BinT(b[1], Lit(b[2]), Lit(b[3])), Lit(e[4]))
                         ELSE BinT(e[2], V(e[3]), Lit(e[4]))
    [] e[1] = "lr" ->  LET b == decls[e[4]].bb IN
                       IF BareBin(e[4])
                         THEN IF Prec(e[2]) >= Prec(b[1])
                                \* z op2 x op1 y  =  (z op2 x) op1 y
                                THEN BinT(b[1], BinT(e[2], Lit(e[3]), Lit(b[2])), Lit(b[3]))
                                ELSE BinT(e[2], Lit(e[3]), BinT(b[1], Lit(b[2]), Lit(b[3])))
                         ELSE BinT(e[2], Lit(e[3]), V(e[4]))
    [] e[1] = "rr" ->  BinT(e[2], V(e[3]), V(e[4]))

\* well-formed use: two textual macros in one expression are not generated (three operators would
\* re-associate), a bare body does not mention another textual macro
WF(k, e) ==
  /\ (e[1] = "rr" => ~BareBin(e[3]) /\ ~BareBin(e[4]))
  /\ (k = "macroB" => \A i \in Refable : BareBin(i) =>
        ~(e[1] \in {"ref", "neg"} /\ e[2] = i) /\ ~(e[1] = "rl" /\ e[3] = i) /\ ~(e[1] = "lr" /\ e[4] = i))

\* operands of a bare binary macro body, resolved to values
BB(k, e) ==
  IF k # "macroB" THEN <<>>
  ELSE CASE e[1] = "rl" -> <<e[2], decls[e[3]].v, e[4]>>
         [] e[1] = "lr" -> <<e[2], e[3], decls[e[4]].v>>
         [] e[1] = "rr" -> <<e[2], decls[e[3]].v, decls[e[4]].v>>
         [] OTHER -> <<>>

Init == decls = <<>> /\ inEnum = FALSE /\ nEnum = 0

AllOpenKinds == {"open", "openC", "openU", "openCS"}
IsOpen(d) == d.k \in AllOpenKinds
\* the declaration that opened the enum body we are in
CurOpen == decls[CHOOSE i \in 1..Len(decls) : IsOpen(decls[i]) /\ \A j \in i + 1..Len(decls) : ~IsOpen(decls[j])]
\* values an enumerator of the current enum can take
FitsEnum(v) == CASE CurOpen.k = "openU"  -> v >= 0 /\ v <= 255
                 [] CurOpen.k = "openCS" -> v >= -32768 /\ v <= 32767
                 [] OTHER -> TRUE

\* the declarations an initialiser mentions
RefsOf(e) == CASE e[1] \in {"ref", "neg"} -> {e[2]}
               [] e[1] = "rl" -> {e[3]}
               [] e[1] = "lr" -> {e[4]}
               [] e[1] = "rr" -> {e[3], e[4]}
               [] OTHER -> {}
MayBeUnevaluated(e) == e[1] = "cc" \/ \E i \in RefsOf(e) : decls[i].mu

Open(k) == /\ ~inEnum /\ nEnum < MaxEnums /\ NVal < MaxDecls
           /\ decls' = Append(decls, [k |-> k, e |-> <<>>, v |-> 0, bb |-> <<>>, mu |-> FALSE])
           /\ inEnum' = TRUE /\ nEnum' = nEnum + 1
Close == /\ inEnum /\ ~IsOpen(decls[Len(decls)])
         /\ decls' = Append(decls, [k |-> "close", e |-> <<>>, v |-> 0, bb |-> <<>>, mu |-> FALSE])
         /\ inEnum' = FALSE /\ UNCHANGED nEnum

Value(k, e) ==
  /\ k \in Kinds /\ NVal < MaxDecls
  /\ (k = "enumE") = inEnum
  /\ WF(k, e)
  /\ LET r == Ev(Tree(e)) IN
     /\ r.d = "ok"
     /\ (k = "array" => r.v > 0 /\ r.v <= 65536)
     /\ (k = "enumE" => FitsEnum(r.v))
     /\ decls' = Append(decls, [k |-> k, e |-> e, v |-> r.v, bb |-> BB(k, e), mu |-> MayBeUnevaluated(e)])
  /\ UNCHANGED <<inEnum, nEnum>>

TConst(ty, i) ==
  /\ ~inEnum /\ NVal < MaxDecls /\ NT < MaxT
  /\ (i[2] => i[1] >= 0 /\ i[1] <= 100)
  /\ decls' = Append(decls, [k |-> "tconst", e |-> <<"tinit", ty, i[1], i[2]>>, v |-> ConvInit(ty, i),
                             bb |-> <<>>, mu |-> FALSE])
  /\ UNCHANGED <<inEnum, nEnum>>

\* implicit enumerator: 0 when first, previous + 1 otherwise
Implicit ==
  /\ "enumI" \in Kinds /\ inEnum /\ NVal < MaxDecls
  /\ LET p == decls[Len(decls)]
         r == IF IsOpen(p) THEN Ok(0) ELSE Add(p.v, 1) IN
     /\ r.d = "ok" /\ FitsEnum(r.v)
     \* the value is derived from the previous enumerator: it is as (un)evaluable as that one
     /\ decls' = Append(decls, [k |-> "enumI", e |-> <<>>, v |-> r.v, bb |-> <<>>, mu |-> p.mu])
  /\ UNCHANGED <<inEnum, nEnum>>

Next == (\E k \in OpenKinds : Open(k)) \/ Close \/ Implicit \/ (\E ty \in TTypes : \E i \in TInits : TConst(ty, i)) \/ \E k \in Kinds \ {"enumI"} : \E e \in Exprs : Value(k, e)
Spec == Init /\ [][Next]_vars

---------------------------------------------------------------------------
(* Properties of the model *)
\* a complete unit: no open enum, and the last declaration is one the database records
\* (an enum, a macro, an array), so that every declaration is observed directly or through a reference
Complete == ~inEnum /\ NVal >= 1 /\ decls[Len(decls)].k \in {"close", "macroP", "macroB", "array"}

\* enumerators of one enum body: an implicit one is exactly one more than its predecessor
ImplicitOK ==
  \A i \in 1..Len(decls) : decls[i].k = "enumI" =>
     IF IsOpen(decls[i - 1]) THEN decls[i].v = 0 ELSE decls[i].v = decls[i - 1].v + 1

\* references are primary expressions unless textual: for a parenthesised macro, an enumerator or a
\* variable, ref op lit is the operator applied to the two values
PrimaryOK ==
  \A i \in 1..Len(decls) :
     LET e == decls[i].e IN
     (decls[i].k \in ValueKinds \cup {"array"} /\ e # <<>> /\ e[1] = "rl" /\ decls[e[3]].bb = <<>>)
        => Bin(e[2], decls[e[3]].v, e[4]) = Ok(decls[i].v)

\* textual replacement is value-preserving when the body binds at least as tightly as its context
SpliceOK ==
  \A i \in 1..Len(decls) :
     LET e == decls[i].e IN
     (e # <<>> /\ e[1] = "rl" /\ decls[e[3]].bb # <<>> /\ Prec(e[2]) <= Prec(decls[e[3]].bb[1]))
        => Bin(e[2], decls[e[3]].v, e[4]) = Ok(decls[i].v)

NestingOK == (inEnum => \E i \in 1..Len(decls) : IsOpen(decls[i])) /\ nEnum <= MaxEnums

\* "may be unevaluated" is exactly: the value depends on a (char) cast, directly or through references /
\* implicit increments; a literal initialiser never is
RECURSIVE Depends(_)
Depends(i) ==
  LET d == decls[i] IN
  IF d.k = "enumI" THEN (~IsOpen(decls[i - 1]) /\ Depends(i - 1))
  ELSE IF d.e = <<>> THEN FALSE
  ELSE d.e[1] = "cc" \/ \E j \in RefsOf(d.e) : Depends(j)
MuOK == \A i \in 1..Len(decls) : decls[i].mu = Depends(i)

\* a narrow constant holds a value of its type, and converting again changes nothing
TConstOK ==
  \A i \in 1..Len(decls) : decls[i].k = "tconst" =>
     LET ty == decls[i].e[2]  v == decls[i].v IN
     /\ Conv(ty, v) = v
     /\ (ty = "bool" => v \in {0, 1}) /\ (ty = "uchar" => v \in 0..255) /\ (ty \in {"char", "schar"} => v \in -128..127)
     /\ (ty = "ushort" => v \in 0..65535) /\ (ty = "short" => v \in -32768..32767)

\* enumerators fit their enum's underlying type
RangeOK == \A i \in 1..Len(decls) :
  decls[i].k \in {"enumE", "enumI"} =>
     LET o == CHOOSE j \in 1..i : IsOpen(decls[j]) /\ \A m \in j + 1..i : ~IsOpen(decls[m]) IN
     /\ (decls[o].k = "openU" => decls[i].v \in 0..255)
     /\ (decls[o].k = "openCS" => decls[i].v \in -32768..32767)
=============================================================================
