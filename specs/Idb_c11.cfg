SPECIFICATION SpecMC
CONSTANTS
  Libs = {"A", "B"}
  NT = 2
  Statuses = {"absent", "fwd", "fwdg", "def", "defg"}
  Statuses2 = {"absent", "fwd", "def", "defg"}
  Modes = {"db", "mod"}
  LookupKinds = {"tn", "ttn", "esn"}
  FileBase = 7
  RecordHist = FALSE
  Faults = {"ok"}
  DumpKinds = {}
INVARIANT TypeOK
INVARIANT FilesWellFormed
INVARIANT Closed
INVARIANT TempClosed
INVARIANT WrappersFirst
INVARIANT LinksConsistent
INVARIANT UniqueNames
INVARIANT RemapIso
INVARIANT RangesDisjoint
INVARIANT ModulesSorted
INVARIANT UnionOK
INVARIANT ErrIffFault
INVARIANT FailedNotLoaded
CONSTRAINT DumpConstraint
CHECK_DEADLOCK FALSE
