SPECIFICATION Spec
CONSTANTS
  EmptyAnglePathIsCwd = FALSE
  ExplicitByCanonical = TRUE
  KeyByCanonical = TRUE
  LookupCanonical = TRUE
  PromoteSystemHits = TRUE
  IncluderDirResolved = TRUE
  OptDirsPhysical = TRUE
  MaxIncludes = 4
INVARIANT Refines
INVARIANT RefSane
INVARIANT OnceOnly
INVARIANT OwnRefines
INVARIANT ChainRefines
INVARIANT ChainSane
CONSTRAINT DumpConstraint
CHECK_DEADLOCK FALSE
