SPECIFICATION Spec
CONSTANTS
  EmptyAnglePathIsCwd = FALSE
  ExplicitByCanonical = TRUE
  KeyByCanonical = TRUE
  LookupCanonical = TRUE
  MaxIncludes = 4
INVARIANT Refines
INVARIANT RefSane
INVARIANT OnceOnly
INVARIANT OwnRefines
CONSTRAINT DumpConstraint
CHECK_DEADLOCK FALSE
