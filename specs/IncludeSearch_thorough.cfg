SPECIFICATION Spec
CONSTANTS
  EmptyAnglePathIsCwd = FALSE
  ExplicitByCanonical = TRUE
  KeyByCanonical = TRUE
  MaxIncludes = 4
INVARIANT Refines
INVARIANT RefSane
INVARIANT OnceOnly
CONSTRAINT DumpConstraint
CHECK_DEADLOCK FALSE
