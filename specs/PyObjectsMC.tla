---------------------------- MODULE PyObjectsMC ----------------------------
(* Bounded wrapper of PyObjects.  The history variable is excluded from the fingerprint (VIEW), so
   BFS visits every reachable (instances, wrappers) configuration once, by a shortest history; every
   visited configuration with all wrappers dropped (a complete history) is dumped. *)
EXTENDS PyObjects, Json, CSV, IOUtils

DumpFile == IF "VERIF_DUMP" \in DOMAIN IOEnv THEN IOEnv.VERIF_DUMP ELSE ""
View == <<inst, wr, marks>>
\* what a complete history is worth replaying: it used at least one returned wrapper
Interesting == Len(hist) >= 3

\* configurations with wrappers without object: only histories that have one, or re-run __init__
EmptyDumpConstraint ==
  IF DumpFile # "" /\ AllDropped /\ Len(hist) >= 3 /\ \E n \in 1..Len(hist) : hist[n].op \in {"NewEmpty", "ReInit"}
    THEN CSVWrite("%1$s", <<ToJson([steps |-> hist])>>, DumpFile)
    ELSE TRUE

DumpConstraint ==
  IF DumpFile # "" /\ AllDropped /\ Interesting
    THEN CSVWrite("%1$s", <<ToJson([steps |-> hist])>>, DumpFile)
    ELSE TRUE
\* simulation mode (-simulate): TLC evaluates the constraint on every candidate successor, so the
\* dump is tied to a marker step that is the only step possible at the end of a history
EndMark == /\ Len(hist) = MaxDepth - 1
           /\ hist' = Append(hist, Snap("End", 0, 0, "", wr, inst))
           /\ UNCHANGED <<inst, wr, marks>>
SimNext == IF Len(hist) = MaxDepth - 1 THEN EndMark ELSE Next
SimSpec == Init /\ [][SimNext]_vars
SimConstraint ==
  IF DumpFile # "" /\ Len(hist) = MaxDepth
    THEN CSVWrite("%1$s", <<ToJson([steps |-> hist])>>, DumpFile)
    ELSE TRUE
=============================================================================
