---------------------------- MODULE PyObjectsMC ----------------------------
(* Bounded wrapper of PyObjects.  The history variable is excluded from the fingerprint (VIEW), so
   BFS visits every reachable (instances, wrappers) configuration once, by a shortest history; every
   visited configuration with all wrappers dropped (a complete history) is dumped. *)
EXTENDS PyObjects, Json, CSV, IOUtils

DumpFile == IF "VERIF_DUMP" \in DOMAIN IOEnv THEN IOEnv.VERIF_DUMP ELSE ""
View == <<inst, wr>>
\* what a complete history is worth replaying: it used at least one returned wrapper
Interesting == Len(hist) >= 3

DumpConstraint ==
  IF DumpFile # "" /\ AllDropped /\ Interesting
    THEN CSVWrite("%1$s", <<ToJson([steps |-> hist])>>, DumpFile)
    ELSE TRUE
\* simulation mode: dump every maximal prefix (the simulator stops at MaxDepth)
SimConstraint ==
  IF DumpFile # "" /\ Len(hist) = MaxDepth
    THEN CSVWrite("%1$s", <<ToJson([steps |-> hist])>>, DumpFile)
    ELSE TRUE
=============================================================================
