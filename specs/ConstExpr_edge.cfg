SPECIFICATION Spec
CONSTANTS
  Leaves <- LvAll
  ULeaves = {}
  Bigs = {}
  UnOps = {"+", "-", "~", "!"}
  Casts = {"int", "bool", "char", "short"}
  BinOps = {"*", "/", "%", "+", "-", "<<", ">>", "<", ">", "<=", ">=", "==", "!=", "&", "^", "|", "&&", "||"}
  UseCond = TRUE
  MaxTok = 3
  MaxDepth = 2
INVARIANT EvalTotal
INVARIANT DivModLaw
INVARIANT ShiftLaw
INVARIANT BitLaw
INVARIANT BoolLaw
INVARIANT AddLaw
INVARIANT TypeLaw
INVARIANT RenderLaw
CONSTRAINT DumpConstraint
CHECK_DEADLOCK FALSE
