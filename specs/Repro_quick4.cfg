SPECIFICATION Spec
CONSTANTS
  Cats1 = {1, 2, 3, 5, 8, 12, 13, 15, 18}
  MaxOver1 = 4
  Cats2 = {12, 13}
  MaxOver2 = 4
  Time = {1, 2}
  Locales = {"C", "xx_XX"}
  EnvSizes = {0, 1}
  PwdValues = {"unset", "real", "link", "dotdot", "garbage"}
  CwdVia = {"real", "link"}
  OcNames = {"rel", "abs"}
  CwdSource = "getcwd"
  EpochEnvs = {"unset", "empty", "0", "1", "normal", "huge", "junk"}
  ZeroMeansUnset = FALSE
  PrevFiles = {"none", "same", "longer", "shorter", "symlink"}
  Truncates = TRUE
  InputVariants = {"plain"}
  TZs = {"UTC0"}
  AslrBases = {1}
  DateMacros = "undefined"
  PrintsPointer = FALSE
  TieBreak = "signature"
INVARIANT OutputPure
INVARIANT EpochWins
INVARIANT NothingStale
INVARIANT NoAddressNoDate
INVARIANT EmbedsArgumentsOnly
INVARIANT IffTotal
INVARIANT TotalWithTieBreak
INVARIANT EmittedRespectsKeys
CONSTRAINT DumpConstraint
CHECK_DEADLOCK FALSE
