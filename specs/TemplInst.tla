----------------------------- MODULE TemplInst ------------------------------
(***************************************************************************)
(* C06, third part: the type a name denotes after class-template           *)
(* instantiation ("same template arguments and typedef targets").          *)
(*                                                                         *)
(* Three class templates, stratified so that instantiation terminates:     *)
(*     template<class A, class B [= dflt]> struct P { m1; m2; };           *)
(*     template<class X>                   struct Q { m1; m2; };           *)
(*     template<class Y>                   struct R { m1; m2; };           *)
(*     template<class Z> using V = alias;          (an alias template)     *)
(* Each member slot is a typedef whose target is a type term over the      *)
(* template's own parameters.  The program is built step by step (the      *)
(* behaviour is the input): SetDefault, AddMember ..., and finally one Ask *)
(* of a closed query term such as  Q<char>::m1::m2.                        *)
(*                                                                         *)
(* Terms (tag first, so that TLC can compare any two of them):             *)
(*   <<"b", name>>          a non-template type (int, char, ...)           *)
(*   <<"p", i>>             i-th parameter of the enclosing template       *)
(*   <<"ptr", t>> <<"ref", t>> <<"c", t>>     t *   t &   t const        *)
(*   <<"t", T, args>>       template-id  T< args >  (P may get one arg)    *)
(*   <<"m", t, slot>>       typename t::slot                               *)
(*   <<"own", slot>>        unqualified use of an earlier member typedef   *)
(*   <<"self">>             the injected class name (P inside P<A,B>)      *)
(* Base names include two classes K1, K2 (rendered ns1::K and ns2::K: the  *)
(* same simple name) that have a member typedef t, and aliases of them     *)
(* (KA = K1, KB = KA, CK = const K2); <<"m", x, "t">> with x a parameter   *)
(* is the traits idiom  typename A::t.                                     *)
(*                                                                         *)
(* Norm is the reference rule: C++ instantiation semantics restricted to   *)
(* this fragment ([temp.arg], [temp.param] default arguments evaluated in  *)
(* the scope of the earlier parameters, [temp.res] dependent names,        *)
(* [dcl.ref] reference collapsing, cv on a reference ignored, no pointer   *)
(* to reference; a member can be projected only out of an instantiation    *)
(* whose every member declaration is well formed [temp.inst]).             *)
(* NormE is the implementation-shaped rule: arguments are normalised first *)
(* and the whole member table of an instantiation is substituted eagerly   *)
(* (what CPPScope::instantiate + substitute_decl do).  Confluent says both *)
(* agree.                                                                  *)
(***************************************************************************)
EXTENDS Naturals, Sequences, FiniteSets, TLC

CONSTANTS MaxDefs,           \* bound on the number of typedef members a program defines
          MinDefs,           \* a query is asked only of programs with at least so many (steers simulation)
          BodyTerms, DfltTerms, AliasTerms, QueryTerms     \* the alphabets (see TemplInstMC)

Tmpl == {"P", "Q", "R"}
Level == [P |-> 1, Q |-> 2, R |-> 3]
Arity == [P |-> 2, Q |-> 1, R |-> 1]
Slots == {"m1", "m2"}
NONE == <<"none">>
BAD == <<"bad">>
\* non-template classes and what their member typedef t denotes; aliases of class names
ClassMember == [K1 |-> <<"b", "int">>, K2 |-> <<"b", "char">>]
NameAlias == [KA |-> <<"b", "K1">>, KB |-> <<"b", "KA">>, CK |-> <<"c", <<"b", "K2">>>>]
\* a (possibly const) class type, without the qualifier
Unqual(n) == IF n[1] = "c" THEN n[2] ELSE n

VARIABLES dflt,       \* NONE or the default argument of P's second parameter (a term over <<"p",1>>)
          defs,       \* defs[T][slot] : NONE or the member typedef's target
          alias,      \* NONE or the target of the alias template V (a term over <<"p",1>>)
          query       \* NONE or the closed term that is asked about
vars == <<dflt, defs, alias, query>>

---------------------------------------------------------------------------
RECURSIVE Subst(_, _, _)
\* replace the parameters of template T in t by args; an unqualified own member denotes that member
\* of the instantiation being made
Subst(t, T, args) ==
  CASE t[1] = "b" -> t
    [] t[1] = "p" -> args[t[2]]
    [] t[1] \in {"ptr", "ref", "c"} -> <<t[1], Subst(t[2], T, args)>>
    [] t[1] = "t" -> <<"t", t[2], [i \in 1..Len(t[3]) |-> Subst(t[3][i], T, args)]>>
    [] t[1] = "m" -> <<"m", Subst(t[2], T, args), t[3]>>
    [] t[1] = "own" -> Subst(defs[T][t[2]], T, args)      \* (only m2 may use m1, so this ends)
    [] t[1] = "self" -> <<"t", T, args>>

RECURSIVE Norm(_), Complete(_, _), NormArgs(_, _)
\* the template-id's full argument list (default filled in), each argument normalised
NormArgs(T, args) ==           \* <<>> stands for "impossible"
  LET n == [i \in 1..Len(args) |-> Norm(args[i])]
  IN IF \E i \in 1..Len(n) : n[i] = BAD THEN <<>>
     ELSE IF Len(n) = Arity[T] THEN n
     ELSE IF T = "P" /\ Len(n) = 1 /\ dflt # NONE
       THEN LET d == Norm(Subst(dflt, "P", <<n[1]>>)) IN IF d = BAD THEN <<>> ELSE <<n[1], d>>
     ELSE <<>>

\* every member declaration of T<args> is well formed (args already normal)
Complete(T, args) == \A s \in Slots : defs[T][s] # NONE => Norm(Subst(defs[T][s], T, args)) # BAD

Norm(t) ==
  CASE t[1] = "b" -> IF t[2] \in DOMAIN NameAlias THEN Norm(NameAlias[t[2]]) ELSE t
    [] t[1] = "ptr" -> LET n == Norm(t[2]) IN IF n = BAD \/ n[1] = "ref" THEN BAD ELSE <<"ptr", n>>
    [] t[1] = "ref" -> LET n == Norm(t[2]) IN IF n = BAD THEN BAD ELSE IF n[1] = "ref" THEN n ELSE <<"ref", n>>
    [] t[1] = "c" -> LET n == Norm(t[2]) IN IF n = BAD THEN BAD ELSE IF n[1] \in {"ref", "c"} THEN n ELSE <<"c", n>>
    [] t[1] = "t" /\ t[2] = "V" ->        \* an alias template-id is its target, nothing else [temp.alias]
         LET a == Norm(t[3][1]) IN IF a = BAD \/ alias = NONE THEN BAD ELSE Norm(Subst(alias, "V", <<a>>))
    [] t[1] = "t" -> LET a == NormArgs(t[2], t[3]) IN IF Len(a) = 0 THEN BAD ELSE <<"t", t[2], a>>
    [] t[1] = "m" -> LET nq == Norm(t[2])
                         n == IF nq = BAD THEN BAD ELSE Unqual(nq)
                     IN IF n = BAD THEN BAD
                        ELSE IF n[1] = "b" THEN (IF t[3] = "t" /\ n[2] \in DOMAIN ClassMember THEN ClassMember[n[2]] ELSE BAD)
                        ELSE IF n[1] # "t" \/ t[3] \notin Slots THEN BAD
                        ELSE IF defs[n[2]][t[3]] = NONE \/ ~Complete(n[2], n[3]) THEN BAD
                        ELSE Norm(Subst(defs[n[2]][t[3]], n[2], n[3]))
    [] OTHER -> BAD

---------------------------------------------------------------------------
(* The implementation-shaped rule: an instantiation is a table made once, from normal arguments. *)
RECURSIVE NormE(_), Table(_, _)
Table(T, args) == [s \in Slots |-> IF defs[T][s] = NONE THEN NONE ELSE NormE(Subst(defs[T][s], T, args))]
NormE(t) ==
  CASE t[1] = "b" -> IF t[2] \in DOMAIN NameAlias THEN NormE(NameAlias[t[2]]) ELSE t
    [] t[1] = "ptr" -> LET n == NormE(t[2]) IN IF n = BAD \/ n[1] = "ref" THEN BAD ELSE <<"ptr", n>>
    [] t[1] = "ref" -> LET n == NormE(t[2]) IN IF n = BAD THEN BAD ELSE IF n[1] = "ref" THEN n ELSE <<"ref", n>>
    [] t[1] = "c" -> LET n == NormE(t[2]) IN IF n = BAD THEN BAD ELSE IF n[1] \in {"ref", "c"} THEN n ELSE <<"c", n>>
    [] t[1] = "t" /\ t[2] = "V" ->
         LET a == NormE(t[3][1]) IN IF a = BAD \/ alias = NONE THEN BAD ELSE NormE(Subst(alias, "V", <<a>>))
    [] t[1] = "t" ->
         LET n == [i \in 1..Len(t[3]) |-> NormE(t[3][i])]
         IN IF \E i \in 1..Len(n) : n[i] = BAD THEN BAD
            ELSE IF Len(n) = Arity[t[2]] THEN <<"t", t[2], n>>
            ELSE IF t[2] = "P" /\ Len(n) = 1 /\ dflt # NONE
              THEN LET d == NormE(Subst(dflt, "P", <<n[1]>>)) IN IF d = BAD THEN BAD ELSE <<"t", "P", <<n[1], d>>>>
            ELSE BAD
    [] t[1] = "m" -> LET nq == NormE(t[2])
                         n == IF nq = BAD THEN BAD ELSE Unqual(nq)
                     IN IF n = BAD THEN BAD
                        ELSE IF n[1] = "b" THEN (IF t[3] = "t" /\ n[2] \in DOMAIN ClassMember THEN ClassMember[n[2]] ELSE BAD)
                        ELSE IF n[1] # "t" \/ t[3] \notin Slots THEN BAD
                        ELSE LET tab == Table(n[2], n[3])
                             IN IF tab[t[3]] = NONE \/ \E s \in Slots : tab[s] = BAD THEN BAD ELSE tab[t[3]]
    [] OTHER -> BAD

---------------------------------------------------------------------------
RECURSIVE Ground(_), Params(_), Projects(_)
Ground(t) ==
  CASE t[1] = "b" -> TRUE
    [] t[1] \in {"ptr", "ref", "c"} -> Ground(t[2])
    [] t[1] = "t" -> \A i \in 1..Len(t[3]) : Ground(t[3][i])
    [] OTHER -> FALSE
\* parameter indices used
Params(t) ==
  CASE t[1] = "p" -> {t[2]}
    [] t[1] \in {"ptr", "ref", "c", "m"} -> Params(t[2])
    [] t[1] = "t" -> UNION {Params(t[3][i]) : i \in 1..Len(t[3])}
    [] OTHER -> {}
\* templates projected out of (these must be complete at instantiation time)
Projects(t) ==
  CASE t[1] \in {"ptr", "ref", "c"} -> Projects(t[2])
    [] t[1] = "t" -> UNION {Projects(t[3][i]) : i \in 1..Len(t[3])}
    [] t[1] = "m" -> (IF t[2][1] = "t" THEN {t[2][2]} ELSE {}) \cup Projects(t[2])
    [] OTHER -> {}
\* a body term never spells a pointer to a reference (a compiler rejects that at definition time)
RECURSIVE NoPtrRef(_)
NoPtrRef(t) ==
  CASE t[1] = "ptr" -> t[2][1] # "ref" /\ NoPtrRef(t[2])
    [] t[1] \in {"ref", "c", "m"} -> NoPtrRef(t[2])
    [] t[1] = "t" -> \A i \in 1..Len(t[3]) : NoPtrRef(t[3][i])
    [] OTHER -> TRUE
RECURSIVE UsesOwn(_)
UsesOwn(t) ==
  CASE t[1] = "own" -> {t[2]}
    [] t[1] \in {"ptr", "ref", "c", "m"} -> UsesOwn(t[2])
    [] t[1] = "t" -> UNION {UsesOwn(t[3][i]) : i \in 1..Len(t[3])}
    [] OTHER -> {}
\* a projection in a body is always out of a dependent template-id (so it is checked at instantiation only)
RECURSIVE ProjDependent(_)
ProjDependent(t) ==
  CASE t[1] \in {"ptr", "ref", "c"} -> ProjDependent(t[2])
    [] t[1] = "t" -> \A i \in 1..Len(t[3]) : ProjDependent(t[3][i])
    [] t[1] = "m" -> Params(t[2]) # {} /\ ProjDependent(t[2])
    [] OTHER -> TRUE

\* a template-id that relies on P's default argument (the compiler checks its arity at definition time)
RECURSIVE UsesDefault(_)
UsesDefault(t) ==
  CASE t[1] \in {"ptr", "ref", "c", "m"} -> UsesDefault(t[2])
    [] t[1] = "t" -> (t[2] = "P" /\ Len(t[3]) = 1) \/ \E i \in 1..Len(t[3]) : UsesDefault(t[3][i])
    [] OTHER -> FALSE

RECURSIVE NamesV(_)
NamesV(t) ==
  CASE t[1] \in {"ptr", "ref", "c", "m"} -> NamesV(t[2])
    [] t[1] = "t" -> t[2] = "V" \/ \E i \in 1..Len(t[3]) : NamesV(t[3][i])
    [] OTHER -> FALSE

NDefs == Cardinality({<<T, s>> \in Tmpl \X Slots : defs[T][s] # NONE}) + (IF dflt = NONE THEN 0 ELSE 1)
         + (IF alias = NONE THEN 0 ELSE 1)

\* body term b is admissible as slot s of template T
BodyOK(T, s, b) ==
  /\ Params(b) \subseteq 1..Arity[T]
  /\ \A U \in Projects(b) : Level[U] < Level[T]           \* stratification: instantiation terminates
  /\ UsesOwn(b) \subseteq (IF s = "m2" /\ defs[T]["m1"] # NONE THEN {"m1"} ELSE {})
  /\ NoPtrRef(b) /\ ProjDependent(b)
  /\ (UsesDefault(b) => dflt # NONE) /\ ~NamesV(b)

---------------------------------------------------------------------------
Init == dflt = NONE /\ defs = [T \in Tmpl |-> [s \in Slots |-> NONE]] /\ alias = NONE /\ query = NONE

SetDefault(d) ==
  /\ query = NONE /\ dflt = NONE /\ NDefs < MaxDefs
  /\ \A T \in Tmpl, s \in Slots : defs[T][s] = NONE       \* the default is on the first declaration
  /\ Params(d) \subseteq {1} /\ NoPtrRef(d) /\ Projects(d) = {} /\ UsesOwn(d) = {} /\ ~UsesDefault(d)
  /\ dflt' = d /\ UNCHANGED <<defs, alias, query>>

AddMember(T, s, b) ==
  /\ query = NONE /\ defs[T][s] = NONE /\ NDefs < MaxDefs /\ alias = NONE
  /\ (s = "m1" => defs[T]["m2"] = NONE)                   \* members are written in slot order
  /\ \A U \in Tmpl : Level[U] > Level[T] => \A s2 \in Slots : defs[U][s2] = NONE    \* templates in level order
  /\ BodyOK(T, s, b)
  /\ defs' = [defs EXCEPT ![T][s] = b] /\ UNCHANGED <<dflt, alias, query>>

\* the alias template is written after the three class templates
SetAlias(b) ==
  /\ query = NONE /\ alias = NONE /\ NDefs < MaxDefs
  /\ Params(b) \subseteq {1} /\ UsesOwn(b) = {} /\ NoPtrRef(b) /\ ProjDependent(b)
  /\ (UsesDefault(b) => dflt # NONE)
  /\ ~NamesV(b)
  /\ alias' = b /\ UNCHANGED <<dflt, defs, query>>

Ask(q) ==
  /\ query = NONE /\ NDefs >= MinDefs
  /\ Norm(q) # BAD                                        \* well-formed programs only
  /\ (NamesV(q) => alias # NONE)
  /\ query' = q /\ UNCHANGED <<dflt, defs, alias>>

Next == \/ \E d \in DfltTerms : SetDefault(d)
        \/ \E T \in Tmpl, s \in Slots, b \in BodyTerms : AddMember(T, s, b)
        \/ \E b \in AliasTerms : SetAlias(b)
        \/ \E q \in QueryTerms : Ask(q)
Spec == Init /\ [][Next]_vars

Result == IF query = NONE THEN NONE ELSE Norm(query)

---------------------------------------------------------------------------
\* the answer mentions no template parameter, member name or typedef: it is a ground type
ResultGround == query # NONE => Ground(Result)
\* normal forms are fixed points
Idempotent == query # NONE => Norm(Result) = Result
\* eager table instantiation and call-by-name substitution agree
Confluent == query # NONE => NormE(query) = Result
\* substitution lemma on the query: normalising the arguments of the outermost template-id first changes nothing
RECURSIVE ArgsFirst(_)
ArgsFirst(t) ==
  CASE t[1] = "m" -> <<"m", ArgsFirst(t[2]), t[3]>>
    [] t[1] = "t" -> LET n == [i \in 1..Len(t[3]) |-> Norm(t[3][i])] IN
                       IF \E i \in 1..Len(n) : n[i] = BAD THEN t ELSE <<"t", t[2], n>>
    [] OTHER -> t
SubstLemma == query # NONE => Norm(ArgsFirst(query)) = Result
=============================================================================
