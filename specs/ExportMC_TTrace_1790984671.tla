---- MODULE ExportMC_TTrace_1790984671 ----
EXTENDS Sequences, TLCExt, Toolbox, ExportMC, Naturals, TLC

_expression ==
    LET ExportMC_TEExpression == INSTANCE ExportMC_TEExpression
    IN ExportMC_TEExpression!expression
----

_trace ==
    LET ExportMC_TETrace == INSTANCE ExportMC_TETrace
    IN ExportMC_TETrace!trace
----

_inv ==
    ~(
        TLCGet("level") = Len(_TETrace)
        /\
        phase = ("scan")
        /\
        defd = ({[c |-> 1, i |-> 0]})
        /\
        cur = (0)
        /\
        lib = ([tops |-> <<>>, minvis |-> "published", cmd |-> [k |-> 1, c |-> "ignoremember", i |-> 2], files |-> <<[src |-> "cmd"]>>, order |-> <<[t |-> "c", id |-> 1]>>, classes |-> <<[outer |-> 0, ns |-> FALSE, file |-> 1, bases |-> <<>>, cm |-> "", region |-> FALSE, members |-> <<[k |-> "dtor", rc |-> 0, ri |-> 0, lab |-> "published", sig |-> [role |-> "meth", ret |-> [c |-> 0, m |-> "val", b |-> "void"], ps |-> <<>>], cm |-> ""], [k |-> "data", rc |-> 0, ri |-> 0, lab |-> "published", sig |-> [role |-> "meth", ret |-> [c |-> 0, m |-> "val", b |-> "void"], ps |-> <<>>], cm |-> ""]>>, key |-> "class", at |-> 0]>>])
        /\
        known = ({[c |-> 1, i |-> 0]})
        /\
        calls = ({[c |-> 1, i |-> 1, t |-> "m"], [c |-> 1, i |-> 2, t |-> "m"]})
        /\
        pos = (2)
        /\
        glob = ({[c |-> 1, i |-> 0]})
        /\
        done = (TRUE)
        /\
        req = ({})
    )
----

_init ==
    /\ req = _TETrace[1].req
    /\ calls = _TETrace[1].calls
    /\ phase = _TETrace[1].phase
    /\ glob = _TETrace[1].glob
    /\ lib = _TETrace[1].lib
    /\ done = _TETrace[1].done
    /\ defd = _TETrace[1].defd
    /\ cur = _TETrace[1].cur
    /\ known = _TETrace[1].known
    /\ pos = _TETrace[1].pos
----

_next ==
    /\ \E i,j \in DOMAIN _TETrace:
        /\ \/ /\ j = i + 1
              /\ i = TLCGet("level")
        /\ req  = _TETrace[i].req
        /\ req' = _TETrace[j].req
        /\ calls  = _TETrace[i].calls
        /\ calls' = _TETrace[j].calls
        /\ phase  = _TETrace[i].phase
        /\ phase' = _TETrace[j].phase
        /\ glob  = _TETrace[i].glob
        /\ glob' = _TETrace[j].glob
        /\ lib  = _TETrace[i].lib
        /\ lib' = _TETrace[j].lib
        /\ done  = _TETrace[i].done
        /\ done' = _TETrace[j].done
        /\ defd  = _TETrace[i].defd
        /\ defd' = _TETrace[j].defd
        /\ cur  = _TETrace[i].cur
        /\ cur' = _TETrace[j].cur
        /\ known  = _TETrace[i].known
        /\ known' = _TETrace[j].known
        /\ pos  = _TETrace[i].pos
        /\ pos' = _TETrace[j].pos

\* Uncomment the ASSUME below to write the states of the error trace
\* to the given file in Json format. Note that you can pass any tuple
\* to `JsonSerialize`. For example, a sub-sequence of _TETrace.
    \* ASSUME
    \*     LET J == INSTANCE Json
    \*         IN J!JsonSerialize("ExportMC_TTrace_1790984671.json", _TETrace)

=============================================================================

 Note that you can extract this module `ExportMC_TEExpression`
  to a dedicated file to reuse `expression` (the module in the 
  dedicated `ExportMC_TEExpression.tla` file takes precedence 
  over the module `ExportMC_TEExpression` below).

---- MODULE ExportMC_TEExpression ----
EXTENDS Sequences, TLCExt, Toolbox, ExportMC, Naturals, TLC

expression == 
    [
        \* To hide variables of the `ExportMC` spec from the error trace,
        \* remove the variables below.  The trace will be written in the order
        \* of the fields of this record.
        req |-> req
        ,calls |-> calls
        ,phase |-> phase
        ,glob |-> glob
        ,lib |-> lib
        ,done |-> done
        ,defd |-> defd
        ,cur |-> cur
        ,known |-> known
        ,pos |-> pos
        
        \* Put additional constant-, state-, and action-level expressions here:
        \* ,_stateNumber |-> _TEPosition
        \* ,_reqUnchanged |-> req = req'
        
        \* Format the `req` variable as Json value.
        \* ,_reqJson |->
        \*     LET J == INSTANCE Json
        \*     IN J!ToJson(req)
        
        \* Lastly, you may build expressions over arbitrary sets of states by
        \* leveraging the _TETrace operator.  For example, this is how to
        \* count the number of times a spec variable changed up to the current
        \* state in the trace.
        \* ,_reqModCount |->
        \*     LET F[s \in DOMAIN _TETrace] ==
        \*         IF s = 1 THEN 0
        \*         ELSE IF _TETrace[s].req # _TETrace[s-1].req
        \*             THEN 1 + F[s-1] ELSE F[s-1]
        \*     IN F[_TEPosition - 1]
    ]

=============================================================================



Parsing and semantic processing can take forever if the trace below is long.
 In this case, it is advised to uncomment the module below to deserialize the
 trace from a generated binary file.

\*
\*---- MODULE ExportMC_TETrace ----
\*EXTENDS IOUtils, ExportMC, TLC
\*
\*trace == IODeserialize("ExportMC_TTrace_1790984671.bin", TRUE)
\*
\*=============================================================================
\*

---- MODULE ExportMC_TETrace ----
EXTENDS ExportMC, TLC

trace == 
    <<
    ([phase |-> "build",defd |-> {},cur |-> 0,lib |-> [tops |-> <<>>, minvis |-> "published", cmd |-> [k |-> 0, c |-> "none", i |-> 0], files |-> <<[src |-> "cmd"]>>, order |-> <<>>, classes |-> <<>>],known |-> {},calls |-> {},pos |-> 1,glob |-> {},done |-> FALSE,req |-> {}]),
    ([phase |-> "build",defd |-> {},cur |-> 1,lib |-> [tops |-> <<>>, minvis |-> "published", cmd |-> [k |-> 0, c |-> "none", i |-> 0], files |-> <<[src |-> "cmd"]>>, order |-> <<[t |-> "c", id |-> 1]>>, classes |-> <<[outer |-> 0, ns |-> FALSE, file |-> 1, bases |-> <<>>, cm |-> "", region |-> FALSE, members |-> <<>>, key |-> "class", at |-> 0]>>],known |-> {},calls |-> {},pos |-> 1,glob |-> {},done |-> FALSE,req |-> {}]),
    ([phase |-> "build",defd |-> {},cur |-> 1,lib |-> [tops |-> <<>>, minvis |-> "published", cmd |-> [k |-> 0, c |-> "none", i |-> 0], files |-> <<[src |-> "cmd"]>>, order |-> <<[t |-> "c", id |-> 1]>>, classes |-> <<[outer |-> 0, ns |-> FALSE, file |-> 1, bases |-> <<>>, cm |-> "", region |-> FALSE, members |-> <<[k |-> "dtor", rc |-> 0, ri |-> 0, lab |-> "published", sig |-> [role |-> "meth", ret |-> [c |-> 0, m |-> "val", b |-> "void"], ps |-> <<>>], cm |-> ""]>>, key |-> "class", at |-> 0]>>],known |-> {},calls |-> {},pos |-> 1,glob |-> {},done |-> FALSE,req |-> {}]),
    ([phase |-> "build",defd |-> {},cur |-> 1,lib |-> [tops |-> <<>>, minvis |-> "published", cmd |-> [k |-> 0, c |-> "none", i |-> 0], files |-> <<[src |-> "cmd"]>>, order |-> <<[t |-> "c", id |-> 1]>>, classes |-> <<[outer |-> 0, ns |-> FALSE, file |-> 1, bases |-> <<>>, cm |-> "", region |-> FALSE, members |-> <<[k |-> "dtor", rc |-> 0, ri |-> 0, lab |-> "published", sig |-> [role |-> "meth", ret |-> [c |-> 0, m |-> "val", b |-> "void"], ps |-> <<>>], cm |-> ""], [k |-> "data", rc |-> 0, ri |-> 0, lab |-> "published", sig |-> [role |-> "meth", ret |-> [c |-> 0, m |-> "val", b |-> "void"], ps |-> <<>>], cm |-> ""]>>, key |-> "class", at |-> 0]>>],known |-> {},calls |-> {},pos |-> 1,glob |-> {},done |-> FALSE,req |-> {}]),
    ([phase |-> "build",defd |-> {},cur |-> 0,lib |-> [tops |-> <<>>, minvis |-> "published", cmd |-> [k |-> 0, c |-> "none", i |-> 0], files |-> <<[src |-> "cmd"]>>, order |-> <<[t |-> "c", id |-> 1]>>, classes |-> <<[outer |-> 0, ns |-> FALSE, file |-> 1, bases |-> <<>>, cm |-> "", region |-> FALSE, members |-> <<[k |-> "dtor", rc |-> 0, ri |-> 0, lab |-> "published", sig |-> [role |-> "meth", ret |-> [c |-> 0, m |-> "val", b |-> "void"], ps |-> <<>>], cm |-> ""], [k |-> "data", rc |-> 0, ri |-> 0, lab |-> "published", sig |-> [role |-> "meth", ret |-> [c |-> 0, m |-> "val", b |-> "void"], ps |-> <<>>], cm |-> ""]>>, key |-> "class", at |-> 0]>>],known |-> {},calls |-> {},pos |-> 1,glob |-> {},done |-> FALSE,req |-> {}]),
    ([phase |-> "build",defd |-> {},cur |-> 0,lib |-> [tops |-> <<>>, minvis |-> "published", cmd |-> [k |-> 1, c |-> "ignoremember", i |-> 2], files |-> <<[src |-> "cmd"]>>, order |-> <<[t |-> "c", id |-> 1]>>, classes |-> <<[outer |-> 0, ns |-> FALSE, file |-> 1, bases |-> <<>>, cm |-> "", region |-> FALSE, members |-> <<[k |-> "dtor", rc |-> 0, ri |-> 0, lab |-> "published", sig |-> [role |-> "meth", ret |-> [c |-> 0, m |-> "val", b |-> "void"], ps |-> <<>>], cm |-> ""], [k |-> "data", rc |-> 0, ri |-> 0, lab |-> "published", sig |-> [role |-> "meth", ret |-> [c |-> 0, m |-> "val", b |-> "void"], ps |-> <<>>], cm |-> ""]>>, key |-> "class", at |-> 0]>>],known |-> {},calls |-> {},pos |-> 1,glob |-> {},done |-> TRUE,req |-> {}]),
    ([phase |-> "scan",defd |-> {},cur |-> 0,lib |-> [tops |-> <<>>, minvis |-> "published", cmd |-> [k |-> 1, c |-> "ignoremember", i |-> 2], files |-> <<[src |-> "cmd"]>>, order |-> <<[t |-> "c", id |-> 1]>>, classes |-> <<[outer |-> 0, ns |-> FALSE, file |-> 1, bases |-> <<>>, cm |-> "", region |-> FALSE, members |-> <<[k |-> "dtor", rc |-> 0, ri |-> 0, lab |-> "published", sig |-> [role |-> "meth", ret |-> [c |-> 0, m |-> "val", b |-> "void"], ps |-> <<>>], cm |-> ""], [k |-> "data", rc |-> 0, ri |-> 0, lab |-> "published", sig |-> [role |-> "meth", ret |-> [c |-> 0, m |-> "val", b |-> "void"], ps |-> <<>>], cm |-> ""]>>, key |-> "class", at |-> 0]>>],known |-> {},calls |-> {},pos |-> 1,glob |-> {},done |-> TRUE,req |-> {}]),
    ([phase |-> "scan",defd |-> {},cur |-> 0,lib |-> [tops |-> <<>>, minvis |-> "published", cmd |-> [k |-> 1, c |-> "ignoremember", i |-> 2], files |-> <<[src |-> "cmd"]>>, order |-> <<[t |-> "c", id |-> 1]>>, classes |-> <<[outer |-> 0, ns |-> FALSE, file |-> 1, bases |-> <<>>, cm |-> "", region |-> FALSE, members |-> <<[k |-> "dtor", rc |-> 0, ri |-> 0, lab |-> "published", sig |-> [role |-> "meth", ret |-> [c |-> 0, m |-> "val", b |-> "void"], ps |-> <<>>], cm |-> ""], [k |-> "data", rc |-> 0, ri |-> 0, lab |-> "published", sig |-> [role |-> "meth", ret |-> [c |-> 0, m |-> "val", b |-> "void"], ps |-> <<>>], cm |-> ""]>>, key |-> "class", at |-> 0]>>],known |-> {},calls |-> {},pos |-> 2,glob |-> {[c |-> 1, i |-> 0]},done |-> TRUE,req |-> {[c |-> 1, i |-> 0]}]),
    ([phase |-> "scan",defd |-> {[c |-> 1, i |-> 0]},cur |-> 0,lib |-> [tops |-> <<>>, minvis |-> "published", cmd |-> [k |-> 1, c |-> "ignoremember", i |-> 2], files |-> <<[src |-> "cmd"]>>, order |-> <<[t |-> "c", id |-> 1]>>, classes |-> <<[outer |-> 0, ns |-> FALSE, file |-> 1, bases |-> <<>>, cm |-> "", region |-> FALSE, members |-> <<[k |-> "dtor", rc |-> 0, ri |-> 0, lab |-> "published", sig |-> [role |-> "meth", ret |-> [c |-> 0, m |-> "val", b |-> "void"], ps |-> <<>>], cm |-> ""], [k |-> "data", rc |-> 0, ri |-> 0, lab |-> "published", sig |-> [role |-> "meth", ret |-> [c |-> 0, m |-> "val", b |-> "void"], ps |-> <<>>], cm |-> ""]>>, key |-> "class", at |-> 0]>>],known |-> {[c |-> 1, i |-> 0]},calls |-> {[c |-> 1, i |-> 1, t |-> "m"], [c |-> 1, i |-> 2, t |-> "m"]},pos |-> 2,glob |-> {[c |-> 1, i |-> 0]},done |-> TRUE,req |-> {}])
    >>
----


=============================================================================

---- CONFIG ExportMC_TTrace_1790984671 ----
CONSTANTS
    ElemIgnore = FALSE
    MinVisSet <- Both
    File2Srcs <- None
    ClassHeads <- CmdHeads
    NestedKeys <- None
    MemberAlpha <- CmdMembers
    MaxMembers <- M20
    MaxClasses = 2
    BaseAlpha <- None
    MaxBases = 1
    ClassComments <- NoComment
    TopAlpha <- None
    MaxTops = 0
    CmdKinds <- CmdAll

INVARIANT
    _inv

CHECK_DEADLOCK
    \* CHECK_DEADLOCK off because of PROPERTY or INVARIANT above.
    FALSE

INIT
    _init

NEXT
    _next

CONSTANT
    _TETrace <- _trace

ALIAS
    _expression
=============================================================================
\* Generated on Fri Oct 02 23:44:33 UTC 2026