------------------------------ MODULE IdbBuild ------------------------------
(***************************************************************************)
(* The BUILDER side of the interrogate database (C11; also C04/C05).       *)
(*                                                                         *)
(* specs/IdbDB.tla states the C11 invariants on a FINISHED database.  This *)
(* module states how the database may be built so that the finished one    *)
(* satisfies them: the state is the database under construction, the       *)
(* actions are the mutations InterrogateBuilder / InterfaceMaker /         *)
(* FunctionRemap perform through InterrogateDatabase                       *)
(*   get_next_index, add_type/function/wrapper/manifest/element/make_seq,  *)
(*   update_* (a record is completed in place), remove_type,               *)
(*   remap_indices, and the moment the database is handed to write().      *)
(*                                                                         *)
(* One index space.  A record is                                           *)
(*   [k : kind, fd : fully defined (types; TRUE for the rest), gl : global,*)
(*    r : field name -> sequence of indices]                               *)
(* (a scalar field is a sequence of one; 0 = "none").  FieldKind gives the *)
(* kind every field must point to; a record may carry a subset of the      *)
(* fields (the bounded model uses small records).                          *)
(*                                                                         *)
(* The actions are TOTAL (they describe what the implementation's call     *)
(* does, also when the caller breaks the protocol); the protocol is in the *)
(* invariants and action properties below.  IdbBuildMC drives the actions  *)
(* under the intended protocol and shows the invariants inductive;         *)
(* IdbBuildTrace drives them from the events of a real interrogate run.    *)
(***************************************************************************)
EXTENDS Integers, Sequences, FiniteSets, TLC
SeqX == INSTANCE SequencesExt

VARIABLES
  db,        \* index -> record: the maps of InterrogateDatabase (one index space)
  next,      \* _next_index
  alloc,     \* indices handed out by get_next_index since the last remap
  removed,   \* indices erased by remove_type since the last remap
  everfd,    \* types that have been observed fully defined
  implicit,  \* records created by update_X(i) on an absent index (map operator[])
  phase,     \* "build" | "done" (database handed to write())
  remapped,  \* remap_indices has run
  act, arg   \* the last action and its index (for the action properties)

vars == <<db, next, alloc, removed, everfd, implicit, phase, remapped, act, arg>>

Kinds == {"w", "f", "t", "m", "e", "s"}

FieldKind ==
  [w |-> [fn |-> "f", ret |-> "t", rvd |-> "f", ps |-> "t"],
   f |-> [cls |-> "t", cw |-> "w", pw |-> "w"],
   t |-> [outer |-> "t", wrapped |-> "t", dtor |-> "f", ctors |-> "f", methods |-> "f", elems |-> "e",
          mseqs |-> "s", casts |-> "f", nested |-> "t", bases |-> "t", ups |-> "f", downs |-> "f"],
   m |-> [type |-> "t", getter |-> "f"],
   e |-> [type |-> "t", getter |-> "f", setter |-> "f", has |-> "f", clear |-> "f", del |-> "f",
          ins |-> "f", getkey |-> "f", len |-> "f"],
   s |-> [lenf |-> "f", elemf |-> "f"]]


Range(q) == {q[n] : n \in DOMAIN q}

\* <<expected kind, index>> for every non-zero index a record holds
RefsOf(rec) == UNION {{<<FieldKind[rec.k][fl], j>> : j \in Range(rec.r[fl]) \ {0}} : fl \in DOMAIN rec.r}

Present == DOMAIN db
Pending == alloc \ (Present \cup removed)            \* handed out, not yet added: a promise
AllRefs == UNION {RefsOf(db[i]) : i \in Present}
Referenced == {p[2] : p \in AllRefs}
Promised == Referenced \ Present                      \* referenced, not (yet) there
OfKind(k) == {i \in Present : db[i].k = k}

EmptyDB == <<>>

Init ==
  /\ db = EmptyDB /\ next = 1 /\ alloc = {} /\ removed = {} /\ everfd = {} /\ implicit = {}
  /\ phase = "build" /\ remapped = FALSE /\ act = "Init" /\ arg = 0

FdOf(i, rec) == IF rec.k = "t" /\ rec.fd THEN everfd \cup {i} ELSE everfd

\* get_next_index() returned i
NextIndex(i) ==
  /\ alloc' = alloc \cup {i} /\ next' = i + 1
  /\ act' = "Next" /\ arg' = i
  /\ UNCHANGED <<db, removed, everfd, implicit, phase, remapped>>

\* add_X(i, rec): rec is the record as it is in the map after the call (add_type on a forward
\* reference merges)
Add(i, rec) ==
  /\ db' = (i :> rec) @@ db
  /\ everfd' = FdOf(i, rec)
  /\ act' = "Add" /\ arg' = i
  /\ UNCHANGED <<next, alloc, removed, implicit, phase, remapped>>

\* a record was changed in place through update_X(i): rec is what it is now
Update(i, rec) ==
  /\ db' = (i :> rec) @@ db
  /\ everfd' = FdOf(i, rec)
  /\ act' = "Update" /\ arg' = i
  /\ UNCHANGED <<next, alloc, removed, implicit, phase, remapped>>

\* update_X(i) on an index that is not in the map: std::map::operator[] makes a blank record
Implicit(k, i) ==
  /\ implicit' = implicit \cup {i}
  /\ act' = "Implicit" /\ arg' = i
  /\ UNCHANGED <<db, next, alloc, removed, everfd, phase, remapped>>

\* remove_type(i)
Remove(i) ==
  /\ db' = [j \in Present \ {i} |-> db[j]]
  /\ removed' = removed \cup {i}
  /\ act' = "Remove" /\ arg' = i
  /\ UNCHANGED <<next, alloc, everfd, implicit, phase, remapped>>

\* remap_indices(first): wrappers first and consecutive, then functions, types, manifests, elements,
\* make_seqs, each kind in ascending old index; every field rewritten; an index that is not in the
\* database maps to itself (IndexRemapper::map_from)
Rank(k) == CASE k = "w" -> 1 [] k = "f" -> 2 [] k = "t" -> 3 [] k = "m" -> 4 [] k = "e" -> 5 [] k = "s" -> 6
Before(i, j) == Rank(db[i].k) < Rank(db[j].k) \/ (db[i].k = db[j].k /\ i < j)
RemapOrder == TLCEval(SeqX!SetToSortSeq(Present, Before))             \* old indices in their new order
RemapFn(first) == LET ord == RemapOrder IN
                  TLCEval([i \in Present |-> first - 1 + CHOOSE n \in DOMAIN ord : ord[n] = i])
MapIdx(m, j) == IF j \in DOMAIN m THEN m[j] ELSE j
RemapRec(m, rec) == [rec EXCEPT !.r = [fl \in DOMAIN rec.r |-> [n \in DOMAIN rec.r[fl] |-> MapIdx(m, rec.r[fl][n])]]]
RemapDB(first) == LET ord == RemapOrder
                      m == RemapFn(first) IN
                  [n \in first..(first + Len(ord) - 1) |-> RemapRec(m, db[ord[n - first + 1]])]
Remap(first) ==
  LET m == RemapFn(first) IN
  /\ db' = RemapDB(first)
  /\ next' = first + Cardinality(Present)
  /\ alloc' = 1..(first + Cardinality(Present) - 1)
  /\ removed' = {}
  /\ everfd' = {m[i] : i \in everfd \cap Present}
  /\ implicit' = {MapIdx(m, i) : i \in implicit}
  /\ remapped' = TRUE
  /\ act' = "Remap" /\ arg' = first
  /\ UNCHANGED phase

\* the database is handed to InterrogateDatabase::write()
Done ==
  /\ phase' = "done" /\ act' = "Done" /\ arg' = 0
  /\ UNCHANGED <<db, next, alloc, removed, everfd, implicit, remapped>>

----------------------------------------------------------------------------
(* State invariants.                                                        *)

\* indices are handed out strictly increasing, without gaps and never twice -- also not after a
\* remove_type: what was handed out is exactly 1..next-1
AllocDense == alloc = 1..(next - 1)

\* nothing is added at an index that was not handed out; a removed index stays dead
AddedAllocated == Present \subseteq alloc /\ removed \subseteq alloc /\ removed \cap Present = {}

\* every index a record holds is there, of the kind the field demands -- or is a promise
RefsWitness == {p \in AllRefs : ~ \/ (p[2] \in Present /\ db[p[2]].k = p[1])
                                    \/ p[2] \in Pending}
RefsPromised == RefsWitness = {}

\* no record comes into being through update_X
NoImplicit == implicit = {}

\* a type that was fully defined stays fully defined (a completed shell is not degraded)
NoDegrade == \A i \in everfd \cap Present : db[i].k = "t" /\ db[i].fd

\* --- when the database is written ---
\* the C11 statement: referentially closed (no promise left), every reference of the right kind
ClosedWitness == {p \in AllRefs : ~ (p[2] \in Present /\ db[p[2]].k = p[1])}
ClosedAtDone == phase = "done" => ClosedWitness = {} /\ Promised = {}

\* a type the builder began to define and erased is referenced by nothing
RemovedUnreferenced == phase = "done" => Referenced \cap removed = {}

\* wrappers listed by a function exist and point back; every wrapper is listed by its function
FnWrappers(i) == (IF "cw" \in DOMAIN db[i].r THEN Range(db[i].r.cw) ELSE {})
                 \cup (IF "pw" \in DOMAIN db[i].r THEN Range(db[i].r.pw) ELSE {})
LinkWitness ==
  {i \in OfKind("f") : \E w \in FnWrappers(i) \ {0} : ~ (w \in OfKind("w") /\ db[w].r.fn = <<i>>)}
  \cup {w \in OfKind("w") : LET f == db[w].r.fn[1] IN ~ (f \in OfKind("f") /\ w \in FnWrappers(f))}
LinksAtDone == phase = "done" => LinkWitness = {}

\* after remap_indices: the wrappers are 1..#wrappers, the database is 1..next-1
WrappersFirst == remapped /\ act = "Remap" => /\ OfKind("w") = 1..Cardinality(OfKind("w"))
                                              /\ Present = 1..(next - 1)

----------------------------------------------------------------------------
(* Action properties (a Reset step of the trace spec has act' = "Reset" and  *)
(* satisfies them trivially).                                               *)

\* add_X asserts the index was free; only add_type may hit a live index, and then the record there
\* is a type that is not fully defined (a forward reference that is merged)
AddFreshStep ==
  act' = "Add" => \/ arg' \notin Present
                  \/ db[arg'].k = "t" /\ ~db[arg'].fd /\ db'[arg'].k = "t"
\* what is completed in place exists and keeps its kind
UpdateLiveStep == act' = "Update" => arg' \in Present /\ db'[arg'].k = db[arg'].k
\* remove_type erases a type that is there
RemoveLiveStep == act' = "Remove" => arg' \in Present /\ db[arg'].k = "t"
\* once handed to write() the database does not change
FrozenStep == phase = "done" /\ phase' = "done" => db' = db

AddFresh == [][AddFreshStep]_vars
UpdateLive == [][UpdateLiveStep]_vars
RemoveLive == [][RemoveLiveStep]_vars
Frozen == [][FrozenStep]_vars
=============================================================================
