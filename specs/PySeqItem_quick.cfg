SPECIFICATION Spec
CONSTANTS
  MaxLen = 3
  MaxOps = 2
  WithDel = FALSE
  LowerBoundChecked = TRUE
INVARIANT TypeOK
INVARIANT Refines
INVARIANT GuardIntact
PROPERTY ErrorChangesNothing
PROPERTY LengthFixed
CONSTRAINT DumpConstraint
CHECK_DEADLOCK FALSE
