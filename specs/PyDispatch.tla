----------------------------- MODULE PyDispatch -----------------------------
(***************************************************************************)
(* C02, dispatch part: which overload of a published function runs when    *)
(* the -python-native wrapper is called with a tuple of Python objects.    *)
(*                                                                         *)
(* The behaviour is the overload set: each step adds one overload (a tuple *)
(* of parameter categories, a number of trailing defaults, const-ness of   *)
(* the method).  For a finished set EVERY call tuple is evaluated inside   *)
(* the invariant:                                                          *)
(*                                                                         *)
(*   REFERENCE  Expected(S, call): C++ overload resolution (exact >        *)
(*     promotion > conversion, derived-to-base and cv tie-breaks, trailing *)
(*     defaults, implicit object parameter) on the C++ argument types that *)
(*     CORRESPOND to the Python arguments; OverflowError when the selected *)
(*     integer parameter cannot hold the value; TypeError for a wrong      *)
(*     count / an argument no overload accepts; "none" = the property      *)
(*     makes no claim about this call.                                     *)
(*   MECHANISM  PySelect(S, call, order): what write_function_for_name /   *)
(*     collapse_default_remaps / write_function_forset /                   *)
(*     write_function_instance of interfaceMakerPythonNative.cxx generate: *)
(*     map_sets by arity, default collapsing, the switch on the argument   *)
(*     count, the RemapCompareLess order (every order std::sort may        *)
(*     produce when keys tie), per-parameter extraction in three phases    *)
(*     (parse / range checks / pointer checks), error clearing.            *)
(*   REFINEMENT Refines: on every call the property speaks about and that  *)
(*     is not in a listed deviation class Dev(S, call) the mechanism gives *)
(*     the reference result, whatever order ties are broken in.            *)
(*                                                                         *)
(* Integers are abstracted to indices into the boundary list IntValue      *)
(* (TLC has 32-bit integers); the Python side holds the real values.       *)
(***************************************************************************)
EXTENDS Integers, Sequences, FiniteSets, TLC

CONSTANTS MaxOverloads,   \* overloads per set
          MaxParams,      \* parameters per overload (<= 2: see Key)
          ParamCats,      \* parameter categories used, subset of CatSet
          IntVals,        \* indices of the integer argument values used, subset of 1..27
          IntVals2,       \* ... used in two-argument calls (subset of IntVals)
          ArgKinds,       \* non-integer argument kinds used, subset of OtherArgs
          Kinds,          \* subset of {"method", "static"}
          NameModes,      \* subset of {"same", "alt"}: how the parameters of the overloads are named
          ConstMethods,   \* BOOLEAN: const-qualified methods in the alphabet
          Fixed           \* names of deviations repaired by a delivered patch (mechanism as intended)

---------------------------------------------------------------------------
(* Categories *)
AllCats == <<"i8", "u8", "i16", "u16", "i32", "u32", "il", "ul", "i64", "u64",
             "f32", "f64", "bool", "str", "rA", "cA", "rB", "cB", "rD", "cD",
             "cM", "vM", "pM", "cT", "cE", "cW">>
CatSet == {AllCats[i] : i \in 1..Len(AllCats)}
CatIx == [c \in CatSet |-> CHOOSE i \in 1..Len(AllCats) : AllCats[i] = c]
IntCats == {"i8", "u8", "i16", "u16", "i32", "u32", "il", "ul", "i64", "u64"}
FloatCats == {"f32", "f64"}
\* classes: A <- B <- D (a three-level chain), C unrelated
InstCats == {"rA", "cA", "rB", "cB", "rD", "cD"}
Arith == IntCats \cup FloatCats \cup {"bool"}
\* class-typed parameters (const K &, K by value, K *) of classes WITHOUT bases that have converting
\* constructors <<parameter type, explicit>>:
\*   M: explicit M(int), M(double)       T: explicit T(int), T(const std::string &)
\*   E: explicit E(int)                  W: W(int), W(double)
CoCats == {"cM", "vM", "pM", "cT", "cE", "cW"}
CoClass(c) == CASE c \in {"cM", "vM", "pM"} -> "M" [] c = "cT" -> "T" [] c = "cE" -> "E" [] c = "cW" -> "W"
IsPtr(c) == c = "pM"
Ctors(K) == CASE K = "M" -> {<<"i32", TRUE>>, <<"f64", FALSE>>} [] K = "T" -> {<<"i32", TRUE>>, <<"str", FALSE>>}
              [] K = "E" -> {<<"i32", TRUE>>} [] K = "W" -> {<<"i32", FALSE>>, <<"f64", FALSE>>}
Implicit(K) == {x[1] : x \in {y \in Ctors(K) : ~y[2]}}
InstOf(a) == CASE a.t = "iM" -> "M" [] a.t = "iT" -> "T" [] a.t = "iE" -> "E" [] a.t = "iW" -> "W" [] OTHER -> ""

(* index : value   1:-2^63-1  2:-2^63  3:-2^31-1  4:-2^31  5:-32769  6:-32768  7:-129  8:-128
   9:-1  10:0  11:1  12:127  13:128  14:255  15:256  16:32767  17:32768  18:65535  19:65536
   20:2^31-1  21:2^31  22:2^32-1  23:2^32  24:2^63-1  25:2^63  26:2^64-1  27:2^64 *)
Lo == [c \in IntCats |-> CASE c = "i8" -> 8 [] c = "i16" -> 6 [] c = "i32" -> 4
                           [] c \in {"il", "i64"} -> 2 [] OTHER -> 10]
Hi == [c \in IntCats |-> CASE c = "i8" -> 12 [] c = "u8" -> 14 [] c = "i16" -> 16 [] c = "u16" -> 18
                           [] c = "i32" -> 20 [] c = "u32" -> 22 [] c \in {"il", "i64"} -> 24 [] OTHER -> 26]
InRange(v, c) == v >= Lo[c] /\ v <= Hi[c]
Min2(a, b) == IF a < b THEN a ELSE b
InLong(v) == v \in 2..24
InULong(v) == v \in 10..26

\* Python type category of a parameter ("distinguishable by Python type category")
PyCat(c) == CASE c \in IntCats -> "int" [] c \in FloatCats -> "float"
              [] c \in {"rA", "cA"} -> "A" [] c \in {"rB", "cB"} -> "B" [] c \in {"rD", "cD"} -> "D" [] c \in CoCats -> CoClass(c) [] OTHER -> c

OtherArgs == {"float", "bool", "str", "bytes", "none", "iA", "iB", "iD", "kA", "kB", "iC", "wrong",
              "iM", "iT", "iE", "iW"}
IntArg(v) == [t |-> "int", v |-> v]
Args == {IntArg(v) : v \in IntVals} \cup {[t |-> k, v |-> 0] : k \in ArgKinds}

---------------------------------------------------------------------------
(* The behaviour: an overload set *)
\* nm: "same" = every overload names its parameters (a, b); "alt" = overloads 2, 4, .. name them
\* (x, y): keyword arguments then select among the overloads, and the generated code cannot
\* extract a single argument by one common name
VARIABLES S, kind, done, nm
vars == <<S, kind, done, nm>>
NameOf(j, i) == IF nm = "alt" /\ j % 2 = 0 THEN <<"x", "y">>[i] ELSE <<"a", "b">>[i]
PosOfName(x) == CASE x \in {"a", "x"} -> 1 [] x \in {"b", "y"} -> 2 [] OTHER -> 0

Key(o) == Len(o.p) * 100000
          + (IF Len(o.p) >= 1 THEN CatIx[o.p[1]] ELSE 0) * 2000
          + (IF Len(o.p) >= 2 THEN CatIx[o.p[2]] ELSE 0) * 50
          + o.d * 2 + (IF o.k THEN 1 ELSE 0)

Tuples(n) == [1..n -> ParamCats]
Shapes(kd) == {[p |-> p, d |-> d, k |-> k] :
                 p \in UNION {Tuples(n) : n \in 0..MaxParams}, d \in 0..MaxParams,
                 k \in (IF kd = "method" /\ ConstMethods THEN BOOLEAN ELSE {FALSE})}

Accepts(o, n) == n >= Len(o.p) - o.d /\ n <= Len(o.p)

\* the domain: at every argument count the overloads that accept it differ in the Python type
\* category of some parameter (or in the const-ness of the method).  Sets outside (f(int)/f(short),
\* f(A&)/f(const A&), f(int)/f(int, int = 0)) are not distinguishable from Python; that is where
\* RemapCompareLess ties are decided by allocation order (examined under C14).
Sig(o, n) == <<o.k, [i \in 1..n |-> PyCat(o.p[i])]>>
Distinguishable(T) ==
  \A n \in 0..MaxParams : \A j1, j2 \in 1..Len(T) :
     j1 < j2 /\ Accepts(T[j1], n) /\ Accepts(T[j2], n) => Sig(T[j1], n) # Sig(T[j2], n)

Init == S = <<>> /\ kind \in Kinds /\ done = FALSE /\ nm \in NameModes
Add == /\ ~done /\ Len(S) < MaxOverloads
       /\ \E o \in Shapes(kind) :
            /\ o.d <= Len(o.p)
            /\ (Len(S) > 0 => Key(o) > Key(S[Len(S)]))
            /\ S' = Append(S, o)
       /\ UNCHANGED <<kind, done, nm>>
Finish == ~done /\ Len(S) >= 1 /\ done' = TRUE /\ UNCHANGED <<S, kind, nm>>
Next == Add \/ Finish
Spec == Init /\ [][Next]_vars

\* ... and two overloads with equal sort keys must not both be able to take an argument through
\* converting constructors of different classes (C++ calls that ambiguous; here the order of the two,
\* decided by allocation order, would decide)
NoCoerceTie(T) ==
  \A n \in 1..MaxParams : \A j1, j2 \in 1..Len(T) :
     (j1 < j2 /\ Accepts(T[j1], n) /\ Accepts(T[j2], n) /\ T[j1].k = T[j2].k /\ Len(T[j1].p) = Len(T[j2].p))
       => ~( /\ \A i \in 1..Len(T[j1].p) : (T[j1].p[i] = T[j2].p[i] \/ (T[j1].p[i] \in CoCats /\ T[j2].p[i] \in CoCats))
             /\ \E i \in 1..Len(T[j1].p) : T[j1].p[i] \in CoCats /\ T[j2].p[i] \in CoCats
                                            /\ CoClass(T[j1].p[i]) # CoClass(T[j2].p[i])
                                            /\ Implicit(CoClass(T[j1].p[i])) # {} /\ Implicit(CoClass(T[j2].p[i])) # {} )
InDomain == Distinguishable(S) /\ NoCoerceTie(S)

---------------------------------------------------------------------------
(* Calls *)
Selfs(kd) == IF kd = "method" THEN {"nc", "c"} ELSE {"na"}
MaxLen(T) == IF T = <<>> THEN 0 ELSE CHOOSE n \in 0..MaxParams :
               (\E j \in 1..Len(T) : Len(T[j].p) = n) /\ \A j \in 1..Len(T) : Len(T[j].p) <= n
\* argument tuples: every argument alone; pairs over the reduced alphabet Args2; one call that is
\* longer than every overload
Args2 == {a \in Args : a.t # "int" \/ a.v \in IntVals2}
CallTuples(T) == {<<>>} \cup (IF MaxLen(T) >= 1 THEN [1..1 -> Args] ELSE {})
                  \cup (IF MaxLen(T) >= 2 THEN [1..2 -> Args2] ELSE {})
                  \cup {[i \in 1..(MaxLen(T) + 1) |-> IntArg(10)]}
\* keyword calls: every argument is positional ("") or passed by a name: the right one, the name a
\* sibling overload uses, the name of another parameter (a duplicate of a positional), an unknown one
ArgsK == {a \in Args : a.t \in {"float", "str", "bool", "iA", "iB", "iD", "kA"} \/ (a.t = "int" /\ a.v = 10)}
ArgsK2 == {a \in ArgsK : a.t \in {"int", "str", "iA", "float"}}
KwPats1 == {<<"a">>, <<"x">>, <<"b">>, <<"zz">>}
KwPats2 == {<<"", "b">>, <<"", "y">>, <<"", "a">>, <<"", "zz">>, <<"a", "b">>, <<"b", "a">>, <<"x", "y">>,
            <<"a", "y">>, <<"a", "zz">>}
KwCalls(T) == (IF MaxLen(T) >= 1 THEN {[a |-> a, kw |-> k] : a \in [1..1 -> ArgsK], k \in KwPats1} ELSE {})
               \cup (IF MaxLen(T) >= 2 THEN {[a |-> a, kw |-> k] : a \in [1..2 -> ArgsK2], k \in KwPats2} ELSE {})
Calls(T, kd) == {[a |-> a, kw |-> [i \in 1..Len(a) |-> ""], self |-> s] : a \in CallTuples(T), s \in Selfs(kd)}
                  \cup {[a |-> c.a, kw |-> c.kw, self |-> s] : c \in KwCalls(T), s \in Selfs(kd)}
HasKw(call) == \E i \in 1..Len(call.kw) : call.kw[i] # ""

\* a call normalised to positions: arguments permuted by name, ok = the overloads whose parameter
\* names the keywords are; st = "bad" (unknown or duplicate keyword, a required parameter missing:
\* TypeError), "gap" (a defaulted parameter before a named one is left out: legal in Python, no
\* C++ counterpart, no claim), "ok"
Norm0(T, call) ==
  LET n == Len(call.a)
      pos(i) == IF call.kw[i] = "" THEN i ELSE PosOfName(call.kw[i])
      filled == {pos(i) : i \in 1..n}
      binds(j) == \A i \in 1..n : call.kw[i] # "" => (pos(i) >= 1 /\ pos(i) <= Len(T[j].p) /\ NameOf(j, pos(i)) = call.kw[i])
      ok == {j \in 1..Len(T) : binds(j)}
      bad == (\E i \in 1..n : pos(i) = 0) \/ (\E i, j \in 1..n : i # j /\ pos(i) = pos(j))
  IN IF ~HasKw(call) THEN [a |-> call.a, self |-> call.self, ok |-> 1..Len(T), st |-> "ok"]
     ELSE IF bad THEN [a |-> <<>>, self |-> call.self, ok |-> {}, st |-> "bad"]
     ELSE IF filled # 1..n THEN
        [a |-> <<>>, self |-> call.self, ok |-> {},
         st |-> IF \E j \in ok : filled \subseteq 1..Len(T[j].p) /\ 1..(Len(T[j].p) - T[j].d) \subseteq filled
                  THEN "gap" ELSE "bad"]
     ELSE [a |-> [q \in 1..n |-> call.a[CHOOSE i \in 1..n : pos(i) = q]], self |-> call.self, ok |-> ok, st |-> "ok"]

\* an integer outside the range of int passed where some overload has a class with converting
\* constructors: errors raised inside the coerce function are not modelled (status "gap": no claim)
Norm(T, call) ==
  LET n0 == Norm0(T, call) IN
  IF n0.st = "ok" /\ \E i \in 1..Len(n0.a) : \E j \in 1..Len(T) :
        n0.a[i].t = "int" /\ n0.a[i].v \notin 4..20 /\ i <= Len(T[j].p) /\ T[j].p[i] \in CoCats
    THEN [n0 EXCEPT !.st = "gap"] ELSE n0

N(call) == Len(call.a)
SelfOK(o, self) == self # "c" \/ o.k          \* a const object only has its const methods

---------------------------------------------------------------------------
(* REFERENCE *)
\* type of a decimal literal of that value (int, long, unsigned long as g++ extends it)
Lit(v) == IF v \in 4..20 THEN "i32" ELSE IF v \in 2..24 THEN "il" ELSE IF v \in 25..26 THEN "ul" ELSE "x"

\* rank of the standard conversion between arithmetic / string types: 0 = none, 1 = exact,
\* 2 = promotion, 3 = conversion
StdRank(ct, c) ==
  IF ct \in Arith /\ c \in Arith THEN
       IF ct = c THEN 1
       ELSE IF c = "i32" /\ ct \in {"i8", "u8", "i16", "u16", "bool"} THEN 2
       ELSE IF c = "f64" /\ ct = "f32" THEN 2
       ELSE 3
  ELSE IF ct = "str" /\ c = "str" THEN 1 ELSE 0

\* the C++ type of an argument that is not a class instance
ArgStd(a) == CASE a.t = "int" -> Lit(a.v) [] a.t = "bool" -> "bool" [] a.t = "float" -> "f64"
               [] a.t = "str" -> "str" [] OTHER -> "x"

\* copy-initialisation of a K from a value of type ct ([dcl.init], [over.match.copy]): only the
\* NON-explicit converting constructors are candidates; the one with the best standard conversion
\* of the argument is used.  Result: the parameter type of that constructor, "none", or "amb"
CppCtor(K, ct) ==
  LET V == {p \in Implicit(K) : StdRank(ct, p) # 0}
      W == {p \in V : \A q \in V \ {p} : StdRank(ct, p) < StdRank(ct, q)}
  IN IF V = {} THEN "none" ELSE IF W = {} THEN "amb" ELSE CHOOSE p \in W : TRUE

\* the property's correspondence: int -> integer types, float -> floating types, str -> string,
\* bool -> bool, instance -> its class or a base class (a const instance only where const is
\* accepted); a class taken by value or const reference also corresponds to what one of its
\* non-explicit constructors converts (an explicit constructor never converts; a pointer never does)
Corr(arg, c) ==
  IF c \in CoCats THEN
       \/ InstOf(arg) = CoClass(c)
       \/ ~IsPtr(c) /\ InstOf(arg) = "" /\ CppCtor(CoClass(c), ArgStd(arg)) \notin {"none", "amb"}
  ELSE
  CASE arg.t = "int" -> c \in IntCats
    [] arg.t = "bool" -> c = "bool"
    [] arg.t = "float" -> c \in FloatCats
    [] arg.t = "str" -> c = "str"
    [] arg.t = "iA" -> c \in {"rA", "cA"}
    [] arg.t = "iB" -> c \in {"rA", "cA", "rB", "cB"}
    [] arg.t = "iD" -> c \in InstCats
    [] arg.t = "kA" -> c = "cA"
    [] arg.t = "kB" -> c \in {"cA", "cB"}
    [] OTHER -> FALSE

CorrCands(T, call) ==
  {j \in 1..Len(T) \cap call.ok : /\ Accepts(T[j], N(call)) /\ SelfOK(T[j], call.self)
                                   /\ \A i \in 1..N(call) : Corr(call.a[i], T[j].p[i])}

\* the C++ argument type corresponding to a Python argument: an integer has the integer type of
\* the parameter it corresponds to (when the corresponding overloads agree on it), otherwise the
\* type of the literal
ArgType(T, call, i) ==
  LET a == call.a[i] IN
  CASE a.t = "int" -> LET TT == {IF T[j].p[i] \in IntCats THEN T[j].p[i] ELSE Lit(a.v) : j \in CorrCands(T, call)} IN
                      IF TT = {} THEN Lit(a.v)
                      ELSE IF Cardinality(TT) = 1 THEN CHOOSE x \in TT : TRUE ELSE "mixed"
    [] a.t = "bool" -> "bool"
    [] a.t = "float" -> "f64"
    [] a.t = "str" -> "str"
    [] a.t = "iA" -> "A" [] a.t = "iB" -> "B" [] a.t = "iD" -> "D" [] a.t = "iC" -> "C"
    [] a.t = "kA" -> "kA" [] a.t = "kB" -> "kB"
    [] InstOf(a) # "" -> InstOf(a)
    [] OTHER -> "x"

\* implicit conversion sequence <<rank, derived-to-base depth, cv added>>; rank 0 = none,
\* 1 = exact, 2 = promotion, 3 = conversion, 4 = user-defined conversion (one converting
\* constructor)  ([over.best.ics], [over.ics.rank])
ICS(ct, c) ==
  IF c \in CoCats THEN
       IF ct = CoClass(c) THEN <<1, 0, 0>>
       ELSE IF ~IsPtr(c) /\ CppCtor(CoClass(c), ct) \notin {"none", "amb"} THEN <<4, 0, 0>>
       ELSE <<0, 0, 0>>
  ELSE IF ct \in Arith /\ c \in Arith THEN <<StdRank(ct, c), 0, 0>>
  ELSE IF ct = "str" THEN (IF c = "str" THEN <<1, 0, 0>> ELSE <<0, 0, 0>>)
  ELSE IF ct = "A" THEN (CASE c = "rA" -> <<1, 0, 0>> [] c = "cA" -> <<1, 0, 1>> [] OTHER -> <<0, 0, 0>>)
  ELSE IF ct = "B" THEN (CASE c = "rB" -> <<1, 0, 0>> [] c = "cB" -> <<1, 0, 1>>
                           [] c = "rA" -> <<3, 1, 0>> [] c = "cA" -> <<3, 1, 1>> [] OTHER -> <<0, 0, 0>>)
  ELSE IF ct = "D" THEN (CASE c = "rD" -> <<1, 0, 0>> [] c = "cD" -> <<1, 0, 1>>
                           [] c = "rB" -> <<3, 1, 0>> [] c = "cB" -> <<3, 1, 1>>
                           [] c = "rA" -> <<3, 2, 0>> [] c = "cA" -> <<3, 2, 1>> [] OTHER -> <<0, 0, 0>>)
  ELSE IF ct = "kA" THEN (IF c = "cA" THEN <<1, 0, 1>> ELSE <<0, 0, 0>>)
  ELSE IF ct = "kB" THEN (CASE c = "cB" -> <<1, 0, 1>> [] c = "cA" -> <<3, 1, 1>> [] OTHER -> <<0, 0, 0>>)
  ELSE <<0, 0, 0>>

Better(x, y) == \/ x[1] < y[1]
                \/ x[1] = y[1] /\ (x[2] < y[2] \/ (x[2] = y[2] /\ x[3] < y[3]))

\* position 0 is the implicit object parameter; at = the C++ argument types of the call
ICSAt(T, at, j, pos) ==
  IF pos = 0 THEN (IF T[j].k THEN <<1, 0, 1>> ELSE <<1, 0, 0>>)
  ELSE ICS(at[pos], T[j].p[pos])

ArgTypes(T, call) == [i \in 1..N(call) |-> ArgType(T, call, i)]

BetterCand(T, at, j1, j2) ==
  /\ \A pos \in 0..Len(at) : ~Better(ICSAt(T, at, j2, pos), ICSAt(T, at, j1, pos))
  /\ \E pos \in 0..Len(at) : Better(ICSAt(T, at, j1, pos), ICSAt(T, at, j2, pos))

\* 0 = no viable function, -1 = ambiguous, else the index of the best viable function
CppSelectT(T, call, at) ==
  LET V == {j \in 1..Len(T) \cap call.ok : /\ Accepts(T[j], N(call)) /\ SelfOK(T[j], call.self)
                              /\ \A i \in 1..N(call) : ICSAt(T, at, j, i)[1] # 0}
      W == {j \in V : \A j2 \in V \ {j} : BetterCand(T, at, j, j2)}
  IN IF V = {} THEN 0 ELSE IF W = {} THEN -1 ELSE CHOOSE j \in W : TRUE
CppSelect(T, call) == CppSelectT(T, call, ArgTypes(T, call))

Mixed(T, call) == \E i \in 1..N(call) : ArgType(T, call, i) = "mixed"
IntOut(call, o) == \E i \in 1..N(call) : call.a[i].t = "int" /\ o.p[i] \in IntCats /\ ~InRange(call.a[i].v, o.p[i])

\* what Python documents it converts (used only to decide where TypeError is DEMANDED):
\* everything has a truth value; an int is accepted where a float is wanted; bool is an int
PyAccept(arg, c) ==
  \/ c = "bool"
  \/ c \in CoCats /\ ~IsPtr(c) /\ InstOf(arg) = "" /\ CppCtor(CoClass(c), ArgStd(arg)) = "amb"
  \/ c \in IntCats /\ arg.t \in {"int", "bool"}
  \/ c \in FloatCats /\ arg.t \in {"int", "bool", "float"}
  \/ Corr(arg, c)

Acceptable(T, call) ==
  \E j \in 1..Len(T) \cap call.ok : /\ Accepts(T[j], N(call)) /\ SelfOK(T[j], call.self)
                                     /\ \A i \in 1..N(call) : PyAccept(call.a[i], T[j].p[i])
\* some overload has, at the position of an integer argument, an integer parameter that cannot hold
\* it (whatever the count): the rejected call may then report OverflowError instead of TypeError
SomeIntOut(T, call) ==
  \E j \in 1..Len(T) : \E i \in 1..Min2(N(call), Len(T[j].p)) :
     call.a[i].t = "int" /\ T[j].p[i] \in IntCats /\ ~InRange(call.a[i].v, T[j].p[i])

None == [k |-> "none", j |-> 0]
\* reference for a normalised call
ExpectedN(T, call) ==
  LET cc == CorrCands(T, call) IN
  IF cc # {} THEN
       LET at == ArgTypes(T, call) IN
       IF \E i \in 1..N(call) : at[i] = "mixed" THEN None
       ELSE LET s == CppSelectT(T, call, at) IN
            IF s <= 0 \/ s \notin cc THEN None
            ELSE IF IntOut(call, T[s]) THEN [k |-> "OverflowError", j |-> 0]
            ELSE [k |-> "run", j |-> s]
  ELSE IF ~Acceptable(T, call) THEN
       [k |-> (IF SomeIntOut(T, call) THEN "TypeOrOverflow" ELSE "TypeError"), j |-> 0]
  ELSE None

\* the wrapper takes keyword arguments only if some overload has two parameters or a default
KwCapable(T) == \E j \in 1..Len(T) : Len(T[j].p) >= 2 \/ T[j].d > 0

\* reference for any call: an unknown or duplicate keyword is a TypeError, otherwise the call is the
\* positional call with the arguments permuted by name, among the overloads that have these names
Expected(T, call) ==
  LET nc == Norm(T, call) IN
  IF nc.st = "bad" THEN [k |-> "TypeError", j |-> 0]
  ELSE IF nc.st = "gap" THEN None
  \* functions none of whose overloads has two parameters or a default are positional-only by
  \* design (METH_NOARGS / METH_O / METH_VARARGS): no claim about naming their parameter
  ELSE IF HasKw(call) /\ ~KwCapable(T) THEN None
  ELSE ExpectedN(T, nc)

---------------------------------------------------------------------------
(* MECHANISM *)
Max(A) == CHOOSE x \in A : \A y \in A : y <= x

MapSet(T, n) == {j \in 1..Len(T) : Accepts(T[j], n)}                  \* map_sets[n]
KeysOf(T) == {n \in 0..MaxParams : MapSet(T, n) # {}}
\* func->_args_type: the OR of AT_no_args / AT_single_arg / AT_varargs over the remaps
ArgsT(T) == IF \A j \in 1..Len(T) : Len(T[j].p) = 0 THEN "noargs"
            ELSE IF \A j \in 1..Len(T) : Len(T[j].p) = 1 /\ T[j].d = 0 THEN "single"
            ELSE "var"

\* collapse_default_remaps: from the highest count downwards, as long as the next lower set
\* contains the set above it, the lower set replaces it and the range of counts is extended
RECURSIVE Walk(_, _)
Walk(T, m) == IF (m - 1) \in KeysOf(T) /\ MapSet(T, m) \subseteq MapSet(T, m - 1) /\ "no-collapse" \notin Fixed
                THEN Walk(T, m - 1) ELSE m
Top(T) == Max(KeysOf(T))
Bot(T) == Walk(T, Top(T))
\* a group: counts lo..hi are served by the remaps R
Groups(T) == {[lo |-> Bot(T), hi |-> Top(T), R |-> MapSet(T, Bot(T))]}
               \cup {[lo |-> n, hi |-> n, R |-> MapSet(T, n)] : n \in {m \in KeysOf(T) : m < Bot(T)}}

\* get_type_sort
TS(c) == CASE c = "str" -> 9 [] c = "u64" -> 7 [] c = "i64" -> 6 [] c \in IntCats -> 5
           [] c = "f64" -> 4 [] c = "f32" -> 3 [] c = "bool" -> 1
           [] c \in {"rA", "cA"} -> 20 [] c \in {"rB", "cB"} -> 40 [] c \in {"rD", "cD"} -> 60
           [] c \in CoCats -> 20

\* RemapCompareLess (the this parameter is the same for all remaps of a method)
RECURSIVE LessFrom(_, _, _)
LessFrom(o1, o2, x) ==
  IF x > Len(o1.p) THEN FALSE
  ELSE IF TS(o1.p[x]) # TS(o2.p[x]) THEN TS(o1.p[x]) > TS(o2.p[x])
  ELSE LessFrom(o1, o2, x + 1)
Less(o1, o2) ==
  IF o1.k # o2.k THEN o2.k
  ELSE IF Len(o1.p) # Len(o2.p) THEN Len(o1.p) > Len(o2.p)
  ELSE LessFrom(o1, o2, 1)

\* every arrangement std::sort may return: no element strictly less than an earlier one
Perms(R) == {f \in [1..Cardinality(R) -> R] : \A a, b \in 1..Cardinality(R) : a # b => f[a] # f[b]}
Orders(T, R) == {f \in Perms(R) : \A a, b \in 1..Cardinality(R) : a < b => ~Less(T[f[b]], T[f[a]])}

\* ---- one parameter, three phases ------------------------------------------------------
\* phase 1 (PyArg_ParseTuple format / type_check): "ok", "fail" (TypeError pending),
\* "failovf" (OverflowError pending)
P1(c, a, mode) ==
  IF c \in IntCats THEN
     IF a.t = "bool" THEN "ok"
     ELSE IF a.t # "int" THEN "fail"
     ELSE IF mode = "single" /\ c \notin {"i64", "u64"} THEN "ok"          \* PyLong_Check
     ELSE CASE c \in {"i8", "u8", "u16", "il"} -> (IF InLong(a.v) THEN "ok" ELSE "failovf")   \* "l"
            [] c \in {"i16", "i32", "i64"} -> (IF InRange(a.v, c) THEN "ok" ELSE "failovf")    \* "h" "i" "L"
            [] OTHER -> "ok"                                                                   \* "k" "K" mask
  ELSE IF c \in FloatCats THEN (IF a.t \in {"int", "bool", "float"} THEN "ok" ELSE "fail")
  ELSE IF c = "bool" THEN "ok"
  ELSE IF c = "str" THEN
     (IF a.t = "str" \/ (a.t = "bytes" /\ mode = "var" /\ "bytes-as-str" \notin Fixed) THEN "ok" ELSE "fail")
  ELSE "ok"                                                                \* "O"

\* phase 2 (extra_convert): "ok", "raise" (OverflowError returned at once), "wrap" (accepted with
\* a wrapped value), "pend" (value -1 with an OverflowError pending: the body runs, then the error)
\* with the fix the failed conversion is returned at once
Pend == IF "int-error-ignored" \in Fixed THEN "raise" ELSE "pend"
P2(c, a, mode) ==
  IF c \notin IntCats \/ a.t # "int" THEN "ok"
  ELSE IF mode = "single" THEN
     CASE c \in {"u8", "u16"} -> (IF InRange(a.v, c) THEN "ok" ELSE "raise")
       [] c \in {"i8", "i16", "i32"} -> (IF InRange(a.v, c) THEN "ok" ELSE IF InLong(a.v) THEN "raise" ELSE Pend)
       [] c = "il" -> (IF InLong(a.v) THEN "ok" ELSE Pend)
       [] c = "u32" -> (IF InRange(a.v, c) THEN "ok" ELSE "raise")
       [] c = "ul" -> (IF InULong(a.v) THEN "ok" ELSE Pend)
       [] c = "u64" -> (IF InULong(a.v) THEN "ok" ELSE "wrap")
       [] OTHER -> "ok"
  ELSE
     CASE c \in {"i8", "u8", "u16"} -> (IF InRange(a.v, c) THEN "ok" ELSE "raise")
       [] c = "u32" -> (IF InRange(a.v, c) THEN "ok" ELSE IF a.v = 27 THEN "wrap" ELSE "raise")
       [] c \in {"ul", "u64"} -> (IF InULong(a.v) THEN "ok" ELSE "wrap")
       [] OTHER -> "ok"

\* phase 3 (extra_param_check): the instance pointer was extracted
\* Dtool_Coerce_K (write_coerce_constructor): generated for a class that has a non-explicit
\* converting constructor; it tries those constructors most specific first with the single-argument
\* type checks.  Result: the parameter type of the constructor used, or "fail"
HasCoerce(K) == Implicit(K) # {}
MechCoerce(K, a) ==
  LET ok == {p \in Implicit(K) : P1(p, a, "single") = "ok" /\ P2(p, a, "single") = "ok"}
  IN IF ok = {} THEN "fail" ELSE CHOOSE p \in ok : \A q \in ok : TS(q) <= TS(p)
\* phase 3 (extra_param_check): the instance pointer was extracted; co = the overload is written
\* with coercion (the only overload of its count, or the second pass).  Pointer parameters are
\* coerced like references
P3(c, a, co) ==
  IF c \in InstCats THEN Corr(a, c)
  ELSE IF c \in CoCats THEN
       \/ InstOf(a) = CoClass(c)
       \/ co /\ InstOf(a) = "" /\ HasCoerce(CoClass(c)) /\ MechCoerce(CoClass(c), a) # "fail"
  ELSE TRUE

FirstBad(seq) == IF \E i \in 1..Len(seq) : seq[i] # "ok"
                   THEN seq[CHOOSE i \in 1..Len(seq) : seq[i] # "ok" /\ \A m \in 1..(i - 1) : seq[m] = "ok"]
                   ELSE "ok"

\* one remap inside a group: "run" | "runwrap" | "runpend" | "raise" | "fail" | "failovf"
Try(o, call, g, mode, co) ==
  LET n == N(call)
      np == Min2(n, Len(o.p))
      r1 == FirstBad([i \in 1..np |-> P1(o.p[i], call.a[i], mode)])
      r2 == [i \in 1..np |-> P2(o.p[i], call.a[i], mode)]
  IN IF ~SelfOK(o, call.self) THEN "fail"
     \* a remap without parameters writes no parse at all: nothing checks the count of the arguments
     ELSE IF Len(o.p) = 0 /\ "extra-args" \notin Fixed THEN "run"
     ELSE IF n > Min2(g.hi, Len(o.p)) THEN "fail"
     \* too few arguments: PyArg_ParseTupleAndKeywords converts those given before it misses one
     ELSE IF n < g.lo THEN (IF mode = "var" /\ r1 = "failovf" THEN "failovf" ELSE "fail")
     ELSE IF r1 # "ok" THEN r1
     ELSE IF \E i \in 1..np : r2[i] = "raise" THEN "raise"
     ELSE IF \E i \in 1..np : ~P3(o.p[i], call.a[i], co) THEN "fail"
     ELSE IF \E i \in 1..np : r2[i] = "pend" THEN "runpend"
     ELSE IF \E i \in 1..np : r2[i] = "wrap" THEN "runwrap"
     ELSE "run"

RECURSIVE Pass(_, _, _, _, _, _, _, _)
Pass(T, call, g, mode, ord, x, co, sole) ==
  IF x > Len(ord) THEN [k |-> "TypeError", j |-> 0]
  \* a remap whose parameter names are not the keywords of the call fails its parse
  ELSE LET r == IF ord[x] \notin call.ok THEN "fail" ELSE Try(T[ord[x]], call, g, mode, co) IN
       CASE r \in {"run", "runwrap"} -> [k |-> r, j |-> ord[x]]
         [] r = "runpend" -> [k |-> "OverflowAfterRun", j |-> ord[x]]
         [] r = "raise" -> [k |-> "OverflowError", j |-> 0]
         [] r = "failovf" /\ (sole \/ "ovf-cleared" \in Fixed) -> [k |-> "OverflowError", j |-> 0]
         [] OTHER -> Pass(T, call, g, mode, ord, x + 1, co, sole)

\* everything that depends on the set only, computed once per set: the groups, whether the
\* wrapper switches on the argument count, and the admissible sort orders of every group
SetCtx(T) == LET G == Groups(T) IN
  [G |-> G, switch |-> ~(ArgsT(T) = "var" /\ Cardinality(G) = 1), ord |-> [g \in G |-> Orders(T, g.R)]]

GroupForC(cx, n) == IF ~cx.switch THEN cx.G                       \* no switch: the parse counts
                    ELSE {g \in cx.G : n >= g.lo /\ n <= g.hi}
GroupFor(T, n) == GroupForC(SetCtx(T), n)

\* a group serving exactly one argument extracts it once for all its remaps (type checks instead of
\* a parse: "single") only if they all give their parameter the same name; else every remap parses
\* the tuple and the keywords itself ("var")
ModeOf(T, g) == IF g.lo = 1 /\ g.hi = 1 /\ (~KwCapable(T) \/ Cardinality({NameOf(j, 1) : j \in g.R}) = 1)
                  THEN "single" ELSE "var"
\* is_remap_coercion_possible: some parameter is a class with a coerce function
Coercible(o) == \E i \in 1..Len(o.p) : o.p[i] \in CoCats /\ HasCoerce(CoClass(o.p[i]))
SubSeq2(ord, keep) == LET RECURSIVE F(_) F(x) == IF x > Len(ord) THEN <<>>
                                                ELSE (IF keep[ord[x]] THEN <<ord[x]>> ELSE <<>>) \o F(x + 1) IN F(1)
\* write_function_forset: a single remap is written with coercion; several are tried in order
\* without coercion first, then those that can coerce are tried again with it
PySelect(T, call, ord, g) ==
  IF Len(ord) = 1 THEN Pass(T, call, g, ModeOf(T, g), ord, 1, TRUE, TRUE)
  ELSE LET r1 == Pass(T, call, g, ModeOf(T, g), ord, 1, FALSE, FALSE)
           ord2 == SubSeq2(ord, [j \in 1..Len(T) |-> Coercible(T[j])])
       IN IF r1.k # "TypeError" \/ ord2 = <<>> THEN r1
          ELSE Pass(T, call, g, ModeOf(T, g), ord2, 1, TRUE, FALSE)

\* all results the mechanism can produce for a normalised call (one per admissible sort order)
PyResultsN(T, call, cx) ==
  LET GG == GroupForC(cx, N(call)) IN
  IF GG = {} THEN {[k |-> "TypeError", j |-> 0]}
  ELSE LET g == CHOOSE x \in GG : TRUE IN {PySelect(T, call, ord, g) : ord \in cx.ord[g]}

\* ... for any call.  Functions that are not KwCapable take no keywords at all; the single-argument
\* extraction (Dtool_ExtractArg) accepts one positional argument or one keyword of the common name
TErr == {[k |-> "TypeError", j |-> 0]}
PyResultsC(T, call, cx) ==
  LET nc == Norm(T, call) IN
  IF ~HasKw(call) THEN PyResultsN(T, nc, cx)
  ELSE IF ~KwCapable(T) THEN TErr
  ELSE IF nc.st # "ok" THEN TErr           \* ("gap" calls are not modelled: no claim, not compared)
  ELSE PyResultsN(T, nc, cx)
PyResults(T, call) == PyResultsC(T, call, SetCtx(T))

---------------------------------------------------------------------------
(* Deviation classes: predicates over the INPUT (set, call) only; they may over-approximate (the
   replay measures how many members of each class really deviate).  Each is a finding in
   known_findings.json, or a delivered fix (then its name is in Fixed, the mechanism above behaves
   as intended and the class is empty). *)
NoGroup == [lo |-> 0, hi |-> -1, R |-> {}]
GRC(cx, call) == LET GG == GroupForC(cx, N(call)) IN IF GG = {} THEN NoGroup ELSE CHOOSE x \in GG : TRUE
\* the remaps of the group that the self object may use, and the parameter positions the call fills
Pos(T, call, j) == 1..Min2(N(call), Len(T[j].p))

DevClassesC(T, call, cx) ==
  LET g == GRC(cx, call)
      mode == ModeOf(T, g)
      R == {j \in g.R : SelfOK(T[j], call.self)}
      IntAt(j, i) == call.a[i].t = "int" /\ T[j].p[i] \in IntCats
      v(i) == call.a[i].v
  IN
  \* the value does not fit a C long: PyLong_AsLong fails, the wrapped function still runs with -1
  (IF "int-error-ignored" \notin Fixed /\ mode = "single" /\ \E j \in R : \E i \in Pos(T, call, j) :
        IntAt(j, i) /\ ( (T[j].p[i] \in {"i8", "i16", "i32", "il"} /\ ~InLong(v(i)))
                        \/ (T[j].p[i] = "ul" /\ ~InULong(v(i))) )
     THEN {"C02-int-error-ignored"} ELSE {})
  \cup
  \* format codes k / K mask instead of checking: an out-of-range value arrives wrapped
  (IF \E j \in R : \E i \in Pos(T, call, j) :
        IntAt(j, i) /\ ( (mode = "var" /\ T[j].p[i] \in {"ul", "u64"} /\ ~InULong(v(i)))
                        \/ (mode = "var" /\ T[j].p[i] = "u32" /\ v(i) = 27)
                        \/ (mode = "single" /\ T[j].p[i] = "u64" /\ ~InULong(v(i))) )
     THEN {"C02-unsigned-wraps"} ELSE {})
  \cup
  \* format code s# takes any read-only buffer: bytes pass as std::string unless the function is unary
  (IF "bytes-as-str" \notin Fixed /\ mode = "var" /\ \E j \in R : \E i \in Pos(T, call, j) :
        call.a[i].t = "bytes" /\ T[j].p[i] = "str"
     THEN {"C02-bytes-accepted-as-string"} ELSE {})
  \cup
  \* an OverflowError raised while parsing one overload is cleared when there are several
  (IF "ovf-cleared" \notin Fixed /\ Cardinality(g.R) > 1 /\ \E j \in R : \E i \in Pos(T, call, j) :
        IntAt(j, i) /\ P1(T[j].p[i], call.a[i], mode) = "failovf"
     THEN {"C02-overflow-cleared"} ELSE {})
  \cup
  \* a Python bool is a number: an integer / floating overload is tried before the bool overload
  (IF \E j1, j2 \in R : \E i \in Pos(T, call, j1) \cap Pos(T, call, j2) :
        call.a[i].t = "bool" /\ T[j1].p[i] \in IntCats \cup FloatCats /\ T[j2].p[i] = "bool"
     THEN {"C02-bool-takes-number-overload"} ELSE {})
  \cup
  \* non-const methods are tried before const ones, and a bool parameter takes any object: on a
  \* non-const object a non-const f(bool) shadows every const overload
  (IF call.self = "nc" /\ \E j1, j2 \in R : \E i \in Pos(T, call, j1) :
        ~T[j1].k /\ T[j2].k /\ T[j1].p[i] = "bool" /\ call.a[i].t # "bool"
     THEN {"C02-bool-shadows-const-overloads"} ELSE {})
  \cup
  \* the overloads serving a count are sorted by their number of parameters first: a longer
  \* overload (the rest defaulted) that can take the arguments at all (by a Python conversion such
  \* as int -> float or anything -> bool, or by a derived-to-base conversion) runs although a
  \* shorter overload matches them better
  (IF \E j1, j2 \in R : Len(T[j1].p) > Len(T[j2].p)
                        /\ \A i \in Pos(T, call, j1) : PyAccept(call.a[i], T[j1].p[i])
     THEN {"C02-longer-overload-first"} ELSE {})
  \cup
  \* the sort order is not the C++ ranking: an overload that takes every argument, one of them only
  \* through a Python conversion (any object -> bool, int -> float, bool -> int), can precede the
  \* overload whose parameter types correspond (it sorts first on const-ness, on its number of
  \* parameters or on an earlier parameter)
  (IF \E j1, j2 \in R : j1 # j2 /\ j2 \in CorrCands(T, call)
        /\ (\A i \in Pos(T, call, j1) : PyAccept(call.a[i], T[j1].p[i]))
        /\ (\E i \in Pos(T, call, j1) : ~Corr(call.a[i], T[j1].p[i]))
     THEN {"C02-convertible-overload-first"} ELSE {})
  \cup
  \* range checks run before the instance pointers are checked: the OverflowError of an overload
  \* that does not match on an instance parameter pre-empts the overload that matches
  (IF \E j \in R : \E i, i2 \in Pos(T, call, j) :
        IntAt(j, i) /\ P2(T[j].p[i], call.a[i], mode) = "raise"
        /\ T[j].p[i2] \in InstCats /\ ~Corr(call.a[i2], T[j].p[i2])
     THEN {"C02-range-check-before-instance-check"} ELSE {})
  \cup
  \* overloads that need a converting constructor are tried in sort order in the second pass: one that
  \* converts an argument which another overload takes as it is can run first
  (IF \E j1, j2 \in R : \E i \in Pos(T, call, j1) \cap Pos(T, call, j2) :
        /\ j1 # j2 /\ j2 \in CorrCands(T, call)
        /\ T[j1].p[i] \in CoCats /\ InstOf(call.a[i]) = "" /\ MechCoerce(CoClass(T[j1].p[i]), call.a[i]) # "fail"
        /\ T[j2].p[i] \notin CoCats
     THEN {"C02-coercing-overload-first"} ELSE {})
  \cup
  \* a pointer parameter K * is coerced like a reference: a temporary K is built from a value that
  \* C++ would never convert to a pointer
  (IF \E j \in R : \E i \in Pos(T, call, j) :
        IsPtr(T[j].p[i]) /\ InstOf(call.a[i]) = "" /\ MechCoerce(CoClass(T[j].p[i]), call.a[i]) # "fail"
     THEN {"C02-pointer-parameter-coerced"} ELSE {})
  \cup
  \* a remap without parameters inside a range of counts runs whatever arguments were passed
  (IF "extra-args" \notin Fixed /\ N(call) > 0 /\ g.lo < g.hi /\ \E j \in R : Len(T[j].p) = 0
     THEN {"C02-extra-arguments-ignored"} ELSE {})

DevC(T, call, cx) == LET nc == Norm(T, call) IN IF nc.st # "ok" THEN {} ELSE DevClassesC(T, nc, cx)
Dev(T, call) == DevC(T, call, SetCtx(T))

Agree(m, e) ==
  CASE e.k = "run" -> m.k = "run" /\ m.j = e.j
    [] e.k = "OverflowError" -> m.k = "OverflowError"
    [] e.k = "TypeError" -> m.k = "TypeError"
    [] e.k = "TypeOrOverflow" -> m.k \in {"TypeError", "OverflowError"}
    [] OTHER -> TRUE

Refines ==
  done /\ InDomain =>
    LET cx == SetCtx(S) IN
    \A call \in Calls(S, kind) :
       LET e == Expected(S, call) IN
       e.k # "none" /\ DevC(S, call, cx) = {} => \A m \in PyResultsC(S, call, cx) : Agree(m, e)

\* both in one pass over the calls (what the registered configurations check)
RefinesAndTies ==
  done /\ InDomain =>
    LET cx == SetCtx(S) IN
    \A call \in Calls(S, kind) :
       LET e == Expected(S, call)
           rs == PyResultsC(S, call, cx) IN
       /\ Cardinality(rs) = 1
       /\ (e.k # "none" /\ DevC(S, call, cx) = {} => \A m \in rs : Agree(m, e))

\* inside the domain ties of the sort order never change the outcome
TiesHarmless ==
  done /\ InDomain =>
    LET cx == SetCtx(S) IN \A call \in Calls(S, kind) : Cardinality(PyResultsC(S, call, cx)) = 1
=============================================================================
