---------------------------- MODULE TemplInstMC -----------------------------
EXTENDS TemplInst, Json, CSV, IOUtils, Randomization
CONSTANT Size                 \* "S" (quick) or "L" (thorough)

Bs(n) == <<"b", n>>
Pm(i) == <<"p", i>>
Wrap1(S) == S \cup {<<k, a>> : k \in {"ptr", "ref", "c"}, a \in S}

BArgs == IF Size \in {"S", "M"} THEN {Pm(1), Pm(2), <<"ref", Pm(1)>>, <<"ptr", Pm(1)>>}
         ELSE {Pm(1), Pm(2), <<"ref", Pm(1)>>, <<"ptr", Pm(1)>>, <<"c", Pm(1)>>, <<"ptr", Pm(2)>>, Bs("int")}
BTids == {<<"t", "P", <<x, y>>>> : x \in BArgs, y \in BArgs} \cup {<<"t", "P", <<x>>>> : x \in BArgs}
         \cup {<<"t", T, <<x>>>> : T \in {"Q", "R"}, x \in BArgs}
BProj == {<<"m", t, s>> : t \in BTids, s \in Slots} \cup {<<"own", "m1">>}
BProj2 == IF Size \in {"S", "M"} THEN {} ELSE {<<"m", <<"m", t, s>>, "m1">> : t \in {x \in BTids : x[2] = "Q"}, s \in Slots}
\* the traits idiom (typename A::t) and the injected class name
BTraits == {<<"m", Pm(1), "t">>, <<"m", Pm(2), "t">>, <<"ptr", <<"m", Pm(1), "t">>>>, <<"self">>, <<"ptr", <<"self">>>>}
           \cup {<<"t", T, <<<<"m", Pm(1), "t">>>>>> : T \in {"Q", "R"}}
MCBodyTerms ==
  Wrap1({Pm(1), Pm(2)}) \cup {Bs("int")} \cup BTids \cup BProj \cup BProj2 \cup BTraits
  \cup {<<k, p>> : k \in (IF Size \in {"S", "M"} THEN {"ptr"} ELSE {"ptr", "ref", "c"}), p \in BProj}
MCDfltTerms == Wrap1({Pm(1)}) \cup {Bs("char"), <<"t", "P", <<Pm(1), Pm(1)>>>>, <<"t", "Q", <<Pm(1)>>>>}

\* targets of the alias template: a wrapped parameter, a template-id, a projection
MCAliasTerms == Wrap1({Pm(1)}) \cup {<<"m", Pm(1), "t">>} \cup {t \in BTids : Params(t) \subseteq {1}}
                \cup {<<"m", t, s>> : t \in {x \in BTids : Params(x) = {1}}, s \in Slots}

G == IF Size = "S" THEN {Bs("int"), <<"ref", Bs("char")>>, Bs("KB")}
     ELSE IF Size = "M" THEN {Bs("int"), <<"ref", Bs("char")>>, <<"ptr", Bs("char")>>, Bs("KB"), Bs("K2")}
     ELSE {Bs("K1"), Bs("K2"), Bs("KA"), Bs("CK"), <<"ptr", Bs("KB")>>, Bs("int"), <<"ref", Bs("char")>>, <<"ptr", Bs("char")>>, <<"c", Bs("int")>>, <<"ref", <<"c", Bs("int")>>>>}
Roots == {<<"t", "P", <<x, y>>>> : x \in G, y \in G} \cup {<<"t", T, <<x>>>> : T \in Tmpl \cup {"V"}, x \in G}
Q1 == {<<"m", t, s>> : t \in Roots, s \in Slots}
Q2 == {<<"m", t, s>> : t \in Q1, s \in Slots}
Q3 == {<<"m", t, s>> : t \in Q2, s \in Slots}
QV == {t \in Roots : t[2] = "V"}       \* an alias template-id by itself is a query, too
MCQueryTerms == QV \cup Q1 \cup Q2 \cup (IF Size = "S" THEN {} ELSE Q3) \cup (IF Size \in {"S", "M"} THEN {} ELSE {<<k, q>> : k \in {"ptr", "ref", "c"}, q \in Q1})

\* simulation over the large alphabets: draw a few candidates per step instead of enumerating every successor
SimNext == \/ \E d \in RandomSubset(2, MCDfltTerms) : SetDefault(d)
           \/ \E T \in Tmpl, s \in Slots, b \in RandomSubset(40, MCBodyTerms) : AddMember(T, s, b)
           \/ \E b \in RandomSubset(6, MCAliasTerms) : SetAlias(b)
           \/ \E q \in RandomSubset(60, MCQueryTerms) \cup RandomSubset(500, Q2 \cup Q3) : Ask(q)
SimSpec == Init /\ [][SimNext]_vars

DumpFile == IF "VERIF_DUMP" \in DOMAIN IOEnv THEN IOEnv.VERIF_DUMP ELSE ""
DumpConstraint ==
  IF DumpFile # "" /\ query # NONE
    THEN CSVWrite("%1$s", <<ToJson([dflt |-> dflt, defs |-> defs, alias |-> alias, q |-> query, r |-> Result])>>, DumpFile)
    ELSE TRUE
=============================================================================
