SPECIFICATION Spec
CONSTANTS
  MaxLines = 7
  MaxHdr = 4
  MaxCond = 1
  Hdrs = {"h1"}
  Names = {"M"}
  Kinds = {"text", "def", "undef", "ifndef", "endif", "inc"}
  Payloads = {"M"}
  DefVals = {"1"}
  Conds = {"V"}
  Shapes = {"p"}
  LineK = 3
  MinDump = 6
INVARIANT TypeOK
INVARIANT IncludeDepth
INVARIANT CondClosedAtEOF
INVARIANT AtMostOneGroup
INVARIANT SuspendedFramesActive
INVARIANT OnceContributesOnce
INVARIANT OutSound
PROPERTY SkippedNoEffect
PROPERTY LineNumbersIncrease
CONSTRAINT DumpConstraint
CHECK_DEADLOCK FALSE
