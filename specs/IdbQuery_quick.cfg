SPECIFICATION Spec
CONSTANTS
  MaxN = 6
  MaxKey = 6
  MaxMods = 3
  FixShort = TRUE
  FixMid = TRUE
  Tasks = {"uniq", "fptr"}
  DbInputs <- MCDbInputs
  StageInputs <- MCStageInputs
  FirstInputs <- MCFirstInputs
INVARIANT NoAbort
INVARIANT StepBound
INVARIANT UniqExact
INVARIANT FptrExact
PROPERTY Terminates
CONSTRAINT DumpConstraint
CHECK_DEADLOCK FALSE
