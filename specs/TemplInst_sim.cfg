SPECIFICATION SimSpec
CONSTANTS
  MaxDefs = 4
  MinDefs = 3
  Size = "L"
  BodyTerms <- MCBodyTerms
  DfltTerms <- MCDfltTerms
  AliasTerms <- MCAliasTerms
  QueryTerms <- MCQueryTerms
INVARIANT ResultGround
INVARIANT Idempotent
INVARIANT Confluent
INVARIANT SubstLemma
CONSTRAINT DumpConstraint
CHECK_DEADLOCK FALSE
