SPECIFICATION Spec
CONSTANTS
  MaxLen = 7
  MaxDepth = 3
  Conds = {"T", "F"}
  Kinds = {"if", "elif", "ifdef", "else", "endif", "text", "noise"}
  MinDump = 7
INVARIANT Refines
INVARIANT ClosedNormal
INVARIANT AtMostOneGroup
INVARIANT LevelBound
CONSTRAINT DumpConstraint
CHECK_DEADLOCK FALSE
