SPECIFICATION MCSpec
CONSTANTS
  FunctionLoopFiltersModule = TRUE
  MinN = 1
  MaxN = 4
INVARIANT KeysAreContributors
INVARIANT Once
INVARIANT BasesFirst
INVARIANT ReportIffCyclic
INVARIANT NoBreakIfAcyclic
INVARIANT BrokenAreOnCycles
INVARIANT CyclesAreCycles
INVARIANT Bounded
PROPERTY Terminates
CONSTRAINT DumpConstraint
CHECK_DEADLOCK FALSE
