---------------------------- MODULE NameLookupMC ----------------------------
EXTENDS NameLookup, Json, CSV, IOUtils
DumpFile == IF "VERIF_DUMP" \in DOMAIN IOEnv THEN IOEnv.VERIF_DUMP ELSE ""
DumpConstraint ==
  IF DumpFile # "" /\ ref # <<>>
    THEN CSVWrite("%1$s", <<ToJson([items |-> items, rs |-> ref[1], sp |-> ref[2], r |-> Result, ud |-> DependsOnUDecl, up |-> DependsOnUDirPlace])>>, DumpFile)
    ELSE TRUE
=============================================================================
