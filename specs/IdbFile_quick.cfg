SPECIFICATION Spec
CONSTANTS
  MaxRecs = 2
  Strs = {1, 2, 3, 4, 5, 6, 7, 8, 11, 12, 13, 14, 15}
  HdrStrs = {4}
  CutStrs = {3}
  CutRecs = 1
  PreKinds = {"none", "base"}
  Layouts = {"gaps", "canon"}
  LongStrs = {11, 12, 13, 14, 15}
  MultiPre = {"base"}
  MultiLayouts = {"gaps"}
  MultiStrs = {3, 4, 7}
INVARIANT GeneratedWellFormed
INVARIANT ReadInvertsWrite
INVARIANT CanonIdentity
INVARIANT NeverHalfMerged
INVARIANT LoadedWhole
INVARIANT ErrorMergesNothing
INVARIANT TruncationFlagged
INVARIANT VersionFlagged
INVARIANT IdentifierFlagged
INVARIANT StaleModuleFlagged
INVARIANT GoodLoads
INVARIANT ReaderBounded
INVARIANT StepsMatchFunction
INVARIANT FunctionRejectsWhatStepsReject
CONSTRAINT DumpConstraint
CHECK_DEADLOCK FALSE
