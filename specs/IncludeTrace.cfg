SPECIFICATION TSpec
CONSTANTS
  EmptyAnglePathIsCwd = FALSE
  ExplicitByCanonical = TRUE
  KeyByCanonical = TRUE
  MaxIncludes = 1000
INVARIANT Refines
INVARIANT OnceOnly
CHECK_DEADLOCK TRUE
