SPECIFICATION TSpec
CONSTANTS
  EmptyAnglePathIsCwd = FALSE
  ExplicitByCanonical = TRUE
  KeyByCanonical = TRUE
  LookupCanonical = TRUE
  PromoteSystemHits = TRUE
  IncluderDirResolved = TRUE
  OptDirsPhysical = TRUE
  MaxIncludes = 1000
INVARIANT Refines
INVARIANT OnceOnly
INVARIANT OwnRefines
INVARIANT ChainRefines
CHECK_DEADLOCK TRUE
