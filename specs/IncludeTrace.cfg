SPECIFICATION TSpec
CONSTANTS
  EmptyAnglePathIsCwd = FALSE
  ExplicitByCanonical = TRUE
  KeyByCanonical = TRUE
  LookupCanonical = TRUE
  MaxIncludes = 1000
INVARIANT Refines
INVARIANT OnceOnly
INVARIANT OwnRefines
CHECK_DEADLOCK TRUE
