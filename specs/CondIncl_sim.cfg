SPECIFICATION Spec
CONSTANTS
  MaxLen = 14
  MaxDepth = 4
  Conds = {"T", "F", "D", "N", "V", "U", "R", "H", "J"}
  Kinds = {"if", "elif", "ifdef", "ifndef", "elifdef", "elifndef", "else", "endif", "text", "def0", "def1", "undef", "warn", "err", "inc", "inc2", "push", "pop", "noise"}
  MinDump = 9
INVARIANT Refines
INVARIANT ClosedNormal
INVARIANT AtMostOneGroup
INVARIANT LevelBound
CONSTRAINT DumpConstraint
CHECK_DEADLOCK FALSE
