SPECIFICATION Spec
CONSTANTS
  Leaves <- LvQuick
  ULeaves = {}
  Bigs = {}
  UnOps = {"+", "-", "~", "!"}
  Casts = {"int", "bool", "char"}
  BinOps = {"*", "/", "%", "+", "-", "<<", ">>", "<", ">", "<=", ">=", "==", "!=", "&", "^", "|", "&&", "||"}
  UseCond = TRUE
  MaxTok = 5
  MaxDepth = 2
INVARIANT EvalTotal
INVARIANT DivModLaw
INVARIANT ShiftLaw
INVARIANT BitLaw
INVARIANT BoolLaw
INVARIANT AddLaw
INVARIANT TypeLaw
INVARIANT RenderLaw
CONSTRAINT DumpConstraint
CHECK_DEADLOCK FALSE
