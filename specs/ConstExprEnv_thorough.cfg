SPECIFICATION Spec
CONSTANTS
  Lits <- Lits2
  Ops = {"+", "*"}
  Forms = {"lit", "ref", "neg", "rl", "lr", "rr", "cc"}
  OpenKinds = {"open", "openC", "openU", "openCS"}
  Kinds = {"enumE", "enumI", "const", "constexpr", "macroP", "macroB", "array"}
  TTypes = {}
  TInits = {}
  MaxT = 0
  MaxDecls = 3
  MaxEnums = 1
INVARIANT ImplicitOK
INVARIANT PrimaryOK
INVARIANT SpliceOK
INVARIANT NestingOK
INVARIANT MuOK
INVARIANT RangeOK
INVARIANT TConstOK
CONSTRAINT DumpConstraint
CHECK_DEADLOCK FALSE
