----------------------------- MODULE WrapCScope -----------------------------
(***************************************************************************)
(* C01, widened: handle-style wrappers of functions whose types live in    *)
(* SCOPES (namespaces, nested classes, nested / namespace enumerations,    *)
(* two classes with the same simple name), with 4..6 parameters and up to  *)
(* three trailing DEFAULTS of every form (negative literals, expressions   *)
(* such as 1 << 3, enumerators, string literals, nullptr), and CASTS along *)
(* multiple inheritance whose second base sits at a non-zero offset and    *)
(* along a virtual base.                                                   *)
(*                                                                         *)
(* The class world of every library (the renderer gives each family its    *)
(* own copy, suffix _F on the top-level names):                            *)
(*    AP  = na::P          BP = nb::P       (same simple name)             *)
(*    API = na::P::Inner   O  = Outer       OI = Outer::Inner              *)
(*    L   (global)         R  = nb::R                                      *)
(*    D : L, nb::R   (the R part at a non-zero offset)    V : virtual L    *)
(*    eA = na::Mode, eB = nb::Mode (same enumerator NAMES, other values),  *)
(*    eO = Outer::Mode, eL = na::P::Lvl  (nested in a class)               *)
(* A kind is a record [k, c]: k a kind of CppLibCalls (c = "-"), or        *)
(* "senum" with c the enumeration, or an object kind with c the class.     *)
(* The behaviour is the test, as in WrapC: the library is declared one     *)
(* signature per step, one object of every class is constructed, then      *)
(* every wrapper VARIANT (sig, k omitted defaults) is called Rounds times  *)
(* along a covering diagonal of boundary values / objects (a derived       *)
(* object wherever a base is expected), then D and V are viewed through    *)
(* each base.  The state carries the heap of the reference semantics; the  *)
(* script records, for every step, the value the wrapper must return and   *)
(* the state <<st, rst>> every object must show afterwards.                *)
(***************************************************************************)
EXTENDS CppLibCalls, SequencesExt

CONSTANTS
  SigChoices(_),   \* SigChoices(lib): signatures that may be declared next
  LibSize,         \* signatures per library
  Rounds,          \* calls per wrapper variant
  MaxHeap          \* objects ever created per behaviour

VARIABLES lib, heap, script, phase, plan, pc
vars == <<lib, heap, script, phase, plan, pc>>

---------------------------------------------------------------------------
(* Classes, enumerations, kinds *)
SClsSeq == <<"AP", "BP", "API", "O", "OI", "L", "R", "D", "V">>
SClasses == {SClsSeq[i] : i \in 1..Len(SClsSeq)}
SClsIdx(c) == CHOOSE i \in 1..Len(SClsSeq) : SClsSeq[i] = c
SBases(c) == CASE c = "D" -> {"L", "R"} [] c = "V" -> {"L"} [] OTHER -> {}
SDerives(c, b) == c = b \/ b \in SBases(c)
VirtualBase(c, b) == c = "V" /\ b = "L"
HasSt(c) == c # "R"
HasRst(c) == c \in {"R", "D"}
ValClasses == SClasses \ {"D", "V"}          \* classes passed / returned by value

SEnums == {"eA", "eB", "eO", "eL"}
SEnumVals(e) == CASE e = "eA" -> <<0, 4, 9>> [] e = "eB" -> <<1, 2, 300>> [] e = "eO" -> <<0, 3, -7>> [] e = "eL" -> <<0, 9>>

K(k) == [k |-> k, c |-> "-"]
SE(e) == [k |-> "senum", c |-> e]
OP(c) == [k |-> "objPtr", c |-> c]
OR(c) == [k |-> "objRef", c |-> c]
OV(c) == [k |-> "objVal", c |-> c]
OC(c) == [k |-> "constObjRef", c |-> c]
SScalars == ScalarKinds \ {"enumC", "enumLL"}
IsObj(kd) == kd.k \in ObjKinds
WFKind(kd) ==
  CASE kd.k = "senum" -> kd.c \in SEnums
    [] kd.k = "objVal" -> kd.c \in ValClasses
    [] kd.k \in ObjKinds -> kd.c \in SClasses
    [] OTHER -> kd.k \in SScalars /\ kd.c = "-"

\* what a holder of a `c *` sees of an object
PartState(c, obj) == CASE c = "R" -> obj.rst [] c = "D" -> (obj.st + 7 * obj.rst) % StMod [] OTHER -> obj.st

(* declared default of a defaultable parameter at position i: every form the C++ grammar of a default
   argument offers (the renderer has the text; g++ evaluates it in the native run) *)
SDefaultable(kd) == kd.k \in SScalars \cup {"senum", "objPtr"}
SDefVal(kd, i) ==
  CASE kd.k = "i32" -> (CASE i % 3 = 0 -> 8                      \* 1 << 3
                          [] i % 3 = 1 -> -70000 - i             \* a negative literal
                          [] OTHER -> (2 + i) * 4)               \* a parenthesised expression
    [] kd.k = "senum" -> SEnumVals(kd.c)[2]                      \* an enumerator, written with or without its scope
    [] kd.k \in StrKinds -> IF i % 2 = 0 THEN Str(3) ELSE Str(1)     \* a string literal (with escapes)
    [] kd.k = "objPtr" -> 0                                      \* nullptr
    [] OTHER -> DefVal(kd.k, i)

---------------------------------------------------------------------------
(* Signatures: [id, fk, cls, name, ret, ps, nd]; cls = "-" for a function at global scope; name = 0: a name
   of its own, n > 0: the shared simple name tw<n> *)
SFks == {"free", "method", "cmethod", "static", "ctor"}
SBaseCtor(c) == [id |-> SClsIdx(c), fk |-> "ctor", cls |-> c, name |-> 0, ret |-> K("void"), ps |-> <<K("i32")>>, nd |-> 0]
RECURSIVE STrailing(_)
STrailing(ps) == IF ps = <<>> \/ ~SDefaultable(ps[Len(ps)]) THEN 0 ELSE 1 + STrailing(SubSeq(ps, 1, Len(ps) - 1))

RefKinds(retk) == IF retk = "constObjRef" THEN {"objPtr", "objRef", "constObjRef"} ELSE {"objPtr", "objRef"}
\* objects a returned `C *` / `C &` may designate: *this and pointer / reference parameters whose class is C or
\* derives from it (the C++ body converts implicitly: for D -> R that adjusts the pointer)
SThisIsCand(s) == HasThis(s) /\ IsObj(s.ret) /\ SDerives(s.cls, s.ret.c) /\ (s.ret.k = "constObjRef" \/ ~ConstThis(s))
SCandParams(s) == {i \in 1..NP(s) : s.ps[i].k \in RefKinds(s.ret.k) /\ SDerives(s.ps[i].c, s.ret.c)}
\* ... of which these can never be null
SSureCands(s) == {i \in SCandParams(s) : s.ps[i].k # "objPtr"}

SWellFormed(s) ==
  /\ s.fk \in SFks /\ s.id > 9 /\ s.id < 1000000
  /\ (s.fk = "free") = (s.cls = "-") /\ s.cls \in SClasses \cup {"-"}
  /\ NP(s) <= 6 /\ s.nd \in 0..3 /\ s.nd <= STrailing(s.ps)
  /\ \A i \in 1..NP(s) : WFKind(s.ps[i])
  /\ ((s.ret.k = "void" /\ s.ret.c = "-") \/ WFKind(s.ret))
  \* the header defines Outer before na::P: the members of Outer / Outer::Inner cannot name what is nested in na::P
  /\ (s.cls \in {"O", "OI"} => \A i \in 1..NP(s) : s.ps[i].c \notin {"API", "eL"}) /\ (s.cls \in {"O", "OI"} => s.ret.c \notin {"API", "eL"})
  \* a declared constructor never meets C(int) or a copy constructor
  /\ (s.fk = "ctor" => s.ret = K("void") /\ NP(s) - s.nd >= 2)
  \* a returned reference always has something to designate, a returned pointer may
  /\ (s.ret.k \in {"objRef", "constObjRef"} => SThisIsCand(s) \/ SSureCands(s) # {})
  /\ (s.ret.k = "objPtr" => SThisIsCand(s) \/ SCandParams(s) # {})

SCallType(kd) == IF kd.k \in {"objRef", "objVal", "constObjRef"} THEN [k |-> "obj", c |-> kd.c] ELSE kd
SCallSigs(s) == {[i \in 1..(NP(s) - k) |-> SCallType(s.ps[i])] : k \in 0..s.nd}
SSameName(a, b) == a.cls = b.cls /\ ((a.fk = "ctor" /\ b.fk = "ctor") \/ (a.fk # "ctor" /\ b.fk # "ctor" /\ a.name # 0 /\ a.name = b.name))
SCompatible(a, b) == SSameName(a, b) => SCallSigs(a) \cap SCallSigs(b) = {} /\ a.fk = b.fk
SHeaderOK(l) ==
  /\ \A a \in l : SWellFormed(a)
  /\ \A a \in l : \A b \in l : a # b => SCompatible(a, b) /\ a.id # b.id
  /\ \A a \in l : a.fk = "ctor" => SCompatible(a, SBaseCtor(a.cls))

SVariants(s) == {[sig |-> s, k |-> k] : k \in 0..s.nd}
SEffArgs(s, args) == [i \in 1..NP(s) |-> IF i <= Len(args) THEN args[i] ELSE SDefVal(s.ps[i], i)]

---------------------------------------------------------------------------
(* Sem *)
HMod == 9973
Primes6 == <<101, 211, 307, 401, 503, 601>>
SH(kd, v, h) ==
  (CASE kd.k = "senum" -> H32(v)
     [] kd.k \in ObjKinds -> (IF v = 0 THEN 40000 ELSE PartState(kd.c, h[v]))
     [] OTHER -> H(kd.k, v, <<>>)) % HMod
RECURSIVE SArgSum(_, _, _, _)
SArgSum(ps, args, h, i) == IF i > Len(ps) THEN 0 ELSE Primes6[i] * SH(ps[i], args[i], h) + SArgSum(ps, args, h, i + 1)
RECURSIVE SWSum(_, _, _, _)
SWSum(ps, args, h, i) == IF i > Len(ps) THEN 0 ELSE (SH(ps[i], args[i], h) % 7) + SWSum(ps, args, h, i + 1)
SMix(s, ts, args, h) == s.id + 17 * ts + SArgSum(s.ps, args, h, 1)           \* < 2^26
SWeight(s, args, h) == 1 + SWSum(s.ps, args, h, 1)

SBump(c, obj, w) ==
  CASE c = "R" -> [obj EXCEPT !.rst = (@ + w) % StMod]
    [] c = "D" -> [obj EXCEPT !.st = (@ + w) % StMod, !.rst = (@ + 1) % StMod]
    [] OTHER -> [obj EXCEPT !.st = (@ + w) % StMod]
\* non-const object arguments are modified through the pointer / reference: the part their class names
RECURSIVE STouch(_, _, _, _)
STouch(ps, args, h, i) ==
  IF i > Len(ps) THEN h
  ELSE IF ps[i].k \in {"objPtr", "objRef"} /\ args[i] # 0
       THEN STouch(ps, args, [h EXCEPT ![args[i]] = IF ps[i].c = "R" THEN [@ EXCEPT !.rst = (@ + 3) % StMod]
                                                                    ELSE [@ EXCEPT !.st = (@ + 3) % StMod]], i + 1)
       ELSE STouch(ps, args, h, i + 1)
SNewObj(c, m) == [cls |-> c, live |-> TRUE, st |-> IF HasSt(c) THEN m % StMod ELSE 0,
                  rst |-> IF HasRst(c) THEN (m \div 7) % StMod ELSE 0]

SCandSeq(s, o, args) ==
  (IF SThisIsCand(s) THEN <<o>> ELSE <<>>) \o
  [j \in 1..Cardinality(SCandParams(s)) |->
      args[CHOOSE i \in SCandParams(s) : Cardinality({x \in SCandParams(s) : x < i}) = j - 1]]

SEncode(kd, m, cs) ==
  CASE kd.k = "senum" -> SEnumVals(kd.c)[(m % Len(SEnumVals(kd.c))) + 1]
    [] kd.k = "objPtr" -> IF m % 5 = 0 \/ cs = <<>> THEN 0 ELSE cs[(m % Len(cs)) + 1]
    [] kd.k \in {"objRef", "constObjRef"} -> cs[(m % Len(cs)) + 1]
    [] kd.k = "objVal" -> m % StMod
    [] OTHER -> Encode(kd.k, m, <<>>)

SSem(s, o, args, h) ==
  LET ts == IF HasThis(s) THEN PartState(s.cls, h[o]) ELSE 0
      m  == SMix(s, ts, args, h)
      w  == SWeight(s, args, h)
      cs == NonNull(SCandSeq(s, o, args))
      h1 == IF HasThis(s) /\ ~ConstThis(s) THEN [h EXCEPT ![o] = SBump(s.cls, @, w)] ELSE h
  IN [m |-> m, ret |-> SEncode(s.ret, m, cs), heap |-> STouch(s.ps, args, h1, 1)]
SSemDefined(s, o, args) == s.ret.k \in {"objRef", "constObjRef"} => NonNull(SCandSeq(s, o, args)) # <<>>

---------------------------------------------------------------------------
NObj == Len(heap)
PostOf(h) == [o \in 1..Len(h) |-> <<h[o].st, h[o].rst>>]
Creates(s) == s.fk = "ctor" \/ s.ret.k = "objVal"

Init == lib = {} /\ heap = <<>> /\ script = <<>> /\ phase = "decl" /\ plan = <<>> /\ pc = 1

Declare ==
  /\ phase = "decl" /\ Cardinality(lib) < LibSize
  /\ \E s \in SigChoices(lib) :
       /\ s \notin lib /\ SHeaderOK(lib \cup {s})          \* else the header is ill-formed and is not generated
       /\ lib' = lib \cup {s}
  /\ UNCHANGED <<heap, script, phase, plan, pc>>

StartBuild ==
  /\ phase = "decl" /\ Cardinality(lib) = LibSize
  /\ phase' = "build" /\ UNCHANGED <<lib, heap, script, plan, pc>>

\* one object of every class, through the constructor C(int) every class has
Construct ==
  /\ phase = "build" /\ NObj < Len(SClsSeq)
  /\ LET c == SClsSeq[NObj + 1]
         a == <<100 + 11 * (NObj + 1)>>
         h == Append(heap, SNewObj(c, SMix(SBaseCtor(c), 0, a, heap)))
     IN /\ heap' = h
        /\ script' = Append(script, [op |-> "new", obj |-> NObj + 1, cls |-> c, sid |-> 0, k |-> 0, args |-> a, post |-> PostOf(h)])
  /\ UNCHANGED <<lib, phase, plan, pc>>

\* the calls to make: round by round, every variant of every signature (in the order of the ids)
RECURSIVE PlanOf(_)
PlanOf(q) == IF q = <<>> THEN <<>>
             ELSE [i \in 1..((Head(q).nd + 1) * Rounds) |->
                      [sig |-> Head(q), k |-> (i - 1) % (Head(q).nd + 1), r |-> ((i - 1) \div (Head(q).nd + 1)) + 1]] \o PlanOf(Tail(q))
StartRun ==
  /\ phase = "build" /\ NObj = Len(SClsSeq)
  /\ phase' = "run" /\ plan' = PlanOf(SetToSortSeq(lib, LAMBDA a, b : a.id < b.id)) /\ pc' = 1
  /\ UNCHANGED <<lib, heap, script>>

LiveOf(c) == SelectSeq([o \in 1..NObj |-> o], LAMBDA o : SDerives(heap[o].cls, c))
SDom(kd) == CASE kd.k = "senum" -> SEnumVals(kd.c)
              [] kd.k = "objPtr" -> LiveOf(kd.c) \o <<0>>
              [] kd.k \in ObjKinds -> LiveOf(kd.c)
              [] OTHER -> Bnd(kd.k)
\* the covering diagonal: in round r position j takes value r + 2(j-1) + k of its domain, `this` object r
PickThis(s, r) == IF HasThis(s) THEN LET ts == LiveOf(s.cls) IN ts[((r - 1) % Len(ts)) + 1] ELSE 0
PickArgs(s, k, r) == [j \in 1..(NP(s) - k) |-> LET d == SDom(s.ps[j]) IN d[((r - 1 + 2 * (j - 1) + k) % Len(d)) + 1]]

Call ==
  /\ phase = "run" /\ pc <= Len(plan)
  /\ LET e == plan[pc]
         s == e.sig
         o == PickThis(s, e.r)
         args == PickArgs(s, e.k, e.r)
         ea == SEffArgs(s, args)
     IN IF (Creates(s) /\ NObj >= MaxHeap) \/ ~SSemDefined(s, o, ea)
          THEN UNCHANGED <<heap, script>>                  \* not a call of this behaviour
        ELSE IF s.fk = "ctor"
          THEN LET h == STouch(s.ps, ea, Append(heap, SNewObj(s.cls, SMix(s, 0, ea, heap))), 1)
               IN /\ heap' = h
                  /\ script' = Append(script, [op |-> "new", obj |-> NObj + 1, cls |-> s.cls, sid |-> s.id, k |-> e.k,
                                               args |-> args, post |-> PostOf(h)])
        ELSE LET r == SSem(s, o, ea, heap)
                 h == IF s.ret.k = "objVal" THEN Append(r.heap, SNewObj(s.ret.c, r.ret)) ELSE r.heap
             IN /\ heap' = h
                /\ script' = Append(script, [op |-> "call", sid |-> s.id, k |-> e.k, this |-> o, args |-> args,
                                             ret |-> IF s.ret.k = "objVal" THEN NObj + 1 ELSE r.ret, post |-> PostOf(h)])
  /\ pc' = pc + 1
  /\ UNCHANGED <<lib, phase, plan>>

\* view D and V through each base: the upcast handle must show the base's part; a downcast is offered
\* unless the base is virtual
CastSeq == <<<<8, "L">>, <<8, "R">>, <<9, "L">>>>
StartCast == phase = "run" /\ pc > Len(plan) /\ phase' = "cast" /\ pc' = 1 /\ UNCHANGED <<lib, heap, script, plan>>
Cast ==
  /\ phase = "cast" /\ pc <= Len(CastSeq)
  /\ LET o == CastSeq[pc][1]
         b == CastSeq[pc][2]
     IN script' = Append(script, [op |-> "upcast", obj |-> o, to |-> b, exp |-> PartState(b, heap[o]),
                                  down |-> ~VirtualBase(heap[o].cls, b), post |-> PostOf(heap)])
  /\ pc' = pc + 1
  /\ UNCHANGED <<lib, heap, phase, plan>>
Finish == phase = "cast" /\ pc > Len(CastSeq) /\ phase' = "done" /\ UNCHANGED <<lib, heap, script, plan, pc>>

Next == Declare \/ StartBuild \/ Construct \/ StartRun \/ Call \/ StartCast \/ Cast \/ Finish
Spec == Init /\ [][Next]_vars

---------------------------------------------------------------------------
(* the wrapper variants the database must list *)
SRequired == {[sid |-> w.sig.id, k |-> w.k, np |-> NP(w.sig) - w.k + (IF HasThis(w.sig) THEN 1 ELSE 0), this |-> HasThis(w.sig),
               opt |-> [i \in 1..(NP(w.sig) - w.k) |-> i > NP(w.sig) - w.sig.nd]] : w \in UNION {SVariants(s) : s \in lib}}

(* Invariants of the model *)
HeaderWellFormed == SHeaderOK(lib) /\ \A s \in lib : Cardinality(SVariants(s)) = s.nd + 1
SigOf(id) == CHOOSE s \in lib : s.id = id
SInRange(kd, v) ==
  CASE kd.k = "senum" -> \E i \in 1..Len(SEnumVals(kd.c)) : SEnumVals(kd.c)[i] = v
    \* a returned pointer / reference designates an object that IS-A kd.c (or is null)
    [] kd.k \in ObjKinds -> v \in 0..NObj /\ (v # 0 => SDerives(heap[v].cls, kd.c))
    [] OTHER -> InRange(kd.k, v)
ResultsInRange ==
  /\ \A i \in 1..Len(script) : script[i].op = "call" => SInRange(SigOf(script[i].sid).ret, script[i].ret)
  /\ \A o \in 1..NObj : heap[o].st \in 0..(StMod - 1) /\ heap[o].rst \in 0..(StMod - 1)
                        /\ (~HasSt(heap[o].cls) => heap[o].st = 0) /\ (~HasRst(heap[o].cls) => heap[o].rst = 0)
\* a variant with k omitted parameters passes exactly the declared defaults
DefaultsAreDeclared ==
  \A s \in lib : \A k \in 0..s.nd : \A i \in (NP(s) - k + 1)..NP(s) : SEffArgs(s, <<>>)[i] = SDefVal(s.ps[i], i)
\* a `this` object or an object argument always IS-A the class the signature names
ArgsAreOfTheirClass ==
  \A i \in 1..Len(script) : script[i].op = "call" =>
     LET s == SigOf(script[i].sid) IN
       /\ (HasThis(s) => SDerives(heap[script[i].this].cls, s.cls))
       /\ \A j \in 1..Len(script[i].args) : (IsObj(s.ps[j]) /\ script[i].args[j] # 0) => SDerives(heap[script[i].args[j]].cls, s.ps[j].c)
=============================================================================
