SPECIFICATION SimSpec
CONSTANTS
  MaxLines = 12
  MaxHdr = 5
  MaxCond = 2
  Hdrs = {"h1", "h2"}
  Names = {"M", "N"}
  Kinds = {"text", "def", "defhn", "undef", "undefhn", "ifdef", "ifndef", "elifdef", "elifndef", "if", "elif", "else", "endif", "inc", "incm", "once", "blank"}
  Payloads = {"1", "M", "N", "__LINE__", "__FILE__"}
  DefVals = {"0", "1", "2", "M", "N", "__LINE__"}
  Conds = {"D", "V", "E", "L"}
  Shapes = {"p", "c", "b", "m"}
  LineK = 4
  MinDump = 5
INVARIANT TypeOK
INVARIANT IncludeDepth
INVARIANT CondClosedAtEOF
INVARIANT AtMostOneGroup
INVARIANT SuspendedFramesActive
INVARIANT OnceContributesOnce
INVARIANT OutSound
PROPERTY SkippedNoEffect
PROPERTY LineNumbersIncrease
CONSTRAINT DumpConstraint
CHECK_DEADLOCK FALSE
