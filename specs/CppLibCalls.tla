---------------------------- MODULE CppLibCalls ----------------------------
(***************************************************************************)
(* C01: the abstract C++ library whose functions are CALLED (C04/C05 use   *)
(* CppLib for what is exported; this module is about what a call means).   *)
(*                                                                         *)
(* A library is a finite set of SIGNATURES                                 *)
(*    [fk, cls, name, ret, ps, nd]                                         *)
(* placed in the class family  K0,  K1 : K0,  K2 : K0,  KB,                *)
(* Mix : K0, KB  (multiple inheritance),  K3 : virtual K0.                 *)
(* Every function has the same defined meaning here and in the generated   *)
(* C++ body (vf/wraplib.py renders it):                                    *)
(*    m      = Mix(sig, thisState, args)                                   *)
(*    ret    = Encode(sig.ret, m)                                          *)
(*    state' = thisState + Weight(args)                                    *)
(* Representation rules (TLC has 32-bit integers and no floating point):   *)
(*  * a 32-bit word is written as its two's complement PATTERN, an integer *)
(*    in -2^31 .. 2^31-1 (u32 4294967295 is the pattern -1);               *)
(*  * 64-bit kinds are pairs <<hi, lo>> of word patterns;                  *)
(*  * floating kinds carry dyadic rationals k/8 as the integer k (exact in *)
(*    float for |k| < 2^24, exact in double for every 32-bit k): the check *)
(*    is about transport, not arithmetic;                                  *)
(*  * strings are [t, n]: entry t of a 6-entry table (the renderer has the *)
(*    text), followed by "#" and the decimal number n when n >= 0.  Entry  *)
(*    4 is UTF-8 multibyte text, entry 5 contains an embedded NUL followed *)
(*    by more data ("a b\0tail", i.e. entry 1 up to the NUL).  A C string  *)
(*    (kind cstr) cannot carry a NUL: cstr values use entries 0..4 only.   *)
(*    What a std::string looks like to a caller that receives it as a      *)
(*    NUL-terminated char * (the C back-end) is CView: cut at the NUL;     *)
(*  * objects are object ids (0 = null pointer).                           *)
(***************************************************************************)
EXTENDS Integers, Sequences, FiniteSets, TLC

MaxInt == 2147483647
MinInt == -2147483647 - 1
StMod == 32768                    \* object states live in 0 .. StMod-1

---------------------------------------------------------------------------
(* Kinds *)
Int32Kinds == {"i8", "u8", "i16", "u16", "i32", "u32"}
Int64Kinds == {"i64", "u64", "long", "ulong"}       \* long long / LP64 long
FloatKinds == {"f32", "f64"}
StrKinds   == {"cstr", "string"}
ObjKinds   == {"objPtr", "objRef", "objVal", "constObjRef"}       \* all refer to K0
\* scoped enumerations with an explicit underlying type: enum class EnC : char, enum class EnL : long long
ScopedEnumKinds == {"enumC", "enumLL"}
ScalarKinds == Int32Kinds \cup Int64Kinds \cup FloatKinds \cup {"bool", "enum"} \cup ScopedEnumKinds \cup StrKinds
\* strPtr: const std::string * (a parameter only; never null)
ParamKinds == ScalarKinds \cup ObjKinds \cup {"strPtr"}
RetKinds   == ScalarKinds \cup ObjKinds \cup {"void"}
\* published data members of K0.  Array members: int[3], float[2] (a setter wrapper only: a pointer to a
\* simple type cannot be returned) and an array of two objects (a getter only: arrays are not assignable)
ArrKinds   == {"arrI32", "arrF32"}
DataKinds  == (ScalarKinds \ {"cstr"}) \cup {"objPtr"}
GetKinds   == DataKinds \cup {"arrObj"}
SetKinds   == DataKinds \cup ArrKinds

KindSeq == <<"i8", "u8", "i16", "u16", "i32", "u32", "i64", "u64", "long", "ulong", "f32", "f64",
             "bool", "enum", "cstr", "string", "objPtr", "objRef", "objVal", "constObjRef", "void",
             "enumC", "enumLL", "strPtr", "arrI32", "arrF32", "arrObj">>
KindIdx(k) == CHOOSE i \in 1..Len(KindSeq) : KindSeq[i] = k

EnumVals == <<0, 5, 70000>>       \* enum En { e0, e1 = 5, e2 = 70000 }
EnumCVals == <<-3, 0, 100>>       \* enum class EnC : char { c0 = -3, c1 = 0, c2 = 100 }
\* enum class EnL : long long { l0 = 0, l1 = 5000000000, l2 = -5000000000 }   (as <<hi, lo>> word patterns)
EnumLVals == <<<<0, 0>>, <<1, 705032704>>, <<-2, -705032704>>>>
Str(t) == [t |-> t, n |-> -1]
NStrings == 6                     \* "", "a b", 200 bytes, quote and backslash, UTF-8 multibyte, "a b\0tail"
NCStrings == 5                    \* entries a C string can be
NulIdx == 5
\* a std::string received through a NUL-terminated char *: entry 5 is entry 1 followed by NUL and more
CView(v) == IF v.t = NulIdx THEN Str(1) ELSE v

(* boundary values of each kind *)
Bnd(k) ==
  CASE k = "i8"   -> <<0, 1, -1, -128, 127>>
    [] k = "u8"   -> <<0, 1, 255, 128>>
    [] k = "i16"  -> <<0, 1, -1, -32768, 32767>>
    [] k = "u16"  -> <<0, 1, 65535, 32768>>
    [] k = "i32"  -> <<0, 1, -1, MinInt, MaxInt>>
    [] k = "u32"  -> <<0, 1, -1, MinInt, MaxInt>>                 \* patterns: 0, 1, 2^32-1, 2^31, 2^31-1
    [] k \in {"i64", "long"} ->
         <<<<0, 0>>, <<0, 1>>, <<-1, -1>>, <<MinInt, 0>>, <<MaxInt, -1>>, <<1, 0>>, <<0, -1>>>>
    [] k \in {"u64", "ulong"} ->
         <<<<0, 0>>, <<0, 1>>, <<-1, -1>>, <<MinInt, 0>>, <<1, 0>>, <<0, -1>>>>
    [] k = "f32"  -> <<0, 1, -1, 16777215, -16777215, 12>>         \* k/8; 2^24-1 is the largest odd k exact in float
    [] k = "f64"  -> <<0, 1, -1, 16777217, -16777217, MaxInt, MinInt>>   \* 2^24+1 is not a float
    [] k = "bool" -> <<0, 1>>
    [] k = "enum" -> EnumVals
    [] k = "enumC" -> EnumCVals
    [] k = "enumLL" -> EnumLVals
    [] k = "strPtr" -> <<Str(0), Str(1), Str(2), Str(3), Str(4), Str(5)>>
    [] k = "arrI32" -> <<<<10, 20, 30>>, <<MinInt, MaxInt, -1>>, <<0, 0, 0>>>>
    [] k = "arrF32" -> <<<<1, -1>>, <<16777215, -16777215>>, <<0, 12>>>>
    [] k = "cstr" -> <<Str(0), Str(1), Str(2), Str(3), Str(4)>>
    [] k = "string" -> <<Str(0), Str(1), Str(2), Str(3), Str(4), Str(5)>>

InRange(k, v) ==
  CASE k = "i8"   -> v \in -128..127
    [] k = "u8"   -> v \in 0..255
    [] k = "i16"  -> v \in -32768..32767
    [] k = "u16"  -> v \in 0..65535
    [] k \in {"i32", "u32", "f64"} -> v \in Int
    [] k \in Int64Kinds -> Len(v) = 2
    [] k = "f32"  -> v > -16777216 /\ v < 16777216
    [] k = "bool" -> v \in {0, 1}
    [] k = "enum" -> \E i \in 1..Len(EnumVals) : EnumVals[i] = v
    [] k = "enumC" -> \E i \in 1..Len(EnumCVals) : EnumCVals[i] = v
    [] k = "enumLL" -> \E i \in 1..Len(EnumLVals) : EnumLVals[i] = v
    [] k = "arrObj" -> v \in Int
    [] k = "cstr" -> v.t \in 0..(NCStrings - 1) /\ v.n >= -1 /\ v.n < 100000
    [] k = "string" -> v.t \in 0..(NStrings - 1) /\ v.n >= -1 /\ v.n < 100000
    [] k \in ObjKinds -> v >= 0
    [] k = "void" -> v = 0

(* declared default value of a defaultable parameter at position i *)
Defaultable(k) == k \in ScalarKinds \cup {"objPtr"}
DefVal(k, i) ==
  CASE k = "i8"   -> -2 - i
    [] k = "u8"   -> 200 + i
    [] k = "i16"  -> -300 - i
    [] k = "u16"  -> 40000 + i
    [] k = "i32"  -> -70000 - i
    [] k = "u32"  -> -5 - i
    [] k \in {"i64", "long"} -> <<-2, i>>
    [] k \in {"u64", "ulong"} -> <<-3, 7 + i>>
    [] k = "f32"  -> 12 + i
    [] k = "f64"  -> 16777217 + i
    [] k = "bool" -> i % 2
    [] k = "enum" -> 5
    [] k = "enumC" -> 100
    [] k = "enumLL" -> <<1, 705032704>>
    [] k \in StrKinds -> Str(1)
    [] k = "objPtr" -> 0

(* initial value of the published data member of kind k *)
InitData(k) ==
  CASE k \in Int32Kinds -> 1
    [] k \in Int64Kinds -> <<0, 1>>
    [] k \in FloatKinds -> 12
    [] k = "bool" -> 1
    [] k = "enum" -> 5
    [] k = "enumC" -> 0
    [] k = "enumLL" -> <<0, 0>>
    [] k = "string" -> Str(1)
    [] k = "objPtr" -> 0
    [] k = "arrI32" -> <<1, 2, 3>>
    [] k = "arrF32" -> <<12, 20>>
    [] k = "arrObj" -> 7              \* what element 0 of the object array shows

---------------------------------------------------------------------------
(* Classes *)
Classes == {"K0", "K1", "K2", "KB", "Mix", "K3"}
ClsSeq == <<"-", "K0", "K1", "K2", "KB", "Mix", "K3">>
ClsIdx(c) == CHOOSE i \in 1..Len(ClsSeq) : ClsSeq[i] = c
Bases(c) == CASE c \in {"K1", "K2", "K3"} -> {"K0"} [] c = "Mix" -> {"K0", "KB"} [] OTHER -> {}
Derives(c, b) == c = b \/ b \in Bases(c)
HasK0(c) == c # "KB"
HasKB(c) == c \in {"KB", "Mix"}

---------------------------------------------------------------------------
(* Signatures *)
FkSeq == <<"free", "method", "cmethod", "static", "ctor", "getter", "setter",
           "opIndex", "opCall", "opAsg", "opCast", "opEq", "opIndexRef", "opInc", "opDec", "opBin">>
FkIdx(f) == CHOOSE i \in 1..Len(FkSeq) : FkSeq[i] = f
HasThis(s) == s.fk \notin {"free", "static", "ctor"}
ConstThis(s) == s.fk \in {"cmethod", "getter", "opIndex", "opCast", "opEq", "opBin"}
NP(s) == Len(s.ps)
(* opIndexRef:  int &operator [](K i)  is exported as the item-assignment wrapper  operator []=(K i, const int &
   assign_val): the signature carries the wrapper's two parameters, the C++ declaration has the first. *)
DeclNP(s) == IF s.fk = "opIndexRef" THEN 1 ELSE NP(s)

Sig(fk, cls, name, ret, ps, nd) == [fk |-> fk, cls |-> cls, name |-> name, ret |-> ret, ps |-> ps, nd |-> nd]
\* every class always has this constructor; it is how objects come into being
BaseCtor(c) == Sig("ctor", c, 0, "void", <<"i32">>, 0)

PIdx(s, i) == IF i <= NP(s) THEN KindIdx(s.ps[i]) ELSE 0
\* a perfect hash of the signature's content (mixed radix), < 2^28
SigId(s) == ((((((FkIdx(s.fk) - 1) * 7 + (ClsIdx(s.cls) - 1)) * 28 + (KindIdx(s.ret) - 1)) * 28 + PIdx(s, 1)) * 28
               + PIdx(s, 2)) * 28 + PIdx(s, 3)) * 4 + s.nd

RECURSIVE TrailingDefaultable(_)
TrailingDefaultable(ps) ==
  IF ps = <<>> \/ ~Defaultable(ps[Len(ps)]) THEN 0 ELSE 1 + TrailingDefaultable(SubSeq(ps, 1, Len(ps) - 1))

RefParams(s) == {i \in 1..NP(s) : s.ps[i] \in {"objPtr", "objRef"}}
CRefParams(s) == {i \in 1..NP(s) : s.ps[i] \in {"objPtr", "objRef", "constObjRef"}}
\* may a K0 reference to *this be returned?
ThisIsCand(s) == HasThis(s) /\ HasK0(s.cls) /\ (s.ret = "constObjRef" \/ ~ConstThis(s))
CandParams(s) == IF s.ret = "constObjRef" THEN CRefParams(s) ELSE RefParams(s)

WellFormedSig(s) ==
  /\ s.fk \in {FkSeq[i] : i \in 1..Len(FkSeq)} /\ s.ret \in RetKinds \cup {"arrObj"}
  /\ (s.ret = "arrObj" => s.fk = "getter")
  /\ \A i \in 1..NP(s) : s.ps[i] \in ParamKinds \cup ArrKinds
  /\ (\E i \in 1..NP(s) : s.ps[i] \in ArrKinds) => s.fk = "setter"
  /\ NP(s) <= 3 /\ s.nd \in 0..3 /\ s.nd <= TrailingDefaultable(s.ps)
  /\ (s.fk = "free") = (s.cls = "-")
  /\ s.cls \in Classes \cup {"-"}
  /\ CASE s.fk = "ctor" ->
            /\ s.ret = "void"
            \* K0(K0) / K0(const K0&) / K0(K0&) would be (or collide with) the copy constructor
            /\ ~(s.cls = "K0" /\ NP(s) - s.nd <= 1 /\ NP(s) >= 1 /\ s.ps[1] \in {"objRef", "objVal", "constObjRef"})
       [] s.fk = "getter" -> s.ps = <<>> /\ s.ret \in GetKinds /\ s.cls = "K0" /\ s.name = 0
       [] s.fk = "setter" -> NP(s) = 1 /\ s.ps[1] \in SetKinds /\ s.ret = "void" /\ s.nd = 0 /\ s.cls = "K0" /\ s.name = 0
       [] s.fk = "opIndex" -> NP(s) = 1 /\ s.nd = 0 /\ s.ret # "void"
       \* compound assignment: returning *this (objRef), or something else (operator -= returning int,
       \* operator *= returning an object by value)
       [] s.fk = "opAsg" -> NP(s) = 1 /\ s.nd = 0 /\ s.ret \in {"objRef", "i32", "objVal"} /\ HasK0(s.cls)
       \* increment / decrement: prefix  K0 &operator ++()  returns the operand itself, postfix  K0 operator ++(int)
       \* returns a NEW object holding the OLD value; the operand is modified in both
       [] s.fk \in {"opInc", "opDec"} -> /\ s.cls = "K0" /\ s.nd = 0 /\ s.name = 0
                                         /\ \/ s.ret = "objRef" /\ s.ps = <<>>
                                            \/ s.ret = "objVal" /\ s.ps = <<"i32">>
       \* a plain binary operator (operator +): const, returns a value (a new object for objVal)
       [] s.fk = "opBin" -> NP(s) = 1 /\ s.nd = 0 /\ s.ret # "void" /\ s.name = 0
       [] s.fk = "opIndexRef" -> NP(s) = 2 /\ s.ps[1] \in {"i32", "u8", "i64", "enumC"} /\ s.ps[2] = "i32" /\ s.nd = 0
                                  /\ s.ret = "void" /\ s.name = 0
       [] s.fk = "opCast" -> s.ps = <<>> /\ s.ret \in ScalarKinds \ {"cstr"}
       [] s.fk = "opEq" -> s.ps = <<"constObjRef">> /\ s.nd = 0 /\ s.ret = "bool"
       [] OTHER -> TRUE
  /\ (s.ret \in {"objPtr", "objRef", "constObjRef"} /\ s.fk # "getter" => ThisIsCand(s) \/ CandParams(s) # {})

(* the C++ overload-resolution class of a parameter kind: a by-value, reference and
   const-reference parameter of the same class are mutually ambiguous *)
CallType(k) == IF k \in {"objRef", "objVal", "constObjRef"} THEN "obj" ELSE k
CallSig(s, k) == [i \in 1..(DeclNP(s) - k) |-> CallType(s.ps[i])]
CallSigs(s) == {CallSig(s, k) : k \in 0..s.nd}
\* Overloads whose wrappers have the same parameter TYPES in the database (a K0 pointer and a K0 by value,
\* a C string and a std::string) are told apart by the parameter NAMES the database records: the renderer
\* names every parameter after its position and kind.

\* two signatures that would be declared under one C++ name in one scope
IsOperator(s) == s.fk \in {"opIndex", "opIndexRef", "opCall", "opAsg", "opEq", "ctor", "opCast", "opInc", "opDec", "opBin"}
OpGroup(s) == CASE s.fk \in {"opIndex", "opIndexRef"} -> "index"
                [] s.fk = "opAsg" -> (CASE s.ret = "objRef" -> "asg+=" [] s.ret = "i32" -> "asg-=" [] OTHER -> "asg*=")
                [] s.fk = "opCast" -> s.ret
                [] OTHER -> s.fk
SameName(a, b) ==
  /\ a.cls = b.cls
  /\ \/ IsOperator(a) /\ IsOperator(b) /\ (a.fk = "opCast") = (b.fk = "opCast") /\ OpGroup(a) = OpGroup(b)
     \/ a.fk \in {"free", "method", "cmethod", "static"} /\ b.fk \in {"free", "method", "cmethod", "static"}
        /\ a.name # 0 /\ a.name = b.name
\* what the header must satisfy to be valid C++ whose every variant call is unambiguous
Compatible(a, b) ==
  SameName(a, b) =>
    \* (a const and a non-const member function may share a parameter list: they differ in `this`)
    /\ (CallSigs(a) \cap CallSigs(b) = {} \/ {a.fk, b.fk} = {"method", "cmethod"})
    /\ a.fk # "opCast"                                    \* one conversion function per target type
    \* a static and a non-static member function cannot be overloaded on the same parameter list; keep the
    \* flavours of one name equal except for method / const method
    /\ (a.fk = b.fk \/ {a.fk, b.fk} = {"method", "cmethod"} \/ {a.fk, b.fk} = {"opIndex", "opIndexRef"})
HeaderOK(lib) ==
  /\ \A a \in lib : WellFormedSig(a)
  /\ \A a \in lib : \A b \in lib : a # b => Compatible(a, b) /\ SigId(a) # SigId(b)
  /\ \A a \in lib : \A c \in Classes : a # BaseCtor(c) => Compatible(a, BaseCtor(c))

---------------------------------------------------------------------------
(* Wrapper variants: one per number of omitted trailing defaults, `this` first *)
Variants(s) == {[sig |-> s, k |-> k] : k \in 0..s.nd}
WrapperParams(w) == (IF HasThis(w.sig) THEN <<"this">> ELSE <<>>) \o SubSeq(w.sig.ps, 1, NP(w.sig) - w.k)
\* the arguments the C++ function receives when variant w is called with args
EffArgs(w, args) == [i \in 1..NP(w.sig) |-> IF i <= Len(args) THEN args[i] ELSE DefVal(w.sig.ps[i], i)]

---------------------------------------------------------------------------
(* Sem *)
H32(p) == ((p \div 65536) % 65536) * 7 + (p % 65536) * 13
H64(v) == (H32(v[1]) * 3 + H32(v[2])) % 1000003
(* The K0 part of an object owns a payload with move semantics (a heap-allocated std::string tag, tg is the
   number it spells); whoever looks at the K0 part sees st and the payload together.  A moved-from object
   would show the empty payload. *)
TgMod == 1000
K0Part(obj) == (obj.st + 7 * (obj.tg + 1)) % StMod
K0St(heap, o) == IF o = 0 THEN 40000 ELSE K0Part(heap[o])
H(k, v, heap) ==
  CASE k \in Int32Kinds \cup FloatKinds \cup {"enum"} -> H32(v)
    [] k \in Int64Kinds -> H64(v)
    [] k = "bool" -> v + 1
    [] k = "enumC" -> H32(v)
    [] k = "enumLL" -> H64(v)
    [] k \in StrKinds \cup {"strPtr"} -> (v.t + 1) * 101 + (IF v.n >= 0 THEN v.n + 1 ELSE 0)
    [] k \in ObjKinds -> K0St(heap, v)

Primes == <<101, 211, 307>>
RECURSIVE ArgSum(_, _, _, _)
ArgSum(ps, args, heap, i) ==
  IF i > Len(ps) THEN 0 ELSE Primes[i] * H(ps[i], args[i], heap) + ArgSum(ps, args, heap, i + 1)
RECURSIVE WSum(_, _, _, _)
WSum(ps, args, heap, i) ==
  IF i > Len(ps) THEN 0 ELSE (H(ps[i], args[i], heap) % 7) + WSum(ps, args, heap, i + 1)

Mix(s, thisState, args, heap) == SigId(s) + 17 * thisState + ArgSum(s.ps, args, heap, 1)    \* < 2^30
Weight(s, args, heap) == 1 + WSum(s.ps, args, heap, 1)

Gen32(m) == IF m % 2 = 0 THEN m ELSE -m - 1
BndOr(k, m, g) == IF m % 5 = 0 THEN Bnd(k)[((m \div 5) % Len(Bnd(k))) + 1] ELSE g
\* cands: the objects a returned pointer / reference may designate, in order (this first)
Encode(k, m, cands) ==
  CASE k = "i8"   -> BndOr(k, m, (m % 256) - 128)
    [] k = "u8"   -> BndOr(k, m, m % 256)
    [] k = "i16"  -> BndOr(k, m, (m % 65536) - 32768)
    [] k = "u16"  -> BndOr(k, m, m % 65536)
    [] k \in {"i32", "u32", "f64"} -> BndOr(k, m, Gen32(m))
    [] k \in Int64Kinds -> BndOr(k, m, <<Gen32(m), Gen32(2000000011 - m)>>)
    [] k = "f32"  -> BndOr(k, m, (m % 16777216) - 8388608)
    [] k = "bool" -> m % 2
    [] k = "enum" -> EnumVals[(m % 3) + 1]
    [] k = "enumC" -> EnumCVals[(m % 3) + 1]
    [] k = "enumLL" -> EnumLVals[(m % 3) + 1]
    [] k = "cstr" -> [t |-> m % NCStrings, n |-> m % 100000]
    [] k = "string" -> [t |-> m % NStrings, n |-> m % 100000]
    [] k = "objPtr" -> IF m % 5 = 0 THEN 0 ELSE cands[(m % Len(cands)) + 1]
    [] k \in {"objRef", "constObjRef"} -> cands[(m % Len(cands)) + 1]
    [] k = "objVal" -> m % StMod        \* the state of the returned temporary
    [] k = "void" -> 0

\* the part of an object a member function of class c works on
ThisState(c, obj) == CASE c = "KB" -> obj.bst [] c = "Mix" -> (K0Part(obj) + 7 * obj.bst) % StMod [] OTHER -> K0Part(obj)
Bump(c, obj, w) ==
  CASE c = "KB" -> [obj EXCEPT !.bst = (@ + w) % StMod]
    [] c = "Mix" -> [obj EXCEPT !.st = (@ + w) % StMod, !.bst = (@ + 1) % StMod]
    [] OTHER -> [obj EXCEPT !.st = (@ + w) % StMod]

\* non-const object arguments are modified (state and payload) through the pointer / reference, in parameter
\* order; a by-value parameter is the callee's own copy: it modifies that copy, the caller's object stays
RECURSIVE TouchArgs(_, _, _, _)
TouchArgs(ps, args, heap, i) ==
  IF i > Len(ps) THEN heap
  ELSE IF ps[i] \in {"objPtr", "objRef"} /\ args[i] # 0
       THEN TouchArgs(ps, args, [heap EXCEPT ![args[i]].st = (@ + 3) % StMod, ![args[i]].tg = (@ + 1) % TgMod], i + 1)
       ELSE TouchArgs(ps, args, heap, i + 1)

NewObj(c, m) == [cls |-> c, live |-> TRUE,
                 st |-> IF HasK0(c) THEN m % StMod ELSE 0,
                 tg |-> IF HasK0(c) THEN (m \div 7) % TgMod ELSE 0,
                 bst |-> IF HasKB(c) THEN (m \div StMod) % StMod ELSE 0,
                 d |-> [k \in GetKinds \cup SetKinds |-> InitData(k)]]

(* Virtual functions.  Some member functions of K0 are virtual and OVERRIDDEN in K1, Mix and K3 (K2 inherits
   K0's): which function runs is decided by the class of the object, not by the class whose wrapper is
   called - the ground truth is  base_ptr->f().  The override computes a different Mix. *)
Virt(s) == s.fk \in {"method", "cmethod"} /\ s.cls = "K0" /\ (SigId(s) \div 4) % 3 = 0
Overriders == {"K1", "Mix", "K3"}
OverrideOf(s, c) == IF Virt(s) /\ c \in Overriders THEN ClsIdx(c) ELSE 0

(* Sem of an ordinary (Mix-computing) function: result record
     [m, ret, heap']   where ret is the encoded value (for objVal: the state of the new object) *)
CandSeq(s, o, args) ==
  (IF ThisIsCand(s) THEN <<o>> ELSE <<>>) \o
  [j \in 1..Cardinality(CandParams(s)) |->
      args[CHOOSE i \in CandParams(s) : Cardinality({x \in CandParams(s) : x < i}) = j - 1]]
NonNull(q) == SelectSeq(q, LAMBDA x : x # 0)

Sem(s, o, args, heap) ==
  LET ts == IF HasThis(s) THEN ThisState(s.cls, heap[o]) ELSE 0
      m  == Mix(s, ts, args, heap) + (IF HasThis(s) THEN 1000003 * OverrideOf(s, heap[o].cls) ELSE 0)
      w  == Weight(s, args, heap)
      cs == NonNull(CandSeq(s, o, args))
      h1 == IF HasThis(s) /\ ~ConstThis(s) THEN [heap EXCEPT ![o] = Bump(s.cls, @, w)] ELSE heap
      h2 == TouchArgs(s.ps, args, h1, 1)
  IN [m |-> m, ret |-> IF s.fk \in {"opAsg", "opInc", "opDec"} /\ s.ret = "objRef" THEN o        \* return *this
                       ELSE IF cs = <<>> /\ s.ret \in {"objPtr", "objRef", "constObjRef"} THEN 0
                       ELSE Encode(s.ret, m, cs),
      heap |-> h2]
\* a call is defined when a reference result has something to designate
SemDefined(s, o, args) ==
  s.ret \in {"objRef", "constObjRef"} => NonNull(CandSeq(s, o, args)) # <<>>
=============================================================================
