SPECIFICATION FamSpec
CONSTANTS
  FunctionLoopFiltersModule = TRUE
  MinN = 4
  MaxN = 5
INVARIANT KeysAreContributors
INVARIANT Once
INVARIANT BasesFirst
INVARIANT ReportIffCyclic
INVARIANT NoBreakIfAcyclic
INVARIANT BrokenAreOnCycles
INVARIANT CyclesAreCycles
INVARIANT Bounded
PROPERTY Terminates
CONSTRAINT DumpConstraint
CHECK_DEADLOCK FALSE
