SPECIFICATION SpecMC
CONSTANTS
  Libs = {"A", "B", "C", "D"}
  NT = 2
  Statuses = {"absent", "fwd", "fwdg", "def", "defg"}
  Statuses2 = {"absent", "defg"}
  Modes = {"db"}
  LookupKinds = {"tn", "tsn", "ttn", "mn", "en", "esn"}
  FileBase = 3
  RecordHist = FALSE
  Faults = {"ok"}
  DumpKinds = {}
INVARIANT TypeOK
INVARIANT FilesWellFormed
INVARIANT UnionOK
INVARIANT Closed
INVARIANT TempClosed
INVARIANT WrappersFirst
INVARIANT LinksConsistent
INVARIANT UniqueNames
INVARIANT RemapIso
INVARIANT RangesDisjoint
INVARIANT ModulesSorted
INVARIANT CacheCoherent
INVARIANT LookupSeesAll
INVARIANT Lazy
INVARIANT ErrIffFault
INVARIANT FailedNotLoaded
CONSTRAINT DumpConstraint
CHECK_DEADLOCK FALSE
