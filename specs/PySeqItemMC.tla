---------------------------- MODULE PySeqItemMC ----------------------------
(* dumps every complete history (replayed by vf/checks/_c02_seqitem.py on built -python-native modules) *)
EXTENDS PySeqItem, Json, CSV, IOUtils
DumpFile == IF "VERIF_DUMP" \in DOMAIN IOEnv THEN IOEnv.VERIF_DUMP ELSE ""
DumpConstraint ==
  IF DumpFile # "" /\ Len(hist) = MaxOps
    THEN CSVWrite("%1$s", <<ToJson([n |-> n, ops |-> hist, items |-> ItemsOf(cells)])>>, DumpFile)
    ELSE TRUE
=============================================================================
