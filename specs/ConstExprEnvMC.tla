--------------------------- MODULE ConstExprEnvMC ---------------------------
(* Model-checking wrapper of ConstExprEnv: every complete translation unit leaves TLC as the
   sequence of its declarations [k, e, v]. *)
EXTENDS ConstExprEnv, Json, CSV, IOUtils

Lits2 == {2, -3}
TInitsAll == {<<-1, FALSE>>, <<5, FALSE>>, <<300, FALSE>>, <<70000, FALSE>>, <<0, TRUE>>, <<3, TRUE>>}

DumpFile == IF "VERIF_DUMP" \in DOMAIN IOEnv THEN IOEnv.VERIF_DUMP ELSE ""

DumpConstraint ==
  IF DumpFile # "" /\ Complete
    THEN CSVWrite("%1$s", <<ToJson([p |-> [i \in 1..Len(decls) |->
                                              [k |-> decls[i].k, e |-> decls[i].e, v |-> decls[i].v, mu |-> decls[i].mu]]])>>, DumpFile)
    ELSE TRUE
=============================================================================
