SPECIFICATION Spec
CONSTANTS
  MaxLen = 8
  ViewTail = 2
INVARIANT TypeOK
INVARIANT Total
INVARIANT PathOK
INVARIANT DumpConstraint
VIEW View
CHECK_DEADLOCK FALSE
