-------------------------- MODULE IncludeSearchMC --------------------------
(* Model-checking wrapper: dumps every resolved lookup case with the reference result, and every
   complete once-only history with the reference contribution count (replayed into interrogate /
   parse_file by vf/checks/c17.py). *)
EXTENDS IncludeSearch, Json, CSV, IOUtils

DumpFile == IF "VERIF_DUMP" \in DOMAIN IOEnv THEN IOEnv.VERIF_DUMP ELSE ""

SetToSeq(S) == LET RECURSIVE F(_) F(T) == IF T = {} THEN <<>> ELSE LET x == CHOOSE y \in T : TRUE IN <<x>> \o F(T \ {x}) IN F(S)

DumpConstraint ==
  IF DumpFile = "" THEN TRUE
  ELSE IF phase = "resolved"
    THEN CSVWrite("%1$s", <<ToJson([k |-> "lookup", present |-> SetToSeq(present), cmd |-> cmd, form |-> form,
                                     noangles |-> noangles, incIsCwd |-> incIsCwd, explicit |-> explicit,
                                     viaLink |-> explicitViaLink, dir |-> rres.dir, src |-> rres.src])>>, DumpFile)
  ELSE IF phase = "chain" /\ chain.level = ChainDepth + 1
    THEN CSVWrite("%1$s", <<ToJson([k |-> "chain", ways |-> chain.ways, cmd |-> chain.cmd, leafAt |-> SetToSeq(chain.leafAt),
                                     dir |-> rres.dir, src |-> rres.src])>>, DumpFile)
  ELSE IF phase = "owned"
    THEN CSVWrite("%1$s", <<ToJson([k |-> "own", cmdSpell |-> own.cmdSpell, reach |-> own.reach, order |-> own.order,
                                     cwdHas |-> own.cwdHas, guard |-> guard, entries |-> rcount, src |-> rres.src])>>, DumpFile)
  ELSE IF phase = "once" /\ Len(spelled) >= 1
    THEN CSVWrite("%1$s", <<ToJson([k |-> "once", guard |-> guard, spelled |-> spelled, count |-> rcount])>>, DumpFile)
  ELSE TRUE
=============================================================================
