----------------------------- MODULE ToolRunMC -----------------------------
(* Model-checking wrapper of ToolRun: the dump of every complete run (command, parse outcomes,
   fault schedule, and the exit status / output files the protocol demands), replayed into the
   real tools by vf/checks/c19.py with the injector harness/faultio.c. *)
EXTENDS ToolRun, Json, CSV, IOUtils

DumpFile == IF "VERIF_DUMP" \in DOMAIN IOEnv THEN IOEnv.VERIF_DUMP ELSE ""

Rec == [tool |-> tool, req |-> req, nfiles |-> nfiles, parsed |-> parsed,
        sched |-> [c \in req |-> sched[c]],
        loadErr |-> loadErr,
        exit |-> exit,
        outputs |-> Outputs,
        complete |-> {c \in req : exists[c] /\ ~Incomplete(c)}]

DumpConstraint ==
  IF DumpFile # "" /\ Exited
    THEN CSVWrite("%1$s", <<ToJson(Rec)>>, DumpFile)
    ELSE TRUE
=============================================================================
