SPECIFICATION Spec
CONSTANTS
  Leaves <- LvThorough
  UnOps = {"+", "-", "~", "!"}
  Casts = {"int", "bool", "char", "short"}
  BinOps = {"*", "/", "%", "+", "-", "<<", ">>", "<", ">", "<=", ">=", "==", "!=", "&", "^", "|", "&&", "||"}
  UseCond = TRUE
  MaxTok = 5
  MaxDepth = 2
INVARIANT EvalTotal
INVARIANT DivModLaw
INVARIANT ShiftLaw
INVARIANT BitLaw
INVARIANT BoolLaw
INVARIANT AddLaw
INVARIANT RenderLaw
CONSTRAINT DumpConstraint
CHECK_DEADLOCK FALSE
