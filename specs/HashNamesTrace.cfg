SPECIFICATION TSpec
CONSTANTS
  LetterSeq <- TraceLetters
  NoSig = ""
INVARIANT NamesDistinct
INVARIANT ValidSuffix
INVARIANT MapConsistent
INVARIANT NamePrefixOfHash
INVARIANT ExtendNeverClashes
PROPERTY TFrozen
CHECK_DEADLOCK TRUE
