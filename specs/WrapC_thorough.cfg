SPECIFICATION Spec
CONSTANTS
  Mode = "single"
  FullCross = TRUE
  MaxSigs = 1
  MaxVariants = 4
  MaxCalls = 1
  MinCalls = 1
  MaxHeap = 4
  SigChoices <- ThoroughChoices
  Pick <- PickAll
INVARIANT HeaderWellFormed
INVARIANT NoUseAfterDestroy
INVARIANT ResultsInRange
INVARIANT DefaultsAreDeclared
CONSTRAINT DumpConstraint
CHECK_DEADLOCK FALSE
