SPECIFICATION Spec
CONSTANTS
  ElemIgnore = TRUE
  Shape <- NoShape
  MinVisSet <- PubOnly
  File2Srcs <- None
  ClassHeads <- BaseHeads
  NestedKeys <- None
  MemberAlpha <- BaseMembersT
  MaxMembers <- M10
  MaxClasses = 3
  BaseAlpha <- BaseKinds
  MaxBases = 2
  ClassComments <- NoComment
  TopAlpha <- None
  MaxTops = 0
  AliasAlpha <- None
  MaxAliases = 0
  NestedLike = FALSE
  CmdKinds <- None
INVARIANT OneOwner
INVARIANT RefsBackward
INVARIANT VisIsFunction
INVARIANT DescFunctional
INVARIANT Sound
INVARIANT Complete
CONSTRAINT DumpConstraint
CHECK_DEADLOCK FALSE
