SPECIFICATION Spec
CONSTANTS
  MaxClasses = 2
  RootBudget = 2
  RelSets <- Rel2
  LaterFeatures <- LaterSmall
INVARIANT AbstractNotConstructible
INVARIANT PolymorphicMonotone
INVARIANT AbstractIsPolymorphic
CONSTRAINT DumpConstraint
CHECK_DEADLOCK FALSE
