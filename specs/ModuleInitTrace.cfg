SPECIFICATION TSpec
CONSTANTS
  FunctionLoopFiltersModule = TRUE
INVARIANT KeysAreContributors
INVARIANT Once
INVARIANT BasesFirst
INVARIANT ReportIffCyclic
INVARIANT BrokenAreOnCycles
INVARIANT CyclesAreCycles
INVARIANT Bounded
CHECK_DEADLOCK TRUE
