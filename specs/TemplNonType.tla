--------------------------- MODULE TemplNonType -----------------------------
(***************************************************************************)
(* C06, class-template instantiation with NON-TYPE template parameters     *)
(* ("same template arguments and typedef targets"; quantifier: "template   *)
(* instantiations with type and non-type arguments, default template       *)
(* arguments").  Companion of TemplInst (type parameters only).            *)
(*                                                                         *)
(* Three class templates, stratified so that instantiation terminates:     *)
(*     template<int N, class T [= d]>           struct S { m1; m2; };      *)
(*     template<class T, int N [= d], int M [= d]> struct W { m1; m2; };   *)
(*     template<int K>                          struct U { m1; m2; };      *)
(* A default may refer to the earlier parameters (int M = N * 2), which    *)
(* may themselves be left to their defaults.  Each member slot is a        *)
(* typedef whose target is a type term over the template's parameters:     *)
(* arrays whose bound is an expression of a non-type parameter, template-  *)
(* ids whose arguments are such expressions, projections  typename         *)
(* S<N + 1, T>::m1  out of lower templates.  The program is built step by  *)
(* step (the behaviour is the input): SetDefaults, AddMember ..., AddUse   *)
(* (a namespace-scope typedef of a closed template-id), and finally Ask of *)
(* a closed query  W<char, left::width>::m2  which Extend continues ::m1.  *)
(*                                                                         *)
(* Terms (tag first, so that TLC can compare any two of them).             *)
(* integer expressions:                                                    *)
(*   <<"k", v>>             the literal v                                  *)
(*   <<"cst", c>>           a named constant (ConstVal[c]): namespace-     *)
(*                          scope const int, enumerator, sizeof(char)      *)
(*   <<"add",e,f>> <<"sub",e,f>> <<"mul",e,f>> <<"neg",e>>                 *)
(* types:                                                                  *)
(*   <<"b", name>>          a non-template type (int, char, ...)           *)
(*   <<"ptr", t>> <<"ref", t>>              t *    t &                     *)
(*   <<"arr", t, e>>        t [e]                                          *)
(*   <<"fn", r, p>>         the function type  r (p)                       *)
(*   <<"t", T, args>>       template-id  T< args >  (trailing arguments    *)
(*                          may be left to the defaults)                   *)
(*   <<"m", t, slot>>       typename t::slot                               *)
(*   <<"own", slot>>        unqualified use of an earlier member typedef   *)
(*   <<"g", i>>             the i-th namespace-scope typedef (queries)     *)
(* both:                                                                   *)
(*   <<"p", i>>             i-th parameter of the enclosing template       *)
(*                                                                         *)
(* Norm is the reference rule: C++ instantiation semantics restricted to   *)
(* this fragment.  [temp.arg.nontype] a non-type argument is a converted   *)
(* constant expression, i.e. its VALUE; [temp.type] two template-ids are   *)
(* the same type iff their type arguments are the same type and their      *)
(* non-type arguments have the same value; [temp.param] a default argument *)
(* is evaluated with the earlier parameters replaced by their (given or    *)
(* defaulted) arguments; [dcl.array] the bound of an array is a value      *)
(* greater than zero; [temp.inst] a member can be projected only out of an *)
(* instantiation whose every member declaration is well formed, and naming *)
(* a template-id (typedef S<N + 1, T> nxt) does not instantiate it.        *)
(* Norm is call-by-value: every expression is replaced by its value before *)
(* it is substituted.  NormE is the implementation-shaped rule: arguments  *)
(* stay closed EXPRESSIONS (the tool prints S< (3 + 1), int > and          *)
(* int [((3 + 1) + 1)]), the whole member table of an instantiation is     *)
(* substituted at once, values are computed only where a decision needs    *)
(* them.  Confluent says that both denote the same type.                   *)
(***************************************************************************)
EXTENDS Integers, Sequences, FiniteSets, TLC

CONSTANTS MaxDefs,           \* bound on the number of program steps before the query
          MaxDepth,          \* bound on the number of ::slot steps of the query
          MinDefs,           \* a query is asked only of programs with at least so many (steers simulation)
          MaxUses,           \* bound on the number of namespace-scope typedefs
          Connected,         \* TRUE: a further member is related to an earlier one (independent members are
                             \* two programs of one member each); FALSE: any combination
          BodyTerms,         \* [Tmpl -> set of body terms]       (the alphabets: see TemplNonTypeMC)
          DfltProfiles,      \* set of default-argument tables
          UseTerms, QueryTerms

Tmpl == {"S", "W", "U"}
Level == [S |-> 1, W |-> 2, U |-> 3]
Kinds == [S |-> <<"i", "c">>, W |-> <<"c", "i", "i">>, U |-> <<"i">>]     \* i: int non-type, c: class
Arity == [T \in Tmpl |-> Len(Kinds[T])]
Slots == {"m1", "m2"}
NONE == <<"none">>
BAD == <<"bad">>

\* the named constants a closed term may mention (two pairs have the same simple name in different
\* namespaces, several have the same value)
ConstVal == [lw |-> 2,      \* namespace left  { const int width = 2; }
             rw |-> 5,      \* namespace right { const int width = 5; }
             ld |-> 3,      \* namespace left  { enum Side { depth = 3 }; }
             rd |-> 1,      \* namespace right { enum Side { depth = 1 }; }
             cn |-> 3,      \* namespace cfg   { const int N = 3; }   N = the name of S's own parameter
             sz |-> 1]      \* sizeof(char)

NoDefaults == [T \in Tmpl |-> [i \in 1..Arity[T] |-> NONE]]

VARIABLES dflt,       \* dflt[T][i] : NONE or the default argument of T's i-th parameter (over the earlier ones)
          defs,       \* defs[T][slot] : NONE or the member typedef's target
          uses,       \* sequence of closed template-ids: typedef uses[i] g_i;  at namespace scope
          query       \* NONE or the closed term that is asked about
vars == <<dflt, defs, uses, query>>

ExprTags == {"k", "cst", "add", "sub", "mul", "neg"}

---------------------------------------------------------------------------
RECURSIVE Eval(_)
\* the value of a closed integer expression (values stay far inside 32 bits: see Small)
Eval(e) ==
  CASE e[1] = "k" -> e[2]
    [] e[1] = "cst" -> ConstVal[e[2]]
    [] e[1] = "add" -> Eval(e[2]) + Eval(e[3])
    [] e[1] = "sub" -> Eval(e[2]) - Eval(e[3])
    [] e[1] = "mul" -> Eval(e[2]) * Eval(e[3])
    [] e[1] = "neg" -> 0 - Eval(e[2])

RECURSIVE Subst(_, _, _)
\* replace the parameters of template T in t by args (args may be shorter than T's parameter list when a
\* default argument is evaluated); an unqualified own member denotes that member of the instantiation being made
Subst(t, T, args) ==
  CASE t[1] \in {"b", "k", "cst", "g"} -> t
    [] t[1] = "p" -> args[t[2]]
    [] t[1] \in {"ptr", "ref", "neg"} -> <<t[1], Subst(t[2], T, args)>>
    [] t[1] \in {"arr", "fn", "add", "sub", "mul"} -> <<t[1], Subst(t[2], T, args), Subst(t[3], T, args)>>
    [] t[1] = "t" -> <<"t", t[2], [i \in 1..Len(t[3]) |-> Subst(t[3][i], T, args)]>>
    [] t[1] = "m" -> <<"m", Subst(t[2], T, args), t[3]>>
    [] t[1] = "own" -> Subst(defs[T][t[2]], T, args)      \* (only m2 may use m1, so this ends)

RECURSIVE Norm(_), Fill(_, _), Complete(_, _)
\* one template argument in normal form: the value of a non-type argument, the normal form of a type argument
NormArg(T, i, x) == IF Kinds[T][i] = "i" THEN <<"k", Eval(x)>> ELSE Norm(x)

\* complete the normal argument list a of T with the default arguments, left to right; <<>> = impossible
Fill(T, a) ==
  IF Len(a) = Arity[T] THEN a
  ELSE LET d == dflt[T][Len(a) + 1]
       IN IF d = NONE THEN <<>>
          ELSE LET v == NormArg(T, Len(a) + 1, Subst(d, T, a))
               IN IF v = BAD THEN <<>> ELSE Fill(T, Append(a, v))

\* every member declaration of T<args> is well formed (args already normal)
Complete(T, args) == \A s \in Slots : defs[T][s] # NONE => Norm(Subst(defs[T][s], T, args)) # BAD

Norm(t) ==
  CASE t[1] = "b" -> t
    [] t[1] = "ptr" -> LET n == Norm(t[2]) IN IF n = BAD \/ n[1] = "ref" THEN BAD ELSE <<"ptr", n>>
    [] t[1] = "ref" -> LET n == Norm(t[2]) IN IF n = BAD THEN BAD ELSE IF n[1] = "ref" THEN n ELSE <<"ref", n>>
    [] t[1] = "arr" ->       \* the bound is a value > 0 ([dcl.array]; g++ -pedantic-errors rejects char [0], plain g++
                             \* accepts it as an extension, a negative bound is always an error); no array of references /
                             \* functions; an array of class objects would need the class complete: left out of the domain
         LET n == Norm(t[2])
             v == Eval(t[3])
         IN IF n = BAD \/ n[1] \in {"ref", "fn", "t"} \/ v < 1 THEN BAD ELSE <<"arr", n, <<"k", v>>>>
    [] t[1] = "fn" ->        \* parameters of array / function type would be adjusted: left out of the domain
         LET r == Norm(t[2])
             p == Norm(t[3])
         IN IF r = BAD \/ p = BAD \/ r[1] \in {"arr", "fn"} \/ p[1] \in {"arr", "fn"} THEN BAD ELSE <<"fn", r, p>>
    [] t[1] = "t" ->
         IF Len(t[3]) < 1 \/ Len(t[3]) > Arity[t[2]] THEN BAD
         ELSE LET n == [i \in 1..Len(t[3]) |-> NormArg(t[2], i, t[3][i])]
              IN IF \E i \in 1..Len(n) : n[i] = BAD THEN BAD
                 ELSE LET a == Fill(t[2], n) IN IF Len(a) = 0 THEN BAD ELSE <<"t", t[2], a>>
    [] t[1] = "m" -> LET n == Norm(t[2])
                     IN IF n = BAD \/ n[1] # "t" THEN BAD
                        ELSE IF defs[n[2]][t[3]] = NONE \/ ~Complete(n[2], n[3]) THEN BAD
                        ELSE Norm(Subst(defs[n[2]][t[3]], n[2], n[3]))
    [] t[1] = "g" -> IF t[2] > Len(uses) THEN BAD ELSE Norm(uses[t[2]])
    [] OTHER -> BAD

---------------------------------------------------------------------------
(* The implementation-shaped rule: a non-type argument stays the closed expression that was written       *)
(* (after substitution), an instantiation is a table made once; a value is computed only for the array    *)
(* bound's sign.  The result is a type term whose bounds and arguments are closed expressions; Canon      *)
(* computes them.                                                                                         *)
RECURSIVE NormE(_), FillE(_, _), Table(_, _), Canon(_)
FillE(T, a) ==
  IF Len(a) = Arity[T] THEN a
  ELSE LET d == dflt[T][Len(a) + 1]
       IN IF d = NONE THEN <<>>
          ELSE LET x == Subst(d, T, a)
                   v == IF Kinds[T][Len(a) + 1] = "i" THEN x ELSE NormE(x)
               IN IF v = BAD THEN <<>> ELSE FillE(T, Append(a, v))
Table(T, args) == [s \in Slots |-> IF defs[T][s] = NONE THEN NONE ELSE NormE(Subst(defs[T][s], T, args))]
NormE(t) ==
  CASE t[1] = "b" -> t
    [] t[1] = "ptr" -> LET n == NormE(t[2]) IN IF n = BAD \/ n[1] = "ref" THEN BAD ELSE <<"ptr", n>>
    [] t[1] = "ref" -> LET n == NormE(t[2]) IN IF n = BAD THEN BAD ELSE IF n[1] = "ref" THEN n ELSE <<"ref", n>>
    [] t[1] = "arr" ->
         LET n == NormE(t[2])
         IN IF n = BAD \/ n[1] \in {"ref", "fn", "t"} \/ Eval(t[3]) < 1 THEN BAD ELSE <<"arr", n, t[3]>>
    [] t[1] = "fn" ->
         LET r == NormE(t[2])
             p == NormE(t[3])
         IN IF r = BAD \/ p = BAD \/ r[1] \in {"arr", "fn"} \/ p[1] \in {"arr", "fn"} THEN BAD ELSE <<"fn", r, p>>
    [] t[1] = "t" ->
         IF Len(t[3]) < 1 \/ Len(t[3]) > Arity[t[2]] THEN BAD
         ELSE LET n == [i \in 1..Len(t[3]) |-> IF Kinds[t[2]][i] = "i" THEN t[3][i] ELSE NormE(t[3][i])]
              IN IF \E i \in 1..Len(n) : n[i] = BAD THEN BAD
                 ELSE LET a == FillE(t[2], n) IN IF Len(a) = 0 THEN BAD ELSE <<"t", t[2], a>>
    [] t[1] = "m" -> LET n == NormE(t[2])
                     IN IF n = BAD \/ n[1] # "t" THEN BAD
                        ELSE LET tab == Table(n[2], n[3])
                             IN IF tab[t[3]] = NONE \/ \E s \in Slots : tab[s] = BAD THEN BAD ELSE tab[t[3]]
    [] t[1] = "g" -> IF t[2] > Len(uses) THEN BAD ELSE NormE(uses[t[2]])
    [] OTHER -> BAD
\* compute every expression of a closed, projection-free type term
Canon(t) ==
  CASE t[1] \in ExprTags -> <<"k", Eval(t)>>
    [] t[1] \in {"ptr", "ref"} -> <<t[1], Canon(t[2])>>
    [] t[1] \in {"arr", "fn"} -> <<t[1], Canon(t[2]), Canon(t[3])>>
    [] t[1] = "t" -> <<"t", t[2], [i \in 1..Len(t[3]) |-> Canon(t[3][i])]>>
    [] OTHER -> t

---------------------------------------------------------------------------
RECURSIVE Ground(_), Params(_), Projects(_), Names(_), UsesOwn(_), ProjDependent(_), KindOK(_, _, _), Lits(_), Literal(_)
\* a ground type: only base types, values, template-ids of ground arguments
Ground(t) ==
  CASE t[1] \in {"b", "k"} -> TRUE
    [] t[1] \in {"ptr", "ref"} -> Ground(t[2])
    [] t[1] \in {"arr", "fn"} -> Ground(t[2]) /\ Ground(t[3])
    [] t[1] = "t" -> Len(t[3]) = Arity[t[2]] /\ \A i \in 1..Len(t[3]) : Ground(t[3][i])
    [] OTHER -> FALSE
\* parameter indices used
Params(t) ==
  CASE t[1] = "p" -> {t[2]}
    [] t[1] \in {"ptr", "ref", "neg", "m"} -> Params(t[2])
    [] t[1] \in {"arr", "fn", "add", "sub", "mul"} -> Params(t[2]) \cup Params(t[3])
    [] t[1] = "t" -> UNION {Params(t[3][i]) : i \in 1..Len(t[3])}
    [] OTHER -> {}
\* templates projected out of (these must be complete at instantiation time)
Projects(t) ==
  CASE t[1] \in {"ptr", "ref"} -> Projects(t[2])
    [] t[1] \in {"arr", "fn"} -> Projects(t[2]) \cup Projects(t[3])
    [] t[1] = "t" -> UNION {Projects(t[3][i]) : i \in 1..Len(t[3])}
    [] t[1] = "m" -> (IF t[2][1] = "t" THEN {t[2][2]} ELSE {}) \cup Projects(t[2])
    [] OTHER -> {}
\* template-ids named: <<template, number of arguments written>>
Names(t) ==
  CASE t[1] \in {"ptr", "ref", "m"} -> Names(t[2])
    [] t[1] \in {"arr", "fn"} -> Names(t[2]) \cup Names(t[3])
    [] t[1] = "t" -> {<<t[2], Len(t[3])>>} \cup UNION {Names(t[3][i]) : i \in 1..Len(t[3])}
    [] OTHER -> {}
UsesOwn(t) ==
  CASE t[1] = "own" -> {t[2]}
    [] t[1] \in {"ptr", "ref", "m"} -> UsesOwn(t[2])
    [] t[1] \in {"arr", "fn"} -> UsesOwn(t[2]) \cup UsesOwn(t[3])
    [] t[1] = "t" -> UNION {UsesOwn(t[3][i]) : i \in 1..Len(t[3])}
    [] OTHER -> {}
\* a projection in a body is always out of a dependent template-id (so it is checked at instantiation only)
ProjDependent(t) ==
  CASE t[1] \in {"ptr", "ref"} -> ProjDependent(t[2])
    [] t[1] \in {"arr", "fn"} -> ProjDependent(t[2]) /\ ProjDependent(t[3])
    [] t[1] = "t" -> \A i \in 1..Len(t[3]) : t[3][i][1] \in ExprTags \cup {"p"} \/ ProjDependent(t[3][i])
    [] t[1] = "m" -> Params(t[2]) # {} /\ ProjDependent(t[2])
                     /\ t[2][1] = "t"          \* ... and directly out of a template-id: the level argument needs it
    [] OTHER -> TRUE
\* t is a type (k = "c") or an integer expression (k = "i") over parameters of kinds ks
KindOK(t, k, ks) ==
  CASE t[1] = "p" -> t[2] \in 1..Len(ks) /\ ks[t[2]] = k
    [] t[1] \in {"k", "cst"} -> k = "i"
    [] t[1] = "neg" -> k = "i" /\ KindOK(t[2], "i", ks)
    [] t[1] \in {"add", "sub", "mul"} -> k = "i" /\ KindOK(t[2], "i", ks) /\ KindOK(t[3], "i", ks)
    [] t[1] \in {"b", "own", "g"} -> k = "c"
    [] t[1] \in {"ptr", "ref", "m"} -> k = "c" /\ KindOK(t[2], "c", ks)
    [] t[1] = "arr" -> k = "c" /\ KindOK(t[2], "c", ks) /\ KindOK(t[3], "i", ks)
    [] t[1] = "fn" -> k = "c" /\ KindOK(t[2], "c", ks) /\ KindOK(t[3], "c", ks)
    [] t[1] = "t" -> k = "c" /\ Len(t[3]) \in 1..Arity[t[2]]
                     /\ \A i \in 1..Len(t[3]) : KindOK(t[3][i], Kinds[t[2]][i], ks)
    [] OTHER -> FALSE
\* the literal values in a term
Lits(t) ==
  CASE t[1] = "k" -> {t[2]}
    [] t[1] \in {"ptr", "ref", "neg", "m"} -> Lits(t[2])
    [] t[1] \in {"arr", "fn", "add", "sub", "mul"} -> Lits(t[2]) \cup Lits(t[3])
    [] t[1] = "t" -> UNION {Lits(t[3][i]) : i \in 1..Len(t[3])}
    [] OTHER -> {}
\* every named constant replaced by its value
Literal(t) ==
  CASE t[1] = "cst" -> <<"k", ConstVal[t[2]]>>
    [] t[1] \in {"ptr", "ref", "neg"} -> <<t[1], Literal(t[2])>>
    [] t[1] \in {"arr", "fn", "add", "sub", "mul"} -> <<t[1], Literal(t[2]), Literal(t[3])>>
    [] t[1] = "t" -> <<"t", t[2], [i \in 1..Len(t[3]) |-> Literal(t[3][i])]>>
    [] t[1] = "m" -> <<"m", Literal(t[2]), t[3]>>
    [] OTHER -> t

\* What a compiler rejects when it reads the template (nothing there depends on a parameter): a pointer to a
\* reference, an array of references or functions, a function returning an array or a function - also through an own
\* member typedef (typedef char (&m1)[N]; typedef m1 *m2;).  Shape = outermost constructor, own members looked through.
Shape(t, T) == IF t[1] = "own" THEN defs[T][t[2]][1] ELSE t[1]
RECURSIVE ShapesOK(_, _)
ShapesOK(t, T) ==
  CASE t[1] = "ptr" -> Shape(t[2], T) # "ref" /\ ShapesOK(t[2], T)
    [] t[1] \in {"ref", "m"} -> ShapesOK(t[2], T)
    [] t[1] = "arr" -> Shape(t[2], T) \notin {"ref", "fn"} /\ ShapesOK(t[2], T)
    [] t[1] = "fn" -> Shape(t[2], T) \notin {"arr", "fn"} /\ Shape(t[3], T) \notin {"arr", "fn"}
                      /\ ShapesOK(t[2], T) /\ ShapesOK(t[3], T)
    [] t[1] = "t" -> \A i \in 1..Len(t[3]) : Kinds[t[2]][i] = "c" => ShapesOK(t[3][i], T)
    [] OTHER -> TRUE

\* number of arguments a template-id of T must write at least
MinArgs(T) == Cardinality({i \in 1..Arity[T] : dflt[T][i] = NONE})

NMembers == Cardinality({<<T, s>> \in Tmpl \X Slots : defs[T][s] # NONE})
NDefs == NMembers + Len(uses) + (IF dflt = NoDefaults THEN 0 ELSE 1)

\* a table of default arguments is admissible: defaults are trailing, of the right kind, over earlier parameters
\* only, name no template that needs a default itself, project nothing
DfltOK(d) ==
  /\ d # NoDefaults
  /\ \A T \in Tmpl : \A i \in 1..Arity[T] :
        /\ (d[T][i] # NONE /\ i < Arity[T] => d[T][i + 1] # NONE)
        /\ (d[T][i] # NONE => /\ KindOK(d[T][i], Kinds[T][i], SubSeq(Kinds[T], 1, i - 1))
                              /\ Projects(d[T][i]) = {} /\ UsesOwn(d[T][i]) = {}
                              /\ \A nm \in Names(d[T][i]) : nm[2] = Arity[nm[1]])

\* body term b is admissible as slot s of template T
BodyOK(T, s, b) ==
  /\ KindOK(b, "c", Kinds[T])
  /\ \A V \in Projects(b) : Level[V] < Level[T]           \* stratification: instantiation terminates
  /\ UsesOwn(b) \subseteq (IF s = "m2" /\ defs[T]["m1"] # NONE THEN {"m1"} ELSE {})
  /\ ProjDependent(b) /\ ShapesOK(b, T)
  /\ \A nm \in Names(b) : nm[2] >= MinArgs(nm[1])         \* the compiler checks the arity at definition time

---------------------------------------------------------------------------
Init == dflt = NoDefaults /\ defs = [T \in Tmpl |-> [s \in Slots |-> NONE]] /\ uses = <<>> /\ query = NONE

\* the default arguments are on the first declaration of the templates
SetDefaults(d) ==
  /\ query = NONE /\ dflt = NoDefaults /\ NMembers = 0 /\ uses = <<>> /\ NDefs < MaxDefs
  /\ DfltOK(d)
  /\ dflt' = d /\ UNCHANGED <<defs, uses, query>>

\* member b of T and some earlier member are related: one names the other's template, or b uses an own member
Related(T, b) ==
  \/ UsesOwn(b) # {}
  \/ \E V \in Tmpl, s \in Slots : /\ defs[V][s] # NONE
                                  /\ \/ \E nm \in Names(b) : nm[1] = V
                                     \/ \E nm \in Names(defs[V][s]) : nm[1] = T

AddMember(T, s, b) ==
  /\ query = NONE /\ uses = <<>> /\ defs[T][s] = NONE /\ NDefs < MaxDefs
  /\ (Connected /\ NMembers > 0 => Related(T, b))
  /\ (s = "m1" => defs[T]["m2"] = NONE)                   \* members are written in slot order
  /\ \A V \in Tmpl : Level[V] > Level[T] => \A s2 \in Slots : defs[V][s2] = NONE    \* templates in level order
  /\ BodyOK(T, s, b)
  /\ defs' = [defs EXCEPT ![T][s] = b] /\ UNCHANGED <<dflt, uses, query>>

\* typedef <closed template-id> g_i;   after the templates
AddUse(t) ==
  /\ query = NONE /\ Len(uses) < MaxUses /\ NDefs < MaxDefs /\ NMembers > 0
  /\ KindOK(t, "c", <<>>) /\ t[1] = "t" /\ Norm(t) # BAD
  /\ uses' = Append(uses, t) /\ UNCHANGED <<dflt, defs, query>>

RECURSIVE RootOf(_), FirstSlot(_)
RootOf(q) == IF q[1] = "m" THEN RootOf(q[2]) ELSE q
FirstSlot(q) == IF q[2][1] = "m" THEN FirstSlot(q[2]) ELSE q[3]
\* cheap necessary condition, so that Norm is computed for few candidates
MayBeDefined(q) ==
  LET r == RootOf(q)
  IN /\ (r[1] = "g" => r[2] <= Len(uses))
     /\ (q[1] = "m" => LET T == IF r[1] = "g" THEN uses[r[2]][2] ELSE r[2] IN defs[T][FirstSlot(q)] # NONE)

Ask(q) ==
  /\ query = NONE /\ NDefs >= MinDefs
  /\ MayBeDefined(q)
  /\ KindOK(q, "c", <<>>)
  /\ Norm(q) # BAD                                        \* well-formed programs only
  /\ query' = q /\ UNCHANGED <<dflt, defs, uses>>

\* the query goes on:  q::slot  (every prefix is a complete behaviour, too)
RECURSIVE Depth(_)
Depth(q) == IF q[1] = "m" THEN 1 + Depth(q[2]) ELSE 0
Extend(s) ==
  /\ query # NONE /\ Depth(query) < MaxDepth
  /\ Norm(<<"m", query, s>>) # BAD
  /\ query' = <<"m", query, s>> /\ UNCHANGED <<dflt, defs, uses>>

Next == \/ \E d \in DfltProfiles : SetDefaults(d)
        \/ \E T \in Tmpl, s \in Slots : \E b \in BodyTerms[T] : AddMember(T, s, b)
        \/ \E t \in UseTerms : AddUse(t)
        \/ \E q \in QueryTerms : Ask(q)
        \/ \E s \in Slots : Extend(s)
Spec == Init /\ [][Next]_vars

Result == IF query = NONE THEN NONE ELSE Norm(query)

---------------------------------------------------------------------------
\* the answer mentions no parameter, member name, typedef, named constant or unevaluated expression
ResultGround == query # NONE => Ground(Result)
\* normal forms are fixed points
Idempotent == query # NONE => Norm(Result) = Result
\* arguments kept as expressions + eager tables  and  call-by-value substitution  denote the same type
Confluent == query # NONE => LET e == NormE(query) IN e # BAD /\ Canon(e) = Result
\* a type depends on a named constant through its value only: S<cfg::N> is S<3>, S<right::width> is not S<left::width>
ValueOnly == query # NONE => Norm(Literal(query)) = Result
\* substitution lemma on the query: normalising the arguments of the outermost template-id first changes nothing
RECURSIVE ArgsFirst(_)
ArgsFirst(t) ==
  CASE t[1] = "m" -> <<"m", ArgsFirst(t[2]), t[3]>>
    [] t[1] = "t" -> LET n == [i \in 1..Len(t[3]) |-> NormArg(t[2], i, t[3][i])] IN
                       IF \E i \in 1..Len(n) : n[i] = BAD THEN t ELSE <<"t", t[2], n>>
    [] OTHER -> t
SubstLemma == query # NONE => Norm(ArgsFirst(query)) = Result
\* every value stays small (TLC integers are 32 bits; the C++ side computes in int)
Small == query # NONE => \A v \in Lits(Result) : v \in -100000..100000
=============================================================================
