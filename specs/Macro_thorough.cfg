SPECIFICATION Spec
CONSTANTS
  Families = {"ne"}
  DynLen = 5
  CdLen = 3
  SizeFo = 3
  SizeVa = 3
  SizeCh = 2
  SizeNe = 3
  ExtClass <- NoExt
  ExtEsc <- NoExt
  ExtSep <- OneSpace
INVARIANT NoResidual
INVARIANT HideSetsAreNames
CONSTRAINT DumpConstraint
VIEW ProgView
CHECK_DEADLOCK FALSE
