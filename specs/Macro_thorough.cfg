SPECIFICATION Spec
CONSTANTS
  Families = {"fo", "st", "va", "ch", "ne", "li1", "li2", "li3", "p3", "pv", "op", "br", "dy", "cd"}
  DynLen = 5
  CdLen = 3
  SizeFo = 3
  SizeVa = 3
  SizeCh = 2
  SizeNe = 2
  SizeSt = 2
  ExtClass <- NoExt
  ExtEsc <- NoExt
  ExtSep <- OneSpace
INVARIANT NoResidual
CONSTRAINT DumpConstraint
VIEW ProgView
CHECK_DEADLOCK FALSE
