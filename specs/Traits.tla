------------------------------- MODULE Traits -------------------------------
(***************************************************************************)
(* C10: implicit special members and class traits.                         *)
(*                                                                         *)
(* The behaviour is the program: each step declares one more class, which  *)
(* may use every earlier class as a (public / protected / private /        *)
(* virtual) base or as the type of a data member.  The C++ rules           *)
(* ([class.ctor], [class.copy.ctor], [class.dtor], [class.abstract],       *)
(* [class.virtual]) are transcribed as recursive operators over the class  *)
(* sequence; Verdict(i) is what a conforming compiler must say about class *)
(* i.  The generated programs are rendered to C++, judged by g++ (spec     *)
(* sanity) and by interrogate (the property).                              *)
(***************************************************************************)
EXTENDS Integers, Sequences, FiniteSets, TLC

CONSTANTS MaxClasses,    \* classes per program (2 or 3)
          RootBudget,    \* how many feature groups of class 1 may differ from "all implicit"
          RelSets,       \* RelSets[i][j]: relations class i may have to earlier class j
          LaterFeatures  \* feature tuples <<defctor, copyctor, dtor, vf>> of classes 2..

Acc == {"pub", "prot", "priv"}
BaseRels == {"base_pub", "base_prot", "base_priv", "base_vpub"}
Rels == {"none", "member", "arrmember", "staticmember"} \cup BaseRels
\* "arrmember": a data member of type C[2] (same rules as a member); "staticmember": a static data
\* member of class type (no effect on the special members)

VARIABLES cls, done
vars == <<cls, done>>

N == Len(cls)
Bases(i) == {j \in 1..(i - 1) : cls[i].rel[j] \in BaseRels}
VBases(i) == {j \in 1..(i - 1) : cls[i].rel[j] = "base_vpub"}
Members(i) == {j \in 1..(i - 1) : cls[i].rel[j] \in {"member", "arrmember"}}

\* special-member "state": an access level, "deleted", or "absent" (not declared, none implicit)
FromDerived(s) == s \in {"pub", "prot"}
FromOutside(s) == s = "pub"

RECURSIVE DtorState(_), DefCtorState(_), CopyCtorState(_), HasVirtualF(_), Polymorphic(_), VirtDtor(_)

ImplDtDeleted(i) ==
  \/ \E b \in Bases(i) : ~FromDerived(DtorState(b))
  \/ \E m \in Members(i) : ~FromOutside(DtorState(m))

DtorState(i) == LET c == cls[i] IN
  CASE c.dt \in {"user", "pure"} -> c.dtacc        \* "pure": virtual ~T() = 0; (user-declared)
    [] c.dt = "delete" -> "deleted"
    [] c.dt = "default" -> IF ImplDtDeleted(i) THEN "deleted" ELSE c.dtacc
    [] c.dt = "none" -> IF ImplDtDeleted(i) THEN "deleted" ELSE "pub"

\* any user-declared constructor suppresses the implicit default constructor
\* oc: some other constructor is declared (one that cannot be called without arguments)
HasUserCtorDecl(c) == c.dc # "none" \/ c.cc # "none" \/ c.mc # "none" \/ c.oc

ImplDcDeleted(i) == LET c == cls[i] IN
  \/ c.cint \/ c.ref         \* const member without initialiser / reference member
  \/ \E b \in Bases(i) : ~FromDerived(DefCtorState(b)) \/ ~FromDerived(DtorState(b))
  \/ \E m \in Members(i) : ~FromOutside(DefCtorState(m)) \/ ~FromOutside(DtorState(m))

DefCtorState(i) == LET c == cls[i] IN
  CASE c.dc = "user" -> c.dcacc
    [] c.dc = "delete" -> "deleted"
    [] c.dc = "default" -> IF ImplDcDeleted(i) THEN "deleted" ELSE c.dcacc
    [] c.dc = "none" -> IF HasUserCtorDecl(c) THEN "absent"
                        ELSE IF ImplDcDeleted(i) THEN "deleted" ELSE "pub"

ImplCcDeleted(i) ==
  \/ \E b \in Bases(i) : ~FromDerived(CopyCtorState(b)) \/ ~FromDerived(DtorState(b))
  \/ \E m \in Members(i) : ~FromOutside(CopyCtorState(m)) \/ ~FromOutside(DtorState(m))

CopyCtorState(i) == LET c == cls[i] IN
  CASE c.cc = "user" -> c.ccacc
    [] c.cc = "delete" -> "deleted"
    [] c.cc = "default" -> IF ImplCcDeleted(i) THEN "deleted" ELSE c.ccacc
    [] c.cc = "none" -> IF c.mc # "none" THEN "deleted"       \* a declared move ctor deletes the implicit copy ctor
                        ELSE IF ImplCcDeleted(i) THEN "deleted" ELSE "pub"

\* one virtual function name f: "virt" declares it, "pure" declares it pure, "over" overrides,
\* "none" does not mention it
HasVirtualF(i) == cls[i].vf \in {"virt", "pure"} \/ \E b \in Bases(i) : HasVirtualF(b)
\* abstract through the virtual function f (inherited unless overridden) ...
RECURSIVE AbsViaF(_)
AbsViaF(i) ==
  CASE cls[i].vf = "pure" -> TRUE
    [] cls[i].vf \in {"virt", "over"} -> FALSE
    [] OTHER -> \E b \in Bases(i) : AbsViaF(b)      \* "none", and "overc": f() const overloads, it does not override
\* ... or through its own pure virtual destructor, which every derived class overrides (implicitly
\* or explicitly), so it never propagates
AbstractF(i) == cls[i].dt = "pure" \/ AbsViaF(i)
Polymorphic(i) ==
  \/ cls[i].vf \in {"virt", "pure"} \/ cls[i].dtvirt
  \/ \E b \in Bases(i) : Polymorphic(b)

VirtDtor(i) == cls[i].dtvirt \/ \E b \in Bases(i) : VirtDtor(b)

\* what the property talks about, as g++ can be asked (new T(), new T(const T&), is_destructible)
CanNew(i) == ~AbstractF(i) /\ DefCtorState(i) = "pub"
CanCopy(i) == ~AbstractF(i) /\ CopyCtorState(i) = "pub"
Destructible(i) == DtorState(i) = "pub"
Verdict(i) == [abs |-> AbstractF(i), poly |-> Polymorphic(i), dc |-> CanNew(i),
               cc |-> CanCopy(i), d |-> Destructible(i)]

---------------------------------------------------------------------------
(* Alphabets as products of small feature groups *)
D0 == <<"none", "pub">>
T0 == <<"none", "pub", FALSE>>
DCs == {D0} \cup ({"user", "default", "delete"} \X Acc)
DTs == {T0} \cup ({"user", "default", "delete"} \X Acc \X BOOLEAN) \cup ({"pure"} \X Acc \X {TRUE})
MCs == {"none", "user", "delete"}

MkO(d, c, m, t, ci, rf, v, r, o) ==
  [dc |-> d[1], dcacc |-> d[2], cc |-> c[1], ccacc |-> c[2], mc |-> m, oc |-> o,
   dt |-> t[1], dtacc |-> t[2], dtvirt |-> t[3], cint |-> ci, ref |-> rf, vf |-> v, rel |-> r]

Mk(d, c, m, t, ci, rf, v, r) == MkO(d, c, m, t, ci, rf, v, r, FALSE)

NonDefault(d, c, m, t, ci, rf, v) ==
    (IF d # D0 THEN 1 ELSE 0) + (IF c # D0 THEN 1 ELSE 0) + (IF m # "none" THEN 1 ELSE 0)
  + (IF t # T0 THEN 1 ELSE 0) + (IF ci THEN 1 ELSE 0) + (IF rf THEN 1 ELSE 0) + (IF v # "none" THEN 1 ELSE 0)

Root == {MkO(d, c, m, t, ci, rf, v, <<>>, o) :
           d \in DCs, c \in DCs, m \in MCs, t \in DTs, ci \in BOOLEAN, rf \in BOOLEAN, v \in {"none", "virt", "pure"},
           o \in BOOLEAN}

RelChoices(i) == {r \in [1..(i - 1) -> Rels] : \A j \in 1..(i - 1) : r[j] \in RelSets[i][j]}

---------------------------------------------------------------------------
(* Well-formedness: programs g++ rejects outright, or on which the standard's wording and
   the compilers are known to disagree, are outside the domain (found by the spec-vs-g++
   comparison; see DESIGN.md §C10). *)
WFClass(i) == LET c == cls[i] IN
  /\ (c.dtvirt => c.dt # "none")
  /\ (c.vf = "over" => \E b \in Bases(i) : HasVirtualF(b))      \* "override" needs something to override
  /\ (c.vf = "overc" => \E b \in Bases(i) : HasVirtualF(b))     \* only interesting next to an inherited f()
  /\ \A m \in Members(i) : ~AbstractF(m)                        \* no member of abstract class type
  \* a base with a virtual destructor must have a usable (or deleted) one, else the derived dtor is ill-formed
  /\ \A b \in Bases(i) : Polymorphic(b) /\ cls[b].dtvirt => (FromDerived(DtorState(b)) \/ DtorState(b) = "deleted")
  /\ \A b \in VBases(i) : FromDerived(DtorState(b))
  \* a destructor overriding a virtual one must agree with it on being deleted
  /\ \A b \in Bases(i) : VirtDtor(b) => ((DtorState(i) = "deleted") <=> (DtorState(b) = "deleted"))
  \* final-overrider subtleties (dominance through virtual bases, several sub-objects) are excluded:
  \* a class with two or more bases that know f must declare f itself
  /\ (Cardinality({b \in Bases(i) : HasVirtualF(b)}) >= 2 => c.vf \notin {"none", "overc"})
  \* a base may be named only once, and not both as direct and (through another base) indirect non-virtual base
  /\ \A b \in Bases(i) : \A b2 \in Bases(i) : b2 > b => b \notin Bases(b2)
  \* the most derived class initialises virtual bases itself; keep those at distance one
  /\ \A b \in Bases(i) : VBases(b) = {}
  \* = default on a member that would be deleted, declared inaccessible, etc. is legal; but a
  \* defaulted destructor that is deleted while virtual in a base is ill-formed
  /\ (c.dt = "default" /\ (\E b \in Bases(i) : VirtDtor(b)) => ~ImplDtDeleted(i))
  \* a user-provided destructor must be able to destroy every base and member
  /\ (c.dt = "user" => ~ImplDtDeleted(i))

Init == cls = <<>> /\ done = FALSE

AddRoot ==
  /\ N = 0
  /\ \E c \in Root :
       /\ NonDefault(<<c.dc, c.dcacc>>, <<c.cc, c.ccacc>>, c.mc, <<c.dt, c.dtacc, c.dtvirt>>, c.cint, c.ref, c.vf)
            + (IF c.oc THEN 1 ELSE 0) <= RootBudget
       /\ cls' = <<c>>
  /\ UNCHANGED done

AddLater ==
  /\ N >= 1 /\ N < MaxClasses
  /\ \E f \in LaterFeatures : \E r \in RelChoices(N + 1) :
       cls' = Append(cls, Mk(f[1], f[2], "none", f[3], FALSE, FALSE, f[4], r))
  /\ UNCHANGED done

Finish == N = MaxClasses /\ ~done /\ done' = TRUE /\ UNCHANGED cls

Next == AddRoot \/ AddLater \/ Finish
Spec == Init /\ [][Next]_vars

WF == \A i \in 1..N : WFClass(i)

---------------------------------------------------------------------------
(* Rule sanity (invariants) *)
AbstractNotConstructible == \A i \in 1..N : WF /\ AbstractF(i) => ~CanNew(i) /\ ~CanCopy(i)
PolymorphicMonotone == \A i \in 1..N : \A b \in Bases(i) : Polymorphic(b) => Polymorphic(i)
AbstractIsPolymorphic == \A i \in 1..N : WF /\ AbstractF(i) => Polymorphic(i)
=============================================================================
