SPECIFICATION Spec
CONSTANTS
  ElemIgnore = FALSE
  Shape <- NoShape
  MinVisSet <- Both
  File2Srcs <- None
  ClassHeads <- CmdHeads
  NestedKeys <- None
  MemberAlpha <- CmdMembers
  MaxMembers <- M20
  MaxClasses = 2
  BaseAlpha <- None
  MaxBases = 1
  ClassComments <- NoComment
  TopAlpha <- None
  MaxTops = 0
  AliasAlpha <- None
  MaxAliases = 0
  NestedLike = FALSE
  CmdKinds <- CmdAll
INVARIANT SafeVis
INVARIANT SafeAccess
INVARIANT SafeKind
INVARIANT SafeFile
INVARIANT SafeSig
INVARIANT SafeOwner
INVARIANT SafeForeign
INVARIANT Consistent
INVARIANT Sound
INVARIANT Complete
INVARIANT Bounded
INVARIANT OneOwner
INVARIANT RefsBackward
INVARIANT VisIsFunction
CONSTRAINT DumpConstraint
CHECK_DEADLOCK FALSE
