---------------------------- MODULE MacroTrace ----------------------------
(***************************************************************************)
(* Trace validation for C08.  The H-macro hooks of the real preprocessor   *)
(* record every change of the macro table (Define / Undef / Push / Pop,    *)
(* after the change) and every replacement step of the token-level         *)
(* scanner, CPPPreprocessor::expand_manifest: Expand{m, args, ign, result} *)
(* = macro name, the argument texts it collected, the macros it hides      *)
(* (itself and the object-like macros being replaced) and the text it      *)
(* pushes back for rescanning.  vf/checks/c08.py cuts the texts into       *)
(* spellings (the projection) and records the lexical class of every       *)
(* spelling in a first "Lex" event.                                        *)
(*                                                                         *)
(* The table events are consumed by the actions of MacroRef, so the spec   *)
(* carries the macro table of the observed execution.  For an Expand event *)
(* the spec recomputes the step: the COMPLETE reference replacement of the *)
(* invocation m(args) must equal the complete reference replacement of the *)
(* recorded result (object-like macros of `ign` hidden, which is what the  *)
(* scanner's ignore chain does for the rescan).  A step whose reference    *)
(* replacement raises an event of a known-finding class, has no value      *)
(* ($-markers), or involves a definition the projection could not read is  *)
(* counted as skipped, not compared.  A trace that cannot be consumed      *)
(* deadlocks at the first step that disagrees.                             *)
(***************************************************************************)
EXTENDS MacroRef, Json, IOUtils

Tr == ndJsonDeserialize(IOEnv.VERIF_TRACE)
N == Len(Tr)
TrClass == Tr[1].cls
TrEsc == Tr[1].esc
NoSep == ""

VARIABLES l,        \* next event
          opq,      \* macros whose definition the projection could not read
          seen,     \* macros defined at some time in this execution
          ncmp, nskip
tvars == <<defs, pushStack, out, l, opq, seen, ncmp, nskip>>

IsE(i, e) == i <= N /\ Tr[i].e = e
ToSet(q) == {q[i] : i \in 1..Len(q)}
RECURSIVE JoinS(_)
JoinS(args) == IF args = <<>> THEN <<>> ELSE IF Len(args) = 1 THEN args[1]
               ELSE args[1] \o <<",">> \o JoinS(Tail(args))

TInit == MInit(<<>>) /\ l = 2 /\ opq = {} /\ seen = {} /\ ncmp = 0 /\ nskip = 0

Keep == UNCHANGED <<opq, seen, ncmp, nskip>>

TReset == /\ IsE(l, "Reset")
          /\ defs' = <<>> /\ pushStack' = <<>> /\ out' = <<>> /\ opq' = {} /\ seen' = {}
          /\ l' = l + 1 /\ UNCHANGED <<ncmp, nskip>>

\* the projection drops the per-line history now and then (it only grows)
TTrim == /\ IsE(l, "Trim") /\ out' = <<>> /\ l' = l + 1 /\ UNCHANGED <<defs, pushStack>> /\ Keep

TDefine == /\ IsE(l, "Define") /\ Tr[l].ok
           /\ Define(Tr[l].m, Tr[l].fn, Tr[l].params, Tr[l].va, Tr[l].body)
           /\ opq' = opq \ {Tr[l].m} /\ seen' = seen \cup {Tr[l].m} /\ l' = l + 1 /\ UNCHANGED <<ncmp, nskip>>

TDefineOpaque == /\ IsE(l, "Define") /\ ~Tr[l].ok
                 /\ Undef(Tr[l].m)
                 /\ opq' = opq \cup {Tr[l].m} /\ l' = l + 1 /\ UNCHANGED <<seen, ncmp, nskip>>

TUndef == /\ IsE(l, "Undef") /\ Undef(Tr[l].m)
          /\ opq' = opq \ {Tr[l].m} /\ l' = l + 1 /\ UNCHANGED <<seen, ncmp, nskip>>

\* push / pop of an unreadable definition: the spec cannot follow the stack of that name
TPush == /\ IsE(l, "Push") /\ PushMacro(Tr[l].m) /\ l' = l + 1 /\ Keep
TPop == /\ IsE(l, "Pop") /\ PopMacro(Tr[l].m) /\ l' = l + 1 /\ Keep

\* ---- one replacement step of the scanner -------------------------------------------
Call(e) == IF e.fn THEN <<e.m, "(">> \o JoinS(e.args) \o <<")">> ELSE <<e.m>>
ObjOf(S) == {n \in S \cap DOMAIN defs : ~defs[n].fn}
Ref(e)  == Expand(defs, HsAdd(ObjOf(ToSet(e.ign) \ {e.m}), Toks(Call(e))), <<>>)
Impl(e) == Expand(defs, HsAdd(ObjOf(ToSet(e.ign) \cup {e.m}), Toks(e.result)), <<>>)
Unreadable(e) == Reach(defs, ToSet(Call(e)) \cup ToSet(e.result)) \cap opq # {}
\* (IF, not \/ : TLC explores the disjuncts of an action separately, without short-circuit)
Skipped(e) == IF e.skip # "" THEN TRUE
              ELSE IF e.m \notin DOMAIN defs THEN e.m \notin seen   \* a macro the trace never defined (predefined);
                                                                   \* one that was #undef'd must not be replaced
              ELSE IF defs[e.m].fn # e.fn THEN TRUE
              ELSE IF Unreadable(e) THEN TRUE
              ELSE IF HasMarker(Ref(e).ts) THEN TRUE
              ELSE IF HasMarker(Impl(e).ts) THEN TRUE
              ELSE ClassEv(Ref(e).ev) # {}

TExpandSkip == /\ IsE(l, "Expand") /\ Skipped(Tr[l])
               /\ l' = l + 1 /\ nskip' = nskip + 1 /\ UNCHANGED <<defs, pushStack, out, opq, seen, ncmp>>

TExpand == /\ IsE(l, "Expand") /\ ~Skipped(Tr[l]) /\ Tr[l].m \in DOMAIN defs
           /\ Texts(Ref(Tr[l]).ts) = Texts(Impl(Tr[l]).ts)
           /\ out' = Append(out, OutLine(defs, Ref(Tr[l])))
           /\ l' = l + 1 /\ ncmp' = ncmp + 1 /\ UNCHANGED <<defs, pushStack, opq, seen, nskip>>

TForeign == /\ l <= N /\ Tr[l].e \notin {"Reset", "Trim", "Define", "Undef", "Push", "Pop", "Expand"}
            /\ l' = l + 1 /\ UNCHANGED <<defs, pushStack, out>> /\ Keep

TDone == l = N + 1 /\ PrintT(<<"MacroTrace compared", ncmp, "skipped", nskip>>) /\ UNCHANGED tvars

TNext == TReset \/ TTrim \/ TDefine \/ TDefineOpaque \/ TUndef \/ TPush \/ TPop
         \/ TExpandSkip \/ TExpand \/ TForeign \/ TDone

TSpec == TInit /\ [][TNext]_tvars
=============================================================================
