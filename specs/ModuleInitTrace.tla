-------------------------- MODULE ModuleInitTrace --------------------------
(***************************************************************************)
(* Trace validation for C16: the events recorded by the hooks in           *)
(* write_python_table_native (ModDep after the dependency map is built,    *)
(* ModPlace for each placement, ModReport for each "Circular dependency"   *)
(* message, ModBreak for each erased edge) are consumed by the actions of  *)
(* ModuleInit.  Library names are projected to their rank in the map       *)
(* (= the order of the ModDep events) by vf/checks/c16.py.  The mechanism  *)
(* is deterministic: unlogged steps (StartPass, a Visit that places        *)
(* nothing, EndBreak, ...) run freely, logged steps need the next event to *)
(* be exactly theirs.  A trace that cannot be consumed deadlocks.          *)
(***************************************************************************)
EXTENDS ModuleInit, Json, IOUtils

Tr == ndJsonDeserialize(IOEnv.VERIF_TRACE)
NTr == Len(Tr)

VARIABLE l
tvars == <<vars, l>>

IsE(i, e) == i <= NTr /\ Tr[i].e = e
Ours == {"ModDep", "ModPlace", "ModReport", "ModBreak", "Reset"}
SeqSet(s) == {s[i] : i \in 1..Len(s)}

Idle(g) ==
  /\ orig' = g /\ deps' = g /\ placed' = <<>> /\ pc' = "load" /\ idx' = 1
  /\ addedAny' = FALSE /\ broken' = {} /\ cycles' = <<>> /\ nreports' = 0

TInit ==
  /\ orig = <<>> /\ deps = <<>> /\ placed = <<>> /\ pc = "load" /\ idx = 1
  /\ addedAny = FALSE /\ broken = {} /\ cycles = <<>> /\ nreports = 0
  /\ l = 1

\* a new execution: only allowed when the previous one ran to completion
TReset ==
  /\ IsE(l, "Reset") /\ (pc = "load" \/ Done)
  /\ Idle(<<>>) /\ l' = l + 1

\* the dependency map, one key per event, in map order
TDep ==
  /\ IsE(l, "ModDep") /\ pc = "load" /\ Tr[l].lib = Len(orig) + 1
  /\ Idle(Append(orig, SeqSet(Tr[l].deps)))
  /\ l' = l + 1

TBegin ==
  /\ pc = "load" /\ Len(orig) > 0 /\ ~IsE(l, "ModDep")
  /\ \A a \in Libs : orig[a] \subseteq Libs \ {a}      \* the domain of the spec
  /\ pc' = "start"
  /\ UNCHANGED <<orig, deps, placed, idx, addedAny, broken, cycles, nreports, l>>

TStartPass == StartPass /\ l' = l

TVisit ==
  /\ Visit
  /\ IF placed' # placed
       THEN IsE(l, "ModPlace") /\ Tr[l].lib = idx /\ l' = l + 1
       ELSE l' = l

TEndPass ==
  /\ EndPass
  /\ IF nreports' # nreports
       THEN IsE(l, "ModReport") /\ l' = l + 1
       ELSE l' = l

TBreak ==
  /\ Break
  /\ IF cycles' # cycles
       THEN /\ IsE(l, "ModBreak")
            /\ LET c == cycles'[Len(cycles')] IN
                 Tr[l].from = c[1] /\ Tr[l].to = c[2] /\ Tr[l].len = Len(c)
            /\ l' = l + 1
       ELSE l' = l

TEndBreak == EndBreak /\ l' = l

\* events of other hook families recorded in the same file are not ours
TForeign ==
  /\ l <= NTr /\ Tr[l].e \notin Ours
  /\ UNCHANGED vars /\ l' = l + 1

TDone == l = NTr + 1 /\ (Done \/ (pc = "load" /\ Len(orig) = 0)) /\ UNCHANGED tvars

TNext == TReset \/ TDep \/ TBegin \/ TStartPass \/ TVisit \/ TEndPass \/ TBreak \/ TEndBreak
         \/ TForeign \/ TDone

TSpec == TInit /\ [][TNext]_tvars
=============================================================================
