-------------------------- MODULE ModuleInitTrace --------------------------
(***************************************************************************)
(* Trace validation for C16: the events recorded by the hooks in           *)
(* write_python_table_native (ModDep after the dependency map is built,    *)
(* ModPlace for each placement, ModReport for each "Circular dependency"   *)
(* message, ModBreak for each erased edge) are consumed by the actions of  *)
(* ModuleInit.  Library names are projected to their rank in the map       *)
(* (= the order of the ModDep events) by vf/checks/c16.py.  The mechanism  *)
(* is deterministic: unlogged steps (StartPass, a Visit that places        *)
(* nothing, EndBreak, ...) run freely, logged steps need the next event to *)
(* be exactly theirs.  A trace that cannot be consumed deadlocks.          *)
(* Every execution starts with {"e":"ModKinds","kinds":[..]}: the kind of  *)
(* every library whose database was given (known to the check, which made  *)
(* the headers), in name order; ranks in the other events refer to it.     *)
(* The ModDep events must then be exactly the keys the two loops collect   *)
(* (KeysAreContributors: function-only libraries included), in map order.  *)
(***************************************************************************)
EXTENDS ModuleInit, Json, IOUtils

Tr == ndJsonDeserialize(IOEnv.VERIF_TRACE)
NTr == Len(Tr)

VARIABLES l,
          seen      \* number of ModDep events of this execution so far
tvars == <<vars, l, seen>>

IsE(i, e) == i <= NTr /\ Tr[i].e = e
Ours == {"ModKinds", "ModDep", "ModPlace", "ModReport", "ModBreak", "Reset"}
SeqSet(s) == {s[i] : i \in 1..Len(s)}

Idle(k, g) ==
  /\ kind' = k /\ orig' = g /\ deps' = g /\ placed' = <<>> /\ pc' = "load" /\ idx' = 1
  /\ addedAny' = FALSE /\ broken' = {} /\ cycles' = <<>> /\ nreports' = 0

NoEdges(k) == [i \in DOMAIN k |-> {}]

TInit ==
  /\ seen = 0 /\ kind = <<>>
  /\ orig = <<>> /\ deps = <<>> /\ placed = <<>> /\ pc = "load" /\ idx = 1
  /\ addedAny = FALSE /\ broken = {} /\ cycles = <<>> /\ nreports = 0
  /\ l = 1

\* a new execution: only allowed when the previous one ran to completion
TReset ==
  /\ IsE(l, "Reset") /\ ((pc = "load" /\ seen = N) \/ Done)
  /\ Idle(<<>>, <<>>) /\ l' = l + 1 /\ seen' = 0

TKinds ==
  /\ IsE(l, "ModKinds") /\ pc = "load" /\ kind = <<>>
  /\ Idle(Tr[l].kinds, NoEdges(Tr[l].kinds)) /\ l' = l + 1 /\ seen' = 0

\* the dependency map, one key per event, in map order
TDep ==
  /\ IsE(l, "ModDep") /\ pc = "load" /\ seen < N /\ Tr[l].lib = Lib(seen + 1)
  /\ Idle(kind, [orig EXCEPT ![Tr[l].lib] = SeqSet(Tr[l].deps)])
  /\ l' = l + 1 /\ seen' = seen + 1

TBegin ==
  /\ pc = "load" /\ N > 0 /\ seen = N /\ ~IsE(l, "ModDep")
  /\ \A a \in Libs : orig[a] \subseteq Libs \ {a}      \* the domain of the spec
  /\ pc' = "start"
  /\ UNCHANGED <<kind, orig, deps, placed, idx, addedAny, broken, cycles, nreports, l, seen>>

TStartPass == StartPass /\ l' = l /\ UNCHANGED seen

TVisit ==
  /\ Visit
  /\ IF placed' # placed
       THEN IsE(l, "ModPlace") /\ Tr[l].lib = Lib(idx) /\ l' = l + 1
       ELSE l' = l
  /\ UNCHANGED seen

TEndPass ==
  /\ EndPass
  /\ IF nreports' # nreports
       THEN IsE(l, "ModReport") /\ l' = l + 1
       ELSE l' = l
  /\ UNCHANGED seen

TBreak ==
  /\ Break
  /\ IF cycles' # cycles
       THEN /\ IsE(l, "ModBreak")
            /\ LET c == cycles'[Len(cycles')] IN
                 Tr[l].from = c[1] /\ Tr[l].to = c[2] /\ Tr[l].len = Len(c)
            /\ l' = l + 1
       ELSE l' = l
  /\ UNCHANGED seen

TEndBreak == EndBreak /\ l' = l /\ UNCHANGED seen

\* events of other hook families recorded in the same file are not ours
TForeign ==
  /\ l <= NTr /\ Tr[l].e \notin Ours
  /\ UNCHANGED vars /\ l' = l + 1 /\ UNCHANGED seen

TDone == l = NTr + 1 /\ (Done \/ (pc = "load" /\ N = 0)) /\ UNCHANGED tvars

TNext == TReset \/ TKinds \/ TDep \/ TBegin \/ TStartPass \/ TVisit \/ TEndPass \/ TBreak \/ TEndBreak
         \/ TForeign \/ TDone

TSpec == TInit /\ [][TNext]_tvars
=============================================================================
