SPECIFICATION Spec
CONSTANTS
  Mode = "seq"
  FullCross = FALSE
  MaxSigs = 3
  MaxVariants = 5
  MaxCalls = 10
  MinCalls = 2
  MaxHeap = 7
  SigChoices <- SeqChoices
  Pick <- PickSome
INVARIANT HeaderWellFormed
INVARIANT NoUseAfterDestroy
INVARIANT ResultsInRange
INVARIANT DefaultsAreDeclared
CONSTRAINT DumpConstraint
CHECK_DEADLOCK FALSE
