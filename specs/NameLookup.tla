----------------------------- MODULE NameLookup -----------------------------
(***************************************************************************)
(* C06, second half: the entity a spelled type name denotes.               *)
(*                                                                         *)
(* A fixed namespace tree   ::  >  A  >  B   and   ::  >  N ;  the program *)
(* is built item by item (the behaviour), each item being                  *)
(*   decl(s)          struct T declared in namespace s (a new entity)      *)
(*   udecl(s, q)      using q::T;          written in namespace s          *)
(*   udir(s, q)       using namespace q;   written in namespace s          *)
(*   alias(s, q)      namespace AL = q;    written in namespace s          *)
(* and finally one reference: a function declared in namespace s whose     *)
(* parameter type is spelled "T", "::T", "A::T", "A::B::T", "N::T",        *)
(* "B::T" or "AL::T".                                                      *)
(* Resolve is C++ name lookup restricted to this fragment:                 *)
(* [basic.lookup.unqual], [namespace.udecl], [namespace.udir],             *)
(* [namespace.qual].  Only declarations that precede the reference count.  *)
(***************************************************************************)
EXTENDS Naturals, Sequences, FiniteSets, TLC

CONSTANTS MaxDecls, MaxUsings

Scopes == 1..6                       \* 1 = ::, 2 = A, 3 = A::B, 4 = N, 5 = struct C in ::, 6 = struct D in A
NsScopes == 1..4                     \* namespaces (using-directives, using-declarations, aliases live here)
ClassScopes == {5, 6}                \* classes: may declare a nested struct T and the referencing member function
Parent == <<0, 1, 2, 1, 1, 2>>
ScopeName == <<"", "A", "A::B", "N", "C", "A::D">>
RECURSIVE Chain(_)
Chain(s) == IF s = 0 THEN <<>> ELSE <<s>> \o Chain(Parent[s])     \* innermost first
AncSet(s) == {Chain(s)[i] : i \in 1..Len(Chain(s))}
RECURSIVE LCA(_, _)
LCA(a, b) == IF a \in AncSet(b) THEN a ELSE LCA(Parent[a], b)

Spellings == {"T", "::T", "A::T", "A::B::T", "N::T", "B::T", "AL::T", "C::T", "A::D::T", "D::T"}

VARIABLES items,      \* sequence of [k, s, q]; a decl's entity id is its position
          ref         \* <<>> or <<scope, spelling>>
vars == <<items, ref>>

NDecl == Cardinality({i \in 1..Len(items) : items[i].k = "decl"})
NUse == Cardinality({i \in 1..Len(items) : items[i].k # "decl"})

DirectIn(x) == {i \in 1..Len(items) : items[i].k = "decl" /\ items[i].s = x}

---------------------------------------------------------------------------
(* qualified lookup of T in namespace q: [namespace.qual] *)
RECURSIVE QualSet(_, _, _)
UDeclTargets(x) == {items[i].q : i \in {j \in 1..Len(items) : items[j].k = "udecl" /\ items[j].s = x}}
\* entities named by using-declarations written in x (each resolved, at the time it was written, to
\* the unique T then found by qualified lookup in its target: recorded in the item as field e)
UDeclEnts(x) == {items[i].e : i \in {j \in 1..Len(items) : items[j].k = "udecl" /\ items[j].s = x}}
\* u = FALSE gives the lookup a tool would perform if it ignored using-declarations (used only to
\* characterise, from the input, the programs whose result depends on a using-declaration)
UD(x, u) == IF u THEN UDeclEnts(x) ELSE {}
DirsIn(x) == {items[i].q : i \in {j \in 1..Len(items) : items[j].k = "udir" /\ items[j].s = x}}
QualSet(q, seen, u) ==
  LET own == DirectIn(q) \cup UD(q, u)
  IN IF own # {} THEN own
     ELSE UNION {QualSet(d, seen \cup {q}, u) : d \in DirsIn(q) \ (seen \cup {q})}

(* unqualified lookup of T from namespace s: [basic.lookup.unqual] + [namespace.udir] *)
RECURSIVE Nominated(_, _)
\* namespaces whose members become visible through the using-directives written in x (transitively)
Nominated(x, seen) == LET d == DirsIn(x) \ seen
                      IN d \cup UNION {Nominated(y, seen \cup d \cup {x}) : y \in d}
\* directives active when looking up from s: those written in s or an enclosing namespace;
\* the nominated namespace's names appear in the nearest namespace enclosing both
ActivePairs(s) == UNION {{<<u, q>> : q \in Nominated(u, {})} : u \in AncSet(s)}
\* v = FALSE: a (wrong) reading in which the nominated names appear in the namespace where the
\* directive is written instead of the nearest namespace enclosing both; only used to characterise inputs
Where(pp, v) == IF v THEN LCA(pp[1], pp[2]) ELSE pp[1]
LevelSet(s, x, u, v) == DirectIn(x) \cup UD(x, u)
                  \cup UNION {(DirectIn(p[2]) \cup UD(p[2], u)) : p \in {pp \in ActivePairs(s) : Where(pp, v) = x}}
RECURSIVE UnqualFrom(_, _, _, _)
UnqualFrom(s, i, u, v) ==       \* i indexes Chain(s)
  IF i > Len(Chain(s)) THEN {}
  ELSE LET here == LevelSet(s, Chain(s)[i], u, v) IN IF here # {} THEN here ELSE UnqualFrom(s, i + 1, u, v)

AliasTargets(s) == {items[i].q : i \in {j \in 1..Len(items) : items[j].k = "alias" /\ items[j].s \in AncSet(s)}}

\* the set of entities the spelling may denote from namespace s ({} = not found, >1 = ambiguous)
ResolveU(s, sp, u, v) ==
  CASE sp = "T" -> UnqualFrom(s, 1, u, v)
    [] sp = "::T" -> QualSet(1, {}, u)
    [] sp = "A::T" -> QualSet(2, {}, u)
    [] sp = "A::B::T" -> QualSet(3, {}, u)
    [] sp = "N::T" -> QualSet(4, {}, u)
    [] sp = "B::T" -> IF 2 \in AncSet(s) THEN QualSet(3, {}, u) ELSE {}      \* B is visible only inside A
    [] sp = "C::T" -> QualSet(5, {}, u)
    [] sp = "A::D::T" -> QualSet(6, {}, u)
    [] sp = "D::T" -> IF 2 \in AncSet(s) THEN QualSet(6, {}, u) ELSE {}      \* D is visible only inside A
    [] sp = "AL::T" -> IF Cardinality(AliasTargets(s)) = 1
                         THEN QualSet(CHOOSE q \in AliasTargets(s) : TRUE, {}, u) ELSE {}
Resolve(s, sp) == ResolveU(s, sp, TRUE, TRUE)

---------------------------------------------------------------------------
Init == items = <<>> /\ ref = <<>>

AddDecl(s) ==
  /\ ref = <<>> /\ NDecl < MaxDecls
  /\ DirectIn(s) = {} /\ UDeclEnts(s) = {}            \* one T per namespace; no clash with a using-declaration
  /\ items' = Append(items, [k |-> "decl", s |-> s, q |-> 0, e |-> Len(items) + 1])
  /\ UNCHANGED ref

AddUDecl(s, q) ==
  /\ ref = <<>> /\ NUse < MaxUsings /\ s # q /\ s \in NsScopes /\ q \in NsScopes   \* (a class member cannot be named by a namespace-scope using-declaration)
  /\ DirectIn(s) = {} /\ UDeclEnts(s) = {}
  /\ Cardinality(QualSet(q, {}, TRUE)) = 1                   \* using q::T must name exactly one entity
  /\ items' = Append(items, [k |-> "udecl", s |-> s, q |-> q, e |-> CHOOSE x \in QualSet(q, {}, TRUE) : TRUE])
  /\ UNCHANGED ref

AddUDir(s, q) ==
  /\ ref = <<>> /\ NUse < MaxUsings /\ s # q /\ q \notin DirsIn(s) /\ s \in NsScopes /\ q \in NsScopes
  /\ q \notin AncSet(s)                                \* a directive naming an enclosing namespace adds nothing
  /\ items' = Append(items, [k |-> "udir", s |-> s, q |-> q, e |-> 0])
  /\ UNCHANGED ref

AddAlias(s, q) ==
  /\ ref = <<>> /\ NUse < MaxUsings /\ s \in NsScopes /\ q \in NsScopes
  /\ ~\E i \in 1..Len(items) : items[i].k = "alias"    \* one alias AL per program
  /\ items' = Append(items, [k |-> "alias", s |-> s, q |-> q, e |-> 0])
  /\ UNCHANGED ref

AddRef(s, sp) ==
  /\ ref = <<>> /\ NDecl >= 1
  /\ Cardinality(Resolve(s, sp)) = 1                   \* well-formed programs only
  /\ (sp = "AL::T" => AliasTargets(s) # {})
  /\ ref' = <<s, sp>> /\ UNCHANGED items

Next == \/ \E s \in Scopes : AddDecl(s)
        \/ \E s \in Scopes, q \in Scopes : AddUDecl(s, q) \/ AddUDir(s, q) \/ AddAlias(s, q)
        \/ \E s \in Scopes, sp \in Spellings : AddRef(s, sp)
Spec == Init /\ [][Next]_vars

Result == IF ref = <<>> THEN 0 ELSE CHOOSE x \in Resolve(ref[1], ref[2]) : TRUE
\* does the result depend on a using-declaration?
DependsOnUDecl == ref # <<>> /\ ResolveU(ref[1], ref[2], FALSE, TRUE) # Resolve(ref[1], ref[2])
\* does the result depend on WHERE a using-directive makes names visible?
DependsOnUDirPlace == ref # <<>> /\ ResolveU(ref[1], ref[2], TRUE, FALSE) # Resolve(ref[1], ref[2])

---------------------------------------------------------------------------
ResultIsDecl == ref # <<>> => items[Result].k = "decl"
\* an unqualified name never escapes to an outer declaration when the reference's own namespace declares T
InnermostWins == (ref # <<>> /\ ref[2] = "T" /\ DirectIn(ref[1]) # {}) => Result \in DirectIn(ref[1])
=============================================================================
