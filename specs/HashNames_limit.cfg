SPECIFICATION Spec
CONSTANTS
  Sigs = {1, 2, 3, 4}
  HRange = {0}
  LetterSeq <- MCLetterSeq
  NLetters = 2
  NoSig = 0
INVARIANT NamesDistinct
INVARIANT NoInternalError
INVARIANT NoFailure
CHECK_DEADLOCK FALSE
