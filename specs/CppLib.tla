------------------------------- MODULE CppLib -------------------------------
(***************************************************************************)
(* The abstract C++ library handed to interrogate (C04, C05; meant to be   *)
(* extended by C01/C03/C11).                                               *)
(*                                                                         *)
(* The behaviour is the library: each step appends one file, one class     *)
(* head, one member (with the access label written in front of it), one    *)
(* namespace-scope declaration, or closes the class under construction;    *)
(* the last step chooses the tool configuration (min_vis, one .N command). *)
(* `lib` is therefore at every moment "the ground-truth model held by the  *)
(* generator that writes the header": the facts of every declaration are   *)
(* known by construction, never parsed back.                               *)
(*                                                                         *)
(*   lib.files[f]   = [src]     "cmd"  named on the command line           *)
(*                              "cwd"  #include "x" found in the cwd       *)
(*                              "adj"  found next to the including file    *)
(*                              "I" / "S" / "Sangle"  found through -I/-S  *)
(*                              "Icmd" found through -I, also on the cmdline*)
(*   lib.classes[c] = [file, key, region, ns, outer, at, bases, members]   *)
(*   member         = [k, lab, rc, ri, sig]                                *)
(*   lib.tops[t]    = [k, file, region, ns, rc, sig]                       *)
(*   lib.aliases[a] = [scope, at, file, form, wrap, tt, tc]  typedef/using *)
(*                    alias of class tc (tt = "cls") or of alias tc (tt =  *)
(*                    "alias"), the named type wrapped as `wrap`; declared *)
(*                    at namespace scope (scope = 0) or as member `at` of  *)
(*                    class `scope`                                        *)
(*   lib.order      = namespace-scope items in declaration order           *)
(*   lib.minvis, lib.cmd = the configuration                               *)
(***************************************************************************)
EXTENDS Integers, Sequences, FiniteSets, TLC

CONSTANTS
  MinVisSet,     \* subset of {"published", "public"} (public = -promiscuous)
  File2Srcs,     \* sources the optional second file may have; {} = one-file libraries
  ClassHeads,    \* <<key, region, ns>> of namespace-scope classes
  NestedKeys,    \* keys of nested classes ({} = no nested classes)
  MemberAlpha,   \* MemberAlpha[d]: member records allowed at nesting depth d \in {1, 2}
  MaxMembers,    \* MaxMembers[d]
  MaxClasses,
  BaseAlpha,     \* set of <<acc, virt>>; a later namespace-scope class may derive from earlier ones
  MaxBases,      \* length of a base list
  TopAlpha,      \* namespace-scope (non-class) declaration records
  MaxTops,
  ClassComments, \* comment styles a namespace-scope class may carry
  AliasAlpha,    \* set of <<form, wrap>>: form \in {"typedef","using"}, wrap \in {"plain","ptr","cptr","cref","rref"}
  MaxAliases,
  NestedLike,    \* BOOLEAN: a nested class may reuse the simple name of an earlier namespace-scope class
  CmdKinds       \* subset of {"ignoremember","ignoretype","ignoreinvolved","ignorefile","forcetype"}

VARIABLES lib, cur, done
libvars == <<lib, cur, done>>

Rank(v) == CASE v = "published" -> 0 [] v = "public" -> 1 [] v = "protected" -> 2 [] v = "private" -> 3
Labels == {"same", "published", "public", "protected", "private"}

NoSig == [role |-> "meth", ret |-> [b |-> "void", m |-> "val", c |-> 0], ps |-> <<>>]
\* cm: the documentation comment written on the line before the declaration ("" | "//" | "/*")
\* ra: the alias a signature names its type through (0 = none), uw: how the alias is used ("ptr" | "cref" | "val")
\* nm: the declared name when it is not the entity's unique marker (an operator, an overloaded name)
\* gi: the member (an accessor function of the same class) a MAKE_PROPERTY / MAKE_SEQ names (0 = none)
\* re: later declarations of the same function (redeclarations at namespace scope, the out-of-class definition of a
\*     member), each [n |-> parameters are named, cm |-> comment style]; defaults and the first comment live in sig / cm
Mem(k, lab) == [k |-> k, lab |-> lab, rc |-> 0, ri |-> 0, ra |-> 0, gi |-> 0, uw |-> "", nm |-> "", sig |-> NoSig, cm |-> "",
                re |-> <<>>]
Top(k, region, ns) == [k |-> k, file |-> 1, region |-> region, ns |-> ns, rc |-> 0, ri |-> 0, ra |-> 0, uw |-> "",
                       sig |-> NoSig, cm |-> "", re |-> <<>>]
NoCmd == [c |-> "none", k |-> 0, i |-> 0]

NC == Len(lib.classes)
NT == Len(lib.tops)
NA == Len(lib.aliases)
Ali(a) == lib.aliases[a]
Cls(c) == lib.classes[c]
Mbr(c, i) == lib.classes[c].members[i]
NM(c) == Len(lib.classes[c].members)
MinRank == Rank(lib.minvis)

---------------------------------------------------------------------------
(* Facts of a declaration: the visibility the grammar stamps on it.        *)

RECURSIVE InRegion(_)
InRegion(c) == IF Cls(c).outer = 0 THEN Cls(c).region ELSE InRegion(Cls(c).outer)

StartVis(c) == IF Cls(c).key = "class" THEN "private" ELSE "public"
\* inside a __begin_publish region `public:` means published (cppBison.yxx, KW_PUBLIC ':')
LabelVis(c, l) == IF l = "public" /\ InRegion(c) THEN "published" ELSE l

RECURSIVE VisAt(_, _)
VisAt(c, i) ==
  IF i = 0 THEN StartVis(c)
  ELSE LET l == Mbr(c, i).lab IN IF l = "same" THEN VisAt(c, i - 1) ELSE LabelVis(c, l)

\* visibility of the class declaration itself within its parent scope
ClassVis(c) ==
  IF Cls(c).outer # 0 THEN VisAt(Cls(c).outer, Cls(c).at)
  ELSE IF Cls(c).region THEN "published" ELSE "public"
TopVis(t) == IF lib.tops[t].region THEN "published" ELSE "public"

Depth(c) == IF Cls(c).outer = 0 THEN 1 ELSE 2

\* access of base b of class c: written out, or by default private for a class and public for a struct
\* (the key of the DERIVED class decides, [class.access.base])
BaseAcc(c, b) == LET a == Cls(c).bases[b].acc IN
  IF a # "default" THEN a ELSE IF Cls(c).key = "class" THEN "private" ELSE "public"

---------------------------------------------------------------------------
(* Construction of the library, one declaration per step.                  *)

Init ==
  /\ lib = [files |-> <<[src |-> "cmd"]>>, classes |-> <<>>, tops |-> <<>>, aliases |-> <<>>, order |-> <<>>,
            minvis |-> "published", cmd |-> NoCmd]
  /\ cur = 0
  /\ done = FALSE

NF == Len(lib.files)
\* the second file is #included at the top of file 1 (or parsed first): its declarations come first
File1Started == \E k \in 1..Len(lib.order) :
                   LET o == lib.order[k] IN IF o.t = "c" THEN Cls(o.id).file = 1
                                            ELSE IF o.t = "a" THEN Ali(o.id).file = 1 ELSE lib.tops[o.id].file = 1
FileChoices == IF NF = 2 /\ ~File1Started THEN {1, 2} ELSE {1}

AddFile ==
  /\ ~done /\ cur = 0 /\ NF = 1 /\ lib.order = <<>>
  /\ \E s \in File2Srcs : lib' = [lib EXCEPT !.files = Append(@, [src |-> s])]
  /\ UNCHANGED <<cur, done>>

\* what a signature may refer to: an earlier complete class, or an enum declared earlier in class c
ClassRefs(c) == {r \in 1..NC : r # c /\ (c = 0 \/ r # Cls(c).outer)}
\* plain, scoped (enum class), written on one line, written on one line with a comment in the enumerator list
\* ... or with an enumerator initialised by an expression the tool does not evaluate (sizeof)
EnumKinds == {"enum", "senum", "enum1", "enumc", "enumz"}
EnumRefs(c) == IF c = 0 THEN {} ELSE {i \in 1..NM(c) : Mbr(c, i).k = "enum"}
NeedsRef(k) == k \in {"usep", "user", "datap", "dataa", "usef", "tdefc", "ctorof"}
\* __make_property(name, getter) names a "getter" member, __make_seq(name, num_getter, element_getter) a "seqget" member
NeedsGetter(k) == k \in {"mprop", "mseq"}
\* ("getter2" takes two arguments, "seqbad"'s element accessor takes a float: unsuitable, but nameable)
GetterRefs(c, k) == {i \in 1..NM(c) : Mbr(c, i).k \in (IF k = "mprop" THEN {"getter", "getter2"} ELSE {"seqget", "seqbad"})}
NeedsEnum(k) == k \in {"usee"}
NeedsAlias(k) == k \in {"usea", "reta", "usefa"}

\* ---- aliases: the type an alias finally names, and the wrappers met on the way
RECURSIVE TargetClass(_), ChainWraps(_)
TargetClass(a) == IF Ali(a).tt = "cls" THEN Ali(a).tc ELSE TargetClass(Ali(a).tc)
ChainWraps(a) == (IF Ali(a).wrap = "plain" THEN {} ELSE {Ali(a).wrap})
                 \cup (IF Ali(a).tt = "cls" THEN {} ELSE ChainWraps(Ali(a).tc))
AliasVis(a) == IF Ali(a).scope = 0 THEN "public" ELSE VisAt(Ali(a).scope, Ali(a).at)
\* aliases a declaration in class c (0 = namespace scope) may name: declared before it, and accessible
AliasRefs(c) == {a \in 1..NA : Ali(a).scope = 0 \/ Ali(a).scope = c \/ Rank(AliasVis(a)) <= 1}

BaseOf(b, a) == [c |-> b, acc |-> a[1], virt |-> a[2]]
BaseCands == {x \in 1..NC : Cls(x).outer = 0}
BaseLists ==
  {<<>>} \cup {<<BaseOf(b, a)>> : b \in BaseCands, a \in BaseAlpha}
  \cup (IF MaxBases >= 2
         THEN {<<BaseOf(p[1], a1), BaseOf(p[2], a2)>> : p \in {q \in BaseCands \X BaseCands : q[1] # q[2]},
                                                            a1 \in BaseAlpha, a2 \in BaseAlpha}
         ELSE {})

AddClass ==
  /\ ~done /\ cur = 0 /\ NC < MaxClasses
  /\ \E h \in ClassHeads : \E f \in FileChoices :
     \E bs \in BaseLists : \E cm \in ClassComments :
       /\ lib' = [lib EXCEPT
             !.classes = Append(@, [file |-> f, key |-> h[1], region |-> h[2], ns |-> h[3],
                                     outer |-> 0, at |-> 0, bases |-> bs, members |-> <<>>, cm |-> cm, like |-> 0]),
             !.order = Append(@, [t |-> "c", id |-> NC + 1])]
       /\ cur' = NC + 1
  /\ UNCHANGED done

AddMember ==
  /\ ~done /\ cur # 0 /\ NM(cur) < MaxMembers[Depth(cur)]
  /\ \E m \in MemberAlpha[Depth(cur)] :
       \/ /\ ~NeedsRef(m.k) /\ ~NeedsEnum(m.k) /\ ~NeedsAlias(m.k) /\ ~NeedsGetter(m.k)
          /\ lib' = [lib EXCEPT !.classes[cur].members = Append(@, m)]
       \/ /\ NeedsGetter(m.k)
          /\ \E g \in GetterRefs(cur, m.k) : lib' = [lib EXCEPT !.classes[cur].members = Append(@, [m EXCEPT !.gi = g])]
       \/ /\ NeedsAlias(m.k)
          /\ \E a \in AliasRefs(cur) : lib' = [lib EXCEPT !.classes[cur].members = Append(@, [m EXCEPT !.ra = a])]
       \/ /\ NeedsRef(m.k)
          /\ \E r \in ClassRefs(cur) : lib' = [lib EXCEPT !.classes[cur].members = Append(@, [m EXCEPT !.rc = r])]
       \/ /\ NeedsEnum(m.k)
          /\ \E i \in EnumRefs(cur) : lib' = [lib EXCEPT !.classes[cur].members = Append(@, [m EXCEPT !.rc = cur, !.ri = i])]
  /\ UNCHANGED <<cur, done>>

\* a nested class is a member of kind "nclass" of the enclosing class and a class of its own
AddNested ==
  /\ ~done /\ cur # 0 /\ Depth(cur) = 1 /\ NC < MaxClasses /\ NM(cur) < MaxMembers[1]
  /\ \E key \in NestedKeys : \E l \in Labels :
     \E lk \in {0} \cup (IF NestedLike THEN {r \in 1..NC : r # cur /\ Cls(r).outer = 0} ELSE {}) :
       lib' = [lib EXCEPT
          !.classes = Append([@ EXCEPT ![cur].members = Append(@, [Mem("nclass", l) EXCEPT !.rc = NC + 1])],
                             [file |-> Cls(cur).file, key |-> key, region |-> FALSE, ns |-> Cls(cur).ns,
                              outer |-> cur, at |-> NM(cur) + 1, bases |-> <<>>, members |-> <<>>, cm |-> "",
                              like |-> lk])]
  /\ cur' = NC + 1
  /\ UNCHANGED done

CloseClass ==
  /\ ~done /\ cur # 0
  /\ cur' = Cls(cur).outer
  /\ UNCHANGED <<lib, done>>

AddTop ==
  /\ ~done /\ cur = 0 /\ NT < MaxTops
  /\ \E d \in TopAlpha : \E f \in FileChoices :
       \/ /\ ~NeedsRef(d.k) /\ ~NeedsAlias(d.k)
          /\ lib' = [lib EXCEPT !.tops = Append(@, [d EXCEPT !.file = f]), !.order = Append(@, [t |-> "t", id |-> NT + 1])]
       \/ /\ NeedsAlias(d.k)
          /\ \E a \in AliasRefs(0) :
               lib' = [lib EXCEPT !.tops = Append(@, [d EXCEPT !.file = f, !.ra = a]),
                                  !.order = Append(@, [t |-> "t", id |-> NT + 1])]
       \/ /\ NeedsRef(d.k)
          /\ \E r \in ClassRefs(0) :
               lib' = [lib EXCEPT !.tops = Append(@, [d EXCEPT !.file = f, !.rc = r]),
                                  !.order = Append(@, [t |-> "t", id |-> NT + 1])]
  /\ UNCHANGED <<cur, done>>

\* a typedef / using alias of a complete class or of an earlier alias, at namespace scope or as a class member
AliasTargets(c) == {[tt |-> "cls", tc |-> r] : r \in ClassRefs(c)} \cup {[tt |-> "alias", tc |-> a] : a \in AliasRefs(c)}
AddAlias ==
  /\ ~done /\ NA < MaxAliases
  /\ \E fw \in AliasAlpha : \E tg \in AliasTargets(cur) :
       \/ /\ cur = 0
          /\ \E f \in FileChoices :
               lib' = [lib EXCEPT !.aliases = Append(@, [scope |-> 0, at |-> 0, file |-> f, form |-> fw[1], wrap |-> fw[2],
                                                          tt |-> tg.tt, tc |-> tg.tc]),
                                  !.order = Append(@, [t |-> "a", id |-> NA + 1])]
       \/ /\ cur # 0 /\ Depth(cur) = 1 /\ NM(cur) < MaxMembers[1]
          /\ \E l \in Labels :
               lib' = [lib EXCEPT !.aliases = Append(@, [scope |-> cur, at |-> NM(cur) + 1, file |-> Cls(cur).file,
                                                          form |-> fw[1], wrap |-> fw[2], tt |-> tg.tt, tc |-> tg.tc]),
                                  !.classes[cur].members = Append(@, [Mem("alias", l) EXCEPT !.ra = NA + 1])]
  /\ UNCHANGED <<cur, done>>

\* the .N command (at most one: the commands are independent filters)
CmdChoices ==
  {NoCmd}
  \cup (IF "ignorefile" \in CmdKinds THEN {[c |-> "ignorefile", k |-> f, i |-> 0] : f \in 1..NF} ELSE {})
  \cup {[c |-> x, k |-> c, i |-> 0] : x \in CmdKinds \cap {"ignoretype", "ignoreinvolved", "forcetype"}, c \in 1..NC}
  \cup (IF "ignoremember" \in CmdKinds
          THEN UNION {{[c |-> "ignoremember", k |-> c, i |-> i] :
                         i \in {j \in 1..NM(c) : Mbr(c, j).k \in {"meth", "smeth", "data", "dtor", "ctor", "usep"}}} : c \in 1..NC}
          ELSE {})

Finish ==
  /\ ~done /\ cur = 0 /\ lib.order # <<>>
  /\ \E v \in MinVisSet : \E cm \in CmdChoices : lib' = [lib EXCEPT !.minvis = v, !.cmd = cm]
  /\ done' = TRUE
  /\ UNCHANGED cur

BuildNext == AddFile \/ AddClass \/ AddMember \/ AddNested \/ CloseClass \/ AddTop \/ AddAlias \/ Finish

---------------------------------------------------------------------------
(* Facts of an entity that the database must describe truthfully (C05).    *)
(* Types are [b, m, c]: b \in {"void","int","double","bool","cls"}, c = class id, m \in               *)
(* {"val","ptr","cptr","ref","cref"}; a parameter is [t, n (named), d (has a default argument)].       *)

AtomT(b) == [b |-> b, m |-> "val", c |-> 0]
ClsT(c, m) == [b |-> "cls", m |-> m, c |-> c]
Par(t, n, d) == [t |-> t, n |-> n, d |-> d]

\* the documented parameter remapping of handle-style wrappers (parameterRemap*.h): references and concrete
\* class values travel as pointers, constness of the pointee is kept
RemapT(t) == IF t.b = "cls" THEN [t EXCEPT !.m = IF t.m \in {"cptr", "cref"} THEN "cptr" ELSE "ptr"] ELSE t

RECURSIVE TrailingDefaults(_)
TrailingDefaults(ps) == IF ps = <<>> \/ ~ps[Len(ps)].d THEN 0 ELSE 1 + TrailingDefaults(SubSeq(ps, 1, Len(ps) - 1))
DefaultsTrail(ps) == \A q \in 1..Len(ps) : ps[q].d => \A r \in q..Len(ps) : ps[r].d

\* several declarations of one function: a parameter is named if ANY declaration names it (all use the same name here),
\* default arguments accumulate (here: given on the first declaration), each comment belongs to its own declaration
MergedSig(m) == [m.sig EXCEPT !.ps = [q \in 1..Len(m.sig.ps) |->
                   [m.sig.ps[q] EXCEPT !.n = m.sig.ps[q].n \/ \E r \in 1..Len(m.re) : m.re[r].n]]]
DeclComments(m) == <<m.cm>> \o [r \in 1..Len(m.re) |-> m.re[r].cm]

\* roles of a member function: "meth" | "const" | "static" | "virt" | "ctor"
HasThis(role) == role \notin {"static", "ctor"}
ThisPar(c, role) == [this |-> TRUE, idx |-> 0, named |-> TRUE, opt |-> FALSE,
                     t |-> ClsT(c, IF role = "const" THEN "cptr" ELSE "ptr")]
\* the wrapper variant that omits the last n default arguments: ordered parameters with their flags
Variant(c, s, n) ==
  (IF HasThis(s.role) THEN <<ThisPar(c, s.role)>> ELSE <<>>)
  \o [q \in 1..(Len(s.ps) - n) |-> [this |-> FALSE, idx |-> q, named |-> s.ps[q].n, opt |-> s.ps[q].d, t |-> RemapT(s.ps[q].t)]]
Variants(c, s) == {Variant(c, s, n) : n \in 0..TrailingDefaults(s.ps)}
\* return: a constructor and a function returning a class by value hand a new object to the caller
RetFacts(c, s) ==
  IF s.role = "ctor" THEN [has |-> TRUE, owns |-> TRUE, t |-> ClsT(c, "ptr")]
  ELSE [has |-> s.ret.b # "void", owns |-> s.ret.b = "cls" /\ s.ret.m = "val", t |-> RemapT(s.ret)]

\* the virtual role: a member function is virtual iff it is declared virtual or overrides (has the name and parameters
\* of) a function declared virtual in ANY direct or indirect base; members that share a name `nm` here share parameters
DeclaresName(c, n) == {i \in 1..NM(c) : Mbr(c, i).nm = n}
RECURSIVE VirtualIn(_, _)
VirtualIn(c, n) == (\E i \in DeclaresName(c, n) : Mbr(c, i).sig.role = "virt")
                   \/ \E b \in 1..Len(Cls(c).bases) : VirtualIn(Cls(c).bases[b].c, n)
InheritedVirtual(c, i) == Mbr(c, i).nm # "" /\ Mbr(c, i).sig.ps = <<>> /\ Mbr(c, i).sig.role \in {"meth", "virt", "over"}
                          /\ \E b \in 1..Len(Cls(c).bases) : VirtualIn(Cls(c).bases[b].c, Mbr(c, i).nm)
IsVirtualFn(c, i) == Mbr(c, i).k \in {"vmeth"} \/ (Mbr(c, i).k = "sig" /\ Mbr(c, i).sig.role = "virt") \/ InheritedVirtual(c, i)
\* where name lookup from class c finds n: in c itself, else in its bases, depth first in declaration order
RECURSIVE FirstDecl(_, _), FirstIn(_, _, _)
FirstIn(c, n, b) == IF b > Len(Cls(c).bases) THEN 0
                    ELSE LET d == FirstDecl(Cls(c).bases[b].c, n) IN IF d # 0 THEN d ELSE FirstIn(c, n, b + 1)
FirstDecl(c, n) == IF DeclaresName(c, n) # {} THEN c ELSE FirstIn(c, n, 1)
\* "if this function is a virtual function whose first appearance is in some base class, we don't need to repeat its
\* definition here": an override in a class with exactly one public non-virtual base is not listed again when every
\* declaration the base offers under that name is published (define_method, is_inherited_published)
SkipInherited(c, i) ==
  /\ InheritedVirtual(c, i)
  /\ Len(Cls(c).bases) = 1 /\ Rank(BaseAcc(c, 1)) <= 1 /\ ~Cls(c).bases[1].virt
  /\ LET d == FirstDecl(Cls(c).bases[1].c, Mbr(c, i).nm) IN
       d # 0 /\ \A j \in DeclaresName(d, Mbr(c, i).nm) : VisAt(d, j) = "published"

\* polymorphism and cast availability (define_struct_type)
OwnVirtual(c) == \E i \in 1..NM(c) : Mbr(c, i).k \in {"vmeth", "vdtor"} \/ (Mbr(c, i).k = "sig" /\ Mbr(c, i).sig.role = "virt")
                                       \/ InheritedVirtual(c, i)
RECURSIVE Poly(_)
Poly(c) == OwnVirtual(c) \/ \E b \in 1..Len(Cls(c).bases) : Poly(Cls(c).bases[b].c)
\* a destructor that overrides the virtual destructor of the only (public, non-virtual) base is not repeated: the
\* class records the destructor function it inherits (define_method, F_inherited_destructor)
DeclaresDtor(c) == \E i \in 1..NM(c) : Mbr(c, i).k \in {"dtor", "vdtor"}
RECURSIVE VirtualDtor(_)
VirtualDtor(c) == (\E i \in 1..NM(c) : Mbr(c, i).k = "vdtor") \/ \E b \in 1..Len(Cls(c).bases) : VirtualDtor(Cls(c).bases[b].c)
InheritsDtor(c) ==
  /\ DeclaresDtor(c) /\ Len(Cls(c).bases) = 1
  /\ Rank(BaseAcc(c, 1)) <= 1 /\ ~Cls(c).bases[1].virt
  /\ VirtualDtor(Cls(c).bases[1].c)
RECURSIVE DtorOwner(_)
DtorOwner(c) == IF InheritsDtor(c) THEN DtorOwner(Cls(c).bases[1].c) ELSE c

\* only public bases are recorded; a cast function is needed when the base sub-object may sit at another address
NeedsCast(c, b) == LET B == Cls(c).bases[b] IN
  B.virt \/ b # 1 \/ Len(Cls(c).bases) # 1 \/ (Poly(c) /\ ~Poly(B.c))
Derivations(c) ==
  {[base |-> Cls(c).bases[b].c, up |-> NeedsCast(c, b), down |-> NeedsCast(c, b) /\ ~Cls(c).bases[b].virt,
    impossible |-> Cls(c).bases[b].virt] : b \in {x \in 1..Len(Cls(c).bases) : Rank(BaseAcc(c, x)) <= 1}}

---------------------------------------------------------------------------
(* Model invariants (C05 "TLC": the ground truth is well formed).          *)

\* every entity has exactly one owner scope: a nested class is owned by exactly one "nclass" member,
\* a namespace-scope class / declaration by exactly one position of lib.order
OneOwner ==
  /\ \A c \in 1..NC :
       IF Cls(c).outer = 0
         THEN Cardinality({k \in 1..Len(lib.order) : lib.order[k] = [t |-> "c", id |-> c]}) = 1
         ELSE /\ Cls(c).outer < c
              /\ {<<o, i>> \in UNION {{<<o2, i2>> : i2 \in 1..NM(o2)} : o2 \in 1..NC} :
                     Mbr(o, i).k = "nclass" /\ Mbr(o, i).rc = c} = {<<Cls(c).outer, Cls(c).at>>}
  /\ \A t \in 1..NT : Cardinality({k \in 1..Len(lib.order) : lib.order[k] = [t |-> "t", id |-> t]}) = 1
  /\ \A a \in 1..NA :
       IF Ali(a).scope = 0 THEN Cardinality({k \in 1..Len(lib.order) : lib.order[k] = [t |-> "a", id |-> a]}) = 1
       ELSE Mbr(Ali(a).scope, Ali(a).at).k = "alias" /\ Mbr(Ali(a).scope, Ali(a).at).ra = a

\* a declaration only refers to what is declared before it (so the header is valid C++)
RefsBackward ==
  /\ \A c \in 1..NC : \A i \in 1..NM(c) :
       LET m == Mbr(c, i) IN
         /\ (NeedsRef(m.k) => m.rc \in 1..NC /\ m.rc # c /\ m.rc # Cls(c).outer)
         /\ (NeedsEnum(m.k) => m.rc = c /\ m.ri \in 1..(i - 1) /\ Mbr(c, m.ri).k = "enum")
  /\ \A c \in 1..NC : \A b \in 1..Len(Cls(c).bases) : Cls(c).bases[b].c < c
  /\ \A t \in 1..NT : NeedsRef(lib.tops[t].k) => lib.tops[t].rc \in 1..NC
  /\ \A a \in 1..NA : (Ali(a).tt = "alias" => Ali(a).tc < a) /\ TargetClass(a) \in 1..NC

VisIsFunction == \A c \in 1..NC : \A i \in 0..NM(c) : VisAt(c, i) \in {"published", "public", "protected", "private"}
=============================================================================
