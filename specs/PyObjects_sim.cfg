SPECIFICATION SimSpec
CONSTANTS
  MaxInst = 6
  MaxWrappers = 5
  MaxDepth = 24
  MaxMarks = 4
INVARIANT AtMostOnce
INVARIANT OnlyViaOwner
INVARIANT OneOwner
INVARIANT OwnerIsPy
INVARIANT NoLeak
INVARIANT FinalAccounting
INVARIANT ConstRaises
CONSTRAINT SimConstraint
CHECK_DEADLOCK FALSE
