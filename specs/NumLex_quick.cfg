SPECIFICATION Spec
CONSTANTS
  Chars <- CharsQuick
  UDigits = {"0", "a", "F"}
  MaxLen = 4
INVARIANT HornerOK
INVARIANT SepOK
INVARIANT RangeOK
INVARIANT SufOK
INVARIANT PrefixOK
CONSTRAINT DumpConstraint
CHECK_DEADLOCK FALSE
