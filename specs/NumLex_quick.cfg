SPECIFICATION Spec
CONSTANTS
  Chars = {"0", "1", "7", "9", "a", "F", "x", "b", "'", "\\", "u", "l", "L", "n"}
  MaxLen = 5
INVARIANT HornerOK
INVARIANT SepOK
INVARIANT RangeOK
INVARIANT SufOK
CONSTRAINT DumpConstraint
CHECK_DEADLOCK FALSE
