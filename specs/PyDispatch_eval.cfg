SPECIFICATION EvalSpec
CONSTANTS
  MaxOverloads = 3
  MaxParams = 2
  ParamCats <- Cats1
  IntVals <- AllIntVals
  IntVals2 <- FewIntVals
  ArgKinds <- AllArgKinds
  Kinds = {"method", "static"}
  NameModes <- BothNames
  ConstMethods = TRUE
  Fixed <- NoFix
INVARIANT TiesHarmless
CONSTRAINT EvalConstraint
CHECK_DEADLOCK FALSE
