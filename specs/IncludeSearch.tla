---------------------------- MODULE IncludeSearch ----------------------------
(***************************************************************************)
(* Include lookup, file ownership and once-only inclusion (property C17).  *)
(*                                                                         *)
(* PART 1 - lookup.  A case is: the set of directories in which a header   *)
(* of the requested name exists, out of                                    *)
(*     cwd   the working directory (-srcdir when given)                    *)
(*     inc   the directory of the including file                          *)
(*     I1,I2 directories given with -I      S1,S2 directories given with -S*)
(* the command line (a sequence of distinct -I/-S directories, any subset  *)
(* in any order), the include form, -noangles, whether the including file  *)
(* lives in the working directory, and which candidate (if any) is also    *)
(* named on the command line.                                              *)
(*                                                                         *)
(* REFERENCE = the rule as the property states it:                         *)
(*   "x": the working directory, then the including file's directory, then *)
(*        the -I/-S directories in command-line order;                     *)
(*   <x>: only the -S directories (in command-line order); under -noangles *)
(*        <x> is treated like "x";                                         *)
(*   not found: skipped (with a warning);                                  *)
(*   ownership: local <=> named on the command line \/ found in the        *)
(*        working directory; a -S hit is a system file, every other hit an *)
(*        alternate one.                                                   *)
(* MECHANISM = CPPPreprocessor::find_include's probes as the code does     *)
(* them, over the path lists the tools build (interrogate.cxx /            *)
(* parse_file.cxx: -I appends to _quote_include_path with kind S_alternate,*)
(* -S appends to _angle_include_path AND to _quote_include_path with kind  *)
(* S_system), including DSearchPath::find_file's rule that an EMPTY search *)
(* path means ".", followed by handle_include_directive's _explicit_files  *)
(* override.                                                               *)
(*                                                                         *)
(* Refines (invariant): mechanism result = reference result, for every     *)
(* case.  Two constants document deviations of the code that are being     *)
(* repaired; the registered configuration is the intended behaviour:       *)
(*   EmptyAnglePathIsCwd  (code before c17-fix-2: with no -S at all,       *)
(*                         <x> is satisfied from the working directory)    *)
(*   ExplicitByCanonical  (code before c17-fix-3 compares the *canonical*  *)
(*                         name of the hit with the *absolute* (lexically  *)
(*                         normalised) names of the command-line files;    *)
(*                         they differ when the command-line spelling goes *)
(*                         through a symbolic link)                        *)
(*                                                                         *)
(* PART 2 - once-only.  The same physical file is included several times   *)
(* under different spellings of its path (and possibly named on the        *)
(* command line).  REFERENCE: a file protected by #pragma once or an       *)
(* include guard contributes its declarations once; an unprotected file    *)
(* once per inclusion.  MECHANISM: _parsed_files is a set of CPPFile       *)
(* ordered by the canonical file name (make_canonical = realpath);         *)
(* #pragma once sets a flag on the entry of the current file; an include   *)
(* (or command-line parse) whose canonical name is in the set with the     *)
(* flag is skipped.  That all spellings of one file have one canonical     *)
(* name is PathNorm's CanonUnique.                                         *)
(*                                                                         *)
(* PART 3 - ownership of a command-line file that is reached through an    *)
(* #include first.  Two headers A and B are named on the command line, A   *)
(* includes B.  The case ranges over: how B is spelled on the command line *)
(* (plain / through a symlinked directory / with "./" and "sub/.."), how   *)
(* A's #include finds it (next to the includer, written "b.h", "./b.h" or  *)
(* "sub/../b.h"; through -I given as a plain directory, as a symbolic link *)
(* to it, or as a relative name with ".."), the order of A and B on the    *)
(* command line, whether the working directory is the headers' directory,  *)
(* and B's protection (#pragma once / include guard / none).  B may also   *)
(* live in a -S directory and be reached by "b.h" through -S or by <b.h>:  *)
(* being named on the command line makes it the user's own all the same    *)
(* (the statement's "never when found through -S" speaks of files that are *)
(* NOT named on the command line).                                         *)
(* REFERENCE: a file named on the command line - under any spelling that   *)
(* denotes it - is the user's own however it is first reached; its         *)
(* published declarations are exported exactly once (an unprotected file   *)
(* is read twice and declares everything twice, both times as own).        *)
(* MECHANISM: _explicit_files holds the names of the command-line files    *)
(* (canonical since c17-fix-3); handle_include_directive canonicalises the *)
(* name find_include hands back and looks THAT up (LookupCanonical; FALSE  *)
(* documents the deviation "membership test before make_canonical()", for  *)
(* which only a found name that happens to be canonical already matches);  *)
(* declarations keep the source class of the CPPFile they were read with;  *)
(* a #pragma once file already in _parsed_files is not read again, so a    *)
(* wrong class at the first reach is never corrected.                      *)
(*                                                                         *)
(* PART 4 - include chains.  main.h (named on the command line) includes   *)
(* "d1/f1.h", which includes "d2/f2.h" (depth 3 only), whose last file     *)
(* includes "sib.h".  Every intermediate file exists in exactly one place, *)
(* given by the WAY its link is found: relative to the working directory,  *)
(* next to its includer (also spelled "dk/../dk/fk.h"), through -I, -S, a  *)
(* -I directory that is a symbolic link, or a -I directory spelled         *)
(* "link/.." through a symbolic link.  "sib.h" exists in any subset of:    *)
(* the working directory, main.h's directory, the directory of its         *)
(* includer (RDIR), the directory one gets by reading the includer's name  *)
(* AS REFERENCED relative to the working directory (REFDIR), I1, S1, I2.   *)
(* REFERENCE: at every depth "the including file's directory" is the       *)
(* RESOLVED directory of that file, however the file was itself found;     *)
(* order cwd, includer's directory, -I/-S in command-line order; a -I/-S   *)
(* directory denotes what the operating system says it denotes.            *)
(* MECHANISM: find_include takes get_file()._filename.get_dirname()        *)
(* (IncluderDirResolved; FALSE documents the deviation "dirname of         *)
(* _filename_as_referenced", which agrees only for files found relative to *)
(* the working directory); interrogate resolves the option directories     *)
(* with make_canonical() (OptDirsPhysical; FALSE = the code before         *)
(* c17-fix-4, make_absolute(), which collapses "link/.." textually).       *)
(***************************************************************************)
EXTENDS Naturals, Sequences, FiniteSets, TLC

CONSTANTS EmptyAnglePathIsCwd, ExplicitByCanonical, KeyByCanonical, LookupCanonical, PromoteSystemHits,
          IncluderDirResolved, OptDirsPhysical,
          MaxIncludes      \* bound of part 2

OptDirs == {"I1", "S1", "I2", "S2"}
Dirs == {"cwd", "inc"} \cup OptDirs
IsS(d) == d \in {"S1", "S2"}
Forms == {"quote", "angle"}
\* spellings of the path of one header (part 2); "cmdline" = named on the command line (top-level parse),
\* "symlink" = through a symbolic link to its directory, "viaI" = found through a -I directory that is itself
\* spelled with a symbolic link, ".." and repeated slashes ("//" inside the #include text is undefined in C)
Spellings == {"plain", "dot", "dotdot", "symlink", "abs", "viaI", "cmdline"}
Guards == {"pragma", "guard", "none"}
\* part 3
CmdSpells == {"plain", "symlink", "dots"}
Reaches == {"incPlain", "incDot", "incDotDot", "Iplain", "Isymlink", "Idotdot",
            "Splain", "Sangle"}     \* B lives in a -S directory: reached by "b.h" resolved through -S / by <b.h>
Orders == {"AB", "BA"}
NoOwn == [cmdSpell |-> "none", reach |-> "none", order |-> "none", cwdHas |-> FALSE]
\* part 4
Ways == {"cwd", "incdir", "dotdot", "I", "S", "Ilink", "Ilinkdd"}
LeafPlaces == {"CWD", "MAIN", "RDIR", "REFDIR", "I1", "S1", "I2"}
NoChain == [ways |-> <<>>, cmd |-> <<>>, leafAt |-> {}, level |-> 0]

VARIABLES
  present, cmd, form, noangles, incIsCwd, explicit, explicitViaLink,   \* the case (part 1)
  phase,                      \* "case" -> "resolved" ; part 2: "once"
  rres, mres,                 \* reference / mechanism result: [dir, src]
  guard, spelled,             \* part 2: protection of the file, spellings included so far
  parsed, pragma, defined,    \* mechanism: keys in _parsed_files, keys with _pragma_once, guard macro defined
  mcount, rcount,             \* contributions counted by mechanism / reference (part 3: database entries)
  own,                        \* part 3: the case [cmdSpell, reach, order, cwdHas] (NoOwn elsewhere)
  chain                       \* part 4: the case [ways, cmd, leafAt] and the depth reached (NoChain elsewhere)

vars == <<present, cmd, form, noangles, incIsCwd, explicit, explicitViaLink, phase, rres, mres,
          guard, spelled, parsed, pragma, defined, mcount, rcount, own, chain>>

Range(s) == {s[i] : i \in 1..Len(s)}

\* all sequences of distinct option directories
RECURSIVE Perms(_)
Perms(S) == IF S = {} THEN {<<>>}
            ELSE UNION {{<<x>> \o p : p \in Perms(S \ {x})} : x \in S}
CmdLines == UNION {Perms(S) : S \in SUBSET OptDirs}

Has(d) == IF d = "inc" /\ incIsCwd THEN "cwd" \in present ELSE d \in present
NotFound == [dir |-> "none", src |-> "none"]

\* first directory of the sequence in which the header exists
RECURSIVE First(_)
First(s) == IF s = <<>> THEN "none"
            ELSE IF Has(s[1]) THEN s[1] ELSE First(Tail(s))
SelectSeq2(s, P(_)) == SelectSeq(s, P)

---------------------------------------------------------------------------
(* Reference *)
AsQuote == form = "quote" \/ noangles
RefList == IF AsQuote THEN <<"cwd", "inc">> \o cmd ELSE SelectSeq(cmd, IsS)
NamedOnCmdLine(d) == d # "none" /\ d = explicit
RefSrc(d) ==
  IF d = "none" THEN "none"
  ELSE IF NamedOnCmdLine(d) \/ d = "cwd" \/ (d = "inc" /\ incIsCwd) THEN "local"
  ELSE IF IsS(d) THEN "system" ELSE "alternate"
Ref == LET d == First(RefList) IN [dir |-> d, src |-> RefSrc(d)]

(* Mechanism *)
AngleQuotes == form = "angle" /\ ~noangles      \* handle_include_directive: angle_quotes
QuotePath == cmd                                \* _quote_include_path, _quote_include_kind[i] = Kind(cmd[i])
AnglePath == SelectSeq(cmd, IsS)                \* _angle_include_path
Kind(d) == IF IsS(d) THEN "system" ELSE "alternate"

FindInclude ==
  IF ~AngleQuotes /\ Has("cwd")                       \* filename.exists()
    THEN [dir |-> "cwd", src |-> "local"]
  ELSE IF ~AngleQuotes /\ Has("inc")                  \* Filename(get_file()._filename.get_dirname(), filename)
    THEN [dir |-> "inc", src |-> "alternate"]
  ELSE IF AngleQuotes                                 \* filename.resolve_filename(_angle_include_path)
    THEN IF AnglePath = <<>> /\ EmptyAnglePathIsCwd   \*   DSearchPath::find_file: empty path == "."
           THEN IF Has("cwd") THEN [dir |-> "cwd", src |-> "system"] ELSE NotFound
           ELSE LET d == First(AnglePath) IN
                IF d = "none" THEN NotFound ELSE [dir |-> d, src |-> "system"]
  ELSE LET d == First(QuotePath) IN                   \* the loop over _quote_include_path
       IF d = "none" THEN NotFound ELSE [dir |-> d, src |-> Kind(d)]

\* handle_include_directive: filename.make_canonical(); if (_explicit_files.count(filename)) source = S_local
InExplicitFiles(d) ==
  d = explicit /\ (ExplicitByCanonical \/ ~explicitViaLink)
Mech ==
  LET r == FindInclude IN
    IF r.dir # "none" /\ InExplicitFiles(r.dir) THEN [r EXCEPT !.src = "local"]
    \* a hit in the including file's directory when that IS the working directory was already found by probe 1
    ELSE r

\* the two machines name the same directory when inc and cwd coincide
NormDir(d) == IF d = "inc" /\ incIsCwd THEN "cwd" ELSE d
Norm(r) == [r EXCEPT !.dir = NormDir(r.dir)]

---------------------------------------------------------------------------
InitCase ==
  /\ present \in SUBSET Dirs
  /\ cmd \in CmdLines
  /\ form \in Forms
  /\ noangles \in BOOLEAN
  /\ incIsCwd \in BOOLEAN
  /\ incIsCwd => "inc" \notin present          \* one directory: its presence is that of cwd
  \* a candidate also named on the command line; -S candidates are left out: the property's
  \* "never when found through -S" and "named on the command line" would both apply
  /\ explicit \in {"none", "inc", "I1", "I2"}
  /\ explicitViaLink \in BOOLEAN
  /\ explicit = "none" => ~explicitViaLink
  /\ explicit # "none" => explicit \in present     \* a file named on the command line exists
  /\ (explicit = "inc" => ~incIsCwd)
  /\ phase = "case" /\ rres = NotFound /\ mres = NotFound
  /\ guard = "none" /\ spelled = <<>> /\ parsed = {} /\ pragma = {} /\ defined = FALSE
  /\ mcount = 0 /\ rcount = 0 /\ own = NoOwn /\ chain = NoChain

Resolve ==
  /\ phase = "case"
  /\ rres' = Norm(Ref) /\ mres' = Norm(Mech)
  /\ phase' = "resolved"
  /\ UNCHANGED <<present, cmd, form, noangles, incIsCwd, explicit, explicitViaLink,
                 guard, spelled, parsed, pragma, defined, mcount, rcount, own, chain>>

Refines == phase = "resolved" => mres = rres

\* sanity of the reference itself
RefSane ==
  phase = "resolved" =>
    /\ (rres.dir = "none") <=> (rres.src = "none")
    /\ rres.dir # "none" => Has(rres.dir)
    /\ (form = "angle" /\ ~noangles /\ rres.dir # "none") => IsS(rres.dir)
    /\ rres.src = "local" <=> (rres.dir = "cwd" \/ (rres.dir # "none" /\ rres.dir = explicit))
    /\ IsS(rres.dir) => rres.src = "system"

---------------------------------------------------------------------------
(* PART 2: once-only inclusion *)
KeyOf(s) == IF KeyByCanonical THEN "F" ELSE s      \* canonical name of the file under spelling s

InitOnce ==
  /\ present = {} /\ cmd = <<>> /\ form = "quote" /\ noangles = FALSE /\ incIsCwd = FALSE
  /\ explicit = "none" /\ explicitViaLink = FALSE
  /\ phase = "once" /\ rres = NotFound /\ mres = NotFound
  /\ guard \in Guards /\ spelled = <<>> /\ parsed = {} /\ pragma = {} /\ defined = FALSE
  /\ mcount = 0 /\ rcount = 0 /\ own = NoOwn /\ chain = NoChain

\* one inclusion (push_file + parse of the body) or command-line parse of the file under spelling s
IncludeSpelled(s) ==
  /\ phase = "once" /\ Len(spelled) < MaxIncludes
  /\ s = "cmdline" => "cmdline" \notin Range(spelled)
  /\ spelled' = Append(spelled, s)
  /\ rcount' = IF guard = "none" \/ spelled = <<>> THEN rcount + 1 ELSE rcount
  /\ LET k == KeyOf(s) IN
       IF k \in parsed /\ k \in pragma
         THEN UNCHANGED <<parsed, pragma, defined, mcount>>       \* "Don't include it if we included it before and it had #pragma once"
         ELSE /\ parsed' = parsed \cup {k}                         \* push_file: _parsed_files.insert(file)
              /\ pragma' = IF guard = "pragma" THEN pragma \cup {k} ELSE pragma
              /\ defined' = (defined \/ guard = "guard")
              /\ mcount' = IF guard = "guard" /\ defined THEN mcount ELSE mcount + 1
  /\ UNCHANGED <<present, cmd, form, noangles, incIsCwd, explicit, explicitViaLink, phase, rres, mres, guard, own, chain>>

OnceOnly == phase = "once" => mcount = rcount

---------------------------------------------------------------------------
(* PART 3: a command-line file first reached through an #include *)
InitOwn ==
  /\ present = {} /\ cmd = <<>> /\ form = "quote" /\ noangles = FALSE /\ incIsCwd = FALSE
  /\ explicit = "none" /\ explicitViaLink = FALSE
  /\ phase = "own" /\ rres = NotFound /\ mres = NotFound
  /\ guard \in Guards /\ spelled = <<>> /\ parsed = {} /\ pragma = {} /\ defined = FALSE
  /\ mcount = 0 /\ rcount = 0
  /\ own \in [cmdSpell : CmdSpells, reach : Reaches, order : Orders, cwdHas : BOOLEAN]
  /\ chain = NoChain

\* is the name find_include hands back for B (before make_canonical) already B's canonical name?
\* probe 1 (the working directory) finds B: quoted includes only, and only when cwd is B's directory
FoundInCwd == own.cwdHas /\ own.reach # "Sangle"
FoundIsCanonical ==
  CASE FoundInCwd -> FALSE                                \* the name as written, relative; S_local already
    [] own.reach = "incPlain" -> TRUE                     \* dirname(canonical includer) + "/b.h"
    [] own.reach \in {"incDot", "incDotDot"} -> FALSE     \* ... + "/./b.h", ... + "/sub/../b.h"
    [] own.reach \in {"Iplain", "Splain", "Sangle"} -> TRUE   \* <canonical -I/-S directory> + "/b.h"
    [] own.reach = "Idotdot" -> TRUE                      \* the ".." of the option is resolved (no symbolic link crossed)
    [] own.reach = "Isymlink" -> OptDirsPhysical          \* make_canonical (c17-fix-4) resolves the link, make_absolute did not
\* is the name kept in _explicit_files B's canonical name?  ("dots" is collapsed lexically by make_absolute too)
StoredIsCanonical == ExplicitByCanonical \/ own.cmdSpell # "symlink"
\* handle_include_directive: _explicit_files.count(<canonical name | name as found>)
OwnInExplicit == StoredIsCanonical /\ (LookupCanonical \/ FoundIsCanonical)
\* the class find_include hands back
FoundSrc == IF FoundInCwd THEN "local" ELSE IF own.reach \in {"Splain", "Sangle"} THEN "system" ELSE "alternate"
\* ... and after the command-line promotion, which applies to EVERY class (PromoteSystemHits = FALSE documents the
\* deviation "a file from a system directory never is [the user's own]")
IncludeSrc == IF FoundSrc # "local" /\ OwnInExplicit /\ (FoundSrc # "system" \/ PromoteSystemHits) THEN "local" ELSE FoundSrc

\* the source classes with which B's declarations enter the parse, in order
Contrib(incSrc) ==
  IF own.order = "AB" THEN <<incSrc>> \o (IF guard = "none" THEN <<"local">> ELSE <<>>)
                      ELSE <<"local">> \o (IF guard = "none" THEN <<incSrc>> ELSE <<>>)
Entries(c) == Cardinality({i \in 1..Len(c) : c[i] = "local"})     \* exported declarations of one name

ResolveOwn ==
  /\ phase = "own"
  /\ mres' = [dir |-> "B", src |-> IncludeSrc] /\ rres' = [dir |-> "B", src |-> "local"]
  /\ mcount' = Entries(Contrib(IncludeSrc)) /\ rcount' = Entries(Contrib("local"))
  /\ phase' = "owned"
  /\ UNCHANGED <<present, cmd, form, noangles, incIsCwd, explicit, explicitViaLink,
                 guard, spelled, parsed, pragma, defined, own, chain>>

OwnRefines ==
  phase = "owned" =>
    /\ mres = rres                                  \* classified as the user's own at the first reach
    /\ mcount = rcount /\ rcount >= 1               \* exported ...
    /\ guard # "none" => rcount = 1                 \* ... exactly once when protected

---------------------------------------------------------------------------
(* PART 4: include chains *)
\* the resolved directory of the k-th file of the chain, as a sequence of names (k stands for "d<k>")
RECURSIVE RDir(_, _)
RDir(w, k) ==
  IF k = 0 THEN <<"MAIN">>
  ELSE CASE w[k] = "cwd" -> <<"CWD", k>>
         [] w[k] \in {"incdir", "dotdot"} -> Append(RDir(w, k - 1), k)
         [] w[k] = "I" -> <<"I1", k>>
         [] w[k] = "S" -> <<"S1", k>>
         [] w[k] \in {"Ilink", "Ilinkdd"} -> <<"REAL", k>>
\* dirname of the file's name as referenced ("d<k>/f<k>.h"; main.h: as given on the command line), read
\* relative to the working directory
RefDir(w, k) == IF k = 0 THEN <<"MAIN">> ELSE <<"CWD", k>>
IncluderDir(w, k) == IF IncluderDirResolved THEN RDir(w, k) ELSE RefDir(w, k)
\* the directory a -I/-S option denotes: LNK is a symbolic link to REAL; LNKDD is "lnk2/.." where lnk2 is a
\* symbolic link to REAL/zz, i.e. REAL for the operating system and the link's own parent when ".." is
\* collapsed textually
PhysRoot(d) == IF d \in {"LNK", "LNKDD"} THEN "REAL" ELSE d               \* reference: what the OS says
OptRoot(d) == IF d = "LNKDD" /\ ~OptDirsPhysical THEN "ROOT" ELSE PhysRoot(d)   \* mechanism
ChainDepth == Len(chain.ways) + 1

FirstOpt(s, P(_)) ==
  LET hits == {i \in 1..Len(s) : P(s[i])} IN
    IF hits = {} THEN "none" ELSE s[CHOOSE i \in hits : \A j \in hits : i <= j]

\* an intermediate file "d<k>/f<k>.h" exists only in RDir(ways, k)
FindMid(incdir, k, Root(_)) ==
  LET w == chain.ways
      target == RDir(w, k)
      d == FirstOpt(chain.cmd, LAMBDA x : <<Root(x), k>> = target) IN
  IF <<"CWD", k>> = target THEN [dir |-> "R", src |-> "local"]
  ELSE IF Append(incdir, k) = target THEN [dir |-> "R", src |-> "alternate"]
  ELSE IF d = "none" THEN NotFound ELSE [dir |-> "R", src |-> Kind(d)]

\* "sib.h", included by the last file of the chain
FindLeaf(incplace) ==
  LET d == FirstOpt(chain.cmd, LAMBDA x : x \in chain.leafAt) IN
  IF "CWD" \in chain.leafAt THEN [dir |-> "CWD", src |-> "local"]
  ELSE IF incplace \in chain.leafAt THEN [dir |-> incplace, src |-> "alternate"]
  ELSE IF d = "none" THEN NotFound ELSE [dir |-> d, src |-> Kind(d)]
LastK == Len(chain.ways)
SameDirs == RDir(chain.ways, LastK) = RefDir(chain.ways, LastK)
MechLeafPlace == IF IncluderDirResolved \/ SameDirs THEN "RDIR" ELSE "REFDIR"

InitChain ==
  /\ present = {} /\ cmd = <<>> /\ form = "quote" /\ noangles = FALSE /\ incIsCwd = FALSE
  /\ explicit = "none" /\ explicitViaLink = FALSE
  /\ phase = "chain" /\ rres = NotFound /\ mres = NotFound
  /\ guard = "none" /\ spelled = <<>> /\ parsed = {} /\ pragma = {} /\ defined = FALSE
  /\ mcount = 0 /\ rcount = 0 /\ own = NoOwn
  /\ \E w \in {<<a>> : a \in Ways} \cup {<<a, b>> : a \in Ways, b \in Ways} :
     \E c \in Perms({"I1", "S1", "I2"}) :
     \E la \in SUBSET LeafPlaces :
       /\ (RDir(w, Len(w)) = RefDir(w, Len(w))) => "REFDIR" \notin la
       /\ chain = [ways |-> w,
                   cmd |-> (IF \E i \in 1..Len(w) : w[i] = "Ilink" THEN <<"LNK">> ELSE <<>>) \o c
                           \o (IF \E i \in 1..Len(w) : w[i] = "Ilinkdd" THEN <<"LNKDD">> ELSE <<>>),
                   leafAt |-> la, level |-> 1]

\* one #include of the chain: the file at depth `level` is looked up from the file at depth level - 1
ChainStep ==
  /\ phase = "chain" /\ chain.level <= ChainDepth
  /\ IF chain.level <= LastK
       THEN /\ rres' = FindMid(RDir(chain.ways, chain.level - 1), chain.level, PhysRoot)
            /\ mres' = FindMid(IncluderDir(chain.ways, chain.level - 1), chain.level, OptRoot)
       ELSE /\ rres' = FindLeaf("RDIR")
            /\ mres' = FindLeaf(MechLeafPlace)
  /\ chain' = [chain EXCEPT !.level = @ + 1]
  /\ UNCHANGED <<present, cmd, form, noangles, incIsCwd, explicit, explicitViaLink, phase,
                 guard, spelled, parsed, pragma, defined, mcount, rcount, own>>

ChainRefines == phase = "chain" => mres = rres
\* the reference finds every intermediate file (the chains are well formed)
ChainSane == (phase = "chain" /\ chain.level > 1 /\ chain.level <= ChainDepth) => rres.dir = "R"

---------------------------------------------------------------------------
Init == InitCase \/ InitOnce \/ InitOwn \/ InitChain
Next == Resolve \/ ResolveOwn \/ ChainStep \/ \E s \in Spellings : IncludeSpelled(s)
Spec == Init /\ [][Next]_vars
=============================================================================
