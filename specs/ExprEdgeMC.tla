---------------------------- MODULE ExprEdgeMC ----------------------------
(* Model-checking wrapper of ExprEdge: every complete expression (operator, operand classes) with the
   language's verdict and the evaluator's hazard; vf/checks/c15.py renders each into every context
   that evaluates (#if, #elif, static_assert, array bound, enumerator, template argument, default
   argument, -D value, macro used in #if, exported #define), batched per context. *)
EXTENDS ExprEdge, Json, CSV, IOUtils

DumpFile == IF "VERIF_DUMP" \in DOMAIN IOEnv THEN IOEnv.VERIF_DUMP ELSE ""

DumpConstraint ==
  IF DumpFile # "" /\ Complete
    THEN CSVWrite("%1$s", <<ToJson([op |-> op, l |-> l, r |-> r, wf |-> WellFormed, hz |-> Hazard])>>, DumpFile)
    ELSE TRUE
=============================================================================
