---------------------------- MODULE IdbFileHistMC ----------------------------
(* Dump of every completed history of IdbFileHist, replayed into ONE library process by vf/checks/c12.py. *)
EXTENDS IdbFileHist, Json, CSV, IOUtils

DumpFile == IF "VERIF_DUMP" \in DOMAIN IOEnv THEN IOEnv.VERIF_DUMP ELSE ""

HRec ==
  LET all == Append(past, [db |-> db, minor |-> hdr.minor, first |-> FirstOfCurrent])
      asdb == [id |-> temp.id, lib |-> temp.lib, hash |-> temp.hash, mod |-> temp.mod] @@ Tables(glob)
  IN [hist |-> TRUE, a |-> par.a, pre |-> par.pre,
      files |-> [i \in 1..Len(all) |-> WriteDb(all[i].db, all[i].minor)],
      minors |-> [i \in 1..Len(all) |-> all[i].minor],
      err |-> err, gnext |-> glob.next, glob |-> Tables(glob), defs |-> HistDefs,
      hdrs |-> [id |-> temp.id, lib |-> temp.lib, hash |-> temp.hash, mod |-> temp.mod],
      rw |-> WriteDb(asdb, 3)]

HDumpConstraint ==
  IF DumpFile # "" /\ pc = "done" /\ queue = <<>> THEN CSVWrite("%1$s", <<ToJson(HRec)>>, DumpFile) ELSE TRUE
=============================================================================
