---------------------------- MODULE IdbFileHistMC ----------------------------
(* Dump of every completed history of IdbFileHist, replayed into ONE library process by vf/checks/c12.py. *)
EXTENDS IdbFileHist, Json, CSV, IOUtils

DumpFile == IF "VERIF_DUMP" \in DOMAIN IOEnv THEN IOEnv.VERIF_DUMP ELSE ""

HRec ==
  LET all == Append(past, Current(glob.next # FirstOfCurrent))
      asdb == [id |-> temp.id, lib |-> temp.lib, hash |-> temp.hash, mod |-> temp.mod] @@ Tables(glob)
      F(i) == [db |-> all[i].db, minor |-> all[i].minor, kind |-> all[i].kind]
  IN [hist |-> TRUE, a |-> par.a, pre |-> par.pre,
      files |-> [i \in 1..Len(all) |-> HistStream(F(i))],
      minors |-> [i \in 1..Len(all) |-> all[i].minor],
      kinds |-> [i \in 1..Len(all) |-> all[i].kind],
      defids |-> [i \in 1..Len(all) |-> HistHdr(F(i)).defid],
      flags |-> FlagsAfter([i \in 1..Len(all) |-> all[i].kind]),
      err |-> err, gnext |-> glob.next, glob |-> Tables(glob), defs |-> HistDefs,
      hdrs |-> [id |-> temp.id, lib |-> temp.lib, hash |-> temp.hash, mod |-> temp.mod],
      rw |-> WriteDb(asdb, 3)]

HDumpConstraint ==
  IF DumpFile # "" /\ pc = "done" /\ queue = <<>> THEN CSVWrite("%1$s", <<ToJson(HRec)>>, DumpFile) ELSE TRUE
=============================================================================
