SPECIFICATION Spec
CONSTANTS
  MaxOverloads = 2
  MaxParams = 1
  ParamCats <- CatsCo
  IntVals <- TinyIntVals
  IntVals2 <- TinyIntVals
  ArgKinds <- CoArgKinds
  Kinds = {"method", "static"}
  NameModes <- SameNames
  ConstMethods = FALSE
  Fixed <- NoFix
INVARIANT RefinesAndTies
CONSTRAINT DumpConstraint
CHECK_DEADLOCK FALSE
