SPECIFICATION Spec
CONSTANTS
  MaxLen = 5
  Kinds <- AllKinds
  SameLineConsumes = FALSE
INVARIANT Refines
INVARIANT NoSharing
INVARIANT RefNoSharing
INVARIANT Adjacent
CONSTRAINT DumpConstraint
CHECK_DEADLOCK FALSE
