------------------------------- MODULE Repro -------------------------------
(***************************************************************************)
(* Reproducibility (property C14): the output of a run is a function of    *)
(* the inputs alone.                                                       *)
(*                                                                         *)
(* The INPUT is the behaviour: in phase "build" every step appends one     *)
(* overload (a tuple of parameter-type categories) to the overload set of  *)
(* one published function.  Then the tool is run TWICE on that input.  A   *)
(* run is a small step machine whose nondeterministic choices are exactly  *)
(* the HIDDEN inputs of a process, each consumed where the code consumes   *)
(* it and followed by the code's mitigation:                               *)
(*                                                                         *)
(*   StartRun   EARLIER RUNS: the output files may already exist (the same  *)
(*              contents, longer, shorter, reached through a symbolic      *)
(*              link); Filename::open_write(stream, truncate = true)       *)
(*              truncates, so nothing of the old contents survives.        *)
(*              Truncates = FALSE documents an open that overwrites in     *)
(*              place (Repro_notrunc.cfg: OutputPure violated).            *)
(*              Locale, environment size: chosen, read by nothing          *)
(*              (numbers are parsed/printed by pstrtod/pdtoa, options come *)
(*              from argv only).  The SPELLING of the working directory:   *)
(*              the process may have reached its directory through a       *)
(*              symbolic link and $PWD may be unset, name the directory by *)
(*              its real path, by the link, by dir/../dir, or be garbage.  *)
(*              Filename::make_absolute() of a relative -oc/-od/-oh name   *)
(*              (interrogate.cxx, option parsing) uses Filename::get_cwd() *)
(*              = getcwd(3): the canonical name of the DIRECTORY (an       *)
(*              input), whatever its spelling in the environment.  The     *)
(*              -python-native code file embeds that absolute name in its  *)
(*              `#line N "file"` directive; the banner comment embeds the  *)
(*              command line as given; nothing else embeds a file name.    *)
(*              CwdSource = "PWD" documents a get_cwd() that trusts $PWD   *)
(*              (Repro_pwd.cfg: TLC reports OutputPure violated).          *)
(*              HOME, TMPDIR, XDG_DATA_HOME, PANDA_ROOT are consulted only *)
(*              by Filename's home/temp/appdata lookups, which the tools   *)
(*              never call; POSIXLY_CORRECT stops option parsing at the    *)
(*              first file name (options always precede it here).          *)
(*   Alloc      rank : overloads -> 1..n, the relative heap address order  *)
(*              of the FunctionRemap objects                               *)
(*   SortStep   write_function_forset: the std::set<FunctionRemap*> of one *)
(*              arity is iterated in POINTER order (= rank) and then       *)
(*              std::sort'ed with RemapCompareLess; std::sort of <= 16     *)
(*              elements is an insertion sort, so elements that compare    *)
(*              equal keep their incoming order.  The same pointer-ordered *)
(*              set is the source of the remap LISTING of slot wrappers    *)
(*              (operator (), __getitem__, ...: SlottedFunctionDef::_remaps*)
(*              copied into a vector for write_function_for_name, whose    *)
(*              doc comment and error texts follow the vector's order);    *)
(*              the mitigation is to order that vector by signature        *)
(*   Manifests  unordered_map<string, CPPManifest*> iteration assigns the  *)
(*              manifest indices: the order is a function of the keys      *)
(*              (std::hash<string> has no per-process seed)                *)
(*   Alloc      also the address-space base (ASLR): the python-native maker  *)
(*              has rarely taken branches (slots such as __setattr__,      *)
(*              __setitem__, __delattr__ declared with an unexpected       *)
(*              return type; operators of odd arity) that write a comment  *)
(*              about a type: they print the type, never the address of    *)
(*              its CPPType object.  PrintsPointer = TRUE documents a      *)
(*              branch that prints the pointer (Repro_pointer.cfg).        *)
(*   Ident      the clock and the time zone also reach a preprocessor that *)
(*              predefines __DATE__ / __TIME__ / __TIMESTAMP__ from        *)
(*              time()/localtime(); interrogate's does not (DateMacros =   *)
(*              "undefined": the names stay ordinary identifiers wherever  *)
(*              the input uses them: default arguments, #defines).         *)
(*              DateMacros = "clock" documents the other choice            *)
(*              (Repro_datemacro.cfg: OutputPure violated).                *)
(*   Ident      now, $SOURCE_DATE_EPOCH (EpochEnvs: "unset", "empty", "0",  *)
(*              "1", "normal", "huge", "junk"): the variable counts as set *)
(*              when it is non-empty, and then the identifier is atoi() of *)
(*              it -- ALSO when that is 0 ("0", "junk"); ZeroMeansUnset =  *)
(*              TRUE documents a tool that falls back to the clock for 0   *)
(*              (Repro_epoch0.cfg: OutputPure violated).                   *)
(*              file_identifier = IF epoch set THEN atoi(epoch)            *)
(*              ELSE now, written to the code AND to the database          *)
(*   Finish     the output record of the run is appended to `outs`         *)
(*                                                                         *)
(* RemapCompareLess compares (const-ness, parameter count, get_type_sort   *)
(* of every parameter).  TieBreak = "signature" is the intended mechanism  *)
(* (ties are broken by the function signature, which is unique within an   *)
(* overload set); TieBreak = "none" documents the comparator without that  *)
(* last step: TLC then reports OutputPure violated by two runs that differ *)
(* in `rank` only (Repro_unfixed.cfg).                                     *)
(***************************************************************************)
EXTENDS Naturals, Sequences, FiniteSets, SequencesExt, TLC

CONSTANTS Cats1, MaxOver1,   \* categories / number of overloads of one-parameter functions
          Cats2, MaxOver2,   \* the same for two-parameter functions
          Time,              \* values of the clock and of SOURCE_DATE_EPOCH (0 = unset)
          Locales, EnvSizes, \* hidden inputs that nothing reads
          PwdValues,         \* hidden: $PWD -- subset of {"unset", "real", "link", "dotdot", "garbage"}
          CwdVia,            \* hidden: how the process reached its directory -- {"real", "link"}
          OcNames,           \* INPUT: how the output files are named -- subset of {"rel", "abs"}
          CwdSource,         \* "getcwd" | "PWD"
          EpochEnvs,         \* hidden/INPUT: values of $SOURCE_DATE_EPOCH (see EpochVal)
          ZeroMeansUnset,    \* FALSE (an epoch of 0 is an epoch)
          PrevFiles,         \* hidden: earlier outputs -- subset of {"none", "same", "longer", "shorter", "symlink"}
          Truncates,         \* TRUE (open_write truncates)
          InputVariants,     \* INPUT: what else the header contains -- subset of {"plain", "dated", "oddslot"}
          TZs,               \* hidden: time zones
          AslrBases,         \* hidden: where the address space starts
          DateMacros,        \* "undefined" | "clock"
          PrintsPointer,     \* FALSE
          TieBreak           \* "signature" | "none"

(* Parameter-type categories.  The position in this table is the category id; the table is  *)
(* in the order of the signature text interrogate builds ("A::f(" \o n \o ")"), so that the *)
(* order of ids IS the order of signatures (TLC cannot compare strings).  k is the value of *)
(* get_type_sort for the type (the check asserts both against the H-sort hook).             *)
Cat == << [n |-> "B *", k |-> 20],              [n |-> "B const *", k |-> 20],
          [n |-> "B", k |-> 20],                [n |-> "C *", k |-> 20],
          [n |-> "D *", k |-> 40],              [n |-> "E", k |-> 5],
          [n |-> "PyObject *", k |-> 12],       [n |-> "bool", k |-> 1],
          [n |-> "char", k |-> 5],              [n |-> "double", k |-> 4],
          [n |-> "float", k |-> 3],             [n |-> "int", k |-> 5],
          [n |-> "long int", k |-> 5],          [n |-> "long long int", k |-> 6],
          [n |-> "short int", k |-> 5],         [n |-> "signed char", k |-> 5],
          [n |-> "std::string", k |-> 9],       [n |-> "unsigned char", k |-> 5],
          [n |-> "unsigned int", k |-> 5],      [n |-> "unsigned long int", k |-> 5],
          [n |-> "unsigned long long int", k |-> 7], [n |-> "unsigned short int", k |-> 5] >>

ThisKey == 20   \* get_type_sort of the synthesized `this` parameter of a method of a class without bases

VARIABLES ov,        \* the overload set: set of tuples of category ids (the input)
          phase,     \* "build" | "alloc" | "sort" | "ident" | "write" | "done"
          oc,        \* input: "rel" | "abs" spelling of the -oc/-od/-oh arguments ("" while building)
          cwdname,   \* the name this run uses for its working directory (what it made of the hidden spelling)
          rank,      \* hidden: heap address rank of each overload's FunctionRemap
          emitted,   \* order in which the overloads are tried in the generated wrapper
          listed,    \* order in which a slot wrapper lists its overloads (doc comment, messages)
          ident,     \* file identifier of this run
          epoch,     \* $SOURCE_DATE_EPOCH of this run (an element of EpochEnvs)
          variant,   \* input: "plain" | "dated" (uses __DATE__/__TIME__) | "oddslot" (a slot with an unexpected signature)
          datetext,  \* what the outputs show where the input says __DATE__ / __TIME__
          addr,      \* what the comment of the odd-slot branch shows
          stale,     \* bytes of an earlier, longer output survive behind the new contents
          outs       \* outputs of the finished runs

vars == <<ov, oc, variant, datetext, addr, phase, cwdname, stale, rank, emitted, listed, ident, epoch, outs>>

-----------------------------------------------------------------------------
(* Orders on overloads *)

\* lexicographic order of two tuples of naturals of the same length
RECURSIVE LexLess(_, _, _)
LexLess(a, b, i) == IF i > Len(a) THEN FALSE
                    ELSE IF a[i] # b[i] THEN a[i] < b[i] ELSE LexLess(a, b, i + 1)

SigLess(a, b) == LexLess(a, b, 1)          \* order of the signature strings

\* the key RemapCompareLess looks at: <<const-ness, number of parameters, get_type_sort...>>
KeyOf(o) == <<0, Len(o) + 1, ThisKey>> \o [i \in 1..Len(o) |-> Cat[o[i]].k]

\* RemapCompareLess on keys: non-const first, then MORE parameters first, then the HIGHER
\* get_type_sort first, position by position
RECURSIVE KeyLessFrom(_, _, _)
KeyLessFrom(k1, k2, i) ==
  IF i > Len(k1) \/ i > Len(k2) THEN FALSE
  ELSE IF k1[i] # k2[i] THEN (IF i = 1 THEN k1[i] < k2[i] ELSE k1[i] > k2[i])
  ELSE KeyLessFrom(k1, k2, i + 1)
KeyLess(k1, k2) == IF k1[1] # k2[1] THEN k1[1] < k2[1]
                   ELSE IF k1[2] # k2[2] THEN k1[2] > k2[2]
                   ELSE KeyLessFrom(k1, k2, 3)
KeyTie(k1, k2) == ~KeyLess(k1, k2) /\ ~KeyLess(k2, k1)

HasKeyTies(S) == \E a, b \in S : a # b /\ KeyTie(KeyOf(a), KeyOf(b))
TieClass(S, a) == {b \in S : KeyTie(KeyOf(a), KeyOf(b))}
MaxTie(S) == CHOOSE n \in 1..Cardinality(S) :
               /\ \E a \in S : Cardinality(TieClass(S, a)) = n
               /\ \A a \in S : Cardinality(TieClass(S, a)) <= n

\* the comparator handed to std::sort
Less(tb, a, b) == \/ KeyLess(KeyOf(a), KeyOf(b))
                  \/ tb = "signature" /\ KeyTie(KeyOf(a), KeyOf(b)) /\ SigLess(a, b)

\* std::sort (insertion sort: stable) of the set iterated in pointer order r
Sorted(tb, S, r) ==
  SetToSortSeq(S, LAMBDA a, b : Less(tb, a, b) \/ (~Less(tb, b, a) /\ r[a] < r[b]))

\* iteration order of a std::set<FunctionRemap*> whose elements have address ranks r
PtrOrder(S, r) == SetToSortSeq(S, LAMBDA a, b : r[a] < r[b])

Ranks(S) == {r \in [S -> 1..Cardinality(S)] : \A a, b \in S : a # b => r[a] # r[b]}
SigOrder(S) == SetToSortSeq(S, SigLess)
SigRank(S) == LET q == SigOrder(S) IN [a \in S |-> CHOOSE i \in 1..Len(q) : q[i] = a]

(* What every observed Sort must satisfy, whatever the tie-break (used by ReproTrace on the *)
(* logged keys): the outgoing order is a permutation of the incoming one and never puts an  *)
(* element after one it is strictly less than.                                              *)
SortOK(inKeys, outKeys) ==
  /\ Len(inKeys) = Len(outKeys)
  /\ \A i, j \in 1..Len(outKeys) : i < j => ~KeyLess(outKeys[j], outKeys[i])

-----------------------------------------------------------------------------
(* (3) manifest indices: unordered_map iteration.  The order is a fixed function of the key *)
(* set; here: by bucket (k * 7) % 5, then by key.                                           *)
Macros == {1, 2, 3}
BucketOrder(K) == SetToSortSeq(K, LAMBDA a, b : \/ (a * 7) % 5 < (b * 7) % 5
                                                \/ ((a * 7) % 5 = (b * 7) % 5 /\ a < b))

(* std::set<CPPType *> _external_imports is iterated in pointer order, copied to a vector and *)
(* std::sort'ed by get_local_name (unique per type): whatever the address ranks t of the type *)
(* objects, the emitted table is the name order.                                              *)
ExtTypes == {1, 2, 3}
ImportOrder(t) == SetToSortSeq(ExtTypes, LAMBDA a, b : a < b \/ (a = b /\ t[a] < t[b]))
ImportsPure == \A t1, t2 \in Ranks(ExtTypes) : ImportOrder(t1) = ImportOrder(t2)

-----------------------------------------------------------------------------
\* the name get_cwd() returns: getcwd(3) names the directory itself; a get_cwd() that trusts $PWD
\* returns whatever spelling of the directory the environment carries (v, how the shell got
\* there, is not visible to the process at all)
CwdName(p, v) == IF CwdSource = "PWD" /\ p \in {"real", "link", "dotdot"} THEN p ELSE "real"

\* $SOURCE_DATE_EPOCH: set iff non-empty; the identifier is atoi() of it (clock values are 1, 2)
EpochSet(e) == e \notin {"unset", "empty"}
EpochVal(e) == CASE e = "0" -> 0 [] e = "junk" -> 0 [] e = "1" -> 1 [] e = "normal" -> 17 [] e = "huge" -> 99 [] OTHER -> 0

Arity == IF ov = {} THEN 0 ELSE Len(CHOOSE o \in ov : TRUE)
N == Cardinality(ov)

Init == /\ ov = {} /\ oc = "" /\ phase = "build" /\ cwdname = "" /\ rank = <<>> /\ emitted = <<>> /\ listed = <<>>
        /\ ident = 0 /\ epoch = "" /\ stale = FALSE /\ outs = <<>>
        /\ variant = "" /\ datetext = "" /\ addr = ""

\* overloads are appended in signature order, so every SET is built exactly once
AddOverload(o) ==
  /\ phase = "build"
  /\ \A p \in ov : Len(p) = Len(o) /\ SigLess(p, o)
  /\ N < (IF Len(o) = 1 THEN MaxOver1 ELSE MaxOver2)
  /\ ov' = ov \cup {o}
  /\ UNCHANGED <<oc, variant, datetext, addr, phase, cwdname, stale, rank, emitted, listed, ident, epoch, outs>>

Close == /\ phase = "build" /\ ov # {}
         /\ \E n \in OcNames : oc' = n
         /\ phase' = "start"
         /\ \E w \in InputVariants : variant' = w
         /\ UNCHANGED <<ov, datetext, addr, cwdname, stale, rank, emitted, listed, ident, epoch, outs>>

StartRun == /\ phase = "start"
            /\ \E l \in Locales, e \in EnvSizes, p \in PwdValues, v \in CwdVia : cwdname' = CwdName(p, v)
            /\ phase' = "alloc"
            /\ \E f \in PrevFiles : stale' = (~Truncates /\ f = "longer")
            /\ UNCHANGED <<ov, oc, variant, datetext, addr, rank, emitted, listed, ident, epoch, outs>>

Alloc == /\ phase = "alloc"
         /\ \E r \in Ranks(ov) : rank' = r
         /\ \E b \in AslrBases : addr' = IF variant # "oddslot" THEN "none"
                                         ELSE IF PrintsPointer THEN <<"pointer", b>> ELSE "type name"
         /\ phase' = "sort"
         /\ UNCHANGED <<ov, oc, variant, datetext, cwdname, stale, emitted, listed, ident, epoch, outs>>

SortStep == /\ phase = "sort"
            /\ emitted' = Sorted(TieBreak, ov, rank)
            /\ listed' = IF TieBreak = "signature" THEN SigOrder(ov) ELSE PtrOrder(ov, rank)
            /\ phase' = "ident"
            /\ UNCHANGED <<ov, oc, variant, datetext, addr, cwdname, stale, rank, ident, epoch, outs>>

Ident == /\ phase = "ident"
         /\ \E now \in Time, ep \in EpochEnvs :
              /\ epoch' = ep
              /\ ident' = IF EpochSet(ep) /\ ~(ZeroMeansUnset /\ EpochVal(ep) = 0) THEN EpochVal(ep) ELSE now
         /\ \E now \in Time, z \in TZs :
              datetext' = IF variant # "dated" THEN "none"
                          ELSE IF DateMacros = "clock" THEN <<"string", now, z>> ELSE "identifier"
         /\ phase' = "write"
         /\ UNCHANGED <<ov, oc, variant, addr, cwdname, stale, rank, emitted, listed, outs>>

\* the three output files of a run
\* the file name in the `#line` directive of the code file
LineName == IF oc = "abs" THEN <<"abs">> ELSE <<cwdname, "rel">>

Out == [code |-> [order |-> emitted, doc |-> listed, ident |-> ident, banner |-> oc, line |-> LineName,
                 imports |-> ImportOrder([x \in ExtTypes |-> x])],
        db   |-> [funcs |-> SigOrder(ov), manifests |-> BucketOrder(Macros), ident |-> ident],
        text |-> [funcs |-> SigOrder(ov)],
        stale |-> stale, date |-> datetext, addr |-> addr,
        epoch |-> epoch]

Finish == /\ phase = "write"
          /\ outs' = Append(outs, Out)
          /\ phase' = IF Len(outs) = 0 THEN "start" ELSE "done"
          /\ cwdname' = "" /\ datetext' = "" /\ addr' = "" /\ stale' = FALSE /\ rank' = <<>> /\ emitted' = <<>> /\ listed' = <<>> /\ ident' = 0 /\ epoch' = ""
          /\ UNCHANGED <<ov, oc, variant>>

Overloads == {<<c>> : c \in Cats1} \cup {<<c, d>> : c, d \in Cats2}

Next == \/ \E o \in Overloads : AddOverload(o)
        \/ Close \/ StartRun \/ Alloc \/ SortStep \/ Ident \/ Finish

Spec == Init /\ [][Next]_vars

-----------------------------------------------------------------------------
(* Properties *)

Strip(o) == [code |-> <<o.code.order, o.code.doc, o.code.banner, o.code.line, o.stale, o.date, o.addr>>, db |-> <<o.db.funcs, o.db.manifests>>, text |-> o.text]

\* C14: with the same SOURCE_DATE_EPOCH two runs give identical files; otherwise the files
\* differ in the identifier only, and it is the same number in code and database of one run
OutputPure ==
  /\ \A i \in 1..Len(outs) : outs[i].code.ident = outs[i].db.ident
  /\ Len(outs) = 2 =>
       /\ Strip(outs[1]) = Strip(outs[2])
       /\ (EpochSet(outs[1].epoch) /\ outs[1].epoch = outs[2].epoch) => outs[1] = outs[2]

ASSUME ImportsPure

\* what the code file embeds of its own name is a function of the arguments and the directory
EmbedsArgumentsOnly ==
  \A i \in 1..Len(outs) : outs[i].code.line = (IF oc = "abs" THEN <<"abs">> ELSE <<"real", "rel">>)

\* the identifier is the epoch when one is given
EpochWins == \A i \in 1..Len(outs) : EpochSet(outs[i].epoch) => outs[i].code.ident = EpochVal(outs[i].epoch)

\* an output never carries bytes of an earlier run
\* no output shows an address or a date
NoAddressNoDate == \A i \in 1..Len(outs) : outs[i].addr \in {"none", "type name"} /\ outs[i].date \in {"none", "identifier"}
NothingStale == \A i \in 1..Len(outs) : ~outs[i].stale

\* On the model, the sort is independent of the allocation order IFF the comparator without
\* the tie-break is total on the set: these are the inputs the replay has to target.
KeyOnlyPure(S) == \A r1, r2 \in Ranks(S) : Sorted("none", S, r1) = Sorted("none", S, r2)
IffTotal == phase = "start" /\ outs = <<>> => (KeyOnlyPure(ov) <=> ~HasKeyTies(ov))

\* with the intended tie-break the emitted order is a function of the set alone
TotalWithTieBreak ==
  phase = "start" /\ outs = <<>> =>
    \A r1, r2 \in Ranks(ov) : Sorted("signature", ov, r1) = Sorted("signature", ov, r2)

\* whatever the tie-break, an emitted order respects the strict part of the comparator
EmittedRespectsKeys ==
  phase = "ident" => SortOK([i \in 1..N |-> KeyOf(emitted[i])], [i \in 1..N |-> KeyOf(emitted[i])])
=============================================================================
