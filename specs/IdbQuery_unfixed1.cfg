SPECIFICATION Spec
CONSTANTS
  MaxN = 6
  MaxKey = 6
  MaxMods = 3
  FixShort = FALSE
  FixMid = TRUE
  Tasks = {"uniq"}
  DbInputs <- MCDbInputs
INVARIANT NoAbort
INVARIANT StepBound
INVARIANT UniqExact
INVARIANT FptrExact
INVARIANT DbTotalAndExact
PROPERTY Terminates
CHECK_DEADLOCK FALSE
