------------------------------- MODULE Export -------------------------------
(***************************************************************************)
(* C04: only the published API of the command-line files is exported.      *)
(*                                                                         *)
(* (a) the RULE: predicates on the facts of a declaration (and, for what   *)
(*     is only exported on demand, a reachability closure over "an exported*)
(*     signature / base list / nesting refers to");                        *)
(* (b) the MECHANISM: InterrogateBuilder::build() scanning lib.order,      *)
(*     followed by the on-demand get_type(t, false) closure, as a worklist *)
(*     transition system (types requested while wrappers are made are part *)
(*     of the same worklist).                                              *)
(* TLC: safety of the mechanism in every reachable worklist state,         *)
(* completeness mechanism = rule at the fix-point.                         *)
(***************************************************************************)
EXTENDS CppLib

CONSTANT ElemIgnore   \* TRUE: scan_element honours `ignoremember` (the rule; patches/c04-fix-1.diff);
                      \* FALSE: the unchanged tree, where a data member named by ignoremember is still exported

VARIABLES phase,   \* "build" | "scan" | "fix"
          pos,     \* next element of lib.order to scan
          req,     \* worklist: types whose get_type() was requested and not yet carried out
          known,   \* types that have a record
          glob,    \* records flagged F_global
          defd,    \* records flagged F_fully_defined (members were walked)
          calls    \* callables created: [t |-> "m", c, i] | [t |-> "t", id] | [t |-> "dtor", c]
mvars == <<phase, pos, req, known, glob, defd, calls>>
vars == <<lib, cur, done, phase, pos, req, known, glob, defd, calls>>

Cmd == lib.cmd
\* a type is a class [c |-> id, i |-> 0] or a nested enum [c |-> id, i |-> member index]
CT(c) == [c |-> c, i |-> 0]
ET(c, i) == [c |-> c, i |-> i]
IsClassT(x) == x.i = 0

---------------------------------------------------------------------------
(* Facts the gates look at                                                 *)

LocalSrc(s) == s \in {"cmd", "cwd", "Icmd"}
IgnoredFile(f) == Cmd.c = "ignorefile" /\ Cmd.k = f
LocalFile(f) == LocalSrc(lib.files[f].src) /\ ~IgnoredFile(f)

Forced(c) == Cmd.c = "forcetype" /\ Cmd.k = c
IgnoredType(c) == Cmd.c = "ignoretype" /\ Cmd.k = c
IgnoredMember(c, i) == Cmd.c = "ignoremember" /\ Cmd.k = c /\ Cmd.i = i

\* a declaration of the class scope that carries a visibility (friend declarations do not)
IsDecl(m) == m.k # "friend"
AnyVisibleMember(c) == \E i \in 1..NM(c) : IsDecl(Mbr(c, i)) /\ Rank(VisAt(c, i)) <= MinRank
\* TypeManager::involves_unpublished on a struct: not visible itself and no visible member
Unpublished(c) == Rank(ClassVis(c)) > MinRank /\ ~AnyVisibleMember(c)
\* TypeManager::involves_protected on a type: its own declaration is protected / private
ProtType(x) == IF IsClassT(x) THEN Cls(x.c).outer # 0 /\ Rank(ClassVis(x.c)) > 1
               ELSE Rank(VisAt(x.c, x.i)) > 1

\* the type a signature mentions (at most one in this alphabet).  Every predicate that says "the signature involves T"
\* ranges over the ALIAS-EXPANDED type: a typedef / using alias (of an alias ...) stands for the type it finally names,
\* with every pointer / reference / const / rvalue-reference wrapper met on the way.
HasRef(m) == m.rc # 0 \/ m.ra # 0
RefOf(m) == IF m.ra # 0 THEN CT(TargetClass(m.ra)) ELSE [c |-> m.rc, i |-> m.ri]
SigProtected(m) == HasRef(m) /\ ProtType(RefOf(m))
SigIgnored(m) == HasRef(m) /\ RefOf(m).i = 0 /\ Cmd.c = "ignoreinvolved" /\ Cmd.k = RefOf(m).c
SigRvalue(m) == \/ m.k \in {"rval", "rfunc"}
                \/ (m.ra # 0 /\ "rref" \in ChainWraps(m.ra))
                \/ \E q \in 1..Len(m.sig.ps) : m.sig.ps[q].t.m = "rref"

\* would get_type() walk the members of class c?  (define_struct_type's early returns)
Definable(c) ==
  /\ Forced(c) \/ (~IgnoredType(c) /\ LocalFile(Cls(c).file))
  /\ ~Unpublished(c)
  /\ ~ProtType(CT(c))

---------------------------------------------------------------------------
(* (a) THE RULE                                                            *)

MethodKinds == {"meth", "smeth", "ctor", "ctorof", "cctor", "getter", "getter2", "seqget", "seqbad", "usep", "user", "usee", "usea", "reta", "rval", "gct", "dtor",
                "vmeth", "vdtor", "sig", "opeq", "opneg", "cast"}
DataKinds == {"data", "datap", "dataa", "cdata", "sdata"}
\* MAKE_PROPERTY / MAKE_SEQ publish an element / sequence of the class: they are declarations with a visibility like
\* any other (and never make the accessor they name callable by themselves)
PropKinds == {"mprop", "mseq"}
\* (a property whose accessor cannot serve - wrong arity / index type - yields no element, only a diagnostic)
PropGate(c, i) == /\ Mbr(c, i).k \in PropKinds /\ Rank(VisAt(c, i)) <= MinRank
                  /\ Mbr(c, Mbr(c, i).gi).k \in {"getter", "seqget"}
\* a member function of a defined class is callable iff
MethodGate(c, i) == LET m == Mbr(c, i) IN
  /\ m.k \in MethodKinds
  /\ CASE m.k \in {"dtor", "vdtor"} -> Rank(VisAt(c, i)) <= 1          \* a public destructor is always exported
       [] m.k = "gct"  -> Rank(VisAt(c, i)) <= 1          \* the get_class_type() kludge
       [] OTHER        -> Rank(VisAt(c, i)) <= MinRank
  /\ ~SigProtected(m) /\ ~SigIgnored(m) /\ ~SigRvalue(m)
  /\ ~IgnoredMember(c, i)
  /\ ~SkipInherited(c, i)
\* "del", "tmpl", "friend", "tdef" never yield a callable

\* a data member yields an element (and accessor functions when its type can be named)
DataGate(c, i) == Mbr(c, i).k \in DataKinds /\ Rank(VisAt(c, i)) <= MinRank /\ ~IgnoredMember(c, i)
DataCallable(c, i) == DataGate(c, i) /\ ~SigProtected(Mbr(c, i))

\* a nested type declaration is walked iff
NestGate(c, i) == LET m == Mbr(c, i) IN
  /\ m.k \in {"nclass"} \cup EnumKinds
  /\ Rank(VisAt(c, i)) <= MinRank \/ (m.k = "nclass" /\ Forced(m.rc))

\* namespace-scope declarations: build() only looks at the global scope of S_local files
TopGate(t) == LET d == lib.tops[t] IN
  /\ ~d.ns /\ LocalFile(d.file) /\ Rank(TopVis(t)) <= MinRank
  /\ d.k \in {"func", "sig", "usef", "usefa", "var", "macro"}
  /\ ~SigProtected(d) /\ ~SigIgnored(d) /\ ~SigRvalue(d)
\* "sfunc", "dfunc", "tfunc", "rfunc", "fmacro" never; "tdefc" is a type, below

ScanClass(c) == Cls(c).outer = 0 /\ ~Cls(c).ns /\ LocalFile(Cls(c).file) /\ ~Unpublished(c)
\* "a typedef counts as a declaration": a namespace-scope typedef scans the struct it names
ScanTypedef(t) == LET d == lib.tops[t] IN
  d.k = "tdefc" /\ ~d.ns /\ LocalFile(Cls(d.rc).file) /\ ~Unpublished(d.rc)
TypedefGate(t) == LET d == lib.tops[t] IN
  /\ d.k = "tdefc" /\ ~d.ns /\ LocalFile(d.file)
  /\ Forced(d.rc) \/ (LocalFile(Cls(d.rc).file) /\ ~Unpublished(d.rc))

\* a namespace-scope `typedef X A;` scans the struct X it names directly (build()); scan_typedef_type gives the typedef
\* itself a global record - which names X - when the chain of plain aliases ends in a struct.  (`using` aliases are
\* alias declarations, not typedefs, to build(): they are only reached on demand.)
PlainChain(a) == ChainWraps(a) = {}
ScanAliasStruct(a) == LET A == Ali(a) IN
  /\ A.scope = 0 /\ A.form = "typedef" /\ A.wrap = "plain" /\ A.tt = "cls"
  /\ LocalFile(Cls(A.tc).file) /\ ~Unpublished(A.tc)
AliasGate(a) == LET A == Ali(a) X == TargetClass(a) IN
  /\ A.scope = 0 /\ A.form = "typedef" /\ LocalFile(A.file) /\ PlainChain(a)
  /\ Forced(X) \/ (LocalFile(Cls(X).file) /\ ~Unpublished(X))
\* a nested alias of a struct is walked like a nested type
NestAliasGate(c, i) == LET m == Mbr(c, i) IN
  m.k = "alias" /\ PlainChain(m.ra) /\ Rank(VisAt(c, i)) <= MinRank

Roots == {CT(c) : c \in {x \in 1..NC : ScanClass(x) \/ Forced(x)}}
         \cup {CT(TargetClass(a)) : a \in {x \in 1..NA : ScanAliasStruct(x) \/ AliasGate(x)}}
         \cup {CT(lib.tops[t].rc) : t \in {x \in 1..NT : ScanTypedef(x) \/ TypedefGate(x)}}
         \cup {RefOf(lib.tops[t]) : t \in {x \in 1..NT : TopGate(x) /\ HasRef(lib.tops[x])}}

\* what the record of type x refers to, given that x has a record
Demands(x) ==
  IF ~IsClassT(x) THEN {CT(x.c)}                                           \* an enum names its outer class
  ELSE LET c == x.c IN
    (IF Cls(c).outer # 0 THEN {CT(Cls(c).outer)} ELSE {})                  \* so does a nested class
    \cup (IF Definable(c) \/ (Unpublished(c) /\ (Forced(c) \/ (~IgnoredType(c) /\ LocalFile(Cls(c).file))))
            THEN {CT(Cls(c).bases[b].c) : b \in {y \in 1..Len(Cls(c).bases) : Rank(BaseAcc(c, y)) <= 1}}
            ELSE {})
    \cup (IF Definable(c)
            THEN {RefOf(Mbr(c, i)) : i \in {j \in 1..NM(c) : (MethodGate(c, j) \/ DataGate(c, j)) /\ HasRef(Mbr(c, j))}}
                 \cup {CT(Mbr(c, i).rc) : i \in {j \in 1..NM(c) : NestGate(c, j) /\ Mbr(c, j).k = "nclass"}}
                 \cup {ET(c, i) : i \in {j \in 1..NM(c) : NestGate(c, j) /\ Mbr(c, j).k \in EnumKinds}}
                 \cup {CT(TargetClass(Mbr(c, i).ra)) : i \in {j \in 1..NM(c) : NestAliasGate(c, j)}}
            ELSE {})

RECURSIVE Closure(_)
Closure(S) == LET S2 == S \cup UNION {Demands(x) : x \in S} IN IF S2 = S THEN S ELSE Closure(S2)

RKnown == Closure(Roots)
RDefined == {x \in RKnown : IF IsClassT(x) THEN Definable(x.c) ELSE Rank(VisAt(x.c, x.i)) <= MinRank}
RCallable ==
  UNION {{[t |-> "m", c |-> x.c, i |-> i] : i \in {j \in 1..NM(x.c) : MethodGate(x.c, j) \/ DataCallable(x.c, j) \/ PropGate(x.c, j)}}
           : x \in {y \in RDefined : IsClassT(y)}}
  \cup {[t |-> "t", c |-> 0, i |-> t] : t \in {x \in 1..NT : TopGate(x)}}
RGlobal == {CT(c) : c \in {x \in 1..NC : ScanClass(x) \/ Forced(x)}}
           \cup {CT(lib.tops[t].rc) : t \in {x \in 1..NT : ScanTypedef(x)}}
           \cup {CT(Ali(a).tc) : a \in {x \in 1..NA : ScanAliasStruct(x)}}
           \cup {x \in RDefined : IsClassT(x)}
\* a defined class has a destructor function unless it declares an inaccessible one
HasDtor(c) == \A i \in 1..NM(c) : Mbr(c, i).k \in {"dtor", "vdtor"} => MethodGate(c, i)
\* what the sentence calls "exported"
Exported(e) == e \in RCallable

---------------------------------------------------------------------------
(* (b) THE MECHANISM                                                       *)

MInit == phase = "build" /\ pos = 1 /\ req = {} /\ known = {} /\ glob = {} /\ defd = {} /\ calls = {}

\* build() starts when the library is complete: the forcetype loop comes first
StartScan ==
  /\ done /\ phase = "build"
  /\ phase' = "scan"
  /\ req' = {CT(c) : c \in {x \in 1..NC : Forced(x)}}
  /\ glob' = {CT(c) : c \in {x \in 1..NC : Forced(x)}}
  /\ UNCHANGED <<lib, cur, done, pos, known, defd, calls>>

Request(S) == req' = req \cup (S \ known)

\* one namespace-scope declaration: scan_function / scan_element / scan_struct_type / scan_typedef_type / scan_manifest
ScanStep ==
  /\ phase = "scan" /\ pos <= Len(lib.order)
  /\ pos' = pos + 1
  /\ LET o == lib.order[pos] IN
       IF o.t = "c"
         THEN LET c == o.id IN
              IF ~Cls(c).ns /\ LocalFile(Cls(c).file) /\ ~(Rank(ClassVis(c)) > MinRank /\ ~AnyVisibleMember(c))
                THEN Request({CT(c)}) /\ glob' = glob \cup {CT(c)} /\ UNCHANGED calls
                ELSE UNCHANGED <<req, glob, calls>>
         ELSE IF o.t = "a"
         THEN LET A == Ali(o.id)
                  X == TargetClass(o.id)
                  direct == A.form = "typedef" /\ A.wrap = "plain" /\ A.tt = "cls"
                  scanX == direct /\ LocalFile(Cls(X).file) /\ ~Unpublished(X)             \* scan_struct_type
                  typedefOK == /\ A.form = "typedef" /\ LocalFile(A.file) /\ ChainWraps(o.id) = {}   \* scan_typedef_type
                               /\ (Forced(X) \/ (LocalFile(Cls(X).file) /\ ~Unpublished(X))) IN
              /\ Request(IF scanX \/ typedefOK THEN {CT(X)} ELSE {})
              /\ glob' = IF scanX THEN glob \cup {CT(X)} ELSE glob
              /\ UNCHANGED calls
         ELSE LET t == o.id
                  d == lib.tops[t] IN
              IF d.ns THEN UNCHANGED <<req, glob, calls>>          \* namespaces are not entered
              ELSE IF d.k = "tdefc"
                THEN LET X == d.rc
                         scanX == LocalFile(Cls(X).file) /\ ~Unpublished(X)
                         typedefOK == LocalFile(d.file) /\ (Forced(X) \/ scanX) IN
                     /\ Request(IF scanX \/ typedefOK THEN {CT(X)} ELSE {})
                     /\ glob' = IF scanX THEN glob \cup {CT(X)} ELSE glob
                     /\ UNCHANGED calls
              ELSE IF /\ LocalFile(d.file) /\ Rank(TopVis(t)) <= MinRank
                      /\ d.k \in {"func", "sig", "usef", "usefa", "var", "macro"}
                      /\ ~SigProtected(d) /\ ~SigIgnored(d) /\ ~SigRvalue(d)
                THEN /\ calls' = calls \cup {[t |-> "t", c |-> 0, i |-> t]}
                     /\ Request(IF HasRef(d) THEN {RefOf(d)} ELSE {})
                     /\ UNCHANGED glob
                ELSE UNCHANGED <<req, glob, calls>>
  /\ UNCHANGED <<lib, cur, done, phase, known, defd>>

\* get_type(x): create the record; define_struct_type / define_enum_type decide what else
DefineStep ==
  /\ phase = "scan" /\ req # {}
  /\ \E x \in req :
       /\ known' = known \cup {x}
       /\ IF ~IsClassT(x)
            THEN /\ defd' = IF Rank(VisAt(x.c, x.i)) <= MinRank THEN defd \cup {x} ELSE defd
                 /\ req' = (req \ {x}) \cup ({CT(x.c)} \ (known \cup {x}))
                 /\ UNCHANGED <<glob, calls>>
            ELSE LET c == x.c
                     outerT == IF Cls(c).outer # 0 THEN {CT(Cls(c).outer)} ELSE {}
                     pubBases == {CT(Cls(c).bases[b].c) : b \in {y \in 1..Len(Cls(c).bases) : Rank(BaseAcc(c, y)) <= 1}}
                     entered == Forced(c) \/ ~IgnoredType(c)                      \* get_type: forced || !in_ignoretype
                     nonlocal == ~Forced(c) /\ ~LocalFile(Cls(c).file) IN
                 IF ~entered \/ nonlocal
                   THEN /\ req' = (req \ {x}) \cup (outerT \ (known \cup {x}))
                        /\ UNCHANGED <<glob, defd, calls>>
                 ELSE IF Unpublished(c)                                            \* records the bases only
                   THEN /\ req' = (req \ {x}) \cup ((outerT \cup pubBases) \ (known \cup {x}))
                        /\ UNCHANGED <<glob, defd, calls>>
                 ELSE IF ProtType(x)
                   THEN /\ req' = (req \ {x}) \cup (outerT \ (known \cup {x}))
                        /\ UNCHANGED <<glob, defd, calls>>
                 ELSE \* walk the members: define_method / scan_element / nested declarations
                   LET meths == {i \in 1..NM(c) :
                                   LET m == Mbr(c, i) IN
                                   /\ m.k \in MethodKinds
                                   /\ (m.k \in {"dtor", "vdtor", "gct"} /\ Rank(VisAt(c, i)) <= 1) \/ Rank(VisAt(c, i)) <= MinRank
                                   /\ ~SigProtected(m) /\ ~SigIgnored(m) /\ ~IgnoredMember(c, i) /\ ~SigRvalue(m)
                                   /\ ~SkipInherited(c, i)}
                       \* scan_element: on the unchanged tree it does not consult ignoremember (ElemIgnore = FALSE)
                       elems == {i \in 1..NM(c) : Mbr(c, i).k \in DataKinds /\ Rank(VisAt(c, i)) <= MinRank
                                                    /\ (ElemIgnore => ~IgnoredMember(c, i))}
                       nests == {i \in 1..NM(c) : Mbr(c, i).k \in ({"nclass"} \cup EnumKinds) /\
                                   (Rank(VisAt(c, i)) <= MinRank \/ (Mbr(c, i).k = "nclass" /\ Forced(Mbr(c, i).rc)))}
                       refs == {RefOf(Mbr(c, i)) : i \in {j \in meths \cup elems : HasRef(Mbr(c, j))}}
                               \cup {CT(Mbr(c, i).rc) : i \in {j \in nests : Mbr(c, j).k = "nclass"}}
                               \cup {ET(c, i) : i \in {j \in nests : Mbr(c, j).k \in EnumKinds}}
                               \* a nested typedef whose chain of plain aliases ends in a struct
                               \cup {CT(TargetClass(Mbr(c, i).ra)) :
                                        i \in {j \in 1..NM(c) : Mbr(c, j).k = "alias" /\ ChainWraps(Mbr(c, j).ra) = {}
                                                                  /\ Rank(VisAt(c, j)) <= MinRank}} IN
                   /\ defd' = defd \cup {x}
                   /\ glob' = glob \cup {x}                          \* "a struct type should always be global"
                   /\ calls' = calls \cup {[t |-> "m", c |-> c, i |-> i] : i \in meths}
                                     \cup {[t |-> "m", c |-> c, i |-> i] :
                                              i \in {j \in 1..NM(c) : Mbr(c, j).k \in PropKinds /\ Rank(VisAt(c, j)) <= MinRank
                                                                        /\ Mbr(c, Mbr(c, j).gi).k \in {"getter", "seqget"}}}
                                     \cup {[t |-> "m", c |-> c, i |-> i] : i \in {j \in elems : ~SigProtected(Mbr(c, j))}}
                   /\ req' = (req \ {x}) \cup ((outerT \cup pubBases \cup refs) \ (known \cup {x}))
  /\ UNCHANGED <<lib, cur, done, phase, pos>>

Fix ==
  /\ phase = "scan" /\ pos > Len(lib.order) /\ req = {}
  /\ phase' = "fix"
  /\ UNCHANGED <<lib, cur, done, pos, req, known, glob, defd, calls>>

Next == (BuildNext /\ UNCHANGED mvars) \/ StartScan \/ ScanStep \/ DefineStep \/ Fix
Spec == Init /\ MInit /\ [][Next]_vars

---------------------------------------------------------------------------
(* Properties                                                              *)

DeclVis(e) == IF e.t = "m" THEN VisAt(e.c, e.i) ELSE TopVis(e.i)
DeclKind(e) == IF e.t = "m" THEN Mbr(e.c, e.i).k ELSE lib.tops[e.i].k
DeclFile(e) == IF e.t = "m" THEN Cls(e.c).file ELSE lib.tops[e.i].file
DeclSig(e) == IF e.t = "m" THEN Mbr(e.c, e.i) ELSE lib.tops[e.i]

\* no callable for a declaration below the requested visibility, except the two documented exceptions
SafeVis == \A e \in calls :
  \/ Rank(DeclVis(e)) <= MinRank
  \/ DeclKind(e) \in {"dtor", "vdtor", "gct"} /\ Rank(DeclVis(e)) <= 1
\* nothing protected or private is ever callable
SafeAccess == \A e \in calls : Rank(DeclVis(e)) <= 1
\* never for a deleted / template member, a friend, a function-like macro, a static function
SafeKind == \A e \in calls : DeclKind(e) \notin {"del", "tmpl", "friend", "tdef", "dfunc", "tfunc", "sfunc", "fmacro"}
\* never for a declaration whose file is not local (unless its class is named by forcetype)
SafeFile == \A e \in calls :
  \/ LocalSrc(lib.files[DeclFile(e)].src) /\ ~IgnoredFile(DeclFile(e))
  \/ e.t = "m" /\ Forced(e.c)
\* never for a signature involving a protected/private type, an rvalue reference, or an ignored type
\* (ignoreinvolved is documented for functions only: accessors of a data member are outside the claim)
SafeSig == \A e \in calls :
  /\ ~SigProtected(DeclSig(e)) /\ ~SigRvalue(DeclSig(e))
  /\ DeclKind(e) \notin DataKinds => ~SigIgnored(DeclSig(e))
\* never for a member of a class that is protected/private itself or excluded by a command
SafeOwner == \A e \in calls : e.t = "m" =>
  /\ ~ProtType(CT(e.c))
  /\ ~(IgnoredType(e.c) /\ ~Forced(e.c))
  /\ ~IgnoredMember(e.c, e.i)
\* a class type from a non-local file is never global and never fully defined (unless forcetype)
SafeForeign == \A x \in glob \cup defd :
  IsClassT(x) => LocalFile(Cls(x.c).file) \/ Forced(x.c)
\* callables only live in records that exist; defined implies known
Consistent ==
  /\ defd \subseteq known
  /\ \A e \in calls : e.t = "m" => CT(e.c) \in defd

\* the mechanism never goes beyond the rule ...
Sound == phase # "build" => calls \subseteq RCallable /\ known \subseteq RKnown /\ defd \subseteq RDefined
\* ... and reaches it
Complete == phase = "fix" => calls = RCallable /\ known = RKnown /\ defd = RDefined /\ glob = RGlobal

\* the scan terminates: the worklist only shrinks against a growing `known`
TypeSpace == {CT(c) : c \in 1..NC} \cup UNION {{ET(c, i) : i \in 1..NM(c)} : c \in 1..NC}
Bounded == req \subseteq TypeSpace /\ req \cap known = {}
=============================================================================
