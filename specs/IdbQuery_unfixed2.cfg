SPECIFICATION Spec
CONSTANTS
  MaxN = 6
  MaxKey = 6
  MaxMods = 3
  FixShort = TRUE
  FixMid = FALSE
  Tasks = {"uniq"}
  DbInputs <- MCDbInputs
INVARIANT NoAbort
INVARIANT UniqExact
INVARIANT FptrExact
INVARIANT DbTotalAndExact
PROPERTY Terminates
CHECK_DEADLOCK FALSE
