------------------------------ MODULE ExprEdge ------------------------------
(***************************************************************************)
(* Operator x operand-class edge cases of the constant-expression          *)
(* evaluator (property C15): CPPExpression::evaluate() computes every      *)
(* unary, binary and conditional operator on a Result that is an integer   *)
(* (long long), a real (double) or "unevaluable"; the integer-only         *)
(* operators (% << >> & | ^ ~) take as_integer() of whatever they are      *)
(* given, so a real operand is TRUNCATED first, and / % trap on a divisor   *)
(* that is zero AFTER that conversion.                                     *)
(*                                                                         *)
(* The input is the behaviour: step 1 picks the operator, step 2 the left  *)
(* operand class, step 3 the right one (unary operators stop after step 2).*)
(* The state carries what the C++ rules say about the expression (is it    *)
(* well-formed; which hazard the evaluator faces), computed from the       *)
(* operand classes alone -- never from what the tool does.  The oracle for *)
(* every generated expression, in every context that evaluates, is the run *)
(* protocol of ToolRun: an ordinary exit and a diagnostic, never a signal. *)
(***************************************************************************)
EXTENDS Naturals, Sequences, FiniteSets, TLC

BinOps == {"mul", "div", "mod", "add", "sub", "or", "xor", "and", "oror", "andand", "eq", "ne", "le", "ge",
           "cmp3", "lt", "gt", "shl", "shr", "comma"}
UnOps == {"not", "compl", "neg", "pos"}
TerOps == {"cond"}        \* operand ? 2 : operand
Ops == BinOps \cup UnOps \cup TerOps
IntOnly == {"mod", "or", "xor", "and", "shl", "shr", "compl"}      \* operands must be integral ([expr.mul] ...)

\* operand classes: kind, whether conversion to an integer gives 0, sign, magnitude
Operands == {"i0", "i1", "im1", "intmin", "intmax", "llmin", "r0", "r05", "rm09", "r1e308", "rdenorm", "nan",
             "true", "false", "chr", "chr0", "nullptr", "str", "undef", "sizeof"}
Kind(x) == CASE x \in {"i0", "i1", "im1", "intmin", "intmax", "llmin", "sizeof"} -> "int"
             [] x \in {"r0", "r05", "rm09", "r1e308", "rdenorm", "nan"} -> "real"
             [] x \in {"true", "false"} -> "bool"
             [] x \in {"chr", "chr0"} -> "char"
             [] x = "nullptr" -> "nullptr"
             [] x = "str" -> "string"
             [] OTHER -> "undef"
Arithmetic(x) == Kind(x) \in {"int", "real", "bool", "char"}
Integral(x) == Kind(x) \in {"int", "bool", "char"}
\* as_integer() of the operand is 0 (an undefined identifier is 0 in #if, unevaluable elsewhere)
ToZero(x) == x \in {"i0", "r0", "r05", "rm09", "rdenorm", "false", "chr0", "nullptr", "undef"}
Negative(x) == x \in {"im1", "intmin", "llmin", "rm09"}
Extreme(x) == x \in {"intmin", "intmax", "llmin", "r1e308", "nan"}

VARIABLES op, l, r, n
vars == <<op, l, r, n>>

Init == op = "-" /\ l = "-" /\ r = "-" /\ n = 0
PickOp == n = 0 /\ op' \in Ops /\ n' = 1 /\ UNCHANGED <<l, r>>
PickL == n = 1 /\ l' \in Operands /\ n' = 2 /\ UNCHANGED <<op, r>>
PickR == n = 2 /\ op \notin UnOps /\ r' \in Operands /\ n' = 3 /\ UNCHANGED <<op, l>>
Next == PickOp \/ PickL \/ PickR
Spec == Init /\ [][Next]_vars

Complete == (n = 2 /\ op \in UnOps) \/ n = 3

---------------------------------------------------------------------------
(* what the language says, from the operand classes *)
WellFormed ==
  CASE op \in UnOps -> IF op = "compl" THEN Integral(l) ELSE Arithmetic(l) \/ (op = "not" /\ Kind(l) = "nullptr")
    [] op \in IntOnly -> Integral(l) /\ Integral(r)
    [] op = "cond" -> Arithmetic(l) \/ Kind(l) = "nullptr"
    [] op = "comma" -> TRUE
    [] OTHER -> Arithmetic(l) /\ Arithmetic(r)

\* the hazard the evaluator faces
Hazard ==
  CASE ~Complete -> "-"
    [] op \in {"div", "mod"} /\ ToZero(r) /\ (op = "mod" \/ Kind(r) # "real" \/ Kind(l) # "real") ->
         IF Kind(r) = "real" THEN "divisor-truncates-to-zero" ELSE "zero-divisor"
    [] op \in {"div", "mod"} /\ l = "llmin" /\ r = "im1" -> "quotient-overflow"
    [] op \in {"shl", "shr"} /\ (Negative(r) \/ Extreme(r)) -> "shift-count-out-of-range"
    [] op \in IntOnly /\ (Kind(l) = "real" \/ (op # "compl" /\ Kind(r) = "real")) -> "real-operand-of-integer-operator"
    [] op \in {"mul", "add", "sub", "neg", "shl"} /\ (Extreme(l) \/ (op \notin UnOps /\ Extreme(r))) -> "overflow"
    [] ~WellFormed -> "non-arithmetic-operand"
    [] OTHER -> "none"

TypeOK == op \in Ops \cup {"-"} /\ n \in 0..3
\* sanity of the classification: a hazard-free complete expression is well-formed
HazardFreeIsWellFormed == (Complete /\ Hazard = "none") => WellFormed
=============================================================================
