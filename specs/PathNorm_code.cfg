SPECIFICATION Spec
CONSTANTS
  MaxLen = 5
  EmptyBecomesDot = FALSE
INVARIANT Idempotent
INVARIANT SameDenotation
INVARIANT AbsSame
INVARIANT CanonSame
INVARIANT CanonIdem
INVARIANT CanonNoLink
CONSTRAINT DumpConstraint
CHECK_DEADLOCK FALSE
