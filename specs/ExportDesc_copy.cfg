SPECIFICATION Spec
CONSTANTS
  ElemIgnore = TRUE
  Shape <- CopyShape
  MinVisSet <- PubOnly
  File2Srcs <- None
  ClassHeads <- CopyHeads
  NestedKeys <- NestCS
  MemberAlpha <- CopyMembers
  MaxMembers <- M12
  MaxClasses = 3
  BaseAlpha <- None
  MaxBases = 1
  ClassComments <- NoComment
  TopAlpha <- None
  MaxTops = 0
  AliasAlpha <- None
  MaxAliases = 0
  NestedLike = TRUE
  CmdKinds <- None
INVARIANT OneOwner
INVARIANT RefsBackward
INVARIANT VisIsFunction
INVARIANT DescFunctional
INVARIANT Sound
INVARIANT Complete
CONSTRAINT DumpConstraint
CHECK_DEADLOCK FALSE
