----------------------------- MODULE LexModesIf -----------------------------
(***************************************************************************)
(* The SECOND lexer of the preprocessor (property C15): the controlling    *)
(* expression of #if / #elif, the operand of a computed #include and the   *)
(* replacement list of an object-like #define are not scanned by the token *)
(* scanner of LexModes first; they are rewritten as TEXT by                *)
(*   CPPPreprocessor::expand_manifests        top ident str strEsc         *)
(*   CPPPreprocessor::expand_defined_function definedKw defSp defName0     *)
(*                                            defParen defNameP defClose   *)
(*   CPPPreprocessor::expand_has_include_function                          *)
(*                                            hasincKw hiSp hiOpen hiBody  *)
(*                                            hiQ hiEsc                    *)
(*   CPPManifest::extract_args                fnName fnSp args argStr argEsc *)
(* which index the std::string by hand.  This module is that index         *)
(* arithmetic as a mode machine, read off cppPreprocessor.cxx:1052-1147,   *)
(* 2658-2803 and cppManifest.cxx:216-322.                                  *)
(*                                                                         *)
(* The input is the behaviour: each step appends one symbol of the text    *)
(* (whole identifiers are symbols: F, G function-like macros, O an         *)
(* object-like macro, u an undefined name, L, defined, __has_include);     *)
(* every state is a complete text (it ends in that mode).  As in LexModes  *)
(* the module is an input-space model; the oracle for each input is the    *)
(* run protocol of ToolRun.  A VIEW on (previous mode, state, last symbol, *)
(* length) keeps one representative text per mode path.                    *)
(***************************************************************************)
EXTENDS Naturals, Sequences, FiniteSets, TLC

CONSTANTS MaxLen,      \* length of the generated texts
          ViewTail     \* trailing symbols the VIEW distinguishes

Ident == {"F", "G", "O", "u", "defined", "hasinc", "L"}
Alnum == Ident \cup {"n1"}
Space == {"sp", "nl"}          \* nl: an escaped newline of the directive, kept as '\n' in its text
Sym == Alnum \cup Space \cup {"lp", "rp", "cm", "dq", "sq", "bs", "lt", "gt"}

VARIABLES inp, path, s
vars == <<inp, path, s>>

\* m mode; d parenthesis depth (macro arguments, __has_include); q quote being skipped (d, s, a = <...>)
St(m, d, q) == [m |-> m, d |-> d, q |-> q]
Top == St("top", 0, "-")
Min(a, b) == IF a < b THEN a ELSE b
Q(c) == CASE c = "dq" -> "d" [] c = "sq" -> "s" [] c = "lt" -> "a" [] OTHER -> "-"
Closes(c, q) == (c = "dq" /\ q = "d") \/ (c = "sq" /\ q = "s") \/ (c = "gt" /\ q = "a")

\* expand_manifests main loop, looking at the first character of something
TopStep(c) ==
  CASE c \in {"F", "G"} -> {St("fnName", 0, "-")}
    [] c = "O" -> {St("objName", 0, "-")}
    [] c = "u" -> {St("undef", 0, "-")}
    [] c = "L" -> {St("Lname", 0, "-")}
    [] c = "defined" -> {St("definedKw", 0, "-")}
    [] c = "hasinc" -> {St("hasincKw", 0, "-")}
    [] c \in {"dq", "sq"} -> {St("str", 0, Q(c))}
    [] OTHER -> {Top}

\* an identifier has just ended at a character that is not alphanumeric
Step(t, c) ==
  CASE t.m = "top" -> TopStep(c)
    [] t.m \in {"fnName", "objName", "undef", "Lname", "definedKw", "hasincKw", "ident"} /\ c \in Alnum ->
         {St("ident", 0, "-")}                       \* the identifier goes on: some other, undefined name
    [] t.m \in {"objName", "undef", "Lname", "ident"} -> TopStep(c)
    \* top-level quoted text is skipped (a backslash skips one more character)
    [] t.m = "str" -> IF Closes(c, t.q) THEN {Top} ELSE IF c = "bs" THEN {St("strEsc", 0, t.q)} ELSE {t}
    [] t.m = "strEsc" -> {St("str", 0, t.q)}
    \* function-like macro: expanded only when '(' follows; CPPManifest::extract_args
    [] t.m \in {"fnName", "fnSp"} ->
         CASE c \in Space -> {St("fnSp", 0, "-")}
           [] c = "lp" -> {St("args", 1, "-")}
           [] OTHER -> TopStep(c)
    [] t.m = "args" ->
         CASE c \in {"dq", "sq"} -> {St("argStr", t.d, Q(c))}
           [] c = "lp" -> {St("args", Min(3, t.d + 1), "-")}
           [] c = "rp" -> IF t.d = 1 THEN {Top} ELSE {St("args", t.d - 1, "-")}
           [] OTHER -> {t}
    [] t.m = "argStr" -> IF Closes(c, t.q) \/ c = "nl" THEN {St("args", t.d, "-")}
                         ELSE IF c = "bs" THEN {St("argEsc", t.d, t.q)} ELSE {t}
    [] t.m = "argEsc" -> {St("argStr", t.d, t.q)}
    \* defined X / defined ( X )
    [] t.m \in {"definedKw", "defSp"} ->
         CASE c \in Space -> {St("defSp", 0, "-")}
           [] c = "lp" -> {St("defParen", 0, "-")}
           [] c \in Alnum -> {St("defName0", 0, "-")}
           [] OTHER -> TopStep(c)
    [] t.m = "defName0" -> IF c \in Alnum THEN {t} ELSE TopStep(c)
    [] t.m = "defParen" ->
         CASE c \in Space -> {t}
           [] c \in Alnum -> {St("defNameP", 0, "-")}
           [] c = "rp" -> {Top}
           [] OTHER -> TopStep(c)                         \* error: missing ')' after 'defined'
    [] t.m = "defNameP" ->
         CASE c \in Alnum -> {t}
           [] c \in Space -> {St("defClose", 0, "-")}
           [] c = "rp" -> {Top}
           [] OTHER -> TopStep(c)
    [] t.m = "defClose" -> IF c \in Space THEN {t} ELSE IF c = "rp" THEN {Top} ELSE TopStep(c)
    \* __has_include ( "file" | <file> | MACRO )
    [] t.m \in {"hasincKw", "hiSp"} ->
         CASE c \in Space -> {St("hiSp", 0, "-")}
           [] c = "lp" -> {St("hiOpen", 1, "-")}
           [] OTHER -> TopStep(c)                         \* error: expected '(' after '__has_include'
    [] t.m \in {"hiOpen", "hiBody"} ->
         CASE c \in Space -> {IF t.m = "hiOpen" THEN t ELSE St("hiBody", t.d, "-")}
           [] c \in {"dq", "sq", "lt"} -> {St("hiQ", t.d, Q(c))}
           [] c = "lp" -> {St("hiBody", Min(3, t.d + 1), "-")}
           [] c = "rp" -> IF t.d = 1 THEN {Top} ELSE {St("hiBody", t.d - 1, "-")}
           [] OTHER -> {St("hiBody", t.d, "-")}
    [] t.m = "hiQ" -> IF Closes(c, t.q) \/ c = "nl" THEN {St("hiBody", t.d, "-")}
                      ELSE IF c = "bs" THEN {St("hiEsc", t.d, t.q)} ELSE {t}
    [] t.m = "hiEsc" -> {St("hiQ", t.d, t.q)}

Next ==
  /\ Len(inp) < MaxLen
  /\ \E c \in Sym : \E t \in Step(s, c) :
       /\ s' = t
       /\ inp' = Append(inp, c)
       /\ path' = Append(path, t.m)

Init == inp = <<>> /\ s = Top /\ path = <<"top">>
Spec == Init /\ [][Next]_vars

Modes == {"top", "ident", "fnName", "fnSp", "objName", "undef", "Lname", "str", "strEsc", "args", "argStr",
          "argEsc", "definedKw", "defSp", "defName0", "defParen", "defNameP", "defClose", "hasincKw", "hiSp",
          "hiOpen", "hiBody", "hiQ", "hiEsc"}
TypeOK == s.m \in Modes /\ s.d \in 0..3
Total == \A c \in Sym : Step(s, c) # {}
PathOK == Len(path) = Len(inp) + 1 /\ path[Len(path)] = s.m

PrevMode == IF Len(path) >= 2 THEN path[Len(path) - 1] ELSE "-"
LastSyms == IF Len(inp) <= ViewTail THEN inp ELSE SubSeq(inp, Len(inp) - ViewTail + 1, Len(inp))
View == <<PrevMode, s, LastSyms, Len(inp)>>
=============================================================================
