---------------------------- MODULE ConstExprGen ----------------------------
(***************************************************************************)
(* Enumeration of constant-expression trees (C07): the input expression is *)
(* the behaviour.  Every step appends one postfix token (a leaf, a unary   *)
(* operator, a cast, a binary operator, ?:) to `prog`; the state carries a *)
(* stack of [t, d, v, h] entries: the tree built so far and the value      *)
(* computed INCREMENTALLY from the children's values with the operators of *)
(* ConstExpr.  A complete behaviour is a stack of height one.  The         *)
(* invariants are the properties of the evaluation rule itself.            *)
(***************************************************************************)
EXTENDS ConstExpr

CONSTANTS Leaves,      \* integer leaf values
          ULeaves,     \* values of unsigned-suffixed literal leaves (0..INT_MAX)
          Bigs,        \* spellings of literal leaves that do not fit in int
          UnOps,       \* subset of {"+", "-", "~", "!"}
          Casts,       \* subset of {"int", "bool", "char", "short"}
          BinOps,      \* subset of AllBinOps
          UseCond,     \* BOOLEAN: generate ?:
          MaxTok,      \* bound on the number of postfix tokens
          MaxDepth     \* bound on the tree height (a leaf has height 0)

VARIABLES prog, stk
vars == <<prog, stk>>

Entry(t, r, h) == [t |-> t, d |-> r.d, v |-> r.v, h |-> h, u |-> Typ(t)]
Res(e) == [d |-> e.d, v |-> e.v]
Max(a, b) == IF a > b THEN a ELSE b
N == Len(stk)
Top(k) == stk[N - k]                       \* k = 0: top of stack
Pop(k) == SubSeq(stk, 1, N - k)
\* tokens still needed to reduce a stack of height n to height one
Need(n) == IF n <= 1 THEN 0 ELSE IF UseCond THEN (n \div 2) ELSE n - 1
Room(n) == Len(prog) + 1 + Need(n) <= MaxTok

Init == prog = <<>> /\ stk = <<>>

PushLeaf(v) ==
  /\ Room(N + 1)
  /\ stk' = Append(stk, Entry(<<"lit", v>>, Ok(v), 0))
  /\ prog' = Append(prog, <<"lit", v>>)

PushU(v) ==
  /\ Room(N + 1)
  /\ stk' = Append(stk, Entry(<<"ulit", v>>, Ok(v), 0))
  /\ prog' = Append(prog, <<"ulit", v>>)

PushBig(s) ==
  /\ Room(N + 1)
  /\ stk' = Append(stk, Entry(<<"big", s>>, Big, 0))
  /\ prog' = Append(prog, <<"big", s>>)

ApplyUn(op) ==
  /\ N >= 1 /\ Top(0).h < MaxDepth /\ Room(N)
  /\ stk' = Append(Pop(1), Entry(<<"un", op, Top(0).t>>, UnR(op, Res(Top(0)), Top(0).u), Top(0).h + 1))
  /\ prog' = Append(prog, <<"un", op>>)

ApplyCast(ty) ==
  /\ N >= 1 /\ Top(0).h < MaxDepth /\ Room(N)
  /\ stk' = Append(Pop(1), Entry(<<"cast", ty, Top(0).t>>, CastR(ty, Res(Top(0))), Top(0).h + 1))
  /\ prog' = Append(prog, <<"cast", ty>>)

ApplyBin(op) ==
  /\ N >= 2 /\ Max(Top(0).h, Top(1).h) < MaxDepth /\ Room(N - 1)
  /\ stk' = Append(Pop(2), Entry(<<"bin", op, Top(1).t, Top(0).t>>,
                                 BinR(op, Res(Top(1)), Res(Top(0)), Top(1).u, Top(0).u),
                                 Max(Top(0).h, Top(1).h) + 1))
  /\ prog' = Append(prog, <<"bin", op>>)

ApplyCond ==
  /\ UseCond /\ N >= 3 /\ Max(Top(0).h, Max(Top(1).h, Top(2).h)) < MaxDepth /\ Room(N - 2)
  /\ stk' = Append(Pop(3), Entry(<<"cond", Top(2).t, Top(1).t, Top(0).t>>,
                                 CondR(Res(Top(2)), Res(Top(1)), Res(Top(0)), Top(1).u, Top(0).u),
                                 Max(Top(0).h, Max(Top(1).h, Top(2).h)) + 1))
  /\ prog' = Append(prog, <<"cond">>)

Next ==
  \/ \E v \in Leaves : PushLeaf(v)
  \/ \E v \in ULeaves : PushU(v)
  \/ \E b \in Bigs : PushBig(b)
  \/ \E op \in UnOps : ApplyUn(op)
  \/ \E ty \in Casts : ApplyCast(ty)
  \/ \E op \in BinOps : ApplyBin(op)
  \/ ApplyCond

Spec == Init /\ [][Next]_vars

---------------------------------------------------------------------------
(* Properties of the model *)

\* the value carried by every stack entry is the reference evaluation of its tree:
\* Ev is total (TLC evaluates it without an overflow) and compositional
EvalTotal == \A i \in 1..N : Ev(stk[i].t) = Res(stk[i])

TopBin(op) == N >= 1 /\ Top(0).t[1] = "bin" /\ Top(0).t[2] = op
             /\ Ev(Top(0).t[3]).d = "ok" /\ Ev(Top(0).t[4]).d = "ok"
             /\ ~Typ(Top(0).t[3]) /\ ~Typ(Top(0).t[4])
L == Ev(Top(0).t[3]).v
R == Ev(Top(0).t[4]).v

\* a = (a/b)*b + a%b, |a%b| < |b|, the remainder has the sign of the dividend
DivModLaw ==
  (TopBin("/") \/ TopBin("%")) /\ Div(L, R).d = "ok" =>
     LET q == Div(L, R).v  r == Mod(L, R).v IN
     /\ q * R + r = L
     /\ (R # INT_MIN => Abs(r) < Abs(R))
     /\ (r # 0 => (r < 0) = (L < 0))

\* x << n defined  =>  (x << n) >> n = x ;   x >> n is the floor of x / 2^n
ShiftLaw ==
  /\ (TopBin("<<") /\ Top(0).d = "ok" => Shr(Top(0).v, R).v = L)
  /\ (TopBin(">>") /\ Top(0).d = "ok" /\ R < 31 =>
        /\ Top(0).v * Pow2(R) <= L
        /\ L - Top(0).v * Pow2(R) < Pow2(R))

\* a ^ b = (a | b) - (a & b),  ~(a & b) = ~a | ~b,  a & b <= both when non-negative
BitLaw ==
  (TopBin("&") \/ TopBin("|") \/ TopBin("^")) =>
     /\ Xor(L, R) = Or(L, R) - And(L, R)
     /\ Not(And(L, R)) = Or(Not(L), Not(R))
     /\ And(L, R) = And(R, L) /\ Or(L, R) = Or(R, L)
     /\ (L >= 0 /\ R >= 0 => And(L, R) <= L /\ And(L, R) <= R /\ Or(L, R) >= L)
     /\ And(L, L) = L /\ Xor(L, L) = 0 /\ And(L, -1) = L /\ Or(L, 0) = L

\* comparison and logical operators, ! and (bool) yield 0 or 1
BoolLaw ==
  N >= 1 /\ Top(0).d = "ok" /\
  ( (Top(0).t[1] = "bin" /\ Top(0).t[2] \in {"<", ">", "<=", ">=", "==", "!=", "&&", "||"})
    \/ (Top(0).t[1] = "un" /\ Top(0).t[2] = "!")
    \/ (Top(0).t[1] = "cast" /\ Top(0).t[2] = "bool") )
  => Top(0).v \in {0, 1}

\* +/-: a + b - b = a when defined
AddLaw ==
  /\ (TopBin("+") /\ Top(0).d = "ok" => Sub(Top(0).v, R) = Ok(L))
  /\ (TopBin("-") /\ Top(0).d = "ok" => Add(Top(0).v, R) = Ok(L))
  /\ (TopBin("*") /\ Top(0).d = "ok" /\ R # 0 /\ ~(Top(0).v = INT_MIN /\ R = -1)
        => Div(Top(0).v, R) = Ok(L))

\* the minimal rendering never has more tokens than the full one, and both keep the leaves in order
Punct == AllBinOps \cup {"(", ")", "?", ":", "~", "!", "int", "bool", "char", "short"}
Leaf(s) == SelectSeq(s, LAMBDA x : x \notin Punct)
\* a value computed in unsigned arithmetic is an int only when nothing wrapped: it is never negative;
\* the static type of every entry is the one carried
TypeLaw ==
  \A i \in 1..N : /\ stk[i].u = Typ(stk[i].t)
                  /\ (stk[i].u /\ stk[i].d = "ok" => stk[i].v >= 0)

RenderLaw ==
  \A i \in 1..N : /\ Len(Toks(stk[i].t)) <= Len(FullToks(stk[i].t))
                  /\ Leaf(Toks(stk[i].t)) = Leaf(FullToks(stk[i].t))

Complete == N = 1
=============================================================================
