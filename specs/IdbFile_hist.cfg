SPECIFICATION HSpec
CONSTANTS
  MaxRecs = 0
  Strs = {1}
  HdrStrs = {}
  CutStrs = {}
  CutRecs = 0
  PreKinds = {"none"}
  Layouts = {"gaps"}
  LongStrs = {11, 12, 13, 14, 15}
  MultiPre = {"none"}
  MultiLayouts = {"gaps"}
  MultiStrs = {}
  HistStrs = {4, 9}
  HistPre = {"none", "base"}
  HistLens = {2, 3}
INVARIANT HistLoaded
INVARIANT HistNeverHalf
INVARIANT HistFlagExact
PROPERTY FlagNeverLowered
INVARIANT VersionFollowsHeader
INVARIANT HistReadInverts
INVARIANT ReaderBounded
CONSTRAINT HDumpConstraint
CHECK_DEADLOCK FALSE
