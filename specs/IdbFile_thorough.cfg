SPECIFICATION Spec
CONSTANTS
  MaxRecs = 2
  Strs = {1, 2, 3, 4, 5, 6, 7, 8, 9, 10, 11, 12, 13, 14, 15}
  HdrStrs = {4, 9}
  CutStrs = {3}
  CutRecs = 2
  PreKinds = {"none", "base"}
  Layouts = {"gaps", "canon"}
  LongStrs = {11, 12, 13, 14, 15}
  MultiPre = {"none", "base"}
  MultiLayouts = {"gaps"}
  MultiStrs = {1, 2, 3, 4, 5, 6, 7, 8, 9, 10, 11, 12, 13, 14, 15}
INVARIANT GeneratedWellFormed
INVARIANT ReadInvertsWrite
INVARIANT CanonIdentity
INVARIANT NeverHalfMerged
INVARIANT LoadedWhole
INVARIANT ErrorMergesNothing
INVARIANT TruncationFlagged
INVARIANT VersionFlagged
INVARIANT IdentifierFlagged
INVARIANT StaleModuleFlagged
INVARIANT GoodLoads
INVARIANT ReaderBounded
INVARIANT StepsMatchFunction
INVARIANT FunctionRejectsWhatStepsReject
CONSTRAINT DumpConstraint
CHECK_DEADLOCK FALSE
