---------------------------- MODULE HashNamesMC ----------------------------
(* Model-checking wrapper: every pair of hash functions Sigs -> HRange (chosen initially) and
   every insertion order of the signatures.  Complete behaviours are dumped with the names the
   spec assigns (replayed by vf/checks/c03.py into a Python port of nothing: the dump is used to
   pick the collision PATTERNS -- which signatures share h5 / h11 -- that the real collision
   libraries have to realise). *)
EXTENDS HashNames, Json, CSV, IOUtils

CONSTANTS Sigs, HRange, NLetters

MCLetterSeq == [i \in 1..NLetters |-> i]   \* LetterSeq <- MCLetterSeq

VARIABLES H5, H11, todo, order
vars == <<hvars, H5, H11, todo, order>>

Init == /\ HInit
        /\ H5 \in [Sigs -> HRange] /\ H11 \in [Sigs -> HRange]
        /\ todo = Sigs /\ order = <<>>

Next == \E s \in todo :
          /\ Insert(s, H5[s], H11[s])
          /\ todo' = todo \ {s} /\ order' = Append(order, s)
          /\ UNCHANGED <<H5, H11>>

Spec == Init /\ [][Next]_vars

Frozen == [][\A s \in DOMAIN nameOf : nameOf'[s] = nameOf[s]]_vars

\* (HashNames_limit.cfg) more than |letters| + 1 signatures colliding in both hashes: TLC shows the error path
NoFailure == ~failed

DumpFile == IF "VERIF_DUMP" \in DOMAIN IOEnv THEN IOEnv.VERIF_DUMP ELSE ""
\* dump one representative per collision pattern: insertion in ascending order only
Ascending == \A i \in 1..(Len(order) - 1) : order[i] < order[i + 1]
DumpConstraint ==
  IF DumpFile # "" /\ todo = {} /\ Ascending
    THEN CSVWrite("%1$s", <<ToJson([h5 |-> [s \in Sigs |-> H5[s]], h11 |-> [s \in Sigs |-> H11[s]],
                                     names |-> [s \in Sigs |-> nameOf[s]],
                                     hashes |-> [s \in Sigs |-> hashOf[s]], failed |-> failed])>>, DumpFile)
    ELSE TRUE
=============================================================================
