-------------------------------- MODULE Idb --------------------------------
(***************************************************************************)
(* libinterrogatedb: lazy loading and merging of several library databases *)
(* (properties C13 and C11).                                               *)
(*                                                                         *)
(* The *history of API calls* is the behaviour: Request(l, mode) is        *)
(* interrogate_request_database / interrogate_request_module, Query(q) is  *)
(* any function of the query interface.  The mechanism is transcribed from  *)
(* src/interrogatedb/interrogateDatabase.cxx, one action per step the code *)
(* takes:                                                                  *)
(*   Request      request_module: range allocation, _modules, _requests     *)
(*   Query        check_latest(); when requests are pending load_latest()   *)
(*                swaps them out (BeginLoad is part of this step)           *)
(*   ReadNew      read(): temp.read_new(file)                               *)
(*   RemapTemp    read(): temp.remap_indices(first)                         *)
(*   Merge        read(): merge_from(temp) ... _lookups_fresh = 0           *)
(*   Answer       lookup(): freshen the table when its bit is clear, answer *)
(* Domain (what the property is claimed for):                              *)
(*  - a SET of database files: every file is requested at most once        *)
(*    (Request has the guard l \notin requested).  Requesting the same file *)
(*    twice is outside the domain: the library keeps no record of loaded    *)
(*    files, types collapse by true name but every function, wrapper,       *)
(*    element of the second copy is added again (observed: `La.in La.in`    *)
(*    gives 6 functions instead of 3).  The property speaks of a set.       *)
(*  - fully defined beats forward, and a GLOBAL fully defined definition    *)
(*    beats a non-global one.  When two files both define a class fully     *)
(*    and globally, merge_with lets the later one win: library name and     *)
(*    member lists of that class depend on the load order.  This is         *)
(*    outside the claim: the reference (IdbDB: Winners / AllowedT) accepts  *)
(*    any of the candidates, i.e. the projection ignores the attribution;   *)
(*    everything else about such a class (one record per true name, global  *)
(*    = union, every cross reference resolved to it, members of the losing  *)
(*    definition kept as functions) is claimed and checked.                 *)
(*  - a file may be empty, missing, or out of date with respect to the      *)
(*    module def that requests it (bad[l]): such a load sets the error flag *)
(*    and leaves the database untouched; the ranges of the other modules    *)
(*    are not disturbed.                                                    *)
(* The reference is UnionOKP of IdbDB: the projected database must be the   *)
(* Union of the projections of the loaded libraries, for every interleaving *)
(* and every order.                                                        *)
(***************************************************************************)
EXTENDS IdbDB

CONSTANTS Libs,         \* library names, e.g. {"A","B","C"}
          NT,           \* type names T1..T<NT> shared between the libraries
          Statuses,     \* what a library may say about T1: subset of {"absent","fwd","fwdg","def","defg"}
          Statuses2,    \* ... and about T2..T<NT>
          Modes,        \* subset of {"db","mod"}: request_database (range at load) / request_module (range at request)
          LookupKinds,  \* caches exercised by a query, subset of CacheKinds
          FileBase,     \* first index used inside a database file (files need not start at 1)
          RecordHist,   \* TRUE: carry the API history (for the replay dump)
          Faults        \* what can be wrong with a file: subset of {"ok","missing","stale"}

VARIABLES content,    \* content[l][n] \in Statuses : what library l says about type name n
          files,      \* files[l] : the database file of library l (maps only), fixed by `content`
          bad,        \* bad[l] : "ok" | "missing" (no such file) | "stale" (the module def counts one index more
                      \*          than the file has: "Module database file is out of date")
          err,        \* the global error flag
          db,         \* the global database (InterrogateDatabase::_global_ptr)
          requests,   \* _requests: defs not yet loaded, [lib, first, next]
          modules,    \* _modules: defs that own an index range
          pend,       \* copy_requests inside load_latest
          temp,       \* the temporary database inside read()
          pc,         \* "idle" | "load" | "remap" | "merge" | "answer"
          fresh,      \* _lookups_fresh as a set of cache kinds
          cache,      \* the six by-name tables
          loaded,     \* ghost: libraries merged so far, in order
          ranges,     \* ghost: ranges[l] = <<first, next>> the records of l were remapped into
          requested,  \* ghost: libraries requested so far
          ans,        \* answers of the last query: kind -> (name -> index)
          hist        \* API history (only when RecordHist)

vars == <<content, files, bad, err, db, requests, modules, pend, temp, pc, fresh, cache, loaded, ranges, requested, ans, hist>>

NoDB == [none |-> TRUE]
IsFd(st) == st \in {"def", "defg"}
IsGl(st) == st \in {"fwdg", "defg"}

---------------------------------------------------------------------------
(* The database file of a library, from its content.  Per present type     *)
(* name n: the class Tn, the pointer type "Tn *" (always fully defined,    *)
(* never global: incidental types are repeated in every library) and, when *)
(* the library defines Tn: a nested type Tn::N, a method, a destructor, an *)
(* upcast (when the base T(n-1) is defined here too), an element, a        *)
(* make_seq, a python wrapper; when it only forward-declares Tn: a global  *)
(* function taking Tn* with a C wrapper.  One manifest per library.        *)
(* Indices are handed out in builder order (types, elements, functions,    *)
(* make_seqs, manifests, wrappers), i.e. NOT in the order remap_indices    *)
(* produces, starting at FileBase.                                         *)
TName(n) == "T" \o ToString(n)
Present(c) == {n \in 1..NT : c[n] # "absent"}
Defd(c) == {n \in 1..NT : IsFd(c[n])}
Other(c, n) == \* the next present name after n, cyclically (n itself when alone)
  LET P == Present(c)
      later == {x \in P : x > n}
  IN IF later # {} THEN CHOOSE x \in later : \A y \in later : x <= y
     ELSE CHOOSE x \in P : \A y \in P : x <= y
Derives(c, n) == n > 1 /\ n \in Defd(c) /\ (n - 1) \in Present(c)

Item(k, n, r) == [k |-> k, n |-> n, r |-> r]
ItemsOf(c) ==
  LET P == Present(c)  D == Defd(c)
      perT(n) == IF n \notin P THEN <<>>
                 ELSE <<Item("t", n, "main")>> \o (IF n \in D THEN <<Item("t", n, "nest")>> ELSE <<>>) \o <<Item("t", n, "ptr")>>
      perE(n) == IF n \in D THEN <<Item("e", n, "e")>> ELSE <<>>
      perF(n) == IF n \in D
                   THEN <<Item("f", n, "m"), Item("f", n, "d")>> \o (IF Derives(c, n) THEN <<Item("f", n, "u")>> ELSE <<>>)
                   ELSE IF n \in P THEN <<Item("f", n, "g")>> ELSE <<>>
      perS(n) == IF n \in D THEN <<Item("s", n, "s")>> ELSE <<>>
      perW(n) == IF n \in D THEN <<Item("w", n, "m")>> ELSE IF n \in P THEN <<Item("w", n, "g")>> ELSE <<>>
      all(F(_)) == FlattenSeq([n \in 1..NT |-> F(n)])
  IN all(perT) \o all(perE) \o all(perF) \o all(perS)
     \o (IF P # {} THEN <<Item("m", 0, "m")>> ELSE <<>>) \o all(perW)

GenFile(l, c) ==
  LET items == ItemsOf(c)
      Ix(k, n, r) == FileBase - 1 + CHOOSE p \in DOMAIN items : items[p] = Item(k, n, r)
      Of(kind) == {FileBase - 1 + p : p \in {q \in DOMAIN items : items[q].k = kind}}
      It(i) == items[i - FileBase + 1]
      P == Present(c)  D == Defd(c)
      TRec(i) ==
        LET n == It(i).n  r == It(i).r IN
        IF r = "main" THEN
          [tn |-> TName(n), n |-> TName(n), sn |-> TName(n), lib |-> l, fd |-> IsFd(c[n]), gl |-> IsGl(c[n]),
           outer |-> 0, wrapped |-> 0, ctors |-> IF n \in D THEN <<Ix("f", n, "m")>> ELSE <<>>,
           dtor |-> IF n \in D THEN Ix("f", n, "d") ELSE 0,
           elems |-> IF n \in D THEN <<Ix("e", n, "e")>> ELSE <<>>,
           methods |-> IF n \in D THEN <<Ix("f", n, "m")>> ELSE <<>>,
           mseqs |-> IF n \in D THEN <<Ix("s", n, "s")>> ELSE <<>>,
           casts |-> IF n \in D THEN <<Ix("f", n, "d")>> ELSE <<>>,
           derivs |-> IF Derives(c, n)
                        THEN <<[base |-> Ix("t", n - 1, "main"), up |-> Ix("f", n, "u"), down |-> Ix("f", n, "m")]>>
                        ELSE <<>>,
           nested |-> IF n \in D THEN <<Ix("t", n, "nest")>> ELSE <<>>]
        ELSE IF r = "nest" THEN
          [tn |-> TName(n) \o "::N", n |-> "N", sn |-> TName(n) \o "::N", lib |-> l, fd |-> TRUE, gl |-> FALSE,
           outer |-> Ix("t", n, "main"), wrapped |-> 0, ctors |-> <<>>, dtor |-> 0, elems |-> <<>>, methods |-> <<>>,
           mseqs |-> <<>>, casts |-> <<>>, derivs |-> <<>>, nested |-> <<>>]
        ELSE
          [tn |-> TName(n) \o " *", n |-> TName(n) \o " *", sn |-> TName(n) \o " *", lib |-> l, fd |-> TRUE, gl |-> FALSE,
           outer |-> 0, wrapped |-> Ix("t", n, "main"), ctors |-> <<>>, dtor |-> 0, elems |-> <<>>, methods |-> <<>>,
           mseqs |-> <<>>, casts |-> <<>>, derivs |-> <<>>, nested |-> <<>>]
      FRec(i) ==
        LET n == It(i).n  r == It(i).r IN
        CASE r = "m" -> [sn |-> TName(n) \o "::m", n |-> "m", isget |-> FALSE, isset |-> FALSE, lib |-> l, gl |-> FALSE, method |-> TRUE, cls |-> Ix("t", n, "main"),
                         cw |-> <<>>, pw |-> <<Ix("w", n, "m")>>]
          [] r = "d" -> [sn |-> TName(n) \o "::~" \o TName(n), n |-> "~" \o TName(n), isget |-> FALSE, isset |-> FALSE, lib |-> l, gl |-> FALSE, method |-> TRUE,
                         cls |-> Ix("t", n, "main"), cw |-> <<>>, pw |-> <<>>]
          [] r = "u" -> [sn |-> TName(n) \o "::upcast", n |-> "upcast", isget |-> FALSE, isset |-> FALSE, lib |-> l, gl |-> FALSE, method |-> TRUE,
                         cls |-> Ix("t", n, "main"), cw |-> <<>>, pw |-> <<>>]
          [] r = "g" -> [sn |-> "use_" \o TName(n), n |-> "use_" \o TName(n), isget |-> FALSE, isset |-> FALSE, lib |-> l, gl |-> TRUE, method |-> FALSE, cls |-> 0,
                         cw |-> <<Ix("w", n, "g")>>, pw |-> <<>>]
      WRec(i) ==
        LET n == It(i).n  r == It(i).r  o == Other(c, n) IN
        IF r = "m"
          THEN [n |-> "", un |-> "", lib |-> l, fn |-> Ix("f", n, "m"), ret |-> Ix("t", o, "ptr"), rvd |-> Ix("f", n, "d"),
                ps |-> <<Ix("t", n, "ptr"), Ix("t", o, "main")>>]
          ELSE [n |-> l \o "_use_" \o TName(n), un |-> l \o "u" \o ToString(n), lib |-> l, fn |-> Ix("f", n, "g"),
                ret |-> Ix("t", n, "ptr"), rvd |-> 0, ps |-> <<Ix("t", n, "ptr")>>]
      ERec(i) ==
        LET n == It(i).n  o == Other(c, n) IN
        [sn |-> TName(n) \o "::e", n |-> "e", lib |-> l, gl |-> FALSE, type |-> Ix("t", o, "ptr"),
         getter |-> Ix("f", n, "m"), setter |-> Ix("f", n, "m"), has |-> Ix("f", n, "d"), clear |-> Ix("f", n, "m"),
         del |-> Ix("f", n, "d"), ins |-> Ix("f", n, "m"), getkey |-> Ix("f", n, "d"), len |-> Ix("f", n, "m")]
      SRec(i) ==
        LET n == It(i).n IN
        [sn |-> TName(n) \o "::get_s", n |-> "get_s", lib |-> l, lenf |-> Ix("f", n, "m"), elemf |-> Ix("f", n, "m")]
      MRec(i) ==
        [n |-> "MAN_" \o l, lib |-> l, type |-> Ix("t", CHOOSE x \in P : \A y \in P : x <= y, "main"),
         getter |-> IF D # {} THEN Ix("f", CHOOSE x \in D : \A y \in D : x <= y, "m") ELSE 0]
  IN [w |-> [i \in Of("w") |-> WRec(i)], f |-> [i \in Of("f") |-> FRec(i)], t |-> [i \in Of("t") |-> TRec(i)],
      m |-> [i \in Of("m") |-> MRec(i)], e |-> [i \in Of("e") |-> ERec(i)], s |-> [i \in Of("s") |-> SRec(i)]]

FileCount(file) == Cardinality(DOMAIN file.w) + Cardinality(DOMAIN file.f) + Cardinality(DOMAIN file.t)
                   + Cardinality(DOMAIN file.m) + Cardinality(DOMAIN file.e) + Cardinality(DOMAIN file.s)

---------------------------------------------------------------------------
Contents == {c \in [1..NT -> Statuses \cup Statuses2] : c[1] \in Statuses /\ \A n \in 2..NT : c[n] \in Statuses2}

Init ==
  /\ content \in [Libs -> Contents]
  /\ files = [l \in Libs |-> GenFile(l, content[l])]
  /\ bad \in [Libs -> Faults] /\ err = FALSE
  /\ \A l \in Libs : bad[l] # "ok" => FileCount(files[l]) > 0
  /\ db = EmptyDB /\ requests = <<>> /\ modules = <<>> /\ pend = <<>> /\ temp = NoDB /\ pc = "idle"
  /\ fresh = {} /\ cache = [k \in CacheKinds |-> <<>>]
  /\ loaded = <<>> /\ ranges = [l \in Libs |-> <<0, 0>>] /\ requested = {}
  /\ ans = <<>> /\ hist = <<>>

Log(step) == hist' = IF RecordHist THEN Append(hist, step) ELSE hist

(* request_module(def).  "db": interrogate_request_database — first_index = next_index = 0, the range *)
(* is taken when the file is read.  "mod": the def carries the number of indices of its file; its      *)
(* range is taken now and the def enters _modules.                                                    *)
Request(l, md) ==
  /\ pc = "idle" /\ l \notin requested
  /\ bad[l] = "stale" => md = "mod"          \* only a module def carries a count that can be out of date
  /\ LET n == IF md = "mod" THEN FileCount(files[l]) + (IF bad[l] = "stale" THEN 1 ELSE 0) ELSE 0
         \* a module def arrives with first_index = 1, next_index = 1 + n (as the generated code has it); with
         \* n = 0 request_module leaves it alone, so an empty module is NOT a bare request: read() remaps it to 1
         def == IF n > 0 THEN [lib |-> l, first |-> db.next, next |-> db.next + n]
                ELSE IF md = "mod" THEN [lib |-> l, first |-> 1, next |-> 1]
                ELSE [lib |-> l, first |-> 0, next |-> 0]
     IN /\ db' = [db EXCEPT !.next = @ + n]
        /\ modules' = IF n > 0 THEN Append(modules, def) ELSE modules
        /\ requests' = Append(requests, def)
        /\ Log([op |-> "R", lib |-> l, mode |-> md, n |-> n, bad |-> bad[l], err |-> err,
                nreq |-> Len(requests) + 1, next |-> db.next + n])
  /\ requested' = requested \cup {l}
  /\ UNCHANGED <<content, files, bad, err, pend, temp, pc, fresh, cache, loaded, ranges, ans>>

(* Any query: check_latest().  With pending requests load_latest() swaps them into copy_requests. *)
Query ==
  /\ pc = "idle" /\ requested # {}
  /\ (RecordHist /\ hist # <<>>) => hist[Len(hist)].op # "Q"      \* a second query in a row adds nothing to replay
  /\ IF requests = <<>>
       THEN pc' = "answer" /\ UNCHANGED <<pend, requests>>
       ELSE pc' = "load" /\ pend' = requests /\ requests' = <<>>
  /\ UNCHANGED <<content, files, bad, err, db, modules, temp, fresh, cache, loaded, ranges, requested, ans, hist>>

(* load_latest(): the file cannot be found or opened: set_error_flag(true), next request *)
LoadMissing ==
  /\ pc = "load" /\ pend # <<>> /\ bad[Head(pend).lib] = "missing"
  /\ err' = TRUE
  /\ pend' = Tail(pend)
  /\ pc' = IF Tail(pend) = <<>> THEN "answer" ELSE "load"
  /\ UNCHANGED <<content, files, bad, db, requests, modules, temp, fresh, cache, loaded, ranges, requested, ans, hist>>

(* read(): InterrogateDatabase temp; temp.read_new(in, def) *)
ReadNew ==
  /\ pc = "load" /\ pend # <<>> /\ bad[Head(pend).lib] # "missing"
  /\ temp' = ReadNewDB(files[Head(pend).lib])
  /\ pc' = "remap"
  /\ UNCHANGED <<content, files, bad, err, db, requests, modules, pend, fresh, cache, loaded, ranges, requested, ans, hist>>

(* read(): remap into the module's range (or to _next_index for a bare database request) *)
RemapTemp ==
  /\ pc = "remap"
  /\ LET def == Head(pend)
         bare == def.first = 0 /\ def.next = 0
         first == IF bare THEN db.next ELSE def.first
         t2 == RemapDB(temp, first)
     IN IF bare \/ t2.next = def.next
          THEN /\ temp' = t2
               /\ db' = IF bare THEN [db EXCEPT !.next = t2.next] ELSE db
               /\ ranges' = [ranges EXCEPT ![def.lib] = <<first, t2.next>>]
               /\ pc' = "merge"
               /\ UNCHANGED <<err, pend>>
          ELSE \* "Module database file ... is out of date": read() returns false before merge_from;
               \* load_latest sets the error flag; the temporary database is dropped
               /\ temp' = NoDB /\ err' = TRUE
               /\ pend' = Tail(pend)
               /\ pc' = IF Tail(pend) = <<>> THEN "answer" ELSE "load"
               /\ UNCHANGED <<db, ranges>>
  /\ UNCHANGED <<content, files, bad, requests, modules, fresh, cache, loaded, requested, ans, hist>>

(* read(): merge_from(temp); the last statement of merge_from is _lookups_fresh = 0 *)
Merge ==
  /\ pc = "merge"
  /\ db' = MergeDB(db, temp)
  /\ fresh' = {}
  /\ temp' = NoDB
  /\ loaded' = Append(loaded, Head(pend).lib)
  /\ pend' = Tail(pend)
  /\ pc' = IF Tail(pend) = <<>> THEN "answer" ELSE "load"
  /\ UNCHANGED <<content, files, bad, err, requests, modules, cache, ranges, requested, ans, hist>>

(* The query itself.  One query looks every name of the universe up in every cache of LookupKinds   *)
(* (lookup(): freshen the table iff its bit is clear) and enumerates the database.                  *)
Universe(kind) ==
  LET tn == {TName(n) : n \in 1..NT}
  IN CASE kind = "ttn" -> tn \cup {x \o "::N" : x \in tn} \cup {x \o " *" : x \in tn}
       [] kind = "tsn" -> tn \cup {x \o "::N" : x \in tn} \cup {x \o " *" : x \in tn}
       [] kind = "tn" -> tn \cup {"N"} \cup {x \o " *" : x \in tn}
       [] kind = "mn" -> {"MAN_" \o l : l \in Libs}
       [] kind = "en" -> {"e"}
       [] kind = "esn" -> {x \o "::e" : x \in tn}

KeyOfAnswer(kind, i) == CASE kind \in {"tn", "tsn", "ttn"} -> TKey(db, i) [] kind = "mn" -> MKey(db, i) [] OTHER -> EKey(db, i)

Answer ==
  /\ pc = "answer"
  /\ LET newcache == [k \in CacheKinds |-> IF k \in LookupKinds /\ k \notin fresh THEN TableOf(db, k) ELSE cache[k]]
         a == [k \in LookupKinds |-> [x \in Universe(k) |-> KeyOfAnswer(k, LookupIn(newcache[k], x))]]
     IN /\ cache' = newcache
        /\ fresh' = fresh \cup LookupKinds
        /\ ans' = a
        /\ Log([op |-> "Q", loaded |-> loaded, lk |-> a, next |-> db.next, err |-> err,
                mods |-> [k \in DOMAIN modules |-> <<modules[k].first, modules[k].next>>]])
  /\ pc' = "idle"
  /\ UNCHANGED <<content, files, bad, err, db, requests, modules, pend, temp, loaded, ranges, requested>>

Next == (\E l \in Libs, md \in Modes : Request(l, md)) \/ Query \/ LoadMissing \/ ReadNew \/ RemapTemp \/ Merge \/ Answer

Spec == Init /\ [][Next]_vars

---------------------------------------------------------------------------
(* Properties.  The API-level ones are stated where the sequential code is between calls (pc = "idle"). *)
L == SeqRange(loaded)
Singles == {Project(ReadNewDB(files[l])) : l \in L}

\* C13: the projected database is the Union of the loaded libraries — every interleaving, every order
Settled == pc \in {"answer", "load"}      \* the database between two steps of the API (after every merge_from)
UnionOK == Settled => UnionOKP(Project(db), Singles)

\* C11 / C13: every stored index refers to a live record of the right kind, one index space
Closed == Settled => ClosedDB(db) /\ VectorsExactDB(db)
TempClosed == temp # NoDB => Open(temp) = {} /\ ClosedVectors(temp) /\ OneIndexSpace(temp) /\ VectorsExactDB(temp)
                             /\ LinksConsistentDB(temp) /\ BackLinksDB(temp) = {} /\ UniqueNamesDB(temp)
\* C11: after remap_indices the wrappers are first and consecutive, the whole file is one contiguous block
WrappersFirst == pc = "merge" =>
   LET r == ranges[Head(pend).lib] IN
   /\ WrappersFirstDB(temp, r[1]) /\ Indices(temp) = r[1]..(r[2] - 1) /\ temp.next = r[2]
LinksConsistent == Settled => LinksConsistentDB(db)
UniqueNames == Settled => UniqueNamesDB(db)
\* remap_indices / merge_from neither lose nor duplicate a record
RemapIso == pc = "merge" => Project(temp) = Project(ReadNewDB(files[Head(pend).lib]))

\* C13: each module owns a contiguous range; ranges are pairwise disjoint; records live in their module's range
RangeOf(l) == ranges[l][1]..(ranges[l][2] - 1)
RangesDisjoint ==
  /\ \A a, b \in L : a # b => RangeOf(a) \cap RangeOf(b) = {}
  /\ \A k1, k2 \in DOMAIN modules : k1 # k2 =>
        (modules[k1].first..(modules[k1].next - 1)) \cap (modules[k2].first..(modules[k2].next - 1)) = {}
  /\ \A k \in DOMAIN modules : modules[k].next <= db.next
  /\ \A a \in L : ranges[a][2] <= db.next
  /\ Settled => Indices(db) = UNION {RangeOf(a) \cap Indices(db) : a \in L}
  /\ Settled =>
       \A a \in L : \A i \in RangeOf(a) \cap Indices(db) :
          \/ (i \in DOMAIN db.w /\ db.w[i].lib = a) \/ (i \in DOMAIN db.f /\ db.f[i].lib = a)
          \/ (i \in DOMAIN db.m /\ db.m[i].lib = a) \/ (i \in DOMAIN db.e /\ db.e[i].lib = a)
          \/ (i \in DOMAIN db.s /\ db.s[i].lib = a) \/ i \in DOMAIN db.t
ModulesSorted == \A k \in 1..(Len(modules) - 1) : modules[k].next <= modules[k + 1].first   \* binary_search_module relies on it

\* C13: a fresh cache is exactly what freshen_* would compute now (the `_lookups_fresh = 0` obligation)
CacheCoherent == \A k \in fresh : cache[k] = TableOf(db, k)
\* C13: an answered lookup reflects all files requested before the query, including later requests
LookupSeesAll ==
  (pc = "idle" /\ ans # <<>> /\ requests = <<>>) =>
     /\ L = {l \in requested : bad[l] = "ok"}
     /\ LET P == Project(db) IN
        \A k \in DOMAIN ans : \A x \in DOMAIN ans[k] :
          LET want == CASE k = "ttn" -> {r.tn : r \in {q \in P.T : q.tn = x}}
                        [] k = "tsn" -> {r.tn : r \in {q \in P.T : q.sn = x}}
                        [] k = "tn" -> {r.tn : r \in {q \in P.T : q.n = x}}
                        [] k = "mn" -> {r.lib \o "|" \o r.n : r \in {q \in P.M : q.n = x}}
                        [] k = "en" -> {EKey(db, i) : i \in {j \in DOMAIN db.e : db.e[j].n = x}}
                        [] k = "esn" -> {r.lib \o "|" \o r.sn : r \in {q \in P.E : q.sn = x}}
          IN IF want = {} THEN ans[k][x] = "" ELSE ans[k][x] \in want
\* a failed load is reported by the error flag, and only then; it leaves nothing behind
ErrIffFault == (pc = "idle" /\ requests = <<>>) => (err <=> \E l \in requested : bad[l] # "ok")
FailedNotLoaded == \A l \in L : bad[l] = "ok"
Lazy == requests # <<>> /\ pc = "idle" => \A k \in DOMAIN requests : requests[k].lib \notin L

FilesWellFormed ==   \* sanity of the generator: every file is a closed single-library database
  (pc = "idle" /\ requested = {}) => \A l \in Libs : LET d == ReadNewDB(files[l]) IN
     Open(d) = {} /\ OneIndexSpace(d) /\ LinksConsistentDB(d) /\ BackLinksDB(d) = {} /\ UniqueNamesDB(d)

TypeOK == /\ pc \in {"idle", "load", "remap", "merge", "answer"}
          /\ fresh \subseteq CacheKinds
          /\ (temp = NoDB) <=> pc \notin {"remap", "merge"}
=============================================================================
