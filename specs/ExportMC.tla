------------------------------ MODULE ExportMC ------------------------------
(* Bounded alphabets for Export (products of small sets) and the dump of complete libraries
   together with what the RULE demands for them. *)
EXTENDS Export, Json, CSV, IOUtils

CONSTANT Shape(_)   \* a prefix-closed restriction of the library's shape for the cfg (NoShape = none); the argument is unused
NoShape(x) == TRUE

Vis4 == {"published", "public", "protected", "private"}
Both == {"published", "public"}
NoMembers == <<{}, {}>>

\* --- sections: one class, methods only, every label sequence (all section interleavings)
SecHeads == {<<k, r, FALSE>> : k \in {"class", "struct"}, r \in BOOLEAN}
SecMembers == <<{Mem("meth", l) : l \in Labels}, {}>>
SecMembersT == <<{Mem(k, l) : k \in {"meth", "data"}, l \in Labels}, {}>>

\* --- kinds: one class, every member kind under every access label
Kinds1 == {"meth", "smeth", "gct", "ctor", "dtor", "data", "del", "tmpl", "friend", "rval", "tdef", "enum", "usee"}
KindHeads == {<<"class", FALSE, FALSE>>}
KindMembers == <<{Mem(k, l) : k \in Kinds1, l \in Vis4}, {}>>
KindMembersT == <<{Mem(k, l) : k \in Kinds1, l \in Vis4 \cup {"same"}}, {}>>

\* --- nested: a class with a nested class; the outer class may mention the nested one
NestHeads == {<<"class", FALSE, FALSE>>}
NestHeadsT == {<<"class", FALSE, FALSE>>, <<"struct", TRUE, FALSE>>}
NestMembers == <<{Mem(k, l) : k \in {"meth", "usep", "dataa"}, l \in {"published", "private"}},
                 {Mem("meth", l) : l \in {"same", "published", "private"}}>>
NestMembersT == <<{Mem(k, l) : k \in {"meth", "usep", "user", "dataa"}, l \in {"published", "public", "protected", "private"}},
                  {Mem("meth", l) : l \in {"same", "published", "public", "private"}}>>

\* --- files: two files, two classes related by base / signature / data member, one command
FileSrcs == {"cmd", "cwd", "adj", "I", "S", "Sangle", "Icmd"}
FileHeads == {<<"class", FALSE, FALSE>>}
FileMembers == <<{Mem("meth", "published"), Mem("usep", "published"), Mem("datap", "published")}, {}>>
FileBases == {<<"public", FALSE>>, <<"private", FALSE>>}
FileCmds == {"ignorefile", "forcetype"}
\* --- filetops: a class (possibly in a namespace) and one namespace-scope declaration, two files, one command
FTHeads == {<<"class", FALSE, FALSE>>, <<"class", FALSE, TRUE>>}
FTMembers == <<{Mem("meth", "published")}, {}>>
FTMembersT == <<{Mem("meth", "published"), Mem("meth", "public")}, {}>>
FTTops == {Top("usef", TRUE, FALSE), Top("tdefc", FALSE, FALSE), Top("func", TRUE, FALSE)}
FTTopsT == {Top("usef", TRUE, FALSE), Top("tdefc", FALSE, FALSE), Top("func", TRUE, FALSE), Top("var", TRUE, FALSE), Top("macro", TRUE, FALSE)}
FTCmds == {"ignorefile", "ignoretype", "ignoreinvolved"}
FTCmdsT == {"ignorefile", "forcetype", "ignoretype", "ignoreinvolved"}

\* --- tops: namespace-scope declarations of every kind, in and out of publish regions / namespaces
TopKinds == {"func", "sfunc", "dfunc", "tfunc", "rfunc", "var", "macro", "fmacro"}
TopsAll == {Top(k, r, n) : k \in TopKinds, r \in BOOLEAN, n \in BOOLEAN}
           \ {Top(k, r, TRUE) : k \in {"macro", "fmacro"}, r \in BOOLEAN}
TopSrcs == {"cwd", "I", "S"}

\* --- aliases: a signature reaches a class through typedef / using aliases (one or two levels, wrappers inside)
AliasForms == {<<"typedef", "plain">>, <<"using", "plain">>, <<"typedef", "cptr">>, <<"typedef", "cref">>, <<"typedef", "rref">>}
AliasFormsF == {<<"typedef", "plain">>, <<"typedef", "cptr">>}
PubOnly == {"published"}
IgnInv == {"ignoreinvolved"}
AliasFormsT == {<<f, w>> : f \in {"typedef", "using"}, w \in {"plain", "ptr", "cptr", "cref", "rref"}}
UseA(k, l, uw) == [Mem(k, l) EXCEPT !.uw = uw]
AliasMembers == <<{Mem("meth", "published")} \cup {UseA(k, "published", uw) : k \in {"usea", "reta"}, uw \in {"ptr", "cref", "val"}}, {}>>
AliasTops == {[Top("usefa", TRUE, FALSE) EXCEPT !.uw = uw] : uw \in {"ptr", "val"}}
AliasHeads == {<<"class", FALSE, FALSE>>}
AliasCmds == {"ignoreinvolved", "ignoretype"}
AliasSrcs == {"cwd", "I"}
\* --- aliasnest: a class with a nested class, a nested alias of it, and a member that uses the alias
ANMembers == <<{UseA("usea", "published", "ptr")}, {Mem("meth", "published")}>>
ANForms == {<<"typedef", "plain">>, <<"using", "plain">>}

\* --- props: accessor functions and MAKE_PROPERTY / MAKE_SEQ declarations naming them, in every section
PropMembers == <<{Mem(k, l) : k \in {"getter", "seqget", "mprop", "mseq"}, l \in Vis4}, {}>>
PropHeads == {<<"class", FALSE, FALSE>>}
PropShape(x) == \A c \in 1..NC : \A i \in 1..NM(c) : (Mbr(c, i).k \in {"getter", "seqget"} => i = 1)

\* --- commands on members
CmdHeads == {<<"class", FALSE, FALSE>>}
CmdMembers == <<{Mem(k, "published") : k \in {"meth", "data", "dtor", "usep"}}, {}>>
CmdMembersT == <<{Mem(k, "published") : k \in {"meth", "smeth", "data", "dtor", "ctor", "usep"}} \cup {Mem("gct", "public")}, {}>>
CmdAll == {"ignoremember", "ignoretype", "ignoreinvolved", "forcetype"}

M40 == <<4, 0>>
M30 == <<3, 0>>
M20 == <<2, 0>>
M32 == <<3, 2>>
M22 == <<2, 2>>
M00 == <<0, 0>>
M10 == <<1, 0>>
M31 == <<3, 1>>

None == {}
NoComment == {""}
NestCS == {"class", "struct"}
AliasLabels == {"public", "private"}
\* shape of the alias families (prefix-closed, so TLC prunes early): class 1 is the aliased class T with at most one
\* plain method; then the aliases; then either one user class (nested aliases and one member that uses an alias) or one
\* namespace-scope function that uses an alias; with a second file, T lives there and everything else in file 1
UseKinds == {"usea", "reta"}
TopAliasesBeforeUser ==
  \A a \in 1..NA : \A k \in 1..Len(lib.order) : \A k2 \in 1..Len(lib.order) :
    (lib.order[k] = [t |-> "a", id |-> a] /\ lib.order[k2] = [t |-> "c", id |-> 2]) => (k < k2)
UserShape ==
  /\ Cls(2).file = 1
  /\ NT = 0
  /\ \A i \in 1..NM(2) : (Mbr(2, i).k \in UseKinds \cup {"alias"})
  /\ Cardinality({j \in 1..NM(2) : Mbr(2, j).k \in UseKinds}) <= 1
  /\ \A i \in 1..NM(2) : (Mbr(2, i).k \in UseKinds => i = NM(2))
  /\ TopAliasesBeforeUser
AliasDone ==
  /\ NA >= 1
  /\ NT = 1 \/ (NC = 2 /\ \E i \in 1..NM(2) : Mbr(2, i).k \in UseKinds)
  /\ (lib.cmd.c = "ignoreinvolved" => lib.cmd.k = 1)
AliasShape(x) ==
  /\ NC >= 1 => (NM(1) <= 1 /\ (\A i \in 1..NM(1) : Mbr(1, i).k = "meth"))
  /\ (NF = 2 /\ NC >= 1) => Cls(1).file = 2
  /\ \A a \in 1..NA : (NC >= 1 /\ (Ali(a).scope = 0 => Ali(a).file = 1) /\ Ali(a).scope # 1)
  /\ \A t \in 1..NT : (NA >= 1 /\ NC = 1 /\ lib.tops[t].file = 1)
  /\ NC >= 2 => UserShape
  /\ done => AliasDone
\* aliasnest: one class; members in order: nested class, nested alias of it, a method that uses the alias
AliasNestShape(x) ==
  /\ (NC >= 1 /\ NM(1) >= 1) => Mbr(1, 1).k = "nclass"
  /\ (NC >= 1 /\ NM(1) >= 2) => (Mbr(1, 2).k = "alias" /\ Ali(Mbr(1, 2).ra).tt = "cls" /\ Ali(Mbr(1, 2).ra).tc = 2)
  /\ (NC >= 1 /\ NM(1) >= 3) => (Mbr(1, 3).k = "usea" /\ Mbr(1, 3).lab = "published")
  /\ \A a \in 1..NA : Ali(a).scope = 1
  /\ done => (NM(1) = 3 /\ (lib.cmd.c = "ignoreinvolved" => lib.cmd.k = 2))
DumpFile == IF "VERIF_DUMP" \in DOMAIN IOEnv THEN IOEnv.VERIF_DUMP ELSE ""

\* references to a nested class of another class must be accessible C++ (public nested type)
WFRefs ==
  /\ \A c \in 1..NC : \A i \in 1..NM(c) :
       LET m == Mbr(c, i) IN
       (NeedsRef(m.k) /\ Cls(m.rc).outer # 0 /\ Cls(m.rc).outer # c) => Rank(ClassVis(m.rc)) <= 1
  /\ \A t \in 1..NT : LET d == lib.tops[t] IN
       (NeedsRef(d.k) /\ Cls(d.rc).outer # 0) => Rank(ClassVis(d.rc)) <= 1
  \* the visibility of a class that is a namespace member is never stamped by build(): "exported if itself
  \* visible" is claimed for global-scope and nested classes only (a namespace member needs a visible member)
  /\ \A c \in 1..NC : (done /\ Cls(c).ns /\ Cls(c).outer = 0 /\ lib.minvis = "public") => AnyVisibleMember(c)
  \* how an alias is used agrees with what it names: a chain that already carries a pointer / reference is used by
  \* value, a plain chain by pointer or const reference; at most one wrapper per chain; "reta" returns by pointer/value
  /\ \A a \in 1..NA : (Cardinality(ChainWraps(a)) <= 1 /\ ((Ali(a).tt = "alias" /\ Ali(a).wrap # "plain") => ChainWraps(Ali(a).tc) = {}))
  /\ \A c \in 1..NC : \A i \in 1..NM(c) : LET m == Mbr(c, i) IN
       NeedsAlias(m.k) => (/\ ((m.uw = "val") <=> (ChainWraps(m.ra) # {}))
                           /\ (m.k = "reta" => (m.uw # "cref" /\ "rref" \notin ChainWraps(m.ra)))
                           /\ TargetClass(m.ra) # c)
  /\ \A t \in 1..NT : LET d == lib.tops[t] IN NeedsAlias(d.k) => ((d.uw = "val") <=> (ChainWraps(d.ra) # {}))
  \* a namespace-scope alias names a namespace-scope class; nested aliases carry an explicit access label
  /\ \A a \in 1..NA : (Ali(a).scope = 0 => (Cls(TargetClass(a)).outer = 0 /\ ~Cls(TargetClass(a)).ns))
  /\ \A a \in 1..NA : (Ali(a).scope # 0 => Mbr(Ali(a).scope, Ali(a).at).lab \in AliasLabels)
  \* an array member needs a complete element type: the nested class of the same class, declared before it
  /\ \A c \in 1..NC : \A i \in 1..NM(c) : (Mbr(c, i).k = "dataa" => Cls(Mbr(c, i).rc).outer = c)
  \* a visible property names a visible accessor (whether a published property publishes a merely public accessor
  \* is not claimed)
  /\ \A c \in 1..NC : \A i \in 1..NM(c) :
       ((done /\ Mbr(c, i).k \in {"mprop", "mseq"} /\ Rank(VisAt(c, i)) <= MinRank) => Rank(VisAt(c, Mbr(c, i).gi)) <= MinRank)
  \* one destructor, one get_class_type, one constructor signature per class (valid C++)
  /\ \A c \in 1..NC : \A k \in {"dtor", "gct", "ctor"} : Cardinality({i \in 1..NM(c) : Mbr(c, i).k = k}) <= 1

SetToSeq(S) == CHOOSE s \in [1..Cardinality(S) -> S] : \A i, j \in 1..Cardinality(S) : i # j => s[i] # s[j]

Expected ==
  [known |-> RKnown, defined |-> RDefined, callable |-> RCallable,
   dtor |-> {c \in 1..NC : CT(c) \in RDefined /\ HasDtor(c)},
   global |-> RGlobal]

DumpConstraint ==
  /\ WFRefs
  /\ Shape(0)
  /\ IF done /\ phase = "build" /\ DumpFile # ""
       THEN CSVWrite("%1$s", <<ToJson([lib |-> lib, exp |-> Expected])>>, DumpFile)
       ELSE TRUE
=============================================================================
