SPECIFICATION TSpec
INVARIANT AllocDense
INVARIANT AddedAllocated
INVARIANT RefsPromised
INVARIANT NoImplicit
INVARIANT NoDegrade
INVARIANT ClosedAtDone
INVARIANT RemovedUnreferenced
INVARIANT LinksAtDone
INVARIANT WrappersFirst
INVARIANT DumpAgrees
PROPERTY AddFresh
PROPERTY UpdateLive
PROPERTY RemoveLive
PROPERTY Frozen
CHECK_DEADLOCK TRUE
