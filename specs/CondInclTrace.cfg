SPECIFICATION TSpec
CONSTANTS
  MaxLen = 0
  MaxDepth = 1000
  Conds = {"T", "F"}
  Kinds = {"if", "elif", "else", "endif"}
INVARIANT Refines
INVARIANT ClosedNormal
INVARIANT AtMostOneGroup
CHECK_DEADLOCK TRUE
