---------------------------- MODULE OptLatticeMC ----------------------------
EXTENDS OptLattice, Json, CSV, IOUtils
DumpFile == IF "VERIF_DUMP" \in DOMAIN IOEnv THEN IOEnv.VERIF_DUMP ELSE ""
DumpConstraint ==
  IF DumpFile # "" /\ rows > 0
    THEN CSVWrite("%1$s", <<ToJson([variant |-> variant, n |-> rows, row |-> [f \in 1..NF |-> row[f]],
                                     names |-> [f \in 1..NF |-> Factors[f].n],
                                     left |-> Cardinality(unc), total |-> Cardinality(Tuples)])>>, DumpFile)
    ELSE TRUE
=============================================================================
