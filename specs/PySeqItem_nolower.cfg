SPECIFICATION Spec
CONSTANTS
  MaxLen = 3
  MaxOps = 2
  WithDel = FALSE
  LowerBoundChecked = FALSE
INVARIANT TypeOK
INVARIANT Refines
INVARIANT GuardIntact
PROPERTY ErrorChangesNothing
PROPERTY LengthFixed
CHECK_DEADLOCK FALSE
