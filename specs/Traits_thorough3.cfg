SPECIFICATION Spec
CONSTANTS
  MaxClasses = 3
  RootBudget = 1
  RelSets <- Rel3
  LaterFeatures <- LaterBig
INVARIANT AbstractNotConstructible
INVARIANT PolymorphicMonotone
INVARIANT AbstractIsPolymorphic
CONSTRAINT DumpConstraint
CHECK_DEADLOCK FALSE
