----------------------------- MODULE IdbQueryMC -----------------------------
(* Model-checking wrapper of IdbQuery: the database scenarios of task "db" (small databases with repeated
   names for the lookups, one database with every record shape, and real .in files handed in by the check),
   and the dump of every finished call with the answer the spec demands, replayed into libinterrogatedb
   by vf/checks/c20.py. *)
EXTENDS IdbQuery, Json, CSV, IOUtils

DumpFile == IF "VERIF_DUMP" \in DOMAIN IOEnv THEN IOEnv.VERIF_DUMP ELSE ""
InputFile == IF "VERIF_INPUT" \in DOMAIN IOEnv THEN IOEnv.VERIF_INPUT ELSE ""

\* ---- lookup scenarios: names that repeat, differ only in the scope, or are empty
a == <<97>>
b == <<98>>
sa == <<115, 58, 58, 97>>
ta == <<116, 58, 58, 97>>
TypeNames == {[n |-> a, s |-> sa, t |-> a], [n |-> a, s |-> ta, t |-> ta], [n |-> b, s |-> sa, t |-> b],
              [n |-> <<>>, s |-> <<>>, t |-> <<>>]}
ElemNames == {[n |-> <<120>>, s |-> <<99, 58, 58, 120>>], [n |-> <<120>>, s |-> <<100, 58, 58, 120>>],
              [n |-> <<121>>, s |-> <<99, 58, 58, 120>>]}
ManiNames == {<<77>>, <<78>>, <<>>}

SeqsUpTo(S, n) == UNION {[1..k -> S] : k \in 0..n}
LkDb(ts, es, ms) ==
  [id |-> 5, lib |-> <<108>>, hash |-> <<104, 104, 104, 104>>, mod |-> <<109>>] @@
  [EmptyTables EXCEPT
     !.t = [j \in 1..Len(ts) |-> [DefaultRec("t") EXCEPT !.idx = j, !.name = ts[j].n, !.scoped = ts[j].s,
                                                          !.true = ts[j].t, !.flags = j % 2]],
     !.m = [j \in 1..Len(ms) |-> [DefaultRec("m") EXCEPT !.idx = Len(ts) + j, !.name = ms[j]]],
     !.e = [j \in 1..Len(es) |-> [DefaultRec("e") EXCEPT !.idx = Len(ts) + Len(ms) + j, !.name = es[j].n,
                                                          !.scoped = es[j].s, !.flags = j % 2]]]
LkScenarios ==
  {[name |-> "lookup-types", gen |-> TRUE, files |-> <<WriteDb(LkDb(ts, <<>>, <<>>), 3)>>] : ts \in SeqsUpTo(TypeNames, 3)}
  \cup {[name |-> "lookup-elements", gen |-> TRUE, files |-> <<WriteDb(LkDb(<<>>, es, <<>>), 3)>>] : es \in SeqsUpTo(ElemNames, 2) \ {<<>>}}
  \cup {[name |-> "lookup-manifests", gen |-> TRUE, files |-> <<WriteDb(LkDb(<<>>, <<>>, ms), 3)>>] : ms \in SeqsUpTo(ManiNames, 2) \ {<<>>}}

\* ---- one database with all 24 record patterns of IdbFile, loaded after the base database
RichOrder == <<"f", "w", "t", "m", "e", "s">>
RECURSIVE RichGen(_, _)
RichGen(d, j) ==
  IF j > 24 THEN d
  ELSE LET k == RichOrder[((j - 1) \div 4) + 1]
           v == (j - 1) % 4
       IN RichGen([d EXCEPT ![k] = Append(@, Tmpl(k, v, IdxOf(j), Str(4), Str(5), IdxSeq(d.f)))], j + 1)
RECURSIVE RichGen2(_, _)
RichGen2(d, j) ==
  IF j > 24 THEN d
  ELSE LET k == RichOrder[((j - 1) \div 4) + 1]
           v == (j - 1) % 4
       IN RichGen2([d EXCEPT ![k] = Append(@, Tmpl(k, v, IdxOf(j), Str(6), Str(8), IdxSeq(d.f)))], j + 1)
RichDb0 == RichGen([id |-> FileId, lib |-> <<114, 105, 99, 104>>, hash |-> <<113, 120, 54, 104>>, mod |-> <<109, 111, 100>>]
                   @@ EmptyTables, 1)
\* ... plus one record per kind with EVERY flag bit set, so that each bit of QF is told apart from its neighbours
AllBits(k, j, flags) == [Tmpl(k, 1, IdxOf(j), Str(4), Str(5), <<>>) EXCEPT !.flags = flags]
RichDb ==
  [RichDb0 EXCEPT
     !.f = Append(@, AllBits("f", 25, 2047)),
     !.w = Append(@, [AllBits("w", 26, 127) EXCEPT !.params = <<[name |-> <<112>>, flags |-> 7, type |-> 8]>>]),
     !.t = Append(Append(@, [AllBits("t", 27, 67108863) EXCEPT !.asize = 5, !.derivs = <<[flags |-> 7, base |-> 8, up |-> 11, down |-> 14]>>]),
                  \* and one with every second bit (the array bit clear)
                  [AllBits("t", 28, 11184810) EXCEPT !.asize = 1]),
     !.m = Append(@, AllBits("m", 29, 7)),
     !.e = Append(@, AllBits("e", 30, 1023))]
\* a second database with every record pattern and other names (no type name shared with RichDb)
RichDb2 == RichGen2([id |-> FileId + 1, lib |-> <<114, 50>>, hash |-> <<114, 50, 114, 50>>, mod |-> <<109, 50>>] @@ EmptyTables, 1)
RichScenarios == {[name |-> "rich", gen |-> TRUE, files |-> <<WriteDb(BaseDb, 3), WriteDb(RichDb, 3)>>],
                  [name |-> "empty", gen |-> TRUE, files |-> <<>>]}

\* ---- real database files: [{"name": ..., "gen": false, "files": [[bytes], ...]}, ...]
ExtScenarios == IF InputFile = "" THEN {} ELSE LET js == JsonDeserialize(InputFile) IN {js[j] : j \in 1..Len(js)}

MCDbInputs == LkScenarios \cup RichScenarios \cup ExtScenarios

\* ---- histories: a lookup is answered, a further database with entities of every looked-up kind is merged,
\*      every stored name is looked up; all 6 x 6 pairs (function answered first, function used later),
\*      with and without a database loaded before the first lookup
LookupFns == {QF[x].fn : x \in {y \in 1..Len(QF) : QF[y].op = "lookup"}}
Stage1Db == LkDb(<<[n |-> a, s |-> sa, t |-> a]>>, <<[n |-> <<120>>, s |-> <<99, 58, 58, 120>>]>>, <<<<77>>>>)
Stage2Db == LkDb(<<[n |-> b, s |-> <<117, 58, 58, 98>>, t |-> b], [n |-> <<99>>, s |-> <<117, 58, 58, 99>>, t |-> <<99>>]>>,
                 <<[n |-> <<121>>, s |-> <<100, 58, 58, 121>>], [n |-> <<120>>, s |-> <<100, 58, 58, 120>>]>>,
                 <<<<78>>, <<80>>>>)
FirstName(fn) == LET d == QFBy(fn) IN RecAt(LoadAll(EmptyQ, <<WriteDb(Stage1Db, 3)>>), d.k, CHOOSE i \in Idxs(Stage1Db[d.k]) : TRUE)[d.f]
MCStageInputs ==
  {[name |-> "stage", files1 |-> f1, fn1 |-> fn1, nm1 |-> FirstName(fn1), files2 |-> <<WriteDb(Stage2Db, 3)>>, fn2 |-> fn2] :
     f1 \in {<<>>, <<WriteDb(Stage1Db, 3)>>}, fn1 \in LookupFns, fn2 \in LookupFns}

---------------------------------------------------------------------------
DbRes(q) ==
  [x \in 1..Len(QF) |->
     LET d == QF[x] IN
     CASE d.op \in ByIndexOps \cup {"gat"} -> [j \in 1..Len(IdxArgs(q)) |-> Query(q, d, IdxArgs(q)[j], 0)]
       [] d.op \in ByPosOps ->
            [j \in 1..Len(IdxArgs(q)) |->
               LET i == IdxArgs(q)[j] ps == PosArgs(VecLen(q, d, i))
               IN [pos |-> ps, v |-> [p \in 1..Len(ps) |-> Query(q, d, i, ps[p])]]]
       [] d.op \in {"gcount", "errflag"} -> Query(q, d, 0, 0)
       [] d.op = "lookup" ->
            LET ns == NameArgs(q, d) IN
            {[name |-> nm, ok |-> IF Bearers(q, d, nm) = {} THEN {0} ELSE Bearers(q, d, nm), mech |-> Lookup(q, d, nm)] : nm \in ns}
       [] d.op = "uniq" ->      \* no module with a unique-name table is registered in a database scenario
            {[name |-> nm, ok |-> {0}] : nm \in NameArgs(q, d) \cup {<<113>>, <<113, 120, 54>>, <<113, 120, 54, 104>>}}]

\* ---- first-query histories: every function of the interface as the first query after a request, twice
ArgOf(q, d) ==    \* an argument that reaches the most recently loaded record of the function's table
  LET last(k) == IF q[k] = <<>> THEN 1 ELSE q[k][Len(q[k])].idx IN
  CASE d.op \in ByIndexOps -> [i |-> last(IF d.op = "chain" THEN "s" ELSE d.k), n |-> 0, nm |-> <<>>]
    [] d.op \in ByPosOps -> [i |-> last(d.k), n |-> 0, nm |-> <<>>]
    [] d.op = "gat" -> [i |-> IF ListOf(q, d.k) = <<>> THEN 0 ELSE Len(ListOf(q, d.k)) - 1, n |-> 0, nm |-> <<>>]
    [] d.op \in {"lookup", "uniq"} -> [i |-> 0, n |-> 0, nm |-> RecAt(q, d.k, last(d.k))[d.f]]
    [] OTHER -> [i |-> 0, n |-> 0, nm |-> <<>>]
AnswerOf(q, d, arg) ==    \* the set of acceptable answers
  CASE d.op = "lookup" -> IF Bearers(q, d, arg.nm) = {} THEN {0} ELSE Bearers(q, d, arg.nm)
    [] d.op = "uniq" -> {0}
    [] OTHER -> {Query(q, d, arg.i, arg.n)}
RichFile1 == WriteDb(RichDb, 3)
RichFile2 == WriteDb(RichDb2, 3)
MCFirstInputs ==
  {[name |-> "first", files1 |-> fs[1], files2 |-> fs[2], fn |-> QF[x].fn] :
     x \in 1..Len(QF), fs \in {<<<<RichFile1>>, <<RichFile2>>>>, <<<<RichFile2>>, <<RichFile1>>>>}}
\* the four loaded states of these histories, computed once
QF1 == LoadAll(EmptyQ, <<RichFile1>>)
QF12 == LoadAll(EmptyQ, <<RichFile1, RichFile2>>)
QF2 == LoadAll(EmptyQ, <<RichFile2>>)
QF21 == LoadAll(EmptyQ, <<RichFile2, RichFile1>>)
FirstRec ==
  LET d == QFBy(inp.fn)
      n1 == Len(inp.files1)
      qa == IF inp.files1 = <<RichFile1>> THEN QF1 ELSE QF2       \* what the first query must see (all of files1)
      qb == IF inp.files1 = <<RichFile1>> THEN QF12 ELSE QF21   \* (= FirstQ(inp, number of files requested))
      a1 == ArgOf(qa, d)
      a2 == ArgOf(qb, d)
  IN [task |-> task, fn |-> inp.fn, op |-> d.op, r |-> d.r, files1 |-> inp.files1, files2 |-> inp.files2,
      arg1 |-> a1, ok1 |-> AnswerOf(qa, d, a1), arg2 |-> a2, ok2 |-> AnswerOf(qb, d, a2),
      cnt1 |-> IF d.op = "gcount" THEN Len(ListOf(qa, d.k)) ELSE 0 - 1,
      cnt2 |-> IF d.op = "gcount" THEN Len(ListOf(qb, d.k)) ELSE 0 - 1,
      acc |-> IF d.op = "gcount" THEN QF[CHOOSE y \in 1..Len(QF) : QF[y].op = "gat" /\ QF[y].k = d.k].fn ELSE ""]

StageRec ==
  LET q1 == LoadAll(EmptyQ, inp.files1)
      q == LoadAll(EmptyQ, StageFiles(inp))
      d1 == QFBy(inp.fn1)
      d2 == QFBy(inp.fn2)
      Ok(qq, d, nm) == IF Bearers(qq, d, nm) = {} THEN {0} ELSE Bearers(qq, d, nm)
  IN [task |-> task, files1 |-> inp.files1, files2 |-> inp.files2, fn1 |-> inp.fn1, nm1 |-> inp.nm1,
      ok1 |-> Ok(q1, d1, inp.nm1), fn2 |-> inp.fn2,
      lk |-> {[name |-> nm, ok |-> Ok(q, d2, nm), later |-> Bearers(q1, d2, nm) = {} /\ Bearers(q, d2, nm) # {}]
              : nm \in StoredNames(q, d2) \cup {<<122, 122>>}}]

Rec ==
  CASE task = "stage" -> StageRec
    [] task = "first" -> FirstRec
    [] task = "db" -> LET q == QOf(inp) IN
         [task |-> task, name |-> inp.name, files |-> IF inp.gen THEN inp.files ELSE <<>>,
          next |-> q.next, nrec |-> NumRecs(q), idx |-> IdxArgs(q), res |-> DbRes(q)]
    [] OTHER -> [task |-> task, inp |-> inp, res |-> res, steps |-> steps]

DumpConstraint ==
  IF DumpFile # "" /\ pc = "done" THEN CSVWrite("%1$s", <<ToJson(Rec)>>, DumpFile) ELSE TRUE

\* the interface table, written once
ASSUME DumpFile = "" \/ CSVWrite("%1$s", <<ToJson([qf |-> QF, defaults |-> [k \in Kinds |-> DefaultRec(k)]])>>, DumpFile)
=============================================================================
