SPECIFICATION Spec
CONSTANTS
  MaxLen = 8
  MaxDepth = 3
  Conds = {"T", "F"}
  Kinds = {"if", "elif", "ifdef", "elifndef", "else", "endif", "text", "def1", "noise"}
  MinDump = 8
INVARIANT Refines
INVARIANT ClosedNormal
INVARIANT AtMostOneGroup
INVARIANT LevelBound
CONSTRAINT DumpConstraint
CHECK_DEADLOCK FALSE
