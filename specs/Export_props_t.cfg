SPECIFICATION Spec
CONSTANTS
  ElemIgnore = TRUE
  Shape <- PropShape
  MinVisSet <- Both
  File2Srcs <- None
  ClassHeads <- SecHeads
  NestedKeys <- None
  MemberAlpha <- PropMembers
  MaxMembers <- M30
  MaxClasses = 1
  BaseAlpha <- None
  MaxBases = 1
  ClassComments <- NoComment
  TopAlpha <- None
  MaxTops = 0
  AliasAlpha <- None
  MaxAliases = 0
  NestedLike = FALSE
  CmdKinds <- None
INVARIANT SafeVis
INVARIANT SafeAccess
INVARIANT SafeKind
INVARIANT SafeFile
INVARIANT SafeSig
INVARIANT SafeOwner
INVARIANT SafeForeign
INVARIANT Consistent
INVARIANT Sound
INVARIANT Complete
INVARIANT Bounded
INVARIANT OneOwner
INVARIANT RefsBackward
INVARIANT VisIsFunction
CONSTRAINT DumpConstraint
CHECK_DEADLOCK FALSE
