SPECIFICATION Spec
CONSTANTS
  MaxArgs = 3
  ForcedLoadAlways = TRUE
INVARIANT FailureReported
CONSTRAINT DumpConstraint
CHECK_DEADLOCK FALSE
