SPECIFICATION Spec
CONSTANTS
  MaxOverloads = 3
  MaxParams = 2
  ParamCats <- Cats6
  IntVals <- FewIntVals
  IntVals2 <- TinyIntVals
  ArgKinds <- PairArgKinds
  Kinds = {"static"}
  ConstMethods = FALSE
  Fixed <- NoFix
INVARIANT TiesHarmless
CONSTRAINT DisConstraint
CHECK_DEADLOCK FALSE
