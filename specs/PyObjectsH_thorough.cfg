SPECIFICATION Spec
CONSTANTS
  MaxInst = 2
  MaxWrappers = 2
  MaxHelpers = 3
  MaxDepth = 9
  Kinds <- AllKinds
INVARIANT RcAccounting
INVARIANT ExistsIffReferenced
INVARIANT NoDanglingHelper
INVARIANT OwnedAliveIffWrapper
INVARIANT AtMostOnce
INVARIANT PartsFollowParent
INVARIANT FinalAccounting
VIEW View
CONSTRAINT DumpConstraint
CHECK_DEADLOCK FALSE
