------------------------------ MODULE IdbTrace ------------------------------
(***************************************************************************)
(* Trace validation for C13: the events recorded by the H-idb hooks in     *)
(* InterrogateDatabase (Request / LoadLatest / ReadNew / Load / MergeBegin *)
(* / Merge / Freshen / Lookup) are consumed by the actions of Idb.  The     *)
(* driver inserts a Case record (the database files of the run, as JSON)   *)
(* in front of every execution and, where it dumped the database by raw    *)
(* index, a Dump record; so TLC runs the spec's read_new / remap_indices / *)
(* merge_from on the very files the library read and demands               *)
(*   - the same range allocation (first/next indices, _next_index),        *)
(*   - the same record counts after every read and merge, the same number  *)
(*     of merged types and of global types,                                *)
(*   - a Freshen exactly when the spec's fresh bit is clear, hits exactly   *)
(*     for the names in the spec's table,                                  *)
(*   - no load without a request, no lookup while requests are pending,     *)
(*   - at a Dump: the library's database equals the spec's, record by       *)
(*     record and index by index,                                           *)
(* and all invariants of Idb hold after every observed step.  A trace that *)
(* cannot be consumed deadlocks; TLC prints the last matched state.        *)
(***************************************************************************)
EXTENDS Idb, Json, IOUtils

Tr == ndJsonDeserialize(IOEnv.VERIF_TRACE)
N == Len(Tr)

VARIABLE l
tvars == <<vars, l>>

IsE(i, e) == i <= N /\ Tr[i].e = e
KindOfBit(b) == CASE b = 1 -> "tn" [] b = 2 -> "tsn" [] b = 4 -> "ttn" [] b = 8 -> "mn" [] b = 16 -> "en" [] b = 32 -> "esn"
BitOf(k) == CASE k = "tn" -> 1 [] k = "tsn" -> 2 [] k = "ttn" -> 4 [] k = "mn" -> 8 [] k = "en" -> 16 [] k = "esn" -> 32
FreshBits == FoldLeft(LAMBDA a, k : a + BitOf(k), 0, SetToSeq(fresh))
Card(fn) == Cardinality(DOMAIN fn)

TInit ==
  /\ content = <<>> /\ files = <<>> /\ bad = <<>> /\ err = FALSE
  /\ db = EmptyDB /\ requests = <<>> /\ modules = <<>> /\ pend = <<>> /\ temp = NoDB /\ pc = "idle"
  /\ fresh = {} /\ cache = [k \in CacheKinds |-> <<>>]
  /\ loaded = <<>> /\ ranges = <<>> /\ requested = {} /\ ans = <<>> /\ hist = <<>>
  /\ l = 1

\* a new process: its database files
TCase ==
  /\ IsE(l, "Case")
  /\ files' = [x \in DOMAIN Tr[l].files |-> FileOfJson(Tr[l].files[x])]
  /\ ranges' = [x \in DOMAIN Tr[l].files |-> <<0, 0>>]
  /\ bad' = [x \in DOMAIN Tr[l].files |-> IF "bad" \in DOMAIN Tr[l] THEN Tr[l].bad[x] ELSE "ok"] /\ err' = FALSE
  /\ content' = <<>> /\ db' = EmptyDB /\ requests' = <<>> /\ modules' = <<>> /\ pend' = <<>> /\ temp' = NoDB /\ pc' = "idle"
  /\ fresh' = {} /\ cache' = [k \in CacheKinds |-> <<>>]
  /\ loaded' = <<>> /\ requested' = {} /\ ans' = <<>> /\ hist' = <<>>
  /\ l' = l + 1

TRequest ==
  /\ IsE(l, "Request") /\ Tr[l].file \in DOMAIN files
  /\ LET md == IF Tr[l].next > Tr[l].first \/ Tr[l].first # 0 THEN "mod" ELSE "db" IN
     /\ Request(Tr[l].file, md)
     /\ md = "mod" => /\ Tr[l].next - Tr[l].first = FileCount(files[Tr[l].file]) + (IF bad[Tr[l].file] = "stale" THEN 1 ELSE 0)
                      /\ Tr[l].first = (IF Tr[l].next > Tr[l].first THEN db.next ELSE 1)
  /\ Tr[l].dbnext = db'.next /\ Tr[l].nreq = Len(requests') /\ Tr[l].nmod = Len(modules')
  /\ l' = l + 1

\* check_latest() found pending requests: load_latest() swapped them out
TLoadLatest ==
  /\ IsE(l, "LoadLatest") /\ requests # <<>> /\ Tr[l].n = Len(requests) /\ Tr[l].nreq = 0
  /\ Query
  /\ l' = l + 1

TReadNew ==
  /\ IsE(l, "ReadNew") /\ pend # <<>> /\ Tr[l].file = Head(pend).lib
  /\ ReadNew
  /\ Tr[l].nf = Card(temp'.f) /\ Tr[l].nw = Card(temp'.w) /\ Tr[l].nt = Card(temp'.t)
  /\ Tr[l].nm = Card(temp'.m) /\ Tr[l].ne = Card(temp'.e) /\ Tr[l].ns = Card(temp'.s)
  /\ l' = l + 1

\* the file of the request is missing: no event of ours (a LoadError event, if the tree has one, is consumed)
TMissing ==
  /\ l <= N + 1 /\ LoadMissing
  /\ l' = IF IsE(l, "LoadError") THEN l + 1 ELSE l

\* read() returned false after read_new: the module def is out of date
TStale ==
  /\ IsE(l, "LoadError") /\ pc = "remap" /\ Tr[l].file = Head(pend).lib
  /\ RemapTemp /\ temp' = NoDB
  /\ l' = l + 1

TLoad ==
  /\ IsE(l, "Load") /\ pc = "remap" /\ Tr[l].file = Head(pend).lib
  /\ RemapTemp /\ temp' # NoDB
  /\ Tr[l].bare = (IF Head(pend).first = 0 /\ Head(pend).next = 0 THEN 1 ELSE 0)
  /\ Tr[l].tnext = temp'.next /\ Tr[l].dbnext = db'.next
  /\ Tr[l].wfirst = (IF DOMAIN temp'.w = {} THEN 0 ELSE ranges'[Head(pend).lib][1])
  /\ l' = l + 1

TMerge ==
  /\ IsE(l, "MergeBegin") /\ IsE(l + 1, "Merge") /\ pc = "merge"
  /\ Tr[l].nt = Card(db.t) /\ Tr[l].ont = Card(temp.t) /\ Tr[l].nglobt = Len(db.globT)
  /\ Merge
  /\ Tr[l + 1].nt = Card(db'.t) /\ Tr[l + 1].nf = Card(db'.f) /\ Tr[l + 1].nw = Card(db'.w)
  /\ Tr[l + 1].nm = Card(db'.m) /\ Tr[l + 1].ne = Card(db'.e) /\ Tr[l + 1].ns = Card(db'.s)
  /\ Tr[l + 1].nallt = Len(db'.allT) /\ Tr[l + 1].nglobt = Len(db'.globT) /\ Tr[l + 1].fresh = 0
  /\ Tr[l].ont - (Tr[l + 1].nt - Tr[l].nt) = MergedCount(db, temp)      \* number of types identified by true name
  /\ l' = l + 2

\* load_latest returned; the query that triggered it is answered
TIdle ==
  /\ pc = "answer" /\ pc' = "idle"
  /\ UNCHANGED <<content, files, bad, err, db, requests, modules, pend, temp, fresh, cache, loaded, ranges, requested, ans, hist, l>>

\* lookup(): the table is fresh
TLookupFresh ==
  /\ IsE(l, "Lookup") /\ pc = "idle" /\ requests = <<>>
  /\ LET k == KindOfBit(Tr[l].which) IN
     /\ k \in fresh
     /\ Tr[l].hit = (IF Tr[l].name \in DOMAIN cache[k] THEN 1 ELSE 0)
  /\ Tr[l].fresh = FreshBits
  /\ UNCHANGED vars /\ l' = l + 1

\* lookup(): the bit is clear: freshen, set the bit, answer
TLookupStale ==
  /\ IsE(l, "Freshen") /\ IsE(l + 1, "Lookup") /\ pc = "idle" /\ requests = <<>>
  /\ Tr[l].which = Tr[l + 1].which
  /\ LET k == KindOfBit(Tr[l].which)
         tbl == TableOf(db, k) IN
     /\ k \notin fresh
     /\ cache' = [cache EXCEPT ![k] = tbl] /\ fresh' = fresh \cup {k}
     /\ Tr[l].size = Cardinality(DOMAIN tbl)
     /\ Tr[l + 1].hit = (IF Tr[l + 1].name \in DOMAIN tbl THEN 1 ELSE 0)
     /\ Tr[l].fresh = FreshBits + BitOf(k)
  /\ UNCHANGED <<content, files, bad, err, db, requests, modules, pend, temp, pc, loaded, ranges, requested, ans, hist>>
  /\ l' = l + 2

\* the driver dumped the library's database by raw index: it must be the spec's database
TDump ==
  /\ IsE(l, "Dump") /\ pc = "idle" /\ requests = <<>>
  /\ DBOfJson(Tr[l].db) = db /\ Tr[l].err = (IF err THEN 1 ELSE 0)
  /\ UNCHANGED vars /\ l' = l + 1

TForeign ==
  /\ l <= N /\ Tr[l].e \notin {"Case", "Request", "LoadLatest", "ReadNew", "Load", "LoadError", "MergeBegin", "Merge",
                                "Freshen", "Lookup", "Dump", "Died"}
  /\ UNCHANGED vars /\ l' = l + 1

TDone == l = N + 1 /\ UNCHANGED tvars

TNext == TCase \/ TRequest \/ TLoadLatest \/ TMissing \/ TReadNew \/ TStale \/ TLoad \/ TMerge \/ TIdle \/ TLookupFresh \/ TLookupStale
         \/ TDump \/ TForeign \/ TDone

TSpec == TInit /\ [][TNext]_tvars
=============================================================================
