SPECIFICATION Spec
CONSTANTS
  MaxN = 0
  MaxKey = 0
  MaxMods = 0
  FixShort = TRUE
  FixMid = TRUE
  Tasks = {"db", "stage"}
  DbInputs <- MCDbInputs
  StageInputs <- MCStageInputs
INVARIANT StepBound
INVARIANT DbTotalAndExact
INVARIANT StagedExact
PROPERTY Terminates
CONSTRAINT DumpConstraint
CHECK_DEADLOCK FALSE
