SPECIFICATION Spec
CONSTANTS
  MaxN = 0
  MaxKey = 0
  MaxMods = 0
  FixShort = TRUE
  FixMid = TRUE
  Tasks = {"db", "stage", "first"}
  DbInputs <- MCDbInputs
  StageInputs <- MCStageInputs
  FirstInputs <- MCFirstInputs
INVARIANT StepBound
INVARIANT DbTotalAndExact
INVARIANT StagedExact
INVARIANT FirstSeesAll
PROPERTY Terminates
CONSTRAINT DumpConstraint
CHECK_DEADLOCK FALSE
