SPECIFICATION Spec
CONSTANTS
  MaxN = 0
  MaxKey = 0
  MaxMods = 0
  FixShort = TRUE
  FixMid = TRUE
  Tasks = {"db"}
  DbInputs <- MCDbInputs
INVARIANT StepBound
INVARIANT DbTotalAndExact
PROPERTY Terminates
CONSTRAINT DumpConstraint
CHECK_DEADLOCK FALSE
