------------------------------ MODULE MacroRef ------------------------------
(***************************************************************************)
(* Macro replacement (property C08).                                       *)
(*                                                                         *)
(* The reference rule is C11 6.10.3 / C++ [cpp.replace] in the form of     *)
(* Prosser's algorithm (the algorithm the committee wrote the text from):  *)
(* every token carries a HIDE SET, the set of macro names whose            *)
(* replacement produced it; a name in its own hide set is never replaced   *)
(* again ("painted blue").                                                 *)
(*                                                                         *)
(*   token       [t |-> spelling, hs |-> hide set, c |-> lexical class]    *)
(*   definition  [fn |-> function-like?, params |-> <<names>>,             *)
(*                va |-> variadic?, body |-> <<spellings>>]                *)
(*                                                                         *)
(* The *program* is the behaviour: every step appends one source line      *)
(* (Define / Undef / PushMacro / PopMacro / Text) and the state carries    *)
(* the macro table, the push_macro stacks and the token sequence a         *)
(* conforming preprocessor has emitted so far.  Command-line -D            *)
(* definitions are the initial macro table.                                *)
(*                                                                         *)
(* Inputs whose result the standard does not define are not given a value: *)
(* Expand puts a marker token in their place and the enumeration drops     *)
(* every line that contains one (OutOfDomain):                             *)
(*   $U  unterminated invocation (would swallow the following lines)       *)
(*   $A  wrong number of arguments (constraint violation)                  *)
(*   $P  ## does not yield a single valid token (undefined)                *)
(*   $X  rescanning completes an invocation with tokens that follow the    *)
(*       replacement and the result mentions the macro that has just been  *)
(*       left: C11 6.10.3.4p4 / DR 268, "unspecified whether nested"      *)
(*   $M  outside this model (stringizing a literal it cannot spell)        *)
(***************************************************************************)
EXTENDS Naturals, Sequences, FiniteSets, TLC

\* Lexical facts about spellings that occur in recorded executions (trace validation binds them
\* to tables computed by the projection from the trace; the enumeration binds them to <<>>):
CONSTANTS ExtClass,    \* spelling -> class "n" | "p" | "s" | "i"
          ExtEsc,      \* string / character literal -> its spelling inside a # result
          ExtSep       \* what # writes between two spellings: " " (source tokens are separated by white
                       \* space) for the enumeration, "" for traces (literals compared modulo white space)

\* ---- lexical classes of the spellings used by the enumerations ------------
Nums   == {"0", "1", "2", "3", "5", "1'000", "2'000"}
Puncts == {"+", "-", "*", "(", ")", ",", "=", "[", "]", "<", ";", ">", ">=", "==", "|", "&", "!", "~", "{", "}", "#"}
\* string / character literals of the alphabet and their spelling inside a # result (" and \ escaped);
\* generated: C spelling :> spelling after #
EscTab == (   "\"O,F\"" :> "\\\"O,F\\\""
          @@ "'F'" :> "'F'"
          @@ "\"a\\n\"" :> "\\\"a\\\\n\\\""
          @@ "\"G(1)\"" :> "\\\"G(1)\\\""
          @@ "'\"'" :> "'\\\"'"
          @@ "\"a\\\\\"" :> "\\\"a\\\\\\\\\\\""
          @@ "'\\\\'" :> "'\\\\\\\\'"
          @@ "\"\\\"\"" :> "\\\"\\\\\\\"\\\""
          @@ "\"a,b\"" :> "\\\"a,b\\\""
          @@ "\"a)b\"" :> "\\\"a)b\\\""
          @@ "\"(\"" :> "\\\"(\\\""
          @@ "'x'" :> "'x'"
          @@ "'\\''" :> "'\\\\''"
          @@ "\"a\\\\\\\"b\"" :> "\\\"a\\\\\\\\\\\\\\\"b\\\""
          @@ "\"a=b\"" :> "\\\"a=b\\\""
          @@ "\"x\"" :> "\\\"x\\\"" )
\* the identifiers spelled inside each literal (they are not macro names or parameters there)
LitIds == (   "\"O,F\"" :> {"F", "O"}
          @@ "'F'" :> {"F"}
          @@ "\"a\\n\"" :> {"a"}
          @@ "\"G(1)\"" :> {"G"}
          @@ "'\"'" :> {}
          @@ "\"a\\\\\"" :> {"a"}
          @@ "'\\\\'" :> {}
          @@ "\"\\\"\"" :> {}
          @@ "\"a,b\"" :> {"a", "b"}
          @@ "\"a)b\"" :> {"a", "b"}
          @@ "\"(\"" :> {}
          @@ "'x'" :> {"x"}
          @@ "'\\''" :> {}
          @@ "\"a\\\\\\\"b\"" :> {"a", "b"}
          @@ "\"a=b\"" :> {"a", "b"}
          @@ "\"x\"" :> {"x"} )
Markers == {"$U", "$A", "$P", "$X", "$M"}

ClassOf(s) == IF s \in DOMAIN ExtClass THEN ExtClass[s]
              ELSE IF s \in Nums THEN "n" ELSE IF s \in Puncts THEN "p"
              ELSE IF s \in DOMAIN EscTab THEN "s" ELSE IF s \in Markers THEN "m" ELSE "i"
EscOf(s) == IF s \in DOMAIN EscTab THEN EscTab[s] ELSE ExtEsc[s]
CanEsc(s) == s \in DOMAIN EscTab \/ s \in DOMAIN ExtEsc
Tok(s)    == [t |-> s, hs |-> {}, c |-> ClassOf(s)]
Toks(ss)  == [i \in 1..Len(ss) |-> Tok(ss[i])]
Texts(ts) == [i \in 1..Len(ts) |-> ts[i].t]
HsAdd(hs, ts) == [i \in 1..Len(ts) |-> [ts[i] EXCEPT !.hs = @ \cup hs, !.c = IF @ = "in" THEN "i" ELSE @]]
Last(s)  == s[Len(s)]
Front(s) == SubSeq(s, 1, Len(s) - 1)
HasMarker(ts) == \E i \in 1..Len(ts) : ts[i].c = "m"

\* ---- helpers on sequences of spellings / tokens -----------------------------
\* index of the ")" matching the "(" at position i of a sequence of strings, 0 if none
RECURSIVE MatchS(_, _, _)
MatchS(ss, i, depth) ==
  IF i > Len(ss) THEN 0
  ELSE IF ss[i] = "(" THEN MatchS(ss, i + 1, depth + 1)
  ELSE IF ss[i] = ")" THEN (IF depth = 1 THEN i ELSE MatchS(ss, i + 1, depth - 1))
  ELSE MatchS(ss, i + 1, depth)
MatchParen(ts, i) == MatchS(Texts(ts), i, 0)

\* the tokens strictly between the parentheses, split at top-level commas
RECURSIVE SplitArgs(_, _, _, _)
SplitArgs(ts, depth, cur, acc) ==
  IF ts = <<>> THEN Append(acc, cur)
  ELSE LET h == Head(ts) IN
    IF h.t = "," /\ depth = 0 THEN SplitArgs(Tail(ts), depth, <<>>, Append(acc, cur))
    ELSE IF h.t = "(" THEN SplitArgs(Tail(ts), depth + 1, Append(cur, h), acc)
    ELSE IF h.t = ")" THEN SplitArgs(Tail(ts), depth - 1, Append(cur, h), acc)
    ELSE SplitArgs(Tail(ts), depth, Append(cur, h), acc)

RECURSIVE JoinComma(_)
JoinComma(args) == IF args = <<>> THEN <<>>
                   ELSE IF Len(args) = 1 THEN args[1]
                   ELSE args[1] \o <<Tok(",")>> \o JoinComma(Tail(args))

ParamIndex(d, name) ==
  IF \E i \in 1..Len(d.params) : d.params[i] = name
  THEN CHOOSE i \in 1..Len(d.params) : d.params[i] = name ELSE 0
IsParam(d, name) == ParamIndex(d, name) # 0 \/ (d.va /\ name = "__VA_ARGS__")
VaArgs(d, ap) == IF Len(ap) > Len(d.params) THEN JoinComma(SubSeq(ap, Len(d.params) + 1, Len(ap))) ELSE <<>>
\* the actual argument (unexpanded tokens) of a parameter name
Select(d, ap, name) ==
  IF d.va /\ name = "__VA_ARGS__" THEN VaArgs(d, ap)
  ELSE LET i == ParamIndex(d, name) IN IF i <= Len(ap) THEN ap[i] ELSE <<>>

\* # operator: spellings separated by one space (the renderer separates source tokens by
\* white space), " and \ of string / character literals escaped
RECURSIVE Spell(_)
Spell(ts) == IF ts = <<>> THEN ""
             ELSE LET h == IF ts[1].c = "s" THEN EscOf(ts[1].t) ELSE ts[1].t
                  IN IF Len(ts) = 1 THEN h ELSE h \o ExtSep \o Spell(Tail(ts))
Stringize(ts) ==
  IF \E i \in 1..Len(ts) : ts[i].c = "m" \/ (ts[i].c = "s" /\ ~CanEsc(ts[i].t))
  THEN Tok("$M")
  ELSE [t |-> "\"" \o Spell(ts) \o "\"", hs |-> {}, c |-> "s"]

\* ## operator.  Placemarkers are empty sequences.  The result must be one valid token.
\* Class "in": an identifier just pasted from identifier ## number.  The order in which several
\* ## of one replacement list are evaluated is unspecified; pasting an identifier to it would be
\* number ## identifier (no token) in the other order, so that has no value.  The class only
\* lives inside one substitution (HsAdd turns it into "i").
PasteClass(l, r) == CASE l = "i" /\ r = "i" -> "i"
                      [] l \in {"i", "in"} /\ r = "n" -> "in"
                      [] l = "n" /\ r = "n" -> "n"
                      [] OTHER -> "m"
\* PM: the placemarker left by an empty left operand of ##, kept as the last element of the
\* substitution result while the next operator is ##; stripped at the end of the substitution.
PM == [t |-> "", hs |-> {}, c |-> "pm"]
EndsPM(ls) == ls # <<>> /\ Last(ls).c = "pm"
Strip(ts) == SelectSeq(ts, LAMBDA tk : tk.c # "pm")
Glue(ls, rs) ==
  IF rs = <<>> THEN ls                              \* x ## placemarker = x, placemarker ## placemarker = placemarker
  ELSE IF EndsPM(ls) THEN Front(ls) \o rs           \* placemarker ## y = y, a token of its own
  ELSE IF ls = <<>> THEN rs
  ELSE LET c == PasteClass(Last(ls).c, Head(rs).c) IN
       Front(ls) \o << IF c = "m" THEN Tok("$P")
                       ELSE [t |-> Last(ls).t \o Head(rs).t, hs |-> Last(ls).hs \cap Head(rs).hs, c |-> c] >>
       \o Tail(rs)

\* macro names that can be produced, directly or through other replacements, from a token sequence
Mentions(D, S) == S \cup UNION {{D[n].body[i] : i \in 1..Len(D[n].body)} : n \in S \cap DOMAIN D}
RECURSIVE ReachN(_, _, _)
ReachN(D, S, k) == IF k = 0 THEN S ELSE ReachN(D, Mentions(D, S), k - 1)
Reach(D, S) == ReachN(D, S, Cardinality(DOMAIN D))

\* does the call supply an acceptable number of arguments?
ArityOK(d, ap) == IF d.va THEN Len(ap) >= Len(d.params) ELSE Len(ap) = Len(d.params)

(***************************************************************************)
(* Expand(D, ts): complete macro replacement of ts under the macro table D *)
(* Subst: substitution of the arguments ap into the replacement list `is`, *)
(* os accumulates the result; the hide set hs is added at the end.         *)
(***************************************************************************)
\* ---- results: the tokens and the EVENTS of the replacement that produced them -----
\* Events name what happened during the reference replacement of the input; they are
\* properties of the INPUT (vf/checks/c08.py uses them as input classes):
\*   fnblock      a function-like macro name followed by "(" was not replaced because it is in
\*                its own hide set
\*   argpaint     the complete replacement of an argument left an object-like macro name that may
\*                not be replaced again (in its own hide set) and that was not hidden at the call
\*   vaoptempty   __VA_OPT__ was dropped although a variable argument was written (it has no
\*                tokens after replacement), or the macro has no named parameter
\*   strmissing   # applied to a parameter for which no argument was written: __VA_ARGS__ when the
\*                variable arguments are omitted, or the parameter of an invocation `M ( )` that
\*                is replaced while an argument of another invocation is being replaced
\*   pasteempty   ## whose left operand is a parameter with an empty argument (placemarker), the
\*                right operand is not empty and tokens precede the left operand
\*   litparam     the replacement list of the invoked function-like macro contains a string or
\*                character literal in which the name of one of its parameters is spelled
\*   objhash      an object-like macro is replaced whose replacement list contains # (an ordinary
\*                token there)
\*   hidearg      an invocation of a function-like macro M is replaced while an argument of an
\*                enclosing invocation of M is being replaced, other than directly in an argument
\*                of a source-line invocation of M
\*   strchq       # applied to an argument that contains the character literal '"'
\*   strva        # applied to __VA_ARGS__ holding two or more arguments
\* Two more events only serve the sanity invariant NoResidual (they are not input classes):
\*   ~vanish      a replacement produced no token;   ~lparen   a replacement begins with "("
Book == {"~vanish", "~lparen"}
ClassEv(ev) == ev \ Book
R(ts, ev) == [ts |-> ts, ev |-> ev]
Cons(T, r) == [ts |-> <<T>> \o r.ts, ev |-> r.ev]
WithEv(e, r) == [ts |-> r.ts, ev |-> r.ev \cup e]
Ev(c, e) == IF c THEN {e} ELSE {}
Shape(ts) == Ev(ts = <<>>, "~vanish") \cup (IF ts # <<>> /\ ts[1].t = "(" THEN {"~lparen"} ELSE {})

ArgPaint(D, hs, ts) ==
  \E i \in 1..Len(ts) : /\ ts[i].c = "i" /\ ts[i].t \in DOMAIN D /\ ~D[ts[i].t].fn
                        /\ ts[i].t \in ts[i].hs /\ ts[i].t \notin hs

(***************************************************************************)
(* Expand(D, ts, encl): complete macro replacement of ts under the macro   *)
(* table D; encl = the function-like macros whose arguments are being      *)
(* replaced around ts (<<>> for a source line).  Subst: substitution of    *)
(* the arguments cx.ap into the replacement list `is` of macro cx.m = cx.d;*)
(* os accumulates the result, the hide set cx.hs is added at the end.      *)
(* cx.empty: the invocation was `M ( )`.                                   *)
(***************************************************************************)
InSeq(x, q) == \E i \in 1..Len(q) : q[i] = x
RECURSIVE Expand(_, _, _), Subst(_, _, _, _, _)
Subst(D, is, cx, os, ev) ==
  IF is = <<>> THEN R(HsAdd(cx.hs, Strip(os)), ev)
  ELSE LET h == Head(is) r == Tail(is) d == cx.d ap == cx.ap IN
    IF h = "#" /\ d.fn /\ r # <<>> /\ IsParam(d, Head(r))
      THEN Subst(D, Tail(r), cx, Append(os, Stringize(Select(d, ap, Head(r)))),
                 ev \cup Ev((cx.encl # <<>> /\ cx.empty) \/ (Head(r) = "__VA_ARGS__" /\ Len(ap) <= Len(d.params)), "strmissing")
                    \cup Ev(\E i \in 1..Len(Select(d, ap, Head(r))) : Select(d, ap, Head(r))[i].t = "'\"'", "strchq")
                    \cup Ev(Head(r) = "__VA_ARGS__" /\ Len(ap) > Len(d.params) + 1, "strva"))
    ELSE IF h = "##" /\ r # <<>> /\ Head(r) = "__VA_ARGS__" /\ d.va /\ os # <<>> /\ Last(os).t = ","
      \* GNU extension (documented, and what interrogate says it follows): `, ## __VA_ARGS__`
      \* drops the comma when the variable arguments are omitted, and does not paste otherwise
      THEN IF Len(d.params) = 0 THEN R(<<Tok("$X")>>, ev)        \* differs between gcc's own modes
           ELSE IF Len(ap) <= Len(d.params) THEN Subst(D, Tail(r), cx, Front(os), ev)
           ELSE Subst(D, Tail(r), cx, os \o VaArgs(d, ap), ev)
    ELSE IF h = "##" /\ r # <<>> /\ IsParam(d, Head(r))
      THEN Subst(D, Tail(r), cx, Glue(os, Select(d, ap, Head(r))),
                 ev \cup Ev(EndsPM(os) /\ Strip(os) # <<>> /\ Select(d, ap, Head(r)) # <<>>, "pasteempty"))
    ELSE IF h = "##" /\ Len(r) >= 2 /\ Head(r) = "__VA_OPT__" /\ d.va /\ r[2] = "(" /\ MatchS(r, 2, 0) # 0
      \* __VA_OPT__ ( content ) as the right operand of ##: its replacement is pasted like an
      \* argument; a placemarker if there is no variable argument or no content
      THEN LET close == MatchS(r, 2, 0)
               content == SubSeq(r, 3, close - 1)
               rest == SubSeq(r, close + 1, Len(r))
               va == Expand(D, VaArgs(d, ap), Append(cx.encl, cx.m))
           IN IF HasMarker(va.ts) THEN R(<<Tok("$M")>>, ev)
              ELSE IF va.ts # <<>> /\ content # <<>> THEN Subst(D, <<"##">> \o content \o rest, cx, os, ev)
              ELSE Subst(D, rest, cx, os,
                         ev \cup Ev(va.ts = <<>> /\ (Len(ap) > Len(d.params) \/ Len(d.params) = 0), "vaoptempty"))
    ELSE IF h = "##" /\ r # <<>>
      THEN Subst(D, Tail(r), cx, Glue(os, <<Tok(Head(r))>>), ev \cup Ev(EndsPM(os) /\ Strip(os) # <<>>, "pasteempty"))
    ELSE IF IsParam(d, h) /\ r # <<>> /\ Head(r) = "##"
      THEN LET a == Select(d, ap, h) IN          \* left operand of ##: not macro-expanded
           Subst(D, r, cx, IF a = <<>> THEN Append(os, PM) ELSE os \o a, ev)
    ELSE IF h = "__VA_OPT__" /\ d.va /\ r # <<>> /\ Head(r) = "(" /\ MatchS(r, 1, 0) # 0
      THEN LET close == MatchS(r, 1, 0)
               content == SubSeq(r, 2, close - 1)
               rest == SubSeq(r, close + 1, Len(r))
               va == Expand(D, VaArgs(d, ap), Append(cx.encl, cx.m))       \* C++20 [cpp.subst]: F(EMP) has no variable argument
               ev2 == ev \cup Ev(va.ts = <<>> /\ (Len(ap) > Len(d.params) \/ Len(d.params) = 0), "vaoptempty")
           IN IF HasMarker(va.ts) THEN R(<<Tok("$M")>>, ev)
              ELSE IF va.ts # <<>> /\ content # <<>> THEN Subst(D, content \o rest, cx, os, ev)
              ELSE IF rest # <<>> /\ Head(rest) = "##" THEN Subst(D, rest, cx, Append(os, PM), ev2)
              ELSE Subst(D, rest, cx, os, ev2)
    ELSE IF IsParam(d, h)
      THEN LET a == Expand(D, Select(d, ap, h), Append(cx.encl, cx.m)) IN      \* argument completely replaced in isolation
           IF HasMarker(a.ts) THEN R(<<Last(a.ts)>>, ev)             \* no value: the whole line has none
           ELSE Subst(D, r, cx, os \o a.ts, ev \cup a.ev \cup Ev(ArgPaint(D, cx.hs, a.ts), "argpaint"))
    ELSE Subst(D, r, cx, Append(os, Tok(h)),
               ev \cup Ev(d.fn /\ h \in DOMAIN LitIds /\ (\E id \in LitIds[h] : IsParam(d, id)), "litparam"))

Expand(D, ts, encl) ==
  IF ts = <<>> THEN R(<<>>, {})
  ELSE LET T == Head(ts) rest == Tail(ts) IN
    IF T.c = "m" THEN R(<<T>>, {})
    ELSE IF T.c # "i" \/ T.t \notin DOMAIN D THEN Cons(T, Expand(D, rest, encl))
    ELSE IF T.t \in T.hs
      THEN WithEv(Ev(D[T.t].fn /\ rest # <<>> /\ Head(rest).t = "(", "fnblock"), Cons(T, Expand(D, rest, encl)))
    ELSE LET d == D[T.t] IN
      IF ~d.fn
      THEN LET s == Subst(D, d.body, [m |-> T.t, d |-> d, ap |-> <<>>, hs |-> T.hs \cup {T.t}, encl |-> encl, empty |-> FALSE], <<>>, {})
           IN WithEv(s.ev \cup Shape(s.ts) \cup Ev(\E i \in 1..Len(d.body) : d.body[i] = "#", "objhash"),
                     Expand(D, s.ts \o rest, encl))
      ELSE IF rest = <<>> \/ Head(rest).t # "(" THEN Cons(T, Expand(D, rest, encl))
      ELSE LET close == MatchParen(rest, 1) IN
        IF close = 0 THEN R(<<Tok("$U")>>, {})
        ELSE LET inner == SubSeq(rest, 2, close - 1)
                 raw   == SplitArgs(inner, 0, <<>>, <<>>)
                 ap    == IF Len(d.params) = 0 /\ inner = <<>> THEN <<>> ELSE raw
                 after == SubSeq(rest, close + 1, Len(rest))
                 lost  == T.hs \ rest[close].hs       \* replacements left while collecting the arguments
                 s     == Subst(D, d.body, [m |-> T.t, d |-> d, ap |-> ap, hs |-> (T.hs \cap rest[close].hs) \cup {T.t},
                                            encl |-> encl, empty |-> inner = <<>>], <<>>, {})
             IN IF ~ArityOK(d, ap) THEN R(<<Tok("$A")>>, {})
                ELSE IF lost # {} /\ Reach(D, {s.ts[i].t : i \in 1..Len(s.ts)}) \cap lost # {}
                  THEN R(<<Tok("$X")>>, {})
                ELSE WithEv(s.ev \cup Shape(s.ts) \cup Ev(InSeq(T.t, encl) /\ encl # <<T.t>>, "hidearg"),
                            Expand(D, s.ts \o after, encl))

(***************************************************************************)
(* Sanity of the reference itself (evaluated by TLC on every line).        *)
(***************************************************************************)
\* No replaceable macro name is left in the output: an object-like name survives only if it
\* is in its own hide set; a function-like name that is not in its own hide set is never left
\* directly before a "(" -- unless that "(" came to stand there after the name had been passed:
\* it begins a later replacement (`#define LP (` / `F LP 1 )`) or what stood between vanished
\* (`#define E` / `F E ( 1 )`); lines on which such a replacement happened are exempt.
NoResidualIn(D, line, ev) ==
  \A i \in 1..Len(line) :
    (line[i].c = "i" /\ line[i].t \in DOMAIN D /\ line[i].t \notin line[i].hs)
      => /\ D[line[i].t].fn
         /\ (ev \cap Book = {}) => ~(i < Len(line) /\ line[i + 1].t = "(")
\* hide sets only ever name macros
HideSetsAreNamesIn(D, line) == \A j \in 1..Len(line) : line[j].hs \subseteq DOMAIN D
Sane(D, line, ev) == NoResidualIn(D, line, ev) /\ HideSetsAreNamesIn(D, line)

(***************************************************************************)
(* The state machine: one step per source line.                            *)
(***************************************************************************)
VARIABLES defs,        \* macro table: name -> definition
          pushStack,   \* name -> sequence of saved definitions (NoDef = was undefined)
          out          \* per source line, [ts |-> the tokens a conforming preprocessor emits for it,
                       \*                   ev |-> events of their replacement, ok |-> sanity verdict]

mvars == <<defs, pushStack, out>>
NoOut == [ts |-> <<>>, ev |-> {}, ok |-> TRUE]
NoDef == [fn |-> FALSE, params |-> <<>>, va |-> FALSE, body |-> <<"$undefined">>]

Without(f, m) == [n \in DOMAIN f \ {m} |-> f[n]]
With(f, m, v) == [n \in DOMAIN f \cup {m} |-> IF n = m THEN v ELSE f[n]]

MInit(D0) == defs = D0 /\ pushStack = <<>> /\ out = <<>>

\* fn = FALSE: object-like (params = <<>>); fn = TRUE: function-like, possibly with no parameter
Define(m, fn, params, va, body) ==
  /\ defs' = With(defs, m, [fn |-> fn, params |-> params, va |-> va, body |-> body])
  /\ out' = Append(out, NoOut) /\ UNCHANGED pushStack

Undef(m) ==
  /\ defs' = Without(defs, m)
  /\ out' = Append(out, NoOut) /\ UNCHANGED pushStack

StackOf(m) == IF m \in DOMAIN pushStack THEN pushStack[m] ELSE <<>>

PushMacro(m) ==
  /\ pushStack' = With(pushStack, m, Append(StackOf(m), IF m \in DOMAIN defs THEN defs[m] ELSE NoDef))
  /\ out' = Append(out, NoOut) /\ UNCHANGED defs

\* pop_macro with an empty stack has no effect
PopMacro(m) ==
  /\ IF StackOf(m) = <<>> THEN UNCHANGED <<defs, pushStack>>
     ELSE /\ pushStack' = With(pushStack, m, Front(StackOf(m)))
          /\ defs' = IF Last(StackOf(m)) = NoDef THEN Without(defs, m) ELSE With(defs, m, Last(StackOf(m)))
  /\ out' = Append(out, NoOut)

\* a line of the output with the verdict of the sanity conditions below under the macro table of
\* that moment
OutLine(D, r) == [ts |-> r.ts, ev |-> r.ev, ok |-> HasMarker(r.ts) \/ Sane(D, r.ts, r.ev)]

Text(tokens) ==
  /\ out' = Append(out, OutLine(defs, Expand(defs, Toks(tokens), <<>>)))
  /\ UNCHANGED <<defs, pushStack>>

\* several Text lines in one step (they do not change the macro table)
TextBlock(tt) ==
  /\ out' = out \o [i \in 1..Len(tt) |-> OutLine(defs, Expand(defs, Toks(tt[i]), <<>>))]
  /\ UNCHANGED <<defs, pushStack>>

OutOfDomain(line) == HasMarker(line.ts)

\* Expand terminated on every line (TLC computed a value) and every value is sane
NoResidual == \A i \in 1..Len(out) : out[i].ok
=============================================================================
