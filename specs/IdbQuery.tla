------------------------------ MODULE IdbQuery ------------------------------
(***************************************************************************)
(* The query interface of libinterrogatedb (property C20).                 *)
(*                                                                         *)
(* 1. QF: one line per function of interrogate_interface.h saying which    *)
(*    table / field / flag bit / vector it reads; Query(q, d, i, n) is the  *)
(*    TOTAL operator that every by-index function must compute: the field  *)
(*    of record i when i is an index of that table, else the answer of a   *)
(*    default-constructed record (0 / FALSE / "" -- and 1 for the array    *)
(*    size, which is what every non-array type answers); vector accessors  *)
(*    answer the neutral value outside 0 .. count-1.  Lookup(q, d, name)   *)
(*    models the lazily refreshed name maps (ascending index order, later  *)
(*    entries replace earlier ones).                                       *)
(* 2. InterrogateDatabase::get_wrapper_by_unique_name = substr(0,4) module *)
(*    hash + binary_search_wrapper_hash(begin, end, key), as a STEP        *)
(*    MACHINE (task "uniq"), for every sorted table of size 0..MaxN and    *)
(*    every key position.                                                  *)
(* 3. get_fptr = find_module + binary_search_module(begin, end, index) as  *)
(*    a step machine (task "fptr"), for every layout of module index       *)
(*    ranges and every wrapper index.                                      *)
(* Termination (<>Returned under weak fairness, and a step bound as an     *)
(* invariant) and exactness (the answer equals the reference: plain        *)
(* membership) are checked by TLC.  FixShort / FixMid = FALSE model the    *)
(* code before fixes C20-1 / C20-2 and exist only to document them; the    *)
(* registered configurations use TRUE (the intended behaviour).            *)
(***************************************************************************)
EXTENDS IdbFileFormat

CONSTANTS
  MaxN,        \* unique-name tables of size 0..MaxN
  MaxKey,      \* wrapper hash names are the numbers 0..MaxKey (0 = the empty name); queries 0..MaxKey+1
  MaxMods,     \* module index-range layouts of 0..MaxMods modules
  FixShort, FixMid,
  Tasks        \* subset of {"uniq", "fptr", "db"}

IntMin == -2147483647 - 1
IntMax == 2147483647

---------------------------------------------------------------------------
(* 1. The interface table *)
Ent(fn, k, op, f, bit, sub, r) == [fn |-> fn, k |-> k, op |-> op, f |-> f, bit |-> bit, sub |-> sub, r |-> r]
Fld(fn, k, f, r) == Ent(fn, k, "field", f, 0, "", r)
Flg(fn, k, bit) == Ent(fn, k, "flag", "flags", bit, "", "b")
NonEmpty(fn, k, f) == Ent(fn, k, "nonempty", f, 0, "", "b")
NonZero(fn, k, f) == Ent(fn, k, "nonzero", f, 0, "", "b")
Cnt(fn, k, f) == Ent(fn, k, "len", f, 0, "", "i")
At(fn, k, f) == Ent(fn, k, "at", f, 0, "", "i")
AtFld(fn, k, f, sub, r) == Ent(fn, k, "atfield", f, 0, sub, r)
AtFlg(fn, k, f, bit) == Ent(fn, k, "atflag", f, bit, "", "b")
DefS(fn, k, f) == Ent(fn, k, "def", f, 0, "", "s")
HasDef(fn, k, f) == Ent(fn, k, "hasdef", f, 0, "", "b")
Chain(fn, f) == Ent(fn, "s", "chain", f, 0, "", "s")
GCnt(fn, l) == Ent(fn, l, "gcount", "", 0, "", "i")
GAt(fn, l) == Ent(fn, l, "gat", "", 0, "", "i")
Lk(fn, k, f) == Ent(fn, k, "lookup", f, 0, "", "i")

QF == <<
  Ent("interrogate_error_flag", "", "errflag", "", 0, "", "b"),
  \* manifests
  GCnt("interrogate_number_of_manifests", "gm"), GAt("interrogate_get_manifest", "gm"),
  Lk("interrogate_get_manifest_by_name", "m", "name"),
  Fld("interrogate_manifest_name", "m", "name", "s"), Fld("interrogate_manifest_definition", "m", "def", "s"),
  Flg("interrogate_manifest_has_type", "m", 1), Fld("interrogate_manifest_get_type", "m", "type", "i"),
  Flg("interrogate_manifest_has_getter", "m", 2), Fld("interrogate_manifest_getter", "m", "getter", "i"),
  Flg("interrogate_manifest_has_int_value", "m", 4), Fld("interrogate_manifest_get_int_value", "m", "ival", "i"),
  \* elements
  Fld("interrogate_element_name", "e", "name", "s"), Fld("interrogate_element_scoped_name", "e", "scoped", "s"),
  NonEmpty("interrogate_element_has_comment", "e", "comment"), Fld("interrogate_element_comment", "e", "comment", "s"),
  Lk("interrogate_get_element_by_name", "e", "name"), Lk("interrogate_get_element_by_scoped_name", "e", "scoped"),
  Fld("interrogate_element_type", "e", "type", "i"),
  Flg("interrogate_element_has_getter", "e", 2), Fld("interrogate_element_getter", "e", "getter", "i"),
  Flg("interrogate_element_has_setter", "e", 4), Fld("interrogate_element_setter", "e", "setter", "i"),
  Flg("interrogate_element_has_has_function", "e", 8), Fld("interrogate_element_has_function", "e", "has", "i"),
  Flg("interrogate_element_has_clear_function", "e", 16), Fld("interrogate_element_clear_function", "e", "clear", "i"),
  Flg("interrogate_element_has_del_function", "e", 32), Fld("interrogate_element_del_function", "e", "del", "i"),
  Flg("interrogate_element_has_insert_function", "e", 256), Fld("interrogate_element_insert_function", "e", "insert", "i"),
  Flg("interrogate_element_has_getkey_function", "e", 512), Fld("interrogate_element_getkey_function", "e", "getkey", "i"),
  Fld("interrogate_element_length_function", "e", "length", "i"),
  Flg("interrogate_element_is_sequence", "e", 64), Flg("interrogate_element_is_mapping", "e", 128),
  GCnt("interrogate_number_of_globals", "ge"), GAt("interrogate_get_global", "ge"),
  \* functions
  GCnt("interrogate_number_of_global_functions", "gf"), GAt("interrogate_get_global_function", "gf"),
  GCnt("interrogate_number_of_functions", "af"), GAt("interrogate_get_function", "af"),
  Fld("interrogate_function_name", "f", "name", "s"), Fld("interrogate_function_scoped_name", "f", "scoped", "s"),
  NonEmpty("interrogate_function_has_comment", "f", "comment"), Fld("interrogate_function_comment", "f", "comment", "s"),
  Fld("interrogate_function_prototype", "f", "proto", "s"),
  Flg("interrogate_function_is_method", "f", 4), Fld("interrogate_function_class", "f", "cls", "i"),
  Flg("interrogate_function_is_unary_op", "f", 64), Flg("interrogate_function_is_operator_typecast", "f", 128),
  Flg("interrogate_function_is_constructor", "f", 256), Flg("interrogate_function_is_destructor", "f", 512),
  HasDef("interrogate_function_has_module_name", "f", "mod"), DefS("interrogate_function_module_name", "f", "mod"),
  HasDef("interrogate_function_has_library_name", "f", "lib"), DefS("interrogate_function_library_name", "f", "lib"),
  Flg("interrogate_function_is_virtual", "f", 2),
  Cnt("interrogate_function_number_of_c_wrappers", "f", "cw"), At("interrogate_function_c_wrapper", "f", "cw"),
  Cnt("interrogate_function_number_of_python_wrappers", "f", "pw"), At("interrogate_function_python_wrapper", "f", "pw"),
  \* wrappers
  Fld("interrogate_wrapper_name", "w", "name", "s"), Fld("interrogate_wrapper_function", "w", "fn", "i"),
  Flg("interrogate_wrapper_is_callable_by_name", "w", 4), Flg("interrogate_wrapper_is_copy_constructor", "w", 8),
  Flg("interrogate_wrapper_is_coerce_constructor", "w", 16), Flg("interrogate_wrapper_is_extension", "w", 32),
  Flg("interrogate_wrapper_is_deprecated", "w", 64),
  NonEmpty("interrogate_wrapper_has_comment", "w", "comment"), Fld("interrogate_wrapper_comment", "w", "comment", "s"),
  Flg("interrogate_wrapper_has_return_value", "w", 2), Fld("interrogate_wrapper_return_type", "w", "ret", "i"),
  Flg("interrogate_wrapper_caller_manages_return_value", "w", 1),
  Fld("interrogate_wrapper_return_value_destructor", "w", "rdtor", "i"),
  Cnt("interrogate_wrapper_number_of_parameters", "w", "params"),
  AtFld("interrogate_wrapper_parameter_type", "w", "params", "type", "i"),
  AtFlg("interrogate_wrapper_parameter_has_name", "w", "params", 1),
  AtFld("interrogate_wrapper_parameter_name", "w", "params", "name", "s"),
  AtFlg("interrogate_wrapper_parameter_is_this", "w", "params", 2),
  AtFlg("interrogate_wrapper_parameter_is_optional", "w", "params", 4),
  Ent("interrogate_wrapper_has_pointer", "w", "hasfptr", "", 0, "", "b"),
  Ent("interrogate_wrapper_pointer", "w", "fptr", "", 0, "", "p"),
  Fld("interrogate_wrapper_unique_name", "w", "unique", "s"),
  Ent("interrogate_get_wrapper_by_unique_name", "w", "uniq", "unique", 0, "", "i"),
  \* make_seqs
  Fld("interrogate_make_seq_seq_name", "s", "name", "s"), Fld("interrogate_make_seq_scoped_name", "s", "scoped", "s"),
  NonEmpty("interrogate_make_seq_has_comment", "s", "comment"), Fld("interrogate_make_seq_comment", "s", "comment", "s"),
  Chain("interrogate_make_seq_num_name", "lenget"), Chain("interrogate_make_seq_element_name", "elemget"),
  Fld("interrogate_make_seq_num_getter", "s", "lenget", "i"), Fld("interrogate_make_seq_element_getter", "s", "elemget", "i"),
  \* types
  GCnt("interrogate_number_of_global_types", "gt"), GAt("interrogate_get_global_type", "gt"),
  GCnt("interrogate_number_of_types", "at"), GAt("interrogate_get_type", "at"),
  Lk("interrogate_get_type_by_name", "t", "name"), Lk("interrogate_get_type_by_scoped_name", "t", "scoped"),
  Lk("interrogate_get_type_by_true_name", "t", "true"),
  Flg("interrogate_type_is_global", "t", 1), Flg("interrogate_type_is_deprecated", "t", 33554432),
  Fld("interrogate_type_name", "t", "name", "s"), Fld("interrogate_type_scoped_name", "t", "scoped", "s"),
  Fld("interrogate_type_true_name", "t", "true", "s"),
  Flg("interrogate_type_is_nested", "t", 262144), Fld("interrogate_type_outer_class", "t", "outer", "i"),
  NonEmpty("interrogate_type_has_comment", "t", "comment"), Fld("interrogate_type_comment", "t", "comment", "s"),
  HasDef("interrogate_type_has_module_name", "t", "mod"), DefS("interrogate_type_module_name", "t", "mod"),
  HasDef("interrogate_type_has_library_name", "t", "lib"), DefS("interrogate_type_library_name", "t", "lib"),
  Flg("interrogate_type_is_atomic", "t", 2), Fld("interrogate_type_atomic_token", "t", "atomic", "i"),
  Flg("interrogate_type_is_unsigned", "t", 4), Flg("interrogate_type_is_signed", "t", 8),
  Flg("interrogate_type_is_long", "t", 16), Flg("interrogate_type_is_longlong", "t", 32),
  Flg("interrogate_type_is_short", "t", 64), Flg("interrogate_type_is_wrapped", "t", 128),
  Flg("interrogate_type_is_pointer", "t", 256), Flg("interrogate_type_is_const", "t", 512),
  Flg("interrogate_type_is_typedef", "t", 2097152), Fld("interrogate_type_wrapped_type", "t", "wrapped", "i"),
  Flg("interrogate_type_is_array", "t", 4194304), Fld("interrogate_type_array_size", "t", "asize", "i"),
  Flg("interrogate_type_is_enum", "t", 524288), Flg("interrogate_type_is_scoped_enum", "t", 8388608),
  Cnt("interrogate_type_number_of_enum_values", "t", "enums"),
  AtFld("interrogate_type_enum_value_name", "t", "enums", "name", "s"),
  AtFld("interrogate_type_enum_value_scoped_name", "t", "enums", "scoped", "s"),
  AtFld("interrogate_type_enum_value_comment", "t", "enums", "comment", "s"),
  AtFld("interrogate_type_enum_value", "t", "enums", "value", "i"),
  Flg("interrogate_type_is_struct", "t", 1024), Flg("interrogate_type_is_class", "t", 2048),
  Flg("interrogate_type_is_union", "t", 4096), Flg("interrogate_type_is_fully_defined", "t", 8192),
  Flg("interrogate_type_is_unpublished", "t", 1048576),
  Cnt("interrogate_type_number_of_constructors", "t", "ctors"), At("interrogate_type_get_constructor", "t", "ctors"),
  NonZero("interrogate_type_has_destructor", "t", "dtor"), Flg("interrogate_type_destructor_is_inherited", "t", 65536),
  Fld("interrogate_type_get_destructor", "t", "dtor", "i"),
  Cnt("interrogate_type_number_of_elements", "t", "elems"), At("interrogate_type_get_element", "t", "elems"),
  Cnt("interrogate_type_number_of_methods", "t", "methods"), At("interrogate_type_get_method", "t", "methods"),
  Cnt("interrogate_type_number_of_make_seqs", "t", "mseqs"), At("interrogate_type_get_make_seq", "t", "mseqs"),
  Cnt("interrogate_type_number_of_casts", "t", "casts"), At("interrogate_type_get_cast", "t", "casts"),
  Cnt("interrogate_type_number_of_derivations", "t", "derivs"),
  AtFld("interrogate_type_get_derivation", "t", "derivs", "base", "i"),
  Flg("interrogate_type_is_final", "t", 16777216),
  AtFlg("interrogate_type_derivation_has_upcast", "t", "derivs", 1),
  AtFld("interrogate_type_get_upcast", "t", "derivs", "up", "i"),
  AtFlg("interrogate_type_derivation_downcast_is_impossible", "t", "derivs", 4),
  AtFlg("interrogate_type_derivation_has_downcast", "t", "derivs", 2),
  AtFld("interrogate_type_get_downcast", "t", "derivs", "down", "i"),
  Cnt("interrogate_type_number_of_nested_types", "t", "nested"), At("interrogate_type_get_nested_type", "t", "nested")
>>

ByIndexOps == {"field", "flag", "nonempty", "nonzero", "len", "def", "hasdef", "chain", "hasfptr", "fptr"}
ByPosOps == {"at", "atfield", "atflag"}

\* A loaded state q = [next, f, w, t, m, e, s, defs : Seq([first, next, lib, mod]), mods : the _modules vector]
DefaultRec(k) == Tmpl(k, 0, 0, <<>>, <<>>, <<>>)       \* a default-constructed record: the "bogus" one
Known(q, k, i) == i \in Idxs(q[k])
RecAt(q, k, i) == IF Known(q, k, i) THEN q[k][CHOOSE j \in 1..Len(q[k]) : q[k][j].idx = i] ELSE DefaultRec(k)
NoDef == [lib |-> <<>>, mod |-> <<>>]
DefOf(q, k, i) ==
  IF Known(q, k, i) /\ \E j \in 1..Len(q.defs) : q.defs[j].first <= i /\ i < q.defs[j].next
    THEN q.defs[CHOOSE j \in 1..Len(q.defs) : q.defs[j].first <= i /\ i < q.defs[j].next]
    ELSE NoDef

Neutral(r) == CASE r = "i" -> 0 [] r = "p" -> 0 [] r = "b" -> FALSE [] r = "s" -> <<>>
NeutralOf(d) == IF d.fn = "interrogate_type_array_size" THEN 1 ELSE Neutral(d.r)

\* the enumeration vectors (_global_types, _all_types, ...): ascending index order while nothing is shared
IsGlobalRec(r) == HasBit(r.flags, 1)
ListOf(q, l) ==
  CASE l = "gm" -> IdxSeq(q.m)
    [] l = "ge" -> IdxSeq(SelectSeq(q.e, IsGlobalRec))
    [] l = "gf" -> IdxSeq(SelectSeq(q.f, IsGlobalRec))
    [] l = "af" -> IdxSeq(q.f)
    [] l = "gt" -> IdxSeq(SelectSeq(q.t, IsGlobalRec))
    [] l = "at" -> IdxSeq(q.t)

InRange(n, len) == 0 <= n /\ n < len

\* reference for get_fptr: the module whose index range contains the wrapper, if it has a pointer for it
FptrRef(mods, w) ==
  IF \E j \in 1..Len(mods) : mods[j].first <= w /\ w < mods[j].next /\ w - mods[j].first < mods[j].nf
    THEN LET j == CHOOSE j \in 1..Len(mods) : mods[j].first <= w /\ w < mods[j].next
         IN mods[j].fp[w - mods[j].first + 1]
    ELSE 0

\* every by-index / by-position function
Query(q, d, i, n) ==
  CASE d.op = "field" -> RecAt(q, d.k, i)[d.f]
    [] d.op = "flag" -> HasBit(RecAt(q, d.k, i).flags, d.bit)
    [] d.op = "nonempty" -> RecAt(q, d.k, i)[d.f] # <<>>
    [] d.op = "nonzero" -> RecAt(q, d.k, i)[d.f] # 0
    [] d.op = "len" -> Len(RecAt(q, d.k, i)[d.f])
    [] d.op = "at" -> LET v == RecAt(q, d.k, i)[d.f] IN IF InRange(n, Len(v)) THEN v[n + 1] ELSE 0
    [] d.op = "atfield" -> LET v == RecAt(q, d.k, i)[d.f] IN IF InRange(n, Len(v)) THEN v[n + 1][d.sub] ELSE Neutral(d.r)
    [] d.op = "atflag" -> LET v == RecAt(q, d.k, i)[d.f] IN IF InRange(n, Len(v)) THEN HasBit(v[n + 1].flags, d.bit) ELSE FALSE
    [] d.op = "def" -> DefOf(q, d.k, i)[d.f]
    [] d.op = "hasdef" -> DefOf(q, d.k, i)[d.f] # <<>>
    [] d.op = "chain" -> RecAt(q, "f", RecAt(q, "s", i)[d.f]).name
    [] d.op = "gcount" -> Len(ListOf(q, d.k))
    [] d.op = "gat" -> LET v == ListOf(q, d.k) IN IF InRange(i, Len(v)) THEN v[i + 1] ELSE 0
    [] d.op = "hasfptr" -> FptrRef(q.mods, i) # 0
    [] d.op = "fptr" -> FptrRef(q.mods, i)
    [] d.op = "errflag" -> FALSE

VecLen(q, d, i) == Len(RecAt(q, d.k, i)[d.f])

\* the name maps: freshen_xxx walks the table in ascending index order, a later record replaces an earlier one
Bearers(q, d, name) == {q[d.k][j].idx : j \in {j \in 1..Len(q[d.k]) : q[d.k][j][d.f] = name}}
SetMax(S) == CHOOSE x \in S : \A y \in S : y <= x
Lookup(q, d, name) == IF Bearers(q, d, name) = {} THEN 0 ELSE SetMax(Bearers(q, d, name))

\* ---- the names a lookup is asked for: every stored name and its systematic mutations.  None of them may be
\*      answered with an entity unless some entity really bears that very name.
FlipCase(nm) == [j \in 1..Len(nm) |-> IF nm[j] \in 65..90 THEN nm[j] + 32 ELSE IF nm[j] \in 97..122 THEN nm[j] - 32 ELSE nm[j]]
DropAt(nm, p) == SubSeq(nm, 1, p - 1) \o SubSeq(nm, p + 1, Len(nm))
DoubleAt(nm, p) == SubSeq(nm, 1, p) \o SubSeq(nm, p, Len(nm))
Mutations(nm) ==
  LET n == Len(nm)
      mid == (n + 1) \div 2
      ps == IF n = 0 THEN {} ELSE {1, mid, n}
      scopes == {j \in 1..(n - 1) : nm[j] = 58 /\ nm[j + 1] = 58}
  IN {<<58, 58>> \o nm, nm \o <<58, 58>>, <<32>> \o nm, Append(nm, 32), Append(nm, 120), FlipCase(nm)}
     \cup {DropAt(nm, p) : p \in ps} \cup {DoubleAt(nm, p) : p \in ps}
     \cup {SubSeq(nm, 1, k) : k \in {n - 1, n \div 2} \cap (0..n)}                 \* prefixes
     \cup {SubSeq(nm, k, n) : k \in {2, mid + 1} \cap (1..(n + 1))}                \* suffixes
     \cup {SubSeq(nm, j + 2, n) : j \in scopes} \cup {SubSeq(nm, 1, j - 1) : j \in scopes}   \* around every ::
\* the other name fields of the same table: the scoped name given to the unscoped lookup and so on
NameFields(k) == CASE k = "t" -> {"name", "scoped", "true"} [] k = "e" -> {"name", "scoped"} [] k = "m" -> {"name", "def"}
                   [] k = "w" -> {"name", "unique"} [] OTHER -> {"name"}
NameArgs(q, d) ==
  LET stored == {q[d.k][j][d.f] : j \in 1..Len(q[d.k])}
      cross == {q[d.k][j][f] : j \in 1..Len(q[d.k]), f \in NameFields(d.k)}
  IN stored \cup cross \cup UNION {Mutations(nm) : nm \in stored} \cup {<<>>, <<122, 122>>, <<32>>, <<58, 58>>}

---------------------------------------------------------------------------
(* Loading database files into q (what interrogate_request_database + the first query do);
   the files of one scenario share no type name. *)
EmptyQ == [next |-> 1, defs |-> <<>>, mods |-> <<>>] @@ EmptyTables
LoadFile(q, bytes) ==
  LET r == ReadFile(bytes)
      ld == Remap(ForceFlags(r.db), q.next)
  IN IF ~r.ok THEN q
     ELSE [q EXCEPT !.f = @ \o ld.f, !.w = @ \o ld.w, !.t = @ \o ld.t, !.m = @ \o ld.m, !.e = @ \o ld.e, !.s = @ \o ld.s,
                    !.next = @ + NumRecs(ld),
                    !.defs = Append(@, [first |-> q.next, next |-> q.next + NumRecs(ld), lib |-> ld.lib, mod |-> ld.mod])]
RECURSIVE LoadAll(_, _)
LoadAll(q, files) == IF files = <<>> THEN q ELSE LoadAll(LoadFile(q, Head(files)), Tail(files))

---------------------------------------------------------------------------
(* 2./3. The two searches as step machines *)
VARIABLES
  task,    \* "uniq" | "fptr" | "db" | "stage"
  inp,     \* the input of the call (chosen initially)
  pc, lo, hi, steps, res,
  cache    \* the lazily refreshed name maps: [fresh : the lookup functions whose map is marked fresh
           \* (_lookups_fresh), at : for each map that was ever built, how many files were loaded then]

vars == <<task, inp, pc, lo, hi, steps, res, cache>>

Running == -2

\* ---- inputs of task "uniq":
\*   mods : Seq([hash, table : Seq([key, off]), first, num])   hash 1, 2 are registered library hash names
\*   q    : [kind : "short" | "full", len : 0..3 (short only), hash : 0..2 (0 = not registered), key]
SortedSeqOf(S) == [i \in 1..Cardinality(S) |-> CHOOSE x \in S : Cardinality({y \in S : y < x}) = i - 1]
TableOf(ks, perm) == [i \in 1..Len(ks) |-> [key |-> ks[i], off |-> IF perm = "id" THEN i - 1 ELSE Len(ks) - i]]
OtherTable == <<[key |-> 2, off |-> 0], [key |-> 5, off |-> 1]>>
UniqMods(ks, perm, layout) ==
  IF layout = "alone" THEN <<[hash |-> 1, table |-> TableOf(ks, perm), first |-> 1, num |-> MaxKey + 1]>>
  ELSE <<[hash |-> 2, table |-> OtherTable, first |-> 1, num |-> 2],
         [hash |-> 1, table |-> TableOf(ks, perm), first |-> 3, num |-> MaxKey + 1]>>
\* (nested quantifiers, not one big set: TLC builds big unions quadratically)
UniqInit ==
  \E S \in SUBSET (0..MaxKey) : Cardinality(S) <= MaxN /\
  \E perm \in {"id", "rev"}, layout \in {"alone", "second"} :
    \/ \E len \in 0..3 : inp = [mods |-> UniqMods(SortedSeqOf(S), perm, layout),
                                  q |-> [kind |-> "short", len |-> len, hash |-> 1, key |-> 0]]
    \/ inp = [mods |-> UniqMods(SortedSeqOf(S), perm, layout), q |-> [kind |-> "full", len |-> 4, hash |-> 0, key |-> 3]]
    \/ \E key \in 0..(MaxKey + 1) : inp = [mods |-> UniqMods(SortedSeqOf(S), perm, layout),
                                             q |-> [kind |-> "full", len |-> 4, hash |-> 1, key |-> key]]

\* request_module: _modules_by_hash[library_hash_name] = def, only when the table is not empty
ByHash(mods, h) == {j \in 1..Len(mods) : mods[j].hash = h /\ Len(mods[j].table) > 0}
UniqRef(in0) ==
  LET c == ByHash(in0.mods, in0.q.hash) IN
  IF in0.q.kind = "short" \/ c = {} THEN 0
  ELSE LET m == in0.mods[SetMax(c)]
           hit == {j \in 1..Len(m.table) : m.table[j].key = in0.q.key}
       IN IF hit = {} THEN 0 ELSE m.first + m.table[CHOOSE j \in hit : TRUE].off

\* ---- inputs of task "fptr":
\*   mods : Seq([first, next, nf, fp : Seq(pointer tags)])  the _modules vector (ranges ascending, disjoint)
\*   w    : the wrapper index asked for
ModShapes == [gap : {0, 3}, size : {1, 2}, nfk : {"none", "all", "short"}]
RECURSIVE Place(_, _, _)
Place(shapes, from, j) ==
  IF shapes = <<>> THEN <<>>
  ELSE LET sh == Head(shapes)
           first == from + sh.gap
           nf == CASE sh.nfk = "none" -> 0 [] sh.nfk = "all" -> sh.size [] sh.nfk = "short" -> sh.size - 1
       IN <<[first |-> first, next |-> first + sh.size, nf |-> nf,
             fp |-> [o \in 1..nf |-> IF sh.nfk = "short" /\ o = 1 THEN 0 ELSE 4096 + 256 * j + o]]>>
          \o Place(Tail(shapes), first + sh.size, j + 1)
LastNext(mods) == IF mods = <<>> THEN 1 ELSE mods[Len(mods)].next
FptrInit ==
  \E n \in 0..MaxMods : \E shapes \in [1..n -> ModShapes] :
    LET mods == Place(shapes, 1, 1) IN
    \E w \in (-2..(LastNext(mods) + 2)) \cup {IntMin, IntMax} : inp = [mods |-> mods, shapes |-> shapes, w |-> w]

\* ---- inputs of task "db": a scenario [name, files : Seq(bytes)]; see IdbQueryMC
CONSTANT DbInputs
\* ---- inputs of task "stage": a HISTORY [name, files1, fn1, nm1, files2, fn2]: files1 are loaded, lookup function
\*      fn1 answers for name nm1, files2 are requested (and merged by the next query), lookup function fn2 is asked
\*      for every name
CONSTANT StageInputs
\* ---- inputs of task "first": [name, files1, files2, fn]: files1 are requested and function fn is the FIRST query
\*      (it must force the load: check_latest), then files2 are requested and fn is asked again, first again
CONSTANT FirstInputs
\* the three functions the header documents as not forcing a load (their answers do not depend on database files)
NoLoadFns == {"interrogate_wrapper_has_pointer", "interrogate_wrapper_pointer", "interrogate_get_wrapper_by_unique_name"}

Init ==
  /\ task \in Tasks
  /\ \/ task = "uniq" /\ UniqInit
     \/ task = "fptr" /\ FptrInit
     \/ task = "db" /\ inp \in DbInputs
     \/ task = "stage" /\ inp \in StageInputs
     \/ task = "first" /\ inp \in FirstInputs
  /\ pc = "start" /\ lo = 0 /\ hi = 0 /\ steps = 0 /\ res = Running
  /\ cache = [fresh |-> {}, at |-> [x \in {} |-> 0]]

Return(v) == pc' = "done" /\ res' = v /\ UNCHANGED <<lo, hi>>

\* get_wrapper_by_unique_name: unique_name.substr(0, 4) / substr(4)
USplit ==
  /\ task = "uniq" /\ pc = "start"
  /\ IF inp.q.kind = "short"
       THEN IF FixShort THEN Return(0)
            ELSE pc' = "aborted" /\ UNCHANGED <<lo, hi, res>>    \* substr(4) throws std::out_of_range
       ELSE pc' = "hash" /\ UNCHANGED <<lo, hi, res>>
\* _modules_by_hash.find(library_hash_name)
UHash ==
  /\ task = "uniq" /\ pc = "hash"
  /\ LET c == ByHash(inp.mods, inp.q.hash) IN
     IF c = {} THEN Return(0)
     ELSE pc' = "search" /\ lo' = 1 /\ hi' = Len(inp.mods[SetMax(c)].table) + 1 /\ UNCHANGED res
\* binary_search_wrapper_hash(begin, end, wrapper_hash_name): one call per step
USearch ==
  /\ task = "uniq" /\ pc = "search"
  /\ LET m == inp.mods[SetMax(ByHash(inp.mods, inp.q.hash))] IN
     IF hi <= lo THEN Return(0)                                   \* -1: not found
     ELSE LET mid == lo + (hi - lo) \div 2 IN
       IF m.table[mid].key < inp.q.key
         THEN lo' = (IF FixMid THEN mid + 1 ELSE mid) /\ UNCHANGED <<hi, pc, res>>
       ELSE IF inp.q.key < m.table[mid].key
         THEN hi' = mid /\ UNCHANGED <<lo, pc, res>>
       ELSE Return(m.first + m.table[mid].off)

\* get_fptr / find_module
FStart ==
  /\ task = "fptr" /\ pc = "start"
  /\ IF inp.mods = <<>> THEN Return(0)
     ELSE pc' = "bsm" /\ lo' = 0 /\ hi' = Len(inp.mods) /\ UNCHANGED res
\* binary_search_module(begin, end, function): one call per step (0-based like the code)
FSearch ==
  /\ task = "fptr" /\ pc = "bsm"
  /\ LET mid == lo + (hi - lo) \div 2 IN
     IF mid = lo
       THEN \* found the candidate: module_index = wrapper - first_index; return wrapper < next_index;
            \* get_fptr then wants 0 <= module_index < num_fptrs.  (For wrapper = INT_MIN the C subtraction wraps
            \* to a huge positive number, which the num_fptrs bound rejects just the same.)
            LET m == inp.mods[mid + 1] IN
            Return(IF inp.w < m.next /\ inp.w >= m.first /\ inp.w - m.first < m.nf THEN m.fp[inp.w - m.first + 1] ELSE 0)
       ELSE IF inp.mods[mid + 1].first <= inp.w
         THEN lo' = mid /\ UNCHANGED <<hi, pc, res>>
         ELSE hi' = mid /\ UNCHANGED <<lo, pc, res>>

\* the by-index functions have no mechanism worth steps: one step evaluates the whole interface
DEval == task = "db" /\ pc = "start" /\ Return(0)

\* lookup(): `if ((_lookups_fresh & type) == 0) { freshen(); _lookups_fresh |= type; }` with n files loaded
Freshen(c, fn, n) ==
  IF fn \in c.fresh THEN c
  ELSE [fresh |-> c.fresh \cup {fn}, at |-> [x \in DOMAIN c.at \cup {fn} |-> IF x = fn THEN n ELSE c.at[x]]]
SFirst ==     \* the first lookup, on the files loaded so far
  /\ task = "stage" /\ pc = "start"
  /\ cache' = Freshen(cache, inp.fn1, Len(inp.files1))
  /\ pc' = "looked" /\ UNCHANGED <<lo, hi, res>>
SMerge ==     \* check_latest -> load_latest -> read -> merge_from: `_lookups_fresh = 0` (every map is stale)
  /\ task = "stage" /\ pc = "looked"
  /\ cache' = [cache EXCEPT !.fresh = {}]
  /\ pc' = "merged" /\ UNCHANGED <<lo, hi, res>>
SLater ==     \* the later lookups
  /\ task = "stage" /\ pc = "merged"
  /\ cache' = Freshen(cache, inp.fn2, Len(inp.files1) + Len(inp.files2))
  /\ Return(0)

\* task "first": lo = files loaded, hi = files requested
CheckLatest(fn) == IF fn \in NoLoadFns THEN lo ELSE hi
PReq1 == task = "first" /\ pc = "start" /\ hi' = Len(inp.files1) /\ pc' = "req1" /\ UNCHANGED <<lo, res>>
PAsk1 == task = "first" /\ pc = "req1" /\ lo' = CheckLatest(inp.fn) /\ pc' = "ans1" /\ UNCHANGED <<hi, res>>
PReq2 == task = "first" /\ pc = "ans1" /\ hi' = Len(inp.files1) + Len(inp.files2) /\ pc' = "req2" /\ UNCHANGED <<lo, res>>
PAsk2 == task = "first" /\ pc = "req2" /\ lo' = CheckLatest(inp.fn) /\ pc' = "done" /\ res' = 0 /\ UNCHANGED hi

Step == \/ (PReq1 \/ PAsk1 \/ PReq2 \/ PAsk2) /\ steps' = steps + 1 /\ UNCHANGED <<task, inp, cache>>
        \/ (USplit \/ UHash \/ USearch \/ FStart \/ FSearch \/ DEval) /\ steps' = steps + 1 /\ UNCHANGED <<task, inp, cache>>
        \/ (SFirst \/ SMerge \/ SLater) /\ steps' = steps + 1 /\ UNCHANGED <<task, inp>>
\* (a finished call just stutters: no explicit step, so that a complete behaviour is dumped once)
Next == Step
Spec == Init /\ [][Next]_vars /\ WF_vars(Step)

---------------------------------------------------------------------------
(* Properties *)
Returned == pc = "done"
Terminates == <>Returned
NoAbort == pc # "aborted"

RECURSIVE Log2Ceil(_)
Log2Ceil(n) == IF n <= 1 THEN 0 ELSE 1 + Log2Ceil((n + 1) \div 2)

\* split + hash + at most floor(log2 n)+1 probes + the empty-range call
StepBound ==
  CASE task = "uniq" -> steps <= 3 + Log2Ceil(MaxN + 1) + 1
    [] task = "fptr" -> steps <= 2 + Log2Ceil(MaxMods + 1) + 1
    [] task = "stage" -> steps <= 3
    [] task = "first" -> steps <= 4
    [] OTHER -> steps <= 1

\* exactness: the answer is the entry itself when the name is present, 0 for every other key, position or length
UniqExact == task = "uniq" /\ Returned => res = UniqRef(inp)
FptrExact == task = "fptr" /\ Returned => res = FptrRef(inp.mods, inp.w)

\* ---- the loaded database of a scenario and the argument domains of the property
QOf(in0) == LoadAll(EmptyQ, in0.files)
IdxArgs(q) == <<IntMin, -2, -1>> \o [j \in 1..(q.next + 3) |-> j - 1] \o <<IntMax>>
PosArgs(len) == <<IntMin, -1>> \o [j \in 1..(len + 2) |-> j - 1] \o <<IntMax>>
Seq2Set(s) == {s[j] : j \in 1..Len(s)}

Codomain(r, v) ==
  CASE r = "i" -> v \in Int [] r = "p" -> v \in Nat [] r = "b" -> v \in BOOLEAN
    [] r = "s" -> DOMAIN v = 1..Len(v) /\ \A j \in 1..Len(v) : v[j] \in 1..255 \/ v[j] > RunBase

DbChecks(q) ==
  /\ \A x \in 1..Len(QF) : LET d == QF[x] IN
       \/ d.op \in {"lookup", "uniq", "errflag"}
       \/ /\ d.op \in ByIndexOps \cup {"gcount", "gat"}
          /\ \A i \in Seq2Set(IdxArgs(q)) :
               /\ Codomain(d.r, Query(q, d, i, 0))                                        \* Total
               /\ d.op \in ByIndexOps /\ ~Known(q, d.k, i) => Query(q, d, i, 0) = NeutralOf(d)   \* NeutralOutside
       \/ /\ d.op \in ByPosOps
          /\ \A i \in Seq2Set(IdxArgs(q)) : \A n \in Seq2Set(PosArgs(VecLen(q, d, i))) :
               /\ Codomain(d.r, Query(q, d, i, n))
               /\ ~(Known(q, d.k, i) /\ InRange(n, VecLen(q, d, i))) => Query(q, d, i, n) = Neutral(d.r)
  \* CountsMatch: an enumeration answers a record index exactly at the positions 0 .. count-1
  /\ \A x \in 1..Len(QF) : QF[x].op = "gat" =>
       LET d == QF[x] cnt == Len(ListOf(q, d.k)) IN
       \A i \in Seq2Set(IdxArgs(q)) : (Query(q, d, i, 0) # 0) <=> InRange(i, cnt)
  \* LookupSound / LookupAbsent
  /\ \A x \in 1..Len(QF) : QF[x].op = "lookup" =>
       LET d == QF[x] IN
       /\ \A nm \in NameArgs(q, d) :
            LET a == Lookup(q, d, nm) IN
            /\ a # 0 => Known(q, d.k, a) /\ RecAt(q, d.k, a)[d.f] = nm
            /\ Bearers(q, d, nm) = {} <=> a = 0
       /\ \A i \in Idxs(q[d.k]) : LET nm == RecAt(q, d.k, i)[d.f] IN
            Cardinality(Bearers(q, d, nm)) = 1 => Lookup(q, d, nm) = i

DbTotalAndExact == task = "db" /\ Returned => DbChecks(QOf(inp))

\* ---- every function that depends on database files answers on ALL requested files, also as the first query
FirstSeesAll == task = "first" /\ pc \in {"ans1", "done"} /\ inp.fn \notin NoLoadFns => lo = hi
\* the database a query of task "first" sees
FirstQ(in0, n) == LoadAll(EmptyQ, SubSeq(in0.files1 \o in0.files2, 1, n))

\* ---- histories: what a lookup answers is read from the map as it was built
QFBy(fn) == QF[CHOOSE x \in 1..Len(QF) : QF[x].fn = fn]
StageFiles(in0) == in0.files1 \o in0.files2
CachedLookup(in0, c, fn, nm) == Lookup(LoadAll(EmptyQ, SubSeq(StageFiles(in0), 1, c.at[fn])), QFBy(fn), nm)
StoredNames(q, d) == {q[d.k][j][d.f] : j \in 1..Len(q[d.k])}
LookupExactOn(q, d, nm, a) == IF Bearers(q, d, nm) = {} THEN a = 0 ELSE a \in Bearers(q, d, nm)
StagedExact ==
  task = "stage" =>
    /\ pc = "looked" => LookupExactOn(LoadAll(EmptyQ, inp.files1), QFBy(inp.fn1), inp.nm1,
                                      CachedLookup(inp, cache, inp.fn1, inp.nm1))
    /\ Returned => LET q == LoadAll(EmptyQ, StageFiles(inp)) d == QFBy(inp.fn2) IN
                   \A nm \in StoredNames(q, d) \cup {<<122, 122>>} :
                     LookupExactOn(q, d, nm, CachedLookup(inp, cache, inp.fn2, nm))
=============================================================================
