SPECIFICATION Spec
CONSTANTS
  MaxOverloads = 2
  MaxParams = 2
  ParamCats <- Cats6
  IntVals <- FewIntVals
  IntVals2 <- TinyIntVals
  ArgKinds <- PairArgKinds
  Kinds = {"static"}
  NameModes <- BothNames
  ConstMethods = FALSE
  Fixed <- NoFix
INVARIANT RefinesAndTies
CONSTRAINT DumpConstraint
CHECK_DEADLOCK FALSE
