SPECIFICATION Spec
CONSTANTS
  MaxDecls = 3
  MaxUsings = 2
INVARIANT ResultIsDecl
INVARIANT InnermostWins
CONSTRAINT DumpConstraint
CHECK_DEADLOCK FALSE
