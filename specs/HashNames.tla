----------------------------- MODULE HashNames -----------------------------
(***************************************************************************)
(* Wrapper naming under hash collisions (property C03).                    *)
(*                                                                         *)
(* InterfaceMaker::make_function_remap names every wrapper                 *)
(*     prefix \o library_hash \o remap->_hash                              *)
(* right after InterfaceMaker::hash_function_signature(remap) has chosen   *)
(* _hash.  This module transcribes hash_function_signature branch by       *)
(* branch over ABSTRACT hash values:                                       *)
(*                                                                         *)
(*   _wrappers_by_hash : hash string -> remap, or nullptr (a TOMBSTONE     *)
(*                       left where a collision has been resolved)         *)
(*   hash strings are sequences of chunks: <<h5>>, <<h5, h11>>,            *)
(*                       <<h5, h11, letter>>                               *)
(*                                                                         *)
(* Insert(s, a5, a11) is the call for signature s whose two hashes are a5  *)
(* (hash_string(sig, 5)) and a11 (hash_string(sig, 11)):                   *)
(*   - <<a5>> free: take it;                                               *)
(*   - <<a5>> owned by another remap: extend THAT remap's _hash by its own *)
(*     h11 (its already emitted names do not change!), leave a tombstone;  *)
(*   - then (also when the slot held a tombstone) try <<a5, a11>>, and     *)
(*     after that <<a5, a11, l>> for l = 'a' .. 'z' in this order;         *)
(*   - if all are taken: "Internal error!  Too many conflicts" -- the name *)
(*     is not unique (`failed`).                                           *)
(*                                                                         *)
(* nameOf is what make_function_remap freezes; hashOf is remap->_hash,     *)
(* which keeps changing.  The chunks are naturals in the model-checking    *)
(* configuration (HashNamesMC: every pair of hash functions into a         *)
(* two-element range, so collisions are the norm) and the real strings in  *)
(* trace validation (HashNamesTrace).                                      *)
(***************************************************************************)
EXTENDS Naturals, Sequences, FiniteSets, TLC

CONSTANTS LetterSeq,   \* the suffix letters in the order they are tried
          NoSig        \* the nullptr of _wrappers_by_hash (not a signature)

VARIABLES byHash,      \* _wrappers_by_hash
          hashOf,      \* signature -> remap->_hash (extended on collisions)
          nameOf,      \* signature -> hash part of the EMITTED wrapper / unique name
          h11Of,       \* signature -> its hash_string(sig, 11), known since its insertion
          failed,      \* the "Too many conflicts" path was taken
          extClash     \* the extension of a previous owner found its key taken ("Hash ... already appears")

hvars == <<byHash, hashOf, nameOf, h11Of, failed, extClash>>

HInit == /\ byHash = <<>> /\ hashOf = <<>> /\ nameOf = <<>> /\ h11Of = <<>>
         /\ failed = FALSE /\ extClash = FALSE

Put(m, k, v) == [x \in (DOMAIN m) \cup {k} |-> IF x = k THEN v ELSE m[x]]

\* index of the first letter l such that base \o <<l>> is free in m, or 0
FirstFree(m, base) ==
  IF \E i \in 1..Len(LetterSeq) : (base \o <<LetterSeq[i]>>) \notin DOMAIN m
    THEN CHOOSE i \in 1..Len(LetterSeq) :
           /\ (base \o <<LetterSeq[i]>>) \notin DOMAIN m
           /\ \A j \in 1..(i - 1) : (base \o <<LetterSeq[j]>>) \in DOMAIN m
    ELSE 0

Insert(s, a5, a11) ==
  LET h == <<a5>> IN
  /\ s \notin DOMAIN nameOf
  /\ h11Of' = Put(h11Of, s, a11)
  /\ IF h \notin DOMAIN byHash
       THEN \* no other name: we are in the clear
            /\ byHash' = Put(byHash, h, s)
            /\ hashOf' = Put(hashOf, s, h)
            /\ nameOf' = Put(nameOf, s, h)
            /\ UNCHANGED <<failed, extClash>>
       ELSE
         LET other == byHash[h]
             oh == IF other # NoSig THEN hashOf[other] \o <<h11Of[other]>> ELSE <<>>
             \* extend the previous owner and leave a tombstone (map::insert does not overwrite)
             m1 == IF other # NoSig
                     THEN LET t == Put(byHash, h, NoSig)
                          IN IF oh \in DOMAIN t THEN t ELSE Put(t, oh, other)
                     ELSE byHash
             ho1 == IF other # NoSig THEN Put(hashOf, other, oh) ELSE hashOf
             clash == other # NoSig /\ oh \in DOMAIN byHash
             mine == h \o <<a11>>
         IN /\ extClash' = (extClash \/ clash)
            /\ IF mine \notin DOMAIN m1
                 THEN /\ byHash' = Put(m1, mine, s)
                      /\ hashOf' = Put(ho1, s, mine)
                      /\ nameOf' = Put(nameOf, s, mine)
                      /\ UNCHANGED failed
                 ELSE LET i == FirstFree(m1, mine) IN
                      IF i # 0
                        THEN /\ byHash' = Put(m1, mine \o <<LetterSeq[i]>>, s)
                             /\ hashOf' = Put(ho1, s, mine \o <<LetterSeq[i]>>)
                             /\ nameOf' = Put(nameOf, s, mine \o <<LetterSeq[i]>>)
                             /\ UNCHANGED failed
                        ELSE \* too many conflicts: the last candidate is used although it is taken
                             /\ byHash' = m1
                             /\ hashOf' = Put(ho1, s, mine \o <<LetterSeq[Len(LetterSeq)]>>)
                             /\ nameOf' = Put(nameOf, s, mine \o <<LetterSeq[Len(LetterSeq)]>>)
                             /\ failed' = TRUE

-----------------------------------------------------------------------------
(* Properties (C03: all generated wrapper symbols and unique names are distinct, valid       *)
(* identifiers even when signature hashes collide)                                           *)

\* emitted names are pairwise distinct
NamesDistinct == ~failed => \A a, b \in DOMAIN nameOf : nameOf[a] = nameOf[b] => a = b

\* an emitted name is <<h5>>, <<h5,h11>> or <<h5,h11,letter>> of its own signature
LetterSet == {LetterSeq[i] : i \in 1..Len(LetterSeq)}
ValidSuffix == \A s \in DOMAIN nameOf :
                 /\ Len(nameOf[s]) \in 1..3
                 /\ Len(nameOf[s]) >= 2 => nameOf[s][2] = h11Of[s]
                 /\ Len(nameOf[s]) = 3 => nameOf[s][3] \in LetterSet

\* the map and the remaps agree: every live key belongs to the remap whose _hash it is
MapConsistent == ~failed =>
  /\ \A k \in DOMAIN byHash : byHash[k] # NoSig => hashOf[byHash[k]] = k
  /\ \A s \in DOMAIN hashOf : hashOf[s] \in DOMAIN byHash /\ byHash[hashOf[s]] = s

\* the emitted name is a prefix of the remap's current _hash (it was only ever extended)
NamePrefixOfHash == \A s \in DOMAIN nameOf :
                      /\ Len(nameOf[s]) <= Len(hashOf[s])
                      /\ SubSeq(hashOf[s], 1, Len(nameOf[s])) = nameOf[s]

\* a previous owner is extended at most once, when no two-chunk key with its h5 exists yet
ExtendNeverClashes == ~extClash

\* the exact limit of the guarantee: with no more signatures than letters + 1 the error path is dead
NoInternalError == Cardinality(DOMAIN nameOf) <= Len(LetterSeq) + 1 => ~failed

\* no emitted name ever changes (action property)
NamesFrozen == [][\A s \in DOMAIN nameOf : nameOf'[s] = nameOf[s]]_hvars
=============================================================================
