SPECIFICATION Spec
CONSTANTS
  Mode = "ovl"
  FullCross = FALSE
  MaxSigs = 5
  MaxVariants = 8
  MaxCalls = 1
  MinCalls = 1
  MaxHeap = 4
  SigChoices <- QuickOvlChoices
  Pick <- PickAll
INVARIANT HeaderWellFormed
INVARIANT NoUseAfterDestroy
INVARIANT ResultsInRange
INVARIANT DefaultsAreDeclared
CONSTRAINT DumpConstraint
CHECK_DEADLOCK FALSE
