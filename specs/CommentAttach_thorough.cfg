SPECIFICATION Spec
CONSTANTS
  MaxLen = 7
  Kinds <- AllKinds
  SameLineConsumes = TRUE
INVARIANT Refines
INVARIANT NoSharing
INVARIANT RefNoSharing
INVARIANT Adjacent
CONSTRAINT DumpConstraint
CHECK_DEADLOCK FALSE
