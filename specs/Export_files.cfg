SPECIFICATION Spec
CONSTANTS
  ElemIgnore = TRUE
  Shape <- NoShape
  MinVisSet <- Both
  File2Srcs <- FileSrcs
  ClassHeads <- FileHeads
  NestedKeys <- None
  MemberAlpha <- FileMembers
  MaxMembers <- M10
  MaxClasses = 2
  BaseAlpha <- FileBases
  MaxBases = 1
  ClassComments <- NoComment
  TopAlpha <- None
  MaxTops = 0
  AliasAlpha <- None
  MaxAliases = 0
  NestedLike = FALSE
  CmdKinds <- FileCmds
INVARIANT SafeVis
INVARIANT SafeAccess
INVARIANT SafeKind
INVARIANT SafeFile
INVARIANT SafeSig
INVARIANT SafeOwner
INVARIANT SafeForeign
INVARIANT Consistent
INVARIANT Sound
INVARIANT Complete
INVARIANT Bounded
INVARIANT OneOwner
INVARIANT RefsBackward
INVARIANT VisIsFunction
CONSTRAINT DumpConstraint
CHECK_DEADLOCK FALSE
