---------------------------- MODULE PyDispatchMC ----------------------------
(* Bounded wrapper of PyDispatch: enumerates every overload set of the configured alphabet,
   checks the refinement on every call of every set, and dumps the sets of the domain. *)
EXTENDS PyDispatch, Json, CSV, IOUtils

AllIntVals == 1..27
EdgeIntVals == {1, 2, 4, 7, 8, 9, 10, 12, 13, 14, 15, 20, 21, 22, 23, 24, 25, 26, 27}
FewIntVals == {2, 7, 9, 10, 14, 15, 21, 23, 25, 27}
AllArgKinds == OtherArgs \ {"iM", "iT", "iE", "iW"}
CoArgKinds == {"float", "bool", "str", "none", "iA", "iM", "iT", "iE", "iW"}
CatsCo == {"cM", "vM", "pM", "cT", "cE", "cW", "i32", "f64", "str"}
CatsCo2 == {"cM", "cT", "pM", "i32", "str"}
FewArgKinds == {"float", "bool", "str", "bytes", "none", "iA", "iB", "kA", "iC"}
Cats1 == CatSet \ CoCats
Cats2 == {"u8", "i32", "u32", "i64", "f64", "bool", "str", "rA", "cA", "cB"}
Cats3 == {"u8", "i32", "f64", "bool", "str", "cA", "rB"}
Cats4 == {"i8", "i32", "u64", "f64", "bool", "str", "rA", "cA", "rB"}
Cats5 == {"u8", "i32", "f64", "bool", "str", "cA", "rB", "cD"}
Cats6 == {"u8", "f64", "str", "cA"}
Cats8 == {"u8", "i32", "i64", "f64", "bool", "str", "rA", "cB"}
Cats7 == {"i16", "u32", "f32", "bool", "rA", "cB"}
TinyIntVals == {7, 10, 15, 21, 27}
PairArgKinds == {"float", "bool", "str", "bytes", "none", "iA", "iB", "kA", "iC"}
\* fixes present in the tree under test (the check looks for them in the source and tells TLC)
SameNames == {"same"}
AltNames == {"alt"}
BothNames == {"same", "alt"}
NoFix == (IF "VERIF_FIX_INTERR" \in DOMAIN IOEnv THEN {"int-error-ignored"} ELSE {})
         \cup (IF "VERIF_FIX_EXTRA" \in DOMAIN IOEnv THEN {"extra-args"} ELSE {})

DumpFile == IF "VERIF_DUMP" \in DOMAIN IOEnv THEN IOEnv.VERIF_DUMP ELSE ""

DumpConstraint ==
  /\ InDomain
  /\ IF done /\ DumpFile # ""
       THEN CSVWrite("%1$s", <<ToJson([kind |-> kind, nm |-> nm, ov |-> S])>>, DumpFile)
       ELSE TRUE

\* development aid: every call on which mechanism and reference disagree (VERIF_DIS=file)
DisFile == IF "VERIF_DIS" \in DOMAIN IOEnv THEN IOEnv.VERIF_DIS ELSE ""
SetToSeq(A) == LET RECURSIVE F(_) F(X) == IF X = {} THEN <<>> ELSE LET x == CHOOSE y \in X : TRUE IN <<x>> \o F(X \ {x}) IN F(A)
Disagree == LET cx == SetCtx(S) IN {c \in Calls(S, kind) : LET e == Expected(S, c) IN
               e.k # "none" /\ DevC(S, c, cx) = {} /\ \E m \in PyResultsC(S, c, cx) : ~Agree(m, e)}
DisConstraint ==
  /\ InDomain
  /\ IF done /\ DisFile # "" /\ Disagree # {}
       THEN CSVWrite("%1$s", <<ToJson([kind |-> kind, nm |-> nm, ov |-> S,
              dis |-> SetToSeq({[a |-> c.a, kw |-> c.kw, self |-> c.self, e |-> Expected(S, c), m |-> SetToSeq(PyResults(S, c))] : c \in Disagree})])>>, DisFile)
       ELSE TRUE
=============================================================================
