------------------------------ MODULE WrapCMC ------------------------------
(* Bounded instances of WrapC: signature alphabets as products of small sets, dump of complete
   behaviours.  Kinds and classes are rotated against each other (a covering design): every
   (return kind x parameter kind), every (parameter kind x parameter kind) pair, every
   (function flavour x return kind) and every (class x flavour) occurs, without the full product. *)
EXTENDS WrapC, Json, CSV, IOUtils, SequencesExt

PK == [i \in 1..20 |-> KindSeq[i]]
RK == KindSeq
FK4 == <<"free", "method", "cmethod", "static">>
FK5 == <<"free", "method", "cmethod", "static", "opCall">>
CL == <<"K0", "K1", "K2", "KB", "Mix", "K3">>
ClsFor(fk, x) == IF fk = "free" THEN "-" ELSE CL[(x % 6) + 1]
NdFor(ps, x) == LET t == TrailingDefaultable(ps) IN IF t = 0 THEN 0 ELSE x % (t + 1)
Mk(fk, x, r, ps, y) == Sig(fk, ClsFor(fk, x), 0, r, ps, NdFor(ps, y))
WF(S) == {s \in S : WellFormedSig(s) /\ \A c \in Classes : s # BaseCtor(c)}

\* no parameters: every flavour x every return kind; conversion operators; data member accessors
Sigs0(u) == WF({Mk(FK4[f], f + r, RK[r], <<>>, 0) : f \in 1..4, r \in 1..20}
            \cup {Sig("opCast", CL[(r % 6) + 1], 0, RK[r], <<>>, 0) : r \in 1..16}
            \cup {Sig("getter", "K0", 0, k, <<>>, 0) : k \in DataKinds}
            \cup {Sig("setter", "K0", 0, "void", <<k>>, 0) : k \in DataKinds})
\* one parameter: every return kind x every parameter kind
Sigs1(u) == WF({Mk(FK4[((r + p) % 4) + 1], r * 3 + p, RK[r], <<PK[p]>>, r + 2 * p) : r \in 1..21, p \in 1..20}
            \cup {Mk("ctor", p, "void", <<PK[p]>>, p) : p \in 1..20}
            \cup {Mk("opIndex", p + r, RK[r], <<PK[p]>>, 0) : p \in 1..10, r \in {5, 8, 12, 16, 17, 19}}
            \cup {Sig("opAsg", CL[((p + 2) % 6) + 1], 0, "objRef", <<PK[p]>>, 0) : p \in 1..20}
            \cup {Sig("opEq", CL[c], 0, "bool", <<"constObjRef">>, 0) : c \in 1..6})
(* scoped enums with explicit underlying types, pointer-to-string parameters, array data members, compound
   assignment operators with other results than *this, operator [] returning a reference *)
NK == <<"enumC", "enumLL", "strPtr">>
RK2 == <<"enumC", "enumLL", "i32", "string", "objRef", "void", "f64", "u8">>
SigsR2(u) == WF({Mk(FK5[((r + p) % 5) + 1], r + 2 * p, RK2[r], <<NK[p]>>, r + p) : r \in 1..8, p \in 1..3}
                \cup {Mk(FK4[((r + p) % 4) + 1], r + p, KindSeq[r + 21], <<PK[p]>>, r + p) : r \in 1..2, p \in 1..20}
                \cup {Mk(FK4[((r + p) % 4) + 1], r + p, KindSeq[r + 21], <<>>, 0) : r \in 1..2, p \in 1..4}
                \cup {Mk(FK5[((q + p) % 5) + 1], q + p, RK[((p * 7 + q) % 21) + 1], <<NK[p], PK[q]>>, p + q) : p \in 1..3, q \in {1, 5, 7, 12, 13, 16, 17, 19}}
                \cup {Mk(FK5[((q + p) % 5) + 1], q + 2 * p, RK[((p * 5 + q) % 21) + 1], <<PK[q], NK[p]>>, p + q) : p \in 1..3, q \in {2, 6, 8, 11, 14, 15, 18, 20}}
                \cup {Mk("ctor", p, "void", <<NK[p]>>, p) : p \in 1..3}
                \cup {Sig("opCast", CL[r + 1], 0, KindSeq[r + 21], <<>>, 0) : r \in 1..2}
                \cup {Sig("getter", "K0", 0, k, <<>>, 0) : k \in {"enumC", "enumLL", "arrObj"}}
                \cup {Sig("setter", "K0", 0, "void", <<k>>, 0) : k \in {"enumC", "enumLL", "arrI32", "arrF32"}}
                \cup {Sig("opAsg", CL[((p + r) % 6) + 1], 0, r2, <<PK[p]>>, 0) : p \in {1, 5, 7, 11, 13, 16, 17, 19, 20}, r \in 1..2, r2 \in {"i32", "objVal"}}
                \cup {Sig("opIndexRef", CL[c], 0, "void", <<k, "i32">>, 0) : c \in 1..6, k \in {"i32", "u8", "i64", "enumC"}}
                \cup {Sig(f, "K0", 0, "objRef", <<>>, 0) : f \in {"opInc", "opDec"}}
                \cup {Sig(f, "K0", 0, "objVal", <<"i32">>, 0) : f \in {"opInc", "opDec"}}
                \cup {Sig("opBin", CL[((p + r) % 6) + 1], 0, RK[r], <<PK[p]>>, 0) : p \in {5, 7, 12, 16, 19, 20}, r \in {5, 11, 16, 19}}
                \* virtual functions of K0 with every parameter kind (see CppLibCalls!Virt: a third of them is overridden)
                \cup {Sig(FK4[(p % 2) + 2], "K0", 0, RK[((p * 3 + r) % 20) + 1], <<PK[p]>>, r % 2) : p \in 1..20, r \in 1..3})

\* two parameters: every pair of parameter kinds (stride thins the set for the quick tier)
P2(stride) == {x \in (1..20) \X (1..20) : (x[1] + 3 * x[2]) % stride = 0}
C2(stride) == {x \in (1..20) \X (1..20) : (x[1] + x[2]) % (4 * stride) = 0}
Sigs2(stride) == WF({Mk(FK5[((x[1] + 2 * x[2]) % 5) + 1], x[1] + x[2], RK[((x[1] * 7 + x[2] * 3) % 21) + 1],
                        <<PK[x[1]], PK[x[2]]>>, x[1] + x[2]) : x \in P2(stride)}
                    \cup {Mk("ctor", x[1] + 2 * x[2], "void", <<PK[x[1]], PK[x[2]]>>, x[2]) : x \in C2(stride)})
\* three parameters: a sample
P3(u) == {x \in (1..20) \X (1..20) \X (1..20) : (x[1] + 2 * x[2] + 3 * x[3]) % 20 = 0}
Sigs3(u) == WF({Mk(FK5[((x[1] + x[2] + x[3]) % 5) + 1], x[1] + x[3], RK[((x[1] + x[2] * 5 + x[3] * 11) % 21) + 1],
                <<PK[x[1]], PK[x[2]], PK[x[3]]>>, x[1] + x[2] + x[3]) : x \in P3(u)})


\* (operators with a parameter are evaluated on demand; TLC would evaluate constants of every tier eagerly)
QuickChoices(l) == Sigs0(0) \cup Sigs1(0) \cup Sigs2(3) \cup SigsR2(0)
ThoroughChoices(l) == Sigs0(0) \cup Sigs1(0) \cup Sigs2(1) \cup Sigs3(0) \cup SigsR2(0)

PickAll(S) == S

(* Overload sets (Mode = "ovl"): "it is the overload named in the wrapper's database entry that runs".
   Universes 1..9: under one name, in one scope, one function per parameter kind (the kind in the last
   position); every PAIR of kinds is one library, so every kind is overloaded against every other kind,
   in particular against every kind its wrapper-side representation converts to implicitly (char pointer
   -> bool / std::string, object pointer -> bool, integer widths, float / double, enum / int).  In the
   quick tier a pair of kinds is placed in one universe (flavour, class, position) by rotation, in the
   thorough tier in all nine.  Groups: the conversion-related kinds as complete overload sets of 3 to 5
   functions, in six flavours each. *)
UFk  == <<"free", "method", "cmethod", "static", "ctor", "opCall", "opIndex", "free", "method">>
UCls == <<"-", "K1", "K3", "KB", "Mix", "K2", "K0", "-", "K0">>
URet == <<"i32", "u64", "string", "f64", "void", "u8", "enum", "i16", "bool">>
UPre == <<<<>>, <<>>, <<>>, <<>>, <<>>, <<>>, <<>>, <<"u8">>, <<"f64">>>>
NU == 9
USig(u, k) == Sig(UFk[u], UCls[u], u, URet[u], UPre[u] \o <<k>>, 0)
Groups == <<<<"string", "cstr", "bool", "strPtr">>, <<"objPtr", "bool", "u32", "constObjRef">>, <<"i8", "i16", "i32", "i64", "long">>,
            <<"u8", "u16", "u32", "u64", "ulong">>, <<"f32", "f64", "i32">>, <<"enum", "i32", "enumC", "enumLL", "i64">>>>
GFk  == <<"free", "method", "static", "cmethod", "opCall", "ctor">>
GCls == <<"-", "K1", "Mix", "K0", "K3", "K2">>
GRet == <<"u16", "i64", "cstr", "f32", "i32", "void">>
GSig(g, f, k) == Sig(GFk[f], GCls[f], 100 + 10 * g + f, GRet[f], <<k>>, 0)
PKX == [i \in 1..23 |-> IF i <= 20 THEN KindSeq[i] ELSE KindSeq[i + 1]]      \* ... and enumC, enumLL, strPtr
OvlAlpha == WF({USig(u, PKX[k]) : u \in 1..NU, k \in 1..23}
               \cup {GSig(x[1], x[2], Groups[x[1]][x[3]]) : x \in {y \in (1..6) \X (1..6) \X (1..5) : y[3] <= Len(Groups[y[1]])}})
LastKind(s) == KindIdx(s.ps[Len(s.ps)])
OvlNext(l, allPairs) ==
  IF l = {} THEN OvlAlpha
  ELSE LET a == CHOOSE a \in l : TRUE IN
       IF a.name >= 100 THEN {s \in OvlAlpha : s.name = a.name}
       ELSE IF Cardinality(l) >= 2 THEN {}
       ELSE {s \in OvlAlpha : s.name = a.name /\ (allPairs \/ (LastKind(a) + LastKind(s)) % NU = a.name - 1)}
QuickOvlChoices(l) == OvlNext(l, FALSE)
ThoroughOvlChoices(l) == OvlNext(l, TRUE)

DumpFile == IF "VERIF_DUMP" \in DOMAIN IOEnv THEN IOEnv.VERIF_DUMP ELSE ""

(* The dumped record is kept compact (well under 8 KB: concurrent workers append to one file and a larger
   record would be written in several pieces): signatures are referred to by their index in `lib` (0 = the
   constructor K(int) every class has), object states are <<st, bst, tg>> (<<>> for a destroyed object). *)
LibSeq == SetToSeq(lib)
SigIdx(s) == IF s \in lib THEN CHOOSE i \in 1..Len(LibSeq) : LibSeq[i] = s ELSE 0
CPost(p) == [o \in 1..Len(p) |-> IF p[o].live THEN <<p[o].st, p[o].bst, p[o].tg>> ELSE <<>>]
CStep(st) ==
  CASE st.op = "new" -> [op |-> "new", obj |-> st.obj, cls |-> st.cls, s |-> SigIdx(st.sig), k |-> st.k, args |-> st.args,
                         post |-> CPost(st.post)]
    [] st.op = "call" /\ st.sig.fk = "opIndexRef" ->
                        [op |-> "call", s |-> SigIdx(st.sig), k |-> st.k, this |-> st.this, args |-> st.args, ret |-> st.ret,
                         rb |-> st.rb, item |-> st.item, post |-> CPost(st.post)]
    [] st.op = "call" /\ st.sig.fk = "setter" ->
                        [op |-> "call", s |-> SigIdx(st.sig), k |-> st.k, this |-> st.this, args |-> st.args, ret |-> st.ret,
                         rb |-> st.rb, post |-> CPost(st.post)]
    [] st.op = "call" -> [op |-> "call", s |-> SigIdx(st.sig), k |-> st.k, this |-> st.this, args |-> st.args, ret |-> st.ret,
                          post |-> CPost(st.post)]
    [] st.op = "copy" -> [op |-> "copy", obj |-> st.obj, from |-> st.from, cls |-> st.cls, post |-> CPost(st.post)]
    [] st.op = "upcast" -> [op |-> "upcast", obj |-> st.obj, to |-> st.to, exp |-> st.exp, post |-> CPost(st.post)]
    [] st.op = "del" -> [op |-> "del", obj |-> st.obj, post |-> CPost(st.post)]
\* WrapC!Required: the wrapper variants the database must list (number of parameters with `this`, optional flags)
CReq == {[s |-> SigIdx(r.sig), k |-> r.k, np |-> Len(r.params), this |-> HasThis(r.sig), opt |-> r.optional] : r \in Required}

DumpConstraint ==
  IF phase = "done" /\ DumpFile # ""
    THEN CSVWrite("%1$s", <<ToJson([lib |-> LibSeq, req |-> CReq, script |-> [i \in 1..Len(script) |-> CStep(script[i])]])>>, DumpFile)
    ELSE TRUE
=============================================================================
