SPECIFICATION Spec
CONSTANTS
  Chars = {"0", "1", "2", "7", "8", "9", "a", "f", "A", "F", "x", "X", "b", "B", "'", "\\", "u", "U", "l", "L", "n", "t", "?", " "}
  MaxLen = 6
INVARIANT HornerOK
INVARIANT SepOK
INVARIANT RangeOK
INVARIANT SufOK
CONSTRAINT DumpConstraint
CHECK_DEADLOCK FALSE
