SPECIFICATION Spec
CONSTANTS
  Chars <- CharsThorough
  UDigits = {"0", "2", "a", "F"}
  MaxLen = 6
INVARIANT HornerOK
INVARIANT SepOK
INVARIANT RangeOK
INVARIANT SufOK
INVARIANT PrefixOK
CONSTRAINT DumpConstraint
CHECK_DEADLOCK FALSE
