------------------------------- MODULE IdbFile -------------------------------
(***************************************************************************)
(* Database files (property C12): round trip, older 3.x formats, and "a    *)
(* file that cannot be read completely is flagged and merges nothing".     *)
(*                                                                         *)
(* The *input is the behaviour*: in phase "gen" every step appends one     *)
(* record (function / wrapper / type / manifest / element / make_seq, in   *)
(* one of four field patterns built from the adversarial strings chosen in *)
(* the initial state) to the database `db`; the step Close writes it with  *)
(* WriteDbAs in a minor format 3.0 .. 3.3, possibly with a damaged header, *)
(* possibly cut at a byte position, and hands the bytes to the READER, the *)
(* step machine of InterrogateDatabase::load_latest / read / read_new:     *)
(*   header -> module -> {count -> record ...} x 6 -> remap -> merge -> done  *)
(* one step per `in >> count`, per `in >> index >> record; if (in.fail())  *)
(* return false`, with the stream's fail bit threaded through every        *)
(* primitive (module IdbFileFormat).  Records go into ONE temporary         *)
(* database `temp`; only the merge step touches the global database `glob`.*)
(* The invariants below are the property.                                  *)
(***************************************************************************)
EXTENDS IdbFileFormat

CONSTANTS
  MaxRecs,     \* records per generated database
  Strs,        \* subset of 1..10: which adversarial strings are used for slot A (slot B is the next one)
  HdrStrs,     \* for which A the damaged-header / module-def variants are generated
  CutStrs,     \* for which A every proper prefix of the file is generated
  CutRecs,     \* ... of databases with at most this many records
  PreKinds,    \* subset of {"none", "base"}: is another database already loaded?
  Layouts,     \* subset of {"gaps", "canon"}: index numbers as generated (8, 11, 14) or already canonical
  LongStrs,    \* strings (length classes 11..15) used with pre = "none", layout = "gaps" only
  MultiPre, MultiLayouts, MultiStrs   \* databases of more than one record only for these (pre, layout, A);
                                      \* prefixes only for these layouts

VARIABLES
  par,         \* [a, pre, layout] chosen initially
  db,          \* the database that is written
  hdr,         \* [kind, major, minor, defid, first, next]: what the header says and how the file is requested
  cut,         \* -1: the whole file, else the number of bytes kept
  stream,      \* the bytes handed to the reader
  pc, sec, left, st,
  fmaj, fmin,  \* InterrogateDatabase::_file_major_version / _file_minor_version (static, survive between files)
  temp,        \* the temporary database of read()
  glob,        \* the global database: [next |-> _next_index] + tables
  err          \* the global error flag

vars == <<par, db, hdr, cut, stream, pc, sec, left, st, fmaj, fmin, temp, glob, err>>

---------------------------------------------------------------------------
A == Str(par.a)
B == Str((par.a % NStr) + 1)
BaseGlob(pre) == IF pre = "base" THEN [next |-> 4] @@ Tables(BaseDb) ELSE [next |-> 1] @@ EmptyTables

EmptyDb == [id |-> FileId, lib |-> A, hash |-> <<113, 120, 54, 104>>, mod |-> B] @@ EmptyTables
EmptyTemp == [id |-> 0, lib |-> <<>>, hash |-> <<>>, mod |-> <<>>] @@ EmptyTables
NoHdr == [kind |-> "ok", major |-> 0, minor |-> 0, defid |-> 0, first |-> 0, next |-> 0]

Init ==
  /\ par \in [a : Strs, pre : PreKinds, layout : Layouts]
  /\ par.a \in LongStrs => par.pre = "none" /\ par.layout = "gaps"
  /\ db = EmptyDb
  /\ hdr = NoHdr /\ cut = -1 /\ stream = <<>>
  /\ pc = "gen" /\ sec = 0 /\ left = 0 /\ st = StartPos
  /\ fmaj = (IF par.pre = "base" THEN 3 ELSE 0) /\ fmin = (IF par.pre = "base" THEN 3 ELSE 0)
  /\ temp = EmptyTemp
  /\ glob = BaseGlob(par.pre)
  /\ err = FALSE

---------------------------------------------------------------------------
(* Generation *)
Gen(k, v) ==
  /\ pc = "gen" /\ NumRecs(db) < MaxRecs
  /\ NumRecs(db) >= 1 => par.pre \in MultiPre /\ par.layout \in MultiLayouts /\ par.a \in MultiStrs
  /\ db' = [db EXCEPT ![k] = Append(@, Tmpl(k, v, IdxOf(NumRecs(db) + 1), A, B, IdxSeq(db.f)))]
  /\ UNCHANGED <<par, hdr, cut, stream, pc, sec, left, st, fmaj, fmin, temp, glob, err>>

Minors(d) == IF Len(d.e) > 0 THEN 0..3 ELSE IF NumRecs(d) <= 1 THEN {0, 3} ELSE {3}
HdrKindsFor == IF par.a \in HdrStrs THEN {"ok", "idmatch", "idmismatch", "major2", "major4", "minor4", "modok", "modstale"}
               ELSE {"ok"}

HdrOf(kind, minor, n) ==
  [kind |-> kind,
   major |-> CASE kind = "major2" -> 2 [] kind = "major4" -> 4 [] OTHER -> CurrentMajor,
   minor |-> IF kind = "minor4" THEN 4 ELSE minor,
   defid |-> CASE kind \in {"idmatch", "modok", "modstale"} -> FileId [] kind = "idmismatch" -> FileId + 1 [] OTHER -> 0,
   \* request_module gives a module def with index numbers its own range at request time
   first |-> IF kind \in {"modok", "modstale"} THEN glob.next ELSE 0,
   next |-> CASE kind = "modok" -> glob.next + n [] kind = "modstale" -> glob.next + n + 1 [] OTHER -> 0]

Close(kind, minor) ==
  /\ pc = "gen"
  /\ LET d == IF par.layout = "canon" THEN Remap(db, 1) ELSE db
         h == HdrOf(kind, minor, NumRecs(db))
         file == WriteDbAs(d, h.major, h.minor)
         cuts == IF kind = "ok" /\ par.a \in CutStrs /\ par.layout \in MultiLayouts /\ NumRecs(db) <= CutRecs
                    /\ (minor = CurrentMinor \/ Len(db.e) > 0) THEN 0..(Len(file) - 1) ELSE {}
     IN \E c \in {-1} \cup cuts :
        /\ db' = d /\ hdr' = h /\ cut' = c
        /\ stream' = IF c = -1 THEN file ELSE SubSeq(file, 1, c)
        /\ glob' = [glob EXCEPT !.next = IF h.next # 0 THEN h.next ELSE @]
  /\ pc' = "header"
  /\ UNCHANGED <<par, sec, left, st, fmaj, fmin, temp, err>>

---------------------------------------------------------------------------
(* The reader *)
Fail ==   \* `return false` / version rejected: flag the error, drop temp, touch nothing else
  /\ pc' = "done" /\ err' = TRUE
  /\ UNCHANGED <<glob, sec, left>>

\* load_latest: input >> file_identifier >> _file_major_version >> _file_minor_version
Header ==
  /\ pc = "header"
  /\ LET i == RInt(stream, StartPos, 0)
         a == RInt(stream, i.st, fmaj)
         b == RInt(stream, a.st, fmin)
         mismatch == hdr.defid # 0 /\ i.v # hdr.defid
     IN /\ fmaj' = a.v /\ fmin' = b.v /\ st' = b.st
        /\ temp' = [temp EXCEPT !.id = i.v]
        /\ IF a.v # CurrentMajor \/ b.v > CurrentMinor
             THEN pc' = "done" /\ err' = TRUE                 \* "Cannot read interrogate data": nothing is read
             ELSE pc' = "module" /\ err' = (err \/ mismatch)  \* "out of sync": flagged, but read() goes ahead
  /\ UNCHANGED <<par, db, hdr, cut, stream, sec, left, glob>>

\* read_new: the module definition strings (no fail check of their own)
Module ==
  /\ pc = "module"
  /\ LET l == RCStr(stream, st, <<>>)
         h == RCStr(stream, l.st, <<>>)
         m == RCStr(stream, h.st, <<>>)
     IN st' = m.st /\ temp' = [temp EXCEPT !.lib = l.v, !.hash = h.v, !.mod = m.v]
  /\ pc' = "count" /\ sec' = 1
  /\ UNCHANGED <<par, db, hdr, cut, stream, left, fmaj, fmin, glob, err>>

NextSection == IF sec < 6 THEN pc' = "count" /\ sec' = sec + 1 ELSE pc' = "remap" /\ sec' = sec

\* in >> num_xxx; if (in.fail()) return false;
Count ==
  /\ pc = "count"
  /\ LET n == RInt(stream, st, 0)
     IN /\ st' = n.st
        /\ IF ~n.st.ok THEN Fail
           ELSE IF n.v > 0 THEN pc' = "record" /\ left' = n.v /\ UNCHANGED <<sec, glob, err>>
           ELSE NextSection /\ UNCHANGED <<left, glob, err>>
  /\ UNCHANGED <<par, db, hdr, cut, stream, fmaj, fmin, temp>>

\* in >> index >> record; if (in.fail()) return false; add_xxx(index, record);
Record ==
  /\ pc = "record"
  /\ LET r == RRecord(stream, st, sec, fmin)
     IN /\ st' = r.st
        /\ IF ~r.st.ok THEN Fail /\ UNCHANGED temp
           ELSE /\ temp' = AddRecord(temp, sec, r.v)
                /\ left' = left - 1
                /\ IF left = 1 THEN NextSection ELSE pc' = "record" /\ sec' = sec
                /\ UNCHANGED <<glob, err>>
  /\ UNCHANGED <<par, db, hdr, cut, stream, fmaj, fmin>>

\* read(): temp.remap_indices(...), "is out of date" when a module def's range does not fit
RemapStep ==
  /\ pc = "remap"
  /\ IF hdr.first = 0 /\ hdr.next = 0
       THEN /\ temp' = Remap(temp, glob.next)
            /\ glob' = [glob EXCEPT !.next = @ + NumRecs(temp)]
            /\ pc' = "merge" /\ UNCHANGED err
       ELSE IF hdr.first + NumRecs(temp) # hdr.next
         THEN pc' = "done" /\ err' = TRUE /\ UNCHANGED <<temp, glob>>
         ELSE temp' = Remap(temp, hdr.first) /\ pc' = "merge" /\ UNCHANGED <<glob, err>>
  /\ UNCHANGED <<par, db, hdr, cut, stream, sec, left, st, fmaj, fmin>>

\* merge_from(temp): no type of temp shares a true name with a loaded one here (C13 covers sharing)
MergeStep ==
  /\ pc = "merge"
  /\ glob' = [glob EXCEPT !.f = @ \o temp.f, !.w = @ \o temp.w, !.t = @ \o temp.t,
                          !.m = @ \o temp.m, !.e = @ \o temp.e, !.s = @ \o temp.s]
  /\ pc' = "done"
  /\ UNCHANGED <<par, db, hdr, cut, stream, sec, left, st, fmaj, fmin, temp, err>>

ReadNext == Header \/ Module \/ Count \/ Record \/ RemapStep \/ MergeStep

Next == (\E k \in Kinds, v \in 0..3 : Gen(k, v))
        \/ (\E kind \in HdrKindsFor, minor \in Minors(db) : Close(kind, minor))
        \/ ReadNext

Spec == Init /\ [][Next]_vars

---------------------------------------------------------------------------
(* Properties *)
Reading == pc \notin {"gen"}
Whole == cut = -1
GoodVersion == hdr.kind \notin {"major2", "major4", "minor4"}
FileBytes == WriteDbAs(db, hdr.major, hdr.minor)

\* does the cut remove anything but trailing white space?
RemovesContent == cut # -1 /\ \E i \in (cut + 1)..Len(FileBytes) : ~IsSpace(FileBytes[i])

FirstIdx == BaseGlob(par.pre).next
Expected == Loaded(db, hdr.minor, FirstIdx)     \* what the file means
BaseTables == Tables(BaseGlob(par.pre))
MergedTables == [k \in DOMAIN BaseTables |-> BaseTables[k] \o Expected[k]]

GeneratedWellFormed == Reading => WellFormed(db)

\* read_new inverts write: Read(Write(db, v)) = Defaults(db, v) (+ the constructor/destructor flags
\* read_new forces); for v = 3 and flag-closed databases that is db itself, and re-serialising
\* gives the bytes that were read.
ReadInvertsWrite ==
  pc = "remap" /\ Whole =>
    /\ Tables(temp) = Tables(ForceFlags(Defaults(db, hdr.minor)))
    /\ temp.id = db.id /\ temp.lib = db.lib /\ temp.hash = db.hash /\ temp.mod = db.mod
    /\ (hdr.minor = 3 /\ FlagsClosed(db) => Tables(temp) = Tables(db) /\ WriteDb(temp, 3) = stream)
    /\ WriteDb(temp, 3) = WriteDb(ForceFlags(Defaults(db, hdr.minor)), 3)

\* a canonical database written in the current format and read into an empty process is the identity on bytes
CanonIdentity ==
  pc = "done" /\ Whole /\ hdr.kind = "ok" /\ hdr.minor = 3 /\ par.layout = "canon" /\ par.pre = "none" /\ FlagsClosed(db)
    => ~err /\ Tables(glob) = Tables(db) /\ WriteDb([db EXCEPT !.f = glob.f, !.w = glob.w, !.t = glob.t, !.m = glob.m,
                                                               !.e = glob.e, !.s = glob.s], 3) = stream

\* the global database is, at EVERY step, either untouched or completely merged
NeverHalfMerged == Reading => Tables(glob) = BaseTables \/ Tables(glob) = MergedTables

LoadedWhole ==
  pc = "done" /\ ~err => /\ Tables(glob) = MergedTables
                         /\ ~RemovesContent /\ GoodVersion /\ hdr.kind \notin {"idmismatch", "modstale"}
ErrorMergesNothing == pc = "done" /\ err /\ hdr.kind # "idmismatch" => Tables(glob) = BaseTables
TruncationFlagged == pc = "done" /\ RemovesContent => err /\ Tables(glob) = BaseTables
VersionFlagged == pc = "done" /\ ~GoodVersion => err /\ Tables(glob) = BaseTables
IdentifierFlagged == pc = "done" /\ hdr.kind = "idmismatch" => err
StaleModuleFlagged == pc = "done" /\ hdr.kind = "modstale" => err /\ Tables(glob) = BaseTables
GoodLoads == pc = "done" /\ Whole /\ hdr.kind \in {"ok", "idmatch", "modok"} => ~err /\ Tables(glob) = MergedTables

\* the step machine computes what the one-shot reader function computes
StepsMatchFunction ==
  pc = "remap" /\ par.pre = "none" =>
    LET r == ReadFile(stream) IN r.ok /\ Tables(r.db) = Tables(temp) /\ r.db.lib = temp.lib /\ r.db.id = temp.id
FunctionRejectsWhatStepsReject ==
  pc = "done" /\ par.pre = "none" /\ hdr.kind \notin {"idmismatch", "modstale"} => (err <=> ~ReadFile(stream).ok)

ReaderBounded == st.p <= Len(stream) + 1 /\ left >= 0 /\ sec \in 0..6
=============================================================================
