------------------------------- MODULE WrapC -------------------------------
(***************************************************************************)
(* C01: handle-style wrappers (-c, -python) behave like the C++ they wrap. *)
(*                                                                         *)
(* The behaviour is the test: first the library is declared (one signature *)
(* per step; the header must stay valid C++), then objects are constructed *)
(* and wrapper VARIANTS (sig, k) are called; the state carries the heap of *)
(* the reference semantics (CppLibCalls!Sem) and `script` records every    *)
(* step with the value the wrapper must return and the state every live    *)
(* object must show afterwards (Read through the published data members).  *)
(* WrapC states which wrappers must exist: one per k \in 0..nd omitted     *)
(* trailing defaults, `this` first, and that variant (sig, k) runs sig     *)
(* with the last k parameters at their declared defaults.                  *)
(***************************************************************************)
EXTENDS CppLibCalls

CONSTANTS
  SigChoices(_),   \* SigChoices(lib): signatures that may be declared next
  Pick(_),         \* Pick(S): the argument combinations offered at one step (S itself, or a random sample in simulation)
  Mode,            \* "single": one signature, canonical objects, boundary tuples;  "ovl": the same for one overload
                   \* set (several signatures under one name);  "seq": call sequences
  FullCross,       \* single mode: besides the covering diagonal, every combination of boundary values (<= 2 parameters)
  MaxSigs,         \* signatures per library
  MaxVariants,     \* wrapper variants per library (seq: each must be called MinCalls times)
  MaxCalls,        \* wrapper calls per behaviour (constructor calls of declared constructors included)
  MinCalls,        \* seq: every variant is called at least this often, on different objects / arguments
  MaxHeap          \* objects ever created per behaviour

VARIABLES lib, heap, script, phase, seen
vars == <<lib, heap, script, phase, seen>>

NObj == Len(heap)
Live(o) == o \in 1..NObj /\ heap[o].live
\* Read: what every object shows through its published accessors (state of the K0 part, of the KB part, payload)
PostOf(h) == [o \in 1..Len(h) |-> [live |-> h[o].live, cls |-> h[o].cls, st |-> h[o].st, bst |-> h[o].bst, tg |-> h[o].tg]]
Post == PostOf(heap)

SingleLike == Mode \in {"single", "ovl"}
AllVariants == UNION {Variants(s) : s \in lib}
NVariants(l) == LET RECURSIVE Sum(_)
                    Sum(S) == IF S = {} THEN 0 ELSE LET x == CHOOSE x \in S : TRUE IN x.nd + 1 + Sum(S \ {x})
                IN Sum(l)
\* seen[w]: the <<this, args>> combinations variant w was called with (a function, so that argument
\* tuples of different signatures are never compared with each other)
Count(w) == Cardinality(seen[w])
RECURSIVE SumCounts(_)
SumCounts(S) == IF S = {} THEN 0 ELSE LET x == CHOOSE x \in S : TRUE IN Count(x) + SumCounts(S \ {x})
NCalls == SumCounts(DOMAIN seen)
Seen(w, o, args) == <<o, args>> \in seen[w]
Mark(w, o, args) == [seen EXCEPT ![w] = @ \cup {<<o, args>>}]
IsOp(i, op) == script[i].op = op
NSteps(op) == Cardinality({i \in 1..Len(script) : IsOp(i, op)})

Init ==
  /\ lib = {} /\ heap = <<>> /\ script = <<>> /\ phase = "decl" /\ seen = <<>>

---------------------------------------------------------------------------
(* 1. the library *)
Declare ==
  /\ phase = "decl" /\ Cardinality(lib) < MaxSigs
  /\ \E s \in SigChoices(lib) :
       /\ s \notin lib
       /\ HeaderOK(lib \cup {s})               \* else the header is ill-formed and is not generated
       /\ NVariants(lib \cup {s}) <= MaxVariants
       /\ lib' = lib \cup {s}
       /\ seen' = [w \in UNION {Variants(x) : x \in lib \cup {s}} |-> {}]
  /\ UNCHANGED <<heap, script, phase>>

\* what the library needs in order to be callable at all
NeedK0 == \E s \in lib : \E i \in 1..NP(s) : s.ps[i] \in ObjKinds \ {"objPtr"}
Needed == {s.cls : s \in {x \in lib : HasThis(x)}}
Unmet(h) == {c \in Needed : ~\E o \in 1..Len(h) : h[o].live /\ Derives(h[o].cls, c)}
            \cup (IF NeedK0 /\ ~\E o \in 1..Len(h) : h[o].live /\ HasK0(h[o].cls) THEN {"anyK0"} ELSE {})

StartBuild ==
  /\ phase = "decl" /\ lib # {}
  \* seq mode: libraries are filled up (simulation would otherwise stop declaring half of the time)
  /\ (Mode = "seq" => Cardinality(lib) = MaxSigs \/ NVariants(lib) >= MaxVariants - 1)
  \* ovl mode: the overload set is complete (nothing more can be declared)
  /\ (Mode = "ovl" => Cardinality(lib) >= 2 /\ ~\E s \in SigChoices(lib) : s \notin lib /\ HeaderOK(lib \cup {s}))
  /\ phase' = "build" /\ UNCHANGED <<lib, heap, script, seen>>

---------------------------------------------------------------------------
(* 2. objects *)
PlanCls(i) == LET s == CHOOSE s \in lib : TRUE IN
  CASE i = 1 -> IF s.cls = "-" THEN "K0" ELSE s.cls
    [] i = 2 -> "Mix"
    [] i = 3 -> "K3"
PlanSize == 3
CtorVariants(c) == Variants(BaseCtor(c)) \cup UNION {Variants(s) : s \in {x \in lib : x.fk = "ctor" /\ x.cls = c}}

K0Objs == SelectSeq([o \in 1..NObj |-> o], LAMBDA o : heap[o].live /\ HasK0(heap[o].cls))
DomSeq(k) == IF k \in ObjKinds THEN K0Objs \o (IF k = "objPtr" THEN <<0>> ELSE <<>>) ELSE Bnd(k)
SeqToSet(q) == {q[i] : i \in 1..Len(q)}
ThisSeq(s) == IF HasThis(s) THEN SelectSeq([o \in 1..NObj |-> o], LAMBDA o : heap[o].live /\ Derives(heap[o].cls, s.cls))
              ELSE <<0>>
Max2(a, b) == IF a > b THEN a ELSE b
RECURSIVE MaxDom(_, _)
MaxDom(ps, i) == IF i > Len(ps) THEN 1 ELSE Max2(Len(DomSeq(ps[i])), MaxDom(ps, i + 1))

\* every argument tuple for the first n parameters (built position by position: values of different
\* kinds are never members of one set)
RECURSIVE Tuples(_, _)
Tuples(ps, n) == IF n = 0 THEN {<<>>} ELSE {Append(t, v) : t \in Tuples(ps, n - 1), v \in SeqToSet(DomSeq(ps[n]))}

\* the <<this, args>> combinations tried for variant w in the current heap
Combos(w) ==
  LET s == w.sig
      n == NP(s) - w.k
      ts == ThisSeq(s)
      M == Max2(Len(ts), MaxDom(SubSeq(s.ps, 1, n), 1))
      \* a covering diagonal, two rounds with different strides: every value of every position (and every
      \* object as `this`) occurs, and positions are paired differently in the second round
      Off(i, j) == IF i <= M THEN 2 * (j - 1) ELSE 3 * (j - 1) + 1
      Diag == {<<ts[((i - 1) % Len(ts)) + 1],
                 [j \in 1..n |-> LET d == DomSeq(s.ps[j]) IN d[((i - 1 + Off(i, j)) % Len(d)) + 1]]>> : i \in 1..(2 * M)}
  IN IF Len(ts) = 0 \/ \E j \in 1..n : Len(DomSeq(s.ps[j])) = 0 THEN {}
     ELSE IF SingleLike /\ (~FullCross \/ n > 2) THEN Diag
     ELSE IF SingleLike THEN Diag \cup {<<ts[1], a>> : a \in Tuples(s.ps, n)}     \* every pair of boundary values
     ELSE {<<o, a>> : o \in SeqToSet(ts), a \in Tuples(s.ps, n)}

\* seq mode: call what has been called least (so that every variant gets its MinCalls)
Fair(w) == Mode = "seq" => \A w2 \in AllVariants : Count(w) <= Count(w2)

ConstructWith(c, w, args) ==
  LET s == w.sig
      ea == EffArgs(w, args)
      m == Mix(s, 0, ea, heap)
      h1 == Append(heap, NewObj(c, m))
      h2 == TouchArgs(s.ps, ea, h1, 1)
  IN /\ heap' = h2
     /\ script' = Append(script, [op |-> "new", obj |-> NObj + 1, cls |-> c, sig |-> s, k |-> w.k, args |-> args,
                                  post |-> PostOf(h2)])

Construct ==
  /\ phase \in {"build", "run"} /\ NObj < MaxHeap
  /\ \E c \in Classes : \E w \in CtorVariants(c) :
       /\ IF SingleLike /\ phase = "build"
            THEN NObj < PlanSize /\ c = PlanCls(NObj + 1) /\ w.sig = BaseCtor(c)
            ELSE TRUE
       \* seq, build phase: do not waste the three initial objects
       /\ (Mode = "seq" /\ phase = "build") =>
             /\ NObj < 3
             /\ LET h == Append(heap, NewObj(c, 0)) IN Cardinality(Unmet(h)) <= 3 - (NObj + 1)
       /\ (phase = "run") => w.sig \in lib /\ Fair(w) /\ NCalls < MaxCalls
       /\ \E cmb \in (IF w.sig \in lib THEN Pick(Combos(w))
                      ELSE {<<0, <<100 + 11 * (NObj + 1)>>>>}) :
            /\ (w.sig \in lib => ~Seen(w, 0, cmb[2]))
            /\ ConstructWith(c, w, cmb[2])
            /\ seen' = IF w.sig \in lib /\ phase = "run" THEN Mark(w, 0, cmb[2]) ELSE seen
  /\ UNCHANGED <<lib, phase>>

StartRun ==
  /\ phase = "build" /\ Unmet(heap) = {}
  /\ (SingleLike => NObj = PlanSize)
  /\ phase' = "run"
  /\ UNCHANGED <<lib, heap, script, seen>>

\* the implicit copy constructor wrapper
Copy ==
  /\ phase = "run" /\ Mode = "seq" /\ NObj < MaxHeap /\ NSteps("copy") < 1
  /\ \E o \in 1..NObj :
       /\ heap[o].live
       /\ heap' = Append(heap, heap[o])
       /\ script' = Append(script, [op |-> "copy", obj |-> NObj + 1, from |-> o, cls |-> heap[o].cls,
                                    post |-> PostOf(Append(heap, heap[o]))])
  /\ UNCHANGED <<lib, phase, seen>>

---------------------------------------------------------------------------
(* 3. calls *)
CallOrdinary(w, o, args) ==
  LET s == w.sig
      ea == EffArgs(w, args)
      r == Sem(s, o, ea, heap)
      \* postfix ++ / --: the result is a new K0 holding what the operand held BEFORE the call
      h == IF s.ret = "objVal" /\ s.fk \in {"opInc", "opDec"}
             THEN Append(r.heap, [heap[o] EXCEPT !.cls = "K0", !.bst = 0])
           ELSE IF s.ret = "objVal" THEN Append(r.heap, NewObj("K0", r.ret)) ELSE r.heap
  IN /\ SemDefined(s, o, ea)
     /\ (s.ret = "objVal" => NObj < MaxHeap)
     /\ heap' = h
     /\ script' = Append(script, [op |-> "call", sig |-> s, k |-> w.k, this |-> o, args |-> args,
                                  ret |-> IF s.ret = "objVal" THEN NObj + 1 ELSE r.ret, post |-> PostOf(h)])

CallGetter(w, o) ==
  /\ heap' = heap
  /\ script' = Append(script, [op |-> "call", sig |-> w.sig, k |-> 0, this |-> o, args |-> <<>>,
                               ret |-> heap[o].d[w.sig.ret], post |-> Post])

CallSetter(w, o, args) ==
  /\ heap' = [heap EXCEPT ![o].d[w.sig.ps[1]] = args[1]]
  \* `rb`: what reading the data member back must give
  /\ script' = Append(script, [op |-> "call", sig |-> w.sig, k |-> 0, this |-> o, args |-> args,
                               ret |-> 0, rb |-> args[1], post |-> Post])

\* item assignment through  int &operator [](K i):  the element i selects takes the value; `item` says which of
\* the four elements that is, `rb` what reading it back must give
CallItemSet(w, o, args) ==
  /\ heap' = heap
  /\ script' = Append(script, [op |-> "call", sig |-> w.sig, k |-> 0, this |-> o, args |-> args, ret |-> 0,
                               item |-> H(w.sig.ps[1], args[1], heap) % 4, rb |-> args[2], post |-> Post])

Call ==
  /\ phase = "run" /\ NCalls < MaxCalls
  /\ \E w \in AllVariants :
       /\ w.sig.fk # "ctor" /\ Fair(w)
       /\ \E cmb \in Pick(Combos(w)) :
            /\ ~Seen(w, cmb[1], cmb[2])
            /\ CASE w.sig.fk = "getter" -> CallGetter(w, cmb[1])
                 [] w.sig.fk = "setter" -> CallSetter(w, cmb[1], cmb[2])
                 [] w.sig.fk = "opIndexRef" -> CallItemSet(w, cmb[1], cmb[2])
                 [] OTHER -> CallOrdinary(w, cmb[1], cmb[2])
            /\ seen' = Mark(w, cmb[1], cmb[2])
  /\ UNCHANGED <<lib, phase>>

\* view an object through one of its bases (upcast wrapper, or the identity where none is generated)
Upcast ==
  /\ phase = "run" /\ Mode = "seq" /\ NSteps("upcast") < 2
  /\ \E o \in 1..NObj : \E b \in Bases(heap[o].cls) :
       /\ heap[o].live
       /\ script' = Append(script, [op |-> "upcast", obj |-> o, to |-> b,
                                    exp |-> IF b = "KB" THEN heap[o].bst ELSE heap[o].st, post |-> Post])
  /\ UNCHANGED <<lib, heap, phase, seen>>

AllCalled == \A w \in AllVariants : Count(w) >= MinCalls
Destroy ==
  /\ phase = "run" /\ Mode = "seq" /\ NSteps("del") < 2
  /\ \E o \in 1..NObj :
       /\ heap[o].live
       /\ LET h == [heap EXCEPT ![o].live = FALSE] IN
            /\ (Unmet(h) = {} \/ AllCalled)
            /\ heap' = h
            /\ script' = Append(script, [op |-> "del", obj |-> o, post |-> PostOf(h)])
  /\ UNCHANGED <<lib, phase, seen>>

Finish ==
  /\ phase = "run"
  /\ IF Mode = "seq" THEN AllCalled ELSE NCalls = 1
  /\ phase' = "done"
  /\ UNCHANGED <<lib, heap, script, seen>>

Next == Declare \/ StartBuild \/ Construct \/ StartRun \/ Copy \/ Call \/ Upcast \/ Destroy \/ Finish
Spec == Init /\ [][Next]_vars

---------------------------------------------------------------------------
(* The wrappers that must exist for the library, as the database must describe them *)
Required == {[sig |-> w.sig, k |-> w.k, params |-> WrapperParams(w),
              optional |-> [i \in 1..(NP(w.sig) - w.k) |-> i > NP(w.sig) - w.sig.nd]] : w \in AllVariants}

---------------------------------------------------------------------------
(* Invariants of the model *)
\* variants of one overload set have pairwise distinct C++ call signatures; exactly nd+1 variants per signature
HeaderWellFormed ==
  /\ HeaderOK(lib)
  /\ \A s \in lib : Cardinality(Variants(s)) = s.nd + 1
  /\ \A w \in AllVariants : HasThis(w.sig) => WrapperParams(w)[1] = "this"

ObjsOf(st) ==
  CASE st.op = "call" -> (IF st.this # 0 THEN {st.this} ELSE {}) \cup
                         {st.args[i] : i \in {j \in 1..Len(st.args) : st.sig.ps[j] \in ObjKinds /\ st.args[j] # 0}}
    [] st.op = "new" -> {st.args[i] : i \in {j \in 1..Len(st.args) : st.sig.ps[j] \in ObjKinds /\ st.args[j] # 0}}
    [] st.op = "copy" -> {st.from}
    [] st.op \in {"upcast", "del"} -> {st.obj}
\* no step uses an object after its Destroy
NoUseAfterDestroy ==
  \A i \in 1..Len(script) : \A j \in 1..(i - 1) :
     script[j].op = "del" => script[j].obj \notin ObjsOf(script[i])

ResultsInRange ==
  /\ \A i \in 1..Len(script) :
       script[i].op = "call" =>
         LET s == script[i].sig IN
           IF s.ret \in ObjKinds THEN script[i].ret \in 0..NObj ELSE InRange(s.ret, script[i].ret)
  /\ \A o \in 1..NObj : heap[o].st \in 0..(StMod - 1) /\ heap[o].bst \in 0..(StMod - 1)
  \* a returned pointer / reference designates a live object (or is null)
  /\ \A i \in 1..Len(script) :
       (script[i].op = "call" /\ script[i].sig.ret \in ObjKinds /\ script[i].ret # 0) => script[i].post[script[i].ret].live

\* a variant with k omitted parameters passes exactly the declared defaults
DefaultsAreDeclared ==
  \A w \in AllVariants : \A i \in (NP(w.sig) - w.k + 1)..NP(w.sig) :
     EffArgs(w, <<>>)[i] = DefVal(w.sig.ps[i], i)
=============================================================================
