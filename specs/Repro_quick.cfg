SPECIFICATION Spec
CONSTANTS
  Cats1 = {1, 2, 3, 4, 5, 6, 7, 8, 9, 10, 11, 12, 13, 14, 15, 16, 17, 18, 19, 20, 21, 22}
  MaxOver1 = 3
  Cats2 = {1, 10, 12, 13}
  MaxOver2 = 3
  Time = {1, 2}
  Locales = {"C"}
  EnvSizes = {0}
  PwdValues = {"real", "link"}
  CwdVia = {"real", "link"}
  OcNames = {"rel"}
  CwdSource = "getcwd"
  EpochEnvs = {"unset", "0", "normal"}
  ZeroMeansUnset = FALSE
  PrevFiles = {"none", "longer"}
  Truncates = TRUE
  InputVariants = {"plain"}
  TZs = {"UTC0"}
  AslrBases = {1}
  DateMacros = "undefined"
  PrintsPointer = FALSE
  TieBreak = "signature"
INVARIANT OutputPure
INVARIANT EpochWins
INVARIANT NothingStale
INVARIANT NoAddressNoDate
INVARIANT EmbedsArgumentsOnly
INVARIANT IffTotal
INVARIANT TotalWithTieBreak
INVARIANT EmittedRespectsKeys
CONSTRAINT DumpConstraint
CHECK_DEADLOCK FALSE
