--------------------------- MODULE ModuleInitMC ---------------------------
(* Model-checking wrapper for ModuleInit: every digraph (no self loops) on
   MinN..MaxN libraries is an initial state; the deterministic mechanism runs
   to Done and the finished run is dumped (replayed into interrogate /
   interrogate_module by vf/checks/c16.py). *)
EXTENDS ModuleInit, Json, CSV, IOUtils

CONSTANTS MinN, MaxN

\* every assignment of kinds, and every digraph (no self loops) among the libraries that have classes
GraphsFor(n, k) ==
  LET B == {b \in 1..n : k[b] = "both"} IN
    {g \in [1..n -> SUBSET B] : \A l \in 1..n : l \notin g[l] /\ (k[l] # "both" => g[l] = {})}
MCInit == \E n \in MinN..MaxN : \E k \in [1..n -> Kinds] : \E g \in GraphsFor(n, k) : InitWith(k, g)
MCSpec == MCInit /\ [][Step]_vars /\ WF_vars(Step)

\* n = 5 and above: the digraph is chosen row by row (the set of all 2^20 functions is too large to
\* enumerate as initial states); used with -simulate, every trace draws one digraph uniformly
GenInit ==
  /\ kind \in [1..MaxN -> Kinds]
  /\ orig = <<>> /\ deps = <<>> /\ placed = <<>> /\ pc = "gen" /\ idx = 1
  /\ addedAny = FALSE /\ broken = {} /\ cycles = <<>> /\ nreports = 0
GenRow ==
  /\ pc = "gen"
  /\ \E S \in SUBSET (IF kind[Len(orig) + 1] = "both"
                        THEN {b \in 1..MaxN : kind[b] = "both"} \ {Len(orig) + 1} ELSE {}) :
       /\ orig' = Append(orig, S) /\ deps' = orig'
       /\ pc' = IF Len(orig) + 1 = MaxN THEN "start" ELSE "gen"
  /\ UNCHANGED <<kind, placed, idx, addedAny, broken, cycles, nreports>>
GenSpec == GenInit /\ [][GenRow \/ Step]_vars
\* the properties, once the digraph is complete
GOnce == pc = "gen" \/ Once
GBasesFirst == pc = "gen" \/ BasesFirst
GReportIffCyclic == pc = "gen" \/ ReportIffCyclic
GNoBreakIfAcyclic == pc = "gen" \/ NoBreakIfAcyclic
GBrokenAreOnCycles == pc = "gen" \/ BrokenAreOnCycles
GCyclesAreCycles == pc = "gen" \/ CyclesAreCycles
GBounded == pc = "gen" \/ Bounded
GKeysAreContributors == pc = "gen" \/ KeysAreContributors

\* a fixed family of larger digraphs for the quick tier (rings, chains, complete graphs, nested and
\* disjoint cycles, a cycle reached from a tail) on n libraries
Family(n) ==
  LET V == 1..n
      Nxt(i) == IF i = n THEN 1 ELSE i + 1
      Prv(i) == IF i = 1 THEN n ELSE i - 1 IN
  { [i \in V |-> {Nxt(i)}],                                   \* ring
    [i \in V |-> {Prv(i)}],                                   \* ring, other direction
    [i \in V |-> V \ {i}],                                    \* complete
    [i \in V |-> {j \in V : j > i}],                          \* total order, bases last in name order
    [i \in V |-> {j \in V : j < i}],                          \* total order, bases first in name order
    [i \in V |-> IF i < n THEN {i + 1} ELSE {}],              \* chain
    [i \in V |-> IF i > 1 THEN {i - 1} ELSE {}],              \* chain, reversed
    [i \in V |-> {Nxt(i)} \cup (IF i = 1 THEN {3} ELSE {})],  \* ring with a chord
    [i \in V |-> {Nxt(i), Prv(i)} \ {i}],                     \* ring in both directions
    [i \in V |-> IF i = 1 THEN {2} ELSE IF i = 2 THEN {1} ELSE IF i = 3 THEN {4} ELSE IF i = 4 THEN {3} ELSE {1, 3}],  \* two 2-cycles
    [i \in V |-> IF i = 1 THEN {n} ELSE IF i = n THEN {n - 1} ELSE IF i = n - 1 THEN {n} ELSE {1}],  \* tail into a 2-cycle at the end
    [i \in V |-> IF i = n THEN {1, 2} ELSE IF i = 1 THEN {2} ELSE IF i = 2 THEN {n} ELSE {}],        \* cycle 2 -> n -> 2 under n -> 1 -> 2
    [i \in V |-> IF i % 2 = 1 THEN {j \in V : j % 2 = 0} ELSE {}],                                    \* bipartite DAG
    [i \in V |-> IF i % 2 = 1 THEN {j \in V : j % 2 = 0} ELSE {j \in V : j % 2 = 1 /\ j > i}] }     \* bipartite with back edges
FamInit == \E n \in MinN..MaxN : \E g \in Family(n) : InitWith([i \in 1..n |-> "both"], g)
FamSpec == FamInit /\ [][Step]_vars /\ WF_vars(Step)

DumpFile == IF "VERIF_DUMP" \in DOMAIN IOEnv THEN IOEnv.VERIF_DUMP ELSE ""

SetToSeq(S) == LET RECURSIVE F(_) F(T) == IF T = {} THEN <<>> ELSE <<Min(T)>> \o F(T \ {Min(T)}) IN F(S)

DumpConstraint ==
  IF DumpFile # "" /\ Done
    THEN CSVWrite("%1$s", <<ToJson([n |-> Len(kind), kinds |-> kind,
                                     g |-> [i \in 1..Len(kind) |-> SetToSeq(orig[i])],
                                     order |-> placed,
                                     broken |-> broken,
                                     cycles |-> cycles,
                                     nrep |-> nreports])>>, DumpFile)
    ELSE TRUE
=============================================================================
