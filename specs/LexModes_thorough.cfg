SPECIFICATION Spec
CONSTANTS
  MaxLen = 7
  Macs = {"none", "obj", "fn", "tmpl"}
  ViewTail = 2
INVARIANT TypeOK
INVARIANT Total
INVARIANT PathOK
VIEW View
INVARIANT DumpConstraint
CHECK_DEADLOCK FALSE
