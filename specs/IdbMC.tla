------------------------------- MODULE IdbMC -------------------------------
(* Model-checking wrapper for Idb: symmetry-reduced initial states, and the dumps replayed by  *)
(* vf/checks/c13.py:                                                                          *)
(*   C  one record per initial state: the content and the database file of every library     *)
(*   P  the projection the mechanism reaches for (content, load order)                       *)
(*   B  one record per complete behaviour: the sequence of Request / Query steps with the    *)
(*      scalars and lookup answers the spec predicts after each step                         *)
EXTENDS Idb, Json, CSV, IOUtils

CONSTANTS DumpKinds      \* subset of {"C","P","B"}

LibOrder == SetToSeq(Libs)   \* some fixed order: contents are enumerated up to permutation of libraries

DumpFile == IF "VERIF_DUMP" \in DOMAIN IOEnv THEN IOEnv.VERIF_DUMP ELSE ""

StatusNum(st) == CASE st = "absent" -> 0 [] st = "fwd" -> 1 [] st = "fwdg" -> 2 [] st = "def" -> 3 [] st = "defg" -> 4
RECURSIVE Code(_, _)
Code(c, n) == IF n = 0 THEN 0 ELSE StatusNum(c[n]) + 5 * Code(c, n - 1)
\* libraries are interchangeable (every request order is explored): keep one content per multiset
BadNum(x) == CASE x = "ok" -> 0 [] x = "missing" -> 1 [] x = "stale" -> 2
Key(l) == 3 * Code(content[l], NT) + BadNum(bad[l])
Canonical == \A k \in 1..(Len(LibOrder) - 1) : Key(LibOrder[k]) <= Key(LibOrder[k + 1])

InitMC == Init /\ Canonical
SpecMC == InitMC /\ [][Next]_vars

Recs(fn) == {[i |-> i, r |-> fn[i]] : i \in DOMAIN fn}
FileJson(file) == [w |-> Recs(file.w), f |-> Recs(file.f), t |-> Recs(file.t), m |-> Recs(file.m),
                   e |-> Recs(file.e), s |-> Recs(file.s)]
\* the statuses of the type names, then what is wrong with the file
ContentJson == [l \in Libs |-> [n \in 1..(NT + 1) |-> IF n <= NT THEN content[l][n] ELSE bad[l]]]

Emit(rec) == CSVWrite("%1$s", <<ToJson(rec)>>, DumpFile)

IsInitial == pc = "idle" /\ requested = {} /\ hist = <<>>
AfterAnswer == pc = "idle" /\ requests = <<>> /\ requested # {} /\ ans # <<>> /\ fresh = LookupKinds
Complete == AfterAnswer /\ requested = Libs /\ hist # <<>> /\ hist[Len(hist)].op = "Q"

\* with the history recorded, many histories reach the same (content, load order): the projection is
\* dumped for the one that queries after every request
Stepwise == RecordHist => Cardinality({k \in DOMAIN hist : hist[k].op = "Q"}) = Cardinality({k \in DOMAIN hist : hist[k].op = "R"})

DumpConstraint ==
  IF DumpFile = "" THEN TRUE
  ELSE /\ ("C" \in DumpKinds /\ IsInitial) =>
             Emit([k |-> "C", content |-> ContentJson, files |-> [l \in Libs |-> FileJson(files[l])],
                   count |-> [l \in Libs |-> FileCount(files[l])]])
       /\ ("P" \in DumpKinds /\ AfterAnswer /\ (modules = <<>> \/ loaded = <<>>) /\ Stepwise) =>
             Emit([k |-> "P", content |-> ContentJson, loaded |-> loaded, proj |-> Project(db)])
       /\ ("B" \in DumpKinds /\ RecordHist /\ Complete) =>
             Emit([k |-> "B", content |-> ContentJson, hist |-> hist])
=============================================================================
