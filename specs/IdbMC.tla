------------------------------- MODULE IdbMC -------------------------------
(* Model-checking wrapper for Idb: symmetry-reduced initial states, and the dumps replayed by  *)
(* vf/checks/c13.py:                                                                          *)
(*   C  one record per initial state: the content and the database file of every library     *)
(*   P  the projection the mechanism reaches for (content, load order)                       *)
(*   B  one record per complete behaviour: the sequence of Request / Query steps with the    *)
(*      scalars and lookup answers the spec predicts after each step                         *)
EXTENDS Idb, Json, CSV, IOUtils

CONSTANTS DumpKinds      \* subset of {"C","P","B"}

LibOrder == SetToSeq(Libs)   \* some fixed order: contents are enumerated up to permutation of libraries

DumpFile == IF "VERIF_DUMP" \in DOMAIN IOEnv THEN IOEnv.VERIF_DUMP ELSE ""

StatusNum(st) == CASE st = "absent" -> 0 [] st = "fwd" -> 1 [] st = "fwdg" -> 2 [] st = "def" -> 3 [] st = "defg" -> 4
RECURSIVE Code(_, _)
Code(c, n) == IF n = 0 THEN 0 ELSE StatusNum(c[n]) + 5 * Code(c, n - 1)
\* libraries are interchangeable (every request order is explored): keep one content per multiset
Canonical(ct) == \A k \in 1..(Len(LibOrder) - 1) : Code(ct[LibOrder[k]], NT) <= Code(ct[LibOrder[k + 1]], NT)

InitMC == Init /\ Canonical(content)
SpecMC == InitMC /\ [][Next]_vars

Recs(fn) == {[i |-> i, r |-> fn[i]] : i \in DOMAIN fn}
FileJson(file) == [w |-> Recs(file.w), f |-> Recs(file.f), t |-> Recs(file.t), m |-> Recs(file.m),
                   e |-> Recs(file.e), s |-> Recs(file.s)]
ContentJson == [l \in Libs |-> [n \in 1..NT |-> content[l][n]]]

Emit(rec) == CSVWrite("%1$s", <<ToJson(rec)>>, DumpFile)

IsInitial == pc = "idle" /\ requested = {} /\ hist = <<>>
AfterAnswer == pc = "idle" /\ requests = <<>> /\ loaded # <<>> /\ ans # <<>> /\ fresh = LookupKinds
Complete == AfterAnswer /\ requested = Libs /\ hist # <<>> /\ hist[Len(hist)].op = "Q"

\* with the history recorded, many histories reach the same (content, load order): the projection is
\* dumped for the one that queries after every request
Stepwise == RecordHist => Cardinality({k \in DOMAIN hist : hist[k].op = "Q"}) = Cardinality({k \in DOMAIN hist : hist[k].op = "R"})

DumpConstraint ==
  IF DumpFile = "" THEN TRUE
  ELSE /\ ("C" \in DumpKinds /\ IsInitial) =>
             Emit([k |-> "C", content |-> ContentJson, files |-> [l \in Libs |-> FileJson(files[l])],
                   count |-> [l \in Libs |-> FileCount(files[l])]])
       /\ ("P" \in DumpKinds /\ AfterAnswer /\ modules = <<>> /\ Stepwise) =>
             Emit([k |-> "P", content |-> ContentJson, loaded |-> loaded, proj |-> Project(db)])
       /\ ("B" \in DumpKinds /\ RecordHist /\ Complete) =>
             Emit([k |-> "B", content |-> ContentJson, hist |-> hist])
=============================================================================
