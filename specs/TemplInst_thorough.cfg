SPECIFICATION Spec
CONSTANTS
  MaxDefs = 2
  MinDefs = 1
  Size = "M"
  BodyTerms <- MCBodyTerms
  DfltTerms <- MCDfltTerms
  AliasTerms <- MCAliasTerms
  QueryTerms <- MCQueryTerms
INVARIANT ResultGround
INVARIANT Idempotent
INVARIANT Confluent
INVARIANT SubstLemma
CONSTRAINT DumpConstraint
CHECK_DEADLOCK FALSE
