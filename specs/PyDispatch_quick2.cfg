SPECIFICATION Spec
CONSTANTS
  MaxOverloads = 3
  MaxParams = 1
  ParamCats <- Cats5
  IntVals <- EdgeIntVals
  IntVals2 <- TinyIntVals
  ArgKinds <- AllArgKinds
  Kinds = {"method", "static"}
  NameModes <- SameNames
  ConstMethods = FALSE
  Fixed <- NoFix
INVARIANT RefinesAndTies
CONSTRAINT DumpConstraint
CHECK_DEADLOCK FALSE
