----------------------------- MODULE TypeTermMC -----------------------------
EXTENDS TypeTerm, Json, CSV, IOUtils
DumpFile == IF "VERIF_DUMP" \in DOMAIN IOEnv THEN IOEnv.VERIF_DUMP ELSE ""
DumpConstraint ==
  IF DumpFile # "" /\ depth >= 1 /\ ~IsCFn(t)
    THEN CSVWrite("%1$s", <<ToJson([v |-> Render("@"), s |-> Struct(t), sh |-> Shape(t), e |-> east])>>, DumpFile)
    ELSE TRUE
=============================================================================
