SPECIFICATION Spec
CONSTANTS
  EmptyAnglePathIsCwd = FALSE
  ExplicitByCanonical = TRUE
  KeyByCanonical = TRUE
  MaxIncludes = 3
INVARIANT Refines
INVARIANT RefSane
INVARIANT OnceOnly
CONSTRAINT DumpConstraint
CHECK_DEADLOCK FALSE
