SPECIFICATION SimSpec
CONSTANTS
  MaxInst = 3
  MaxWrappers = 3
  MaxHelpers = 4
  MaxDepth = 22
  Kinds <- AllKinds
INVARIANT RcAccounting
INVARIANT ExistsIffReferenced
INVARIANT NoDanglingHelper
INVARIANT OwnedAliveIffWrapper
INVARIANT AtMostOnce
INVARIANT PartsFollowParent
INVARIANT FinalAccounting

CONSTRAINT SimConstraint
CHECK_DEADLOCK FALSE
