SPECIFICATION Spec
CONSTANTS
  MaxLen = 5
  MaxDepth = 2
  Conds = {"T", "F", "D", "V"}
  Kinds = {"if", "elif", "ifdef", "ifndef", "elifdef", "elifndef", "else", "endif", "text", "def0", "def1", "undef", "warn", "err", "inc", "inc2", "push", "pop", "noise"}
  MinDump = 5
INVARIANT Refines
INVARIANT ClosedNormal
INVARIANT AtMostOneGroup
INVARIANT LevelBound
CONSTRAINT DumpConstraint
CHECK_DEADLOCK FALSE
