SPECIFICATION Spec
CONSTANTS
  MaxLen = 5
  MaxDepth = 2
  Conds = {"T", "F", "D", "V"}
  Kinds = {"if", "elif", "ifdef", "ifndef", "elifdef", "elifndef", "else", "endif", "text", "def0", "def1", "undef", "warn", "inc"}
INVARIANT Refines
INVARIANT ClosedNormal
INVARIANT AtMostOneGroup
INVARIANT LevelBound
CONSTRAINT DumpConstraint
CHECK_DEADLOCK FALSE
