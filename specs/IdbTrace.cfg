SPECIFICATION TSpec
CONSTANTS
  Libs = {}
  NT = 0
  Statuses = {}
  Statuses2 = {}
  Modes = {"db", "mod"}
  LookupKinds = {}
  FileBase = 1
  RecordHist = FALSE
  Faults = {"ok", "missing", "stale"}
INVARIANT UnionOK
INVARIANT Closed
INVARIANT TempClosed
INVARIANT WrappersFirst
INVARIANT LinksConsistent
INVARIANT UniqueNames
INVARIANT RemapIso
INVARIANT RangesDisjoint
INVARIANT ModulesSorted
INVARIANT CacheCoherent
INVARIANT Lazy
INVARIANT ErrIffFault
INVARIANT FailedNotLoaded
CHECK_DEADLOCK TRUE
