SPECIFICATION TSpec
CONSTANTS
  Libs = {}
  NT = 0
  Statuses = {}
  Statuses2 = {}
  Modes = {"db", "mod"}
  LookupKinds = {}
  FileBase = 1
  RecordHist = FALSE
INVARIANT UnionOK
INVARIANT Closed
INVARIANT TempClosed
INVARIANT WrappersFirst
INVARIANT LinksConsistent
INVARIANT UniqueNames
INVARIANT RemapIso
INVARIANT RangesDisjoint
INVARIANT ModulesSorted
INVARIANT CacheCoherent
INVARIANT Lazy
CHECK_DEADLOCK TRUE
