------------------------------ MODULE ReproMC ------------------------------
(* Model-checking wrapper of Repro: bounds and the dump of every complete overload set with
   what the spec knows about it (comparator ties, the emitted order under the intended
   tie-break).  vf/checks/c14.py renders the dumped sets to headers and runs the real tools on
   them under varied hidden inputs. *)
EXTENDS Repro, Json, CSV, IOUtils

DumpFile == IF "VERIF_DUMP" \in DOMAIN IOEnv THEN IOEnv.VERIF_DUMP ELSE ""

AnyRank == CHOOSE r \in Ranks(ov) : TRUE

DumpConstraint ==
  IF DumpFile # "" /\ phase = "start" /\ outs = <<>>
    THEN LET q == SigOrder(ov)
             e == Sorted("signature", ov, AnyRank)
         IN CSVWrite("%1$s", <<ToJson([ov |-> q,
                                       names |-> [i \in 1..Len(q) |-> [j \in 1..Len(q[i]) |-> Cat[q[i][j]].n]],
                                       keys |-> [i \in 1..Len(q) |-> KeyOf(q[i])],
                                       ties |-> HasKeyTies(ov),
                                       maxtie |-> MaxTie(ov),
                                       order |-> [i \in 1..Len(e) |-> SigRank(ov)[e[i]]]])>>, DumpFile)
    ELSE TRUE
=============================================================================
