----------------------------- MODULE WrapCSeqMC -----------------------------
(* WrapC for simulated call sequences: small libraries (at most MaxSigs signatures, MaxVariants
   wrapper variants) whose functions may share a name (overload sets). *)
EXTENDS WrapCMC, Randomization

\* call sequences: small libraries whose functions may share a name (overload sets); a reduced kind set
\* keeps the alphabet a product of small sets
SeqKinds == <<"i8", "u16", "i32", "i64", "ulong", "f32", "f64", "bool", "enum", "cstr", "string",
              "objPtr", "objRef", "objVal", "constObjRef", "enumLL", "strPtr">>
SeqRets == <<"u8", "i32", "u64", "f64", "string", "cstr", "objPtr", "objRef", "objVal", "void", "enum", "f32">>
SeqParams == {<<>>} \cup {<<SeqKinds[p]>> : p \in 1..17} \cup {<<SeqKinds[p], SeqKinds[q]>> : p \in 1..17, q \in {3, 11, 12}}
SeqCls == <<"K0", "K1", "KB", "Mix", "K3">>
AlphaSeq == WF({Sig(fk, IF fk = "free" THEN "-" ELSE SeqCls[((r + Len(ps) + nm) % 5) + 1], nm, SeqRets[r], ps, nd) :
                  fk \in {"free", "method", "cmethod", "static"}, nm \in {0, 1},
                  r \in 1..12, ps \in SeqParams, nd \in 0..1}
               \cup {Sig("method", SeqCls[(r % 5) + 1], 0, SeqRets[r], ps, 2) : r \in 1..12, ps \in SeqParams}
               \cup {Sig("ctor", c, 0, "void", ps, nd) : c \in {"K1", "Mix", "K3"}, ps \in SeqParams \ {<<>>}, nd \in 0..1}
               \cup {Sig("opCall", c, 0, SeqRets[r], ps, nd) : c \in {"K0", "K3"}, r \in {2, 5, 8, 9}, ps \in SeqParams, nd \in 0..1}
               \cup {Sig(f, "K0", 0, "objRef", <<>>, 0) : f \in {"opInc", "opDec"}}
               \cup {Sig(f, "K0", 0, "objVal", <<"i32">>, 0) : f \in {"opInc", "opDec"}}
               \cup {Sig("getter", "K0", 0, k, <<>>, 0) : k \in {"string", "i64", "f32"}}
               \cup {Sig("setter", "K0", 0, "void", <<k>>, 0) : k \in {"string", "i64", "f32"}})

\* simulation enumerates every successor before it picks one: offer a fresh random sample at every step
\* ... and, once a named function is in the library, candidates for the same overload set
NamedBy == [c \in Classes \cup {"-"} |-> {s \in AlphaSeq : s.name = 1 /\ s.cls = c}]
SeqChoices(l) == RandomSubset(40, AlphaSeq) \cup UNION {RandomSubset(12, NamedBy[a.cls]) : a \in {x \in l : x.name = 1}}

PickSome(S) == IF Cardinality(S) <= 5 THEN S ELSE RandomSubset(5, S)
=============================================================================
