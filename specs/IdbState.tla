------------------------------ MODULE IdbState ------------------------------
(***************************************************************************)
(* C11 (and the real-world part of C13): the invariants of IdbDB evaluated *)
(* on databases dumped BY RAW INDEX from libinterrogatedb.  Every line of  *)
(* $VERIF_STATES is one observed database state                            *)
(*   {"id":..., "first":f, "single":0/1, "db":{...}, "singles":[db,...]}    *)
(* (the record format of IdbDB; "truth", when present, is the ground truth *)
(* of the header the database was made from, see TruthViol; "singles",     *)
(* when present, are the databases of the libraries that were merged into  *)
(* db, each loaded alone).  One TLC                                        *)
(* step per database; the verdict of every invariant, with the offending    *)
(* indices as witnesses, is written to $VERIF_DUMP.  The check reports a   *)
(* property violation for every database whose verdict is not all-true.    *)
(***************************************************************************)
EXTENDS IdbDB, Json, CSV, IOUtils

DBs == ndJsonDeserialize(IOEnv.VERIF_STATES)
N == Len(DBs)

VARIABLE k
Init == k = 1
Next == k <= N /\ k' = k + 1
Spec == Init /\ [][Next]_k

Verdict(x) ==
  LET d == DBOfJson(x.db) IN
  [id |-> x.id,
   closed |-> ClosedDB(d),
   open |-> Open(d),
   vectors |-> VectorsExactDB(d),
   wrappersFirst |-> IF x.single = 1 THEN WrappersFirstDB(d, x.first) ELSE TRUE,
   links |-> LinksDB(d),
   backlinks |-> IF x.single = 1 THEN BackLinksDB(d) ELSE {},
   owners |-> OwnerViol(d),
   names |-> BuilderNameViol(d),
   sigs |-> SigViol(d),
   truth |-> IF "truth" \in DOMAIN x THEN {x.truth[j] : j \in TruthViol(d, x.truth)} ELSE {},
   dupTrueNames |-> DupTrueNames(d), dupUnique |-> DupUnique(d), dupWrapperNames |-> DupWName(d),
   union |-> IF "singles" \in DOMAIN x
               THEN UnionOKP(Project(d), {Project(DBOfJson(x.singles[j])) : j \in DOMAIN x.singles})
               ELSE TRUE]

Holds(v) == /\ v.owners = {} /\ v.names = {} /\ v.sigs = {} /\ v.truth = {}
            /\ v.closed /\ v.vectors /\ v.wrappersFirst /\ v.links = {} /\ v.backlinks = {}
            /\ v.dupTrueNames = {} /\ v.dupUnique = {} /\ v.dupWrapperNames = {} /\ v.union

Emit ==
  IF k <= N
    THEN LET v == Verdict(DBs[k]) IN
         CSVWrite("%1$s", <<ToJson([v EXCEPT !.closed = IF @ THEN 1 ELSE 0] @@ [ok |-> IF Holds(v) THEN 1 ELSE 0])>>, IOEnv.VERIF_DUMP)
    ELSE TRUE
=============================================================================
