------------------------------- MODULE NumLex -------------------------------
(***************************************************************************)
(* Spelling -> value map of integer and character literals (C07, C09).     *)
(*                                                                         *)
(* The literal is the behaviour: every step appends one character to       *)
(* `text`; the state carries the scanner mode of a conforming C++14 lexer  *)
(* ([lex.icon], [lex.ccon]) and the value read so far (Horner scheme,      *)
(* guarded so that it never exceeds INT_MAX).  Digit separators are        *)
(* accepted only between two digits of the literal's base, an octal        *)
(* literal is a 0 followed by octal digits, suffixes are u/U, l/L, ll/LL   *)
(* in either order.  Character literals: one plain character or one escape *)
(* sequence (simple, \x hex, \ + up to three octal digits).  A plain or u8 *)
(* literal has a value in 0..127 (above that the sign / the type depends   *)
(* on the implementation and the language version); a literal with the     *)
(* encoding prefix L, u or U is the code unit itself, never negative:      *)
(* L'\377' = u'\377' = 255, u up to 0xFFFF, \x takes every hex digit that  *)
(* follows; \uXXXX (four hex digits, a universal character name) is the    *)
(* code point XXXX, which must not be a surrogate nor below 0xA0.          *)
(* A literal is complete in an accepting mode.                             *)
(***************************************************************************)
EXTENDS Integers, Sequences, TLC

CONSTANTS Chars,       \* alphabet: a set of one-character strings
          UDigits,     \* hexadecimal digits used in universal character names (subset of Chars)
          MaxLen       \* bound on the number of characters

INT_MAX == 2147483647

DigVal == ("0" :> 0) @@ ("1" :> 1) @@ ("2" :> 2) @@ ("3" :> 3) @@ ("4" :> 4) @@ ("5" :> 5) @@ ("6" :> 6)
          @@ ("7" :> 7) @@ ("8" :> 8) @@ ("9" :> 9) @@ ("a" :> 10) @@ ("b" :> 11) @@ ("c" :> 12) @@ ("d" :> 13)
          @@ ("e" :> 14) @@ ("f" :> 15) @@ ("A" :> 10) @@ ("B" :> 11) @@ ("C" :> 12) @@ ("D" :> 13) @@ ("E" :> 14)
          @@ ("F" :> 15)
IsDig(c, base) == c \in DOMAIN DigVal /\ DigVal[c] < base

\* character codes of the alphabet (ASCII)
Code == ("0" :> 48) @@ ("1" :> 49) @@ ("2" :> 50) @@ ("3" :> 51) @@ ("4" :> 52) @@ ("5" :> 53) @@ ("6" :> 54)
        @@ ("7" :> 55) @@ ("8" :> 56) @@ ("9" :> 57) @@ ("a" :> 97) @@ ("b" :> 98) @@ ("c" :> 99) @@ ("d" :> 100)
        @@ ("e" :> 101) @@ ("f" :> 102) @@ ("A" :> 65) @@ ("B" :> 66) @@ ("C" :> 67) @@ ("D" :> 68) @@ ("E" :> 69)
        @@ ("F" :> 70) @@ ("x" :> 120) @@ ("X" :> 88) @@ ("u" :> 117) @@ ("U" :> 85) @@ ("l" :> 108) @@ ("L" :> 76)
        @@ ("n" :> 110) @@ ("t" :> 116) @@ ("r" :> 114) @@ ("v" :> 118) @@ ("'" :> 39) @@ ("\\" :> 92)
        @@ ("\"" :> 34) @@ ("?" :> 63) @@ (" " :> 32) @@ ("z" :> 122) @@ ("_" :> 95)

SimpleEsc == ("n" :> 10) @@ ("t" :> 9) @@ ("r" :> 13) @@ ("v" :> 11) @@ ("a" :> 7) @@ ("b" :> 8) @@ ("f" :> 12)
             @@ ("\\" :> 92) @@ ("'" :> 39) @@ ("\"" :> 34) @@ ("?" :> 63)

\* suffixes: every prefix of a valid suffix, and the valid ones
ValidSuf == {"u", "U", "l", "L", "ll", "LL", "ul", "uL", "Ul", "UL", "lu", "lU", "Lu", "LU",
             "ull", "uLL", "Ull", "ULL", "llu", "llU", "LLu", "LLU"}
SufPrefix == ValidSuf        \* every proper prefix of a valid suffix is itself valid

VARIABLES text,    \* sequence of one-character strings
          mode, base, val,
          digs,    \* history: the digit values read (for the positional-value invariant)
          suf,     \* suffix read so far
          pfx      \* encoding prefix of a character literal: "", "L", "u", "U", "u8"
vars == <<text, mode, base, val, digs, suf, pfx>>

NumAccept == {"zero", "dec", "oct", "hex", "bin", "suf"}
Accepting == mode \in NumAccept \cup {"cdone"}
\* largest value of a character literal with the given prefix
CMax(p) == CASE p \in {"", "u8"} -> 127 [] p = "u" -> 65535 [] OTHER -> INT_MAX
IsChar == mode \in {"pfx", "c0", "cb", "cu", "cx0", "cx", "co1", "co2", "co3", "cq", "cdone"}
Unsigned == \E i \in 1..Len(text) : text[i] \in {"u", "U"} /\ mode = "suf"

Init == text = <<>> /\ mode = "start" /\ base = 10 /\ val = 0 /\ digs = <<>> /\ suf = "" /\ pfx = ""

Fits(d) == val <= (INT_MAX - d) \div base
Digit(c, m) ==       \* append a digit of the current base, go to mode m
  /\ IsDig(c, base) /\ Fits(DigVal[c])
  /\ val' = val * base + DigVal[c] /\ digs' = Append(digs, DigVal[c]) /\ mode' = m
  /\ UNCHANGED <<base, suf>>
To(m) == mode' = m /\ UNCHANGED <<base, val, digs, suf>>
Suffix(c) == /\ (suf \o c) \in SufPrefix /\ suf' = suf \o c /\ mode' = "suf"
             /\ UNCHANGED <<base, val, digs>>

Step(c) ==
  /\ text' = Append(text, c)
  /\ (IF mode = "start" /\ c \in {"L", "u", "U"} THEN pfx' = c
      ELSE IF mode = "pfx" /\ pfx = "u" /\ c = "8" THEN pfx' = "u8" ELSE pfx' = pfx)
  /\ CASE mode = "start" ->
            \/ c = "0" /\ mode' = "zero" /\ base' = 8 /\ digs' = <<0>> /\ UNCHANGED <<val, suf>>
            \/ c # "0" /\ Digit(c, "dec")
            \/ c = "'" /\ To("c0")
            \/ c \in {"L", "u", "U"} /\ To("pfx")
       [] mode = "pfx" -> (c = "'" /\ To("c0")) \/ (pfx = "u" /\ c = "8" /\ To("pfx"))
       [] mode = "zero" ->
            \/ c \in {"x", "X"} /\ mode' = "hex0" /\ base' = 16 /\ digs' = <<>> /\ UNCHANGED <<val, suf>>
            \/ c \in {"b", "B"} /\ mode' = "bin0" /\ base' = 2 /\ digs' = <<>> /\ UNCHANGED <<val, suf>>
            \/ Digit(c, "oct")
            \/ c = "'" /\ To("sepO")
            \/ Suffix(c)
       [] mode = "dec"  -> Digit(c, "dec") \/ (c = "'" /\ To("sepD")) \/ Suffix(c)
       [] mode = "oct"  -> Digit(c, "oct") \/ (c = "'" /\ To("sepO")) \/ Suffix(c)
       [] mode = "hex"  -> Digit(c, "hex") \/ (c = "'" /\ To("sepH")) \/ Suffix(c)
       [] mode = "bin"  -> Digit(c, "bin") \/ (c = "'" /\ To("sepB")) \/ Suffix(c)
       [] mode = "hex0" -> Digit(c, "hex")
       [] mode = "bin0" -> Digit(c, "bin")
       [] mode = "sepD" -> Digit(c, "dec")
       [] mode = "sepO" -> Digit(c, "oct")
       [] mode = "sepH" -> Digit(c, "hex")
       [] mode = "sepB" -> Digit(c, "bin")
       [] mode = "suf"  -> Suffix(c)
       \* character literals
       [] mode = "c0" ->
            \/ c = "\\" /\ To("cb")
            \/ c \notin {"\\", "'"} /\ c \in DOMAIN Code /\ val' = Code[c] /\ mode' = "cq"
               /\ UNCHANGED <<base, digs, suf>>
       [] mode = "cb" ->
            \/ c \in DOMAIN SimpleEsc /\ val' = SimpleEsc[c] /\ mode' = "cq" /\ UNCHANGED <<base, digs, suf>>
            \/ c = "x" /\ mode' = "cx0" /\ base' = 16 /\ UNCHANGED <<val, digs, suf>>
            \/ c = "u" /\ pfx \in {"L", "u", "U"} /\ mode' = "cu" /\ base' = 16 /\ digs' = <<>>
               /\ UNCHANGED <<val, suf>>
            \/ IsDig(c, 8) /\ val' = DigVal[c] /\ digs' = <<DigVal[c]>> /\ base' = 8 /\ mode' = "co1"
               /\ UNCHANGED suf
       [] mode = "cu" -> /\ c \in UDigits /\ Digit(c, IF Len(digs) = 3 THEN "cq" ELSE "cu")
                         /\ (Len(digs) = 3 => val' >= 160 /\ val' <= CMax(pfx) /\ ~(val' \in 55296..57343))
       [] mode = "cx0" -> Digit(c, "cx") /\ val' <= CMax(pfx)
       [] mode = "cx"  -> (Digit(c, "cx") /\ val' <= CMax(pfx)) \/ (c = "'" /\ To("cdone"))
       [] mode = "co1" -> (Digit(c, "co2") /\ val' <= CMax(pfx)) \/ (c = "'" /\ To("cdone"))
       [] mode = "co2" -> (Digit(c, "co3") /\ val' <= CMax(pfx)) \/ (c = "'" /\ To("cdone"))
       [] mode = "co3" -> c = "'" /\ To("cdone")
       [] mode = "cq"  -> c = "'" /\ To("cdone")
       [] OTHER -> FALSE

\* a character literal may be three characters longer than a number (prefix, two quotes, backslash)
\* (a universal character name always gets its four digits and the closing quote)
Next == /\ Len(text) < (IF IsChar THEN MaxLen + 3 ELSE MaxLen) \/ mode \in {"cu", "cq"}
        /\ \E c \in Chars : Step(c)
Spec == Init /\ [][Next]_vars

---------------------------------------------------------------------------
(* Properties *)
RECURSIVE Pow(_, _)
Pow(b, n) == IF n = 0 THEN 1 ELSE b * Pow(b, n - 1)
RECURSIVE Positional(_, _)
Positional(s, b) == IF s = <<>> THEN 0
                    ELSE s[Len(s)] + b * Positional(SubSeq(s, 1, Len(s) - 1), b)

\* the incrementally computed value is the positional value of the digits read
HornerOK == mode \in NumAccept \cup {"cx", "cu", "co1", "co2", "co3"} => val = Positional(digs, base)

\* a digit separator stands between two digits: never first, last, doubled or next to a prefix
SepOK ==
  /\ (mode \in NumAccept => text[Len(text)] # "'")
  /\ (~IsChar => \A i \in 1..Len(text) - 1 : ~(text[i] = "'" /\ text[i + 1] = "'"))
  /\ (~IsChar /\ Len(text) >= 3 /\ text[2] \in {"x", "X", "b", "B"} => text[3] # "'")

RangeOK == val >= 0 /\ val <= INT_MAX /\ (mode = "cdone" => val <= CMax(pfx))

\* the encoding prefix is what the literal starts with, and only character literals have one
PrefixOK == /\ (pfx # "" => IsChar /\ text[1] = (IF pfx = "u8" THEN "u" ELSE pfx))
            /\ (pfx = "u8" => Len(text) >= 2 /\ text[2] = "8")

\* the value does not depend on the suffix, letter case or separators: removing a separator or
\* a suffix character keeps the value (checked on the digit history)
SufOK == mode = "suf" => suf \in ValidSuf /\ val = Positional(digs, base)
=============================================================================
