----------------------------- MODULE ModuleFail -----------------------------
(***************************************************************************)
(* C16, failure path: "if any database fails to load the tool exits        *)
(* non-zero and leaves no output file".                                    *)
(*                                                                         *)
(* A case: the back-end option of interrogate_module (-c, -python,         *)
(* -python-native, or none, which means -c), the number of .in arguments,  *)
(* the position of the one that cannot be loaded, the kind of failure,     *)
(* whether an -oc file is requested and whether a stale file of that name  *)
(* exists before the run.                                                  *)
(* REFERENCE: status # 0; no file of the -oc name afterwards.              *)
(* MECHANISM (interrogate_module.cxx main): the databases are only         *)
(* REQUESTED when the arguments are read; they are LOADED by the first     *)
(* query.  write_python_table / write_python_table_native query while the  *)
(* -oc file is written; the -c back-end (also the default) writes nothing  *)
(* that queries.  Before testing interrogate_error_flag() main forces the  *)
(* load (c16-fix-1).  ForcedLoadAlways = FALSE documents the deviation     *)
(* "forced only when no -oc file was requested", under which -c / default  *)
(* runs with -oc never notice the failure.  On error: unlink, exit(1).     *)
(***************************************************************************)
EXTENDS Naturals

CONSTANTS MaxArgs, ForcedLoadAlways

Backends == {"c", "python", "native", "none"}
FailKinds == {"missing", "empty", "directory", "garbage-binary", "garbage-text", "wrong-version", "truncated"}

VARIABLES backend, nargs, pos, kind, oc, stale, pc, status, outfile
vars == <<backend, nargs, pos, kind, oc, stale, pc, status, outfile>>

Init ==
  /\ backend \in Backends /\ nargs \in 1..MaxArgs /\ pos \in 1..MaxArgs /\ pos <= nargs
  /\ kind \in FailKinds /\ oc \in BOOLEAN /\ stale \in BOOLEAN /\ (stale => oc)
  /\ pc = "start" /\ status = 0 /\ outfile = stale

\* does anything query the database while the output is written?
QueriesWhileWriting == oc /\ backend \in {"python", "native"}
ForcedLoad == ForcedLoadAlways \/ ~oc
Loaded == QueriesWhileWriting \/ ForcedLoad

Run ==
  /\ pc = "start" /\ pc' = "done"
  /\ IF Loaded
       THEN status' = 1 /\ outfile' = FALSE          \* error flag set: unlink the output, exit(1)
       ELSE status' = 0 /\ outfile' = oc             \* nothing noticed: the file written stays
  /\ UNCHANGED <<backend, nargs, pos, kind, oc, stale>>

Spec == Init /\ [][Run]_vars

FailureReported == pc = "done" => (status # 0 /\ ~outfile)
=============================================================================
