----------------------------- MODULE PathNormMC -----------------------------
(* Model-checking wrapper: every path within the bound is dumped with the normalised texts the
   mechanism computes and the node the reference file system resolves it to (compared with the
   real Filename class and the real file system by vf/checks/c17.py through harness/path_tool). *)
EXTENDS PathNorm, Json, CSV, IOUtils

DumpFile == IF "VERIF_DUMP" \in DOMAIN IOEnv THEN IOEnv.VERIF_DUMP ELSE ""

DumpConstraint ==
  IF DumpFile = "" THEN TRUE
  ELSE CSVWrite("%1$s", <<ToJson([abs |-> abs, text |-> Text(abs, comps),
                                   std |-> StdText(abs, comps),
                                   mabs |-> Text(TRUE, MakeAbsComps(abs, comps)),
                                   node |-> Resolve(abs, comps),
                                   link |-> CrossesLink(abs, comps),
                                   canon |-> IF Denotes(abs, comps) THEN Canon(abs, comps) ELSE "NONE"])>>, DumpFile)
=============================================================================
