SPECIFICATION Spec
CONSTANTS
  LibSize = 1
  Rounds = 7
  MaxHeap = 16
  Stride = 1
  SigChoices <- SingleChoices
INVARIANT HeaderWellFormed
INVARIANT ResultsInRange
INVARIANT DefaultsAreDeclared
INVARIANT ArgsAreOfTheirClass
CONSTRAINT DumpConstraint
CHECK_DEADLOCK FALSE
