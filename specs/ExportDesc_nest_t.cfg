SPECIFICATION Spec
CONSTANTS
  ElemIgnore = TRUE
  Shape <- NoShape
  MinVisSet <- PubOnly
  File2Srcs <- None
  ClassHeads <- NestHeads
  NestedKeys <- NestKeys
  MemberAlpha <- NestMembers
  MaxMembers <- M22
  MaxClasses = 2
  BaseAlpha <- None
  MaxBases = 1
  ClassComments <- NoComment
  TopAlpha <- NestTops
  MaxTops = 1
  AliasAlpha <- None
  MaxAliases = 0
  NestedLike = FALSE
  CmdKinds <- None
INVARIANT OneOwner
INVARIANT RefsBackward
INVARIANT VisIsFunction
INVARIANT DescFunctional
INVARIANT Sound
INVARIANT Complete
CONSTRAINT DumpConstraint
CHECK_DEADLOCK FALSE
