SPECIFICATION Spec
CONSTANTS
  ElemIgnore = TRUE
  Shape <- NoShape
  MinVisSet <- PubOnly
  File2Srcs <- None
  ClassHeads <- RoleHeads
  NestedKeys <- None
  MemberAlpha <- NoMembers
  MaxMembers <- M10
  MaxClasses = 0
  BaseAlpha <- None
  MaxBases = 1
  ClassComments <- NoComment
  TopAlpha <- DescTops
  MaxTops = 2
  AliasAlpha <- None
  MaxAliases = 0
  NestedLike = FALSE
  CmdKinds <- None
INVARIANT OneOwner
INVARIANT RefsBackward
INVARIANT VisIsFunction
INVARIANT DescFunctional
INVARIANT Sound
INVARIANT Complete
CONSTRAINT DumpConstraint
CHECK_DEADLOCK FALSE
