----------------------------- MODULE ReproTrace -----------------------------
(***************************************************************************)
(* Trace validation for C14.  The H-sort hook records, for every std::sort *)
(* of an overload set in write_function_forset, the incoming order (the    *)
(* iteration order of the std::set<FunctionRemap*>, i.e. the heap address  *)
(* rank that the hidden input `rank` of Repro stands for) and the outgoing *)
(* order, each element with its function signature `s` and the key `k`     *)
(* RemapCompareLess looks at.  Executions of the same command under        *)
(* different allocator seeds / locales / environments are concatenated     *)
(* with {"e":"Reset"}.                                                     *)
(*                                                                         *)
(* Every Sort event must be a step the mechanism of Repro can take         *)
(* (SortOK: a permutation that respects the strict part of the comparator  *)
(* on the logged keys), and -- the C14 property on the observed            *)
(* executions -- the emitted order must be a function of the CONTENT of    *)
(* the set: `seen` remembers content -> emitted order across all           *)
(* executions of the trace, and a run that sorts a known set differently   *)
(* has no enabled action (the trace is rejected; TLC prints the last       *)
(* matched state).                                                         *)
(***************************************************************************)
EXTENDS Repro, Json, IOUtils

Tr == ndJsonDeserialize(IOEnv.VERIF_TRACE)
NT == Len(Tr)

VARIABLES l,       \* next trace line
          seen,    \* content (set of signatures) -> emitted order (sequence of signatures)
          nrun     \* executions seen so far
tvars == <<vars, l, seen, nrun>>

IsE(i, e) == i <= NT /\ Tr[i].e = e

TInit == Init /\ l = 1 /\ seen = <<>> /\ nrun = 0

Sigs(q) == [i \in 1..Len(q) |-> q[i].s]
Keys(q) == [i \in 1..Len(q) |-> q[i].k]
Content(q) == {q[i].s : i \in 1..Len(q)}

TSort ==
  /\ IsE(l, "Sort")
  /\ LET inc == Tr[l]["in"]
         out == Tr[l]["out"]
     IN /\ Content(inc) = Content(out) /\ Cardinality(Content(inc)) = Len(inc)
        /\ SortOK(Keys(inc), Keys(out))
        /\ IF Content(inc) \in DOMAIN seen
             THEN seen[Content(inc)] = Sigs(out) /\ UNCHANGED seen
             ELSE seen' = seen @@ (Content(inc) :> Sigs(out))
  /\ l' = l + 1 /\ UNCHANGED <<vars, nrun>>

TReset == /\ IsE(l, "Reset")
          /\ nrun' = nrun + 1 /\ l' = l + 1 /\ UNCHANGED <<vars, seen>>

\* events of other hook families recorded in the same file are not ours
TForeign == /\ l <= NT /\ Tr[l].e \notin {"Sort", "Reset"}
            /\ l' = l + 1 /\ UNCHANGED <<vars, seen, nrun>>

TDone == l = NT + 1 /\ UNCHANGED tvars

TNext == TSort \/ TReset \/ TForeign \/ TDone
TSpec == TInit /\ [][TNext]_tvars

\* every remembered order respects nothing but content: one order per content (by construction
\* of `seen` as a function); stated for the reader
OneOrderPerContent == \A c \in DOMAIN seen : Len(seen[c]) = Cardinality(c)
=============================================================================
