SPECIFICATION GenSpec
CONSTANTS
  FunctionLoopFiltersModule = TRUE
  MinN = 5
  MaxN = 5
INVARIANT GKeysAreContributors
INVARIANT GOnce
INVARIANT GBasesFirst
INVARIANT GReportIffCyclic
INVARIANT GNoBreakIfAcyclic
INVARIANT GBrokenAreOnCycles
INVARIANT GCyclesAreCycles
INVARIANT GBounded
CONSTRAINT DumpConstraint
CHECK_DEADLOCK FALSE
