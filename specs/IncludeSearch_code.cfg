SPECIFICATION Spec
CONSTANTS
  EmptyAnglePathIsCwd = TRUE
  ExplicitByCanonical = FALSE
  KeyByCanonical = TRUE
  LookupCanonical = TRUE
  PromoteSystemHits = TRUE
  IncluderDirResolved = TRUE
  OptDirsPhysical = FALSE
  MaxIncludes = 3
INVARIANT Refines
INVARIANT RefSane
INVARIANT OnceOnly
INVARIANT OwnRefines
INVARIANT ChainRefines
INVARIANT ChainSane
CONSTRAINT DumpConstraint
CHECK_DEADLOCK FALSE
