SPECIFICATION Spec
CONSTANTS
  EmptyAnglePathIsCwd = TRUE
  ExplicitByCanonical = FALSE
  KeyByCanonical = TRUE
  MaxIncludes = 3
INVARIANT Refines
INVARIANT RefSane
INVARIANT OnceOnly
CONSTRAINT DumpConstraint
CHECK_DEADLOCK FALSE
