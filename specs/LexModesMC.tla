----------------------------- MODULE LexModesMC -----------------------------
(* Model-checking wrapper of LexModes: every state TLC keeps (one per VIEW value) is dumped as
   an input: the symbols, what `a` is, and the modes the scanner model went through (used by
   vf/checks/c15.py to measure which (mode, symbol) and (mode, EOF) transitions were exercised). *)
EXTENDS LexModes, Json, CSV, IOUtils

DumpFile == IF "VERIF_DUMP" \in DOMAIN IOEnv THEN IOEnv.VERIF_DUMP ELSE ""

\* Listed as an INVARIANT (always TRUE): TLC evaluates invariants once per distinct state, i.e. once
\* per VIEW value, which is exactly the de-duplication wanted; a CONSTRAINT would be evaluated for
\* every generated successor.
DumpConstraint ==
  IF DumpFile # "" /\ Len(inp) >= 1
    THEN CSVWrite("%1$s", <<ToJson([i |-> inp, p |-> path, mac |-> mac])>>, DumpFile)
    ELSE TRUE
=============================================================================
