---------------------------- MODULE CommentAttach ----------------------------
(***************************************************************************)
(* C05, comment placement: "a documentation comment is attached to the     *)
(* declaration it immediately precedes and to no other".                   *)
(*                                                                         *)
(* The behaviour is the file: each step appends one line                   *)
(*   "cpp"   // c          "c"     /* c */          "blank"                *)
(*   "decl"  a declaration "cdecl" /* c */ followed by a declaration       *)
(*   "declt" an enumerator followed by // c  (enumerator lists only: there *)
(*           the parser documents that a same-line comment belongs to the  *)
(*           enumerator; the mechanism below is not claimed for "declt")   *)
(* Reference (the documented rule, cppPreprocessor.cxx skip_cpp_comment /  *)
(* get_comment_before): consecutive // lines form one block, every /* */   *)
(* is a block of its own, a line without a comment ends a block; a block   *)
(* attaches to the declaration that starts on the block's last line or on  *)
(* the next line - and, being attached to the declaration it immediately   *)
(* precedes, to no other.                                                  *)
(* Mechanism: the lexer's block list (merge rule of skip_cpp_comment) and  *)
(* the lookup get_comment_before(line): newest block with last_line in     *)
(* {line, line - 1}.  SameLineConsumes = FALSE is the unchanged tree: the  *)
(* block of a "cdecl" line is found again for a declaration on the next    *)
(* line.                                                                   *)
(***************************************************************************)
EXTENDS Integers, Sequences, FiniteSets, TLC

CONSTANTS MaxLen, Kinds, SameLineConsumes

VARIABLES lines,    \* the file so far
          blocks,   \* mechanism: sequence of [first, last, cpp, code] comment blocks recorded by the lexer
          lastcpp,  \* mechanism: _last_cpp_comment
          att,      \* mechanism: att[i] = block index attached to the declaration on line i (0 = none)
          done
vars == <<lines, blocks, lastcpp, att, done>>

N == Len(lines)
IsDecl(k) == k \in {"decl", "cdecl", "declt"}

\* ---- reference ---------------------------------------------------------------------------------
RECURSIVE RunStart(_)
\* first line of the maximal run of // lines ending at line j
RunStart(j) == IF j > 1 /\ lines[j - 1] = "cpp" THEN RunStart(j - 1) ELSE j
\* the comment lines attached to the declaration on line i
RefAttach(i) ==
  IF lines[i] \in {"cdecl", "declt"} THEN {i}                  \* the comment on its own line belongs to it
  ELSE IF i = 1 THEN {}
  ELSE IF lines[i - 1] = "c" THEN {i - 1}
  ELSE IF lines[i - 1] = "cpp" THEN RunStart(i - 1)..(i - 1)
  ELSE {}                                                      \* blank, or a line that carries a declaration
DeclLines == {i \in 1..N : IsDecl(lines[i])}

\* ---- mechanism ---------------------------------------------------------------------------------
Init == lines = <<>> /\ blocks = <<>> /\ lastcpp = FALSE /\ att = <<>> /\ done = FALSE

\* lexing the comment of line n (kind k): skip_c_comment always starts a block; skip_cpp_comment continues the
\* last block when the previous non-blank thing lexed was a // comment and that block ended on line n-1 (or n)
LexComment(bs, k, n) ==
  IF k = "cpp" /\ lastcpp /\ bs # <<>> /\ bs[Len(bs)].last >= n - 1
    THEN [bs EXCEPT ![Len(bs)].last = n]
    ELSE Append(bs, [first |-> n, last |-> n, cpp |-> (k = "cpp"), code |-> FALSE])

\* get_comment_before(line): the newest block ending on this line or the previous one
Lookup(bs, n) ==
  LET cand == {b \in 1..Len(bs) : (bs[b].last \in {n, n - 1})
                                    /\ ((SameLineConsumes /\ bs[b].last = n - 1) => ~bs[b].code)}
  IN IF cand = {} THEN 0 ELSE CHOOSE b \in cand : \A b2 \in cand : b2 <= b

AddLine ==
  /\ ~done /\ N < MaxLen
  /\ \E k \in Kinds :
       LET n == N + 1
           bs1 == IF k \in {"cpp", "c", "cdecl"} THEN LexComment(blocks, IF k = "cdecl" THEN "c" ELSE k, n)
                  ELSE IF k = "declt" THEN Append(blocks, [first |-> n, last |-> n, cpp |-> TRUE, code |-> TRUE])
                  ELSE blocks
           a == IF IsDecl(k) THEN Lookup(bs1, n) ELSE 0
           \* a declaration lexed on the last line of a block: the block is followed by code on its own line
           bs2 == IF k = "cdecl" THEN [bs1 EXCEPT ![Len(bs1)].code = TRUE] ELSE bs1 IN
       /\ lines' = Append(lines, k)
       /\ blocks' = bs2
       /\ att' = Append(att, a)
       \* skip_comment: any non-space character that is not a // comment clears the flag; blank lines do not
       /\ lastcpp' = IF k \in {"cpp", "declt"} THEN TRUE ELSE IF k = "blank" THEN lastcpp ELSE FALSE
  /\ UNCHANGED done

Finish == ~done /\ N >= 1 /\ done' = TRUE /\ UNCHANGED <<lines, blocks, lastcpp, att>>
Next == AddLine \/ Finish
Spec == Init /\ [][Next]_vars

MechAttach(i) == IF att[i] = 0 THEN {} ELSE blocks[att[i]].first..blocks[att[i]].last

\* ---- properties --------------------------------------------------------------------------------
\* the mechanism attaches exactly what the reference attaches (checked at every declaration of every prefix)
Refines == \A i \in DeclLines : MechAttach(i) = RefAttach(i)
\* comment attachment is a partial function: no comment line is attached to two declarations
NoSharing == \A i, j \in DeclLines : i # j => MechAttach(i) \cap MechAttach(j) = {}
RefNoSharing == \A i, j \in DeclLines : i # j => RefAttach(i) \cap RefAttach(j) = {}
\* a comment is attached only to the declaration it immediately precedes
Adjacent == \A i \in DeclLines : \A j \in MechAttach(i) :
              /\ lines[j] \in {"cpp", "c", "cdecl", "declt"}
              /\ j = i \/ (\A x \in j..(i - 1) : lines[x] \in {"cpp", "c"})
=============================================================================
