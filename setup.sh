#!/bin/bash
# MANIFEST.setup_cmd: build /repo's working tree with hooks and the harness programs (offline).
set -e
cd "$(dirname "$0")"
python3 -m vf.build hooked
python3 -m vf.build asan
[ -f harness/Makefile ] && make -s -C harness BUILD="$PWD/.build" || true
echo setup-ok
