"""Python mirror of specs/ConstExpr.tla and specs/NumLex.tla (C07, C09).

The TLA+ modules are the source of truth: vf/checks/c07.py compares `ev`, `toks_min`, `toks_full`
with the value / token sequences TLC dumps for EVERY enumerated tree and `lex_literal` with every
literal NumLex enumerates (a disagreement is a MachineryError), and g++ / gcc -E validate both.
The mirror exists so that trees TLC did not enumerate (the condition table of vf/condexpr.py)
are evaluated and printed by exactly the same rules.

Trees (JSON lists, as dumped by ConstExprMC):
  ["lit", v]  ["un", op, t]  ["cast", ty, t] (ty: int bool char short)  ["bin", op, l, r]  ["cond", c, a, b]
Leaves that exist only on the Python side (a spelling decision, the value is carried):
  ["sp", text, v]      a leaf already spelled (literal, character literal, reference): value v
"""
INT_MAX = 2147483647
INT_MIN = -2147483648

BINOPS = ["*", "/", "%", "+", "-", "<<", ">>", "<", ">", "<=", ">=", "==", "!=", "&", "^", "|", "&&", "||"]
PREC = {"*": 13, "/": 13, "%": 13, "+": 12, "-": 12, "<<": 11, ">>": 11, "<": 9, ">": 9, "<=": 9, ">=": 9,
        "==": 8, "!=": 8, "&": 7, "^": 6, "|": 5, "&&": 4, "||": 3}
PCOND, PUNARY, PPRIMARY = 2, 15, 17

OK, UB, DIV0 = "ok", "ub", "div0"


def _rng(x):
    return (OK, x) if INT_MIN <= x <= INT_MAX else (UB, 0)


def _quot(a, b):
    q = abs(a) // abs(b)
    return q if (a < 0) == (b < 0) else -q


def bin_op(op, a, b):
    if op == "+":
        return _rng(a + b)
    if op == "-":
        return _rng(a - b)
    if op == "*":
        return _rng(a * b)
    if op in "/%":
        if b == 0:
            return (DIV0, 0)
        if a == INT_MIN and b == -1:
            return (UB, 0)
        q = _quot(a, b)
        return (OK, q if op == "/" else a - q * b)
    if op == "<<":
        if b < 0 or b > 31 or a < 0:
            return (UB, 0)
        return _rng(a << b)
    if op == ">>":
        if b < 0 or b > 31:
            return (UB, 0)
        return (OK, a >> b)
    if op == "&":
        return (OK, a & b)
    if op == "|":
        return (OK, a | b)
    if op == "^":
        return (OK, a ^ b)
    return (OK, int({"<": a < b, ">": a > b, "<=": a <= b, ">=": a >= b, "==": a == b, "!=": a != b}[op]))


def un_op(op, a):
    if op == "+":
        return (OK, a)
    if op == "-":
        return _rng(-a)
    if op == "~":
        return (OK, ~a)
    return (OK, int(a == 0))


def cast_op(ty, a):
    if ty == "int":
        return (OK, a)
    if ty == "bool":
        return (OK, int(a != 0))
    lo, hi = (-32768, 32767) if ty == "short" else (-128, 127)      # char: signed, 8 bit
    return (OK, a) if lo <= a <= hi else (UB, 0)


OVF, UNS, BIG = "ovf", "uns", "big"
_RANK = {UB: 5, DIV0: 4, OVF: 3, BIG: 2, UNS: 1, OK: 0}
BIG_UNSIGNED = {"2147483648u", "4294967295u", "0x80000000", "0xffffffff", "4294967295U", "020000000000"}


def _worst(x, y):
    return (x[0], 0) if _RANK[x[0]] >= _RANK[y[0]] else (y[0], 0)


def typ(t):
    """static type after promotion: True = unsigned int (Typ in the spec)"""
    k = t[0]
    if k == "lit":
        return False
    if k == "sp":
        return len(t) > 3 and bool(t[3])
    if k == "ulit":
        return True
    if k == "big":
        return t[1] in BIG_UNSIGNED
    if k == "un":
        return False if t[1] == "!" else typ(t[2])
    if k == "cast":
        return False
    if k == "bin":
        if t[1] in ("<", ">", "<=", ">=", "==", "!=", "&&", "||"):
            return False
        if t[1] in ("<<", ">>"):
            return typ(t[2])
        return typ(t[2]) or typ(t[3])
    return typ(t[2]) or typ(t[3])


def _int_bin(op, a, b):
    r = bin_op(op, a, b)
    return (OVF, 0) if r[0] == UB and op in "+-*/%" else r


def _uns_bin(op, a, b):
    if op in ("<<", ">>"):
        if b < 0 or b > 31:
            return (UB, 0)
        if op == ">>":
            return (OK, a >> b)
        r = bin_op("<<", a, b)
        return r if r[0] == OK else (UNS, 0)
    if a < 0 or b < 0:
        return (UNS, 0)
    r = bin_op(op, a, b)
    if r[0] == UB or (r[0] == OK and r[1] < 0):
        return (UNS, 0)
    return r


def ev(t):
    """(d, v) exactly as Ev in ConstExpr.tla."""
    k = t[0]
    if k in ("lit", "ulit"):
        return (OK, t[1])
    if k == "sp":
        return (OK, t[2])
    if k == "big":
        return (BIG, 0)
    if k == "un":
        x = ev(t[2])
        op = t[1]
        if x[0] != OK:
            return x
        if typ(t[2]) and op in "-~":
            return x if (op == "-" and x[1] == 0) else (UNS, 0)
        if op == "-" and x[1] == INT_MIN:
            return (OVF, 0)
        return un_op(op, x[1])
    if k == "cast":
        x = ev(t[2])
        return cast_op(t[1], x[1]) if x[0] == OK else x
    if k == "bin":
        op = t[1]
        x = ev(t[2])
        if op in ("&&", "||"):
            if x[0] != OK:
                return x
            if op == "&&" and x[1] == 0:
                return (OK, 0)
            if op == "||" and x[1] != 0:
                return (OK, 1)
            y = ev(t[3])
            return (OK, int(y[1] != 0)) if y[0] == OK else y
        y = ev(t[3])
        if op in ("<<", ">>") and (y[0] != OK or y[1] < 0 or y[1] > 31):
            return (UB, 0)
        if op in "/%" and y[0] == OK and y[1] == 0:
            return (UB, 0) if x[0] == UB else (DIV0, 0)
        if x[0] != OK or y[0] != OK:
            return _worst(x, y)
        u = typ(t[2]) if op in ("<<", ">>") else (typ(t[2]) or typ(t[3]))
        return _uns_bin(op, x[1], y[1]) if u else _int_bin(op, x[1], y[1])
    if k == "cond":
        c = ev(t[1])
        if c[0] != OK:
            return c
        r = ev(t[2]) if c[1] != 0 else ev(t[3])
        if r[0] == OK and (typ(t[2]) or typ(t[3])) and r[1] < 0:
            return (UNS, 0)
        return r
    raise ValueError(t)


def ev_exact(t):
    """ev_exact0 restricted to intmax_t: None as soon as the exact value leaves 64 bits somewhere"""
    try:
        return _ev_exact(t)
    except OverflowError:
        return None


def _chk64(x):
    if x is not None and not -(1 << 63) <= x < (1 << 63):
        raise OverflowError
    return x


def _ev_exact(t):
    """The value of an int-typed tree in exact integer arithmetic (what the preprocessor, which evaluates in
    intmax_t, computes for it), or None where even that has no value.  Only used for the class `ovf`:
    C++ gives such an expression no value, a tool that evaluates in a wider type may report the exact value
    when that fits in int."""
    k = t[0]
    if k in ("lit", "ulit"):
        return t[1]
    if k == "sp":
        return t[2]
    if k == "big":
        return None
    if k == "un":
        x = _ev_exact(t[2])
        if x is None:
            return None
        return _chk64({"+": x, "-": -x, "~": ~x, "!": int(x == 0)}[t[1]])
    if k == "cast":
        x = _ev_exact(t[2])
        if x is None:
            return None
        # conversion of the exact value to the target type: modulo 2^N (C++20)
        if t[1] == "bool":
            return int(x != 0)
        bits = {"int": 32, "short": 16, "char": 8}[t[1]]
        return ((x + (1 << (bits - 1))) % (1 << bits)) - (1 << (bits - 1))
    if k == "bin":
        op = t[1]
        x = _ev_exact(t[2])
        if x is None:
            return None
        if op == "&&" and x == 0:
            return 0
        if op == "||" and x != 0:
            return 1
        y = _ev_exact(t[3])
        if y is None:
            return None
        if op in ("&&", "||"):
            return int(y != 0)
        if op in "/%":
            if y == 0:
                return None
            q = _quot(x, y)
            return q if op == "/" else x - q * y
        if op in ("<<", ">>"):
            if y < 0 or y > 31 or (op == "<<" and x < 0):
                return None
            return _chk64(x << y) if op == "<<" else x >> y
        if op in "+-*":
            return _chk64({"+": x + y, "-": x - y, "*": x * y}[op])
        if op in "&|^":
            return {"&": x & y, "|": x | y, "^": x ^ y}[op]
        return int({"<": x < y, ">": x > y, "<=": x <= y, ">=": x >= y, "==": x == y, "!=": x != y}[op])
    c = _ev_exact(t[1])
    if c is None:
        return None
    return _ev_exact(t[2]) if c != 0 else _ev_exact(t[3])


# ---------------------------------------------------------------------------------------------
# token sequences (Toks / FullToks of the spec).  A leaf token is the decimal spelling of the value
# for ["lit", v] and the given text for ["sp", text, v].

def _leaf_tok(t):
    if t[0] == "lit":
        return str(t[1])
    if t[0] == "ulit":
        return "%du" % t[1]
    return t[1]


def _leaf_neg(t):
    if t[0] == "lit":
        return t[1] < 0
    if t[0] in ("ulit", "big"):
        return False
    return t[1].startswith(("-", "+", "!", "~"))


def tprec(t):
    k = t[0]
    if k in ("lit", "sp", "ulit", "big"):
        return PUNARY if _leaf_neg(t) else PPRIMARY
    if k in ("un", "cast"):
        return PUNARY
    if k == "bin":
        return PREC[t[1]]
    return PCOND


def toks_min(t):
    def opd(c, mn):
        s = toks_min(c)
        return ["("] + s + [")"] if tprec(c) < mn else s
    k = t[0]
    if k in ("lit", "sp", "ulit", "big"):
        return [_leaf_tok(t)]
    if k == "un":
        return [t[1]] + opd(t[2], PUNARY)
    if k == "cast":
        return ["(", t[1], ")"] + opd(t[2], PUNARY)
    if k == "bin":
        p = PREC[t[1]]
        return opd(t[2], p) + [t[1]] + opd(t[3], p + 1)
    return opd(t[1], PCOND + 1) + ["?"] + toks_min(t[2]) + [":"] + opd(t[3], PCOND)


def toks_full(t):
    k = t[0]
    if k in ("lit", "sp", "ulit", "big"):
        return ["(", _leaf_tok(t), ")"] if _leaf_neg(t) else [_leaf_tok(t)]
    if k == "un":
        return ["(", t[1]] + toks_full(t[2]) + [")"]
    if k == "cast":
        return ["(", "(", t[1], ")"] + toks_full(t[2]) + [")"]
    if k == "bin":
        return ["("] + toks_full(t[2]) + [t[1]] + toks_full(t[3]) + [")"]
    return ["("] + toks_full(t[1]) + ["?"] + toks_full(t[2]) + [":"] + toks_full(t[3]) + [")"]


def join(tokens, spaced=False):
    """Token sequence -> source text.  spaced: one blank between all tokens.  Otherwise binary
    operators and ?: are surrounded by blanks, parentheses, casts and unary operators are glued to
    their operand unless that would form another token (`- -1`, `+ +1`)."""
    if spaced:
        return " ".join(tokens)
    out = []
    want_operand = True
    i, n = 0, len(tokens)
    while i < n:
        tk = tokens[i]
        if want_operand:
            if tk == "(" and i + 2 < n and tokens[i + 1] in ("int", "bool", "char", "short") and tokens[i + 2] == ")":
                out.append("(" + tokens[i + 1] + ")")
                i += 3
                continue
            if tk == "(":
                out.append("(")
            elif tk in ("+", "-", "~", "!"):
                nxt = tokens[i + 1]
                out.append(tk + (" " if tk in "+-" and nxt[0] == tk else ""))
            else:
                out.append(tk)
                want_operand = False
        else:
            if tk == ")":
                out.append(")")
            else:
                out.append(" " + tk + " ")
                want_operand = True
        i += 1
    return "".join(out)


# ---------------------------------------------------------------------------------------------
# NumLex mirror: spelling -> (kind, value, base, suffix, prefix) or None when the text is not a complete literal

VALID_SUF = {"u", "U", "l", "L", "ll", "LL", "ul", "uL", "Ul", "UL", "lu", "lU", "Lu", "LU",
             "ull", "uLL", "Ull", "ULL", "llu", "llU", "LLu", "LLU"}
SIMPLE_ESC = {"n": 10, "t": 9, "r": 13, "v": 11, "a": 7, "b": 8, "f": 12, "\\": 92, "'": 39, '"': 34, "?": 63}
_HEX = "0123456789abcdef"


def _dig(c, base):
    i = _HEX.find(c.lower())
    return i if 0 <= i < base else None


def lex_literal(text):
    if not text:
        return None
    for pfx in ("u8", "L", "u", "U"):
        if text.startswith(pfx + "'"):
            return _lex_char(text[len(pfx):], pfx)
    if text[0] == "'":
        return _lex_char(text)
    if text[0] not in "0123456789":
        return None
    i, n = 0, len(text)
    base = 10
    if text[0] == "0":
        base = 8
        i = 1
        if n > 1 and text[1] in "xX":
            base, i = 16, 2
        elif n > 1 and text[1] in "bB":
            base, i = 2, 2
        if base != 8 and (i >= n or _dig(text[i], base) is None):
            return None
    val = 0
    last_digit = base == 8     # the leading 0 of an octal literal is a digit
    while i < n:
        c = text[i]
        d = _dig(c, base)
        if d is not None:
            val = val * base + d
            if val > INT_MAX:
                return None
            last_digit = True
        elif c == "'":
            if not last_digit or i + 1 >= n or _dig(text[i + 1], base) is None:
                return None
            last_digit = False
        else:
            break
        i += 1
    suf = text[i:]
    if suf and suf not in VALID_SUF:
        return None
    return ("int", val, base, suf, "")


CHAR_MAX = {"": 127, "u8": 127, "u": 65535, "L": INT_MAX, "U": INT_MAX}


def _lex_char(text, pfx=""):
    """plain / u8: value 0..127; L, u, U: the code unit (never negative); \\x takes every hex digit"""
    mx = CHAR_MAX[pfx]
    if len(text) < 3 or text[-1] != "'":
        return None
    body = text[1:-1]
    if body[0] != "\\":
        if len(body) != 1 or body == "'" or ord(body) > 127 or ord(body) < 32:
            return None
        return ("chr", ord(body), 10, "", pfx)
    e = body[1:]
    if not e:
        return None
    if e in SIMPLE_ESC:
        return ("chr", SIMPLE_ESC[e], 10, "", pfx)
    if e[0] == "u" and pfx in ("L", "u", "U"):
        # universal character name: exactly four hex digits, a code point that is neither a surrogate
        # nor below 0xA0
        if len(e) != 5 or any(_dig(c, 16) is None for c in e[1:]):
            return None
        v = int(e[1:], 16)
        return ("chr", v, 16, "", pfx) if 160 <= v <= mx and not 0xD800 <= v <= 0xDFFF else None
    if e[0] == "x":
        if len(e) < 2 or any(_dig(c, 16) is None for c in e[1:]):
            return None
        v = int(e[1:], 16)
        return ("chr", v, 16, "", pfx) if v <= mx else None
    if 1 <= len(e) <= 3 and all(_dig(c, 8) is not None for c in e):
        v = int(e, 8)
        return ("chr", v, 8, "", pfx) if v <= mx else None
    return None


# ---------------------------------------------------------------------------------------------
# spellings of a non-negative value (each checked with lex_literal by the caller / self-test)

def _sep(digits, group):
    """digit separators every `group` digits from the right"""
    out = []
    for i, c in enumerate(reversed(digits)):
        if i and i % group == 0:
            out.append("'")
        out.append(c)
    return "".join(reversed(out))


CHAR_SPELL = {0: ["'\\0'", "'\\000'", "'\\x0'"], 7: ["'\\a'", "'\\7'"], 8: ["'\\b'", "'\\010'"], 10: ["'\\n'", "'\\12'", "'\\x0a'"],
              31: ["'\\037'", "'\\x1f'", "'\\x1F'"], 39: ["'\\''", "'\\47'"], 92: ["'\\\\'", "'\\134'"],
              65: ["'A'", "'\\x41'", "'\\101'"], 97: ["'a'", "'\\141'", "'\\x61'"], 48: ["'0'", "'\\60'"],
              1: ["'\\1'", "'\\x01'"], 2: ["'\\2'"], 3: ["'\\003'"], 63: ["'?'", "'\\?'"], 34: ["'\"'", "'\\\"'"],
              32: ["' '", "'\\x20'", "'\\40'"], 127: ["'\\177'", "'\\x7f'"], 9: ["'\\t'", "'\\11'"]}


def char_spellings(v):
    """character-literal spellings of v: the plain ones plus, for 0 <= v <= 0xFFFF, prefixed ones"""
    out = list(CHAR_SPELL.get(v, []))
    if 0 <= v <= 0xFFFF:
        out += ["L'\\x%x'" % v, "u'\\x%X'" % v]
        if v <= 0o777:
            out += ["L'\\%o'" % v, "u'\\%03o'" % v if v <= 0o777 else None]
        if 32 < v < 127 and chr(v) not in "'\\":
            out += ["L'%s'" % chr(v), "u'%s'" % chr(v), "u8'%s'" % chr(v)]
    return [x for x in out if x]


def int_spellings(v, unsigned=False):
    """All numeric spellings of 0 <= v <= INT_MAX used by the renderers: every base, both letter
    cases, digit separators, suffixes.  unsigned: also u-suffixes (the TYPE becomes unsigned: only
    valid for a literal used alone)."""
    assert 0 <= v <= INT_MAX
    dec = str(v)
    hx = "%x" % v
    oc = "0%o" % v if v else "0"
    bn = "%s" % bin(v)[2:]
    base = [dec, "0x" + hx, "0X" + hx.upper(), oc, "0b" + bn, "0B" + bn, "0x" + hx.upper(), "0x0" + hx, "0" + oc]
    if len(dec) > 1:
        base += [_sep(dec, 3) if len(dec) > 3 else _sep(dec, 1), _sep(dec, 2)]
    if len(hx) > 1:
        base += ["0x" + _sep(hx, 2), "0X" + _sep(hx.upper(), 4) if len(hx) > 4 else "0x" + _sep(hx.upper(), 1)]
    if len(oc) > 2:
        base += [_sep(oc, 3), "0'" + oc[1:]]
    if len(bn) > 1:
        base += ["0b" + _sep(bn, 4) if len(bn) > 4 else "0b" + _sep(bn, 1)]
    out = []
    sufs = ["", "l", "L", "ll", "LL"] + (["u", "U", "ul", "LU", "ull", "LLu"] if unsigned else [])
    for i, b in enumerate(base):
        out.append(b)
        out.append(b + sufs[1 + i % (len(sufs) - 1)])
    seen, res = set(), []
    for s in out:
        if s not in seen:
            seen.add(s)
            res.append(s)
    return res


def spell_value(v, k, refs=None, pp=False):
    """k-th spelling (cyclic) of the integer v as a primary / unary expression: numeric literal in some
    base, character literal where one exists, or a reference from `refs` (value -> list of names).
    pp: the spelling is for a #if expression."""
    a = abs(v)
    cand = int_spellings(a) + (char_spellings(a) if a in CHAR_SPELL or a in (255, 256) else [])
    if pp:
        # in #if a char16_t / char32_t / char8_t literal is an UNSIGNED operand (uintmax_t arithmetic);
        # wide literals are left to the literal cases as well (vf/condexpr.py keeps to plain ones)
        cand = [s for s in cand if not s.startswith(("u'", "U'", "u8'", "L'"))]
    cand = [("-" + s if v < 0 else s) for s in cand]
    if refs and v in refs:
        cand = cand + list(refs[v])
        # references and literals alternate so that every reference kind is used often
        k2 = k // 2
        if k % 2:
            return refs[v][k2 % len(refs[v])]
        k = k2
    return cand[k % len(cand)]


def unsigned_spellings(v):
    """spellings of 0 <= v <= INT_MAX of type unsigned int (u / U suffix)"""
    seen, out = set(), []
    for x in int_spellings(v):
        b = x.rstrip("lL")
        for sfx in ("u", "U"):
            if b + sfx not in seen:
                seen.add(b + sfx)
                out.append(b + sfx)
    return out


def respell(t, pick):
    """Replace every ["lit", v] leaf by ["sp", text, v] with text = pick(v, leaf_index), every
    ["ulit", v] leaf by ["sp", unsigned spelling, v, True]; ["big", text] leaves stay."""
    n = [0]

    def go(x):
        if x[0] == "lit":
            n[0] += 1
            return ["sp", pick(x[1], n[0]), x[1]]
        if x[0] == "ulit":
            n[0] += 1
            us = unsigned_spellings(x[1])
            return ["sp", us[(n[0] * 5 + x[1]) % len(us)], x[1], True]
        if x[0] in ("sp", "big"):
            return x
        return [x[0]] + [go(c) if isinstance(c, list) else c for c in x[1:]]
    return go(t)
